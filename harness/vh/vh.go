// Package vh holds the pieces shared by every correspondence stream:
// a single seeded PRNG, Coq term emitters, and the result files the
// check driver reads.
package vh

import (
	"encoding/json"
	"fmt"
	"os"
	"path/filepath"
	"sort"
	"strings"
)

// ---------------------------------------------------------------- PRNG

// Rand is splitmix64: every random choice of a run derives from one state.
type Rand struct{ s uint64 }

func NewRand(seed uint64) *Rand {
	// The state must not be an affine function of the seed with the stream's own
	// increment (consecutive seeds would then yield the same stream shifted by one
	// draw): scramble the seed first.
	z := seed + 0x632BE59BD9B4E019
	z = (z ^ (z >> 30)) * 0xBF58476D1CE4E5B9
	z = (z ^ (z >> 27)) * 0x94D049BB133111EB
	z ^= z >> 31
	return &Rand{s: z*0xD1342543DE82EF95 + 0x1234567}
}

func (r *Rand) U64() uint64 {
	r.s += 0x9E3779B97F4A7C15
	z := r.s
	z = (z ^ (z >> 30)) * 0xBF58476D1CE4E5B9
	z = (z ^ (z >> 27)) * 0x94D049BB133111EB
	return z ^ (z >> 31)
}
func (r *Rand) Intn(n int) int {
	if n <= 0 {
		return 0
	}
	return int(r.U64() % uint64(n))
}
func (r *Rand) Bool() bool        { return r.U64()&1 == 1 }
func (r *Rand) Chance(p int) bool { return r.Intn(100) < p } // p percent
func (r *Rand) Range(lo, hi int) int {
	if hi <= lo {
		return lo
	}
	return lo + r.Intn(hi-lo+1)
}
func (r *Rand) Bytes(n int) []byte {
	b := make([]byte, n)
	for i := range b {
		b[i] = byte(r.U64())
	}
	return b
}
func Pick[T any](r *Rand, xs []T) T { return xs[r.Intn(len(xs))] }

// Fork derives an independent stream (so that adding draws in one stream
// does not shift another).
func (r *Rand) Fork(label string) *Rand {
	h := uint64(1469598103934665603)
	for _, c := range []byte(label) {
		h = (h ^ uint64(c)) * 1099511628211
	}
	return NewRand(r.s ^ h)
}

// ---------------------------------------------------------------- Coq terms

// NList renders a list of naturals as a Coq list of N (scope N_scope open).
func NList[T ~int | ~uint8 | ~int32 | ~uint64 | ~int64 | ~uint32](xs []T) string {
	var sb strings.Builder
	sb.WriteByte('[')
	for i, x := range xs {
		if i > 0 {
			sb.WriteByte(';')
		}
		fmt.Fprintf(&sb, "%d", uint64(x))
	}
	sb.WriteByte(']')
	return sb.String()
}

// BytesTerm renders a Go string as list of its bytes.
func BytesTerm(s string) string { return NList([]byte(s)) }

// RunesTerm renders a Go string as list of code points as []rune(s) sees them.
func RunesTerm(s string) string { return NList([]rune(s)) }

func BoolTerm(b bool) string {
	if b {
		return "true"
	}
	return "false"
}

// ZTerm renders an int64 as a Coq Z literal in parentheses.
func ZTerm(v int64) string { return fmt.Sprintf("(%d)%%Z", v) }

// CoqString renders s as a Coq string literal (ASCII printable only; others replaced by '?').
func CoqString(s string) string {
	var sb strings.Builder
	sb.WriteByte('"')
	for _, c := range []byte(s) {
		switch {
		case c == '"':
			sb.WriteString(`""`)
		case c >= 32 && c < 127:
			sb.WriteByte(c)
		default:
			sb.WriteByte('?')
		}
	}
	sb.WriteByte('"')
	return sb.String()
}

// CasesFile accumulates one cases_<n>.v shard.
type CasesFile struct {
	Header string   // Require lines
	Type   string   // Coq type of a case
	Check  string   // Coq function : case -> bool
	Terms  []string // one Coq term per case
	IDs    []int    // case index (global) per term
}

// WriteShards splits the cases into shards of at most per cases and writes
// dir/cases_<k>.v. Each file prints "MISMATCH = [..]" with the *positions*
// (0-based, within the shard) whose check is false.
func (c *CasesFile) WriteShards(dir, stem string, per int) ([]string, error) {
	var files []string
	if per <= 0 {
		per = 500
	}
	for k, off := 0, 0; off < len(c.Terms) || k == 0; k, off = k+1, off+per {
		end := off + per
		if end > len(c.Terms) {
			end = len(c.Terms)
		}
		var sb strings.Builder
		sb.WriteString(c.Header)
		sb.WriteString("\nFrom J5V.lib Require Import Corr.\nImport ListNotations.\nLocal Open Scope N_scope.\nLocal Open Scope string_scope.\n")
		fmt.Fprintf(&sb, "Definition cases : list (%s) := [\n", c.Type)
		for i := off; i < end; i++ {
			if i > off {
				sb.WriteString(";\n")
			}
			sb.WriteString("  ")
			sb.WriteString(c.Terms[i])
		}
		sb.WriteString("\n].\n")
		fmt.Fprintf(&sb, "Definition MISMATCH := Eval vm_compute in failing (%s) cases.\nPrint MISMATCH.\n", c.Check)
		name := filepath.Join(dir, fmt.Sprintf("%s_%d.v", stem, k))
		if err := os.WriteFile(name, []byte(sb.String()), 0o644); err != nil {
			return nil, err
		}
		files = append(files, name)
		if end >= len(c.Terms) {
			break
		}
	}
	return files, nil
}

// ---------------------------------------------------------------- result file

// Failure is one direct-oracle failure: the property evaluated on the real code.
type Failure struct {
	Case   int    `json:"case"`
	Stream string `json:"stream"`
	Sig    string `json:"sig"`    // signature matched against KNOWN_FINDINGS.txt
	Clause string `json:"clause"` // which clause of the property fails
	Input  any    `json:"input"`
	Got    any    `json:"got"`
	Want   any    `json:"want,omitempty"`
}

// CaseRec lets the driver map a model/impl mismatch back to an input.
type CaseRec struct {
	Case   int    `json:"case"`
	Stream string `json:"stream"`
	Shard  string `json:"shard"` // stem of the shard file
	Pos    int    `json:"pos"`   // position inside the shard file
	Input  any    `json:"input"`
	Impl   any    `json:"impl"`
}

type Result struct {
	Property     string         `json:"property"`
	Seed         uint64         `json:"seed"`
	Evaluations  int            `json:"evaluations"`
	Distinct     int            `json:"distinct_nontrivial"`
	Rule         string         `json:"rule"`
	Samples      []any          `json:"samples"`
	Distribution map[string]int `json:"distribution"`
	Failures     []Failure      `json:"failures"`
	Cases        []CaseRec      `json:"cases"`
	Shards       []string       `json:"shards"`
	Notes        []string       `json:"notes,omitempty"`
}

func NewResult(prop string, seed uint64) *Result {
	return &Result{Property: prop, Seed: seed, Distribution: map[string]int{}, Failures: []Failure{}, Cases: []CaseRec{}, Samples: []any{}}
}

func (r *Result) Count(k string) { r.Distribution[k]++ }

func (r *Result) Fail(f Failure) { r.Failures = append(r.Failures, f) }

func (r *Result) Sample(v any, max int) {
	if len(r.Samples) < max {
		r.Samples = append(r.Samples, v)
	}
}

func (r *Result) Write(dir string) error {
	sort.SliceStable(r.Failures, func(i, j int) bool { return r.Failures[i].Case < r.Failures[j].Case })
	b, err := json.MarshalIndent(r, "", " ")
	if err != nil {
		return err
	}
	return os.WriteFile(filepath.Join(dir, "result.json"), b, 0o644)
}

// Distinct counts distinct keys.
type Distinct map[string]struct{}

func (d Distinct) Add(k string) { d[k] = struct{}{} }

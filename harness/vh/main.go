// run_<family> binaries run the implementation side of one property's correspondence
// stream and its direct oracle, and writes cases_*.v + result.json.
package vh

import (
	"flag"
	"runtime/pprof"
	"fmt"
	"os"
	"sort"
)

type runner func(cfg *Config) error

type Config struct {
	Prop   string
	Seed   uint64
	Tier   string
	N      int // scale factor: base number of cases
	Out    string
	Replay string
	Mult   int
	R      *Rand
}

var registry = map[string]runner{}

// Register adds a property runner; called from init() of each cXX.go.
func Register(name string, r func(cfg *Config) error) { registry[name] = r }

// Main is the entry point shared by every run_<family> binary.
func Main() {
	cfg := &Config{}
	flag.StringVar(&cfg.Prop, "prop", "", "property id (C01..C20)")
	flag.Uint64Var(&cfg.Seed, "seed", 1, "PRNG seed")
	flag.StringVar(&cfg.Tier, "tier", "quick", "quick|thorough")
	flag.IntVar(&cfg.N, "n", 0, "number of cases (0 = tier default)")
	flag.StringVar(&cfg.Out, "out", "", "output directory")
	flag.StringVar(&cfg.Replay, "replay", "", "replay file")
	flag.IntVar(&cfg.Mult, "mult", 1, "multiply the tier's case counts (search mode)")
	flag.Parse()
	r, ok := registry[cfg.Prop]
	if !ok {
		var names []string
		for k := range registry {
			names = append(names, k)
		}
		sort.Strings(names)
		fmt.Fprintf(os.Stderr, "unknown property %q; have %v\n", cfg.Prop, names)
		os.Exit(2)
	}
	if cfg.Out == "" {
		fmt.Fprintln(os.Stderr, "-out required")
		os.Exit(2)
	}
	if err := os.MkdirAll(cfg.Out, 0o755); err != nil {
		fmt.Fprintln(os.Stderr, err)
		os.Exit(2)
	}
	cfg.R = NewRand(cfg.Seed)
	if pf := os.Getenv("VERIF_CPUPROFILE"); pf != "" {
		if f, err := os.Create(pf); err == nil {
			pprof.StartCPUProfile(f)
			defer pprof.StopCPUProfile()
		}
	}
	if err := r(cfg); err != nil {
		fmt.Fprintf(os.Stderr, "j5run %s: %v\n", cfg.Prop, err)
		os.Exit(3)
	}
}

// Scale returns the case count for the tier (times -mult), or -n when given.
func (c *Config) Scale(quick, thorough int) int {
	if c.N > 0 {
		return c.N
	}
	m := c.Mult
	if m < 1 {
		m = 1
	}
	if c.Tier == "thorough" {
		return thorough * m
	}
	return quick * m
}

package j5sgen

import (
	"fmt"
	"strings"

	"github.com/iancoleman/strcase"
	"verifharness/vh"
)

// Append edits on files that declare entities (coq/model/J5sEntityEdit.v: ebundle, eedit): a key,
// a data field, a status, an event appended to an entity; a field appended to an existing event; a
// declaration or a new entity appended to the file; a field appended to a plain declaration of such
// a file. Each edit is applied to the bundle in place and recorded as a term of J5sEntityEdit.eedit.

// ECoq: the bundle as a term of J5sEntityEdit.ebundle (every source file with its root elements
// as eelement, entities unexpanded).
func (b *Bundle) ECoq() string {
	var items []string
	for _, f := range b.Files {
		var imps, els []string
		for _, i := range f.Imports {
			imps = append(imps, fmt.Sprintf("(mkImport %s %s)", S(i.Path), S(i.Alias)))
		}
		for _, e := range f.Elements {
			if e.Kind == "entity" {
				els = append(els, "XEntity "+e.Entity.Coq())
			} else {
				els = append(els, "XPlain "+e.Coq())
			}
		}
		items = append(items, fmt.Sprintf("EBJ %s %s %s\n    [%s]", strList(f.Dir), S(f.Base), list(imps), strings.Join(els, ";\n     ")))
	}
	for _, f := range b.PFiles {
		items = append(items, "EBP "+f.Coq())
	}
	return "[" + strings.Join(items, ";\n   ") + "]"
}

type EntEditRec struct {
	Kind   string `json:"kind"` // key urlkey data status event eventfield decl entity plainfield
	Target string `json:"target"`
	What   string `json:"what"`
	Coq    string `json:"coq"`
	// URLKey: a key-typed key that is primary or shard (goes into the URL and the requests of the
	// query methods): the class outside C13_entity_histories
	URLKey bool   `json:"url_key,omitempty"`
	Entity string `json:"entity,omitempty"`
}

var extraWords = []string{"Alpha", "Beta", "Gamma", "Delta", "Omega", "Sigma", "Kappa", "Theta"}

func (e *Entity) keyCoq(k *EKey) string {
	return fmt.Sprintf("(mkEkey %s %s %s)", k.P.Coq(), coqBool(k.Primary), coqBool(k.Shard))
}

// IsURLKey: acceptQuery puts the key into the HTTP path and the request of Get / Events (List: shard keys).
func IsURLKey(k *EKey) bool { return isKeyField(k.P.F) && (k.Primary || k.Shard) }

// ApplyEntityEdits applies n random entity edits to the entity files of pkg (in place). urlKeys:
// how many of them append a URL key (0 for the class of the theorem).
func ApplyEntityEdits(r *vh.Rand, b *Bundle, pkg string, n int, urlKeys int) []EntEditRec {
	var recs []EntEditRec
	used := map[string]bool{}
	fresh := func(prefix string) string {
		for tries := 0; tries < 100; tries++ {
			w := prefix + vh.Pick(r, extraWords)
			if tries > 20 {
				w += vh.Pick(r, extraWords)
			}
			if !used[w] {
				used[w] = true
				return w
			}
		}
		return prefix + "Zeta"
	}
	type site struct {
		fi, ei int
		f      *File
		e      *Entity
	}
	for guard := 0; len(recs) < n && guard < 50; guard++ {
		var ents []site
		var files []int
		for fi, f := range b.Files {
			if f.Package() != pkg || !f.HasEntity() {
				continue
			}
			files = append(files, fi)
			for ei, el := range f.Elements {
				if el.Kind == "entity" {
					ents = append(ents, site{fi, ei, f, el.Entity})
				}
			}
		}
		if len(ents) == 0 {
			return recs
		}
		s := ents[r.Intn(len(ents))]
		at := fmt.Sprintf("%s: entity %s", s.f.Path(), s.e.Name)
		ent := func(kind, what, action string) {
			recs = append(recs, EntEditRec{Kind: kind, Target: at, What: what, Entity: s.e.Name,
				Coq: fmt.Sprintf("XEnt %d %d (%s)", s.fi, s.ei, action)})
		}
		if urlKeys > 0 {
			urlKeys--
			k := &EKey{P: prop(fresh("extraKey"), key(vh.Pick(r, []string{"id62", "uuid", ""}))), Primary: r.Chance(60)}
			k.Shard = !k.Primary || r.Chance(30)
			s.e.Keys = append(s.e.Keys, k)
			ent("urlkey", fmt.Sprintf("key %s primary=%v shard=%v", k.P.Name, k.Primary, k.Shard), "XKey "+s.e.keyCoq(k))
			recs[len(recs)-1].URLKey = true
			continue
		}
		switch c := r.Intn(100); {
		case c < 18: // a key that stays out of the URL: any scalar, or a key-typed field that is neither primary nor shard
			k := &EKey{P: prop(fresh("extraKey"), str("string"))}
			switch r.Intn(3) {
			case 0:
				k.P.F = key(vh.Pick(r, []string{"id62", "uuid", ""}))
			case 1:
				k.Shard = true // ignored: not a key-typed field
				k.P.Required = r.Bool()
			}
			s.e.Keys = append(s.e.Keys, k)
			ent("key", "key "+k.P.Name, "XKey "+s.e.keyCoq(k))
		case c < 36:
			p := prop(fresh("extraData"), vh.Pick(r, []*Field{str("string"), str("bool"), key("id62"), {Kind: "array", Item: str("string")}}))
			s.e.Data = append(s.e.Data, p)
			ent("data", "data "+p.Name, "XData "+p.Coq())
		case c < 52:
			o := strings.ToUpper(strcase.ToSnake(fresh("Extra")))
			s.e.Status = append(s.e.Status, o)
			ent("status", "status "+o, "XStatus "+S(o))
		case c < 66:
			ev := &EEvent{Name: fresh("Extra")}
			if r.Bool() {
				ev.Fields = []*Property{prop(fresh("extraField"), str("string"))}
			}
			s.e.Events = append(s.e.Events, ev)
			ent("event", "event "+ev.Name, fmt.Sprintf("XEvent (mkEevent %s %s)", S(ev.Name), PropsCoq(ev.Fields)))
		case c < 80 && len(s.e.Events) > 0:
			i := r.Intn(len(s.e.Events))
			p := prop(fresh("extraField"), vh.Pick(r, []*Field{str("string"), str("bool"), key("uuid")}))
			s.e.Events[i].Fields = append(s.e.Events[i].Fields, p)
			ent("eventfield", fmt.Sprintf("event %s field %s", s.e.Events[i].Name, p.Name), fmt.Sprintf("XEventField %d %s", i, p.Coq()))
		case c < 88: // a plain declaration at the end of the file
			fi := files[r.Intn(len(files))]
			el := object(fresh("Extra")+"Obj", prop("x", str("string")))
			b.Files[fi].Elements = append(b.Files[fi].Elements, el)
			recs = append(recs, EntEditRec{Kind: "decl", Target: b.Files[fi].Path(), What: "object " + el.N.Name,
				Coq: fmt.Sprintf("XAppend %d (XPlain %s)", fi, el.Coq())})
		case c < 94: // a new entity at the end of the file
			fi := files[r.Intn(len(files))]
			name := fresh("Extra") + "Thing"
			ne := &Entity{Name: name,
				Keys:   []*EKey{{P: prop(strcase.ToLowerCamel(name)+"Id", key("id62")), Primary: true}},
				Data:   []*Property{prop("name", str("string"))},
				Status: []string{"ACTIVE"},
				Events: []*EEvent{{Name: "Made"}}}
			b.Files[fi].Elements = append(b.Files[fi].Elements, &Element{Kind: "entity", Entity: ne})
			recs = append(recs, EntEditRec{Kind: "entity", Target: b.Files[fi].Path(), What: "entity " + name,
				Coq: fmt.Sprintf("XAppend %d (XEntity %s)", fi, ne.Coq())})
		default: // a field at the end of a plain object of the file
			var cands []int
			for ei, el := range s.f.Elements {
				if el.Kind == "object" {
					cands = append(cands, ei)
				}
			}
			if len(cands) == 0 {
				continue
			}
			ei := cands[r.Intn(len(cands))]
			p := prop(fresh("extraPlain"), str("string"))
			s.f.Elements[ei].N.Props = append(s.f.Elements[ei].N.Props, p)
			recs = append(recs, EntEditRec{Kind: "plainfield", Target: s.f.Path() + ": " + s.f.Elements[ei].N.Name, What: "field " + p.Name,
				Coq: fmt.Sprintf("XPlainAt %d %d (EAppendField %d %d %s)", s.fi, ei, s.fi, ei, p.Coq())})
		}
	}
	return recs
}

// EntityEditCorpus: hand-written pairs of the entity stream.
func EntityEditCorpus() []struct {
	Name          string
	Before, After *Bundle
	Pkg           string
	Edits         []EntEditRec
} {
	foo := func(keys []*EKey, extra ...*Element) *Bundle {
		els := []*Element{
			{Kind: "entity", Entity: &Entity{Name: "Foo",
				Keys:   keys,
				Data:   []*Property{prop("name", str("string"))},
				Status: []string{"ACTIVE", "INACTIVE"},
				Events: []*EEvent{{Name: "Create", Fields: []*Property{prop("name", str("string"))}}, {Name: "Archive"}}}}}
		return &Bundle{Files: []*File{file([]string{"foo", "v1"}, "a", append(els, extra...)...)}}
	}
	k0 := &EKey{P: prop("fooId", key("id62")), Primary: true}
	k1 := &EKey{P: prop("tenantId", key("id62")), Primary: true}
	k2 := &EKey{P: prop("region", str("string"))}
	e := &Entity{}
	return []struct {
		Name          string
		Before, After *Bundle
		Pkg           string
		Edits         []EntEditRec
	}{
		// the witness of C13_entity_append_url_key_witness / C13_entity_full_refuted
		{"entity-append-primary-key", foo([]*EKey{k0}), foo([]*EKey{k0, k1}), "foo.v1",
			[]EntEditRec{{Kind: "urlkey", Target: "foo/v1/a.j5s: entity Foo", What: "key tenantId primary", URLKey: true, Entity: "Foo",
				Coq: "XEnt 0 0 (XKey " + e.keyCoq(k1) + ")"}}},
		// control: a key that is not a URL key
		{"entity-append-plain-key", foo([]*EKey{k0}), foo([]*EKey{k0, k2}), "foo.v1",
			[]EntEditRec{{Kind: "key", Target: "foo/v1/a.j5s: entity Foo", What: "key region", Entity: "Foo",
				Coq: "XEnt 0 0 (XKey " + e.keyCoq(k2) + ")"}}},
	}
}

// ---- a message appended to a publish topic (outside J5sEdit.edit: the pair is compared as printed)

type TopicMsgRec struct {
	Kind   string `json:"kind"` // topicmsg
	Target string `json:"target"`
	What   string `json:"what"`
	// Single: the topic had exactly one message (with a name of its own) before the append
	Single bool `json:"single_message_before"`
}

// AppendTopicMessage appends a named message to a publish topic of pkg all of whose messages carry
// names of their own (a message without a name is named after the topic and cannot get a sibling
// by an append), preferring topics with exactly one message. nil when the package has no such topic.
func AppendTopicMessage(r *vh.Rand, b *Bundle, pkg string) *TopicMsgRec {
	type site struct {
		f *File
		t *Topic
	}
	var single, multi []site
	for _, f := range b.Files {
		if f.Package() != pkg {
			continue
		}
		for _, el := range f.Elements {
			if el.Kind != "topic" || el.Topic.Kind != "publish" || len(el.Topic.Msgs) == 0 {
				continue
			}
			named := true
			for _, m := range el.Topic.Msgs {
				named = named && m.Name != nil && *m.Name != el.Topic.Name
			}
			if !named {
				continue
			}
			if len(el.Topic.Msgs) == 1 {
				single = append(single, site{f, el.Topic})
			} else {
				multi = append(multi, site{f, el.Topic})
			}
		}
	}
	cands := single
	if len(cands) == 0 || (len(multi) > 0 && r.Chance(25)) {
		cands = multi
	}
	if len(cands) == 0 {
		return nil
	}
	s := cands[r.Intn(len(cands))]
	name := "Extra" + vh.Pick(r, extraWords) + vh.Pick(r, extraWords)
	m := &Tmsg{Name: &name}
	if r.Chance(70) {
		m.Fields = []*Property{prop("extraField", str("string"))}
	}
	rec := &TopicMsgRec{Kind: "topicmsg", Target: fmt.Sprintf("%s: topic %s", s.f.Path(), s.t.Name), What: "message " + name, Single: len(s.t.Msgs) == 1}
	s.t.Msgs = append(s.t.Msgs, m)
	return rec
}

// TopicMsgCorpus: `topic Orders publish { message OrderPlaced {...} }` + `message OrderShipped {...}`.
func TopicMsgCorpus() (before, after *Bundle, pkg string, rec *TopicMsgRec) {
	mk := func(names ...string) *Bundle {
		t := &Topic{Kind: "publish", Name: "Orders"}
		for _, n := range names {
			n := n
			t.Msgs = append(t.Msgs, &Tmsg{Name: &n, Fields: []*Property{prop("orderId", str("string"))}})
		}
		return &Bundle{Files: []*File{file([]string{"foo", "v1"}, "a", &Element{Kind: "topic", Topic: t})}}
	}
	return mk("OrderPlaced"), mk("OrderPlaced", "OrderShipped"), "foo.v1",
		&TopicMsgRec{Kind: "topicmsg", Target: "foo/v1/a.j5s: topic Orders", What: "message OrderShipped", Single: true}
}

package j5sgen

import (
	"fmt"
	"strings"
)

// S renders a Go string as a Coq byte list.
// S renders a byte string as a Coq term of type J5sAst.str: (b "text") for printable ASCII
// (a string literal parses an order of magnitude faster than a list of numerals - the case
// files are dominated by names), the list of byte values otherwise.
func S(s string) string {
	plain := s != ""
	for _, c := range []byte(s) {
		if c < 32 || c > 126 || c == '"' {
			plain = false
		}
	}
	if plain {
		return "(b \"" + s + "\")"
	}
	var sb strings.Builder
	sb.WriteByte('[')
	for i, c := range []byte(s) {
		if i > 0 {
			sb.WriteByte(';')
		}
		fmt.Fprintf(&sb, "%d", c)
	}
	sb.WriteByte(']')
	return sb.String()
}

func list(items []string) string { return "[" + strings.Join(items, "; ") + "]" }

func coqBool(b bool) string {
	if b {
		return "true"
	}
	return "false"
}

func (s *Scalar) Coq() string {
	switch s.Kind {
	case "string":
		return "SString"
	case "bool":
		return "SBool"
	case "bytes":
		return "SBytes"
	case "integer":
		return "(SInt " + map[string]string{"INT32": "I32", "INT64": "I64", "UINT32": "U32", "UINT64": "U64"}[s.Fmt] + ")"
	case "float":
		return "(SFloat " + map[string]string{"FLOAT32": "F32", "FLOAT64": "F64"}[s.Fmt] + ")"
	case "timestamp":
		return "STimestamp"
	case "date":
		return "SDate"
	case "decimal":
		return "SDecimal"
	case "key":
		return "(SKey " + map[string]string{"": "KNone", "informal": "KInformal", "id62": "KId62", "uuid": "KUuid"}[s.Fmt] + ")"
	case "any":
		return "SAny"
	}
	panic("scalar " + s.Kind)
}

func (r *Ref) Coq() string { return fmt.Sprintf("(mkRef %s %s)", S(r.Pkg), S(r.Name)) }

func (e *Enum) Coq() string {
	var opts []string
	for _, o := range e.Opts {
		opts = append(opts, S(o))
	}
	return fmt.Sprintf("(mkEnum %s %s %s)", S(e.Name), S(e.Prefix), list(opts))
}

func PropsCoq(ps []*Property) string {
	var items []string
	for _, p := range ps {
		items = append(items, p.Coq())
	}
	return "(mkprops " + list(items) + ")"
}

func (f *Field) Coq() string {
	switch f.Kind {
	case "scalar":
		return "(FScalar " + f.Scalar.Coq() + ")"
	case "objref":
		return "(FObjRef " + f.Ref.Coq() + ")"
	case "oneofref":
		return "(FOneofRef " + f.Ref.Coq() + ")"
	case "enumref":
		return "(FEnumRef " + f.Ref.Coq() + ")"
	case "objinline":
		return fmt.Sprintf("(FObjInline %s %s)", S(f.Name), PropsCoq(f.Props))
	case "oneofinline":
		return fmt.Sprintf("(FOneofInline %s %s)", S(f.Name), PropsCoq(f.Props))
	case "enuminline":
		return "(FEnumInline " + f.Enum.Coq() + ")"
	case "array":
		return "(FArray " + f.Item.Coq() + ")"
	case "map":
		return "(FMap " + f.Item.Coq() + ")"
	}
	panic("field " + f.Kind)
}

func (p *Property) Coq() string {
	return fmt.Sprintf("(Property %s %s %s %s)", S(p.Name), coqBool(p.Required), coqBool(p.Optional), p.F.Coq())
}

func nestedsCoq(ns []*Nested) string {
	var items []string
	for _, n := range ns {
		items = append(items, n.Coq())
	}
	return "(mknesteds " + list(items) + ")"
}

func (n *Nested) Coq() string {
	switch n.Kind {
	case "object":
		return fmt.Sprintf("(NObject %s %s %s)", S(n.Name), PropsCoq(n.Props), nestedsCoq(n.Subs))
	case "oneof":
		return fmt.Sprintf("(NOneof %s %s %s)", S(n.Name), PropsCoq(n.Props), nestedsCoq(n.Subs))
	case "enum":
		return "(NEnum " + n.Enum.Coq() + ")"
	}
	panic("nested " + n.Kind)
}

func (m *Method) Coq() string {
	resp := "None"
	if m.HasResp {
		resp = "(Some " + PropsCoq(m.Response) + ")"
	}
	verb := map[string]string{"GET": "VGet", "POST": "VPost", "PUT": "VPut", "DELETE": "VDelete", "PATCH": "VPatch"}[m.Verb]
	return fmt.Sprintf("(mkMethod %s %s %s %s %s)", S(m.Name), verb, S(m.Path), PropsCoq(m.Request), resp)
}

func (s *Service) Coq() string {
	base := "None"
	if s.Base != nil {
		base = "(Some " + S(*s.Base) + ")"
	}
	var ms []string
	for _, m := range s.Methods {
		ms = append(ms, m.Coq())
	}
	return fmt.Sprintf("(mkService %s %s %s)", S(s.Name), base, list(ms))
}

func (t *Tmsg) Coq() string {
	nm := "None"
	if t.Name != nil {
		nm = "(Some " + S(*t.Name) + ")"
	}
	return fmt.Sprintf("(mkTmsg %s %s)", nm, PropsCoq(t.Fields))
}

func tmsgsCoq(l []*Tmsg) string {
	var items []string
	for _, t := range l {
		items = append(items, t.Coq())
	}
	return list(items)
}

func (t *Topic) Coq() string {
	switch t.Kind {
	case "publish":
		return fmt.Sprintf("(TPublish %s %s)", S(t.Name), tmsgsCoq(t.Msgs))
	case "reqres":
		return fmt.Sprintf("(TReqRes %s %s %s)", S(t.Name), tmsgsCoq(t.Req), tmsgsCoq(t.Reply))
	case "upsert":
		return fmt.Sprintf("(TUpsert %s %s %s)", S(t.Name), S(t.Entity), t.Msgs[0].Coq())
	case "event":
		return fmt.Sprintf("(TEvent %s %s %s)", S(t.Name), S(t.Entity), t.Msgs[0].Coq())
	}
	panic("topic " + t.Kind)
}

func (e *Element) Coq() string {
	switch e.Kind {
	case "object":
		return fmt.Sprintf("(EObject %s %s %s)", S(e.N.Name), PropsCoq(e.N.Props), nestedsCoq(e.N.Subs))
	case "oneof":
		return fmt.Sprintf("(EOneof %s %s %s)", S(e.N.Name), PropsCoq(e.N.Props), nestedsCoq(e.N.Subs))
	case "enum":
		return "(EEnum " + e.N.Enum.Coq() + ")"
	case "service":
		return "(EService " + e.Service.Coq() + ")"
	case "topic":
		return "(ETopic " + e.Topic.Coq() + ")"
	}
	panic("element " + e.Kind)
}

func strList(l []string) string {
	var items []string
	for _, s := range l {
		items = append(items, S(s))
	}
	return list(items)
}

func (f *File) Coq() string {
	var imps, els []string
	for _, i := range f.Imports {
		imps = append(imps, fmt.Sprintf("(mkImport %s %s)", S(i.Path), S(i.Alias)))
	}
	if f.HasEntity() {
		// a file with entities: J5sEntity.expand_jfile replaces every entity by the elements it stands for
		for _, e := range f.Elements {
			if e.Kind == "entity" {
				els = append(els, "XEntity "+e.Entity.Coq())
			} else {
				els = append(els, "XPlain "+e.Coq())
			}
		}
		return fmt.Sprintf("(expand_jfile %s %s %s\n    %s)", strList(f.Dir), S(f.Base), list(imps), "["+strings.Join(els, ";\n     ")+"]")
	}
	for _, e := range f.Elements {
		els = append(els, e.Coq())
	}
	return fmt.Sprintf("(mkJfile %s %s %s\n    %s)", strList(f.Dir), S(f.Base), list(imps), "["+strings.Join(els, ";\n     ")+"]")
}

func (f *PFile) Coq() string {
	msgs := f.Msgs
	if f.Holder != "" {
		msgs = append(append([]string{}, msgs...), f.Holder)
	}
	var vals []string
	for _, e := range f.Enums {
		up := strings.ToUpper(e)
		vals = append(vals, up+"_UNSPECIFIED", up+"_ONE")
	}
	return fmt.Sprintf("(mkPfile %s %s %s %s %s)", strList(f.Dir), S(f.Base), strList(msgs), strList(f.Enums), strList(vals))
}

func (b *Bundle) Coq() string {
	var items []string
	for _, f := range b.Files {
		items = append(items, "BJ "+f.Coq())
	}
	for _, f := range b.PFiles {
		items = append(items, "BP "+f.Coq())
	}
	return "[" + strings.Join(items, ";\n   ") + "]"
}

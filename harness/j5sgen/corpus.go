package j5sgen

import "fmt"

// Hand-written packages that run before the generated ones: the README examples and the
// minimal inputs of defects found so far (so that a regression is reported with a small input).

type CorpusCase struct {
	Name string
	B    *Bundle
	Pkg  string
	// Outside: the package is outside the documented language; only the model/implementation
	// correspondence applies to it, the contract oracle does not.
	Outside bool
}

func str(s string) *Field        { return &Field{Kind: "scalar", Scalar: &Scalar{Kind: s}} }
func key(f string) *Field        { return &Field{Kind: "scalar", Scalar: &Scalar{Kind: "key", Fmt: f}} }
func obj(ps ...*Property) *Field { return &Field{Kind: "objinline", Props: ps} }
func objRef(pkg, n string) *Field {
	return &Field{Kind: "objref", Ref: &Ref{Pkg: pkg, Name: n}}
}
func prop(n string, f *Field) *Property { return &Property{Name: n, F: f} }
func object(n string, ps ...*Property) *Element {
	return &Element{Kind: "object", N: &Nested{Kind: "object", Name: n, Props: ps}}
}
func file(dir []string, base string, els ...*Element) *File {
	return &File{Dir: dir, Base: base, Elements: els}
}

func Corpus() []CorpusCase {
	foo := []string{"foo", "v1"}
	sp := func(s string) *string { return &s }
	var out []CorpusCase
	add := func(name string, pkg string, fs ...*File) {
		out = append(out, CorpusCase{Name: name, B: &Bundle{Files: fs}, Pkg: pkg})
	}
	// README: object with key and string
	add("readme-object", "foo.v1", file(foo, "a",
		object("Foo", &Property{Name: "fooId", Required: true, F: key("id62")}, prop("name", str("string")))))
	// README: inline object, array of inline object with overridden name
	add("readme-inline", "foo.v1", file(foo, "a",
		object("Foo", prop("bar", obj(prop("barId", key("id62")))),
			prop("bars", &Field{Kind: "array", Item: &Field{Kind: "objinline", Name: "BarItem", Props: []*Property{prop("barId", key("id62"))}}}))))
	// README: oneof, enum (with explicit UNSPECIFIED), map and array
	add("readme-oneof-enum", "foo.v1", file(foo, "a",
		&Element{Kind: "oneof", N: &Nested{Kind: "oneof", Name: "Choice", Props: []*Property{
			prop("bar", obj(prop("barId", key("id62")))), prop("baz", obj(prop("bazId", key("id62"))))}}},
		&Element{Kind: "enum", N: &Nested{Kind: "enum", Name: "Status", Enum: &Enum{Name: "Status", Opts: []string{"UNSPECIFIED", "ACTIVE", "INACTIVE"}}}},
		object("Lists", prop("names", &Field{Kind: "array", Item: str("string")}),
			prop("ages", &Field{Kind: "map", Item: &Field{Kind: "scalar", Scalar: &Scalar{Kind: "integer", Fmt: "INT32"}}}))))
	// README: service and topics
	add("readme-service-topics", "foo.v1", file(foo, "a",
		&Element{Kind: "service", Service: &Service{Name: "Foo", Base: sp("/foo/v1"), Methods: []*Method{{
			Name: "Bar", Verb: "GET", Path: "/bar/:barId", Request: []*Property{prop("barId", str("string"))},
			HasResp: true, Response: []*Property{prop("name", str("string"))}}}}},
		&Element{Kind: "topic", Topic: &Topic{Kind: "publish", Name: "Foo", Msgs: []*Tmsg{{Name: sp("PostFoo"), Fields: []*Property{prop("fooId", key("id62"))}}}}},
		&Element{Kind: "topic", Topic: &Topic{Kind: "reqres", Name: "Baz",
			Req:   []*Tmsg{{Fields: []*Property{prop("fooId", key("id62"))}}},
			Reply: []*Tmsg{{Fields: []*Property{prop("name", str("string"))}}}}},
		&Element{Kind: "topic", Topic: &Topic{Kind: "upsert", Name: "Qux", Msgs: []*Tmsg{{Name: sp("UpsertFoo"), Fields: []*Property{prop("fooId", key("id62"))}}}}}))
	// defect: inline type named like its enclosing message (link error)
	add("inline-named-like-parent", "foo.v1", file(foo, "a",
		object("Foo", prop("foo", obj(prop("y", str("string")))))))
	// defect: the same, resolving silently to another nested type of the same relative name
	add("inline-captured-silently", "foo.v1", file(foo, "a",
		&Element{Kind: "object", N: &Nested{Kind: "object", Name: "Foo",
			Props: []*Property{prop("x", obj(prop("q", str("string"))))},
			Subs:  []*Nested{{Kind: "object", Name: "Foo", Subs: []*Nested{{Kind: "object", Name: "X", Props: []*Property{prop("other", str("string"))}}}}}}}))
	// defect (repaired): a method's request object shadowing a declared object of the same name
	add("request-name-shadows-object", "foo.v1",
		file(foo, "a", object("BarRequest", prop("x", str("string")))),
		file(foo, "b", &Element{Kind: "service", Service: &Service{Name: "Foo", Methods: []*Method{{
			Name: "Bar", Verb: "GET", Path: "/bar", Request: []*Property{prop("fooId", str("string"))}}}}}),
		file(foo, "c", object("User", prop("r", objRef("", "BarRequest")))))
	add("request-name-shadows-object-same-file", "foo.v1",
		file(foo, "a", object("BarRequest", prop("x", str("string"))), object("User", prop("r", objRef("", "BarRequest")))),
		file(foo, "b", &Element{Kind: "service", Service: &Service{Name: "Foo", Methods: []*Method{{
			Name: "Bar", Verb: "POST", Path: "/bar", Request: []*Property{prop("fooId", str("string"))}}}}}))
	// optional arrays and maps (fix d536c9b: plain repeated fields, not proto3_optional; known-findings audit L128)
	add("optional-array-map", "foo.v1", file(foo, "a",
		object("Foo",
			&Property{Name: "tags", Optional: true, F: &Field{Kind: "array", Item: str("string")}},
			&Property{Name: "labels", Optional: true, F: &Field{Kind: "map", Item: str("string")}},
			&Property{Name: "kids", Optional: true, F: &Field{Kind: "array", Item: obj(prop("kidId", key("id62")))}},
			&Property{Name: "byName", Optional: true, F: &Field{Kind: "map", Item: obj(prop("v", str("string")))}},
			&Property{Name: "note", Optional: true, F: str("string")},
			prop("plain", &Field{Kind: "array", Item: str("string")}))))
	// regression (fix a65e1f2): a FIRST option ending in UNSPECIFIED under a name of its own was taken as the zero
	// value (STATUS_OLD_UNSPECIFIED = 0, STATUS_ACTIVE = 1 - no STATUS_UNSPECIFIED, options numbered from 0)
	add("enum-first-option-named-unspecified", "foo.v1", file(foo, "a",
		&Element{Kind: "enum", N: &Nested{Kind: "enum", Name: "Status", Enum: &Enum{Name: "Status", Opts: []string{"OLD_UNSPECIFIED", "ACTIVE"}}}},
		// the zero value spelled out with the prefix on: documented, not the finding
		&Element{Kind: "enum", N: &Nested{Kind: "enum", Name: "Mode", Enum: &Enum{Name: "Mode", Opts: []string{"MODE_UNSPECIFIED", "ON"}}}}))
	// README "Foo Example": an entity (keys, data, statuses, events) next to a declared object
	add("readme-entity", "foo.v1", file(foo, "a",
		object("Before", prop("x", str("string"))),
		&Element{Kind: "entity", Entity: &Entity{Name: "Foo",
			Keys:   []*EKey{{P: prop("fooId", key("id62")), Primary: true}},
			Data:   []*Property{prop("name", str("string"))},
			Status: []string{"ACTIVE", "INACTIVE"},
			Events: []*EEvent{{Name: "Create", Fields: []*Property{prop("name", str("string"))}}, {Name: "Archive"}}}},
		object("After", prop("state", objRef("", "FooState")))))
	// an entity with a shard key, a non-key-typed key and a snake_case name part
	add("entity-shard-keys", "acme.users.v1", file([]string{"acme", "users", "v1"}, "b",
		&Element{Kind: "entity", Entity: &Entity{Name: "UserAccount2",
			Keys: []*EKey{{P: prop("accountId", key("uuid")), Primary: true, Shard: true},
				{P: prop("tenant_id", key("")), Shard: true},
				{P: &Property{Name: "region", Required: true, F: str("string")}}},
			Data:   []*Property{prop("tags", &Field{Kind: "array", Item: str("string")}), prop("kind", &Field{Kind: "enuminline", Enum: &Enum{Opts: []string{"A", "B"}}})},
			Status: []string{"NEW"},
			Events: []*EEvent{{Name: "NameChanged", Fields: []*Property{prop("to", obj(prop("v", str("string"))))}}}}}))
	// two imports without alias that claim the same short name: the short name means the package imported last
	for k := 0; k < 6; k++ {
		v1, v2 := []string{"foo", "v1"}, []string{"foo", "v2"}
		if k%2 == 1 {
			v1, v2 = []string{"acme", "baz", "v2"}, []string{"acme", "baz", "v3"}
		}
		first, second := v1, v2
		if k >= 3 {
			first, second = v2, v1
		}
		short := first[len(first)-2]
		user := &File{Dir: []string{"zed", "v1"}, Base: "a",
			Imports: []*Import{{Path: joinStr(first, ".")}, {Path: joinStr(second, ".")}},
			Elements: []*Element{object("User",
				prop("own", objRef(joinStr(first, "."), "OnlyFirst")),
				prop("thing", objRef(short, "Thing")),
				prop("things", &Field{Kind: "array", Item: objRef(short, "Thing")}))}}
		add(fmt.Sprintf("import-later-wins-%d", k), "zed.v1",
			file(first, "a", object("Thing", prop("a", str("string"))), object("OnlyFirst", prop("x", str("string")))),
			file(second, "a", object("Thing", prop("b", str("string")))),
			user)
	}
	// options of a oneof: an array or a map is rejected (fix a0446fc / 466a7f9), required / optional marks are accepted
	// (optional says nothing: no proto3_optional on a member of the wrapper's oneof)
	oneofEl := func(ps ...*Property) *Element {
		return &Element{Kind: "oneof", N: &Nested{Kind: "oneof", Name: "Ch", Props: ps}}
	}
	add("outside-oneof-array-member", "foo.v1", file(foo, "a", oneofEl(prop("a", &Field{Kind: "array", Item: str("string")}), prop("b", str("string")))))
	add("outside-oneof-required-member", "foo.v1", file(foo, "a", oneofEl(&Property{Name: "a", Required: true, F: str("string")}, prop("b", str("string")))))
	add("oneof-optional-member", "foo.v1", file(foo, "a", oneofEl(&Property{Name: "a", Optional: true, F: str("string")}, prop("b", str("string"))),
		&Element{Kind: "oneof", N: &Nested{Kind: "oneof", Name: "Later", Props: []*Property{prop("a", str("string")), {Name: "b", Optional: true, F: str("string")}}}}))
	add("outside-oneof-map-member", "foo.v1", file(foo, "a", oneofEl(prop("a", &Field{Kind: "map", Item: str("string")}), prop("b", str("string")))))
	add("outside-empty-oneof", "foo.v1", file(foo, "a", oneofEl()))
	// outside the language, rejected by the compiler (protocompile: symbol already defined): two
	// declarations that generate the same proto symbol
	svc := func(name string, methods ...string) *Element {
		s := &Service{Name: name}
		for _, m := range methods {
			s.Methods = append(s.Methods, &Method{Name: m, Verb: "POST", Path: "/" + name + "/" + m, Request: []*Property{prop("x", str("string"))}})
		}
		return &Element{Kind: "service", Service: s}
	}
	enumEl := func(name, prefix string, opts ...string) *Element {
		return &Element{Kind: "enum", N: &Nested{Kind: "enum", Name: name, Enum: &Enum{Name: name, Prefix: prefix, Opts: opts}}}
	}
	pub := func(name string, msgs ...string) *Element {
		t := &Topic{Kind: "publish", Name: name}
		for _, m := range msgs {
			t.Msgs = append(t.Msgs, &Tmsg{Name: sp(m), Fields: []*Property{prop("x", str("string"))}})
		}
		return &Element{Kind: "topic", Topic: t}
	}
	inlineEnum := func(name, prefix string, opts ...string) *Field {
		return &Field{Kind: "enuminline", Enum: &Enum{Name: name, Prefix: prefix, Opts: opts}}
	}
	add("outside-dup-method-two-services", "foo.v1", file(foo, "a", svc("A", "Get"), svc("B", "Get")))
	add("outside-dup-method-two-files", "foo.v1", file(foo, "a", svc("A", "Get")), file(foo, "b", svc("B", "Get")))
	add("outside-dup-service", "foo.v1", file(foo, "a", svc("A", "Get"), svc("A", "Put")))
	add("outside-dup-service-two-files", "foo.v1", file(foo, "a", svc("A", "Get")), file(foo, "b", svc("A", "Put")))
	add("outside-dup-topic", "foo.v1", file(foo, "a", pub("Foo", "One"), pub("Foo", "Two")))
	add("outside-dup-topic-message", "foo.v1", file(foo, "a", pub("Foo", "One"), pub("Bar", "One")))
	add("outside-dup-topic-reqres-publish", "foo.v1", file(foo, "a",
		&Element{Kind: "topic", Topic: &Topic{Kind: "reqres", Name: "Foo",
			Req:   []*Tmsg{{Fields: []*Property{prop("x", str("string"))}}},
			Reply: []*Tmsg{{Fields: []*Property{prop("y", str("string"))}}}}},
		pub("FooRequest", "Other")))
	add("outside-dup-enum-value-siblings", "foo.v1", file(foo, "a", enumEl("A", "X_", "ONE"), enumEl("B", "X_", "ONE")))
	add("outside-dup-enum-value-two-files", "foo.v1", file(foo, "a", enumEl("A", "X_", "ONE")), file(foo, "b", enumEl("B", "X_", "TWO")))
	add("outside-dup-enum-value-implicit-zero", "foo.v1", file(foo, "a", enumEl("A", "", "ONE", "UNSPECIFIED")))
	add("outside-dup-enum-value-prefixed-twice", "foo.v1", file(foo, "a", enumEl("A", "", "ONE", "A_ONE")))
	add("outside-dup-enum-value-inline-siblings", "foo.v1", file(foo, "a",
		object("Foo", prop("a", inlineEnum("", "X_", "ONE")), prop("b", inlineEnum("", "X_", "ONE")))))
	add("outside-dup-enum-value-vs-type", "foo.v1", file(foo, "a", enumEl("A", "F", "OO"), object("FOO")))
	add("outside-subpackage-vs-package", "foo.v1",
		file(foo, "a", svc("A", "Get")),
		&File{Dir: []string{"foo", "v1", "service"}, Base: "b", Elements: []*Element{object("GetRequest", prop("x", str("string")))}})
	for i := range out {
		if len(out[i].Name) > 8 && out[i].Name[:8] == "outside-" {
			out[i].Outside = true
		}
	}
	return out
}

type EditPair struct {
	Before, After *Bundle
	Pkg           string
	Edits         []EditRec
	// KnownNoEmbed: the pair of a known finding - the old descriptors do NOT embed into the new ones
	KnownNoEmbed bool
}

func emptyEnum(opts ...string) *Bundle {
	return &Bundle{Files: []*File{file([]string{"foo", "v1"}, "a",
		&Element{Kind: "enum", N: &Nested{Kind: "enum", Name: "Status", Enum: &Enum{Name: "Status", Opts: opts}}})}}
}

func withNum(b *Bundle, opt string, n int) *Bundle {
	b.Files[0].Elements[0].N.Enum.OptNum = map[string]int{opt: n}
	return b
}

func nestedEmptyEnum(opts ...string) *Bundle {
	return &Bundle{Files: []*File{file([]string{"foo", "v1"}, "a",
		&Element{Kind: "object", N: &Nested{Kind: "object", Name: "Foo", Props: []*Property{prop("x", str("string"))},
			Subs: []*Nested{{Kind: "enum", Name: "Status", Enum: &Enum{Name: "Status", Opts: opts}}}}})}}
}

// EditCorpus: hand-written before/after pairs for C13.
func EditCorpus() []EditPair {
	foo := []string{"foo", "v1"}
	mk := func(extra ...*Property) *Bundle {
		ps := []*Property{prop("x", obj()), prop("name", str("string"))}
		return &Bundle{Files: []*File{file(foo, "a", object("Foo", append(ps, extra...)...),
			&Element{Kind: "enum", N: &Nested{Kind: "enum", Name: "Status", Enum: &Enum{Name: "Status", Opts: []string{"ACTIVE"}}}})}}
	}
	age := prop("age", &Field{Kind: "scalar", Scalar: &Scalar{Kind: "integer", Fmt: "INT32"}})
	plain := mk(age)
	plain.Files[0].Elements[1].N.Enum.Opts = []string{"ACTIVE", "INACTIVE"}
	fooP := prop("foo", obj())
	fwd := prop("forwardedFor", objRef("j5.messaging.v1", "RequestMetadata"))
	ups := prop("prev", objRef("j5.messaging.v1", "UpsertMetadata"))
	topicBundle := func(kind string, extra *Property) *Bundle {
		fields := []*Property{prop("fooId", key("id62")), prop("name", str("string"))}
		if extra != nil {
			fields = append(fields, extra)
		}
		t := &Topic{Kind: kind, Name: "Baz"}
		if kind == "reqres" {
			t.Req = []*Tmsg{{Fields: fields}}
			t.Reply = []*Tmsg{{Fields: []*Property{prop("ok", str("bool"))}}}
		} else {
			t.Entity = "foo.v1.Baz"
			t.Msgs = []*Tmsg{{Fields: fields}}
		}
		return &Bundle{Files: []*File{file(foo, "a", &Element{Kind: "topic", Topic: t})}}
	}
	return []EditPair{
		{mk(), plain, "foo.v1", []EditRec{{"field", "foo/v1/a.j5s:Foo", "age scalar", "EAppendField 0 0 " + age.Coq(), ""},
			{"option", "foo/v1/a.j5s:Status", "INACTIVE", "EAppendOption 0 1 " + S("INACTIVE"), ""}}, false},
		// defect: the appended inline type Foo.Foo captures the relative name Foo.X of the existing field
		{mk(), mk(fooP), "foo.v1", []EditRec{{"field", "foo/v1/a.j5s:Foo", "foo objinline", "EAppendIn 0 0 AtDecl [] (AField " + fooP.Coq() + ")", ""}}, false},
		// regression (fix a65e1f2): an enum without options; the appended option is its first, ends in UNSPECIFIED
		// and used to replace the implicit zero value STATUS_UNSPECIFIED by STATUS_OLD_UNSPECIFIED
		{emptyEnum(), emptyEnum("OLD_UNSPECIFIED"), "foo.v1",
			[]EditRec{{"option", "foo/v1/a.j5s:Status", "OLD_UNSPECIFIED", "EAppendOption 0 0 " + S("OLD_UNSPECIFIED"), ""}}, false},
		// the same at depth: an enum without options nested in an object, the option appended through an address
		{nestedEmptyEnum(), nestedEmptyEnum("OLD_UNSPECIFIED"), "foo.v1",
			[]EditRec{{"option", "foo/v1/a.j5s:Foo.Status", "OLD_UNSPECIFIED", "EAppendIn 0 0 AtDecl [SNested 0] (AOption " + S("OLD_UNSPECIFIED") + ")", ""}}, false},
		// seeded C13-D class, deterministic: a field referring to the type of the implicit leading field appended to
		// a reqres request message / an upsert message (the implicit field must keep number 1, the old fields theirs)
		{topicBundle("reqres", nil), topicBundle("reqres", fwd), "foo.v1",
			[]EditRec{{"field", "foo/v1/a.j5s/topic:BazRequestMessage", "forwardedFor ref to implicit type RequestMetadata", "EAppendTopicField 0 0 0 " + fwd.Coq(), ""}}, false},
		{topicBundle("upsert", nil), topicBundle("upsert", ups), "foo.v1",
			[]EditRec{{"field", "foo/v1/a.j5s/topic:BazMessage", "prev ref to implicit type UpsertMetadata", "EAppendTopicField 0 0 0 " + ups.Coq(), ""}}, false},
		// seeded C13-G class, deterministic: the appended option carries `number = 2`, a number an earlier option has
		{emptyEnum("LOW", "MEDIUM", "HIGH"), withNum(emptyEnum("LOW", "MEDIUM", "HIGH", "URGENT"), "URGENT", 2), "foo.v1",
			[]EditRec{{"option", "foo/v1/a.j5s:Status", "URGENT {number = 2}", "EAppendOption 0 0 " + S("URGENT"), ""}}, false},
		// not the finding: an ordinary option, and the zero value spelled out, appended to an enum without options
		{emptyEnum(), emptyEnum("ACTIVE", "OLD_UNSPECIFIED"), "foo.v1",
			[]EditRec{{"option", "foo/v1/a.j5s:Status", "ACTIVE", "EAppendOption 0 0 " + S("ACTIVE"), ""},
				{"option", "foo/v1/a.j5s:Status", "OLD_UNSPECIFIED", "EAppendOption 0 0 " + S("OLD_UNSPECIFIED"), ""}}, false},
	}
}

package j5sgen

import (
	"fmt"
	"strings"

	"github.com/iancoleman/strcase"
	"verifharness/vh"
)

// Config selects the language features the generator uses.
type Config struct {
	MaxDepth   int  // inline / nested depth
	MaxFields  int  // per message
	Oneofs     bool // oneof declarations and fields
	Containers bool // arrays and maps
	Refs       bool // references between declarations
	Imports    bool // several packages with imports
	Services   bool
	Topics     bool
	Entities   bool // entity declarations (keys, data, statuses, events; J5sEntity.v)
	// single-line descriptions on declarations, properties and enum options (J5sComments.v)
	Descriptions bool
	PFiles       bool // hand-written .proto files in local packages
	// percentage of inline types that are named like one of their enclosing messages
	AncestorNames int
	MaxPackages   int
	MaxFiles      int
}

func DefaultConfig() Config {
	return Config{MaxDepth: 4, MaxFields: 7, Oneofs: true, Containers: true, Refs: true, Imports: true,
		Services: true, Topics: true, Entities: true, Descriptions: true, PFiles: true, AncestorNames: 2, MaxPackages: 3, MaxFiles: 3}
}

type typeEntry struct {
	pkg  string
	name string
	kind string // object oneof enum
	file string // proto path of the defining file
}

type pkgState struct {
	dir     []string
	name    string
	symbols map[string]bool // package scope: type names and enum value names
	svcSyms map[string]bool // <pkg>.service scope
	topSyms map[string]bool // <pkg>.topic scope
	types   []typeEntry     // top-level types declared so far (earlier files + current)
}

type Gen struct {
	R    *vh.Rand
	Cfg  Config
	pkgs []*pkgState
	// state of the file being generated
	cur      *pkgState
	curFile  *File
	imports  map[string]string // target package -> spec to write in refs
	fileName string
	// statistics
	Stats map[string]int
}

func NewGen(r *vh.Rand, cfg Config) *Gen { return &Gen{R: r, Cfg: cfg, Stats: map[string]int{}} }

var words = []string{"foo", "bar", "baz", "id", "name", "user", "account", "item", "status", "type", "value",
	"data", "info", "key", "ref", "x", "y", "http", "url", "v2", "a1", "list", "page", "event", "state", "owner",
	"parent", "child", "code", "amount", "total", "kind", "label", "note", "tag", "zone"}
var acronyms = []string{"ID", "URL", "HTTP", "API", "DB"}

func title(s string) string {
	if s == "" {
		return s
	}
	return strings.ToUpper(s[:1]) + s[1:]
}

// rawFieldName draws a property name: lowerCamel words, sometimes an acronym, a digit
// suffix or snake_case.
func (g *Gen) rawFieldName() string {
	n := 1 + g.R.Intn(3)
	if g.R.Chance(12) { // snake_case spelling
		parts := make([]string, n)
		for i := range parts {
			parts[i] = vh.Pick(g.R, words)
		}
		return strings.Join(parts, "_")
	}
	s := vh.Pick(g.R, words)
	for i := 1; i < n; i++ {
		if g.R.Chance(15) {
			s += vh.Pick(g.R, acronyms)
		} else {
			s += title(vh.Pick(g.R, words))
		}
	}
	if g.R.Chance(8) {
		s += fmt.Sprint(g.R.Intn(10))
	}
	return s
}

func (g *Gen) rawTypeName() string {
	n := 1 + g.R.Intn(2)
	s := ""
	for i := 0; i < n; i++ {
		if i > 0 && g.R.Chance(15) {
			s += vh.Pick(g.R, acronyms)
		} else {
			s += title(vh.Pick(g.R, words))
		}
	}
	if g.R.Chance(6) {
		s += fmt.Sprint(g.R.Intn(10))
	}
	return s
}

func normKey(s string) string {
	return strings.ToLower(strings.ReplaceAll(strings.ReplaceAll(s, "_", ""), ".", ""))
}

// scope tracks the names that must stay distinct inside one message.
type scope struct {
	fields  map[string]bool // normalised field names
	symbols map[string]bool // nested type names and enum value names
	path    []string        // nest path of the message, root first
}

func newScope(path []string) *scope {
	return &scope{fields: map[string]bool{}, symbols: map[string]bool{}, path: path}
}

func enumValueNames(name string, e *Enum) []string {
	pfx := e.Prefix
	if pfx == "" {
		pfx = strcase.ToScreamingSnake(name) + "_"
	}
	// value 0 is always <PREFIX>UNSPECIFIED; a FIRST option that spells it (UNSPECIFIED or
	// <PREFIX>UNSPECIFIED) is that value, every other option - also a first one that merely ends
	// in UNSPECIFIED - is a value of its own (fix a65e1f2)
	out := []string{pfx + "UNSPECIFIED"}
	for i, o := range e.Opts {
		if !strings.HasPrefix(o, pfx) {
			o = pfx + o
		}
		if i == 0 && o == pfx+"UNSPECIFIED" {
			continue
		}
		out = append(out, o)
	}
	return out
}

var optWords = []string{"ACTIVE", "INACTIVE", "A", "B", "PENDING", "DONE", "X1", "OLD_VALUE", "NEW", "FAILED", "OK", "HTTP_2"}

// optionName draws an enum option name, also names that end in UNSPECIFIED without being the
// zero value (in first position too: before fix a65e1f2 such a first option was taken as value 0).
func (g *Gen) optionName(first bool) string {
	o := vh.Pick(g.R, optWords)
	if g.R.Chance(20) {
		o += fmt.Sprint(g.R.Intn(5))
	}
	// ends like the zero value, is not the zero value
	if (!first && g.R.Chance(12)) || (first && g.R.Chance(8)) {
		o += "_UNSPECIFIED"
	}
	return o
}

// enum draws an enum; allowEmpty: `enum X {}` without options may come out (declared enums only:
// an inline `field f enum { }` without anything in it is read as an enum field without schema
// and rejected, "unhandled enum schema type <nil>" - outside the documented language).
var descWords = []string{"the", "owner", "of", "this", "record", "Initial", "status", "x", "y", "a 2nd", "see API", "id", "set when done", "not used", "in UTC"}

// description draws a single-line description (letters, digits, spaces), "" most of the time.
func (g *Gen) description(pct int) string {
	if !g.Cfg.Descriptions || !g.R.Chance(pct) {
		return ""
	}
	n := g.R.Range(1, 4)
	parts := make([]string, n)
	for i := range parts {
		parts[i] = vh.Pick(g.R, descWords)
	}
	g.Stats["description"]++
	return strings.Join(parts, " ")
}

func (g *Gen) enum(name string, allowEmpty bool) *Enum {
	e := &Enum{Name: name}
	defer func() {
		for _, o := range e.Opts {
			// an explicit `number` the compiler ignores (never on a name that could be the zero value:
			// isExplicitZero looks at the number of the first option)
			if !strings.HasSuffix(o, "UNSPECIFIED") && g.R.Chance(8) {
				if e.OptNum == nil {
					e.OptNum = map[string]int{}
				}
				e.OptNum[o] = g.R.Range(1, len(e.Opts)+2)
				g.Stats["enum_option_number_attr"]++
			}
			if d := g.description(12); d != "" {
				if e.OptDesc == nil {
					e.OptDesc = map[string]string{}
				}
				e.OptDesc[o] = d
			}
		}
	}()
	if g.R.Chance(20) {
		e.Prefix = strings.ToUpper(vh.Pick(g.R, words)) + "_"
	}
	n := g.R.Range(1, 5)
	if allowEmpty && g.R.Chance(6) {
		g.Stats["enum_without_options"]++
		return e // `enum X {}`: only the implicit zero value
	}
	seen := map[string]bool{}
	if g.R.Chance(15) {
		g.Stats["enum_explicit_unspecified"]++
		e.Opts = append(e.Opts, "UNSPECIFIED")
		seen["UNSPECIFIED"] = true
	}
	for len(e.Opts) < n {
		o := g.optionName(len(e.Opts) == 0)
		if seen[o] {
			continue
		}
		seen[o] = true
		// sometimes spelled with the prefix already on
		if g.R.Chance(10) {
			pfx := e.Prefix
			if pfx == "" && name != "" {
				pfx = strcase.ToScreamingSnake(name) + "_"
			}
			if pfx != "" && !seen[pfx+o] {
				seen[pfx+o] = true
				o = pfx + o
			}
		}
		e.Opts = append(e.Opts, o)
	}
	return e
}

// claimEnum registers the enum's type name and value names in the symbol set; false if
// any of them is taken.
func claimEnum(symbols map[string]bool, name string, e *Enum) bool {
	vals := enumValueNames(name, e)
	if symbols[name] {
		return false
	}
	seen := map[string]bool{}
	for _, v := range vals {
		if symbols[v] || seen[v] || v == name {
			return false
		}
		seen[v] = true
	}
	symbols[name] = true
	for _, v := range vals {
		symbols[v] = true
	}
	return true
}

func (g *Gen) scalar() *Scalar {
	switch g.R.Intn(14) {
	case 0, 1, 2:
		return &Scalar{Kind: "string"}
	case 3:
		return &Scalar{Kind: "bool"}
	case 4:
		return &Scalar{Kind: "bytes"}
	case 5, 6:
		return &Scalar{Kind: "integer", Fmt: vh.Pick(g.R, []string{"INT32", "INT64", "UINT32", "UINT64"})}
	case 7:
		return &Scalar{Kind: "float", Fmt: vh.Pick(g.R, []string{"FLOAT32", "FLOAT64"})}
	case 8:
		return &Scalar{Kind: "timestamp"}
	case 9:
		return &Scalar{Kind: "date"}
	case 10:
		return &Scalar{Kind: "decimal"}
	case 11, 12:
		return &Scalar{Kind: "key", Fmt: vh.Pick(g.R, []string{"", "id62", "uuid", "informal"})}
	default:
		return &Scalar{Kind: "any"}
	}
}

// ImplicitTypes: the well-known types that can be referred to without an import (imports.go
// implicitImports); two of them are also the types of the implicit leading fields of topic messages.
var ImplicitTypes = [][2]string{{"j5.list.v1", "PageRequest"}, {"j5.list.v1", "PageResponse"}, {"j5.list.v1", "QueryRequest"},
	{"j5.state.v1", "StateMetadata"}, {"j5.state.v1", "EventMetadata"}, {"j5.state.v1", "EventPublishMetadata"},
	{"j5.messaging.v1", "UpsertMetadata"}, {"j5.messaging.v1", "RequestMetadata"}}

// pickRef chooses a declared type of the wanted kind that the current file may refer to.
func (g *Gen) pickRef(kind string) *Ref {
	if !g.Cfg.Refs {
		return nil
	}
	var cands []typeEntry
	for _, t := range g.cur.types {
		if t.kind == kind {
			cands = append(cands, t)
		}
	}
	if g.Cfg.Imports {
		for _, p := range g.pkgs {
			if p == g.cur {
				break
			}
			for _, t := range p.types {
				if t.kind == kind {
					cands = append(cands, t)
				}
			}
		}
	}
	if kind == "object" && g.R.Chance(6) { // implicitly importable well-known types
		w := vh.Pick(g.R, ImplicitTypes)
		g.Stats["ref_implicit"]++
		if g.R.Chance(30) {
			spec := g.importSpec(w[0], "")
			return &Ref{Pkg: spec, Name: w[1]}
		}
		return &Ref{Pkg: w[0], Name: w[1]}
	}
	if len(cands) == 0 {
		return nil
	}
	t := vh.Pick(g.R, cands)
	if t.pkg == g.cur.name {
		g.Stats["ref_local"]++
		if t.file != g.fileName {
			g.Stats["ref_crossfile"]++
		}
		if g.R.Chance(10) {
			return &Ref{Pkg: g.cur.name, Name: t.name} // own package written in full
		}
		return &Ref{Name: t.name}
	}
	g.Stats["ref_imported"]++
	return &Ref{Pkg: g.importSpec(t.pkg, t.file), Name: t.name}
}

// importSpec makes sure the current file imports pkg and returns the prefix to write.
func (g *Gen) importSpec(pkg, file string) string {
	if s, ok := g.imports[pkg]; ok {
		return s
	}
	parts := strings.Split(pkg, ".")
	seg := parts[len(parts)-2]
	// an import without alias also claims the short name (the name part before the version), and a
	// later claim wins: it must not take the short name away from an import that is referred to by it
	segUsed, segShared := false, g.lastButOneTaken(seg)
	for _, s := range g.imports {
		if s == seg {
			segUsed = true
		}
	}
	var imp *Import
	var spec string
	switch {
	case file != "" && !strings.HasSuffix(file, ".j5s.proto") && g.R.Chance(50):
		imp = &Import{Path: file} // a .proto file named by path: key is its package
		spec = pkg
		g.Stats["import_path"]++
	case segUsed || g.R.Chance(40):
		alias := vh.Pick(g.R, []string{"al", "other", "dep", "ext"}) + fmt.Sprint(len(g.imports))
		imp = &Import{Path: pkg, Alias: alias}
		spec = alias
		g.Stats["import_alias"]++
	default:
		imp = &Import{Path: pkg}
		switch {
		case !segShared && g.R.Chance(50), segShared && g.R.Chance(25):
			spec = pkg
		case segShared:
			// an earlier import shares the short name but is referred to by its full name: the
			// short name means the package imported last
			spec = seg
			g.Stats["import_short_name_shadows_earlier"]++
		default:
			spec = seg
		}
		g.Stats["import_plain"]++
	}
	g.curFile.Imports = append(g.curFile.Imports, imp)
	g.imports[pkg] = spec
	return spec
}

// the short key (last-but-one segment) is ambiguous when two imports share it
func (g *Gen) lastButOneTaken(seg string) bool {
	for p, s := range g.imports {
		parts := strings.Split(p, ".")
		if parts[len(parts)-2] == seg || s == seg {
			return true
		}
	}
	return false
}

// fieldName draws a name that is new in the scope (proto name and JSON name).
func (g *Gen) fieldName(sc *scope) string {
	for {
		n := g.rawFieldName()
		k := normKey(strcase.ToSnake(n))
		if k == "" || sc.fields[k] || sc.fields[normKey(n)] {
			continue
		}
		sc.fields[k] = true
		sc.fields[normKey(n)] = true
		return n
	}
}

func mapEntryName(field string) string {
	s := strcase.ToSnake(field)
	out := ""
	up := true
	for _, c := range s {
		if c == '_' {
			up = true
			continue
		}
		if up {
			out += strings.ToUpper(string(c))
			up = false
		} else {
			out += string(c)
		}
	}
	return out + "Entry"
}

// item generates a non-container field type for the property named pname in scope sc.
// ok=false means the drawn shape collides with a name already in scope (caller retries).
func (g *Gen) item(sc *scope, pname string, depth int, inOneof bool) (*Field, bool) {
	k := g.R.Intn(100)
	inlineOK := depth < g.Cfg.MaxDepth
	switch {
	case inOneof && k < 70 || !inOneof && k < 14: // object
		if ref := g.pickRef("object"); ref != nil && (g.R.Chance(45) || !inlineOK) {
			return &Field{Kind: "objref", Ref: ref}, true
		}
		if !inlineOK {
			return &Field{Kind: "scalar", Scalar: g.scalar()}, true
		}
		name, over, ok := g.inlineName(sc, pname)
		if !ok {
			return nil, false
		}
		f := &Field{Kind: "objinline", Name: over}
		f.Props = g.propsFor(append(append([]string{}, sc.path...), name), depth+1, false, g.R.Range(0, 4))
		g.Stats["inline_object"]++
		return f, true
	case g.Cfg.Oneofs && k < 80 && (inOneof || k < 20): // oneof
		if ref := g.pickRef("oneof"); ref != nil && (g.R.Chance(50) || !inlineOK) {
			return &Field{Kind: "oneofref", Ref: ref}, true
		}
		if !inlineOK {
			return &Field{Kind: "scalar", Scalar: g.scalar()}, true
		}
		name, over, ok := g.inlineName(sc, pname)
		if !ok {
			return nil, false
		}
		f := &Field{Kind: "oneofinline", Name: over}
		f.Props = g.propsFor(append(append([]string{}, sc.path...), name), depth+1, true, g.R.Range(1, 3))
		g.Stats["inline_oneof"]++
		return f, true
	case k < 30 || inOneof && k < 90: // enum
		if ref := g.pickRef("enum"); ref != nil && g.R.Chance(50) {
			return &Field{Kind: "enumref", Ref: ref}, true
		}
		name := strcase.ToCamel(pname)
		over := ""
		if g.R.Chance(25) {
			over = g.rawTypeName()
			name = over
		}
		e := g.enum(over, false)
		if !claimEnum(sc.symbols, name, e) {
			return nil, false
		}
		g.Stats["inline_enum"]++
		return &Field{Kind: "enuminline", Enum: e}, true
	}
	return &Field{Kind: "scalar", Scalar: g.scalar()}, true
}

// inlineName decides the name of an inline object/oneof: the default CamelCase(field),
// an override, or (rarely, on purpose) the name of an enclosing message.
func (g *Gen) inlineName(sc *scope, pname string) (name, override string, ok bool) {
	name = strcase.ToCamel(pname)
	if g.R.Chance(g.Cfg.AncestorNames) && len(sc.path) > 0 {
		override = vh.Pick(g.R, sc.path)
		name = override
		g.Stats["inline_named_like_ancestor"]++
	} else if g.R.Chance(g.Cfg.AncestorNames) && g.cur != nil && len(g.cur.types) > 0 {
		// named like a top-level declaration of the package (which other fields may refer to)
		override = vh.Pick(g.R, g.cur.types).name
		name = override
		g.Stats["inline_named_like_toplevel"]++
	} else if g.R.Chance(25) {
		override = g.rawTypeName()
		name = override
	}
	if sc.symbols[name] {
		return "", "", false
	}
	sc.symbols[name] = true
	return name, override, true
}

func (g *Gen) propsFor(path []string, depth int, inOneof bool, n int) []*Property {
	sc := newScope(path)
	return g.props(sc, depth, inOneof, n)
}

func (g *Gen) props(sc *scope, depth int, inOneof bool, n int) []*Property {
	var out []*Property
	if inOneof {
		sc.fields["type"] = true // the wrapper's proto oneof is called "type"
	}
	for len(out) < n {
		if p := g.property(sc, depth, inOneof); p != nil {
			out = append(out, p)
		}
	}
	return out
}

func (g *Gen) property(sc *scope, depth int, inOneof bool) *Property {
	name := g.fieldName(sc)
	p := &Property{Name: name}
	container := ""
	if !inOneof && g.Cfg.Containers {
		switch k := g.R.Intn(100); {
		case k < 14:
			container = "array"
		case k < 24:
			container = "map"
		}
	}
	if container == "map" {
		en := mapEntryName(name)
		if sc.symbols[en] {
			return nil
		}
		sc.symbols[en] = true
	}
	it, ok := g.item(sc, name, depth, inOneof)
	if !ok {
		return nil
	}
	if container != "" {
		p.F = &Field{Kind: container, Item: it}
		g.Stats[container]++
	} else {
		p.F = it
	}
	if !inOneof {
		switch k := g.R.Intn(100); {
		case k < 20:
			p.Required = true
		case k < 32:
			// optional arrays / maps too (fix d536c9b: not proto3_optional, plain repeated)
			p.Optional = true
			if container != "" {
				g.Stats["optional_"+container]++
			}
		}
	} else {
		// an option of a oneof may be marked required, or optional (which says nothing: fix a0446fc,
		// no proto3_optional on a member of the wrapper's oneof)
		switch k := g.R.Intn(100); {
		case k < 6:
			p.Required = true
			g.Stats["oneof_option_required"]++
		case k < 16:
			p.Optional = true
			g.Stats["oneof_option_optional"]++
		}
	}
	p.Desc = g.description(20)
	return p
}

func (g *Gen) nestedDecl(symbols map[string]bool, path []string, depth int, allowSubs bool) *Nested {
	for tries := 0; tries < 20; tries++ {
		name := g.rawTypeName()
		kind := "object"
		switch k := g.R.Intn(100); {
		case k < 22:
			kind = "enum"
		case k < 40 && g.Cfg.Oneofs:
			kind = "oneof"
		}
		if kind == "enum" {
			e := g.enum(name, true)
			if !claimEnum(symbols, name, e) {
				continue
			}
			return &Nested{Kind: "enum", Name: name, Enum: e, Desc: g.description(25)}
		}
		if symbols[name] {
			continue
		}
		symbols[name] = true
		n := &Nested{Kind: kind, Name: name, Desc: g.description(25)}
		self := append(append([]string{}, path...), name)
		sc := newScope(self)
		// explicitly nested declarations first claim their names, so that inline names avoid them
		if allowSubs && depth < g.Cfg.MaxDepth && g.R.Chance(25) {
			for i := g.R.Range(1, 2); i > 0; i-- {
				if s := g.nestedDecl(sc.symbols, self, depth+1, true); s != nil {
					n.Subs = append(n.Subs, s)
				}
			}
			g.Stats["explicit_nested"] += len(n.Subs)
		}
		if kind == "oneof" {
			n.Props = g.props(sc, depth+1, true, g.R.Range(1, 4))
		} else {
			nf := g.R.Range(0, g.Cfg.MaxFields)
			if g.R.Chance(5) {
				nf = g.R.Range(10, 16)
			}
			n.Props = g.props(sc, depth+1, false, nf)
		}
		return n
	}
	return nil
}

var verbs = []string{"GET", "POST", "PUT", "DELETE", "PATCH"}

func (g *Gen) service() *Service {
	st := g.cur
	var name string
	for {
		name = g.rawTypeName()
		if !st.svcSyms[name+"Service"] {
			st.svcSyms[name+"Service"] = true
			break
		}
	}
	s := &Service{Name: name}
	shared := "" // request field named by a parameter of the base path
	if g.R.Chance(70) {
		base := vh.Pick(g.R, []string{"/foo/v1", "/foo/v1/", "/" + strings.ToLower(name), "/a/b/c", "/", "/x//y", "/v1/./z", "rel/base", "/a/../b/c", "/.."})
		if g.R.Chance(35) {
			shared = vh.Pick(g.R, []string{"tenantId", "accountID", "org_id", "fooBarId", "x1"})
			base = vh.Pick(g.R, []string{"/local/v1/tenant/:" + shared + "/foo", "/:" + shared, "/v1/:" + shared + "/", "t/:" + shared + "/x"})
			g.Stats["base_path_param"]++
		}
		s.Base = &base
	}
	for i := g.R.Range(1, 3); i > 0; i-- {
		var mn string
		for {
			mn = g.rawTypeName()
			if !st.svcSyms[mn+"Request"] && !st.svcSyms[mn+"Response"] {
				st.svcSyms[mn+"Request"] = true
				st.svcSyms[mn+"Response"] = true
				break
			}
		}
		m := &Method{Name: mn, Verb: vh.Pick(g.R, verbs)}
		rsc := newScope([]string{mn + "Request"})
		if shared != "" {
			rsc.fields[normKey(strcase.ToSnake(shared))] = true
			rsc.fields[normKey(shared)] = true
			m.Request = append(m.Request, &Property{Name: shared, F: &Field{Kind: "scalar", Scalar: &Scalar{Kind: vh.Pick(g.R, []string{"string", "key"})}}})
		}
		m.Request = append(m.Request, g.props(rsc, 1, false, g.R.Range(0, 5))...)
		if g.R.Chance(85) {
			m.HasResp = true
			m.Response = g.propsFor([]string{mn + "Response"}, 1, false, g.R.Range(0, 4))
		}
		// list methods (a j5.list.v1.QueryRequest in the request; fix cec4e3a: the response must
		// have exactly one array of objects): drawn on purpose too
		if g.R.Chance(12) {
			m.Request = append(m.Request, &Property{Name: g.fieldName(rsc), F: &Field{Kind: "objref", Ref: &Ref{Pkg: "j5.list.v1", Name: "QueryRequest"}}})
		}
		if !ListMethodOK(m) {
			conformListResponse(m) // the non-conforming forms are a class of the malformed stream
		}
		if ListMethodOK(m) && len(m.Request) > 0 {
			for _, p := range m.Request {
				if IsQueryRef(p.F) {
					g.Stats["list_method"]++
					break
				}
			}
		}
		// path: literal segments and parameters naming request fields
		var segs []string
		for k := g.R.Range(0, 3); k > 0; k-- {
			if len(m.Request) > 0 && g.R.Chance(45) {
				segs = append(segs, ":"+vh.Pick(g.R, m.Request).Name)
			} else {
				segs = append(segs, vh.Pick(g.R, words))
			}
		}
		m.Path = "/" + strings.Join(segs, "/")
		if g.R.Chance(8) {
			m.Path = strings.Join(segs, "/") // no leading slash
		}
		if g.R.Chance(6) && len(segs) > 0 {
			m.Path += "/"
		}
		s.Methods = append(s.Methods, m)
	}
	return s
}

// IsQueryRef: an object reference to j5.list.v1.QueryRequest (conservative: any reference with a
// package prefix and that name; no declared type is called QueryRequest).
func IsQueryRef(f *Field) bool {
	return f != nil && f.Kind == "objref" && f.Ref != nil && f.Ref.Name == "QueryRequest" && f.Ref.Pkg != ""
}

// ListMethodOK: service.go checkListMethod (fix cec4e3a) - a method whose request holds a
// j5.list.v1.QueryRequest must have a response with exactly one array, of objects.
func ListMethodOK(m *Method) bool {
	isList := false
	for _, p := range m.Request {
		if IsQueryRef(p.F) {
			isList = true
		}
	}
	if !isList {
		return true
	}
	if !m.HasResp {
		return false
	}
	var arrays []*Property
	for _, p := range m.Response {
		if p.F.Kind == "array" {
			arrays = append(arrays, p)
		}
	}
	return len(arrays) == 1 && (arrays[0].F.Item.Kind == "objref" || arrays[0].F.Item.Kind == "objinline")
}

// MethodOf finds the method whose request or response property list is props (nil: none).
func MethodOf(b *Bundle, props *[]*Property) *Method {
	for _, f := range b.Files {
		for _, e := range f.Elements {
			if e.Kind != "service" {
				continue
			}
			for _, m := range e.Service.Methods {
				if props == &m.Request || props == &m.Response {
					return m
				}
			}
		}
	}
	return nil
}

// conformListResponse gives a list method the response the compiler asks for: exactly one
// array, of objects (an array already there is kept when it qualifies).
func conformListResponse(m *Method) {
	m.HasResp = true
	var out []*Property
	have := false
	for _, p := range m.Response {
		if p.F.Kind == "array" {
			if have || !(p.F.Item.Kind == "objref" || p.F.Item.Kind == "objinline") {
				continue
			}
			have = true
		}
		out = append(out, p)
	}
	if !have {
		out = append(out, &Property{Name: "results9", F: &Field{Kind: "array", Item: &Field{Kind: "objinline",
			Props: []*Property{{Name: "v", F: &Field{Kind: "scalar", Scalar: &Scalar{Kind: "string"}}}}}}})
	}
	m.Response = out
}

func (g *Gen) tmsg(named bool, sym map[string]bool, fallback string) *Tmsg {
	t := &Tmsg{}
	nm := fallback
	if named {
		for {
			n := g.rawTypeName()
			if len(n) >= 2 && !sym[n+"Message"] {
				nm = n
				break
			}
		}
		t.Name = &nm
	}
	sym[nm+"Message"] = true
	t.Fields = g.propsFor([]string{nm + "Message"}, 1, false, g.R.Range(0, 5))
	return t
}

func (g *Gen) topic() *Topic {
	st := g.cur
	for tries := 0; tries < 30; tries++ {
		name := g.rawTypeName()
		kind := vh.Pick(g.R, []string{"publish", "publish", "reqres", "upsert", "event"})
		t := &Topic{Kind: kind, Name: name}
		svc := strcase.ToCamel(name) + "Topic"
		switch kind {
		case "publish":
			n := g.R.Range(1, 3)
			named := n > 1 || g.R.Chance(60)
			if st.topSyms[svc] || (!named && st.topSyms[name+"Message"]) {
				continue
			}
			st.topSyms[svc] = true
			for i := 0; i < n; i++ {
				t.Msgs = append(t.Msgs, g.tmsg(named, st.topSyms, name))
			}
		case "reqres":
			if st.topSyms[strcase.ToCamel(name+"Request")+"Topic"] || st.topSyms[strcase.ToCamel(name+"Reply")+"Topic"] ||
				st.topSyms[name+"RequestMessage"] || st.topSyms[name+"ReplyMessage"] {
				continue
			}
			st.topSyms[strcase.ToCamel(name+"Request")+"Topic"] = true
			st.topSyms[strcase.ToCamel(name+"Reply")+"Topic"] = true
			if g.R.Chance(25) { // several named request / reply messages
				for i := g.R.Range(2, 3); i > 0; i-- {
					t.Req = append(t.Req, g.tmsg(true, st.topSyms, ""))
				}
				for i := g.R.Range(1, 2); i > 0; i-- {
					t.Reply = append(t.Reply, g.tmsg(true, st.topSyms, ""))
				}
				g.Stats["topic_reqres_multi"]++
			} else {
				t.Req = []*Tmsg{g.tmsg(g.R.Chance(30), st.topSyms, name+"Request")}
				t.Reply = []*Tmsg{g.tmsg(g.R.Chance(30), st.topSyms, name+"Reply")}
			}
		default:
			named := g.R.Chance(50)
			if st.topSyms[svc] || (!named && st.topSyms[name+"Message"]) {
				continue
			}
			st.topSyms[svc] = true
			if g.R.Chance(60) {
				t.Entity = vh.Pick(g.R, words)
			}
			t.Msgs = []*Tmsg{g.tmsg(named, st.topSyms, name)}
		}
		return t
	}
	return nil
}

// package directories: two to four name parts, and two that lie below the directory of another one
var pkgRoots = [][]string{{"foo", "v1"}, {"foo", "bar", "v1"}, {"acme", "baz", "v2"}, {"zed", "v1"}, {"acme", "users", "v1"}, {"lib", "common", "v3"},
	{"foo", "v1", "inner", "v1"}, {"acme", "baz", "v2", "ext", "v1"}, {"acme", "billing", "invoice", "v1"}, {"foo", "v2"}, {"acme", "baz", "v3"}}

// Bundle generates a whole bundle; the returned package is the one to compile
// (the last one: it may refer to all the others).
func (g *Gen) Bundle() (*Bundle, string) {
	b := &Bundle{}
	g.pkgs = nil
	np := 1
	if g.Cfg.Imports {
		np = g.R.Range(1, g.Cfg.MaxPackages)
	}
	used := map[string]bool{}
	siblings := map[string][]string{"foo.v1": {"foo", "v2"}, "foo.v2": {"foo", "v1"}, "acme.baz.v2": {"acme", "baz", "v3"}, "acme.baz.v3": {"acme", "baz", "v2"}}
	for len(g.pkgs) < np {
		dir := vh.Pick(g.R, pkgRoots)
		if len(g.pkgs) > 0 && g.R.Chance(45) {
			// another version of a package already there: both claim the same short name
			if sib, ok := siblings[g.pkgs[len(g.pkgs)-1].name]; ok {
				dir = sib
			}
		}
		name := strings.Join(dir, ".")
		if used[name] {
			continue
		}
		used[name] = true
		g.pkgs = append(g.pkgs, &pkgState{dir: dir, name: name, symbols: map[string]bool{}, svcSyms: map[string]bool{}, topSyms: map[string]bool{}})
	}
	fileBases := []string{"a", "b", "c", "schema", "api", "types"}
	for _, st := range g.pkgs {
		g.cur = st
		nf := g.R.Range(1, g.Cfg.MaxFiles)
		usedBase := map[string]bool{}
		// optionally a hand-written proto file first (so that j5s files can refer to it)
		if g.Cfg.PFiles && g.R.Chance(25) {
			pf := &PFile{Dir: st.dir, Base: "ext" + fmt.Sprint(g.R.Intn(3))}
			for i := g.R.Range(1, 2); i > 0; i-- {
				n := "P" + g.rawTypeName()
				if st.symbols[n] {
					continue
				}
				st.symbols[n] = true
				pf.Msgs = append(pf.Msgs, n)
				st.types = append(st.types, typeEntry{st.name, n, "object", pf.Path()})
			}
			if g.R.Chance(50) {
				n := "PE" + g.rawTypeName()
				up := strings.ToUpper(n)
				if !st.symbols[n] && !st.symbols[up+"_UNSPECIFIED"] {
					st.symbols[n] = true
					st.symbols[up+"_UNSPECIFIED"] = true
					st.symbols[up+"_ONE"] = true
					pf.Enums = append(pf.Enums, n)
					st.types = append(st.types, typeEntry{st.name, n, "enum", pf.Path()})
				}
			}
			b.PFiles = append(b.PFiles, pf)
			g.Stats["pfile"]++
		}
		for i := 0; i < nf; i++ {
			var base string
			for {
				base = vh.Pick(g.R, fileBases)
				if !usedBase[base] {
					usedBase[base] = true
					break
				}
			}
			f := &File{Dir: st.dir, Base: base}
			g.curFile = f
			g.fileName = f.Path() + ".proto"
			g.imports = map[string]string{}
			// declare the names first so that forward references inside the file are possible
			ne := g.R.Range(1, 5)
			var decls []*Element
			for k := 0; k < ne; k++ {
				r := g.R.Intn(100)
				switch {
				case g.Cfg.Services && r < 12:
					decls = append(decls, &Element{Kind: "service"})
				case g.Cfg.Topics && r < 24:
					decls = append(decls, &Element{Kind: "topic"})
				case g.Cfg.Entities && r < 31:
					decls = append(decls, &Element{Kind: "entity"})
				default:
					decls = append(decls, &Element{Kind: "schema"})
				}
			}
			for _, e := range decls {
				switch e.Kind {
				case "service":
					e.Service = g.service()
					g.Stats["service"]++
				case "topic":
					e.Topic = g.topic()
					if e.Topic == nil {
						continue
					}
					g.Stats["topic_"+e.Topic.Kind]++
				case "entity":
					e.Entity = g.entity()
					if e.Entity == nil {
						continue
					}
					g.Stats["entity"]++
				default:
					n := g.nestedDecl(st.symbols, nil, 0, true)
					if n == nil {
						continue
					}
					e.Kind = n.Kind
					e.N = n
					st.types = append(st.types, typeEntry{st.name, n.Name, n.Kind, g.fileName})
					g.Stats["decl_"+n.Kind]++
				}
				f.Elements = append(f.Elements, e)
			}
			g.addSameFileRefs(f)
			b.Files = append(b.Files, f)
		}
		// optionally a hand-written proto file that uses the types generated from the j5s sources
		// (proto importing j5s, by the generated file name <path>.j5s.proto)
		if g.Cfg.PFiles && g.R.Chance(20) {
			pf := &PFile{Dir: st.dir, Base: "late" + fmt.Sprint(g.R.Intn(3))}
			seenImp := map[string]bool{}
			for _, t := range st.types {
				if !strings.HasSuffix(t.file, ".j5s.proto") || !g.R.Chance(40) || len(pf.Uses) >= 4 {
					continue
				}
				if !seenImp[t.file] {
					seenImp[t.file] = true
					pf.Imports = append(pf.Imports, t.file)
				}
				pf.Uses = append(pf.Uses, t.pkg+"."+t.name)
			}
			holder := title(pf.Base) + "Holder"
			if len(pf.Uses) > 0 && !st.symbols[holder] {
				st.symbols[holder] = true
				pf.Holder = holder
				b.PFiles = append(b.PFiles, pf)
				g.Stats["pfile_using_j5s"]++
			}
		}
	}
	return b, g.pkgs[len(g.pkgs)-1].name
}

// addSameFileRefs adds, to some objects of the file, a field referring to a declaration of the
// same file - possibly a later one, possibly the object itself (forward and self references).
func (g *Gen) addSameFileRefs(f *File) {
	if !g.Cfg.Refs {
		return
	}
	var decls []*Nested
	for _, e := range f.Elements {
		if e.N != nil {
			decls = append(decls, e.N)
		}
	}
	for _, e := range f.Elements {
		if e.Kind != "object" || !g.R.Chance(25) {
			continue
		}
		target := vh.Pick(g.R, decls)
		sc := scopeOfMessage([]string{e.N.Name}, e.N.Props, e.N.Subs, false)
		name := g.fieldName(sc)
		kind := map[string]string{"object": "objref", "oneof": "oneofref", "enum": "enumref"}[target.Kind]
		tn := target.Name
		if target.Kind == "enum" {
			tn = target.Enum.Name
		}
		fld := &Field{Kind: kind, Ref: &Ref{Name: tn}}
		if g.Cfg.Containers && g.R.Chance(20) {
			fld = &Field{Kind: "array", Item: fld}
		}
		e.N.Props = append(e.N.Props, &Property{Name: name, F: fld})
		if target == e.N {
			g.Stats["ref_self"]++
		} else {
			g.Stats["ref_same_file_any_order"]++
		}
	}
}

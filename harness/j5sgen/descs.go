package j5sgen

import (
	"strings"

	"github.com/iancoleman/strcase"
)

// DescTable renders the descriptions of a source file as a J5sComments.dtable: declared name
// path -> description ([Object] / [Object; Nested] for declarations; message path ++ [property]
// for properties, inline type names resolved; enum path ++ [OPTION] for enum options). Entities
// are expanded first (the fields of an entity keep their descriptions in <Name>Keys, ...).
func (f *File) DescTable() string {
	var rows []string
	add := func(path []string, d string) {
		if d == "" {
			return
		}
		var ps []string
		for _, p := range path {
			ps = append(ps, S(p))
		}
		rows = append(rows, "(["+strings.Join(ps, "; ")+"], "+S(d)+")")
	}
	with := func(path []string, n string) []string { return append(append([]string{}, path...), n) }
	var props func(mpath []string, ps []*Property)
	enum := func(epath []string, e *Enum) {
		for _, o := range e.Opts {
			add(with(epath, o), e.OptDesc[o])
		}
	}
	props = func(mpath []string, ps []*Property) {
		for _, p := range ps {
			add(with(mpath, p.Name), p.Desc)
			fl := p.F
			if fl.Item != nil {
				fl = fl.Item
			}
			switch fl.Kind {
			case "objinline", "oneofinline":
				n := fl.Name
				if n == "" {
					n = strcase.ToCamel(p.Name)
				}
				props(with(mpath, n), fl.Props)
			case "enuminline":
				n := fl.Enum.Name
				if n == "" {
					n = strcase.ToCamel(p.Name)
				}
				enum(with(mpath, n), fl.Enum)
			}
		}
	}
	var nested func(mpath []string, n *Nested)
	nested = func(mpath []string, n *Nested) {
		if n.Kind == "enum" {
			add(with(mpath, n.Enum.Name), n.Desc)
			enum(with(mpath, n.Enum.Name), n.Enum)
			return
		}
		me := with(mpath, n.Name)
		add(me, n.Desc)
		props(me, n.Props)
		for _, s := range n.Subs {
			nested(me, s)
		}
	}
	for _, e := range f.Expanded() {
		if e.N != nil {
			nested(nil, e.N)
		}
	}
	return "[" + strings.Join(rows, "; ") + "]"
}

// Package j5sgen generates abstract j5s packages (the same abstract syntax as
// coq/model/J5sAst.v), prints them as .j5s text in the surface forms the language
// allows, and renders them as Coq terms for the in-Coq correspondence.
package j5sgen

// Scalar kinds: string bool bytes integer float timestamp date decimal key any.
type Scalar struct {
	Kind string
	Fmt  string // INT32.. / FLOAT32.. / "" id62 uuid informal (key)
}

type Ref struct {
	Pkg  string // as written in the source: "", alias, last-but-one segment, or full package
	Name string
}

type Enum struct {
	Name   string
	Prefix string
	Opts   []string
	// descriptions of options, by option name (single line)
	OptDesc map[string]string
	// `number = N` attributes written on options, by option name: parsed and IGNORED by the
	// compiler (numbers derive from the position only), so they are not part of the model's
	// syntax - a surface form like the others the printer chooses
	OptNum map[string]int
}

// Field kinds: scalar objref objinline oneofref oneofinline enumref enuminline array map.
type Field struct {
	Kind   string
	Scalar *Scalar
	Ref    *Ref
	Name   string // inline object/oneof name ("" = default)
	Props  []*Property
	Enum   *Enum
	Item   *Field
}

type Property struct {
	Name     string
	Required bool
	Optional bool
	F        *Field
	Desc     string // single-line description ("" = none)
}

// Nested kinds: object oneof enum.
type Nested struct {
	Kind  string
	Name  string
	Props []*Property
	Subs  []*Nested
	Enum  *Enum
	Desc  string // single-line description of the declaration ("" = none)
}

type Method struct {
	Name     string
	Verb     string // GET POST PUT DELETE PATCH
	Path     string
	Request  []*Property
	Response []*Property
	HasResp  bool
}

type Service struct {
	Name    string
	Base    *string
	Methods []*Method
}

type Tmsg struct {
	Name   *string
	Fields []*Property
}

// Topic kinds: publish reqres upsert event.
type Topic struct {
	Kind   string
	Name   string
	Entity string
	Msgs   []*Tmsg // publish; upsert/event: exactly one
	Req    []*Tmsg
	Reply  []*Tmsg
}

// Element kinds: object oneof enum service topic entity.
type Element struct {
	Kind    string
	N       *Nested
	Service *Service
	Topic   *Topic
	Entity  *Entity
}

type Import struct {
	Path  string
	Alias string
}

type File struct {
	Dir      []string
	Base     string
	Imports  []*Import
	Elements []*Element
}

func (f *File) Package() string { return joinStr(f.Dir, ".") }
func (f *File) Path() string    { return joinStr(f.Dir, "/") + "/" + f.Base + ".j5s" }

// PFile is a hand-written .proto file of a local package.
type PFile struct {
	Dir     []string
	Base    string
	Msgs    []string
	Enums   []string
	Imports []string // proto import paths
	Uses    []string // full type names used as fields of the message Holder
	Holder  string   // name of the message that uses them ("" = none)
}

func (f *PFile) Package() string { return joinStr(f.Dir, ".") }
func (f *PFile) Path() string    { return joinStr(f.Dir, "/") + "/" + f.Base + ".proto" }

type Bundle struct {
	Files  []*File
	PFiles []*PFile
}

func joinStr(l []string, sep string) string {
	out := ""
	for i, s := range l {
		if i > 0 {
			out += sep
		}
		out += s
	}
	return out
}

// Packages lists the bundle's package names (sorted, unique).
func (b *Bundle) Packages() []string {
	seen := map[string]bool{}
	var out []string
	add := func(p string) {
		if !seen[p] {
			seen[p] = true
			out = append(out, p)
		}
	}
	for _, f := range b.Files {
		add(f.Package())
	}
	for _, f := range b.PFiles {
		add(f.Package())
	}
	sortStrings(out)
	return out
}

func sortStrings(l []string) {
	for i := 1; i < len(l); i++ {
		for j := i; j > 0 && l[j] < l[j-1]; j-- {
			l[j], l[j-1] = l[j-1], l[j]
		}
	}
}

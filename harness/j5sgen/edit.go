package j5sgen

import (
	"fmt"
	"strings"

	"github.com/iancoleman/strcase"
	"verifharness/vh"
)

// Append edits for C13: a new field at the end of an object / oneof / request / response /
// topic message (at any nesting depth), a new option at the end of an enum, a new
// declaration at the end of a file. The edited bundle stays valid (names new in their scope).

type EditRec struct {
	Kind   string `json:"kind"`   // field option decl nested
	Target string `json:"target"` // file: path of the declaration
	What   string `json:"what"`
	Coq    string `json:"coq"` // the same edit as a term of type J5sEdit.edit
	Note   string `json:"note,omitempty"`
}

// scopeOfMessage rebuilds the name scope of an existing message.
func scopeOfMessage(path []string, props []*Property, subs []*Nested, inOneof bool) *scope {
	sc := newScope(path)
	if inOneof {
		sc.fields["type"] = true
	}
	for _, p := range props {
		sc.fields[normKey(strcase.ToSnake(p.Name))] = true
		sc.fields[normKey(p.Name)] = true
		f := p.F
		if f.Kind == "map" {
			sc.symbols[mapEntryName(p.Name)] = true
		}
		if f.Item != nil {
			f = f.Item
		}
		switch f.Kind {
		case "objinline", "oneofinline":
			n := f.Name
			if n == "" {
				n = strcase.ToCamel(p.Name)
			}
			sc.symbols[n] = true
		case "enuminline":
			n := f.Enum.Name
			if n == "" {
				n = strcase.ToCamel(p.Name)
			}
			claimEnum(sc.symbols, n, f.Enum)
		}
	}
	for _, s := range subs {
		if s.Kind == "enum" {
			claimEnum(sc.symbols, s.Enum.Name, s.Enum)
		} else {
			sc.symbols[s.Name] = true
		}
	}
	return sc
}

// addr is the address of a message inside a declaration, in the terms of coq/model/J5sEdit.v.
type addr struct {
	file, elem int
	root       string   // AtDecl | (AtRequest m) | (AtResponse m) | (AtTopicMsg reply k)
	steps      []string // (SInline i) | (SNested k)
	// the older single-purpose constructor for the same place, when there is one ("" = none)
	plain string
}

func (a addr) step(s string) addr {
	return addr{a.file, a.elem, a.root, append(append([]string{}, a.steps...), s), ""}
}

func (a addr) in(action string) string {
	return fmt.Sprintf("EAppendIn %d %d %s %s %s", a.file, a.elem, a.root, list(a.steps), action)
}

// fieldEdit renders "append property p to the message at a" as a term of type J5sEdit.edit;
// both spellings of the top-level places are used.
func (a addr) fieldEdit(r *vh.Rand, p *Property) string {
	if a.plain != "" && r.Chance(50) {
		return a.plain + " " + p.Coq()
	}
	return a.in("(AField " + p.Coq() + ")")
}

type msgSite struct {
	desc    string
	path    []string
	props   *[]*Property
	subs    []*Nested
	subsPtr *[]*Nested // where a nested declaration can be appended (nil: inline and virtual messages)
	inOneof bool
	at      addr
}

type enumSite struct {
	desc    string
	name    string // resolved name
	e       *Enum
	symbols func() map[string]bool // symbol set of the enclosing scope, rebuilt on demand
	edit    func(o string) string  // the Coq edit appending option o
}

// sites lists every message and enum of the files of pkg.
func sites(b *Bundle, pkg string) (msgs []msgSite, enums []enumSite, files []*File, fileIdx []int) {
	var walkProps func(file string, path []string, props *[]*Property, subs *[]*Nested, inOneof bool, at addr)
	var walkNested func(file string, path []string, n *Nested, parentSyms func() map[string]bool, at addr, optEdit func(o string) string)
	walkProps = func(file string, path []string, props *[]*Property, subsPtr *[]*Nested, inOneof bool, at addr) {
		var subs []*Nested
		if subsPtr != nil {
			subs = *subsPtr
		}
		msgs = append(msgs, msgSite{desc: file + ":" + strings.Join(path, "."), path: path, props: props, subs: subs, subsPtr: subsPtr, inOneof: inOneof, at: at})
		mySyms := func() map[string]bool {
			var cur []*Nested
			if subsPtr != nil {
				cur = *subsPtr
			}
			return scopeOfMessage(path, *props, cur, inOneof).symbols
		}
		for i, p := range *props {
			f := p.F
			if f.Item != nil {
				f = f.Item
			}
			here := at.step(fmt.Sprintf("(SInline %d)", i))
			switch f.Kind {
			case "objinline", "oneofinline":
				n := f.Name
				if n == "" {
					n = strcase.ToCamel(p.Name)
				}
				walkProps(file, append(append([]string{}, path...), n), &f.Props, nil, f.Kind == "oneofinline", here)
			case "enuminline":
				n := f.Enum.Name
				if n == "" {
					n = strcase.ToCamel(p.Name)
				}
				enums = append(enums, enumSite{desc: file + ":" + strings.Join(path, ".") + "." + n, name: n, e: f.Enum, symbols: mySyms,
					edit: func(o string) string { return here.in("(AOption " + S(o) + ")") }})
			}
		}
		for k, s := range subs {
			here := at.step(fmt.Sprintf("(SNested %d)", k))
			walkNested(file, path, s, mySyms, here, func(o string) string { return here.in("(AOption " + S(o) + ")") })
		}
	}
	walkNested = func(file string, path []string, n *Nested, parentSyms func() map[string]bool, at addr, optEdit func(o string) string) {
		if n.Kind == "enum" {
			enums = append(enums, enumSite{desc: file + ":" + strings.Join(append(append([]string{}, path...), n.Enum.Name), "."), name: n.Enum.Name, e: n.Enum, symbols: parentSyms, edit: optEdit})
			return
		}
		walkProps(file, append(append([]string{}, path...), n.Name), &n.Props, &n.Subs, n.Kind == "oneof", at)
	}
	for fi, f := range b.Files {
		if f.Package() != pkg {
			continue
		}
		files = append(files, f)
		fileIdx = append(fileIdx, fi)
		pkgSyms := func() map[string]bool { return packageSymbols(b, pkg) }
		for ei, e := range f.Elements {
			fi, ei := fi, ei
			switch e.Kind {
			case "object", "oneof":
				walkNested(f.Path(), nil, e.N, pkgSyms, addr{fi, ei, "AtDecl", nil, fmt.Sprintf("EAppendField %d %d", fi, ei)}, nil)
			case "enum":
				walkNested(f.Path(), nil, e.N, pkgSyms, addr{}, func(o string) string { return fmt.Sprintf("EAppendOption %d %d %s", fi, ei, S(o)) })
			case "service":
				for mi, m := range e.Service.Methods {
					walkProps(f.Path()+"/service", []string{m.Name + "Request"}, &m.Request, nil, false,
						addr{fi, ei, fmt.Sprintf("(AtRequest %d)", mi), nil, fmt.Sprintf("EAppendRequestField %d %d %d", fi, ei, mi)})
					if m.HasResp {
						walkProps(f.Path()+"/service", []string{m.Name + "Response"}, &m.Response, nil, false,
							addr{fi, ei, fmt.Sprintf("(AtResponse %d)", mi), nil, fmt.Sprintf("EAppendResponseField %d %d %d", fi, ei, mi)})
					}
				}
			case "topic":
				t := e.Topic
				add := func(tname string, l []*Tmsg, reply bool) {
					for k, tm := range l {
						mn := tname
						if tm.Name != nil {
							mn = *tm.Name
						}
						plain := ""
						if !reply {
							plain = fmt.Sprintf("EAppendTopicField %d %d %d", fi, ei, k)
						}
						walkProps(f.Path()+"/topic", []string{mn + "Message"}, &tm.Fields, nil, false,
							addr{fi, ei, fmt.Sprintf("(AtTopicMsg %s %d)", coqBool(reply), k), nil, plain})
					}
				}
				switch t.Kind {
				case "reqres":
					add(t.Name+"Request", t.Req, false)
					add(t.Name+"Reply", t.Reply, true)
				default:
					add(t.Name, t.Msgs, false)
				}
			}
		}
	}
	return
}

// EmptyEnumAppends lists the instances of the former C13 finding (repaired by a65e1f2) in an edit list: for
// every enum of pkg that has NO options in b (the bundle before the edits), the first option
// the edits append to it, if that option ends in UNSPECIFIED.  Key: the proto full name of the
// enum (package - or its .service / .topic sub-package - and nest path); value: the option.
func EmptyEnumAppends(b *Bundle, pkg string, edits []EditRec) map[string]string {
	out := map[string]string{}
	_, enums, _, _ := sites(b, pkg)
	for _, site := range enums {
		if len(site.e.Opts) != 0 {
			continue
		}
		for _, e := range edits {
			if e.Kind != "option" || e.Target != site.desc {
				continue
			}
			if strings.HasSuffix(e.What, "UNSPECIFIED") {
				file, path, _ := strings.Cut(site.desc, ":")
				full := pkg
				switch {
				case strings.HasSuffix(file, "/service"):
					full += ".service"
				case strings.HasSuffix(file, "/topic"):
					full += ".topic"
				}
				out[full+"."+path] = e.What
			}
			break // only the FIRST option appended to the enum can become its zero value
		}
	}
	return out
}

// packageSymbols rebuilds the package-scope symbol set (type names and enum value names).
func packageSymbols(b *Bundle, pkg string) map[string]bool {
	syms := map[string]bool{}
	for _, f := range b.Files {
		if f.Package() != pkg {
			continue
		}
		for _, e := range f.Elements {
			if e.N == nil {
				continue
			}
			if e.N.Kind == "enum" {
				claimEnum(syms, e.N.Enum.Name, e.N.Enum)
			} else {
				syms[e.N.Name] = true
			}
		}
	}
	for _, f := range b.PFiles {
		if f.Package() != pkg {
			continue
		}
		for _, m := range f.Msgs {
			syms[m] = true
		}
		for _, m := range f.Enums {
			syms[m] = true
			syms[strings.ToUpper(m)+"_UNSPECIFIED"] = true
			syms[strings.ToUpper(m)+"_ONE"] = true
		}
	}
	return syms
}

func subPackageSymbols(b *Bundle, pkg string) (svc, top map[string]bool) {
	svc, top = map[string]bool{}, map[string]bool{}
	for _, f := range b.Files {
		if f.Package() != pkg {
			continue
		}
		for _, e := range f.Elements {
			switch e.Kind {
			case "service":
				svc[e.Service.Name+"Service"] = true
				for _, m := range e.Service.Methods {
					svc[m.Name+"Request"] = true
					svc[m.Name+"Response"] = true
				}
			case "topic":
				t := e.Topic
				mark := func(tname string, l []*Tmsg) {
					top[strcase.ToCamel(tname)+"Topic"] = true
					for _, tm := range l {
						mn := tname
						if tm.Name != nil {
							mn = *tm.Name
						}
						top[mn+"Message"] = true
					}
				}
				if t.Kind == "reqres" {
					mark(t.Name+"Request", t.Req)
					mark(t.Name+"Reply", t.Reply)
				} else {
					mark(t.Name, t.Msgs)
				}
			}
		}
	}
	return
}

// ApplyEdits applies n random append edits to the files of pkg (in place).
func ApplyEdits(r *vh.Rand, b *Bundle, pkg string, n int) []EditRec {
	cfg := DefaultConfig()
	cfg.Refs, cfg.Imports, cfg.PFiles = false, false, false
	cfg.MaxDepth = 3
	g := NewGen(r, cfg)
	var recs []EditRec
	for len(recs) < n {
		msgs, enums, files, fileIdx := sites(b, pkg)
		switch k := r.Intn(100); {
		case k < 12 && len(msgs) > 0: // field with an inline type named like a type the message already refers to
			var cands []msgSite
			var names []string
			for _, m := range msgs {
				sc := scopeOfMessage(m.path, *m.props, m.subs, m.inOneof)
				for _, p := range *m.props {
					f := p.F
					if f.Item != nil {
						f = f.Item
					}
					if (f.Kind == "objref" || f.Kind == "enumref" || f.Kind == "oneofref") && (f.Ref.Pkg == "" || f.Ref.Pkg == pkg) && !sc.symbols[f.Ref.Name] {
						cands = append(cands, m)
						names = append(names, f.Ref.Name)
					}
				}
			}
			if len(cands) == 0 {
				continue
			}
			i := r.Intn(len(cands))
			site := cands[i]
			sc := scopeOfMessage(site.path, *site.props, site.subs, site.inOneof)
			p := &Property{Name: g.fieldName(sc), F: &Field{Kind: "objinline", Name: names[i],
				Props: []*Property{{Name: "v", F: &Field{Kind: "scalar", Scalar: &Scalar{Kind: "string"}}}}}}
			*site.props = append(*site.props, p)
			if m := MethodOf(b, site.props); m != nil && !ListMethodOK(m) {
				*site.props = (*site.props)[:len(*site.props)-1] // would break a list method (fix cec4e3a)
				continue
			}
			recs = append(recs, EditRec{"field", site.desc, p.Name + " objinline named like referenced type " + names[i], site.at.fieldEdit(r, p), ""})
		case k < 22 && len(msgs) > 0: // field referring to a well-known type - also the type of the implicit leading field of a topic message
			var cands []msgSite
			for _, m := range msgs {
				if strings.HasSuffix(m.desc[:strings.Index(m.desc, ":")], "/topic") || r.Chance(25) {
					cands = append(cands, m)
				}
			}
			if len(cands) == 0 {
				continue
			}
			site := vh.Pick(r, cands)
			sc := scopeOfMessage(site.path, *site.props, site.subs, site.inOneof)
			w := vh.Pick(r, ImplicitTypes)
			if strings.Contains(site.desc, "/topic:") && r.Chance(70) {
				w = vh.Pick(r, [][2]string{{"j5.messaging.v1", "RequestMetadata"}, {"j5.messaging.v1", "UpsertMetadata"}})
			}
			f := &Field{Kind: "objref", Ref: &Ref{Pkg: w[0], Name: w[1]}}
			if !site.inOneof && r.Chance(20) {
				f = &Field{Kind: "array", Item: f}
			}
			p := &Property{Name: g.fieldName(sc), F: f}
			if !site.inOneof && r.Chance(20) {
				p.Optional = true // also on the array form (plain repeated field)
			}
			*site.props = append(*site.props, p)
			if m := MethodOf(b, site.props); m != nil && !ListMethodOK(m) {
				*site.props = (*site.props)[:len(*site.props)-1] // would break a list method (fix cec4e3a)
				continue
			}
			recs = append(recs, EditRec{"field", site.desc, p.Name + " ref to implicit type " + w[1], site.at.fieldEdit(r, p), ""})
		case k < 55 && len(msgs) > 0: // field
			site := vh.Pick(r, msgs)
			sc := scopeOfMessage(site.path, *site.props, site.subs, site.inOneof)
			p := g.property(sc, len(site.path), site.inOneof)
			if p == nil {
				continue
			}
			*site.props = append(*site.props, p)
			if m := MethodOf(b, site.props); m != nil && !ListMethodOK(m) {
				*site.props = (*site.props)[:len(*site.props)-1] // would break a list method (fix cec4e3a)
				continue
			}
			recs = append(recs, EditRec{"field", site.desc, p.Name + " " + p.F.Kind, site.at.fieldEdit(r, p), ""})
		case k < 62 && len(msgs) > 0: // nested declaration at the end of a declared object / oneof
			var cands []msgSite
			for _, m := range msgs {
				if m.subsPtr != nil && len(m.path) < 3 {
					cands = append(cands, m)
				}
			}
			if len(cands) == 0 {
				continue
			}
			site := vh.Pick(r, cands)
			sc := scopeOfMessage(site.path, *site.props, *site.subsPtr, site.inOneof)
			nd := g.nestedDecl(sc.symbols, site.path, len(site.path), false)
			if nd == nil {
				continue
			}
			*site.subsPtr = append(*site.subsPtr, nd)
			recs = append(recs, EditRec{"nested", site.desc, nd.Kind + " " + nd.Name, site.at.in("(ASub " + nd.Coq() + ")"), ""})
		case k < 78 && len(enums) > 0: // option
			site := vh.Pick(r, enums)
			syms := site.symbols()
			pfx := site.e.Prefix
			if pfx == "" {
				pfx = strcase.ToScreamingSnake(site.name) + "_"
			}
			o := vh.Pick(r, optWords) + fmt.Sprint(r.Intn(50))
			switch k := r.Intn(100); {
			case k < 20:
				o = vh.Pick(r, optWords) + "_UNSPECIFIED" // ends like the zero value, is not the zero value
			case k < 30:
				o = pfx + o // spelled with the prefix already on
			case k < 36:
				o = "UNSPECIFIED" + fmt.Sprint(r.Intn(9))
			}
			if syms[pfx+o] {
				continue
			}
			dup := false
			for _, x := range site.e.Opts {
				if x == o || x == pfx+o {
					dup = true
				}
			}
			if dup {
				continue
			}
			note := ""
			if len(site.e.Opts) == 0 {
				note = "to_enum_without_options"
				if strings.HasSuffix(o, "UNSPECIFIED") {
					// before fix a65e1f2 this option, the first one now, became the zero value
					note = "unspecified_to_enum_without_options"
				}
			}
			site.e.Opts = append(site.e.Opts, o)
			if !strings.HasSuffix(o, "UNSPECIFIED") && r.Chance(25) {
				// `number = N` on the appended option, N among the numbers the earlier options have:
				// ignored by the compiler (seeded C13-G: honoured, the earlier options renumbered)
				if site.e.OptNum == nil {
					site.e.OptNum = map[string]int{}
				}
				site.e.OptNum[o] = r.Range(1, len(site.e.Opts))
				note += "_with_number_attr"
			}
			recs = append(recs, EditRec{"option", site.desc, o, site.edit(o), note})
		default: // declaration
			fk := r.Intn(len(files))
			f := files[fk]
			st := &pkgState{name: pkg, symbols: packageSymbols(b, pkg)}
			st.svcSyms, st.topSyms = subPackageSymbols(b, pkg)
			g.cur, g.curFile, g.fileName, g.imports = st, f, f.Path()+".proto", map[string]string{}
			var e *Element
			switch d := r.Intn(100); {
			case d < 15:
				e = &Element{Kind: "service", Service: g.service()}
			case d < 30:
				if t := g.topic(); t != nil {
					e = &Element{Kind: "topic", Topic: t}
				}
			default:
				if nd := g.nestedDecl(st.symbols, nil, 0, true); nd != nil {
					e = &Element{Kind: nd.Kind, N: nd}
				}
			}
			if e == nil {
				continue
			}
			f.Elements = append(f.Elements, e)
			recs = append(recs, EditRec{"decl", f.Path(), e.Kind, fmt.Sprintf("EAppendDecl %d %s", fileIdx[fk], e.Coq()), ""})
		}
	}
	return recs
}

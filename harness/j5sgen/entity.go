package j5sgen

import (
	"fmt"
	"strings"

	"github.com/iancoleman/strcase"
	"verifharness/vh"
)

// Entities inside the C02 generator (coq/model/J5sEntity.v): keys (primary / shard flags), data,
// statuses, events; the compiler adds the Query service and the Publish topic. Command
// services, summaries, schemas declared in the entity block and query settings are family
// ent's (C17) and are not generated here.

type EKey struct {
	P       *Property
	Primary bool
	Shard   bool
}

type EEvent struct {
	Name   string
	Fields []*Property
}

type Entity struct {
	Name   string
	Keys   []*EKey
	Data   []*Property
	Status []string
	Events []*EEvent
}

func isKeyField(f *Field) bool { return f.Kind == "scalar" && f.Scalar.Kind == "key" }

func (e *Entity) component(suffix string) string {
	return strcase.ToCamel(e.Name) + strcase.ToCamel(suffix)
}

func extObj(pkg, name string) *Field { return &Field{Kind: "objref", Ref: &Ref{Pkg: pkg, Name: name}} }
func (e *Entity) ownObj(suffix string) *Field {
	return &Field{Kind: "objref", Ref: &Ref{Name: e.component(suffix)}}
}
func reqProp(n string, f *Field) *Property { return &Property{Name: n, Required: true, F: f} }

// keyProperty: what buildProperty makes of key.Def (a primary key is required).
func keyProperty(k *EKey) *Property {
	p := *k.P
	p.Required = p.Required || (k.Primary && isKeyField(p.F))
	return &p
}

// Expand restates what the README says an entity stands for (sourcewalk/entity.go), as
// ordinary declarations in visiting order: <Name>Keys, <Name>Data, <Name>Status, <Name>State,
// <Name>EventType (the events nested in it), <Name>Event, the <Name>Query service (Get / List /
// Events) and the <Name>Publish topic. Written independently of the Coq expansion.
func (e *Entity) Expand(pkg string) []*Element {
	var out []*Element
	obj := func(name string, ps []*Property, subs ...*Nested) {
		out = append(out, &Element{Kind: "object", N: &Nested{Kind: "object", Name: name, Props: ps, Subs: subs}})
	}
	var keyProps []*Property
	for _, k := range e.Keys {
		keyProps = append(keyProps, keyProperty(k))
	}
	obj(e.component("Keys"), keyProps)
	obj(e.component("Data"), e.Data)
	st := &Enum{Name: e.component("Status"), Prefix: strcase.ToScreamingSnake(e.Name) + "_STATUS_", Opts: e.Status}
	out = append(out, &Element{Kind: "enum", N: &Nested{Kind: "enum", Name: st.Name, Enum: st}})
	statusRef := &Field{Kind: "enumref", Ref: &Ref{Name: e.component("Status")}}
	obj(e.component("State"), []*Property{
		reqProp("metadata", extObj("j5.state.v1", "StateMetadata")),
		reqProp("keys", e.ownObj("Keys")),
		reqProp("data", e.ownObj("Data")),
		reqProp("status", statusRef)})
	et := &Nested{Kind: "oneof", Name: e.component("EventType")}
	for _, ev := range e.Events {
		et.Props = append(et.Props, &Property{Name: strcase.ToLowerCamel(ev.Name), F: &Field{Kind: "objref", Ref: &Ref{Name: et.Name + "." + ev.Name}}})
		et.Subs = append(et.Subs, &Nested{Kind: "object", Name: ev.Name, Props: ev.Fields})
	}
	out = append(out, &Element{Kind: "oneof", N: et})
	eventRef := &Field{Kind: "oneofref", Ref: &Ref{Name: et.Name}}
	obj(e.component("Event"), []*Property{
		reqProp("metadata", extObj("j5.state.v1", "EventMetadata")),
		reqProp("keys", e.ownObj("Keys")),
		reqProp("event", eventRef)})

	// the query service
	name := strcase.ToSnake(e.Name)
	cn, ln := strcase.ToCamel(name), strcase.ToLowerCamel(name)
	var getKeys, listKeys []*Property
	var getPath, listPath []string
	for _, k := range e.Keys {
		if !isKeyField(k.P.F) {
			continue
		}
		if k.Primary || k.Shard {
			getKeys = append(getKeys, keyProperty(k))
			getPath = append(getPath, ":"+k.P.Name)
		}
		if k.Shard {
			listKeys = append(listKeys, keyProperty(k))
			listPath = append(listPath, ":"+k.P.Name)
		}
	}
	page := func() []*Property {
		return []*Property{{Name: "page", F: extObj("j5.list.v1", "PageRequest")}, {Name: "query", F: extObj("j5.list.v1", "QueryRequest")}}
	}
	pageResp := func() *Property { return &Property{Name: "page", F: extObj("j5.list.v1", "PageResponse")} }
	base := "/" + strings.Join(append(strings.Split(pkg, "."), name), "/") + "/q"
	svc := &Service{Name: cn + "Query", Base: &base, Methods: []*Method{
		{Name: cn + "Get", Verb: "GET", Path: strings.Join(getPath, "/"), Request: getKeys, HasResp: true,
			Response: []*Property{reqProp(ln, e.ownObj("State"))}},
		{Name: cn + "List", Verb: "GET", Path: strings.Join(listPath, "/"), Request: append(listKeys, page()...), HasResp: true,
			Response: []*Property{reqProp(ln, &Field{Kind: "array", Item: e.ownObj("State")}), pageResp()}},
		{Name: cn + "Events", Verb: "GET", Path: strings.Join(append(append([]string{}, getPath...), "events"), "/"),
			Request: append(append([]*Property{}, getKeys...), page()...), HasResp: true,
			Response: []*Property{{Name: "events", F: &Field{Kind: "array", Item: e.ownObj("Event")}}, pageResp()}},
	}}
	out = append(out, &Element{Kind: "service", Service: svc})

	// the publish topic
	msgName := strcase.ToCamel(e.Name) + "Event"
	out = append(out, &Element{Kind: "topic", Topic: &Topic{Kind: "event", Name: strcase.ToCamel(e.Name) + "Publish",
		Entity: pkg + "." + strcase.ToCamel(e.Name),
		Msgs: []*Tmsg{{Name: &msgName, Fields: []*Property{
			reqProp("metadata", extObj("j5.state.v1", "EventPublishMetadata")),
			reqProp("keys", e.ownObj("Keys")),
			reqProp("event", eventRef),
			reqProp("data", e.ownObj("Data")),
			reqProp("status", statusRef)}}}}})
	return out
}

// Expanded lists the file's root elements with every entity replaced by its expansion.
func (f *File) Expanded() []*Element {
	var out []*Element
	for _, e := range f.Elements {
		if e.Kind == "entity" {
			out = append(out, e.Entity.Expand(f.Package())...)
		} else {
			out = append(out, e)
		}
	}
	return out
}

func (f *File) HasEntity() bool {
	for _, e := range f.Elements {
		if e.Kind == "entity" {
			return true
		}
	}
	return false
}

var eventNames = []string{"Created", "Updated", "Archived", "Create", "Delete", "NameChanged", "Approve", "Step2", "HTTPSeen", "Done"}
var statusWords = []string{"ACTIVE", "INACTIVE", "PENDING", "DONE", "ARCHIVED", "NEW", "FAILED", "STEP_2"}

// entity draws an entity of the current package; nil when its names are taken.
func (g *Gen) entity() *Entity {
	st := g.cur
	for tries := 0; tries < 30; tries++ {
		e := &Entity{Name: g.rawTypeName()}
		// entity Page / Events: the List / Events response gets two fields of that name and the package is
		// rejected (a C17 finding of family ent); not a valid input here
		if ln := strcase.ToLowerCamel(strcase.ToSnake(e.Name)); ln == "page" || ln == "events" {
			continue
		}
		cn := strcase.ToCamel(e.Name)
		qn := strcase.ToCamel(strcase.ToSnake(e.Name))
		// statuses (distinct; their value names are package symbols)
		seen := map[string]bool{}
		for i := g.R.Range(1, 4); i > 0; i-- {
			s := vh.Pick(g.R, statusWords)
			if !seen[s] {
				seen[s] = true
				e.Status = append(e.Status, s)
			}
		}
		pkgNames := []string{e.component("Keys"), e.component("Data"), e.component("Status"), e.component("State"), e.component("EventType"), e.component("Event")}
		pkgNames = append(pkgNames, enumValueNames(e.component("Status"), &Enum{Prefix: strcase.ToScreamingSnake(e.Name) + "_STATUS_", Opts: e.Status})...)
		svcNames := []string{qn + "QueryService", qn + "GetRequest", qn + "GetResponse", qn + "ListRequest", qn + "ListResponse", qn + "EventsRequest", qn + "EventsResponse"}
		topNames := []string{strcase.ToCamel(cn+"Publish") + "Topic", cn + "EventMessage"}
		clash := false
		for _, n := range pkgNames {
			clash = clash || st.symbols[n]
		}
		for _, n := range svcNames {
			clash = clash || st.svcSyms[n]
		}
		for _, n := range topNames {
			clash = clash || st.topSyms[n]
		}
		if clash {
			continue
		}
		for _, n := range pkgNames {
			st.symbols[n] = true
		}
		for _, n := range svcNames {
			st.svcSyms[n] = true
		}
		for _, n := range topNames {
			st.topSyms[n] = true
		}
		// keys: the first one a primary key-typed field; further ones key-typed (primary / shard) or any scalar.
		// Names the expansion adds to requests (page, query) are avoided.
		ksc := newScope([]string{e.component("Keys")})
		for _, reserved := range []string{"page", "query"} {
			ksc.fields[normKey(reserved)] = true
		}
		nk := g.R.Range(1, 3)
		for i := 0; i < nk; i++ {
			name := g.fieldName(ksc)
			k := &EKey{P: &Property{Name: name}}
			if i == 0 || g.R.Chance(60) {
				k.P.F = &Field{Kind: "scalar", Scalar: &Scalar{Kind: "key", Fmt: vh.Pick(g.R, []string{"id62", "uuid", ""})}}
				k.Primary = i == 0 || g.R.Chance(30)
				k.Shard = g.R.Chance(25)
				if !k.Primary && g.R.Chance(30) {
					k.P.Required = true
				}
			} else {
				k.P.F = &Field{Kind: "scalar", Scalar: g.scalar()}
				k.Shard = g.R.Chance(20) // ignored by the query paths: not a key-typed field
				k.P.Required = g.R.Chance(30)
			}
			e.Keys = append(e.Keys, k)
		}
		// data and event fields: every field type, inline types nested in <Name>Data / <Name>EventType.<Event>
		e.Data = g.propsFor([]string{e.component("Data")}, 1, false, g.R.Range(0, 4))
		seenEv, seenMember := map[string]bool{}, map[string]bool{}
		for i := g.R.Range(1, 3); i > 0; i-- {
			n := vh.Pick(g.R, eventNames)
			m := normKey(strcase.ToSnake(strcase.ToLowerCamel(n)))
			if seenEv[n] || seenMember[m] {
				continue
			}
			seenEv[n], seenMember[m] = true, true
			e.Events = append(e.Events, &EEvent{Name: n, Fields: g.propsFor([]string{e.component("EventType"), n}, 2, false, g.R.Range(0, 3))})
		}
		st.types = append(st.types, typeEntry{st.name, e.component("Keys"), "object", g.fileName}, typeEntry{st.name, e.component("State"), "object", g.fileName},
			typeEntry{st.name, e.component("Status"), "enum", g.fileName})
		return e
	}
	return nil
}

// ---- printing

func (p *Printer) entity(e *Entity, ind int) {
	p.line(ind, "entity %s {", e.Name)
	for _, k := range e.Keys {
		var extra []string
		if k.Primary {
			extra = append(extra, "primary = true")
		}
		if k.Shard {
			extra = append(extra, "shardKey = true")
		}
		p.propertyWith(k.P, "key", ind+1, extra)
	}
	p.props(e.Data, "data", ind+1)
	for _, s := range e.Status {
		p.line(ind+1, "status %s", s)
	}
	for _, ev := range e.Events {
		p.line(ind+1, "event %s {", ev.Name)
		p.props(ev.Fields, "field", ind+2)
		p.line(ind+1, "}")
	}
	p.line(ind, "}")
}

// ---- Coq

func (e *Entity) Coq() string {
	var keys, evs []string
	for _, k := range e.Keys {
		keys = append(keys, fmt.Sprintf("(mkEkey %s %s %s)", k.P.Coq(), coqBool(k.Primary), coqBool(k.Shard)))
	}
	for _, ev := range e.Events {
		evs = append(evs, fmt.Sprintf("(mkEevent %s %s)", S(ev.Name), PropsCoq(ev.Fields)))
	}
	var sts []string
	for _, s := range e.Status {
		sts = append(sts, S(s))
	}
	return fmt.Sprintf("(mkEntity %s [%s] %s [%s] [%s])", S(e.Name), strings.Join(keys, "; "), PropsCoq(e.Data), strings.Join(sts, "; "), strings.Join(evs, "; "))
}

package j5sgen

import (
	"fmt"
	"strings"

	"verifharness/vh"
)

// Printer renders the abstract syntax as .j5s text. Wherever the language offers more
// than one surface form (the "!"/"?" marks vs. body attributes, "type:Ref" qualifiers
// vs. a "ref" line in the body, "array:T" vs. an "items" block, ...) the form is drawn
// from R; with R == nil the shortest form is used.
type Printer struct {
	R  *vh.Rand
	sb strings.Builder
}

func (p *Printer) chance(pc int) bool { return p.R != nil && p.R.Chance(pc) }

func (p *Printer) line(ind int, format string, a ...any) {
	p.sb.WriteString(strings.Repeat("  ", ind))
	fmt.Fprintf(&p.sb, format, a...)
	p.sb.WriteByte('\n')
}

func refText(r *Ref) string {
	if r.Pkg == "" {
		return r.Name
	}
	return r.Pkg + "." + r.Name
}

// typeSpec returns the tag after the field name, attribute lines ("path = value",
// relative to the scope of the field type) and the body lines of the field.
func (p *Printer) typeSpec(f *Field, ind int) (tag string, attrs []string, body func()) {
	switch f.Kind {
	case "scalar":
		s := f.Scalar
		switch s.Kind {
		case "integer", "float":
			if p.chance(25) {
				return s.Kind, []string{fmt.Sprintf("format = %q", s.Fmt)}, nil
			}
			return s.Kind + ":" + s.Fmt, nil, nil
		case "key":
			if s.Fmt == "" {
				return "key", nil, nil
			}
			if p.chance(25) {
				return "key", nil, func() { p.line(ind, "format %s", s.Fmt) }
			}
			return "key:" + s.Fmt, nil, nil
		}
		return s.Kind, nil, nil
	case "objref", "oneofref", "enumref":
		kind := map[string]string{"objref": "object", "oneofref": "oneof", "enumref": "enum"}[f.Kind]
		switch {
		case p.chance(20):
			return kind, nil, func() { p.line(ind, "ref %s", refText(f.Ref)) }
		case p.chance(10):
			return kind, []string{fmt.Sprintf("ref = %q", refText(f.Ref))}, nil
		}
		return kind + ":" + refText(f.Ref), nil, nil
	case "objinline":
		if f.Name != "" {
			attrs = append(attrs, fmt.Sprintf("object.name = %q", f.Name))
		}
		return "object", attrs, func() { p.props(f.Props, "field", ind) }
	case "oneofinline":
		if f.Name != "" {
			attrs = append(attrs, fmt.Sprintf("oneof.name = %q", f.Name))
		}
		return "oneof", attrs, func() { p.props(f.Props, "option", ind) }
	case "enuminline":
		if f.Enum.Name != "" {
			attrs = append(attrs, fmt.Sprintf("enum.name = %q", f.Enum.Name))
		}
		if f.Enum.Prefix != "" {
			attrs = append(attrs, fmt.Sprintf("enum.prefix = %q", f.Enum.Prefix))
		}
		return "enum", attrs, func() { p.enumBody(&Enum{Opts: f.Enum.Opts, OptDesc: f.Enum.OptDesc, OptNum: f.Enum.OptNum}, ind) }
	case "array", "map":
		blockName := map[string]string{"array": "items", "map": "itemSchema"}[f.Kind]
		if p.chance(25) || f.Item.Kind == "array" || f.Item.Kind == "map" {
			// block form: array { items T { ... } } (always for a nested container: the qualifier form
			// array:array:T is read by the front end as array:T); the item's attributes are reached from
			// the outer scope as items.<T>.<attr>
			tag, iattrs, ibody := p.typeSpec(f.Item, ind+1)
			base := tag
			if k := strings.IndexByte(tag, ':'); k >= 0 {
				base = tag[:k]
			}
			for _, a := range iattrs {
				attrs = append(attrs, blockName+"."+base+"."+a)
			}
			return f.Kind, attrs, func() {
				if ibody == nil {
					p.line(ind, "%s %s", blockName, tag)
				} else {
					p.line(ind, "%s %s {", blockName, tag)
					ibody()
					p.line(ind, "}")
				}
			}
		}
		tag, iattrs, ibody := p.typeSpec(f.Item, ind)
		return f.Kind + ":" + tag, iattrs, ibody
	}
	panic("typeSpec " + f.Kind)
}

func (p *Printer) props(ps []*Property, word string, ind int) {
	for _, pr := range ps {
		p.property(pr, word, ind)
	}
}

func (p *Printer) property(pr *Property, word string, ind int) { p.propertyWith(pr, word, ind, nil) }

// propertyWith: extra attribute lines (entity keys: primary, shardKey) go into the body.
func (p *Printer) propertyWith(pr *Property, word string, ind int, extra []string) {
	tag, tattrs, body := p.typeSpec(pr.F, ind+1)
	mark := ""
	attrs := append([]string{}, extra...)
	if pr.Required {
		if p.chance(40) || pr.Optional { // both at once (malformed input): written as attributes
			attrs = append(attrs, "required = true")
		} else {
			mark = "! "
		}
	}
	if pr.Optional {
		switch {
		case p.chance(25) || pr.Required:
			attrs = append(attrs, "optional = true")
		case p.chance(15):
			attrs = append(attrs, "explicitlyOptional = true")
		default:
			mark = "? "
		}
	}
	if body == nil && len(attrs) == 0 && len(tattrs) == 0 {
		switch {
		case pr.Desc != "" && p.chance(50):
			p.line(ind, "%s %s %s%s | %s", word, pr.Name, mark, tag, pr.Desc) // description at the end of the line
		case pr.Desc != "":
			p.line(ind, "%s %s %s%s {", word, pr.Name, mark, tag)
			p.line(ind+1, "| %s", pr.Desc)
			p.line(ind, "}")
		case p.chance(10):
			p.line(ind, "%s %s %s%s {", word, pr.Name, mark, tag)
			p.line(ind, "}")
		default:
			p.line(ind, "%s %s %s%s", word, pr.Name, mark, tag)
		}
		return
	}
	p.line(ind, "%s %s %s%s {", word, pr.Name, mark, tag)
	if pr.Desc != "" {
		p.line(ind+1, "| %s", pr.Desc) // descriptions come first in a body
	}
	for _, a := range attrs {
		p.line(ind+1, "%s", a)
	}
	for _, a := range tattrs {
		p.line(ind+1, "%s", a)
	}
	if body != nil {
		body()
	}
	p.line(ind, "}")
	if p.chance(20) {
		p.line(0, "")
	}
}

func (p *Printer) enumBody(e *Enum, ind int) {
	if e.Prefix != "" {
		p.line(ind, "prefix = %q", e.Prefix)
	}
	for _, o := range e.Opts {
		if n, ok := e.OptNum[o]; ok {
			p.line(ind, "option %s {", o)
			if d := e.OptDesc[o]; d != "" {
				p.line(ind+1, "| %s", d)
			}
			p.line(ind+1, "number = %d", n)
			p.line(ind, "}")
		} else if d := e.OptDesc[o]; d != "" {
			p.line(ind, "option %s | %s", o, d)
		} else {
			p.line(ind, "option %s", o)
		}
	}
}

// nested prints a declaration; inside an object, "object X { }" may be written directly,
// everything else goes through a "schemas { }" block.
func (p *Printer) nested(n *Nested, ind int, parent string) {
	wrap := parent != "" && !(parent == "object" && n.Kind == "object" && !p.chance(30))
	if wrap {
		p.line(ind, "schemas {")
		ind++
	}
	desc := func() {
		if n.Desc != "" {
			p.line(ind+1, "| %s", n.Desc)
		}
	}
	switch n.Kind {
	case "object":
		p.line(ind, "object %s {", n.Name)
		desc()
		p.props(n.Props, "field", ind+1)
	case "oneof":
		p.line(ind, "oneof %s {", n.Name)
		desc()
		p.props(n.Props, "option", ind+1)
	case "enum":
		p.line(ind, "enum %s {", n.Enum.Name)
		desc()
		p.enumBody(n.Enum, ind+1)
	}
	for _, s := range n.Subs {
		p.nested(s, ind+1, n.Kind)
	}
	p.line(ind, "}")
	if wrap {
		p.line(ind-1, "}")
	}
}

func (p *Printer) service(s *Service) {
	p.line(0, "service %s {", s.Name)
	if s.Base != nil {
		p.line(1, "basePath = %q", *s.Base)
	}
	for _, m := range s.Methods {
		p.line(1, "method %s {", m.Name)
		p.line(2, "httpMethod = %q", m.Verb)
		p.line(2, "httpPath = %q", m.Path)
		p.line(2, "request {")
		p.props(m.Request, "field", 3)
		p.line(2, "}")
		if m.HasResp {
			p.line(2, "response {")
			p.props(m.Response, "field", 3)
			p.line(2, "}")
		}
		p.line(1, "}")
	}
	p.line(0, "}")
}

func (p *Printer) tmsg(word string, t *Tmsg) {
	if t.Name != nil {
		p.line(1, "%s %s {", word, *t.Name)
	} else {
		p.line(1, "%s {", word)
	}
	p.props(t.Fields, "field", 2)
	p.line(1, "}")
}

func (p *Printer) topic(t *Topic) {
	p.line(0, "topic %s %s {", t.Name, t.Kind)
	switch t.Kind {
	case "publish":
		for _, m := range t.Msgs {
			p.tmsg("message", m)
		}
	case "reqres":
		for _, m := range t.Req {
			p.tmsg("request", m)
		}
		for _, m := range t.Reply {
			p.tmsg("reply", m)
		}
	case "upsert", "event":
		if t.Entity != "" {
			p.line(1, "entityName = %q", t.Entity)
		}
		p.tmsg("message", t.Msgs[0])
	}
	p.line(0, "}")
}

// Print renders one source file.
func (p *Printer) Print(f *File) string {
	p.sb.Reset()
	p.line(0, "package %s", f.Package())
	p.line(0, "")
	for _, i := range f.Imports {
		switch {
		case strings.Contains(i.Path, "/"):
			p.line(0, "import %q", i.Path)
		case i.Alias != "":
			p.line(0, "import %s:%s", i.Path, i.Alias)
		default:
			p.line(0, "import %s", i.Path)
		}
	}
	for _, e := range f.Elements {
		p.line(0, "")
		switch e.Kind {
		case "object", "oneof", "enum":
			p.nested(e.N, 0, "")
		case "service":
			p.service(e.Service)
		case "topic":
			p.topic(e.Topic)
		case "entity":
			p.entity(e.Entity, 0)
		}
	}
	return p.sb.String()
}

// PrintProto renders a hand-written .proto file: one message per name (a single string
// field), one enum per name, and a holder message using the listed foreign types.
func PrintProto(f *PFile) string {
	var sb strings.Builder
	sb.WriteString("syntax = \"proto3\";\n\n")
	fmt.Fprintf(&sb, "package %s;\n\n", f.Package())
	for _, i := range f.Imports {
		fmt.Fprintf(&sb, "import %q;\n", i)
	}
	for _, m := range f.Msgs {
		fmt.Fprintf(&sb, "\nmessage %s {\n  string f1 = 1;\n}\n", m)
	}
	for _, e := range f.Enums {
		up := strings.ToUpper(e)
		fmt.Fprintf(&sb, "\nenum %s {\n  %s_UNSPECIFIED = 0;\n  %s_ONE = 1;\n}\n", e, up, up)
	}
	if f.Holder != "" {
		fmt.Fprintf(&sb, "\nmessage %s {\n", f.Holder)
		for i, u := range f.Uses {
			fmt.Fprintf(&sb, "  %s u%d = %d;\n", u, i+1, i+1)
		}
		sb.WriteString("}\n")
	}
	return sb.String()
}

// Texts renders every file of the bundle: filename -> content.
func (b *Bundle) Texts(r *vh.Rand) map[string]string {
	out := map[string]string{}
	p := &Printer{R: r}
	for _, f := range b.Files {
		out[f.Path()] = p.Print(f)
	}
	for _, f := range b.PFiles {
		out[f.Path()] = PrintProto(f)
	}
	return out
}

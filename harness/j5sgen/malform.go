package j5sgen

import (
	"verifharness/vh"
)

// Malform breaks a valid bundle in one place (in the files of pkg) so that the package is
// outside the language; it returns what was done, or "" if no suitable place was found.
// The compiler must reject the result (the model returns Err on the same input).
func Malform(r *vh.Rand, b *Bundle, pkg string) string {
	msgs, _, files, _ := sites(b, pkg)
	if len(files) == 0 {
		return ""
	}
	var withProps []msgSite
	for _, m := range msgs {
		if len(*m.props) > 0 {
			withProps = append(withProps, m)
		}
	}
	pickProp := func(pred func(m msgSite, p *Property) bool) (msgSite, *Property) {
		var cm []msgSite
		var cp []*Property
		for _, m := range withProps {
			for _, p := range *m.props {
				if pred(m, p) {
					cm = append(cm, m)
					cp = append(cp, p)
				}
			}
		}
		if len(cp) == 0 {
			return msgSite{}, nil
		}
		i := r.Intn(len(cp))
		return cm[i], cp[i]
	}
	for tries := 0; tries < 20; tries++ {
		switch r.Intn(8) {
		case 0: // reference to a type nobody declares
			if _, p := pickProp(func(m msgSite, p *Property) bool { return true }); p != nil {
				p.F = &Field{Kind: "objref", Ref: &Ref{Name: "NoSuchType9"}}
				p.Optional = false
				return "ref to undeclared type"
			}
		case 1: // reference through a package that is not imported
			if _, p := pickProp(func(m msgSite, p *Property) bool { return true }); p != nil {
				p.F = &Field{Kind: "objref", Ref: &Ref{Pkg: "nowhere", Name: "Thing"}}
				p.Optional = false
				return "ref through a package that is not imported"
			}
		case 2: // enum reference to an object / object reference to an enum
			if _, p := pickProp(func(m msgSite, p *Property) bool {
				return p.F.Kind == "objref" && p.F.Ref.Pkg == "" || p.F.Kind == "enumref" && p.F.Ref.Pkg == ""
			}); p != nil {
				if p.F.Kind == "objref" {
					p.F.Kind = "enumref"
				} else {
					p.F.Kind = "objref"
				}
				return "reference of the wrong kind"
			}
		case 3: // array of arrays
			if _, p := pickProp(func(m msgSite, p *Property) bool { return p.F.Kind == "array" && !m.inOneof }); p != nil {
				p.F = &Field{Kind: "array", Item: p.F}
				return "array of arrays"
			}
		case 4: // map member of a oneof (its entry message lands outside the oneof message)
			if _, p := pickProp(func(m msgSite, p *Property) bool { return m.inOneof && p.F.Kind != "array" && p.F.Kind != "map" }); p != nil {
				p.F = &Field{Kind: "map", Item: p.F}
				return "map as oneof member"
			}
		case 5: // path parameter that is no request field
			for _, f := range files {
				for _, e := range f.Elements {
					if e.Kind == "service" && len(e.Service.Methods) > 0 {
						m := vh.Pick(r, e.Service.Methods)
						m.Path = "/x/:noSuchField9"
						return "path parameter without request field"
					}
				}
			}
		case 6: // several unnamed messages in one publish topic
			for _, f := range files {
				for _, e := range f.Elements {
					if e.Kind == "topic" && e.Topic.Kind == "publish" {
						e.Topic.Msgs = append(e.Topic.Msgs, &Tmsg{Fields: nil}, &Tmsg{Fields: nil})
						return "unnamed messages in a multi-message topic"
					}
				}
			}
		case 7: // required and optional at once
			if _, p := pickProp(func(m msgSite, p *Property) bool { return !m.inOneof && p.F.Kind == "scalar" }); p != nil {
				p.Required, p.Optional = true, true
				return "required and optional"
			}
		}
	}
	return ""
}

package j5sgen

import (
	"strings"

	"github.com/iancoleman/strcase"
	"verifharness/vh"
)

func pickElement(r *vh.Rand, files []*File, kind string) *Element {
	var c []*Element
	for _, f := range files {
		for _, e := range f.Elements {
			if e.Kind == kind {
				c = append(c, e)
			}
		}
	}
	if len(c) == 0 {
		return nil
	}
	return vh.Pick(r, c)
}

// Malform breaks a valid bundle in one place (in the files of pkg) so that the package is
// outside the language; it returns what was done, or "" if no suitable place was found.
// The compiler must reject the result (the model returns Err on the same input).
func Malform(r *vh.Rand, b *Bundle, pkg string) string {
	msgs, _, files, _ := sites(b, pkg)
	if len(files) == 0 {
		return ""
	}
	var withProps []msgSite
	for _, m := range msgs {
		if len(*m.props) > 0 {
			withProps = append(withProps, m)
		}
	}
	pickProp := func(pred func(m msgSite, p *Property) bool) (msgSite, *Property) {
		var cm []msgSite
		var cp []*Property
		for _, m := range withProps {
			for _, p := range *m.props {
				if pred(m, p) {
					cm = append(cm, m)
					cp = append(cp, p)
				}
			}
		}
		if len(cp) == 0 {
			return msgSite{}, nil
		}
		i := r.Intn(len(cp))
		return cm[i], cp[i]
	}
	for tries := 0; tries < 20; tries++ {
		switch r.Intn(16) {
		case 0: // reference to a type nobody declares
			if _, p := pickProp(func(m msgSite, p *Property) bool { return true }); p != nil {
				p.F = &Field{Kind: "objref", Ref: &Ref{Name: "NoSuchType9"}}
				p.Optional = false
				return "ref to undeclared type"
			}
		case 1: // reference through a package that is not imported
			if _, p := pickProp(func(m msgSite, p *Property) bool { return true }); p != nil {
				p.F = &Field{Kind: "objref", Ref: &Ref{Pkg: "nowhere", Name: "Thing"}}
				p.Optional = false
				return "ref through a package that is not imported"
			}
		case 2: // enum reference to an object / object reference to an enum
			if _, p := pickProp(func(m msgSite, p *Property) bool {
				return p.F.Kind == "objref" && p.F.Ref.Pkg == "" || p.F.Kind == "enumref" && p.F.Ref.Pkg == ""
			}); p != nil {
				if p.F.Kind == "objref" {
					p.F.Kind = "enumref"
				} else {
					p.F.Kind = "objref"
				}
				return "reference of the wrong kind"
			}
		case 3: // array of arrays
			if _, p := pickProp(func(m msgSite, p *Property) bool { return p.F.Kind == "array" && !m.inOneof }); p != nil {
				p.F = &Field{Kind: "array", Item: p.F}
				return "array of arrays"
			}
		case 4: // map member of a oneof (its entry message lands outside the oneof message)
			if _, p := pickProp(func(m msgSite, p *Property) bool { return m.inOneof && p.F.Kind != "array" && p.F.Kind != "map" }); p != nil {
				p.F = &Field{Kind: "map", Item: p.F}
				return "map as oneof member"
			}
		case 5: // path parameter that is no request field
			for _, f := range files {
				for _, e := range f.Elements {
					if e.Kind == "service" && len(e.Service.Methods) > 0 {
						m := vh.Pick(r, e.Service.Methods)
						m.Path = "/x/:noSuchField9"
						return "path parameter without request field"
					}
				}
			}
		case 6: // several unnamed messages in one publish topic
			for _, f := range files {
				for _, e := range f.Elements {
					if e.Kind == "topic" && e.Topic.Kind == "publish" {
						e.Topic.Msgs = append(e.Topic.Msgs, &Tmsg{Fields: nil}, &Tmsg{Fields: nil})
						return "unnamed messages in a multi-message topic"
					}
				}
			}
		case 7: // required and optional at once
			if _, p := pickProp(func(m msgSite, p *Property) bool { return !m.inOneof && p.F.Kind == "scalar" }); p != nil {
				p.Required, p.Optional = true, true
				return "required and optional"
			}
		// ---- two declarations that generate the same proto symbol (the linker's symbol table rejects them)
		case 8: // a second service with a method of the same name: <Method>Request twice in <pkg>.service
			if e := pickElement(r, files, "service"); e != nil && len(e.Service.Methods) > 0 {
				m := *vh.Pick(r, e.Service.Methods)
				m.Path = "/twin9"
				twin := &Service{Name: e.Service.Name + "Twin9", Methods: []*Method{&m}}
				f := vh.Pick(r, files)
				f.Elements = append(f.Elements, &Element{Kind: "service", Service: twin})
				return "duplicate symbol: method name in two services"
			}
		case 9: // the same service name twice
			if e := pickElement(r, files, "service"); e != nil {
				twin := &Service{Name: e.Service.Name, Methods: []*Method{{Name: "Twin9", Verb: "POST", Path: "/twin9"}}}
				f := vh.Pick(r, files)
				f.Elements = append(f.Elements, &Element{Kind: "service", Service: twin})
				return "duplicate symbol: service declared twice"
			}
		case 10: // the same topic twice / a topic message name twice
			if e := pickElement(r, files, "topic"); e != nil && e.Topic.Kind == "publish" {
				nm := "Twin9"
				twin := &Topic{Kind: "publish", Name: e.Topic.Name, Msgs: []*Tmsg{{Name: &nm}}}
				what := "duplicate symbol: topic declared twice"
				if r.Chance(50) && e.Topic.Msgs[0].Name != nil {
					twin = &Topic{Kind: "publish", Name: e.Topic.Name + "Twin9", Msgs: []*Tmsg{{Name: e.Topic.Msgs[0].Name}}}
					what = "duplicate symbol: topic message name in two topics"
				}
				f := vh.Pick(r, files)
				f.Elements = append(f.Elements, &Element{Kind: "topic", Topic: twin})
				return what
			}
		case 11: // a sibling enum with the same prefix and option: the value name twice in the package scope
			if e := pickElement(r, files, "enum"); e != nil && len(e.N.Enum.Opts) > 0 {
				pfx := e.N.Enum.Prefix
				if pfx == "" {
					pfx = strcase.ToScreamingSnake(e.N.Enum.Name) + "_"
				}
				twin := &Enum{Name: e.N.Enum.Name + "Twin9", Prefix: pfx, Opts: []string{e.N.Enum.Opts[len(e.N.Enum.Opts)-1]}}
				f := vh.Pick(r, files)
				f.Elements = append(f.Elements, &Element{Kind: "enum", N: &Nested{Kind: "enum", Name: twin.Name, Enum: twin}})
				return "duplicate symbol: enum value of a sibling enum"
			}
		case 12: // UNSPECIFIED spelled as a later option: clashes with the implicit zero value
			_, enums, _, _ := sites(b, pkg)
			var cands []enumSite
			for _, es := range enums {
				if len(es.e.Opts) > 0 && es.e.Opts[0] != "UNSPECIFIED" && !strings.HasSuffix(es.e.Opts[0], "_UNSPECIFIED") {
					cands = append(cands, es)
				}
			}
			if len(cands) > 0 {
				es := vh.Pick(r, cands)
				es.e.Opts = append(es.e.Opts, "UNSPECIFIED")
				return "duplicate symbol: UNSPECIFIED as a later option"
			}
		case 13: // an option spelled with and without the prefix
			_, enums, _, _ := sites(b, pkg)
			var cands []enumSite
			for _, es := range enums {
				pfx := es.e.Prefix
				if pfx == "" {
					pfx = strcase.ToScreamingSnake(es.name) + "_"
				}
				if n := len(es.e.Opts); n > 0 && !strings.HasPrefix(es.e.Opts[n-1], pfx) && !strings.HasSuffix(es.e.Opts[n-1], "UNSPECIFIED") {
					cands = append(cands, es)
				}
			}
			if len(cands) > 0 {
				es := vh.Pick(r, cands)
				pfx := es.e.Prefix
				if pfx == "" {
					pfx = strcase.ToScreamingSnake(es.name) + "_"
				}
				es.e.Opts = append(es.e.Opts, pfx+es.e.Opts[len(es.e.Opts)-1])
				return "duplicate symbol: option spelled with and without the prefix"
			}
		case 14: // an enum value named like a type of the same scope
			f := vh.Pick(r, files)
			twin := &Enum{Name: "Twin9Kind", Prefix: "T", Opts: []string{"FIRST9", "WIN9"}}
			f.Elements = append(f.Elements, &Element{Kind: "object", N: &Nested{Kind: "object", Name: "TWIN9"}},
				&Element{Kind: "enum", N: &Nested{Kind: "enum", Name: twin.Name, Enum: twin}})
			return "duplicate symbol: enum value named like a type"
		case 15: // list method (QueryRequest in the request) without the one array of objects in the response
			for _, f := range files {
				for _, e := range f.Elements {
					if e.Kind == "service" && len(e.Service.Methods) > 0 {
						m := vh.Pick(r, e.Service.Methods)
						sc := scopeOfMessage([]string{m.Name + "Request"}, m.Request, nil, false)
						if sc.fields["query9"] {
							continue
						}
						m.Request = append(m.Request, &Property{Name: "query9", F: &Field{Kind: "objref", Ref: &Ref{Pkg: "j5.list.v1", Name: "QueryRequest"}}})
						switch r.Intn(3) {
						case 0:
							m.HasResp, m.Response = false, nil
							return "list method without response"
						case 1:
							conformListResponse(m)
							m.Response = append(m.Response, &Property{Name: "more9", F: &Field{Kind: "array", Item: &Field{Kind: "scalar", Scalar: &Scalar{Kind: "string"}}}})
							return "list method with two arrays in the response"
						default:
							m.HasResp = true
							m.Response = []*Property{{Name: "names9", F: &Field{Kind: "array", Item: &Field{Kind: "scalar", Scalar: &Scalar{Kind: "string"}}}}}
							return "list method whose response array has no object items"
						}
					}
				}
			}
		}
	}
	return ""
}

package main

import (
	"bytes"
	"fmt"
	"go/ast"
	"go/printer"
	"go/token"
	"path/filepath"
	"sort"
	"strings"

	"verifharness/gen"
)

func init() { gen.Register("SwitchGen.v", genSwitch) }

func exprString(fset *token.FileSet, e ast.Expr) string {
	var buf bytes.Buffer
	printer.Fprint(&buf, fset, e)
	return buf.String()
}

func findFunc(f *ast.File, recv, name string) *ast.FuncDecl {
	for _, d := range f.Decls {
		fd, ok := d.(*ast.FuncDecl)
		if !ok || fd.Name.Name != name {
			continue
		}
		if recv == "" && fd.Recv == nil {
			return fd
		}
		if recv != "" && fd.Recv != nil && len(fd.Recv.List) == 1 {
			t := fd.Recv.List[0].Type
			if st, ok := t.(*ast.StarExpr); ok {
				t = st.X
			}
			if id, ok := t.(*ast.Ident); ok && id.Name == recv {
				return fd
			}
		}
	}
	return nil
}

// typeSwitchArms lists the case types of a type switch, in source order.
func typeSwitchArms(fset *token.FileSet, ts *ast.TypeSwitchStmt) []string {
	var arms []string
	for _, c := range ts.Body.List {
		cc := c.(*ast.CaseClause)
		if cc.List == nil {
			arms = append(arms, "default")
			continue
		}
		for _, e := range cc.List {
			arms = append(arms, exprString(fset, e))
		}
	}
	return arms
}

// switchedOn reports the expression a type switch inspects (x in `switch v := x.(type)`).
func switchedOn(fset *token.FileSet, ts *ast.TypeSwitchStmt) string {
	var ta *ast.TypeAssertExpr
	switch a := ts.Assign.(type) {
	case *ast.AssignStmt:
		ta, _ = a.Rhs[0].(*ast.TypeAssertExpr)
	case *ast.ExprStmt:
		ta, _ = a.X.(*ast.TypeAssertExpr)
	}
	if ta == nil {
		return "?"
	}
	return exprString(fset, ta.X)
}

func coqStrList(xs []string) string {
	q := make([]string, len(xs))
	for i, x := range xs {
		q[i] = gen.CoqString(x)
	}
	return "[" + strings.Join(q, "; ") + "]"
}

func coqBool(b bool) string {
	if b {
		return "true"
	}
	return "false"
}

// stringArmErr: inside `case string:` of an integer format, what the `if err != nil` block returns as error.
func stringArmErrReturned(cc *ast.CaseClause) (found, returnsErr bool) {
	ast.Inspect(cc, func(n ast.Node) bool {
		ifs, ok := n.(*ast.IfStmt)
		if !ok {
			return true
		}
		be, ok := ifs.Cond.(*ast.BinaryExpr)
		if !ok || be.Op != token.NEQ {
			return true
		}
		if id, ok := be.X.(*ast.Ident); !ok || id.Name != "err" {
			return true
		}
		for _, st := range ifs.Body.List {
			if rs, ok := st.(*ast.ReturnStmt); ok && len(rs.Results) == 2 {
				found = true
				if id, ok := rs.Results[1].(*ast.Ident); ok && id.Name == "err" {
					returnsErr = true
				}
			}
		}
		return true
	})
	return
}

func containsCall(n ast.Node, name string) bool {
	hit := false
	ast.Inspect(n, func(x ast.Node) bool {
		if ce, ok := x.(*ast.CallExpr); ok {
			switch f := ce.Fun.(type) {
			case *ast.SelectorExpr:
				if f.Sel.Name == name {
					hit = true
				}
			case *ast.Ident:
				if f.Name == name {
					hit = true
				}
			}
		}
		return true
	})
	return hit
}

// nilTokenCheck: the function compares a token with nil and returns nil in that branch.
func nilTokenCheck(fd *ast.FuncDecl) bool {
	hit := false
	ast.Inspect(fd, func(x ast.Node) bool {
		ifs, ok := x.(*ast.IfStmt)
		if !ok {
			return true
		}
		be, ok := ifs.Cond.(*ast.BinaryExpr)
		if !ok || be.Op != token.EQL {
			return true
		}
		l, lok := be.X.(*ast.Ident)
		r, rok := be.Y.(*ast.Ident)
		if lok && rok && l.Name == "token" && r.Name == "nil" {
			for _, st := range ifs.Body.List {
				if rs, ok := st.(*ast.ReturnStmt); ok && len(rs.Results) == 1 {
					if id, ok := rs.Results[0].(*ast.Ident); ok && id.Name == "nil" {
						hit = true
					}
				}
			}
		}
		return true
	})
	return hit
}

// guardBefore: in fd, an `if !X.IsValid() { return ... }` statement precedes the first call of callee.
func guardBefore(fd *ast.FuncDecl, callee string) bool {
	guardPos, callPos := token.NoPos, token.NoPos
	ast.Inspect(fd, func(x ast.Node) bool {
		switch n := x.(type) {
		case *ast.IfStmt:
			if ue, ok := n.Cond.(*ast.UnaryExpr); ok && ue.Op == token.NOT && containsCall(ue, "IsValid") {
				for _, st := range n.Body.List {
					if _, ok := st.(*ast.ReturnStmt); ok && guardPos == token.NoPos {
						guardPos = n.Pos()
					}
				}
			}
		case *ast.CallExpr:
			if se, ok := n.Fun.(*ast.SelectorExpr); ok && se.Sel.Name == callee && callPos == token.NoPos {
				callPos = n.Pos()
			}
		}
		return true
	})
	return guardPos != token.NoPos && callPos != token.NoPos && guardPos < callPos
}

func genSwitch(repo string) (string, error) {
	fset, f, err := gen.ParseFile(filepath.Join(repo, "lib/j5reflect/value_go.go"))
	if err != nil {
		return "", err
	}
	fd := findFunc(f, "", "scalarReflectFromGo")
	if fd == nil {
		return "", fmt.Errorf("value_go.go: scalarReflectFromGo not found")
	}
	var outer *ast.TypeSwitchStmt
	for _, st := range fd.Body.List {
		if ts, ok := st.(*ast.TypeSwitchStmt); ok {
			outer = ts
		}
	}
	if outer == nil {
		return "", fmt.Errorf("scalarReflectFromGo: no type switch")
	}
	type row struct {
		key  string
		arms []string
	}
	var rows []row
	var kinds []string
	type errRow struct {
		key string
		ret bool
	}
	var errRows []errRow
	numberAssert := map[string]bool{}
	for _, c := range outer.Body.List {
		cc := c.(*ast.CaseClause)
		if cc.List == nil {
			kinds = append(kinds, "default")
			continue
		}
		kind := strings.TrimPrefix(exprString(fset, cc.List[0]), "*schema_j5pb.Field_")
		kinds = append(kinds, kind)
		// does the arm contain value.(json.Number) as a plain assertion?
		ast.Inspect(cc, func(n ast.Node) bool {
			if ta, ok := n.(*ast.TypeAssertExpr); ok && ta.Type != nil && exprString(fset, ta.Type) == "json.Number" {
				numberAssert[kind] = true
			}
			return true
		})
		// nested switches
		var walk func(n ast.Node, prefix string)
		walk = func(n ast.Node, prefix string) {
			ast.Inspect(n, func(x ast.Node) bool {
				switch s := x.(type) {
				case *ast.TypeSwitchStmt:
					if switchedOn(fset, s) == "value" {
						rows = append(rows, row{prefix, typeSwitchArms(fset, s)})
						for _, ic := range s.Body.List {
							icc := ic.(*ast.CaseClause)
							if len(icc.List) == 1 && exprString(fset, icc.List[0]) == "string" && strings.HasPrefix(prefix, "Integer/") {
								if found, ret := stringArmErrReturned(icc); found {
									errRows = append(errRows, errRow{prefix, ret})
								}
							}
						}
					}
					return false
				case *ast.SwitchStmt:
					if s.Tag != nil && strings.HasSuffix(exprString(fset, s.Tag), ".Format") {
						for _, fc := range s.Body.List {
							fcc := fc.(*ast.CaseClause)
							if fcc.List == nil {
								continue
							}
							name := strings.TrimPrefix(exprString(fset, fcc.List[0]), "schema_j5pb.")
							name = strings.TrimPrefix(strings.TrimPrefix(name, "IntegerField_"), "FloatField_")
							for _, st := range fcc.Body {
								walk(st, prefix+"/"+name)
							}
						}
						return false
					}
				}
				return true
			})
		}
		for _, st := range cc.Body {
			walk(st, kind)
		}
	}
	sort.SliceStable(rows, func(i, j int) bool { return rows[i].key < rows[j].key })
	sort.SliceStable(errRows, func(i, j int) bool { return errRows[i].key < errRows[j].key })

	var sb strings.Builder
	sb.WriteString("From Coq Require Import String List NArith ZArith.\nImport ListNotations.\nLocal Open Scope string_scope.\n")
	sb.WriteString("(* lib/j5reflect/value_go.go scalarReflectFromGo: the arms of the outer switch on schema.Type *)\n")
	fmt.Fprintf(&sb, "Definition scalar_kinds : list string := %s.\n", coqStrList(kinds))
	sb.WriteString("(* per kind (and integer format): the case types of the type switch on [value], in source order *)\n")
	sb.WriteString("Definition value_arms : list (string * list string) := [\n")
	for i, r := range rows {
		if i > 0 {
			sb.WriteString(";\n")
		}
		fmt.Fprintf(&sb, "  (%s, %s)", gen.CoqString(r.key), coqStrList(r.arms))
	}
	sb.WriteString("\n].\n")
	var na []string
	for k := range numberAssert {
		na = append(na, k)
	}
	sort.Strings(na)
	sb.WriteString("(* kinds whose arm converts a json.Number by a plain type assertion before the switch *)\n")
	fmt.Fprintf(&sb, "Definition number_assert : list string := %s.\n", coqStrList(na))
	sb.WriteString("(* integer `case string:` arms: does the `if err != nil` block return the error (true) or nil (false) *)\n")
	sb.WriteString("Definition int_string_err_returned : list (string * bool) := [")
	for i, r := range errRows {
		if i > 0 {
			sb.WriteString("; ")
		}
		fmt.Fprintf(&sb, "(%s, %s)", gen.CoqString(r.key), coqBool(r.ret))
	}
	sb.WriteString("].\n")

	// a json.Number for UINT64 is parsed with strconv.ParseUint inside an `if ... FORMAT_UINT64` test
	parseUint := false
	ast.Inspect(fd, func(n ast.Node) bool {
		if ifs, ok := n.(*ast.IfStmt); ok && strings.Contains(exprString(fset, ifs.Cond), "FORMAT_UINT64") {
			ast.Inspect(ifs.Body, func(x ast.Node) bool {
				if ce, ok := x.(*ast.CallExpr); ok && exprString(fset, ce.Fun) == "strconv.ParseUint" && len(ce.Args) > 0 && strings.Contains(exprString(fset, ce.Args[0]), "numVal") {
					parseUint = true
				}
				return true
			})
		}
		return true
	})
	sb.WriteString("(* Integer arm: a json.Number for FORMAT_UINT64 is parsed with strconv.ParseUint *)\n")
	fmt.Fprintf(&sb, "Definition uint64_number_parse_uint : bool := %s.\n", coqBool(parseUint))

	// decimalFromString: exponent guard and its constant
	dfn := findFunc(f, "", "decimalFromString")
	if dfn == nil {
		return "", fmt.Errorf("value_go.go: decimalFromString not found")
	}
	decGuard := false
	ast.Inspect(dfn, func(n ast.Node) bool {
		if ifs, ok := n.(*ast.IfStmt); ok && strings.Contains(exprString(fset, ifs.Cond), "maxDecimalExponent") {
			for _, b := range ifs.Body.List {
				if _, ok := b.(*ast.ReturnStmt); ok {
					decGuard = true
				}
			}
		}
		return true
	})
	maxDec := "0"
	for _, d := range f.Decls {
		if gd, ok := d.(*ast.GenDecl); ok && gd.Tok == token.CONST {
			for _, sp := range gd.Specs {
				vs := sp.(*ast.ValueSpec)
				for i, n := range vs.Names {
					if n.Name == "maxDecimalExponent" && i < len(vs.Values) {
						maxDec = exprString(fset, vs.Values[i])
					}
				}
			}
		}
	}
	sb.WriteString("(* decimalFromString refuses exponents beyond +-maxDecimalExponent before decimal.String() expands them *)\n")
	fmt.Fprintf(&sb, "Definition decimal_exponent_guard : bool := %s.\n", coqBool(decGuard))
	fmt.Fprintf(&sb, "Definition max_decimal_exponent : Z := %s%%Z.\n", maxDec)

	// ---- root_schema.go OptionByName: an exact-name loop precedes strings.TrimPrefix
	rfset, rf, err := gen.ParseFile(filepath.Join(repo, "lib/j5schema/root_schema.go"))
	if err != nil {
		return "", err
	}
	obn := findFunc(rf, "EnumSchema", "OptionByName")
	if obn == nil {
		return "", fmt.Errorf("root_schema.go: OptionByName not found")
	}
	exactFirst := false
	trimSeen := false
	for _, st := range obn.Body.List {
		if containsCall(st, "TrimPrefix") {
			trimSeen = true
		}
		if rs, ok := st.(*ast.RangeStmt); ok && !trimSeen {
			ast.Inspect(rs.Body, func(x ast.Node) bool {
				if be, ok := x.(*ast.BinaryExpr); ok && be.Op == token.EQL && strings.HasSuffix(exprString(rfset, be.X), ".name") && exprString(rfset, be.Y) == "name" {
					exactFirst = true
				}
				return true
			})
		}
	}
	sb.WriteString("(* lib/j5schema/root_schema.go OptionByName: `opt.name == name` is tried before strings.TrimPrefix *)\n")
	fmt.Fprintf(&sb, "Definition enum_exact_match_first : bool := %s.\n", coqBool(exactFirst && trimSeen))

	// ---- date_j5t DateFromString validates against daysIn
	_, dtf, err := gen.ParseFile(filepath.Join(repo, "j5types/date_j5t/date.go"))
	if err != nil {
		return "", err
	}
	dfs := findFunc(dtf, "", "DateFromString")
	if dfs == nil {
		return "", fmt.Errorf("date.go: DateFromString not found")
	}
	sb.WriteString("(* j5types/date_j5t/date.go DateFromString calls daysIn (calendar check) *)\n")
	fmt.Fprintf(&sb, "Definition date_validates_calendar : bool := %s.\n", coqBool(containsCall(dfs, "daysIn")))

	// ---- decoder.go: decodeValue arms, null handling per call site, oneof post-check
	dfset, df, err := gen.ParseFile(filepath.Join(repo, "internal/codec/decoder.go"))
	if err != nil {
		return "", err
	}
	dv := findFunc(df, "decoder", "decodeValue")
	if dv == nil {
		return "", fmt.Errorf("decoder.go: decodeValue not found")
	}
	var dvArms []string
	ast.Inspect(dv, func(n ast.Node) bool {
		if ss, ok := n.(*ast.SwitchStmt); ok {
			for _, c := range ss.Body.List {
				cc := c.(*ast.CaseClause)
				if cc.List == nil {
					dvArms = append(dvArms, "default")
					continue
				}
				callee := "?"
				for _, st := range cc.Body {
					if rs, ok := st.(*ast.ReturnStmt); ok && len(rs.Results) == 1 {
						if ce, ok := rs.Results[0].(*ast.CallExpr); ok {
							if se, ok := ce.Fun.(*ast.SelectorExpr); ok {
								callee = se.Sel.Name
							}
						}
					}
				}
				dvArms = append(dvArms, strings.TrimPrefix(exprString(dfset, cc.List[0]), "j5reflect.")+"->"+callee)
			}
			return false
		}
		return true
	})
	sb.WriteString("(* internal/codec/decoder.go decodeValue: property type -> decode function *)\n")
	fmt.Fprintf(&sb, "Definition decode_value_arms : list string := %s.\n", coqStrList(dvArms))
	sb.WriteString("(* how each decode function treats a null token: \"delim-or-null\" (expectDelimOrNull), \"nil-check\" (token == nil -> return nil), \"delim\" (expectDelim only: null is an error) *)\n")
	sb.WriteString("Definition null_handling : list (string * string) := [")
	fns := []string{"decodeAny", "decodeArrayProperty", "decodeEnum", "decodeMapProperty", "decodeObject", "decodeObjectProperty", "decodeOneof", "decodeOneofProperty", "decodeScalar"}
	for i, name := range fns {
		fdn := findFunc(df, "decoder", name)
		if fdn == nil {
			return "", fmt.Errorf("decoder.go: %s not found", name)
		}
		how := "none"
		switch {
		case containsCall(fdn, "expectDelimOrNull"):
			how = "delim-or-null"
		case nilTokenCheck(fdn):
			how = "nil-check"
		case containsCall(fdn, "expectDelim"):
			how = "delim"
		}
		if i > 0 {
			sb.WriteString("; ")
		}
		fmt.Fprintf(&sb, "(%s, %s)", gen.CoqString(name), gen.CoqString(how))
	}
	sb.WriteString("].\n")
	// decodeValue: depth counter with the maxNestingDepth guard
	depthGuard := false
	for _, st := range dv.Body.List {
		if ifs, ok := st.(*ast.IfStmt); ok && strings.Contains(exprString(dfset, ifs.Cond), "dec.depth > maxNestingDepth") {
			for _, b := range ifs.Body.List {
				if _, ok := b.(*ast.ReturnStmt); ok {
					depthGuard = true
				}
			}
		}
	}
	incr := false
	ast.Inspect(dv, func(n ast.Node) bool {
		if ids, ok := n.(*ast.IncDecStmt); ok && ids.Tok == token.INC && exprString(dfset, ids.X) == "dec.depth" {
			incr = true
		}
		return true
	})
	maxDepth := "0"
	for _, d := range df.Decls {
		if gd, ok := d.(*ast.GenDecl); ok && gd.Tok == token.CONST {
			for _, sp := range gd.Specs {
				vs := sp.(*ast.ValueSpec)
				for i, n := range vs.Names {
					if n.Name == "maxNestingDepth" && i < len(vs.Values) {
						maxDepth = exprString(dfset, vs.Values[i])
					}
				}
			}
		}
	}
	sb.WriteString("(* decodeValue increments dec.depth and returns an error beyond maxNestingDepth *)\n")
	fmt.Fprintf(&sb, "Definition decode_value_depth_guard : bool := %s.\n", coqBool(depthGuard && incr))
	fmt.Fprintf(&sb, "Definition max_nesting_depth : N := %s.\n", maxDepth)
	// query.go: keys with an empty value slice are skipped before values[0]
	qfset, qf, err := gen.ParseFile(filepath.Join(repo, "internal/codec/query.go"))
	if err != nil {
		return "", err
	}
	dq := findFunc(qf, "Codec", "decodeQuery")
	if dq == nil {
		return "", fmt.Errorf("query.go: decodeQuery not found")
	}
	emptyGuard := false
	ast.Inspect(dq, func(n ast.Node) bool {
		if rs, ok := n.(*ast.RangeStmt); ok && len(rs.Body.List) > 0 {
			if ifs, ok := rs.Body.List[0].(*ast.IfStmt); ok && exprString(qfset, ifs.Cond) == "len(values) == 0" {
				emptyGuard = true
			}
		}
		return true
	})
	sb.WriteString("(* internal/codec/query.go decodeQuery: the loop body starts with `if len(values) == 0 { continue }` *)\n")
	fmt.Fprintf(&sb, "Definition query_empty_values_skipped : bool := %s.\n", coqBool(emptyGuard))

	// decodeMapField: the scalar and enum arms refuse a repeated key
	dmf := findFunc(df, "decoder", "decodeMapField")
	if dmf == nil {
		return "", fmt.Errorf("decoder.go: decodeMapField not found")
	}
	dupArms := 0
	ast.Inspect(dmf, func(n ast.Node) bool {
		cc, ok := n.(*ast.CaseClause)
		if !ok || len(cc.List) != 1 {
			return true
		}
		name := exprString(dfset, cc.List[0])
		if name != "j5reflect.MapOfScalarField" && name != "j5reflect.MapOfEnumField" {
			return true
		}
		found := false
		ast.Inspect(cc, func(x ast.Node) bool {
			if ifs, ok := x.(*ast.IfStmt); ok && ifs.Init != nil && strings.Contains(exprString(dfset, ifs.Cond), "dup") {
				for _, b := range ifs.Body.List {
					if _, ok := b.(*ast.ReturnStmt); ok {
						found = true
					}
				}
			}
			return true
		})
		if found {
			dupArms++
		}
		return true
	})
	sb.WriteString("(* decodeMapField: both leaf arms (scalar, enum) return an error on a repeated key *)\n")
	fmt.Fprintf(&sb, "Definition leaf_map_dup_key_rejected : bool := %s.\n", coqBool(dupArms == 2))
	// property_set.go CreateField calls oneofConflict before building
	_, psf, err := gen.ParseFile(filepath.Join(repo, "lib/j5reflect/property_set.go"))
	if err != nil {
		return "", err
	}
	cf := findFunc(psf, "property", "CreateField")
	if cf == nil {
		return "", fmt.Errorf("property_set.go: CreateField not found")
	}
	sb.WriteString("(* lib/j5reflect/property_set.go CreateField calls oneofConflict *)\n")
	fmt.Fprintf(&sb, "Definition create_field_checks_oneof : bool := %s.\n", coqBool(containsCall(cf, "oneofConflict")))

	// oneof post-check: the `if len(foundKeys) == 0` block ends with a return
	oi := findFunc(df, "decoder", "decodeOneofInner")
	if oi == nil {
		return "", fmt.Errorf("decoder.go: decodeOneofInner not found")
	}
	typeOnlyReturns := false
	indexesFound := 0
	for _, st := range oi.Body.List {
		if ifs, ok := st.(*ast.IfStmt); ok {
			cond := exprString(dfset, ifs.Cond)
			if cond == "len(foundKeys) == 0" && len(ifs.Body.List) > 0 {
				if _, ok := ifs.Body.List[len(ifs.Body.List)-1].(*ast.ReturnStmt); ok {
					typeOnlyReturns = true
				}
			}
		}
	}
	ast.Inspect(oi, func(n ast.Node) bool {
		if ie, ok := n.(*ast.IndexExpr); ok {
			if id, ok := ie.X.(*ast.Ident); ok && id.Name == "foundKeys" {
				indexesFound++
			}
		}
		return true
	})
	sb.WriteString("(* decodeOneofInner: the `if len(foundKeys) == 0` block ends in a return; number of foundKeys[i] index expressions *)\n")
	fmt.Fprintf(&sb, "Definition oneof_type_only_returns : bool := %s.\n", coqBool(typeOnlyReturns))
	fmt.Fprintf(&sb, "Definition found_keys_index_exprs : nat := %d.\n", indexesFound)

	// ---- type_scalar.go: IsValid guards before List.Append / Map.Set
	_, sf, err := gen.ParseFile(filepath.Join(repo, "lib/j5reflect/type_scalar.go"))
	if err != nil {
		return "", err
	}
	ag := findFunc(sf, "arrayOfScalarField", "AppendGoValue")
	mg := findFunc(sf, "mapOfScalarField", "SetGoValue")
	if ag == nil || mg == nil {
		return "", fmt.Errorf("type_scalar.go: AppendGoValue / SetGoValue not found")
	}
	sb.WriteString("(* lib/j5reflect/type_scalar.go: an `if !v.IsValid() { return ... }` precedes appendProtoValue / setKey *)\n")
	fmt.Fprintf(&sb, "Definition append_go_value_guarded : bool := %s.\n", coqBool(guardBefore(ag, "appendProtoValue")))
	fmt.Fprintf(&sb, "Definition map_set_go_value_guarded : bool := %s.\n", coqBool(guardBefore(mg, "setKey")))

	// checkValueKind precedes setValue / appendProtoValue / setKey in the three scalar entry points
	sfn := findFunc(sf, "scalarField", "SetGoValue")
	if sfn == nil {
		return "", fmt.Errorf("type_scalar.go: scalarField.SetGoValue not found")
	}
	kindGuard := func(fd *ast.FuncDecl, callee string) bool {
		guardPos, callPos := token.NoPos, token.NoPos
		ast.Inspect(fd, func(x ast.Node) bool {
			if ce, ok := x.(*ast.CallExpr); ok {
				switch f := ce.Fun.(type) {
				case *ast.Ident:
					if f.Name == "checkValueKind" && guardPos == token.NoPos {
						guardPos = ce.Pos()
					}
				case *ast.SelectorExpr:
					if f.Sel.Name == callee && callPos == token.NoPos {
						callPos = ce.Pos()
					}
				}
			}
			return true
		})
		return guardPos != token.NoPos && callPos != token.NoPos && guardPos < callPos
	}
	sb.WriteString("(* lib/j5reflect/type_scalar.go: checkValueKind is called before setValue / appendProtoValue / setKey *)\n")
	fmt.Fprintf(&sb, "Definition value_kind_checked : bool := %s.\n", coqBool(kindGuard(sfn, "setValue") && kindGuard(ag, "appendProtoValue") && kindGuard(mg, "setKey")))

	// ---- every explicit panic( call in the files the decoder runs through
	type psite struct{ file, fn, arg string }
	var psites []psite
	for _, rel := range []string{"internal/codec/decoder.go", "internal/codec/query.go", "internal/codec/codec.go",
		"lib/j5reflect/value_go.go", "lib/j5reflect/type_scalar.go", "lib/j5reflect/type_enum.go", "lib/j5reflect/type_array.go",
		"lib/j5reflect/type_map.go", "lib/j5reflect/type_oneof.go", "lib/j5reflect/type_object.go", "lib/j5reflect/type_any.go",
		"lib/j5reflect/property_set.go", "lib/j5reflect/protoval.go", "lib/j5reflect/reflect.go", "j5types/date_j5t/date.go"} {
		pfs, pf2, err := gen.ParseFile(filepath.Join(repo, rel))
		if err != nil {
			return "", err
		}
		for _, d := range pf2.Decls {
			fdl, ok := d.(*ast.FuncDecl)
			if !ok || fdl.Body == nil {
				continue
			}
			ast.Inspect(fdl.Body, func(x ast.Node) bool {
				if ce, ok := x.(*ast.CallExpr); ok {
					if id, ok := ce.Fun.(*ast.Ident); ok && id.Name == "panic" && len(ce.Args) == 1 {
						arg := exprString(pfs, ce.Args[0])
						if len(arg) > 60 {
							arg = arg[:60]
						}
						psites = append(psites, psite{rel, fdl.Name.Name, arg})
					}
				}
				return true
			})
		}
	}
	sort.Slice(psites, func(i, j int) bool {
		if psites[i].file != psites[j].file {
			return psites[i].file < psites[j].file
		}
		if psites[i].fn != psites[j].fn {
			return psites[i].fn < psites[j].fn
		}
		return psites[i].arg < psites[j].arg
	})
	sb.WriteString("(* every explicit panic(...) in decoder.go, query.go, codec.go, the j5reflect files the decoder runs through and date.go: (file, function, argument) *)\n")
	sb.WriteString("Definition panic_sites : list (string * string * string) := [\n")
	for i, ps := range psites {
		if i > 0 {
			sb.WriteString(";\n")
		}
		fmt.Fprintf(&sb, "  (%s, %s, %s)", gen.CoqString(ps.file), gen.CoqString(ps.fn), gen.CoqString(ps.arg))
	}
	sb.WriteString("\n].\n")

	// ---- every type assertion WITHOUT the comma-ok form in the same files: a failed one is a runtime panic
	// (interface conversion), so each is an implicit panic site
	var asites []psite
	for _, rel := range []string{"internal/codec/decoder.go", "internal/codec/query.go", "internal/codec/codec.go",
		"lib/j5reflect/value_go.go", "lib/j5reflect/type_scalar.go", "lib/j5reflect/type_enum.go", "lib/j5reflect/type_array.go",
		"lib/j5reflect/type_map.go", "lib/j5reflect/type_oneof.go", "lib/j5reflect/type_object.go", "lib/j5reflect/type_any.go",
		"lib/j5reflect/property_set.go", "lib/j5reflect/protoval.go", "lib/j5reflect/reflect.go", "j5types/date_j5t/date.go"} {
		pfs, pf2, err := gen.ParseFile(filepath.Join(repo, rel))
		if err != nil {
			return "", err
		}
		for _, d := range pf2.Decls {
			fdl, ok := d.(*ast.FuncDecl)
			if !ok || fdl.Body == nil {
				continue
			}
			checked := map[*ast.TypeAssertExpr]bool{}
			ast.Inspect(fdl.Body, func(x ast.Node) bool {
				switch st := x.(type) {
				case *ast.AssignStmt:
					if len(st.Lhs) == 2 && len(st.Rhs) == 1 {
						if ta, ok := st.Rhs[0].(*ast.TypeAssertExpr); ok {
							checked[ta] = true
						}
					}
				case *ast.ValueSpec:
					if len(st.Names) == 2 && len(st.Values) == 1 {
						if ta, ok := st.Values[0].(*ast.TypeAssertExpr); ok {
							checked[ta] = true
						}
					}
				}
				return true
			})
			ast.Inspect(fdl.Body, func(x ast.Node) bool {
				if ta, ok := x.(*ast.TypeAssertExpr); ok && ta.Type != nil && !checked[ta] {
					arg := exprString(pfs, ta)
					if len(arg) > 70 {
						arg = arg[:70]
					}
					asites = append(asites, psite{rel, fdl.Name.Name, arg})
				}
				return true
			})
		}
	}
	sort.Slice(asites, func(i, j int) bool {
		if asites[i].file != asites[j].file {
			return asites[i].file < asites[j].file
		}
		if asites[i].fn != asites[j].fn {
			return asites[i].fn < asites[j].fn
		}
		return asites[i].arg < asites[j].arg
	})
	sb.WriteString("(* every type assertion x.(T) without the comma-ok form in the same files (a failing one panics): (file, function, expression) *)\n")
	sb.WriteString("Definition unchecked_type_assertions : list (string * string * string) := [\n")
	for i, ps := range asites {
		if i > 0 {
			sb.WriteString(";\n")
		}
		fmt.Fprintf(&sb, "  (%s, %s, %s)", gen.CoqString(ps.file), gen.CoqString(ps.fn), gen.CoqString(ps.arg))
	}
	sb.WriteString("\n].\n")

	// ---- protoval.go: protoPair.setValue clears on an invalid value; list value refuses it
	_, pf, err := gen.ParseFile(filepath.Join(repo, "lib/j5reflect/protoval.go"))
	if err != nil {
		return "", err
	}
	sv := findFunc(pf, "protoPair", "setValue")
	if sv == nil {
		return "", fmt.Errorf("protoval.go: protoPair.setValue not found")
	}
	sb.WriteString("(* lib/j5reflect/protoval.go protoPair.setValue: invalid value -> Clear *)\n")
	fmt.Fprintf(&sb, "Definition set_value_clears_invalid : bool := %s.\n", coqBool(guardBefore(sv, "Set") && containsCall(sv, "Clear")))
	return sb.String(), nil
}

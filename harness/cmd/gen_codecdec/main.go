// gen_codecdec: translator for the decoder family (coq/gen/SwitchGen.v).
package main

import "verifharness/gen"

func main() { gen.Main() }

package main

import (
	"bufio"
	"context"
	"encoding/json"
	"fmt"
	"os"
	"os/exec"
	"path/filepath"
	"sort"
	"strconv"
	"strings"
	"time"

	"github.com/pentops/j5/lib/verifshim/bcl"
	"github.com/pentops/j5/lib/verifshim/cmpb"
	"verifharness/vh"
)

// The C07 front-end stream (coq/model/CmpbFront.v, CmpbFrontCorr.v, CmpbWalker.v).
//   - every source text goes through the real j5s front end (BCL lexer + parser, schema walker,
//     protovalidate) under recover(): a panic is a failure with the input;
//   - what came back (the SourceLocation tree, or the error positions) is emitted as a Coq case that is
//     checked against C11's parser model run on the same bytes (the walker's position contract);
//   - conversion errors of located files are compared with the model of sourcewalk child / GetPos;
//   - the same inputs run once more in a coverage-instrumented child: the functions of the walker
//     packages that executed are emitted as a case checked against the census' coverage obligation.

type span4 [4]int

func (s span4) coq() string {
	return fmt.Sprintf("((%d, %d)%%Z, (%d, %d)%%Z)", s[0], s[1], s[2], s[3])
}

func spansCoq(ss []span4) string {
	parts := make([]string, len(ss))
	for i, s := range ss {
		parts[i] = s.coq()
	}
	return "[" + strings.Join(parts, "; ") + "]"
}

type frontObs struct {
	FirstTokAtOrigin       bool
	FirstTokStartsAtOrigin bool
	HasFile                bool
	Locs                   []cmpb.Loc
	ErrPos                 []cmpb.Pos
	FromParser             bool
	Panic                  string
	ErrText                string
}

var frontPool chan *cmpb.FrontEnd

func frontEnd() *cmpb.FrontEnd {
	if frontPool == nil {
		frontPool = make(chan *cmpb.FrontEnd, 64)
	}
	select {
	case fe := <-frontPool:
		return fe
	default:
	}
	fe, err := cmpb.NewFrontEnd()
	if err != nil {
		panic(err)
	}
	return fe
}

// observeFront runs the real front end on one text under a deadline: the lexer, the parser and the walker
// are loops over the input; a call that does not return stops the run with this text as the failure
// (abortOnHang), because its goroutine cannot be killed.
func observeFront(src string) frontObs {
	ch := make(chan frontObs, 1)
	go func() { ch <- observeFrontNow(src) }()
	select {
	case o := <-ch:
		return o
	case <-time.After(20 * time.Second):
		abortOnHang("front end (j5parse.ParseFile)", map[string]any{"files": map[string]string{mainFile: src}, "call": "bcl lexer + parser + schema walker on one file"})
		return frontObs{Panic: "timeout"}
	}
}

func observeFrontNow(src string) (o frontObs) {
	fe := frontEnd()
	defer func() { frontPool <- fe }()
	out := fe.Parse(mainFile, src)
	if out.Panic != nil {
		o.Panic = fmt.Sprint(out.Panic)
		return o
	}
	if out.Err != nil {
		o.ErrText = out.Err.Error()
		o.ErrPos = cmpb.Positions(out.Err)
		pr := bcl.ParseFile(src, true)
		o.FromParser = pr.ErrKind != ""
		o.FirstTokAtOrigin = firstTokenEndsAtOrigin(src)
		o.FirstTokStartsAtOrigin = firstTokenStartsAtOrigin(src)
		return o
	}
	o.HasFile = out.HasFile
	o.Locs = out.Locs
	return o
}

// a one-character first token at the very start of the file really spans 1:1 - 1:1
func firstTokenEndsAtOrigin(src string) bool {
	toks, _, _, _ := bcl.Lex(src, true)
	return len(toks) > 0 && toks[0].End.Line == 0 && toks[0].End.Column == 0
}

func firstTokenStartsAtOrigin(src string) bool {
	toks, _, _, _ := bcl.Lex(src, true)
	return len(toks) > 0 && toks[0].Start.Line == 0 && toks[0].Start.Column == 0
}

func locSpans(ls []cmpb.Loc) []span4 {
	out := make([]span4, len(ls))
	for i, l := range ls {
		out[i] = span4{int(l.StartLine), int(l.StartCol), int(l.EndLine), int(l.EndCol)}
	}
	return out
}

// locTreeCoq rebuilds the location tree (pre-order list with paths) as a Coq [loc] term.
func locTreeCoq(ls []cmpb.Loc) string {
	if len(ls) == 0 {
		return "(Loc span0 [])"
	}
	var build func(i int) (string, int)
	build = func(i int) (string, int) {
		depth := len(ls[i].Path)
		sp := span4{int(ls[i].StartLine), int(ls[i].StartCol), int(ls[i].EndLine), int(ls[i].EndCol)}
		var kids []string
		j := i + 1
		for j < len(ls) && len(ls[j].Path) > depth {
			key := ls[j].Path[depth]
			sub, next := build(j)
			kids = append(kids, fmt.Sprintf("(%s, %s)", vh.CoqString(key), sub))
			j = next
		}
		return fmt.Sprintf("(Loc %s [%s])", sp.coq(), strings.Join(kids, "; ")), j
	}
	s, _ := build(0)
	return s
}

func pathCoq(p []string) string {
	q := make([]string, len(p))
	for i, x := range p {
		q[i] = vh.CoqString(x)
	}
	return "[" + strings.Join(q, "; ") + "]"
}

// the SourceNode paths sourcewalk builds (file.go RangeRootElements, schema.go newObjectNode / mapProperties,
// property.go buildFieldNode / replaceNested*, service.go)
func declPath(i int, kind string) []string {
	switch kind {
	case "object":
		return []string{"elements", strconv.Itoa(i), "object", "object"}
	case "oneof":
		return []string{"elements", strconv.Itoa(i), "oneof", "oneof"}
	}
	return []string{"elements", strconv.Itoa(i), kind}
}

func propPath(decl []string, j int) []string {
	return append(append([]string{}, decl...), "def", "properties", strconv.Itoa(j))
}

func refPath(prop []string, p propT) []string {
	out := append(append([]string{}, prop...), "schema")
	switch p.Shape.Kind {
	case "array":
		out = append(out, "array", "items")
	case "map":
		out = append(out, "map", "itemSchema")
	}
	return append(out, p.Shape.Item.Kind, "ref")
}

func lpropCoq(p propT, decl []string, j int) string {
	pp := propPath(decl, j)
	return fmt.Sprintf("(mkLP %s %s %s)", p.Coq(), pathCoq(pp), pathCoq(refPath(pp, p)))
}

func errSpans(ps []cmpb.Pos) (out []span4, allPositioned bool) {
	allPositioned = true
	for _, p := range ps {
		if !p.HasPos {
			allPositioned = false
		}
		out = append(out, span4{p.StartLine, p.StartCol, p.EndLine, p.EndCol})
	}
	return out, allPositioned
}

// walkerInputs: source texts aimed at the branches of the walker (tags, qualifiers, marks, scalar split,
// attributes of every value kind, append, descriptions, protovalidate violations).
func walkerInputs() []string {
	hdr := "package foo.v1\n\n"
	bodies := []string{
		// protovalidate rules of the walker model (CmpbWalkFile.vrules), each violated once
		"object Foo {\n  entity.part = \"KEYS\"\n}\n",
		"object Foo {\n  entity.entity = \"thing\"\n}\n",
		"object Foo {\n  entity.entity = \"Thing_2\"\n  entity.part = \"STATE\"\n}\n",
		"object Foo {\n  field k key:custom\n}\n",
		"object Foo {\n  field k key:custom {\n    format.custom.pattern = \"^a$\"\n  }\n}\n",
		"object Foo {\n  field n integer:UNSPECIFIED\n}\n",
		"service Foo {\n  basePath = \"/foo\"\n  method Bar {\n    httpPath = \"/bar\"\n    request {\n    }\n  }\n}\n",
		"service Foo {\n  basePath = \"/foo\"\n  method Bar {\n    httpMethod = \"GET\"\n    httpPath = \"/bar\"\n  }\n}\n",
		"topic Foo upsert {\n  entityName = \"foo\"\n}\n",
		"topic Foo event {\n}\n",
		"topic Foo publish {\n  message lower {\n    field x string\n  }\n}\n",
		"entity Foo {\n  key fooId key:id62\n}\n",
		"object Foo {\n  field a array {\n  }\n}\n",
		"object Foo {\n  field a map {\n    itemSchema.string.format = \"x\"\n    keySchema string\n  }\n}\n",
		// names that are not protobuf identifiers (the lexer accepts unicode letters): parse and walk fine, rejected by
		// the converter with a position since /repo c71d8d9
		"object Élan {\n  field name string\n}\n",
		"object Foo {\n  field naïve string\n}\n",
		"enum Kind {\n  option Ä\n  option B\n}\n",
		"oneof Ch {\n  option naïve object {\n  }\n}\n",
		"service Fé {\n  basePath = \"/foo\"\n  method Bär {\n    httpMethod = \"GET\"\n    httpPath = \"/bar\"\n    request {\n    }\n  }\n}\n",
		"entity Élan {\n  key elanId key:id62 {\n    primary = true\n  }\n  status ACTIVE\n  event Created {\n  }\n}\n",
		"object Foo {\n  field f\n}\n",
		"object Foo {\n  field f !\n}\n",
		"topic Foo\n",
		"object {\n}\n",
		"object Foo Bar {\n}\n",
		"object ! Foo {\n}\n",
		"enum ? Status {\n  option A\n}\n",
		"object Foo:bar {\n}\n",
		"object Foo {\n  field f string extra more\n}\n",
		"object Foo {\n  field f ! ? string\n}\n",
		"object Foo {\n  field f string:x:y\n}\n",
		"object Foo {\n  field f\n}\n",
		"object Foo {\n  field\n}\n",
		"object Foo {\n  nope = 1\n}\n",
		"object Foo {\n  nope Bar {\n  }\n}\n",
		"object Foo {\n  field f string {\n    rules.minLength = \"x\"\n  }\n}\n",
		"object Foo {\n  field f string {\n    rules.minLength = [1, 2]\n  }\n}\n",
		"object Foo {\n  field f string {\n    rules = 1\n  }\n}\n",
		"object Foo {\n  field f string {\n    optional = 3\n  }\n}\n",
		"object Foo {\n  field f enum:Kind {\n    rules.in = [\"A\", \"B\"]\n    rules.in = [\"C\"]\n  }\n}\n",
		"object Foo {\n  field f enum:Kind {\n    rules.in += \"A\"\n    rules.in += \"B\"\n  }\n}\n",
		"object Foo {\n  field f enum:Kind {\n    rules += 1\n  }\n}\n",
		"object Foo {\n  field f string {\n    rules.minLength += 1\n  }\n}\n",
		"object Foo {\n  name = [1, 2]\n}\n",
		"object Foo {\n  | a description\n  | on two lines\n  field f string | trailing description\n}\n",
		"enum Status {\n  option A | first\n  option B {\n    info.color = \"red\"\n    info.color = \"blue\"\n  }\n}\n",
		// the map container of the walker (Enum.Option.info is the only map the j5s schema reaches)
		"enum Status {\n  option A {\n    info {\n      color = \"red\"\n    }\n  }\n}\n",
		"enum Status {\n  option A {\n    info color {\n    }\n  }\n}\n",
		"enum Status {\n  option A {\n    info.color.deep = \"red\"\n  }\n}\n",
		"enum Status {\n  option A {\n    info.color += \"red\"\n  }\n}\n",
		"enum Status {\n  option A {\n    info = \"red\"\n  }\n}\n",
		"enum Status {\n  option A {\n    info.color = [\"a\", \"b\"]\n  }\n}\n",
		"enum Status {\n  option A {\n    info.color = 1\n    info.size = true\n  }\n}\n",
		"enum Status {\n  option A {\n    info.color {\n    }\n  }\n}\n",
		"enum Status {\n  option A {\n    info.color.deep {\n      x = 1\n    }\n  }\n}\n",
		"enum Status {\n  option A {\n    info. = \"red\"\n  }\n}\n",
		"enum Status {\n  option A {\n    info.color ! = \"red\"\n  }\n}\n",
		"enum Status {\n  option A {\n    info.\"quoted key\" = \"red\"\n  }\n}\n",
		"enum Status {\n  option A\n  prefix = 7\n}\n",
		"object Foo {\n  field f object:foo.v1.Bar\n  field g object:bar.v1.sub.Baz\n  field h key:id62:extra\n}\n",
		"object Foo {\n  field f object:\"quoted\"\n}\n",
		"object Foo {\n  field f array:array:string\n}\n",
		"object Foo {\n  field f map:string:int\n}\n",
		"object Foo {\n  field f integer\n}\n",
		"object Foo {\n  field f key:custom\n}\n",
		"object Foo {\n  field f map\n}\n",
		"service Things {\n  basePath = \"/foo\"\n  method Get {\n    httpPath = \"/x\"\n    httpMethod = GET\n  }\n}\n",
		"service Things {\n  method Get {\n    httpMethod = NOPE\n    request {\n    }\n  }\n}\n",
		"entity Thing {\n  key thingId key:id62\n  data name string\n}\n",
		"entity Thing {\n  key thingId key:id62\n  status ACTIVE\n  event Created {\n    field x string\n  }\n  query.listRequest {\n  }\n}\n",
		"topic Thing publish {\n  message post {\n  }\n}\n",
		"topic Thing nope {\n}\n",
		"topic Thing reqres {\n  request {\n    field x string\n  }\n  reply {\n    field y string\n  }\n}\n",
		"import foo.v1 as bar\nimport \"x/y.proto\"\n\nobject Foo {\n  field f object:bar.Baz\n}\n",
		"object Foo {\n  object Inner {\n    field x string\n  }\n  oneof Choice {\n    option a string\n  }\n  enum Kind {\n    option A\n  }\n  field f object:Inner\n}\n",
		"oneof Choice {\n  option a object {\n    field x string\n  }\n  option b string\n  field c string\n}\n",
		"object Foo {\n  field f oneof {\n    option a object {\n      field z ? string\n    }\n  }\n  field g array:object {\n    object Bar {\n      field x ! integer:INT32\n    }\n  }\n}\n",
		"object Foo {\n  field f ! string {\n    required = true\n    required = false\n  }\n}\n",
		"object Foo {\n  entity.entity = \"Thing\"\n  entity.part = \"KEYS\"\n  field thingId key:id62 {\n    entity.primaryKey = true\n  }\n}\n",
		"object Foo {\n  entity.part = NOPE\n}\n",
		"object Foo {\n  field f string {\n    rules {\n      minLength = 1\n      nope = 2\n    }\n  }\n}\n",
		"object Foo {\n  field f bytes {\n    rules.minLength = 99999999999999999999\n  }\n}\n",
		"object Foo {\n  field f float:FLOAT32 {\n    rules.minimum = 1.5e400\n  }\n}\n",
		// strconv.ParseFloat(lit, 64) on long literals: range error from 2^1024 - 2^970 on, whatever the fraction; Unicode digits lex but do not parse
		"object Foo {\n  field f float:FLOAT64 {\n    rules.minimum = 2" + strings.Repeat("0", 308) + "\n  }\n}\n",
		"object Foo {\n  field f float:FLOAT64 {\n    rules.minimum = 1" + strings.Repeat("0", 308) + "\n  }\n}\n",
		"object Foo {\n  field f float:FLOAT64 {\n    rules.maximum = 179769313486231580793728971405303415079934132710037826936173778980444968292764750946649017977587207096330286416692887910946555547851940402630657488671505820681908902000708383676273854845817711531764475730270069855571366959622842914819860834936475292719074168444365510704342711559699508093042880177904174497791." + strings.Repeat("9", 400) + "\n  }\n}\n",
		"object Foo {\n  field f float:FLOAT64 {\n    rules.maximum = 179769313486231580793728971405303415079934132710037826936173778980444968292764750946649017977587207096330286416692887910946555547851940402630657488671505820681908902000708383676273854845817711531764475730270069855571366959622842914819860834936475292719074168444365510704342711559699508093042880177904174497792\n  }\n}\n",
		"object Foo {\n  field f float:FLOAT32 {\n    rules.minimum = 1" + strings.Repeat("0", 60) + "\n  }\n}\n",
		"object Foo {\n  field f float:FLOAT64 {\n    rules.multipleOf = " + strings.Repeat("0", 400) + "1.\n  }\n}\n",
		"object Foo {\n  field f float:FLOAT64 {\n    rules.minimum = \u0663\n  }\n}\n",
		"object Foo {\n  field f float:FLOAT64 {\n    rules.minimum = 1.\u0663\n  }\n}\n",
		"object Foo {\n  field f bool {\n    rules.const = maybe\n  }\n}\n",
		"object Foo {\n  field f date {\n    rules.minimum = 2020\n  }\n}\n",
		"object Foo {\n  field f \"quoted\"\n}\n",
		"object Foo {\n  field f string:\"q\"\n}\n",
		"object Foo {\n  field f key:\"id62\"\n}\n",
		"object Foo {\n  field \"f\" string\n}\n",
		"object \"Foo\" {\n}\n",
		"import foo.v1 | described import\n",
		"import foo.v1 {\n  | described import\n}\n",
		"service Things | the things\n",
		"service Things {\n  | the things\n  method Get | gets\n}\n",
		"topic Thing publish | posts\n",
		"object Foo {\n  field f object:Bar | a bar\n  field g enum {\n    | kinds\n    option A\n  }\n}\n",
		"object Foo {\n  field f string {\n    rules | nope\n  }\n}\n",
		"object Foo {\n  field f string {\n    rules {\n      | nope\n    }\n  }\n}\n",
		"object Foo {\n  field f object {\n    ref = []\n  }\n}\n",
		"object Foo {\n  field f object {\n    ref = [\"a\", \"b\", \"c\"]\n  }\n}\n",
		"object Foo {\n  field f object {\n    ref = \"foo.v1.Bar\"\n  }\n}\n",
		"object Foo {\n  field f object {\n    ref = 7\n  }\n}\n",
		"object Foo {\n  field f object {\n    ref += \"a\"\n  }\n}\n",
	}
	out := make([]string, 0, len(bodies)+2)
	for _, b := range bodies {
		out = append(out, hdr+b)
	}
	out = append(out, "", "object Foo {\n}\n")
	return out
}

// ---- coverage of the walker packages by the crash stream ----

var walkerPkgs = []struct{ Import, Short string }{
	{"github.com/pentops/j5/internal/bcl", "bcl"},
	{"github.com/pentops/j5/internal/bcl/internal/walker", "walker"},
	{"github.com/pentops/j5/internal/bcl/internal/walker/schema", "walker/schema"},
}

type covFunc struct {
	Pkg, File, Func string
	Pct             float64
}

type covResult struct {
	Funcs   []covFunc
	Percent map[string]string // package -> statement coverage
}

// walkerCoverage builds cmd/cov_cmpb with coverage instrumentation of the walker packages, runs it on the
// texts and reads the per-function counters back.
func walkerCoverage(outDir string, texts []string) (*covResult, error) {
	exe, err := os.Executable()
	if err != nil {
		return nil, err
	}
	binDir := filepath.Dir(exe)
	harness := filepath.Join(binDir, "..", "..", "harness")
	if _, err := os.Stat(filepath.Join(harness, "go.mod")); err != nil {
		return nil, fmt.Errorf("harness module not found next to %s: %v", exe, err)
	}
	var pk []string
	pk = append(pk, "verifharness/cmd/cov_cmpb")
	for _, p := range walkerPkgs {
		pk = append(pk, p.Import)
	}
	tmpBin := filepath.Join(outDir, "cov_cmpb")
	build := exec.Command("go", "build", "-tags", "verif", "-cover", "-coverpkg="+strings.Join(pk, ","), "-o", tmpBin, "./cmd/cov_cmpb")
	build.Dir = harness
	if b, err := build.CombinedOutput(); err != nil {
		return nil, fmt.Errorf("go build -cover cov_cmpb: %v: %s", err, truncate(string(b), 600))
	}
	in := filepath.Join(outDir, "cov_in.json")
	jb, _ := json.Marshal(texts)
	if err := os.WriteFile(in, jb, 0o644); err != nil {
		return nil, err
	}
	covDir := filepath.Join(outDir, "covdata")
	os.RemoveAll(covDir)
	if err := os.MkdirAll(covDir, 0o755); err != nil {
		return nil, err
	}
	ctx, cancel := context.WithTimeout(context.Background(), 90*time.Second)
	defer cancel()
	run := exec.CommandContext(ctx, tmpBin, "-in", in)
	run.Env = append(os.Environ(), "GOCOVERDIR="+covDir)
	if b, err := run.CombinedOutput(); err != nil {
		return nil, fmt.Errorf("cov_cmpb run (killed after 90 s if it hangs): %v: %s", err, truncate(string(b), 600))
	}
	fn := exec.Command("go", "tool", "covdata", "func", "-i="+covDir)
	fn.Dir = harness
	fb, err := fn.Output()
	if err != nil {
		return nil, fmt.Errorf("go tool covdata func: %v", err)
	}
	res := &covResult{Percent: map[string]string{}}
	sc := bufio.NewScanner(strings.NewReader(string(fb)))
	for sc.Scan() {
		f := strings.Fields(sc.Text())
		if len(f) != 3 || !strings.HasSuffix(f[2], "%") {
			continue
		}
		loc := strings.TrimSuffix(f[0], ":") // import/path/file.go:LINE
		k := strings.LastIndexByte(loc, ':')
		if k < 0 {
			continue
		}
		full := loc[:k]
		slash := strings.LastIndexByte(full, '/')
		if slash < 0 {
			continue
		}
		imp, file := full[:slash], full[slash+1:]
		short := ""
		for _, p := range walkerPkgs {
			if p.Import == imp {
				short = p.Short
			}
		}
		if short == "" {
			continue
		}
		pct, _ := strconv.ParseFloat(strings.TrimSuffix(f[2], "%"), 64)
		res.Funcs = append(res.Funcs, covFunc{short, file, strings.TrimPrefix(f[1], "*"), pct})
	}
	pc := exec.Command("go", "tool", "covdata", "percent", "-i="+covDir)
	pc.Dir = harness
	if pb, err := pc.Output(); err == nil {
		for _, line := range strings.Split(string(pb), "\n") {
			f := strings.Fields(line)
			if len(f) >= 3 && f[1] == "coverage:" {
				for _, p := range walkerPkgs {
					if p.Import == f[0] {
						res.Percent[p.Short] = f[2]
					}
				}
			}
		}
	}
	os.Remove(tmpBin)
	os.Remove(in)
	os.RemoveAll(covDir)
	return res, nil
}

// runFront is the front-end stream of C07; returns the case terms (type c07fcase) and their records.
func runFront(cfg *vh.Config, res *vh.Result, caseNo *int, texts []string, how []string) (terms []string, recs []vh.CaseRec) {
	obs := parallel(len(texts), "front", *caseNo,
		func(i int) any { return map[string]any{"how": how[i], "source": texts[i]} },
		func(i int) frontObs { return observeFront(texts[i]) })
	for i, src := range texts {
		o := obs[i]
		in := map[string]any{"how": how[i], "files": map[string]string{mainFile: src}}
		content := map[string]string{mainFile: src}
		res.Count("front")
		switch {
		case o.Panic != "":
			res.Count("front_panic")
			res.Fail(vh.Failure{Case: *caseNo, Stream: "front", Sig: "C07 front end (parse + walk): panic " + errClass(o.Panic), Clause: "never panics", Input: in, Got: o.Panic})
		case o.HasFile:
			res.Count("front_file")
			if len(src) <= 2500 {
				terms = append(terms, fmt.Sprintf("CFrontFile %s %s", vh.BytesTerm(src), spansCoq(locSpans(o.Locs))))
				recs = append(recs, vh.CaseRec{Case: *caseNo, Stream: "front", Input: in, Impl: map[string]any{"locations": len(o.Locs)}})
			}
		default:
			res.Count("front_err")
			if o.FromParser {
				res.Count("front_err_parser")
			} else {
				res.Count("front_err_walker")
			}
			checkPositions(res, *caseNo, "front", "front end", o.ErrPos, content, mainFile, in)
			if !o.FromParser && !o.FirstTokAtOrigin {
				// errpos.AddFilename gives an error without a position the zero Position (file:1:1): that is not
				// a position of the error. (A lexer diagnostic on the first character legitimately is 1:1.)
				for _, p := range o.ErrPos {
					// a protovalidate violation on a missing member of the FIRST element of a file that starts with that
					// element (`entity Foo {` at 1:1 without status) is reported on a child location with the parent's
					// start (0:0) and no end: genuinely the zero Position (the walker stream compares it exactly in Coq)
					if strings.HasPrefix(p.Msg, "elements.0.") && o.FirstTokStartsAtOrigin && !strings.HasPrefix(strings.TrimLeft(src, " \t"), "package") {
						continue
					}
					if p.HasPos && p.StartLine == 0 && p.StartCol == 0 && p.EndLine == 0 && p.EndCol == 0 {
						res.Fail(vh.Failure{Case: *caseNo, Stream: "front",
							Sig:    "C07 error position: only the default position 1:1 (" + errClass(p.Msg) + ")",
							Clause: "errors carry a position inside the offending file", Input: in,
							Got: fmt.Sprintf("walker-stage error positioned at the zero Position: %+v", p)})
						break
					}
				}
			}
			sp, all := errSpans(o.ErrPos)
			if all && len(src) <= 2500 {
				terms = append(terms, fmt.Sprintf("CFrontErrs %s %s %s", vh.BytesTerm(src), b(o.FromParser), spansCoq(sp)))
				recs = append(recs, vh.CaseRec{Case: *caseNo, Stream: "front", Input: in, Impl: map[string]any{"from_parser": o.FromParser, "errors": o.ErrPos}})
			}
		}
		*caseNo++
	}
	// coverage of the walker by exactly these inputs
	cov, err := walkerCoverage(cfg.Out, texts)
	if err != nil {
		res.Fail(vh.Failure{Case: *caseNo, Stream: "walkcov", Sig: "C07 walker coverage run failed", Clause: "tie: the crash stream's coverage of the unmodelled walker could not be measured", Input: "cov_cmpb", Got: err.Error()})
		*caseNo++
		return terms, recs
	}
	var covered []string
	hit, total := 0, 0
	var missed []string
	sort.Slice(cov.Funcs, func(i, j int) bool {
		a, c := cov.Funcs[i], cov.Funcs[j]
		if a.Pkg != c.Pkg {
			return a.Pkg < c.Pkg
		}
		if a.File != c.File {
			return a.File < c.File
		}
		return a.Func < c.Func
	})
	for _, f := range cov.Funcs {
		total++
		if f.Pct > 0 {
			hit++
			covered = append(covered, fmt.Sprintf("(%s, %s, %s)", vh.CoqString(f.Pkg), vh.CoqString(f.File), vh.CoqString(f.Func)))
		} else {
			missed = append(missed, f.Pkg+"/"+f.File+":"+f.Func)
		}
	}
	res.Distribution["walkcov_funcs_total"] = total
	res.Distribution["walkcov_funcs_executed"] = hit
	res.Notes = append(res.Notes, fmt.Sprintf("walker crash stream coverage (go build -cover, %d inputs): %d of %d functions of internal/bcl, internal/bcl/internal/walker, .../walker/schema executed; statements: bcl %s, walker %s, walker/schema %s; not executed: %s",
		len(texts), hit, total, cov.Percent["bcl"], cov.Percent["walker"], cov.Percent["walker/schema"], strings.Join(missed, " ")))
	terms = append(terms, "CWalkCov ["+strings.Join(covered, "; ")+"]")
	recs = append(recs, vh.CaseRec{Case: *caseNo, Stream: "walkcov", Input: map[string]any{"inputs": len(texts)}, Impl: map[string]any{"executed": hit, "total": total, "not_executed": missed}})
	*caseNo++
	return terms, recs
}

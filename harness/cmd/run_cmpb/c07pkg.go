package main

import (
	"fmt"
	"strings"

	"github.com/pentops/j5/lib/verifshim/cmpb"
	"verifharness/vh"
)

// Package-loading stream of C07 (coq/model/CmpbPackage.v): bundles of well-formed files whose import graph
// has missing packages, self references, cycles of length 2..4 and diamonds; CompilePackage of the first
// package. Compared with the model's loader: compiled / circular dependency / no files for package, and
// whether the error carries a position (the two loader errors do not: recorded findings).

type pkgGraph struct {
	Imports [][][]int // package -> file -> imported package indexes (9 = a package nobody provides)
}

func (g pkgGraph) pkgName(i int) string {
	if i == 9 {
		return "nope.v1"
	}
	return fmt.Sprintf("p%d.v1", i)
}

func (g pkgGraph) files() map[string]string {
	out := map[string]string{}
	for pi, fs := range g.Imports {
		for fi, imps := range fs {
			var sb strings.Builder
			fmt.Fprintf(&sb, "package %s\n\n", g.pkgName(pi))
			seen := map[int]bool{}
			for _, d := range imps {
				if !seen[d] && d != pi {
					seen[d] = true
					short := strings.Split(g.pkgName(d), ".")[0]
					fmt.Fprintf(&sb, "import %s:%s\n", g.pkgName(d), short)
				}
			}
			fmt.Fprintf(&sb, "\nobject Thing%d {\n  field name string\n", fi)
			for k, d := range imps {
				ref := "Thing0"
				if d != pi {
					ref = strings.Split(g.pkgName(d), ".")[0] + ".Thing0"
				}
				fmt.Fprintf(&sb, "  field r%d object:%s\n", k, ref)
			}
			sb.WriteString("}\n")
			out[pkgFileName(pi, fi)] = sb.String()
		}
	}
	return out
}

func pkgFileName(pi, fi int) string { return fmt.Sprintf("p%d/v1/f%d.j5s", pi, fi) }

// importSpans: the span the real front end recorded for each import statement of a source text
// (SourceFile.source_locations, child "imports", child <index>), by index
func importSpans(src string) map[int]span4 {
	out := map[int]span4{}
	for _, l := range observeFront(src).Locs {
		if len(l.Path) == 2 && l.Path[0] == "imports" {
			var idx int
			if _, err := fmt.Sscanf(l.Path[1], "%d", &idx); err == nil {
				out[idx] = span4{int(l.StartLine), int(l.StartCol), int(l.EndLine), int(l.EndCol)}
			}
		}
	}
	return out
}

// coq: the bundle as a model term: every file with its real text and, per reference in order, the package it
// names with the span of the import statement that brings it in (a reference to the file's own package has no
// import statement: span0; the loader drops the own package from the dependencies)
func (g pkgGraph) coq() string {
	files := g.files()
	var ps []string
	for pi, fs := range g.Imports {
		var ffs []string
		for fi, imps := range fs {
			src := files[pkgFileName(pi, fi)]
			spans := importSpans(src)
			stmt := map[int]int{} // package -> index of its import statement (files(): first-seen order, own package skipped)
			for _, d := range imps {
				if _, ok := stmt[d]; !ok && d != pi {
					stmt[d] = len(stmt)
				}
			}
			var is []string
			for _, d := range imps {
				sp := "span0"
				if idx, ok := stmt[d]; ok {
					if s4, ok := spans[idx]; ok {
						sp = s4.coq()
					}
				}
				is = append(is, fmt.Sprintf("(%d%%N, %s)", d, sp))
			}
			ffs = append(ffs, fmt.Sprintf("mkSF %d %s [%s]", pi*10+fi, vh.BytesTerm(src), strings.Join(is, "; ")))
		}
		ps = append(ps, fmt.Sprintf("(%d, [%s])", pi, strings.Join(ffs, "; ")))
	}
	return "[" + strings.Join(ps, "; ") + "]"
}

// fileID: the model's file id of a generated file name (p<pi>/v1/f<fi>.j5s -> pi*10+fi); 999 = not a file of the bundle
func (g pkgGraph) fileID(name string) int {
	for pi, fs := range g.Imports {
		for fi := range fs {
			if pkgFileName(pi, fi) == name {
				return pi*10 + fi
			}
		}
	}
	return 999
}

func genPkgGraphs(r *vh.Rand, n int) []pkgGraph {
	out := []pkgGraph{
		{[][][]int{{{}}}},                                    // one package, no imports
		{[][][]int{{{9}}}},                                   // unknown package
		{[][][]int{{{1}}, {{0}}}},                            // cycle of two
		{[][][]int{{{1}}, {{2}}, {{0}}}},                     // cycle of three
		{[][][]int{{{1, 2}}, {{3}}, {{3}}, {{}}}},            // diamond
		{[][][]int{{{0}}}},                                   // a file referring to its own package
		{[][][]int{{{1}}, {{2}}, {{9}}}},                     // unknown package two levels down
		{[][][]int{{{1}, {2}}, {{}}, {{1}}}},                 // two files with different imports
		{[][][]int{{{1}}, {{2}}, {{3}}, {{1}}}},              // cycle not through the root
	}
	for len(out) < n {
		np := r.Range(1, 4)
		g := pkgGraph{}
		for pi := 0; pi < np; pi++ {
			var fs [][]int
			for fi := r.Range(1, 2); fi > 0; fi-- {
				var imps []int
				for k := r.Intn(3); k > 0; k-- {
					switch {
					case r.Chance(10):
						imps = append(imps, 9)
					default:
						imps = append(imps, r.Intn(np))
					}
				}
				fs = append(fs, imps)
			}
			g.Imports = append(g.Imports, fs)
		}
		out = append(out, g)
	}
	return out
}

func runPkgLoad(cfg *vh.Config, res *vh.Result, caseNo *int) (terms []string, recs []vh.CaseRec) {
	r := cfg.R.Fork("pkgload")
	gs := genPkgGraphs(r, cfg.Scale(40, 400))
	type obsT struct {
		Kind   int
		HasPos bool
		Err    string
		Pos    []cmpb.Pos
		Panic  string
		Hang   bool
	}
	obs := parallel(len(gs), "pkgload", *caseNo,
		func(i int) any { return map[string]any{"files": gs[i].files(), "package": "p0.v1"} },
		func(i int) obsT {
			c := compileOnce(gs[i].files(), "p0.v1")
			var o obsT
			switch {
			case c.TimedOut:
				o.Hang = true
			case c.Panic != nil:
				o.Panic = fmt.Sprint(c.Panic)
			case c.Err != nil:
				o.Err = c.Err.Error()
				o.Pos = cmpb.Positions(c.Err)
				for _, p := range o.Pos {
					if p.HasPos {
						o.HasPos = true
					}
				}
				switch {
				case strings.Contains(o.Err, "circular dependency"):
					o.Kind = 1
				case strings.Contains(o.Err, "no files for package"):
					o.Kind = 2
				default:
					o.Kind = 3
				}
			}
			return o
		})
	for i, g := range gs {
		o := obs[i]
		in := map[string]any{"files": g.files(), "package": "p0.v1", "graph": g.coq()}
		res.Count("pkgload")
		res.Count(fmt.Sprintf("pkgload_kind%d", o.Kind))
		switch {
		case o.Hang:
			res.Fail(vh.Failure{Case: *caseNo, Stream: "pkgload", Sig: "C07 package loading: hang", Clause: "never hangs", Input: in, Got: "timeout"})
		case o.Panic != "":
			res.Fail(vh.Failure{Case: *caseNo, Stream: "pkgload", Sig: "C07 package loading: panic " + errClass(o.Panic), Clause: "never panics", Input: in, Got: o.Panic})
		default:
			if o.Err != "" {
				checkPositions(res, *caseNo, "pkgload", "package loading", o.Pos, g.files(), "", in)
			}
			where := "None"
			for _, p := range o.Pos {
				if p.HasPos {
					where = fmt.Sprintf("(Some (%d%%N, %s))", g.fileID(p.File), span4{p.StartLine, p.StartCol, p.EndLine, p.EndCol}.coq())
					break
				}
			}
			terms = append(terms, fmt.Sprintf("CPkgLoad %s 0 %d %s", g.coq(), o.Kind, where))
			recs = append(recs, vh.CaseRec{Case: *caseNo, Stream: "pkgload", Input: in, Impl: o})
		}
		*caseNo++
	}
	return terms, recs
}

package main

import (
	"fmt"
	"strings"

	"github.com/pentops/j5/lib/verifshim/cmpb"
	"verifharness/vh"
)

// Package-loading stream of C07 (coq/model/CmpbPackage.v): bundles of well-formed files whose import graph
// has missing packages, self references, cycles of length 2..4 and diamonds; CompilePackage of the first
// package. Compared with the model's loader: compiled / circular dependency / no files for package, and
// whether the error carries a position (the two loader errors do not: recorded findings).

type pkgGraph struct {
	Imports [][][]int // package -> file -> imported package indexes (9 = a package nobody provides)
}

func (g pkgGraph) pkgName(i int) string {
	if i == 9 {
		return "nope.v1"
	}
	return fmt.Sprintf("p%d.v1", i)
}

func (g pkgGraph) files() map[string]string {
	out := map[string]string{}
	for pi, fs := range g.Imports {
		for fi, imps := range fs {
			var sb strings.Builder
			fmt.Fprintf(&sb, "package %s\n\n", g.pkgName(pi))
			seen := map[int]bool{}
			for _, d := range imps {
				if !seen[d] && d != pi {
					seen[d] = true
					short := strings.Split(g.pkgName(d), ".")[0]
					fmt.Fprintf(&sb, "import %s:%s\n", g.pkgName(d), short)
				}
			}
			fmt.Fprintf(&sb, "\nobject Thing%d {\n  field name string\n", fi)
			for k, d := range imps {
				ref := "Thing0"
				if d != pi {
					ref = strings.Split(g.pkgName(d), ".")[0] + ".Thing0"
				}
				fmt.Fprintf(&sb, "  field r%d object:%s\n", k, ref)
			}
			sb.WriteString("}\n")
			out[pkgFileName(pi, fi)] = sb.String()
		}
	}
	return out
}

func pkgFileName(pi, fi int) string { return fmt.Sprintf("p%d/v1/f%d.j5s", pi, fi) }

// importSpans: the span the real front end recorded for each import statement of a source text
// (SourceFile.source_locations, child "imports", child <index>), by index
func importSpans(src string) map[int]span4 {
	out := map[int]span4{}
	for _, l := range observeFront(src).Locs {
		if len(l.Path) == 2 && l.Path[0] == "imports" {
			var idx int
			if _, err := fmt.Sscanf(l.Path[1], "%d", &idx); err == nil {
				out[idx] = span4{int(l.StartLine), int(l.StartCol), int(l.EndLine), int(l.EndCol)}
			}
		}
	}
	return out
}

// coq: the bundle as a model term: every file with its real text and, per reference in order, the package it
// names with the span of the import statement that brings it in (a reference to the file's own package has no
// import statement: span0; the loader drops the own package from the dependencies)
func (g pkgGraph) coq() string {
	files := g.files()
	var ps []string
	for pi, fs := range g.Imports {
		var ffs []string
		for fi, imps := range fs {
			src := files[pkgFileName(pi, fi)]
			spans := importSpans(src)
			stmt := map[int]int{} // package -> index of its import statement (files(): first-seen order, own package skipped)
			for _, d := range imps {
				if _, ok := stmt[d]; !ok && d != pi {
					stmt[d] = len(stmt)
				}
			}
			var is []string
			for _, d := range imps {
				sp := "span0"
				if idx, ok := stmt[d]; ok {
					if s4, ok := spans[idx]; ok {
						sp = s4.coq()
					}
				}
				is = append(is, fmt.Sprintf("(%d%%N, %s)", d, sp))
			}
			ffs = append(ffs, fmt.Sprintf("mkSF %d %s [%s]", pi*10+fi, vh.BytesTerm(src), strings.Join(is, "; ")))
		}
		ps = append(ps, fmt.Sprintf("(%d, [%s])", pi, strings.Join(ffs, "; ")))
	}
	return "[" + strings.Join(ps, "; ") + "]"
}

// fileID: the model's file id of a generated file name (p<pi>/v1/f<fi>.j5s -> pi*10+fi); 999 = not a file of the bundle
func (g pkgGraph) fileID(name string) int {
	for pi, fs := range g.Imports {
		for fi := range fs {
			if pkgFileName(pi, fi) == name {
				return pi*10 + fi
			}
		}
	}
	return 999
}

func genPkgGraphs(r *vh.Rand, n int) []pkgGraph {
	out := []pkgGraph{
		{[][][]int{{{}}}},                                    // one package, no imports
		{[][][]int{{{9}}}},                                   // unknown package
		{[][][]int{{{1}}, {{0}}}},                            // cycle of two
		{[][][]int{{{1}}, {{2}}, {{0}}}},                     // cycle of three
		{[][][]int{{{1, 2}}, {{3}}, {{3}}, {{}}}},            // diamond
		{[][][]int{{{0}}}},                                   // a file referring to its own package
		{[][][]int{{{1}}, {{2}}, {{9}}}},                     // unknown package two levels down
		{[][][]int{{{1}, {2}}, {{}}, {{1}}}},                 // two files with different imports
		{[][][]int{{{1}}, {{2}}, {{3}}, {{1}}}},              // cycle not through the root
		{[][][]int{{{9}, {9}}}},                              // two files import the unknown package: located in the first
		{[][][]int{{{}, {1}, {1}}, {{0}}}},                   // two files import a package that closes a cycle
		{[][][]int{{{1}}, {{9, 9}, {9}}}},                    // unknown package two levels down, named twice and in two files
		{[][][]int{{{0, 9}}}},                                // own package first, then the unknown one
	}
	for len(out) < n {
		np := r.Range(1, 4)
		g := pkgGraph{}
		for pi := 0; pi < np; pi++ {
			var fs [][]int
			for fi := r.Range(1, 2); fi > 0; fi-- {
				var imps []int
				for k := r.Intn(3); k > 0; k-- {
					switch {
					case r.Chance(10):
						imps = append(imps, 9)
					default:
						imps = append(imps, r.Intn(np))
					}
				}
				fs = append(fs, imps)
			}
			g.Imports = append(g.Imports, fs)
		}
		out = append(out, g)
	}
	return out
}

// pinned package-level inputs judged by the direct oracle only (every error leaf positioned inside a source file):
// the loader / package-scope error classes repaired by /repo fixes 3f76693, a7259e7, 5b3591a, 466a7f9, kept in a
// deterministic corpus so that a regression of any of them is caught without relying on the mutation draw
var pkgPinned = []struct {
	Class string
	Files map[string]string
}{
	{"import of a package with no files", map[string]string{
		"p0/v1/a.j5s": "package p0.v1\n\nimport nope.v1:nope\n\nobject Foo {\n  field a object:nope.Thing\n}\n"}},
	{"import of a package with no files, full package reference", map[string]string{
		"p0/v1/a.j5s": "package p0.v1\n\nimport nope.v1\n\nobject Foo {\n  field a object:nope.v1.Thing\n}\n"}},
	{"package import cycle", map[string]string{
		"p0/v1/a.j5s":  "package p0.v1\n\nimport baz.v1:baz\n\nobject Foo {\n  field a object:baz.Baz\n}\n",
		"baz/v1/b.j5s": "package baz.v1\n\nimport p0.v1:p0\n\nobject Baz {\n  field a object:p0.Foo\n}\n"}},
	{"package line does not match the directory", map[string]string{
		"p0/v1/a.j5s": "package p0.v1v1\n\nobject Foo {\n  field bar object:Bar\n}\n\nobject Bar {\n  field x string\n}\n"}},
	{"one object in two files of a package", map[string]string{
		"p0/v1/a.j5s": "package p0.v1\n\nobject Foo {\n  field a string\n}\n",
		"p0/v1/b.j5s": "package p0.v1\n\nobject Foo {\n  field b string\n}\n"}},
	{"object and enum of one name in two files of a package", map[string]string{
		"p0/v1/a.j5s": "package p0.v1\n\nobject Foo {\n  field a string\n}\n",
		"p0/v1/b.j5s": "package p0.v1\n\nenum Foo {\n  option A\n}\n"}},
	{"duplicate field in a dependency package", map[string]string{
		"p0/v1/a.j5s":  "package p0.v1\n\nimport baz.v1:baz\n\nobject Foo {\n  field a object:baz.Baz\n}\n",
		"baz/v1/b.j5s": "package baz.v1\n\nobject Baz {\n  field a string\n  field a string\n}\n"}},
	{"oneof with a map option", map[string]string{
		"p0/v1/a.j5s": "package p0.v1\n\noneof Ch {\n  option a map:string\n  option b string\n}\n"}},
	{"nested oneof with a map option", map[string]string{
		"p0/v1/a.j5s": "package p0.v1\n\nobject Foo {\n  field ch oneof {\n    option a map:string\n  }\n}\n"}},
}

func runPkgPinned(res *vh.Result, caseNo *int) {
	for _, pc := range pkgPinned {
		in := map[string]any{"class": pc.Class, "files": pc.Files, "package": "p0.v1"}
		c := compileOnce(pc.Files, "p0.v1")
		res.Count("pkgpinned")
		switch {
		case c.TimedOut:
			res.Fail(vh.Failure{Case: *caseNo, Stream: "pkgpinned", Sig: "C07 package loading: hang", Clause: "never hangs", Input: in, Got: "timeout"})
		case c.Panic != nil:
			res.Fail(vh.Failure{Case: *caseNo, Stream: "pkgpinned", Sig: "C07 package loading: panic " + errClass(fmt.Sprint(c.Panic)), Clause: "never panics", Input: in, Got: fmt.Sprint(c.Panic)})
		case c.Err == nil:
			res.Fail(vh.Failure{Case: *caseNo, Stream: "pkgpinned", Sig: "C07 package error class accepted: " + pc.Class, Clause: "descriptors or errors (harness expectation: this bundle is not a valid package)", Input: in, Got: "compiled"})
		default:
			checkPositions(res, *caseNo, "pkgpinned", "package error class "+pc.Class, cmpb.Positions(c.Err), pc.Files, "", in)
		}
		*caseNo++
	}
}

func runPkgLoad(cfg *vh.Config, res *vh.Result, caseNo *int) (terms []string, recs []vh.CaseRec) {
	runPkgPinned(res, caseNo)
	r := cfg.R.Fork("pkgload")
	gs := genPkgGraphs(r, cfg.Scale(40, 400))
	type obsT struct {
		Kind   int
		HasPos bool
		Err    string
		Pos    []cmpb.Pos
		Panic  string
		Hang   bool
	}
	obs := parallel(len(gs), "pkgload", *caseNo,
		func(i int) any { return map[string]any{"files": gs[i].files(), "package": "p0.v1"} },
		func(i int) obsT {
			c := compileOnce(gs[i].files(), "p0.v1")
			var o obsT
			switch {
			case c.TimedOut:
				o.Hang = true
			case c.Panic != nil:
				o.Panic = fmt.Sprint(c.Panic)
			case c.Err != nil:
				o.Err = c.Err.Error()
				o.Pos = cmpb.Positions(c.Err)
				for _, p := range o.Pos {
					if p.HasPos {
						o.HasPos = true
					}
				}
				switch {
				case strings.Contains(o.Err, "circular dependency"):
					o.Kind = 1
				case strings.Contains(o.Err, "no files for package"):
					o.Kind = 2
				default:
					o.Kind = 3
				}
			}
			return o
		})
	for i, g := range gs {
		o := obs[i]
		in := map[string]any{"files": g.files(), "package": "p0.v1", "graph": g.coq()}
		res.Count("pkgload")
		res.Count(fmt.Sprintf("pkgload_kind%d", o.Kind))
		switch {
		case o.Hang:
			res.Fail(vh.Failure{Case: *caseNo, Stream: "pkgload", Sig: "C07 package loading: hang", Clause: "never hangs", Input: in, Got: "timeout"})
		case o.Panic != "":
			res.Fail(vh.Failure{Case: *caseNo, Stream: "pkgload", Sig: "C07 package loading: panic " + errClass(o.Panic), Clause: "never panics", Input: in, Got: o.Panic})
		default:
			if o.Err != "" {
				checkPositions(res, *caseNo, "pkgload", "package loading", o.Pos, g.files(), "", in)
			}
			where := "None"
			for _, p := range o.Pos {
				if p.HasPos {
					where = fmt.Sprintf("(Some (%d%%N, %s))", g.fileID(p.File), span4{p.StartLine, p.StartCol, p.EndLine, p.EndCol}.coq())
					break
				}
			}
			terms = append(terms, fmt.Sprintf("CPkgLoad %s 0 %d %s", g.coq(), o.Kind, where))
			recs = append(recs, vh.CaseRec{Case: *caseNo, Stream: "pkgload", Input: in, Impl: o})
		}
		*caseNo++
	}
	return terms, recs
}

package main

import (
	"context"
	"crypto/sha256"
	"encoding/hex"
	"fmt"
	"regexp"
	"sort"
	"strings"
	"time"

	"github.com/pentops/j5/lib/verifshim/compile"
	"google.golang.org/protobuf/proto"
	"google.golang.org/protobuf/reflect/protoreflect"
	"verifharness/vh"
)

func init() { vh.Register("C14", isolated("C14", runC14)) }

// one compiled file as observed: deterministic-marshal bytes and printed text
type fileObs struct {
	Path string
	Hash string
	Text string
}

type runObs struct {
	Config string
	// package -> files in the order CompilePackage returned them
	Pkgs map[string][]fileObs
	Errs map[string]string // package -> error / panic text
	Raw  map[string][]protoreflect.FileDescriptor
}

func shuffled[T any](r *vh.Rand, xs []T) []T {
	out := append([]T{}, xs...)
	for i := len(out) - 1; i > 0; i-- {
		j := r.Intn(i + 1)
		out[i], out[j] = out[j], out[i]
	}
	return out
}

func observeFiles(fs []protoreflect.FileDescriptor) ([]fileObs, string) {
	var out []fileObs
	for _, f := range fs {
		bs, err := marshalDet(f)
		if err != nil {
			return nil, "marshal: " + err.Error()
		}
		txt, perr, ppan := safePrint(f)
		if ppan != nil {
			return nil, fmt.Sprintf("print panic: %v", ppan)
		}
		if perr != nil {
			return nil, "print: " + perr.Error()
		}
		h := sha256.Sum256(bs)
		out = append(out, fileObs{Path: f.Path(), Hash: hex.EncodeToString(h[:8]), Text: txt})
	}
	return out, ""
}

// safeCompilePkg compiles under recover() and a deadline: a call that does not return stops the run with the
// package as the failing input (abortOnHang; its goroutine cannot be killed).
func safeCompilePkg(s *compile.Set, pkg string) (fs []protoreflect.FileDescriptor, errText string) {
	type res struct {
		fs  []protoreflect.FileDescriptor
		err string
	}
	ch := make(chan res, 1)
	go func() {
		var r res
		func() {
			defer func() {
				if p := recover(); p != nil {
					r.err = fmt.Sprintf("panic: %v", p)
				}
			}()
			out, err := s.CompilePackage(context.Background(), pkg)
			if err != nil {
				r.err = err.Error()
				return
			}
			r.fs = out
		}()
		ch <- r
	}()
	select {
	case r := <-ch:
		return r.fs, r.err
	case <-time.After(30 * time.Second):
		abortOnHang("compile", map[string]any{"package": pkg, "call": "CompilePackage (C14 configuration run)"})
		return nil, "timeout"
	}
}

// runConfig compiles every package of the bundle under one configuration of the order parameters.
func runConfig(b bundleT, seed uint64, k int) runObs {
	r := vh.NewRand(seed*1000003 + uint64(k))
	o := runObs{Pkgs: map[string][]fileObs{}, Errs: map[string]string{}, Raw: map[string][]protoreflect.FileDescriptor{}}
	files := func() *compile.Files {
		f := &compile.Files{Content: b.Content}
		if k > 0 {
			// the file source lists packages and files in an arbitrary order
			f.Packages = shuffled(r, b.Packages)
			f.Permute = func(in []string) []string { return shuffled(r, in) }
		} else {
			f.Packages = append([]string{}, b.Packages...)
		}
		return f
	}
	record := func(pkg string, fs []protoreflect.FileDescriptor, et string) {
		if et != "" {
			o.Errs[pkg] = et
			return
		}
		obs, oe := observeFiles(fs)
		if oe != "" {
			o.Errs[pkg] = oe
			return
		}
		o.Pkgs[pkg] = obs
		o.Raw[pkg] = fs
	}
	mode := 0
	if k > 0 {
		mode = 1 + r.Intn(3)
	}
	switch mode {
	case 0, 1: // fresh PackageSet per package
		o.Config = "fresh set per package"
		if mode == 1 {
			o.Config += ", shuffled listings"
		}
		order := b.Packages
		if mode == 1 {
			order = shuffled(r, b.Packages)
		}
		for _, pkg := range order {
			s, err := compile.NewSet(files(), nil)
			if err != nil {
				o.Errs[pkg] = err.Error()
				continue
			}
			fs, et := safeCompilePkg(s, pkg)
			record(pkg, fs, et)
		}
	case 2: // one reused PackageSet, packages compiled in a random order
		order := shuffled(r, b.Packages)
		o.Config = "reused set, call order " + strings.Join(order, ",")
		s, err := compile.NewSet(files(), nil)
		if err != nil {
			for _, pkg := range b.Packages {
				o.Errs[pkg] = err.Error()
			}
			return o
		}
		for _, pkg := range order {
			fs, et := safeCompilePkg(s, pkg)
			record(pkg, fs, et)
		}
	case 3: // one reused set, every package compiled twice (the second result is kept)
		order := shuffled(r, append(append([]string{}, b.Packages...), b.Packages...))
		o.Config = "reused set, each package twice, call order " + strings.Join(order, ",")
		s, err := compile.NewSet(files(), nil)
		if err != nil {
			for _, pkg := range b.Packages {
				o.Errs[pkg] = err.Error()
			}
			return o
		}
		for _, pkg := range order {
			fs, et := safeCompilePkg(s, pkg)
			delete(o.Errs, pkg)
			record(pkg, fs, et)
		}
	}
	return o
}

var (
	reOptLine = regexp.MustCompile(`^\s*option (\([^)]*\)[A-Za-z0-9_.]*)`)
	reFldOpt  = regexp.MustCompile(`^\s*(\([^)]*\)[A-Za-z0-9_.]*) = `)
	reKeyLine = regexp.MustCompile(`^\s*key: (".*")$`)
)

// sameButLeadingDots: two different lines that become equal once every '.' that starts a name
// (after a space or an opening bracket) is dropped: `.bar.v1.Thing` vs `bar.v1.Thing`.
func sameButLeadingDots(x, y string) bool {
	strip := func(s string) string {
		var sb strings.Builder
		for i := 0; i < len(s); i++ {
			if s[i] == '.' && (i == 0 || s[i-1] == ' ' || s[i-1] == '(' || s[i-1] == '<' || s[i-1] == ',') {
				continue
			}
			sb.WriteByte(s[i])
		}
		return sb.String()
	}
	return x != y && strip(x) == strip(y)
}

// firstDiffClass classifies the first line on which two printed texts differ.
func firstDiffClass(a, b string) (string, string) {
	la, lb := strings.Split(a, "\n"), strings.Split(b, "\n")
	for i := 0; i < len(la) || i < len(lb); i++ {
		x, y := "", ""
		if i < len(la) {
			x = la[i]
		}
		if i < len(lb) {
			y = lb[i]
		}
		if x == y {
			continue
		}
		desc := fmt.Sprintf("line %d: %q vs %q", i+1, x, y)
		switch {
		case sameButLeadingDots(x, y):
			return "leading dot of a type reference (scope of the name)", desc
		case reKeyLine.MatchString(x) || strings.Contains(x, "value:") || strings.HasPrefix(strings.TrimSpace(x), "key:"):
			return "map option entries", desc
		case reOptLine.MatchString(x) || reFldOpt.MatchString(x):
			return "option order", desc
		case strings.HasPrefix(strings.TrimSpace(x), "import "):
			return "import order", desc
		default:
			return "other text", desc
		}
	}
	return "none", ""
}

// printed option names of every block of a printed file, in printed order:
// for `message|service|enum X {` and `rpc ...{` blocks the `option (...)` lines directly inside;
// for fields / enum values the `(...) = ` entries of the bracket list.
type optBlock struct {
	FieldLike bool
	Names     []string
}

func optionBlocks(text string) []optBlock {
	var out []optBlock
	lines := strings.Split(text, "\n")
	indent := func(s string) int { return len(s) - len(strings.TrimLeft(s, " ")) }
	for i := 0; i < len(lines); i++ {
		l := lines[i]
		t := strings.TrimSpace(l)
		switch {
		case (strings.HasPrefix(t, "message ") || strings.HasPrefix(t, "service ") || strings.HasPrefix(t, "enum ") || strings.HasPrefix(t, "rpc ")) && strings.HasSuffix(t, "{"):
			in := indent(l) + 2
			var names []string
			for j := i + 1; j < len(lines); j++ {
				if strings.TrimSpace(lines[j]) == "" {
					continue
				}
				if indent(lines[j]) < in {
					break
				}
				if indent(lines[j]) == in {
					if m := reOptLine.FindStringSubmatch(lines[j]); m != nil {
						names = append(names, m[1])
					}
				}
			}
			if len(names) >= 2 {
				out = append(out, optBlock{false, names})
			}
		case strings.HasSuffix(t, " [") && !strings.HasPrefix(t, "("):
			in := indent(l) + 2
			var names []string
			for j := i + 1; j < len(lines); j++ {
				if indent(lines[j]) < in && strings.TrimSpace(lines[j]) != "" {
					break
				}
				if indent(lines[j]) == in {
					if m := reFldOpt.FindStringSubmatch(lines[j]); m != nil {
						names = append(names, m[1])
					}
				}
			}
			if len(names) >= 2 {
				out = append(out, optBlock{true, names})
			}
		}
	}
	return out
}

// the extension full name inside a printed qualified name "(a.b.c).x.y"
func extOfPrinted(q string) string {
	if i := strings.Index(q, ")"); i > 0 {
		return q[1:i]
	}
	return q
}

// keys of printed map options: consecutive `key: "..."` lines within one `info: [{` list
func mapKeyRuns(text string) [][]string {
	var out [][]string
	var cur []string
	for _, l := range strings.Split(text, "\n") {
		t := strings.TrimSpace(l)
		if m := reKeyLine.FindStringSubmatch(l); m != nil {
			cur = append(cur, m[1])
			continue
		}
		if strings.HasPrefix(t, "value:") || t == "}, {" {
			continue
		}
		if len(cur) > 0 {
			out = append(out, cur)
			cur = nil
		}
	}
	if len(cur) > 0 {
		out = append(out, cur)
	}
	return out
}

func runC14(cfg *vh.Config) error {
	restore := quietStdout()
	defer restore()
	res := vh.NewResult("C14", cfg.Seed)
	res.Rule = "random bundles of 1-3 packages x 1-4 files x 1-4 declarations (objects with fields of every type/rule/wrapper, references across files and packages, enums with info maps, oneofs, services with options, topics, entities); each bundle compiled and printed under 8 (quick) / 64 (thorough) configurations: shuffled file and package listings, fresh PackageSet per package, one reused set with shuffled CompilePackage call order, each package compiled twice on a reused set; Go randomises map iteration per range, so repetition explores the map orders; history stream: 6 (quick) / 24 (thorough) families of 3 DIFFERENT bundles that share source and output file paths (same holder file, different import sets over unrelated, sibling and nested packages whose first name parts collide), each family compiled and printed in sequence in 3 fresh processes (one rotation each), every variant printed after others compared byte for byte with the process that printed it first. non-trivial = distinct bundle with at least two output files"
	cf := &vh.CasesFile{
		Header: "From Coq Require Import String List NArith.\nFrom J5V.model Require Import CmpbFields CmpbFieldsCorr CmpbOrder CmpbOrderCorr.",
		Type:   "c14case",
		Check:  "c14_check",
	}
	distinct := vh.Distinct{}
	caseNo := 0
	addCase := func(term, stream string, in, impl any) {
		cf.Terms = append(cf.Terms, term)
		res.Cases = append(res.Cases, vh.CaseRec{Case: caseNo, Stream: stream, Input: in, Impl: impl})
	}

	// ---- stream 1: bundles under K configurations (direct oracle: everything byte-identical)
	nB := cfg.Scale(28, 140)
	K := 8
	if cfg.Tier == "thorough" {
		K = 64
	}
	bundles := c14Bundles(cfg)
	type bres struct{ Runs []runObs }
	all := parallel(nB, "bundle", caseNo,
		func(i int) any { return map[string]any{"files": bundles[i].Content, "packages": bundles[i].Packages} },
		func(i int) bres {
			var out bres
			for k := 0; k < K; k++ {
				out.Runs = append(out.Runs, runConfig(bundles[i], cfg.Seed*7919+uint64(i), k))
			}
			return out
		})
	// peers: fresh processes compiling some bundles with reversed listings first (see c14peer.go)
	groups := [][]int{{0}, {1}, {2}}
	var rest []int
	for i := 3; i < nB && i < cfg.Scale(10, 60); i++ {
		rest = append(rest, i)
	}
	if len(rest) > 0 {
		groups = append(groups, rest)
	}
	peers := parallel(len(groups), "peer", caseNo,
		func(i int) any { return map[string]any{"peer process for bundles": groups[i]} },
		func(i int) peerObs {
			po, err := spawnPeer(cfg, groups[i])
			if err != nil {
				return peerObs{"error": {err.Error(): nil}}
			}
			return po
		})
	for gi, po := range peers {
		if e, bad := po["error"]; bad {
			for msg := range e {
				res.Fail(vh.Failure{Case: caseNo, Stream: "peer", Sig: "C14 peer process failed (harness)", Clause: "harness expectation", Input: groups[gi], Got: msg})
			}
			continue
		}
		for _, bi := range groups[gi] {
			b := bundles[bi]
			in := map[string]any{"files": b.Content, "packages": b.Packages, "compared": "this process (sorted listings) vs a fresh process (reversed package and file listings, compiled first)"}
			base := all[bi].Runs[0]
			for _, pkg := range b.Packages {
				bf, bok := base.Pkgs[pkg]
				if !bok {
					continue
				}
				res.Count("peer_pkg")
				pf, pok := po[fmt.Sprint(bi)][pkg]
				if !pok || len(pf) != len(bf) {
					res.Fail(vh.Failure{Case: caseNo, Stream: "peer", Sig: "C14 compile outcome differs between processes with different listing orders", Clause: "independent of the run and of the listing order", Input: in, Got: fmt.Sprintf("package %s: %d files here, %d in the peer", pkg, len(bf), len(pf))})
					continue
				}
				for i := range bf {
					switch {
					case bf[i].Path != pf[i].Path:
						res.Fail(vh.Failure{Case: caseNo, Stream: "peer", Sig: "C14 order of output files differs between processes with different listing orders", Clause: "byte-identical descriptors", Input: in, Got: fmt.Sprintf("%s vs %s", bf[i].Path, pf[i].Path)})
					case bf[i].Hash != pf[i].Hash:
						_, d := firstDiffClass(bf[i].Text, pf[i].Text)
						res.Fail(vh.Failure{Case: caseNo, Stream: "peer", Sig: "C14 descriptor bytes differ between processes with different listing orders", Clause: "byte-identical descriptors, independent of the run and of the listing order", Input: in, Got: fmt.Sprintf("%s: hash %s vs %s; printed text: %s", bf[i].Path, bf[i].Hash, pf[i].Hash, d)})
					case bf[i].Text != pf[i].Text:
						cls, d := firstDiffClass(bf[i].Text, pf[i].Text)
						res.Fail(vh.Failure{Case: caseNo, Stream: "peer", Sig: "C14 printed text differs between processes with different listing orders: " + cls, Clause: "byte-identical printed .proto text", Input: in, Got: fmt.Sprintf("%s: %s", bf[i].Path, d)})
					}
				}
			}
		}
	}
	nOptCases, nMapCases := 0, 0
	for bi, b := range bundles {
		in := map[string]any{"files": b.Content, "packages": b.Packages}
		runs := all[bi].Runs
		base := runs[0]
		res.Count("bundle")
		nfiles := 0
		for _, fs := range base.Pkgs {
			nfiles += len(fs)
		}
		if nfiles >= 2 {
			distinct.Add(fmt.Sprint(b.Content))
		}
		for _, pkg := range b.Packages {
			if et, bad := base.Errs[pkg]; bad {
				res.Count("baseline_error")
				res.Fail(vh.Failure{Case: caseNo, Stream: "bundle", Sig: "C14 generated bundle does not compile: " + errClass(et), Clause: "valid bundles compile (harness expectation; see C07)", Input: in, Got: et})
			}
		}
		for k := 1; k < len(runs); k++ {
			run := runs[k]
			res.Count("config")
			for _, pkg := range b.Packages {
				bf, bok := base.Pkgs[pkg]
				rf, rok := run.Pkgs[pkg]
				if !bok {
					continue // invalid bundle: outside C14's quantifier, not judged
				}
				if bok != rok {
					res.Fail(vh.Failure{Case: caseNo, Stream: "bundle", Sig: "C14 compile outcome differs between configurations", Clause: "independent of listing order, call order and what was compiled earlier", Input: in,
						Got: fmt.Sprintf("package %s: baseline ok=%v (%s), config %q ok=%v (%s)", pkg, bok, base.Errs[pkg], run.Config, rok, run.Errs[pkg])})
					continue
				}
				if !bok {
					continue
				}
				if len(bf) != len(rf) {
					res.Fail(vh.Failure{Case: caseNo, Stream: "bundle", Sig: "C14 number of output files differs between configurations", Clause: "byte-identical descriptors", Input: in, Got: fmt.Sprintf("package %s: %d vs %d under %q", pkg, len(bf), len(rf), run.Config)})
					continue
				}
				for i := range bf {
					switch {
					case bf[i].Path != rf[i].Path:
						res.Fail(vh.Failure{Case: caseNo, Stream: "bundle", Sig: "C14 order of output files differs between configurations", Clause: "byte-identical descriptors", Input: in, Got: fmt.Sprintf("package %s file %d: %s vs %s under %q", pkg, i, bf[i].Path, rf[i].Path, run.Config)})
					case bf[i].Hash != rf[i].Hash:
						res.Fail(vh.Failure{Case: caseNo, Stream: "bundle", Sig: "C14 descriptor bytes differ between configurations", Clause: "byte-identical descriptors", Input: in, Got: fmt.Sprintf("%s: deterministic-marshal hash %s vs %s under %q", bf[i].Path, bf[i].Hash, rf[i].Hash, run.Config)})
					case bf[i].Text != rf[i].Text:
						cls, d := firstDiffClass(bf[i].Text, rf[i].Text)
						res.Fail(vh.Failure{Case: caseNo, Stream: "bundle", Sig: "C14 printed text differs between configurations: " + cls, Clause: "byte-identical printed .proto text", Input: in, Got: fmt.Sprintf("%s under %q: %s", bf[i].Path, run.Config, d)})
					}
				}
			}
		}
		// ---- correspondence cases from the baseline run
		for _, pkg := range b.Packages {
			fs, ok := base.Pkgs[pkg]
			if !ok {
				continue
			}
			var observed, names []string
			for _, f := range fs {
				observed = append(observed, f.Path)
			}
			// "any order": reverse of what came back
			for i := len(observed) - 1; i >= 0; i-- {
				names = append(names, observed[i])
			}
			addCase(fmt.Sprintf("CFileOrder %s %s", coqStrList(names), coqStrList(observed)), "bundle", in, observed)
			res.Count("case_fileorder")
			for _, f := range fs {
				for _, ob := range optionBlocks(f.Text) {
					if nOptCases >= cfg.Scale(500, 4000) {
						break
					}
					// canonical input order: sorted by printed name, reversed (never the printed order itself)
					sorted := append([]string{}, ob.Names...)
					sort.Sort(sort.Reverse(sort.StringSlice(sorted)))
					var pairs []string
					for _, n := range sorted {
						pairs = append(pairs, fmt.Sprintf("(%q, %q)", extOfPrinted(n), n))
					}
					addCase(fmt.Sprintf("COptions %s [%s] %s", b2(ob.FieldLike), strings.Join(pairs, "; "), coqStrList(ob.Names)), "bundle", map[string]any{"file": f.Path}, ob.Names)
					nOptCases++
					res.Count("case_options")
				}
				for _, ks := range mapKeyRuns(f.Text) {
					if len(ks) < 2 || nMapCases >= cfg.Scale(200, 2000) {
						continue
					}
					rev := append([]string{}, ks...)
					sort.Sort(sort.Reverse(sort.StringSlice(rev)))
					addCase(fmt.Sprintf("CMapEntries %s %s", coqStrList(rev), coqStrList(ks)), "bundle", map[string]any{"file": f.Path}, ks)
					nMapCases++
					res.Count("case_mapentries")
				}
			}
		}
		if bi < 3 {
			res.Sample(map[string]any{"stream": "bundle", "packages": b.Packages, "files": len(b.Content), "configs": K, "first_config": runs[1].Config}, 3)
		}
		caseNo++
	}

	// ---- stream 1r: the fixed bundles compiled again and again on fresh PackageSets with the listing of the baseline.
	// A choice left to Go's map iteration order (which import owns a shared short name, which cached value wins) shows
	// only in a fraction of the compilations: small maps iterate in insertion order more often than not, so the 8
	// configurations above can all agree by chance. Everything must be byte-identical to the baseline, every time.
	{
		nFixed := 1
		if nB > 3 {
			nFixed = 3
		}
		reps := cfg.Scale(40, 200)
		type repOut struct {
			Sig, Got string
			N        int
		}
		routs := parallel(nFixed, "repeat", caseNo,
			func(i int) any {
				return map[string]any{"files": bundles[i].Content, "packages": bundles[i].Packages, "call": "repeated compilation on fresh sets"}
			},
			func(i int) repOut {
				var o repOut
				base := all[i].Runs[0]
				note := func(sig, got string) {
					if o.N == 0 {
						o.Sig, o.Got = sig, got
					}
					o.N++
				}
				for k := 0; k < reps; k++ {
					run := runConfig(bundles[i], cfg.Seed, 0)
					for _, pkg := range bundles[i].Packages {
						bf, bok := base.Pkgs[pkg]
						rf, rok := run.Pkgs[pkg]
						switch {
						case bok != rok:
							note("C14 compile outcome differs between repeated compilations of the same bundle", fmt.Sprintf("compilation %d of %d, package %s: baseline ok=%v (%s), now ok=%v (%s)", k+1, reps, pkg, bok, base.Errs[pkg], rok, run.Errs[pkg]))
						case !bok:
						case len(bf) != len(rf):
							note("C14 number of output files differs between repeated compilations of the same bundle", fmt.Sprintf("compilation %d of %d, package %s: %d vs %d", k+1, reps, pkg, len(bf), len(rf)))
						default:
							for j := range bf {
								switch {
								case bf[j].Path != rf[j].Path:
									note("C14 order of output files differs between repeated compilations of the same bundle", fmt.Sprintf("compilation %d of %d, package %s file %d: %s vs %s", k+1, reps, pkg, j, bf[j].Path, rf[j].Path))
								case bf[j].Hash != rf[j].Hash:
									_, d := firstDiffClass(bf[j].Text, rf[j].Text)
									note("C14 descriptor bytes differ between repeated compilations of the same bundle", fmt.Sprintf("compilation %d of %d, %s: deterministic-marshal hash %s vs %s; printed text: %s", k+1, reps, bf[j].Path, bf[j].Hash, rf[j].Hash, d))
								case bf[j].Text != rf[j].Text:
									cls, d := firstDiffClass(bf[j].Text, rf[j].Text)
									note("C14 printed text differs between repeated compilations of the same bundle: "+cls, fmt.Sprintf("compilation %d of %d, %s: %s", k+1, reps, bf[j].Path, d))
								}
							}
						}
					}
				}
				return o
			})
		for i, o := range routs {
			res.Count("repeat_bundle")
			if o.N > 0 {
				in := map[string]any{"files": bundles[i].Content, "packages": bundles[i].Packages, "compared": fmt.Sprintf("baseline vs %d further compilations on fresh PackageSets (same listing)", reps)}
				res.Fail(vh.Failure{Case: caseNo, Stream: "repeat", Sig: o.Sig, Clause: "byte-identical descriptors and printed text, independent of the run (Go map iteration order)", Input: in, Got: fmt.Sprintf("%s [%d differences in all]", o.Got, o.N)})
			}
		}
		caseNo++
	}

	// ---- stream: history. families of DIFFERENT bundles that share file paths, compiled and printed one after
	// the other in one fresh process, each compared with the process that handled it first (c14hist.go)
	runC14History(cfg, res, caseNo, distinct)
	caseNo++

	// ---- stream: printing one descriptor many times. protobuf ranges over extension fields and map
	// entries in a random order per call, so repeated printing explores those orders directly.
	// (a) a descriptor without source info whose message/service/method carry extensions that sit
	// at the same index of different files (finding 28); (b) every file of every bundle above;
	// (c) a bundle with a hand-written .proto source using several option spellings.
	{
		reps := cfg.Scale(56, 160)
		type printJob struct {
			Name  string
			F     protoreflect.FileDescriptor
			Files map[string]string // sources of a fixed bundle, shown with a failure
		}
		var jobs []printJob
		if fd, err := tieDescriptor(); err != nil {
			res.Fail(vh.Failure{Case: caseNo, Stream: "print", Sig: "C14 tie descriptor cannot be built (harness)", Clause: "harness expectation", Input: "tieDescriptor", Got: err.Error()})
		} else {
			jobs = append(jobs, printJob{"hand-built descriptor tie/v1/tie.proto: message with (j5.ext.v1.psm), (buf.validate.message), (j5.list.v1.message), (j5.list.v1.list_request), (j5.ext.v1.message); service with (j5.ext.v1.service), (j5.messaging.v1.service), (google.api.default_host), (google.api.oauth_scopes); method with (google.api.http), (j5.ext.v1.method), (google.api.method_signature)", fd, nil})
		}
		psb := protoSourceBundle()
		pr := runConfig(psb, cfg.Seed, 0)
		for _, pkg := range psb.Packages {
			if et, bad := pr.Errs[pkg]; bad {
				res.Fail(vh.Failure{Case: caseNo, Stream: "print", Sig: "C14 proto-source bundle does not compile: " + errClass(et), Clause: "harness expectation", Input: psb.Content, Got: et})
			}
			for _, f := range pr.Raw[pkg] {
				jobs = append(jobs, printJob{"bundle with a .proto source: " + f.Path(), f, psb.Content})
			}
		}
		// options defined by a .proto of the bundle itself, holding maps of every key kind
		cob := customOptionBundle()
		cr := runConfig(cob, cfg.Seed, 0)
		for _, pkg := range cob.Packages {
			if et, bad := cr.Errs[pkg]; bad {
				res.Fail(vh.Failure{Case: caseNo, Stream: "print", Sig: "C14 custom-option bundle does not compile or print: " + errClass(et), Clause: "harness expectation", Input: cob.Content, Got: et})
			}
			for _, f := range cr.Raw[pkg] {
				jobs = append(jobs, printJob{"bundle with options defined in its own .proto (maps of every key kind): " + f.Path(), f, cob.Content})
			}
		}
		for bi, b := range bundles {
			for _, pkg := range b.Packages {
				for _, f := range all[bi].Runs[0].Raw[pkg] {
					jobs = append(jobs, printJob{fmt.Sprintf("bundle %d: %s", bi, f.Path()), f, b.Content})
				}
			}
		}
		type printOut struct {
			First string
			Diff  string
			Cls   string
			Pan   string
		}
		outs := parallel(len(jobs), "print", caseNo,
			func(i int) any { return jobs[i].Name },
			func(i int) printOut {
				var o printOut
				for k := 0; k < reps; k++ {
					txt, err, pan := safePrint(jobs[i].F)
					if pan != nil || err != nil {
						o.Pan = fmt.Sprintf("err=%v panic=%v", err, pan)
						return o
					}
					if k == 0 {
						o.First = txt
					} else if txt != o.First && o.Diff == "" {
						o.Cls, o.Diff = firstDiffClass(o.First, txt)
						o.Diff = fmt.Sprintf("print %d of %d: %s", k+1, reps, o.Diff)
					}
				}
				return o
			})
		for i, o := range outs {
			res.Count("print_job")
			in := map[string]any{"descriptor": jobs[i].Name, "prints": reps}
			if jobs[i].Files != nil {
				in["files"] = jobs[i].Files
			}
			if o.Pan != "" {
				res.Fail(vh.Failure{Case: caseNo, Stream: "print", Sig: "C14 printer fails: " + errClass(o.Pan), Clause: "printed text", Input: in, Got: o.Pan})
			} else if o.Diff != "" {
				res.Fail(vh.Failure{Case: caseNo, Stream: "print", Sig: "C14 printing the same descriptor repeatedly gives different text: " + o.Cls, Clause: "byte-identical printed .proto text", Input: in, Got: o.Diff})
			}
			// correspondence: the option blocks of the tie descriptor and of the .proto-source files
			if o.First != "" && (i == 0 || strings.HasPrefix(jobs[i].Name, "bundle with a .proto source")) {
				for _, ob := range optionBlocks(o.First) {
					sorted := append([]string{}, ob.Names...)
					sort.Sort(sort.Reverse(sort.StringSlice(sorted)))
					var pairs []string
					for _, n := range sorted {
						pairs = append(pairs, fmt.Sprintf("(%q, %q)", extOfPrinted(n), n))
					}
					if strings.HasSuffix(jobs[i].Name, ".proto") && !strings.HasSuffix(jobs[i].Name, ".j5s.proto") && i != 0 {
						continue // options of a parsed .proto carry source lines: printed in source order, not modelled
					}
					addCase(fmt.Sprintf("COptions %s [%s] %s", b2(ob.FieldLike), strings.Join(pairs, "; "), coqStrList(ob.Names)), "print", in, ob.Names)
					res.Count("case_options")
				}
			}
		}
		caseNo++
	}

	// ---- stream: package loading against the model's `load` (CLoad): the real PackageSet after compiling
	// under shuffled listings / call order vs the skeleton run on the implementation's own file summaries
	{
		nL := cfg.Scale(14, 80)
		if nL > nB {
			nL = nB
		}
		lobs := parallel(nL, "load", caseNo,
			func(i int) any { return map[string]any{"files": bundles[i].Content, "packages": bundles[i].Packages} },
			func(i int) loadObs { return observeLoad(bundles[i], cfg.Seed*104729+uint64(i)) })
		for i, lo := range lobs {
			in := map[string]any{"files": bundles[i].Content, "packages": bundles[i].Packages}
			if lo.Err != "" {
				if _, bad := all[i].Runs[0].Errs[bundles[i].Packages[0]]; !bad {
					res.Fail(vh.Failure{Case: caseNo, Stream: "load", Sig: "C14 compile outcome differs between configurations", Clause: "independent of listing order and call order", Input: in, Got: "baseline compiled; shuffled run: " + lo.Err})
				}
				continue
			}
			for _, pkg := range bundles[i].Packages {
				addCase(lo.caseTerm(pkg), "load", in, lo.Pkgs[pkg])
				res.Count("case_load")
				addCase(lo.linkTerm(pkg), "link", in, lo.Linked[pkg])
				res.Count("case_link")
			}
		}
		caseNo++
	}

	// ---- stream 2: the Dependency list of one-property files, against the ensureImport model
	rI := cfg.R.Fork("imports")
	props := isoMatrix(rI, false)
	nI := cfg.Scale(320, 3000)
	if nI > len(props) {
		nI = len(props)
	}
	props = shuffled(rI, props)[:nI]
	contents := make([]map[string]string, nI)
	for i := range props {
		contents[i] = props[i].Text()
	}
	type depObs struct {
		Ok   bool
		Deps []string
	}
	deps := parallel(nI, "imports", caseNo,
		func(i int) any { return map[string]any{"prop": props[i].Coq(), "files": contents[i]} },
		func(i int) depObs {
			c := compileOnce(contents[i], "foo.v1")
			if c.Err != nil || c.Panic != nil || c.TimedOut {
				return depObs{}
			}
			f := fileByPath(c.Files, mainProto)
			if f == nil {
				return depObs{}
			}
			return depObs{true, compile.ToProto(f).Dependency}
		})
	for i, p := range props {
		res.Count("imports")
		if deps[i].Ok {
			in := map[string]any{"prop": p.Coq(), "files": contents[i]}
			addCase(fmt.Sprintf("CImportsIso %s %q %s", p.Coq(), refFilePath, coqStrList(deps[i].Deps)), "imports", in, deps[i].Deps)
			res.Count("case_imports")
			if !sort.StringsAreSorted(deps[i].Deps) {
				res.Fail(vh.Failure{Case: caseNo, Stream: "imports", Sig: "C14 Dependency list of a generated file is not sorted", Clause: "imports kept sorted on insertion", Input: in, Got: deps[i].Deps})
			}
		}
		caseNo++
	}

	res.Evaluations = caseNo
	res.Distinct = len(distinct)
	const per = 450
	shards, err := cf.WriteShards(cfg.Out, "cases", per)
	if err != nil {
		return err
	}
	for i := range res.Cases {
		res.Cases[i].Shard = fmt.Sprintf("cases_%d", i/per)
		res.Cases[i].Pos = i % per
	}
	res.Shards = shards
	_ = proto.Marshal
	return res.Write(cfg.Out)
}

func b2(x bool) string { return vh.BoolTerm(x) }

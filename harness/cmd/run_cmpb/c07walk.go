package main

import (
	"fmt"
	"strings"
	"time"

	"github.com/pentops/j5/gen/j5/sourcedef/v1/sourcedef_j5pb"
	cmpb "github.com/pentops/j5/lib/verifshim/cmpb"

	"github.com/pentops/j5/lib/verifshim/bcl"
	"verifharness/vh"
)

// The walker stream of C07 (coq/model/CmpbWalk.v, CmpbWalkFile.v, CmpbWalkCorr.v): every text goes through the
// real j5parse.ParseFile; what came back is compared IN COQ with the Gallina walker run on the same bytes:
//   - a file: the whole SourceLocation tree (every path with its span) and, per top-level element, its kind and
//     size (properties / options / methods / messages) read from the real j5.sourcedef.v1.SourceFile;
//   - errors: parser stage or not, and the positions of the errors (a walker error is one span; protovalidate
//     violations a multiset of spans).

type walkObs struct {
	Panic      string
	HasFile    bool
	Locs       []cmpb.Loc
	Decls      [][2]int
	Entity     bool
	ErrPos     []cmpb.Pos
	FromParser bool
}

func declSummary(f *sourcedef_j5pb.SourceFile) (out [][2]int, entity bool) {
	for _, e := range f.Elements {
		switch t := e.Type.(type) {
		case *sourcedef_j5pb.RootElement_Object:
			out = append(out, [2]int{0, len(t.Object.GetDef().GetProperties())})
		case *sourcedef_j5pb.RootElement_Oneof:
			out = append(out, [2]int{1, len(t.Oneof.GetDef().GetProperties())})
		case *sourcedef_j5pb.RootElement_Enum:
			out = append(out, [2]int{2, len(t.Enum.GetOptions())})
		case *sourcedef_j5pb.RootElement_Service:
			out = append(out, [2]int{3, len(t.Service.GetMethods())})
		case *sourcedef_j5pb.RootElement_Topic:
			n := 0
			switch tt := t.Topic.GetType().GetType().(type) {
			case *sourcedef_j5pb.TopicType_Publish_:
				n = len(tt.Publish.GetMessages())
			case *sourcedef_j5pb.TopicType_Reqres:
				n = len(tt.Reqres.GetRequest()) + len(tt.Reqres.GetReply())
			case *sourcedef_j5pb.TopicType_Upsert_, *sourcedef_j5pb.TopicType_Event_:
				n = 1
			}
			out = append(out, [2]int{4, n})
		case *sourcedef_j5pb.RootElement_Entity:
			entity = true
		}
	}
	return out, entity
}

func observeWalkNow(src string) (o walkObs) {
	fe := frontEnd()
	defer func() { frontPool <- fe }()
	out, file := fe.ParseFull(mainFile, src)
	if out.Panic != nil {
		o.Panic = fmt.Sprint(out.Panic)
		return o
	}
	if out.Err != nil {
		o.ErrPos = cmpb.Positions(out.Err)
		pr := bcl.ParseFile(src, true)
		o.FromParser = pr.ErrKind != ""
		return o
	}
	o.HasFile = true
	o.Locs = out.Locs
	if file != nil {
		o.Decls, o.Entity = declSummary(file)
	}
	return o
}

func observeWalk(src string) walkObs {
	ch := make(chan walkObs, 1)
	go func() { ch <- observeWalkNow(src) }()
	select {
	case o := <-ch:
		return o
	case <-time.After(20 * time.Second):
		abortOnHang("front end (j5parse.ParseFile)", map[string]any{"files": map[string]string{mainFile: src}, "call": "walker stream"})
		return walkObs{Panic: "timeout"}
	}
}

func locEntriesCoq(ls []cmpb.Loc) string {
	parts := make([]string, len(ls))
	for i, l := range ls {
		parts[i] = fmt.Sprintf("(%s, %s)", pathCoq(l.Path), span4{int(l.StartLine), int(l.StartCol), int(l.EndLine), int(l.EndCol)}.coq())
	}
	return "[" + strings.Join(parts, "; ") + "]"
}

// runFull: every text compiled ALONE as the package foo.v1 (file foo/v1/a.j5s); CFull cases (see CmpbWalkCorr.v).
func runFull(cfg *vh.Config, res *vh.Result, caseNo *int, texts []string, how []string) (terms []string, recs []vh.CaseRec) {
	type fullObs struct {
		C compiled
	}
	var idx []int
	for i, src := range texts {
		if len(src) <= 2500 && !strings.HasPrefix(how[i], "j5sgen") {
			idx = append(idx, i)
		}
	}
	obs := parallel(len(idx), "full", *caseNo,
		func(k int) any { return map[string]any{"how": how[idx[k]], "source": texts[idx[k]]} },
		func(k int) fullObs {
			return fullObs{C: compileOnce(map[string]string{mainFile: texts[idx[k]]}, "foo.v1")}
		})
	for k, i := range idx {
		c := obs[k].C
		in := map[string]any{"how": how[i], "files": map[string]string{mainFile: texts[i]}, "call": "CompilePackage of the file alone"}
		res.Count("full")
		if c.TimedOut || c.Panic != nil {
			*caseNo++
			continue // judged by the other streams
		}
		accepted := c.Err == nil
		conv := false
		var sp []span4
		if c.Err != nil {
			conv = strings.Contains(c.Err.Error(), "convertJ5File")
			if conv {
				var all bool
				sp, all = errSpans(cmpb.Positions(c.Err))
				if !all {
					conv = false
				}
			}
		}
		if accepted {
			res.Count("full_accepted")
		} else if conv {
			res.Count("full_conversion_error")
		} else {
			res.Count("full_other_error")
		}
		terms = append(terms, fmt.Sprintf("CFull %s %s %s %s", vh.BytesTerm(texts[i]), b(accepted), b(conv), spansCoq(sp)))
		recs = append(recs, vh.CaseRec{Case: *caseNo, Stream: "full", Input: in, Impl: map[string]any{"accepted": accepted, "conversion_stage": conv, "positions": sp}})
		*caseNo++
	}
	return terms, recs
}

// runWalk emits one CWalk case per text (type cwalk_case).
func runWalk(cfg *vh.Config, res *vh.Result, caseNo *int, texts []string, how []string) (terms []string, recs []vh.CaseRec) {
	obs := parallel(len(texts), "walk", *caseNo,
		func(i int) any { return map[string]any{"how": how[i], "source": texts[i]} },
		func(i int) walkObs { return observeWalk(texts[i]) })
	for i, src := range texts {
		o := obs[i]
		in := map[string]any{"how": how[i], "files": map[string]string{mainFile: src}}
		res.Count("walk")
		switch {
		case o.Panic != "":
			res.Fail(vh.Failure{Case: *caseNo, Stream: "walk", Sig: "C07 front end (parse + walk): panic " + errClass(o.Panic), Clause: "never panics", Input: in, Got: o.Panic})
		case len(src) > 2500:
			res.Count("walk_skipped_long")
		case o.HasFile:
			res.Count("walk_file")
			if o.Entity {
				res.Count("walk_file_with_entity")
			}
			ds := make([]string, len(o.Decls))
			for j, d := range o.Decls {
				ds[j] = fmt.Sprintf("(%d, %d)", d[0], d[1])
			}
			terms = append(terms, fmt.Sprintf("CWalk %s (WObsFile %s [%s])", vh.BytesTerm(src), locEntriesCoq(o.Locs), strings.Join(ds, "; ")))
			recs = append(recs, vh.CaseRec{Case: *caseNo, Stream: "walk", Input: in, Impl: map[string]any{"locations": len(o.Locs), "declarations": o.Decls}})
		default:
			sp, all := errSpans(o.ErrPos)
			if !all {
				res.Count("walk_err_unpositioned")
				break
			}
			if o.FromParser {
				res.Count("walk_err_parser")
			} else {
				res.Count("walk_err_walker")
			}
			terms = append(terms, fmt.Sprintf("CWalk %s (WObsErrs %s %s)", vh.BytesTerm(src), b(o.FromParser), spansCoq(sp)))
			recs = append(recs, vh.CaseRec{Case: *caseNo, Stream: "walk", Input: in, Impl: map[string]any{"from_parser": o.FromParser, "errors": o.ErrPos}})
		}
		*caseNo++
	}
	return terms, recs
}

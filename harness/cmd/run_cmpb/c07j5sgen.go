package main

import (
	"fmt"
	"sort"
	"strings"

	cmpb "github.com/pentops/j5/lib/verifshim/cmpb"

	"verifharness/j5sgen"
	"verifharness/vh"
)

// Stream 10 of C07: the quantifier's "all valid packages of C02's generator". harness/j5sgen (the cmpa family's
// generator of valid multi-file, multi-package bundles: nesting, inline types, maps, enums, imports, services,
// topics, entities, hand-written .proto files) draws bundles; EVERY package of every bundle goes through
// CompilePackage on a fresh set: it must be accepted (never a panic or hang; a rejection is a failure with the
// bundle), and LintAll must not fail on it. The .j5s texts are returned so that the walker stream compares the
// Gallina walker with the real one on them too.
func runJ5sGen(cfg *vh.Config, res *vh.Result, caseNo *int, distinct vh.Distinct) (texts []string, how []string) {
	n := cfg.Scale(24, 300)
	type job struct {
		texts map[string]string
		pkgs  []string
	}
	var jobs []job
	for i := 0; i < n; i++ {
		r := cfg.R.Fork(fmt.Sprintf("c07-j5sgen-%d", i))
		gcfg := j5sgen.DefaultConfig()
		switch i % 4 {
		case 0:
			gcfg.Imports, gcfg.Services, gcfg.Topics, gcfg.PFiles, gcfg.MaxFiles = false, false, false, false, 1
		case 1:
			gcfg.PFiles = false
		}
		g := j5sgen.NewGen(r, gcfg)
		b, _ := g.Bundle()
		jobs = append(jobs, job{texts: b.Texts(r.Fork("print")), pkgs: b.Packages()})
	}
	type out struct {
		C   []compiled
		All linted
	}
	outs := parallel(len(jobs), "j5sgen", *caseNo,
		func(i int) any { return map[string]any{"files": jobs[i].texts, "packages": jobs[i].pkgs} },
		func(i int) out {
			var o out
			for _, p := range jobs[i].pkgs {
				o.C = append(o.C, compileOnce(jobs[i].texts, p))
			}
			o.All = lintAllOnce(jobs[i].texts)
			return o
		})
	for i, j := range jobs {
		distinct.Add("j5sgen:" + fmt.Sprint(j.texts))
		res.Count("j5sgen_bundle")
		allOK := true
		for pi, p := range j.pkgs {
			c := outs[i].C[pi]
			in := map[string]any{"files": j.texts, "package": p, "generator": "harness/j5sgen (C02)"}
			res.Count("j5sgen_package")
			switch {
			case c.TimedOut:
				allOK = false
				res.Fail(vh.Failure{Case: *caseNo, Stream: "j5sgen", Sig: "C07 j5sgen valid package: hang", Clause: "never hangs", Input: in, Got: "timeout"})
			case c.Panic != nil:
				allOK = false
				res.Fail(vh.Failure{Case: *caseNo, Stream: "j5sgen", Sig: "C07 j5sgen valid package: panic " + errClass(fmt.Sprint(c.Panic)), Clause: "never panics", Input: in, Got: fmt.Sprint(c.Panic)})
			case c.Err != nil:
				allOK = false
				res.Count("j5sgen_rejected")
				res.Fail(vh.Failure{Case: *caseNo, Stream: "j5sgen", Sig: "C07 j5sgen valid package: rejected (" + truncate(strings.TrimPrefix(errClass(c.Err.Error()), "loadPackage I: loadLocalPackage I: "), 60) + ")",
					Clause: "every package within the documented language is accepted and links", Input: in, Got: c.Err.Error()})
				checkPositions(res, *caseNo, "j5sgen", "package "+p, cmpb.Positions(c.Err), j.texts, "", in)
			default:
				res.Count("j5sgen_accepted")
			}
		}
		if l := outs[i].All; allOK {
			in := map[string]any{"files": j.texts, "call": "LintAll", "generator": "harness/j5sgen (C02)"}
			switch {
			case l.TimedOut:
				res.Fail(vh.Failure{Case: *caseNo, Stream: "j5sgen", Sig: "C07 j5sgen valid bundle: LintAll hangs", Clause: "never hangs (lint path)", Input: in, Got: "timeout"})
			case l.Panic != nil:
				res.Fail(vh.Failure{Case: *caseNo, Stream: "j5sgen", Sig: "C07 j5sgen valid bundle: LintAll panic " + errClass(fmt.Sprint(l.Panic)), Clause: "never panics (lint path)", Input: in, Got: fmt.Sprint(l.Panic)})
			case l.Err != nil:
				res.Fail(vh.Failure{Case: *caseNo, Stream: "j5sgen", Sig: "C07 j5sgen valid bundle: LintAll fails on a bundle that compiles (" + truncate(errClass(l.Err.Error()), 60) + ")", Clause: "every package within the documented language is accepted and links (lint path)", Input: in, Got: l.Err.Error()})
			}
		}
		var names []string
		for fn := range j.texts {
			if strings.HasSuffix(fn, ".j5s") {
				names = append(names, fn)
			}
		}
		sort.Strings(names)
		for _, fn := range names {
			texts = append(texts, j.texts[fn])
			how = append(how, "j5sgen "+fn)
		}
		*caseNo++
	}
	return texts, how
}

package main

import (
	"fmt"

	"buf.build/gen/go/bufbuild/protovalidate/protocolbuffers/go/buf/validate"
	"github.com/pentops/j5/gen/j5/ext/v1/ext_j5pb"
	"github.com/pentops/j5/gen/j5/list/v1/list_j5pb"
	"github.com/pentops/j5/gen/j5/messaging/v1/messaging_j5pb"
	"google.golang.org/genproto/googleapis/api/annotations"
	"google.golang.org/protobuf/proto"
	"google.golang.org/protobuf/reflect/protodesc"
	"google.golang.org/protobuf/reflect/protoreflect"
	"google.golang.org/protobuf/reflect/protoregistry"
	"google.golang.org/protobuf/types/descriptorpb"
)

// tieDescriptor builds (without source info, as everything the j5s converter emits) a file whose
// message, service and method carry several extensions defined at the SAME index of different files:
// (j5.ext.v1.psm), (buf.validate.message), (j5.list.v1.message) are all extension 0 of their files.
func tieDescriptor() (protoreflect.FileDescriptor, error) {
	str := func(s string) *string { return &s }
	mo := &descriptorpb.MessageOptions{}
	proto.SetExtension(mo, ext_j5pb.E_Psm, &ext_j5pb.PSMOptions{EntityName: "thing"})
	proto.SetExtension(mo, validate.E_Message, &validate.MessageConstraints{Disabled: proto.Bool(true)})
	proto.SetExtension(mo, list_j5pb.E_Message, &list_j5pb.MessageConstraint{})
	proto.SetExtension(mo, list_j5pb.E_ListRequest, &list_j5pb.ListRequestMessage{DefaultSort: []string{"a"}})
	proto.SetExtension(mo, ext_j5pb.E_Message, &ext_j5pb.MessageOptions{Type: &ext_j5pb.MessageOptions_Object{Object: &ext_j5pb.ObjectMessageOptions{}}})
	so := &descriptorpb.ServiceOptions{}
	proto.SetExtension(so, ext_j5pb.E_Service, &ext_j5pb.ServiceOptions{Audience: []string{"x"}})
	proto.SetExtension(so, messaging_j5pb.E_Service, &messaging_j5pb.ServiceConfig{TopicName: proto.String("t")})
	proto.SetExtension(so, annotations.E_DefaultHost, "example.com")
	proto.SetExtension(so, annotations.E_OauthScopes, "scope")
	me := &descriptorpb.MethodOptions{}
	proto.SetExtension(me, annotations.E_Http, &annotations.HttpRule{Pattern: &annotations.HttpRule_Get{Get: "/x"}})
	proto.SetExtension(me, ext_j5pb.E_Method, &ext_j5pb.MethodOptions{Label: "l"})
	proto.SetExtension(me, annotations.E_MethodSignature, []string{"a,b"})
	fo := &descriptorpb.FieldOptions{}
	proto.SetExtension(fo, validate.E_Field, &validate.FieldConstraints{Required: proto.Bool(true)})
	proto.SetExtension(fo, list_j5pb.E_Field, &list_j5pb.FieldConstraint{Type: &list_j5pb.FieldConstraint_Bool{Bool: &list_j5pb.BoolRules{}}})
	proto.SetExtension(fo, ext_j5pb.E_Field, &ext_j5pb.FieldOptions{Type: &ext_j5pb.FieldOptions_Bool{Bool: &ext_j5pb.BoolField{}}})
	fdp := &descriptorpb.FileDescriptorProto{
		Name:    str("tie/v1/tie.proto"),
		Package: str("tie.v1"),
		Syntax:  str("proto3"),
		Dependency: []string{
			"buf/validate/validate.proto", "google/api/annotations.proto", "google/api/client.proto",
			"j5/ext/v1/annotations.proto", "j5/list/v1/annotations.proto", "j5/messaging/v1/annotations.proto",
		},
		MessageType: []*descriptorpb.DescriptorProto{{
			Name:    str("M"),
			Options: mo,
			Field: []*descriptorpb.FieldDescriptorProto{{
				Name: str("b"), Number: proto.Int32(1), Type: descriptorpb.FieldDescriptorProto_TYPE_BOOL.Enum(),
				Label: descriptorpb.FieldDescriptorProto_LABEL_OPTIONAL.Enum(), JsonName: str("b"), Options: fo,
			}},
		}},
		Service: []*descriptorpb.ServiceDescriptorProto{{
			Name:    str("S"),
			Options: so,
			Method: []*descriptorpb.MethodDescriptorProto{{
				Name: str("Get"), InputType: str(".tie.v1.M"), OutputType: str(".tie.v1.M"), Options: me,
			}},
		}},
	}
	fd, err := protodesc.NewFile(fdp, protoregistry.GlobalFiles)
	if err != nil {
		return nil, fmt.Errorf("tie descriptor: %w", err)
	}
	return fd, nil
}

// protoSourceBundle: a bundle whose package holds a hand-written .proto file with several
// message/service/method options (single-field and aggregate spellings), next to a j5s file.
func protoSourceBundle() bundleT {
	return bundleT{
		Packages: []string{"foo.v1"},
		Content: map[string]string{
			"foo/v1/a.j5s": "package foo.v1\n\nobject Foo {\n  field bar object:Bar\n}\n",
			"foo/v1/b.proto": `syntax = "proto3";

package foo.v1;

import "buf/validate/validate.proto";
import "google/api/annotations.proto";
import "j5/ext/v1/annotations.proto";
import "j5/list/v1/annotations.proto";

message Bar {
  option (j5.ext.v1.psm).entity_name = "bar";
  option (j5.list.v1.message) = {};
  option (buf.validate.message).disabled = true;
  option (j5.ext.v1.message).object = {};
  string x = 1 [(buf.validate.field).required = true, (j5.list.v1.field).string.open_text.searching.searchable = true, (j5.ext.v1.field).string = {}];
}

message Baz {
  option (j5.ext.v1.psm) = {
    entity_name: "baz"
  };
  option (buf.validate.message) = {
    disabled: true
  };
  option (j5.list.v1.message) = {
  };
  string y = 1;
}

service BarService {
  option (j5.ext.v1.service).audience = "x";
  rpc Get(Bar) returns (Bar) {
    option (j5.ext.v1.method).label = "l";
    option (google.api.http) = {get: "/bar"};
  }
}
`,
		},
	}
}

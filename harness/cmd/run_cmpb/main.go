// run_cmpb: implementation runner for the compiler-b family (C07, C14).
package main

import "verifharness/vh"

func main() { vh.Main() }

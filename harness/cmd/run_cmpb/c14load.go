package main

import (
	"context"
	"fmt"
	"path"
	"regexp"
	"sort"
	"strings"

	"google.golang.org/protobuf/reflect/protoreflect"

	"github.com/pentops/j5/lib/verifshim/compile"
	"verifharness/vh"
)

// CLoad cases: what the real PackageSet holds after compiling a bundle under shuffled listings and
// call order (Exports, DirectDependencies, Files of each local package), next to the per-file
// summaries the implementation itself computed (the input of the model's `load`).

type loadFile struct {
	Name    string   // the file as named in exports (first produced file)
	Exports []string // exported type names
	Deps    []string // packages depended on
	Outputs []string // produced descriptor names
}

type loadPkgObs struct {
	Exports [][2]string
	Deps    []struct {
		Name    string
		Exports [][2]string
	}
	Files []string
}

type loadObs struct {
	Bundle map[string][]loadFile // package -> files (external packages: no files)
	Pkgs   map[string]loadPkgObs
	Err    string
	// the link phase (CLink)
	Prefixes []string            // sourceResolver.localPrefixes
	Owners   [][2]string         // local path -> packageForFile (re-implemented: splitPackage)
	Outs     map[string][]string // every file of every local package -> its Dependency list
	Exts     map[string][]string // every non-local file reached through imports -> its imports
	Linked   map[string][]linkedOut
}

type linkedOut struct {
	Path  string
	Count uint64 // files in the unfolding of the import tree: 1 + sum over imports
}

var reVersionSeg = regexp.MustCompile(`^v[0-9]+$`)

// splitPackage re-implements j5convert.SplitPackageFromFilename (the harness cannot import internal/...): the directory
// as a dotted name; "x.v1.service" -> "x.v1". "" when there is no version segment where the original expects one.
func splitPackage(filename string) string {
	pkg := pkgOfFile(filename)
	parts := strings.Split(pkg, ".")
	if len(parts) < 2 {
		return ""
	}
	if reVersionSeg.MatchString(parts[len(parts)-1]) {
		return pkg
	}
	if reVersionSeg.MatchString(parts[len(parts)-2]) {
		return strings.Join(parts[:len(parts)-1], ".")
	}
	return ""
}

func pkgOfFile(filename string) string {
	return strings.ReplaceAll(path.Dir(filename), "/", ".")
}

func observeLoad(b bundleT, seed uint64) (o loadObs) {
	defer func() {
		if r := recover(); r != nil {
			o.Err = fmt.Sprint("panic: ", r)
		}
	}()
	r := vh.NewRand(seed)
	files := &compile.Files{Content: b.Content, Packages: shuffled(r, b.Packages), Permute: func(in []string) []string { return shuffled(r, in) }}
	set, err := compile.NewSet(files, nil)
	if err != nil {
		o.Err = err.Error()
		return
	}
	returned := map[string][]protoreflect.FileDescriptor{}
	for _, pkg := range shuffled(r, b.Packages) {
		fs, err := set.CompilePackage(context.Background(), pkg)
		if err != nil {
			o.Err = err.Error()
			return
		}
		returned[pkg] = fs
	}
	o.observeLink(b, returned)
	o.Bundle = map[string][]loadFile{}
	o.Pkgs = map[string]loadPkgObs{}
	local := map[string]bool{}
	for _, p := range b.Packages {
		local[p] = true
	}
	for name, pkg := range set.PS.Packages {
		var lfs []loadFile
		for _, sf := range pkg.SourceFiles {
			sm := sf.Summary
			lf := loadFile{}
			if len(sm.ProducesFiles) > 0 {
				lf.Name = sm.ProducesFiles[0]
			} else {
				lf.Name = sm.SourceFilename
			}
			for k := range sm.Exports {
				lf.Exports = append(lf.Exports, k)
			}
			sort.Strings(lf.Exports)
			for _, td := range sm.TypeDependencies {
				lf.Deps = append(lf.Deps, td.Package)
			}
			for _, fd := range sm.FileDependencies {
				lf.Deps = append(lf.Deps, pkgOfFile(fd))
			}
			// the descriptors this source file really produced: the entries of pkg.Files that carry its summary
			// (FileSummary.ProducesFiles is not used: it misnames sub-package files, "b.j5s.p.j5s.proto")
			for k, res := range pkg.Files {
				if res.Summary == sm {
					lf.Outputs = append(lf.Outputs, k)
				}
			}
			sort.Strings(lf.Outputs)
			lfs = append(lfs, lf)
		}
		// canonical file order for the model: by name (the implementation saw a shuffled one)
		sort.Slice(lfs, func(i, j int) bool { return lfs[i].Name < lfs[j].Name })
		o.Bundle[name] = lfs
		if !local[name] {
			continue
		}
		var po loadPkgObs
		for k, v := range pkg.Exports {
			po.Exports = append(po.Exports, [2]string{k, v.File})
		}
		sort.Slice(po.Exports, func(i, j int) bool { return po.Exports[i][0] < po.Exports[j][0] })
		for dn, dp := range pkg.DirectDependencies {
			d := struct {
				Name    string
				Exports [][2]string
			}{Name: dn}
			for k, v := range dp.Exports {
				d.Exports = append(d.Exports, [2]string{k, v.File})
			}
			sort.Slice(d.Exports, func(i, j int) bool { return d.Exports[i][0] < d.Exports[j][0] })
			po.Deps = append(po.Deps, d)
		}
		sort.Slice(po.Deps, func(i, j int) bool { return po.Deps[i].Name < po.Deps[j].Name })
		for k := range pkg.Files {
			po.Files = append(po.Files, k)
		}
		sort.Strings(po.Files)
		o.Pkgs[name] = po
	}
	return
}

// observeLink reads the link phase off the linked descriptors CompilePackage returned.
func (o *loadObs) observeLink(b bundleT, returned map[string][]protoreflect.FileDescriptor) {
	for _, p := range b.Packages {
		o.Prefixes = append(o.Prefixes, strings.ReplaceAll(p, ".", "/")+"/")
	}
	isLocal := func(f string) bool {
		for _, p := range o.Prefixes {
			if strings.HasPrefix(f, p) {
				return true
			}
		}
		return false
	}
	o.Outs = map[string][]string{}
	o.Exts = map[string][]string{}
	o.Linked = map[string][]linkedOut{}
	owners := map[string]string{}
	counts := map[string]uint64{}
	var walk func(fd protoreflect.FileDescriptor) uint64
	walk = func(fd protoreflect.FileDescriptor) uint64 {
		if c, ok := counts[fd.Path()]; ok {
			return c
		}
		counts[fd.Path()] = 0
		var deps []string
		c := uint64(1)
		imps := fd.Imports()
		for i := 0; i < imps.Len(); i++ {
			imp := imps.Get(i)
			deps = append(deps, imp.Path())
			c += walk(imp.FileDescriptor)
		}
		counts[fd.Path()] = c
		if isLocal(fd.Path()) {
			o.Outs[fd.Path()] = deps
			owners[fd.Path()] = splitPackage(fd.Path())
		} else {
			o.Exts[fd.Path()] = deps
		}
		return c
	}
	for pkg, fs := range returned {
		for _, fd := range fs {
			o.Linked[pkg] = append(o.Linked[pkg], linkedOut{fd.Path(), walk(fd)})
		}
	}
	var ks []string
	for k := range owners {
		ks = append(ks, k)
	}
	sort.Strings(ks)
	for _, k := range ks {
		o.Owners = append(o.Owners, [2]string{k, owners[k]})
	}
}

func coqTable(m map[string][]string) string {
	var ks []string
	for k := range m {
		ks = append(ks, k)
	}
	sort.Strings(ks)
	var q []string
	for _, k := range ks {
		q = append(q, fmt.Sprintf("(%q, %s)", k, coqStrList(m[k])))
	}
	return "[" + strings.Join(q, "; ") + "]"
}

func (o loadObs) linkTerm(pkg string) string {
	var obs []string
	for _, l := range o.Linked[pkg] {
		obs = append(obs, fmt.Sprintf("(%q, %d)", l.Path, l.Count))
	}
	return fmt.Sprintf("CLink %s %q %s %s %s %s [%s]", o.bundleTerm(), pkg, coqStrList(o.Prefixes), coqPairs(o.Owners),
		coqTable(o.Outs), coqTable(o.Exts), strings.Join(obs, "; "))
}

func coqPairs(ps [][2]string) string {
	var q []string
	for _, p := range ps {
		q = append(q, fmt.Sprintf("(%q, %q)", p[0], p[1]))
	}
	return "[" + strings.Join(q, "; ") + "]"
}

func (o loadObs) bundleTerm() string {
	var names []string
	for n := range o.Bundle {
		names = append(names, n)
	}
	sort.Strings(names)
	var ps []string
	for _, n := range names {
		var fs []string
		for _, f := range o.Bundle[n] {
			fs = append(fs, fmt.Sprintf("(%q, %s, %s, %s)", f.Name, coqStrList(f.Exports), coqStrList(f.Deps), coqStrList(f.Outputs)))
		}
		ps = append(ps, fmt.Sprintf("(%q, [%s])", n, strings.Join(fs, "; ")))
	}
	return "[" + strings.Join(ps, "; ") + "]"
}

func (o loadObs) caseTerm(pkg string) string {
	po := o.Pkgs[pkg]
	var ds []string
	for _, d := range po.Deps {
		ds = append(ds, fmt.Sprintf("(%q, %s)", d.Name, coqPairs(d.Exports)))
	}
	return fmt.Sprintf("CLoad %s %q %s [%s] %s", o.bundleTerm(), pkg, coqPairs(po.Exports), strings.Join(ds, "; "), coqStrList(po.Files))
}

package main

import (
	"context"
	"fmt"
	"path"
	"sort"
	"strings"

	"github.com/pentops/j5/lib/verifshim/compile"
	"verifharness/vh"
)

// CLoad cases: what the real PackageSet holds after compiling a bundle under shuffled listings and
// call order (Exports, DirectDependencies, Files of each local package), next to the per-file
// summaries the implementation itself computed (the input of the model's `load`).

type loadFile struct {
	Name    string   // the file as named in exports (first produced file)
	Exports []string // exported type names
	Deps    []string // packages depended on
	Outputs []string // produced descriptor names
}

type loadPkgObs struct {
	Exports [][2]string
	Deps    []struct {
		Name    string
		Exports [][2]string
	}
	Files []string
}

type loadObs struct {
	Bundle map[string][]loadFile // package -> files (external packages: no files)
	Pkgs   map[string]loadPkgObs
	Err    string
}

func pkgOfFile(filename string) string {
	return strings.ReplaceAll(path.Dir(filename), "/", ".")
}

func observeLoad(b bundleT, seed uint64) (o loadObs) {
	defer func() {
		if r := recover(); r != nil {
			o.Err = fmt.Sprint("panic: ", r)
		}
	}()
	r := vh.NewRand(seed)
	files := &compile.Files{Content: b.Content, Packages: shuffled(r, b.Packages), Permute: func(in []string) []string { return shuffled(r, in) }}
	set, err := compile.NewSet(files, nil)
	if err != nil {
		o.Err = err.Error()
		return
	}
	for _, pkg := range shuffled(r, b.Packages) {
		if _, err := set.CompilePackage(context.Background(), pkg); err != nil {
			o.Err = err.Error()
			return
		}
	}
	o.Bundle = map[string][]loadFile{}
	o.Pkgs = map[string]loadPkgObs{}
	local := map[string]bool{}
	for _, p := range b.Packages {
		local[p] = true
	}
	for name, pkg := range set.PS.Packages {
		var lfs []loadFile
		for _, sf := range pkg.SourceFiles {
			sm := sf.Summary
			lf := loadFile{}
			if len(sm.ProducesFiles) > 0 {
				lf.Name = sm.ProducesFiles[0]
			} else {
				lf.Name = sm.SourceFilename
			}
			for k := range sm.Exports {
				lf.Exports = append(lf.Exports, k)
			}
			sort.Strings(lf.Exports)
			for _, td := range sm.TypeDependencies {
				lf.Deps = append(lf.Deps, td.Package)
			}
			for _, fd := range sm.FileDependencies {
				lf.Deps = append(lf.Deps, pkgOfFile(fd))
			}
			// the descriptors this source file really produced: the entries of pkg.Files that carry its summary
			// (FileSummary.ProducesFiles is not used: it misnames sub-package files, "b.j5s.p.j5s.proto")
			for k, res := range pkg.Files {
				if res.Summary == sm {
					lf.Outputs = append(lf.Outputs, k)
				}
			}
			sort.Strings(lf.Outputs)
			lfs = append(lfs, lf)
		}
		// canonical file order for the model: by name (the implementation saw a shuffled one)
		sort.Slice(lfs, func(i, j int) bool { return lfs[i].Name < lfs[j].Name })
		o.Bundle[name] = lfs
		if !local[name] {
			continue
		}
		var po loadPkgObs
		for k, v := range pkg.Exports {
			po.Exports = append(po.Exports, [2]string{k, v.File})
		}
		sort.Slice(po.Exports, func(i, j int) bool { return po.Exports[i][0] < po.Exports[j][0] })
		for dn, dp := range pkg.DirectDependencies {
			d := struct {
				Name    string
				Exports [][2]string
			}{Name: dn}
			for k, v := range dp.Exports {
				d.Exports = append(d.Exports, [2]string{k, v.File})
			}
			sort.Slice(d.Exports, func(i, j int) bool { return d.Exports[i][0] < d.Exports[j][0] })
			po.Deps = append(po.Deps, d)
		}
		sort.Slice(po.Deps, func(i, j int) bool { return po.Deps[i].Name < po.Deps[j].Name })
		for k := range pkg.Files {
			po.Files = append(po.Files, k)
		}
		sort.Strings(po.Files)
		o.Pkgs[name] = po
	}
	return
}

func coqPairs(ps [][2]string) string {
	var q []string
	for _, p := range ps {
		q = append(q, fmt.Sprintf("(%q, %q)", p[0], p[1]))
	}
	return "[" + strings.Join(q, "; ") + "]"
}

func (o loadObs) bundleTerm() string {
	var names []string
	for n := range o.Bundle {
		names = append(names, n)
	}
	sort.Strings(names)
	var ps []string
	for _, n := range names {
		var fs []string
		for _, f := range o.Bundle[n] {
			fs = append(fs, fmt.Sprintf("(%q, %s, %s, %s)", f.Name, coqStrList(f.Exports), coqStrList(f.Deps), coqStrList(f.Outputs)))
		}
		ps = append(ps, fmt.Sprintf("(%q, [%s])", n, strings.Join(fs, "; ")))
	}
	return "[" + strings.Join(ps, "; ") + "]"
}

func (o loadObs) caseTerm(pkg string) string {
	po := o.Pkgs[pkg]
	var ds []string
	for _, d := range po.Deps {
		ds = append(ds, fmt.Sprintf("(%q, %s)", d.Name, coqPairs(d.Exports)))
	}
	return fmt.Sprintf("CLoad %s %q %s [%s] %s", o.bundleTerm(), pkg, coqPairs(po.Exports), strings.Join(ds, "; "), coqStrList(po.Files))
}

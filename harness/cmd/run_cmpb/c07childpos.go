package main

import (
	"fmt"
	"strconv"
	"strings"

	"github.com/pentops/j5/lib/verifshim/cmpb"
	"verifharness/vh"
)

// CChildPos cases: conversion errors below declarations the converter model keeps abstract — a property of a service
// method's request / response, a field of a topic message. These are the NON-virtual contexts of sourcewalk (below a root
// object everything is virtual and sits on the `object` keyword): the walker records a node for every part of the path, so
// the error must sit exactly on the type reference. One unknown type reference per file; the SourceNode path is built
// here the way service.go / topic.go / schema.go mapProperties / property.go build it.

type childPosCase struct {
	Name string
	Src  string
	Path []string
}

func childPosCases() []childPosCase {
	var out []childPosCase
	wrappers := []struct {
		text string
		path []string
	}{
		{"", nil},
		{"array:", []string{"array", "items"}},
		{"map:", []string{"map", "itemSchema"}},
	}
	kinds := []string{"object", "oneof", "enum"}
	for lead := 0; lead < 2; lead++ { // an enum declaration before the service / topic: element index 1
		hdr := "package foo.v1\n\n"
		if lead == 1 {
			hdr += "enum Kind {\n  option A\n  option B\n}\n\n"
		}
		for _, w := range wrappers {
			for _, k := range kinds {
				bad := "field bad " + w.text + k + ":Nope\n"
				tail := append(append([]string{"schema"}, w.path...), k, "ref")
				for mj := 0; mj < 2; mj++ {
					for _, which := range []string{"request", "response"} {
						for pk := 0; pk < 2; pk++ {
							var sb strings.Builder
							sb.WriteString(hdr + "service Foo {\n  basePath = \"/foo\"\n")
							if mj == 1 {
								sb.WriteString("  method First {\n    httpMethod = GET\n    httpPath = \"/first\"\n    request {\n    }\n    response {\n      field ok bool\n    }\n  }\n")
							}
							sb.WriteString("  method Get {\n    httpMethod = POST\n    httpPath = \"/x\"\n")
							for _, part := range []string{"request", "response"} {
								sb.WriteString("    " + part + " {\n")
								if part == which {
									if pk == 1 {
										sb.WriteString("      field ok string\n")
									}
									sb.WriteString("      " + bad)
								} else {
									sb.WriteString("      field fine string\n")
								}
								sb.WriteString("    }\n")
							}
							sb.WriteString("  }\n}\n")
							p := []string{"elements", strconv.Itoa(lead), "service", "methods", strconv.Itoa(mj), which, "properties", strconv.Itoa(pk)}
							out = append(out, childPosCase{
								Name: fmt.Sprintf("service %s %s%s method %d property %d lead %d", which, w.text, k, mj, pk, lead),
								Src:  sb.String(), Path: append(p, tail...)})
						}
					}
				}
				// topic publish: messages.j.<k> (mapProperties is not used there: no "fields" segment in the SourceNode path,
				// so the node is not found below the message and the error sits on the message)
				for mj := 0; mj < 2; mj++ {
					for pk := 0; pk < 2; pk++ {
						var sb strings.Builder
						sb.WriteString(hdr + "topic Foo publish {\n")
						if mj == 1 {
							sb.WriteString("  message First {\n    field ok string\n  }\n")
						}
						sb.WriteString("  message Bar {\n")
						if pk == 1 {
							sb.WriteString("    field ok string\n")
						}
						sb.WriteString("    " + bad + "  }\n}\n")
						p := []string{"elements", strconv.Itoa(lead), "topic", "type", "publish", "messages", strconv.Itoa(mj), strconv.Itoa(pk)}
						out = append(out, childPosCase{
							Name: fmt.Sprintf("topic message %s%s message %d field %d lead %d", w.text, k, mj, pk, lead),
							Src:  sb.String(), Path: append(p, tail...)})
					}
				}
			}
		}
	}
	return out
}

func runChildPos(cfg *vh.Config, res *vh.Result, caseNo *int) (terms []string, recs []vh.CaseRec) {
	all := childPosCases()
	// quick: a seed-dependent third
	var cs []childPosCase
	for i, c := range all {
		if cfg.Tier == "thorough" || i%3 == int(cfg.Seed%3) {
			cs = append(cs, c)
		}
	}
	type obsT struct {
		Front frontObs
		Pos   []cmpb.Pos
		Err   string
		Bad   string
	}
	obs := parallel(len(cs), "childpos", *caseNo,
		func(i int) any { return map[string]any{"files": map[string]string{mainFile: cs[i].Src}} },
		func(i int) obsT {
			var o obsT
			o.Front = observeFront(cs[i].Src)
			c := compileOnce(map[string]string{mainFile: cs[i].Src}, "foo.v1")
			switch {
			case c.TimedOut:
				o.Bad = "timeout"
			case c.Panic != nil:
				o.Bad = fmt.Sprint("panic: ", c.Panic)
			case c.Err != nil:
				o.Err = c.Err.Error()
				o.Pos = cmpb.Positions(c.Err)
			}
			return o
		})
	for i, c := range cs {
		o := obs[i]
		in := map[string]any{"class": "child position: " + c.Name, "files": map[string]string{mainFile: c.Src}}
		res.Count("childpos")
		switch {
		case o.Bad != "" || o.Front.Panic != "":
			// panics / hangs are judged by the other streams' oracles on the same call; here only the tie
			res.Count("childpos_skipped")
		case !o.Front.HasFile || o.Err == "" || len(o.Pos) != 1 || !strings.Contains(o.Err, "Nope not found"):
			res.Fail(vh.Failure{Case: *caseNo, Stream: "childpos", Sig: "C07 child position stream: unexpected outcome",
				Clause: "tie: a file with one unknown type reference yields one conversion error", Input: in,
				Got: fmt.Sprintf("front ok=%v err=%q positions=%d", o.Front.HasFile, o.Err, len(o.Pos))})
		default:
			sp, _ := errSpans(o.Pos)
			terms = append(terms, fmt.Sprintf("CChildPos %s [%s] %s", locTreeCoq(o.Front.Locs), pathCoq(c.Path), spansCoq(sp)))
			recs = append(recs, vh.CaseRec{Case: *caseNo, Stream: "childpos", Input: in, Impl: map[string]any{"path": strings.Join(c.Path, "."), "position": o.Pos}})
			res.Count("case_childpos")
		}
		*caseNo++
	}
	return terms, recs
}

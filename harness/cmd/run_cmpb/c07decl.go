package main

import (
	"context"
	"fmt"
	"strings"

	"github.com/pentops/j5/lib/verifshim/compile"
	"google.golang.org/protobuf/reflect/protoreflect"
	"verifharness/vh"
)

type declCase struct {
	Name     string
	Pkg      string
	Main     string
	Files    map[string]string
	MustFail bool
}

func one(name, body string) declCase {
	return declCase{Name: name, Pkg: "foo.v1", Main: mainFile, Files: map[string]string{mainFile: "package foo.v1\n\n" + body}}
}

func safePrint(f protoreflect.FileDescriptor) (s string, err error, pan any) {
	defer func() {
		if r := recover(); r != nil {
			pan = r
		}
	}()
	s, err = compile.PrintFile(context.Background(), f)
	return
}

// declMatrix: every kind of declaration of the documented language (README: objects, oneofs, enums
// with info, nested schemas, imports, services, topics, entities), each alone in its file.
func declMatrix() []declCase {
	var out []declCase
	add := func(name, body string) { out = append(out, one(name, body)) }
	add("empty file", "")
	add("object empty", "object Foo {\n}\n")
	add("object description", "object Foo {\n  | A foo\n  | second line\n\n  field name string | the name\n}\n")
	add("oneof", "oneof Foo {\n  option bar object {\n    field barId key:id62\n  }\n  option baz object {\n    field bazId key:id62\n  }\n}\n")
	add("enum", "enum Status {\n  option ACTIVE\n  option INACTIVE\n}\n")
	add("enum explicit unspecified", "enum Status {\n  option UNSPECIFIED | Initial Status\n  option ACTIVE\n}\n")
	add("enum prefix", "enum Status {\n  prefix = \"ST_\"\n  option ACTIVE\n}\n")
	// enum value names with and without the enum's prefix (default prefix = the enum's name in upper snake case; explicit
	// `prefix`): options and the values of rules.in / rules.notIn may be written either way
	add("enum rule values written with the default prefix", "enum Status {\n  option ACTIVE\n  option INACTIVE\n}\n\nobject Foo {\n  field s enum:Status {\n    rules.in = [\"STATUS_ACTIVE\"]\n  }\n  field t enum:Status {\n    rules.notIn = [\"STATUS_INACTIVE\", \"ACTIVE\"]\n  }\n  field ts array:enum:Status {\n    items.enum.rules.in = [\"STATUS_INACTIVE\"]\n  }\n}\n")
	add("enum rule values written with an explicit prefix", "enum Status {\n  prefix = \"ST_\"\n  option ACTIVE\n  option INACTIVE\n}\n\nobject Foo {\n  field s enum:Status {\n    rules.in = [\"ST_ACTIVE\", \"INACTIVE\"]\n  }\n}\n")
	add("enum options written with the prefix", "enum Status {\n  option STATUS_UNSPECIFIED\n  option STATUS_ACTIVE\n  option INACTIVE\n}\n\nobject Foo {\n  field s enum:Status {\n    rules.in = [\"ACTIVE\", \"STATUS_INACTIVE\"]\n  }\n}\n")
	add("inline enum rule values written with the prefix", "object Foo {\n  field kind enum {\n    option A\n    option B\n    rules.in = [\"KIND_B\", \"A\"]\n  }\n}\n")
	add("enum empty", "enum Status {\n}\n")
	add("enum info fields", "enum Status {\n  info color {\n    label = \"Color\"\n    description = \"the colour\"\n  }\n  option ACTIVE\n}\n")
	add("enum option info", "enum Status {\n  option ACTIVE {\n    info.color = \"red\"\n  }\n}\n")
	add("enum info fields and option info", "enum Status {\n  info color {\n    label = \"Color\"\n  }\n  info shape {\n    label = \"Shape\"\n  }\n  option ACTIVE {\n    info.color = \"red\"\n    info.shape = \"round\"\n  }\n  option INACTIVE {\n    info.color = \"blue\"\n  }\n}\n")
	// a description on every kind of node that takes one (each becomes a SourceCodeInfo location of the generated file)
	add("descriptions on every node kind", "object Foo {\n  | A foo\n  | second line\n\n  field name string | the name\n  field kind enum {\n    | inline kind\n    option A | option a\n    option B {\n      | option b\n    }\n  }\n  field inner object {\n    | inline inner\n    field x string | x of inner\n  }\n}\n\noneof Choice {\n  | A choice\n  option a object {\n    | option a\n    field y string | y of a\n  }\n}\n\nenum Status {\n  | A status\n  option ACTIVE | is active\n  option INACTIVE {\n    | is not\n  }\n}\n\nservice Foo {\n  | The foo service\n  basePath = \"/foo/v1\"\n  method GetFoo {\n    | gets a foo\n    httpMethod = \"GET\"\n    httpPath = \"/foo/:id\"\n    request {\n      field id string | the id\n    }\n    response {\n      field name string | the name\n    }\n  }\n}\n\ntopic Bar publish {\n  | The bar topic\n  message PostBar {\n    | posts a bar\n    field barId key:id62 | the bar\n  }\n}\n")
	add("protobuf keywords as names", "object Message {\n  field package string\n  field option string\n  field import string\n  field syntax string\n  field message object {\n    field repeated bool\n    field optional string\n    field map map:string\n  }\n  field service enum {\n    option RPC\n    option STREAM\n    option RETURNS\n  }\n}\n\nenum Enum {\n  option MESSAGE\n  option ONEOF\n}\n\noneof Oneof {\n  option extend object {\n    field reserved string\n  }\n}\n")
	add("object nested object", "object Foo {\n  field x string\n\n  object Bar {\n    field x string\n  }\n}\n")
	add("README inline array example", "object Foo {\n  field bars array {\n    field barId key:id62\n  }\n}\n")
	add("object inline named", "object Foo {\n  field bars array:object {\n    object.name = \"Bar\"\n    field barId key:id62\n  }\n}\n")
	add("object inline depth 3", "object Foo {\n  field a object {\n    field b object {\n      field c oneof {\n        option d object {\n          field e enum {\n            option X\n          }\n        }\n      }\n    }\n  }\n}\n")
	add("object anyMember", "object Foo {\n  anyMember = [\"foo\"]\n  field x string\n}\n")
	add("object entity part", "object FooKeys {\n  entity.entity = \"Foo\"\n  entity.part = \"KEYS\"\n  field fooId key:id62\n}\n")
	// parts of the schema the converter ignores (proofs/CmpbSchemaProofs.v ignored_by_converter): accepted all the same
	add("key rules", "object Foo {\n  field k key:id62 {\n    rules {\n    }\n  }\n}\n")
	add("string format", "object Foo {\n  field s string {\n    format = \"email\"\n  }\n}\n")
	add("map ext and rules", "object Foo {\n  field m map:string {\n    ext.singleForm = \"pair\"\n    rules.minPairs = 1\n    rules.maxPairs = 3\n  }\n}\n")
	add("decimal and date ext", "object Foo {\n  field d decimal {\n    ext {\n    }\n  }\n  field t date {\n    ext {\n    }\n  }\n}\n")
	// timestamp bounds (schema.proto TimestampField.Rules.minimum / maximum are google.protobuf.Timestamp): a rule kind of the schema language
	add("timestamp rules minimum", "object Foo {\n  field t timestamp {\n    rules.minimum = \"2020-01-01T00:00:00Z\"\n  }\n}\n")
	add("timestamp rules maximum exclusive", "object Foo {\n  field t timestamp {\n    rules.maximum = \"2030-01-01T00:00:00Z\"\n    rules.exclusiveMaximum = true\n  }\n}\n")
	add("service", "service Foo {\n  basePath = \"/foo/v1\"\n  method Bar {\n    httpMethod = \"GET\"\n    httpPath = \"/bar/:id\"\n    request {\n      field id string\n    }\n    response {\n      field name string\n    }\n  }\n}\n")
	for _, m := range []string{"GET", "POST", "PUT", "PATCH", "DELETE"} {
		add("service method "+m, fmt.Sprintf("service Foo {\n  basePath = \"/foo/v1\"\n  method Bar {\n    httpMethod = %q\n    httpPath = \"/bar\"\n    request {\n    }\n    response {\n      field name string\n    }\n  }\n}\n", m))
	}
	add("service raw response", "service Foo {\n  basePath = \"/foo/v1\"\n  method Bar {\n    httpMethod = \"GET\"\n    httpPath = \"/bar\"\n    request {\n    }\n  }\n}\n")
	add("service options", "service Foo {\n  basePath = \"/foo/v1\"\n  options.audience = [\"x\"]\n  method Bar {\n    httpMethod = \"GET\"\n    httpPath = \"/bar\"\n    request {\n    }\n  }\n}\n")
	add("service method options", "service Foo {\n  basePath = \"/foo/v1\"\n  method Bar {\n    httpMethod = \"GET\"\n    httpPath = \"/bar\"\n    options.label = \"x\"\n    request {\n    }\n  }\n}\n")
	add("service method listRequest", "service Foo {\n  basePath = \"/foo/v1\"\n  method Bar {\n    httpMethod = \"GET\"\n    httpPath = \"/bar\"\n    listRequest.defaultSort = [\"name\"]\n    request {\n    }\n    response {\n      field name string\n    }\n  }\n}\n")
	add("service without methods", "service Foo {\n  basePath = \"/foo/v1\"\n}\n")
	add("topic publish", "topic Foo publish {\n  message PostFoo {\n    field fooId key:id62\n  }\n}\n")
	add("topic publish empty", "topic Foo publish {\n}\n")
	add("topic reqres", "topic Foo reqres {\n  request {\n    field fooId key:id62\n  }\n  reply {\n    field name string\n  }\n}\n")
	add("topic reqres empty", "topic Foo reqres {\n}\n")
	add("topic upsert", "topic Foo upsert {\n  message UpsertFoo {\n    field fooId key:id62\n  }\n}\n")
	add("entity minimal", "entity Foo {\n  key fooId key:id62 {\n    primary = true\n  }\n  status ACTIVE\n}\n")
	add("entity readme", "entity Foo {\n  | Foo is lorem ipsum\n\n  key fooId key:id62 {\n    primary = true\n  }\n\n  data name string\n\n  status ACTIVE\n  status INACTIVE\n\n  event Create {\n    field name string\n  }\n\n  event Archive {\n  }\n}\n")
	add("entity tenant and summary", "entity Foo {\n  key fooId key:id62 {\n    primary = true\n  }\n  key accountId key:id62 {\n    primary = false\n    tenant = \"account\"\n  }\n  data name string\n  status ACTIVE\n  event Create {\n    field name string\n  }\n  summary {\n    field name string\n  }\n}\n")
	// entity key classifications (sourcedef EntityKey: primary / shardKey / tenant): the generated query service takes its
	// URL parameters and its request fields from the same classification
	add("entity shard key that is not primary", "entity Foo {\n  key fooId key:id62 {\n    primary = true\n  }\n  key tenantId key:id62 {\n    shardKey = true\n    tenant = \"tenant\"\n  }\n  data name string\n  status ACTIVE\n  event Create {\n    field name string\n  }\n}\n")
	add("entity shard key that is also primary", "entity Foo {\n  key fooId key:id62 {\n    primary = true\n  }\n  key regionId key:id62 {\n    primary = true\n    shardKey = true\n  }\n  data name string\n  status ACTIVE\n  event Create {\n    field name string\n  }\n}\n")
	add("entity primary, shard, tenant and plain keys", "entity Foo {\n  key fooId key:id62 {\n    primary = true\n  }\n  key shardId key:id62 {\n    shardKey = true\n  }\n  key accountId key:id62 {\n    tenant = \"account\"\n  }\n  key otherId key:id62\n  key createdAt timestamp\n  data name string\n  status ACTIVE\n  status INACTIVE\n  event Create {\n    field name string\n  }\n  query {\n    eventsInGet = true\n  }\n}\n")
	add("entity query listRequest", "entity Foo {\n  key fooId key:id62 {\n    primary = true\n  }\n  data name string\n  status ACTIVE\n  event Create {\n    field name string\n  }\n  query.listRequest.defaultSort = [\"name\"]\n}\n")
	// services / topics whose generated sub-package file imports the main file of the same source (request, response and
	// message fields referring to an object, a oneof and an enum declared next to the service): several output files
	// that depend on each other, through CompilePackage, LintFile and LintAll
	add("service referring to types of its own file", "object Bar {\n  field x string\n}\n\noneof Choice {\n  option a object {\n    field y string\n  }\n}\n\nenum Kind {\n  option A\n  option B\n}\n\nservice Foo {\n  basePath = \"/foo/v1\"\n  method GetBar {\n    httpMethod = \"POST\"\n    httpPath = \"/bar\"\n    request {\n      field kind enum:Kind {\n        rules.in = [\"B\"]\n      }\n      field choice oneof:Choice\n    }\n    response {\n      field bar object:Bar\n      field bars array:object:Bar\n    }\n  }\n}\n")
	add("topic referring to types of its own file", "object Bar {\n  field x string\n}\n\nenum Kind {\n  option A\n}\n\ntopic Foo publish {\n  message PostFoo {\n    field bar object:Bar\n    field kind enum:Kind\n  }\n}\n\ntopic Baz reqres {\n  request {\n    field bar object:Bar\n  }\n  reply {\n    field kind enum:Kind\n  }\n}\n")
	add("entity and service in one file", "entity Foo {\n  key fooId key:id62 {\n    primary = true\n  }\n  data name string\n  status ACTIVE\n  event Create {\n    field name string\n  }\n}\n\nservice FooExtra {\n  basePath = \"/foo/v1/extra\"\n  method GetFooState {\n    httpMethod = \"GET\"\n    httpPath = \"/state/:fooId\"\n    request {\n      field fooId key:id62\n    }\n    response {\n      field state object:FooState\n      field keys object:FooKeys\n    }\n  }\n}\n")
	// an inline type named like the message that holds it (field `foo` of `object Foo` -> Foo.Foo): j5convert writes
	// inline type names relative to the package, the link step resolves relative names from the innermost scope
	// (qualifyTypeNames, at both the compile and the lint call site), in main and in generated sub-package files
	add("inline object named like its root object", "object Foo {\n  field foo object {\n    field x string\n  }\n}\n")
	add("inline types next to one named like the root", "object Foo {\n  field foo object {\n    field x string\n    field foo object {\n      field y string\n    }\n  }\n  field bar object {\n    field y string\n  }\n  field kind enum {\n    option A\n  }\n  field m map:string\n  field ms map:object {\n    field z string\n  }\n  field bars array:object {\n    field w string\n  }\n}\n")
	add("inline enum named like its root object", "object Foo {\n  field foo enum {\n    option A\n    option B\n  }\n  field other object {\n    field x string\n  }\n}\n")
	add("inline object named like its root oneof", "oneof Foo {\n  option foo object {\n    field x string\n  }\n  option bar object {\n    field y string\n  }\n}\n")
	add("inline object named like the request message", "service Foo {\n  basePath = \"/foo/v1\"\n  method GetFoo {\n    httpMethod = \"POST\"\n    httpPath = \"/foo\"\n    request {\n      field getFooRequest object {\n        field x string\n      }\n      field other object {\n        field y string\n      }\n    }\n    response {\n      field getFooResponse object {\n        field z string\n      }\n      field m map:string\n    }\n  }\n}\n")
	add("inline object named like the topic message", "topic Foo publish {\n  message PostFoo {\n    field postFoo object {\n      field x string\n    }\n    field other object {\n      field y string\n    }\n  }\n}\n")
	add("entity event field named like the event", "entity Foo {\n  key fooId key:id62 {\n    primary = true\n  }\n  data fooData object {\n    field x string\n  }\n  status ACTIVE\n  event Create {\n    field create object {\n      field name string\n    }\n  }\n}\n")
	// integer rule values that need more than 32 bits (schema.proto IntegerField.Rules minimum / maximum / multiple_of are
	// int64): literals at and beyond 2^31 and 2^32, up to the largest int64, for every format they are in range for
	add("integer INT64 rules beyond 32 bits", "object Foo {\n  field a integer:INT64 {\n    rules.minimum = 2147483648\n    rules.maximum = 5000000000\n  }\n  field b integer:INT64 {\n    rules.minimum = 1000000000000\n    rules.maximum = 9223372036854775807\n  }\n  field c integer:INT64 {\n    rules.maximum = 4294967296\n    rules.exclusiveMaximum = true\n  }\n}\n")
	add("integer UINT32 and UINT64 rules beyond 31 bits", "object Foo {\n  field a integer:UINT32 {\n    rules.minimum = 2147483648\n    rules.maximum = 4294967295\n  }\n  field b integer:UINT64 {\n    rules.minimum = 4294967296\n    rules.maximum = 9223372036854775807\n  }\n}\n")
	add("integer INT32 rules at the 32 bit limit", "object Foo {\n  field a integer:INT32 {\n    rules.minimum = 0\n    rules.maximum = 2147483647\n  }\n}\n")
	// schema.proto IntegerField.Rules.multiple_of: since /repo c0895b5 a compile error "multipleOf is not implemented" (it was
	// silently dropped before): a rule of the schema language that is not accepted, with a signature of its own
	add("integer rules multipleOf", "object Foo {\n  field a integer:INT32 {\n    rules.multipleOf = 5\n  }\n}\n")
	add("integer INT64 rules beyond 32 bits in array and map items", "object Foo {\n  field a array:integer:INT64 {\n    items.integer.rules.maximum = 5000000000\n  }\n  field m map:integer:INT64 {\n    itemSchema.integer.rules.minimum = 5000000000\n  }\n}\n")
	add("unsigned 64 bit schema fields beyond 32 bits", "object Foo {\n  field s string {\n    rules.minLength = 1\n    rules.maxLength = 5000000000\n  }\n  field xs array:string {\n    rules.maxItems = 4294967296\n  }\n}\n")
	add("entity nested schemas", "entity Foo {\n  key fooId key:id62 {\n    primary = true\n  }\n  data kind enum:Kind\n  data part object:Part\n  status ACTIVE\n  event Create {\n    field part object:Part\n  }\n  enum Kind {\n    option A\n  }\n  object Part {\n    field x string\n  }\n}\n")
	// imports
	out = append(out, declCase{Name: "import package", Pkg: "foo.v1", Main: mainFile, Files: map[string]string{
		mainFile:          "package foo.v1\n\nimport baz.v1:baz\n\nobject Foo {\n  field bar object:baz.Bar\n  field k enum:baz.Kind\n}\n",
		"baz/v1/types.j5s": "package baz.v1\n\nobject Bar {\n  field x string\n}\n\nenum Kind {\n  option A\n}\n",
	}})
	out = append(out, declCase{Name: "import package no alias", Pkg: "foo.v1", Main: mainFile, Files: map[string]string{
		mainFile:          "package foo.v1\n\nimport baz.v1\n\nobject Foo {\n  field bar object:baz.Bar\n}\n",
		"baz/v1/types.j5s": "package baz.v1\n\nobject Bar {\n  field x string\n}\n",
	}})
	// import matrix (README "Packages and Imports": an import brings the package into scope "by either the package
	// name ('bar' not 'v1') or by the alias name"): imported package of 2, 3 and 4 name parts (the README's own
	// examples are foo.bar.v1 / foo.baz.v1) x importing package of 2 and 3 parts x without / with alias x
	// every reference position (object, array item, map item, oneof, enum with rules)
	for _, imported := range []string{"baz.v1", "foo.baz.v1", "acme.billing.invoice.v1", "foo.v1.inner.v1"} {
		parts := strings.Split(imported, ".")
		short := parts[len(parts)-2]
		impDir := strings.ReplaceAll(imported, ".", "/")
		for _, own := range []string{"foo.v1", "foo.bar.v1"} {
			ownDir := strings.ReplaceAll(own, ".", "/")
			for _, form := range []string{"by package name", "alias", "alias equal to the name"} {
				imp, pre := "import "+imported, short
				switch form {
				case "alias":
					imp, pre = "import "+imported+":other", "other"
				case "alias equal to the name":
					imp = "import " + imported + ":" + short
				}
				body := fmt.Sprintf("package %s\n\n%s\n\nobject Foo {\n  field bar object:%s.Bar\n  field bars array:object:%s.Bar\n  field barMap map:object:%s.Bar\n  field choice oneof:%s.Choice\n  field k enum:%s.Kind {\n    rules.in = [\"B\"]\n  }\n  field ks array:enum:%s.Kind\n}\n", own, imp, pre, pre, pre, pre, pre, pre)
				out = append(out, declCase{Name: fmt.Sprintf("import %s into %s %s", imported, own, form), Pkg: own, Main: ownDir + "/a.j5s", Files: map[string]string{
					ownDir + "/a.j5s":     body,
					impDir + "/types.j5s": "package " + imported + "\n\nobject Bar {\n  field x string\n}\n\noneof Choice {\n  option a object {\n    field y string\n  }\n}\n\nenum Kind {\n  option A\n  option B\n}\n",
				}})
			}
		}
	}
	// one source whose generated files (main, service sub-package, topic sub-package) ALL refer to the same types of another
	// package: every generated file needs the import of its own (the three file contexts share one root context)
	{
		bazTypes := "package baz.v1\n\nobject Bar {\n  field x string\n}\n\noneof Choice {\n  option a object {\n    field y string\n  }\n}\n\nenum Kind {\n  option A\n  option B\n}\n"
		obj := "object Foo {\n  field bar object:%[1]s.Bar\n  field kind enum:%[1]s.Kind\n}\n\n"
		svc := "service FooService {\n  basePath = \"/foo/v1\"\n  method GetFoo {\n    httpMethod = \"POST\"\n    httpPath = \"/foo\"\n    request {\n      field bar object:%[1]s.Bar\n      field choice oneof:%[1]s.Choice\n    }\n    response {\n      field bars array:object:%[1]s.Bar\n      field kind enum:%[1]s.Kind {\n        rules.in = [\"B\"]\n      }\n    }\n  }\n}\n\n"
		top := "topic FooTopic publish {\n  message PostFoo {\n    field bar object:%[1]s.Bar\n    field kind enum:%[1]s.Kind\n  }\n}\n\n"
		for _, v := range []struct{ name, imp, pre, body string }{
			{"main, service and topic", "import baz.v1:baz", "baz", obj + svc + top},
			{"service and topic only", "import baz.v1:baz", "baz", svc + top},
			{"topic before service before main", "import baz.v1:other", "other", top + svc + obj},
			{"main and topic, by package name", "import baz.v1", "baz", obj + top},
			{"main and service, fully qualified", "import baz.v1", "baz.v1", obj + svc},
		} {
			out = append(out, declCase{Name: "imported types used in " + v.name + " of one source", Pkg: "foo.v1", Main: mainFile, Files: map[string]string{
				mainFile:          "package foo.v1\n\n" + v.imp + "\n\n" + strings.ReplaceAll(v.body, "%[1]s", v.pre),
				"baz/v1/types.j5s": bazTypes,
			}})
		}
	}
	out = append(out, declCase{Name: "import proto file", Pkg: "foo.v1", Main: mainFile, Files: map[string]string{
		mainFile:            "package foo.v1\n\nimport baz.v1:baz\n\nobject Foo {\n  field bar object:baz.Bar\n}\n",
		"baz/v1/types.proto": "syntax = \"proto3\";\n\npackage baz.v1;\n\nmessage Bar {\n  string x = 1;\n}\n",
	}})
	out = append(out, declCase{Name: "implicit import j5.state.v1", Pkg: "foo.v1", Main: mainFile, Files: map[string]string{
		mainFile: "package foo.v1\n\nobject Foo {\n  field metadata object:j5.state.v1.StateMetadata\n}\n",
	}})
	out = append(out, declCase{Name: "two files one package", Pkg: "foo.v1", Main: mainFile, Files: map[string]string{
		mainFile:       "package foo.v1\n\nobject Foo {\n  field bar object:Bar\n}\n",
		"foo/v1/b.j5s": "package foo.v1\n\nobject Bar {\n  field x string\n}\n",
	}})
	return out
}

// semanticErrors: structurally valid files with a semantic error (property text: unknown types,
// duplicate names, unknown attributes, both required and optional, ...).
func semanticErrors() []declCase {
	var out []declCase
	add := func(name, body string, must bool) {
		d := one(name, body)
		d.MustFail = must
		out = append(out, d)
	}
	add("unknown type", "object Foo {\n  field a object:Bar\n}\n", true)
	add("unknown enum type", "object Foo {\n  field a enum:Bar\n}\n", true)
	add("unknown package", "object Foo {\n  field a object:baz.Bar\n}\n", true)
	add("duplicate field name", "object Foo {\n  field a string\n  field a string\n}\n", true)
	add("duplicate field snake name", "object Foo {\n  field fooId string\n  field foo_id string\n}\n", true)
	add("duplicate object name", "object Foo {\n  field a string\n}\n\nobject Foo {\n  field b string\n}\n", true)
	add("duplicate enum option", "enum E {\n  option A\n  option A\n}\n", true)
	add("duplicate object and enum name", "object Foo {\n}\n\nenum Foo {\n  option A\n}\n", true)
	add("unknown attribute", "object Foo {\n  field a string {\n    nonsense = true\n  }\n}\n", true)
	add("unknown block", "thing Foo {\n}\n", true)
	add("required and optional", "object Foo {\n  field a ! string {\n    optional = true\n  }\n}\n", true)
	add("optional primary key", "object Foo {\n  field a ? key:id62 {\n    entity.primaryKey = true\n  }\n}\n", true)
	add("object ref to enum", "object Foo {\n  field a object:E\n}\n\nenum E {\n  option A\n}\n", true)
	add("enum ref to object", "object Foo {\n  field a enum:Bar\n}\n\nobject Bar {\n}\n", true)
	add("enum rule unknown value", "object Foo {\n  field a enum:E {\n    rules.in = [\"NOPE\"]\n  }\n}\n\nenum E {\n  option A\n}\n", true)
	add("oneof with an optional scalar member", "oneof Ch {\n  option a ? string\n  option b string\n}\n", false)
	add("oneof with an array member", "oneof Ch {\n  option a array:string\n}\n", false)
	add("oneof with a map member", "oneof Ch {\n  option a map:string\n}\n", false)
	add("service without name", "service {\n  basePath = \"/foo\"\n}\n", true)
	add("entity status filter unknown", "entity Foo {\n  key fooId key:id62 {\n    primary = true\n  }\n  status ACTIVE\n  query.defaultStatusFilter = [\"NOPE\"]\n}\n", false)
	add("entity duplicate summary", "entity Foo {\n  key fooId key:id62 {\n    primary = true\n  }\n  status ACTIVE\n  summary A {\n    field x string\n  }\n  summary A {\n    field y string\n  }\n}\n", false)
	// inline types with an empty block (reported by cmpa2: the front end leaves EnumField.Schema nil): whatever the verdict, positioned
	add("inline enum with an empty block", "object Foo {\n  field child enum {\n  }\n}\n", false)
	add("inline object with an empty block", "object Foo {\n  field child object {\n  }\n}\n", false)
	add("inline oneof with an empty block", "object Foo {\n  field child oneof {\n  }\n}\n", false)
	add("map without item type", "object Foo {\n  field a map\n}\n", true)
	add("array without item type", "object Foo {\n  field a array\n}\n", true)
	add("field without type", "object Foo {\n  field a\n}\n", true)
	add("service with options and no methods", "service Foo {\n  basePath = \"/foo\"\n  options.audience = [\"x\"]\n}\n", false)
	add("integer without format", "object Foo {\n  field a integer\n}\n", true)
	add("float without format", "object Foo {\n  field a float\n}\n", true)
	add("integer bad format", "object Foo {\n  field a integer:INT7\n}\n", true)
	add("key bad format", "object Foo {\n  field a key:zzz\n}\n", true)
	add("array of array", "object Foo {\n  field a array:array:string\n}\n", false)
	add("map of map", "object Foo {\n  field a map:map:string\n}\n", false)
	add("map of array", "object Foo {\n  field a map:array:string\n}\n", true)
	add("integer exclusive without bound", "object Foo {\n  field a integer:INT32 {\n    rules.exclusiveMinimum = false\n  }\n}\n", true)
	add("method path parameter not in request", "service Foo {\n  basePath = \"/foo\"\n  method Bar {\n    httpMethod = \"GET\"\n    httpPath = \"/bar/:nope\"\n    request {\n    }\n  }\n}\n", true)
	add("method without http method", "service Foo {\n  basePath = \"/foo\"\n  method Bar {\n    httpPath = \"/bar\"\n    request {\n    }\n  }\n}\n", true)
	add("method without request", "service Foo {\n  basePath = \"/foo\"\n  method Bar {\n    httpMethod = \"GET\"\n    httpPath = \"/bar\"\n  }\n}\n", true)
	add("upsert without message", "topic Foo upsert {\n}\n", true)
	add("entity without keys", "entity Foo {\n  status ACTIVE\n}\n", false)
	add("entity without status", "entity Foo {\n  key fooId key:id62 {\n    primary = true\n  }\n}\n", true)
	add("entity duplicate event", "entity Foo {\n  key fooId key:id62 {\n    primary = true\n  }\n  status ACTIVE\n  event Create {\n  }\n  event Create {\n  }\n}\n", true)
	add("unused import", "import baz.v1:baz\n\nobject Foo {\n}\n", false)
	add("import of unknown package", "import nope.v1:nope\n\nobject Foo {\n  field a object:nope.Bar\n}\n", true)
	add("lowercase object name", "object foo {\n}\n", false)
	add("field name with dash", "object Foo {\n  field a-b string\n}\n", true)
	add("flatten non object", "object Foo {\n  field a string {\n    flatten = true\n  }\n}\n", true)
	add("enum option UNSPECIFIED not first", "enum E {\n  option A\n  option UNSPECIFIED\n}\n", false)
	out = append(out, declCase{Name: "package line does not match path", Pkg: "foo.v1", Main: mainFile, MustFail: false, Files: map[string]string{
		mainFile: "package other.v1\n\nobject Foo {\n}\n"}})
	out = append(out, declCase{Name: "missing package line", Pkg: "foo.v1", Main: mainFile, MustFail: false, Files: map[string]string{
		mainFile: "object Foo {\n}\n"}})
	out = append(out, declCase{Name: "type in a package that is not imported", Pkg: "foo.v1", Main: mainFile, MustFail: true, Files: map[string]string{
		mainFile:          "package foo.v1\n\nobject Foo {\n  field bar object:baz.Bar\n}\n",
		"baz/v1/types.j5s": "package baz.v1\n\nobject Bar {\n}\n"}})
	out = append(out, declCase{Name: "package import cycle", Pkg: "foo.v1", Main: mainFile, MustFail: true, Files: map[string]string{
		mainFile:          "package foo.v1\n\nimport baz.v1:baz\n\nobject Foo {\n  field bar object:baz.Bar\n}\n",
		"baz/v1/types.j5s": "package baz.v1\n\nimport foo.v1:foo\n\nobject Bar {\n  field foo object:foo.Foo\n}\n"}})
	out = append(out, declCase{Name: "two files of one package referring to each other", Pkg: "foo.v1", Main: mainFile, MustFail: false, Files: map[string]string{
		mainFile:       "package foo.v1\n\nobject Foo {\n  field bar object:Bar\n}\n",
		"foo/v1/b.j5s": "package foo.v1\n\nobject Bar {\n  field foo object:Foo\n}\n"}})
	out = append(out, declCase{Name: "object containing itself", Pkg: "foo.v1", Main: mainFile, MustFail: false, Files: map[string]string{
		mainFile: "package foo.v1\n\nobject Foo {\n  field foo object:Foo\n  field foos array:object:Foo\n}\n"}})
	out = append(out, declCase{Name: "same object in two files", Pkg: "foo.v1", Main: mainFile, MustFail: true, Files: map[string]string{
		mainFile:       "package foo.v1\n\nobject Foo {\n}\n",
		"foo/v1/b.j5s": "package foo.v1\n\nobject Foo {\n}\n"}})
	out = append(out, declCase{Name: "broken proto file in package", Pkg: "foo.v1", Main: "foo/v1/b.proto", MustFail: true, Files: map[string]string{
		mainFile:         "package foo.v1\n\nobject Foo {\n}\n",
		"foo/v1/b.proto": "syntax = \"proto3\";\npackage foo.v1;\nmessage {\n"}})
	return out
}

// ---- malformed stream ----

var vocab = []string{"object", "field", "enum", "oneof", "option", "service", "method", "topic", "entity", "key", "data", "status", "event",
	"package", "import", "{", "}", "[", "]", "=", ":", ".", ",", "!", "?", "|", "\"", "\"x\"", "true", "false", "1", "-1", "1.5", "1e999", "/* c */", "// c", "/*",
	"string", "array", "map", "integer:INT32", "rules", "listRules", "ext", "required", "items", "\n", "\t", " ", "\\", "\x00", "é", "\xff", "object:Foo", "foo.v1", "publish", "upsert", "reqres", "request", "response", "message", "reply"}

func tokenize(s string) []string {
	var toks []string
	cur := ""
	flush := func() {
		if cur != "" {
			toks = append(toks, cur)
			cur = ""
		}
	}
	for _, c := range s {
		switch {
		case c == ' ' || c == '\n' || c == '\t':
			flush()
			toks = append(toks, string(c))
		case strings.ContainsRune("{}[]=:.,!?|\"", c):
			flush()
			toks = append(toks, string(c))
		default:
			cur += string(c)
		}
	}
	flush()
	return toks
}

// mutate returns a damaged copy of the bundle (only the main file is damaged) and a description.
func mutate(r *vh.Rand, base map[string]string) (map[string]string, string) {
	out := map[string]string{}
	for k, v := range base {
		out[k] = v
	}
	src := out[mainFile]
	how := ""
	switch r.Intn(12) {
	case 0: // pure random bytes
		src = string(r.Bytes(r.Range(0, 200)))
		how = "random bytes"
	case 1: // package line + random bytes
		src = "package foo.v1\n\n" + string(r.Bytes(r.Range(1, 120)))
		how = "package line + random bytes"
	case 2: // flip bytes
		bs := []byte(src)
		for k := r.Range(1, 4); k > 0 && len(bs) > 0; k-- {
			bs[r.Intn(len(bs))] = byte(r.U64())
		}
		src = string(bs)
		how = "byte flips"
	case 3: // truncate
		if len(src) > 0 {
			src = src[:r.Intn(len(src))]
		}
		how = "truncation"
	default:
		toks := tokenize(src)
		if len(toks) == 0 {
			toks = []string{"object"}
		}
		n := r.Range(1, 3)
		var ops []string
		for ; n > 0; n-- {
			i := r.Intn(len(toks))
			switch r.Intn(6) {
			case 0:
				toks = append(toks[:i], toks[i+1:]...)
				ops = append(ops, "delete")
			case 1:
				toks = append(toks[:i], append([]string{toks[i]}, toks[i:]...)...)
				ops = append(ops, "duplicate")
			case 2:
				j := r.Intn(len(toks))
				toks[i], toks[j] = toks[j], toks[i]
				ops = append(ops, "swap")
			case 3:
				toks[i] = vh.Pick(r, vocab)
				ops = append(ops, "replace")
			case 4:
				toks = append(toks[:i], append([]string{vh.Pick(r, vocab)}, toks[i:]...)...)
				ops = append(ops, "insert")
			case 5:
				// duplicate a whole line somewhere else
				lines := strings.Split(strings.Join(toks, ""), "\n")
				a, bb := r.Intn(len(lines)), r.Intn(len(lines))
				lines = append(lines[:bb], append([]string{lines[a]}, lines[bb:]...)...)
				toks = tokenize(strings.Join(lines, "\n"))
				ops = append(ops, "copy-line")
			}
			if len(toks) == 0 {
				toks = []string{"}"}
			}
		}
		src = strings.Join(toks, "")
		how = "tokens: " + strings.Join(ops, ",")
	}
	out[mainFile] = src
	return out, how
}

package main

import (
	"bytes"
	"encoding/json"
	"fmt"
	"os"
	"os/exec"
	"path/filepath"
	"runtime"
	"sort"
	"strings"
	"sync"

	"verifharness/vh"
)

// Crash isolation: recover() catches ordinary panics, but a fatal runtime error (stack overflow,
// concurrent map writes) kills the process. Each property therefore runs in a child process whose
// workers write a marker with their in-flight input before every case; when the child dies the
// parent turns the markers into a direct-oracle failure with that input, so the run still yields a
// replayable case.

const childEnv = "VERIF_CMPB_CHILD"

type marker struct {
	Case   int    `json:"case"`
	Stream string `json:"stream"`
	Input  any    `json:"input"`
}

var markerPath string

// the running child's configuration (set by isolated), for abortOnHang
var childCfg *vh.Config
var childProp string
var abortOnce sync.Once

// abortOnHang: a call into the implementation did not return within its deadline. Its goroutine cannot be
// killed and may keep allocating until the process dies at some unrelated later point, so the run stops
// here: the result holds exactly this failure with the input that hangs, and the process exits.
func abortOnHang(what string, input any) {
	abortOnce.Do(func() {
		if childCfg == nil {
			return
		}
		res := vh.NewResult(childProp, childCfg.Seed)
		res.Rule = "run stopped: a call into the implementation did not return within its deadline (20 s)"
		res.Evaluations = 1
		res.Fail(vh.Failure{Case: 0, Stream: "deadline",
			Sig:    childProp + " " + what + ": does not return within the deadline",
			Clause: "never hangs", Input: input, Got: "no result after 20 s"})
		cf := &vh.CasesFile{Header: "From Coq Require Import String List NArith.", Type: "nat", Check: "(fun _ => true)"}
		if shards, err := cf.WriteShards(childCfg.Out, "cases", 10); err == nil {
			res.Shards = shards
		}
		for _, old := range globMarkers(markerPath) {
			if b, err := os.ReadFile(old); err == nil {
				res.Notes = append(res.Notes, "in flight when the deadline passed: "+truncate(string(b), 4000))
			}
			os.Remove(old)
		}
		if res.Write(childCfg.Out) == nil {
			os.Exit(0)
		}
	})
}

// markW records the in-flight case of worker w (one marker file per worker).
func markW(w, caseNo int, stream string, input any) {
	if markerPath == "" {
		return
	}
	b, err := json.Marshal(marker{caseNo, stream, input})
	if err != nil {
		return
	}
	os.WriteFile(fmt.Sprintf("%s.%d", markerPath, w), b, 0o644)
}

func clearW(w int) {
	if markerPath != "" {
		os.Remove(fmt.Sprintf("%s.%d", markerPath, w))
	}
}

func globMarkers(mp string) []string {
	out, _ := filepath.Glob(mp + ".*")
	return out
}

func workers() int {
	n := 0
	fmt.Sscanf(os.Getenv("VERIF_JOBS"), "%d", &n)
	if n <= 0 {
		n = runtime.NumCPU()
	}
	if n > 8 {
		n = 8
	}
	if n < 1 {
		n = 1
	}
	return n
}

// parallel runs f(i) for i in [0,n) on a pool of workers and returns the results in index order
// (so the run stays a deterministic function of the seed). Every worker marks its in-flight case.
// Each case builds its own PackageSet; nothing is shared between cases but the process-wide
// protobuf registry.
func parallel[T any](n int, stream string, base int, input func(i int) any, f func(i int) T) []T {
	out := make([]T, n)
	next := make(chan int, n)
	for i := 0; i < n; i++ {
		next <- i
	}
	close(next)
	var wg sync.WaitGroup
	for k := 0; k < workers(); k++ {
		wg.Add(1)
		go func(k int) {
			defer wg.Done()
			for i := range next {
				markW(k, base+i, stream, input(i))
				out[i] = f(i)
			}
			clearW(k)
		}(k)
	}
	wg.Wait()
	return out
}

// isolated wraps a property runner.
func isolated(prop string, run func(cfg *vh.Config) error) func(cfg *vh.Config) error {
	return func(cfg *vh.Config) error {
		mp := filepath.Join(cfg.Out, "inflight.json")
		if os.Getenv(childEnv) == "1" {
			markerPath = mp
			childCfg, childProp = cfg, prop
			return run(cfg)
		}
		for _, old := range globMarkers(mp) {
			os.Remove(old)
		}
		os.Remove(filepath.Join(cfg.Out, "result.json"))
		cmd := exec.Command(os.Args[0], os.Args[1:]...)
		cmd.Env = append(os.Environ(), childEnv+"=1")
		var errb bytes.Buffer
		cmd.Stderr = &errb
		cmd.Stdout = os.Stdout
		err := cmd.Run()
		if err == nil {
			for _, old := range globMarkers(mp) {
				os.Remove(old)
			}
			return nil
		}
		// the child died: attribute the death to the in-flight cases
		first := strings.SplitN(strings.TrimSpace(errb.String()), "\n", 2)[0]
		if len(first) > 200 {
			first = first[:200]
		}
		var inflight []marker
		for _, f := range globMarkers(mp) {
			var x marker
			if b, rerr := os.ReadFile(f); rerr == nil && json.Unmarshal(b, &x) == nil {
				inflight = append(inflight, x)
			}
			os.Remove(f)
		}
		if len(inflight) == 0 {
			return fmt.Errorf("child failed without an in-flight marker: %v: %s", err, first)
		}
		sort.Slice(inflight, func(i, j int) bool { return inflight[i].Case < inflight[j].Case })
		m := inflight[0]
		res := vh.NewResult(prop, cfg.Seed)
		res.Rule = "run aborted: the implementation process died (fatal runtime error) on an in-flight case"
		res.Evaluations = m.Case + 1
		res.Notes = append(res.Notes, "child process died: "+first)
		for _, o := range inflight[1:] {
			b, _ := json.Marshal(o)
			res.Notes = append(res.Notes, "also in flight: "+string(b))
		}
		res.Fail(vh.Failure{Case: m.Case, Stream: m.Stream,
			Sig:    fmt.Sprintf("%s %s: process killed by %s", prop, m.Stream, errClass(first)),
			Clause: "never panics or hangs (a fatal runtime error cannot even be recovered)",
			Input:  m.Input, Got: first})
		cf := &vh.CasesFile{Header: "From Coq Require Import String List NArith.", Type: "nat", Check: "(fun _ => true)"}
		shards, werr := cf.WriteShards(cfg.Out, "cases", 10)
		if werr != nil {
			return werr
		}
		res.Shards = shards
		return res.Write(cfg.Out)
	}
}

package main

import (
	"bytes"
	"encoding/json"
	"fmt"
	"os"
	"os/exec"
	"path/filepath"
	"strings"

	"verifharness/vh"
)

// Crash isolation: recover() catches ordinary panics, but a fatal runtime error (stack overflow,
// concurrent map writes) kills the process. Each property therefore runs in a child process that
// writes a marker with the in-flight input before every case; when the child dies the parent turns
// the marker into a direct-oracle failure with that input, so the run still yields a replayable case.

const childEnv = "VERIF_CMPB_CHILD"

type marker struct {
	Case   int    `json:"case"`
	Stream string `json:"stream"`
	Input  any    `json:"input"`
}

var markerPath string

func mark(caseNo int, stream string, input any) {
	if markerPath == "" {
		return
	}
	b, err := json.Marshal(marker{caseNo, stream, input})
	if err != nil {
		return
	}
	os.WriteFile(markerPath, b, 0o644)
}

// isolated wraps a property runner.
func isolated(prop string, run func(cfg *vh.Config) error) func(cfg *vh.Config) error {
	return func(cfg *vh.Config) error {
		mp := filepath.Join(cfg.Out, "inflight.json")
		if os.Getenv(childEnv) == "1" {
			markerPath = mp
			return run(cfg)
		}
		os.Remove(mp)
		os.Remove(filepath.Join(cfg.Out, "result.json"))
		cmd := exec.Command(os.Args[0], os.Args[1:]...)
		cmd.Env = append(os.Environ(), childEnv+"=1")
		var errb bytes.Buffer
		cmd.Stderr = &errb
		cmd.Stdout = os.Stdout
		err := cmd.Run()
		if err == nil {
			os.Remove(mp)
			return nil
		}
		// the child died: attribute the death to the in-flight case
		first := strings.SplitN(strings.TrimSpace(errb.String()), "\n", 2)[0]
		if len(first) > 200 {
			first = first[:200]
		}
		var m marker
		if b, rerr := os.ReadFile(mp); rerr == nil {
			json.Unmarshal(b, &m)
		} else {
			return fmt.Errorf("child failed without an in-flight marker: %v: %s", err, first)
		}
		res := vh.NewResult(prop, cfg.Seed)
		res.Rule = "run aborted: the implementation process died (fatal runtime error) on the in-flight case"
		res.Evaluations = m.Case + 1
		res.Notes = append(res.Notes, "child process died: "+first)
		res.Fail(vh.Failure{Case: m.Case, Stream: m.Stream,
			Sig:    fmt.Sprintf("%s %s: process killed by %s", prop, m.Stream, errClass(first)),
			Clause: "never panics or hangs (a fatal runtime error cannot even be recovered)",
			Input:  m.Input, Got: first})
		cf := &vh.CasesFile{Header: "From Coq Require Import String List NArith.", Type: "nat", Check: "(fun _ => true)"}
		shards, werr := cf.WriteShards(cfg.Out, "cases", 10)
		if werr != nil {
			return werr
		}
		res.Shards = shards
		os.Remove(mp)
		return res.Write(cfg.Out)
	}
}

package main

import (
	"context"
	"fmt"
	"io"
	"log"
	"os"
	"regexp"
	"sort"
	"strings"
	"time"

	"github.com/pentops/j5/lib/verifshim/cmpb"
	"github.com/pentops/j5/lib/verifshim/compile"
	"google.golang.org/protobuf/proto"
	"google.golang.org/protobuf/reflect/protoreflect"
	"google.golang.org/protobuf/types/descriptorpb"
)

func init() {
	// the compiler logs every walker error through the std logger
	log.SetOutput(io.Discard)
}

// quietStdout redirects os.Stdout for the duration of the run (errpos.mergeErr prints there).
func quietStdout() func() {
	old := os.Stdout
	f, err := os.OpenFile(os.DevNull, os.O_WRONLY, 0)
	if err != nil {
		return func() {}
	}
	os.Stdout = f
	return func() { os.Stdout = old; f.Close() }
}

type compiled struct {
	Files    []protoreflect.FileDescriptor
	Err      error
	Panic    any
	TimedOut bool
}

// compileOnce compiles pkg of the bundle on a fresh PackageSet under recover() and a deadline.
func compileOnce(content map[string]string, pkg string) compiled {
	return withDeadline(map[string]any{"files": content, "package": pkg, "call": "CompilePackage on a fresh PackageSet"}, func() compiled {
		var c compiled
		func() {
			defer func() {
				if r := recover(); r != nil {
					c.Panic = r
				}
			}()
			c.Files, c.Err = compile.Compile(context.Background(), content, pkg)
		}()
		return c
	})
}

func withDeadline(input any, f func() compiled) compiled {
	ch := make(chan compiled, 1)
	go func() { ch <- f() }()
	select {
	case c := <-ch:
		return c
	case <-time.After(20 * time.Second):
		abortOnHang("compile", input)
		return compiled{TimedOut: true}
	}
}

type linted struct {
	Pos      []cmpb.Pos
	Human    string
	Err      error
	Panic    any
	TimedOut bool
}

// lintOnce runs LintFile on a fresh set (the LSP path), including the HumanString rendering.
func lintOnce(content map[string]string, filename string) linted {
	ch := make(chan linted, 1)
	go func() {
		var l linted
		func() {
			defer func() {
				if r := recover(); r != nil {
					l.Panic = r
				}
			}()
			s, err := compile.NewSet(&compile.Files{Content: content}, nil)
			if err != nil {
				l.Err = err
				return
			}
			ws, err := s.LintFile(context.Background(), filename, content[filename])
			l.Err = err
			l.Pos = cmpb.LintPositions(ws)
			l.Human = cmpb.HumanString(ws, 2)
		}()
		ch <- l
	}()
	select {
	case l := <-ch:
		return l
	case <-time.After(20 * time.Second):
		abortOnHang("LintFile", map[string]any{"files": content, "file": filename})
		return linted{TimedOut: true}
	}
}

func lintAllOnce(content map[string]string) linted {
	ch := make(chan linted, 1)
	go func() {
		var l linted
		func() {
			defer func() {
				if r := recover(); r != nil {
					l.Panic = r
				}
			}()
			s, err := compile.NewSet(&compile.Files{Content: content}, nil)
			if err != nil {
				l.Err = err
				return
			}
			ws, err := s.LintAll(context.Background())
			l.Err = err
			l.Pos = cmpb.LintPositions(ws)
			l.Human = cmpb.HumanString(ws, 2)
		}()
		ch <- l
	}()
	select {
	case l := <-ch:
		return l
	case <-time.After(20 * time.Second):
		abortOnHang("LintAll", map[string]any{"files": content})
		return linted{TimedOut: true}
	}
}

var (
	reQuoted = regexp.MustCompile(`"[^"]*"`)
	reNum    = regexp.MustCompile(`[0-9]+`)
	rePath   = regexp.MustCompile(`[A-Za-z0-9_./]+\.(j5s|proto)`)
	reIdent  = regexp.MustCompile(`\b(foo|bar|baz)[A-Za-z0-9_.]*`)
	reAt     = regexp.MustCompile(`\bat \S+`)
	reChain  = regexp.MustCompile(`\S+( -> \S+)+`)
)

// errClass strips names, paths and numbers from an error text: used only to build failure
// signatures (never compared with the model).
func errClass(s string) string {
	if i := strings.Index(s, "; "); i > 0 {
		s = s[:i]
	}
	s = reAt.ReplaceAllString(s, "at P")
	s = reChain.ReplaceAllString(s, "X -> ...")
	s = reQuoted.ReplaceAllString(s, `"_"`)
	s = rePath.ReplaceAllString(s, "F")
	s = reIdent.ReplaceAllString(s, "I")
	s = reNum.ReplaceAllString(s, "N")
	if len(s) > 120 {
		s = s[:120]
	}
	return s
}

// posProblem checks one leaf against the source files of the bundle: a position must be present,
// must not name a file outside the bundle's sources, and must lie inside the file.
func posProblem(p cmpb.Pos, content map[string]string, single string) string {
	if !p.HasPos {
		return "no position"
	}
	file := single
	if p.HasFile {
		file = p.File
	}
	src, ok := content[file]
	if !ok {
		if p.HasFile {
			return "position names a generated file, not a source file"
		}
		return "" // several files and no file name: the line cannot be checked further
	}
	lines := strings.Split(src, "\n")
	if p.StartLine < 0 || p.StartLine > len(lines) {
		return fmt.Sprintf("line %d outside the file (%d lines)", p.StartLine, len(lines))
	}
	if p.StartCol < 0 {
		return fmt.Sprintf("negative column %d", p.StartCol)
	}
	if p.StartLine < len(lines) && p.StartCol > len(lines[p.StartLine])+1 {
		return fmt.Sprintf("column %d outside line %d (length %d)", p.StartCol, p.StartLine, len(lines[p.StartLine]))
	}
	return ""
}

func depList(f protoreflect.FileDescriptor) []string {
	var out []string
	imps := f.Imports()
	for i := 0; i < imps.Len(); i++ {
		out = append(out, imps.Get(i).Path())
	}
	sort.Strings(out)
	return out
}

func extNames(opts proto.Message) []string {
	var out []string
	if opts == nil {
		return out
	}
	proto.RangeExtensions(opts, func(xt protoreflect.ExtensionType, _ any) bool {
		out = append(out, string(xt.TypeDescriptor().FullName()))
		return true
	})
	sort.Strings(out)
	return out
}

func coqStrList(xs []string) string {
	q := make([]string, len(xs))
	for i, x := range xs {
		q[i] = `"` + strings.ReplaceAll(x, `"`, `""`) + `"`
	}
	return "[" + strings.Join(q, "; ") + "]"
}

func findMessage(f protoreflect.FileDescriptor, name string) protoreflect.MessageDescriptor {
	return f.Messages().ByName(protoreflect.Name(name))
}

func fileByPath(fs []protoreflect.FileDescriptor, path string) protoreflect.FileDescriptor {
	for _, f := range fs {
		if f.Path() == path {
			return f
		}
	}
	return nil
}

func marshalDet(f protoreflect.FileDescriptor) ([]byte, error) {
	var fdp *descriptorpb.FileDescriptorProto = compile.ToProto(f)
	return proto.MarshalOptions{Deterministic: true}.Marshal(fdp)
}

package main

import (
	"encoding/json"
	"fmt"
	"os"
	"os/exec"
	"path/filepath"
	"sort"
	"strconv"
	"strings"

	"github.com/pentops/j5/lib/verifshim/compile"
	"verifharness/vh"
)

// History stream: "the output does not depend on what was compiled / printed EARLIER in the process".
// The bundle stream compiles ONE bundle many times, so anything remembered per file path, per package name or
// per type name between calls is remembered about the same contents and stays right. A family is a list of
// DIFFERENT bundles that share file paths (the same source file and so the same output file path, with
// different imports, different referenced packages, different fields). A fresh process compiles and prints
// the variants of one family one after the other, starting at variant `rot`; the variant a process prints
// first has no history. Every variant printed after others is compared with the process that printed it first.

const histEnv = "VERIF_CMPB_HIST" // "<family>:<rotation>"

func init() { vh.Register("C14HIST", runC14HistPeer) }

type histFamily struct {
	Variants []bundleT
	Shared   []string // source paths whose contents differ between the variants
}

type histObs map[string]map[string][]fileObs // variant index -> package -> files

var histRoots = []string{"foo", "bar", "baz", "acme", "inner"}

// genHistFamily: a holder package a.v1 and foreign packages x.v1, y.v1 (unrelated roots), a.x.v1, a.y.v1
// (siblings below the holder's parent package, whose first part after the parent equals an unrelated root)
// and a.v1.x.v1 (below the holder's own package). Every variant has all foreign packages; the holder files
// a/v1/holder.j5s (+ a/v1/extra.j5s, + a hand-written a/v1/hand.proto with a nested message whose name differs
// between the variants, in some) import and reference a different subset of them in each variant:
// variant k>0 is variant 0 with one to three memberships toggled, the import order shuffled again.
func genHistFamily(r *vh.Rand) histFamily {
	roots := shuffled(r, histRoots)
	a, x, y := roots[0], roots[1], roots[2]
	foreign := []string{x + ".v1", y + ".v1", a + "." + x + ".v1", a + "." + y + ".v1", a + ".v1." + x + ".v1", a + ".v2"}
	common := map[string]string{}
	for i, p := range foreign {
		dir := strings.ReplaceAll(p, ".", "/")
		common[dir+"/t.j5s"] = "package " + p + "\n\nobject Thing {\n  field f" + strconv.Itoa(i) + " string\n}\n\nenum Kind {\n  option A\n  option B" + strconv.Itoa(i) + "\n}\n"
	}
	holderPkg := a + ".v1"
	holderDir := a + "/v1/"
	source := func(name string, member []bool) string {
		var used []string
		for i, m := range member {
			if m {
				used = append(used, foreign[i])
			}
		}
		used = shuffled(r, used)
		var sb strings.Builder
		sb.WriteString("package " + holderPkg + "\n\n")
		for _, p := range used {
			sb.WriteString("import " + p + "\n")
		}
		sb.WriteString("\nobject " + name + " {\n  field id string\n")
		for i, p := range used {
			switch r.Intn(3) {
			case 0:
				fmt.Fprintf(&sb, "  field t%d object:%s.Thing\n", i, p)
			case 1:
				fmt.Fprintf(&sb, "  field t%d array:object:%s.Thing\n", i, p)
			default:
				fmt.Fprintf(&sb, "  field t%d object:%s.Thing\n  field k%d enum:%s.Kind\n", i, p, i, p)
			}
		}
		sb.WriteString("}\n")
		return sb.String()
	}
	membership := func() []bool {
		m := make([]bool, len(foreign))
		for i := range m {
			m[i] = r.Chance(60)
		}
		m[r.Intn(2)] = true // at least one unrelated root is referenced
		return m
	}
	toggle := func(m []bool) []bool {
		out := append([]bool{}, m...)
		for n := 1 + r.Intn(3); n > 0; n-- {
			i := r.Intn(len(out))
			out[i] = !out[i]
		}
		if !out[0] && !out[1] {
			out[r.Intn(2)] = true
		}
		return out
	}
	// a hand-written .proto of the holder package at a shared path: a different import subset and a different
	// NESTED message name in each variant (none, or the first part of a foreign / the own package: proto allows
	// lower-case message names, so the nested message shadows the package name inside Hand). References are
	// written fully qualified (leading dot) in the source; what the printer writes is its own decision.
	hand := func(member []bool, nested string) string {
		var used []string
		for i, m := range member {
			if m {
				used = append(used, foreign[i])
			}
		}
		used = shuffled(r, used)
		var sb strings.Builder
		sb.WriteString("syntax = \"proto3\";\n\npackage " + holderPkg + ";\n\n")
		for _, p := range used {
			sb.WriteString("import \"" + strings.ReplaceAll(p, ".", "/") + "/t.j5s.proto\";\n")
		}
		sb.WriteString("\nmessage Hand {\n")
		if nested != "" {
			sb.WriteString("  message " + nested + " {\n    string id = 1;\n  }\n")
		}
		sb.WriteString("  string id = 1;\n")
		for i, p := range used {
			fmt.Fprintf(&sb, "  .%s.Thing t%d = %d;\n", p, i, i+2)
		}
		sb.WriteString("}\n")
		return sb.String()
	}
	nestedNames := []string{"", "", x, y, a, "Inner"}
	nV := 3
	fam := histFamily{Shared: []string{holderDir + "holder.j5s"}}
	withHand := r.Chance(50)
	if withHand {
		fam.Shared = append(fam.Shared, holderDir+"hand.proto")
	}
	h0 := membership()
	withExtra := r.Chance(40)
	if withExtra {
		fam.Shared = append(fam.Shared, holderDir+"extra.j5s")
	}
	m0, e0 := membership(), membership()
	for k := 0; k < nV; k++ {
		m, e := m0, e0
		if k > 0 {
			m, e = toggle(m0), toggle(e0)
		}
		content := map[string]string{}
		for p, s := range common {
			content[p] = s
		}
		content[holderDir+"holder.j5s"] = source("Holder", m)
		if withExtra {
			content[holderDir+"extra.j5s"] = source("Extra", e)
		}
		if withHand {
			h := h0
			if k > 0 {
				h = toggle(h0)
			}
			content[holderDir+"hand.proto"] = hand(h, nestedNames[r.Intn(len(nestedNames))])
		}
		fam.Variants = append(fam.Variants, bundleT{Content: content, Packages: append(append([]string{}, foreign...), holderPkg)})
	}
	return fam
}

func c14HistFamilies(cfg *vh.Config) []histFamily {
	r := cfg.R.Fork("history")
	fams := make([]histFamily, cfg.Scale(6, 24))
	for i := range fams {
		fams[i] = genHistFamily(r)
	}
	return fams
}

// histOrder: the order in which the process with rotation rot handles the n variants
func histOrder(n, rot int) []int {
	out := make([]int, n)
	for i := range out {
		out[i] = (rot + i) % n
	}
	return out
}

func histCompile(b bundleT) map[string][]fileObs {
	res := map[string][]fileObs{}
	pkgs := append([]string{}, b.Packages...)
	sort.Strings(pkgs)
	for _, pkg := range b.Packages {
		set, err := compile.NewSet(&compile.Files{Content: b.Content, Packages: pkgs}, nil)
		if err != nil {
			continue
		}
		fs, et := safeCompilePkg(set, pkg)
		if et != "" {
			res[pkg] = []fileObs{{Path: "error", Text: et}}
			continue
		}
		obs, oe := observeFiles(fs)
		if oe != "" {
			res[pkg] = []fileObs{{Path: "error", Text: oe}}
			continue
		}
		res[pkg] = obs
	}
	return res
}

func runC14HistPeer(cfg *vh.Config) error {
	restore := quietStdout()
	defer restore()
	fams := c14HistFamilies(cfg)
	out := histObs{}
	var fi, rot int
	if _, err := fmt.Sscanf(os.Getenv(histEnv), "%d:%d", &fi, &rot); err != nil || fi < 0 || fi >= len(fams) {
		return fmt.Errorf("bad %s=%q", histEnv, os.Getenv(histEnv))
	}
	fam := fams[fi]
	for _, vi := range histOrder(len(fam.Variants), rot) {
		out[strconv.Itoa(vi)] = histCompile(fam.Variants[vi])
	}
	b, err := json.Marshal(out)
	if err != nil {
		return err
	}
	return os.WriteFile(filepath.Join(cfg.Out, "hist.json"), b, 0o644)
}

func spawnHist(cfg *vh.Config, fi, rot int) (histObs, error) {
	dir, err := os.MkdirTemp(cfg.Out, "hist")
	if err != nil {
		return nil, err
	}
	defer os.RemoveAll(dir)
	args := []string{"-prop", "C14HIST", "-seed", fmt.Sprint(cfg.Seed), "-tier", cfg.Tier, "-out", dir}
	if cfg.N > 0 {
		args = append(args, "-n", fmt.Sprint(cfg.N))
	}
	if cfg.Mult > 1 {
		args = append(args, "-mult", fmt.Sprint(cfg.Mult))
	}
	cmd := exec.Command(os.Args[0], args...)
	cmd.Env = append(os.Environ(), fmt.Sprintf("%s=%d:%d", histEnv, fi, rot))
	if outb, err := cmd.CombinedOutput(); err != nil {
		return nil, fmt.Errorf("history process: %v: %s", err, truncate(string(outb), 300))
	}
	b, err := os.ReadFile(filepath.Join(dir, "hist.json"))
	if err != nil {
		return nil, err
	}
	var ho histObs
	if err := json.Unmarshal(b, &ho); err != nil {
		return nil, err
	}
	return ho, nil
}

// runC14History: direct oracle of the history clause. One fresh process per (family, rotation).
func runC14History(cfg *vh.Config, res *vh.Result, caseNo int, distinct vh.Distinct) {
	fams := c14HistFamilies(cfg)
	type job struct{ F, Rot int }
	var jobs []job
	for fi, fam := range fams {
		for rot := range fam.Variants {
			jobs = append(jobs, job{fi, rot})
		}
	}
	type jres struct {
		Obs histObs
		Err string
	}
	outs := parallel(len(jobs), "history", caseNo,
		func(i int) any {
			return map[string]any{"history process": jobs[i], "variants": fams[jobs[i].F].Variants}
		},
		func(i int) jres {
			ho, err := spawnHist(cfg, jobs[i].F, jobs[i].Rot)
			if err != nil {
				return jres{Err: err.Error()}
			}
			return jres{Obs: ho}
		})
	byJob := map[job]jres{}
	for i, j := range jobs {
		byJob[j] = outs[i]
		if outs[i].Err != "" {
			res.Fail(vh.Failure{Case: caseNo, Stream: "history", Sig: "C14 history process failed (harness)", Clause: "harness expectation", Input: map[string]any{"family": j.F, "rotation": j.Rot}, Got: outs[i].Err})
		}
	}
	for fi, fam := range fams {
		n := len(fam.Variants)
		res.Count("history_family")
		for vi, v := range fam.Variants {
			first := byJob[job{fi, vi}]
			if first.Err != "" {
				continue
			}
			ref := first.Obs[strconv.Itoa(vi)]
			valid := true
			for _, pkg := range v.Packages {
				fs := ref[pkg]
				if len(fs) == 0 || fs[0].Path == "error" {
					valid = false
					et := "no output"
					if len(fs) > 0 {
						et = fs[0].Text
					}
					res.Fail(vh.Failure{Case: caseNo, Stream: "history", Sig: "C14 generated history bundle does not compile: " + errClass(et), Clause: "valid bundles compile (harness expectation; see C07)", Input: map[string]any{"files": v.Content, "packages": v.Packages, "package": pkg}, Got: et})
				}
			}
			if !valid {
				continue
			}
			distinct.Add("history " + fmt.Sprint(v.Content))
			for rot := 0; rot < n; rot++ {
				if rot == vi {
					continue
				}
				other := byJob[job{fi, rot}]
				if other.Err != "" {
					continue
				}
				res.Count("history_pair")
				var earlier []map[string]string
				var earlierIdx []int
				for _, e := range histOrder(n, rot) {
					if e == vi {
						break
					}
					earlierIdx = append(earlierIdx, e)
					earlier = append(earlier, fam.Variants[e].Content)
				}
				in := map[string]any{
					"earlier bundles (compiled and printed first, in this order, in the same process)": earlier,
					"later bundle (files)": v.Content, "packages": v.Packages, "paths shared with different contents": fam.Shared,
					"compared": fmt.Sprintf("variant %d of family %d printed first in a fresh process vs printed after variants %v in another fresh process", vi, fi, earlierIdx),
				}
				got := other.Obs[strconv.Itoa(vi)]
				for _, pkg := range v.Packages {
					bf, rf := ref[pkg], got[pkg]
					if len(bf) != len(rf) || (len(rf) > 0 && rf[0].Path == "error") {
						g := fmt.Sprintf("package %s: %d files without history, %d after the earlier bundles", pkg, len(bf), len(rf))
						if len(rf) > 0 && rf[0].Path == "error" {
							g = fmt.Sprintf("package %s compiles and prints without history; after the earlier bundles: %s", pkg, rf[0].Text)
						}
						res.Fail(vh.Failure{Case: caseNo, Stream: "history", Sig: "C14 compile outcome depends on bundles compiled earlier in the process", Clause: "output does not depend on earlier compilations/prints in the process", Input: in, Got: g})
						continue
					}
					for i := range bf {
						switch {
						case bf[i].Path != rf[i].Path:
							res.Fail(vh.Failure{Case: caseNo, Stream: "history", Sig: "C14 order of output files depends on bundles compiled earlier in the process", Clause: "output does not depend on earlier compilations/prints in the process", Input: in, Got: fmt.Sprintf("%s vs %s", bf[i].Path, rf[i].Path)})
						case bf[i].Hash != rf[i].Hash:
							_, d := firstDiffClass(bf[i].Text, rf[i].Text)
							res.Fail(vh.Failure{Case: caseNo, Stream: "history", Sig: "C14 descriptor bytes depend on bundles compiled earlier in the process", Clause: "output does not depend on earlier compilations/prints in the process (byte-identical descriptors)", Input: in, Got: fmt.Sprintf("%s: hash %s vs %s; printed text: %s", bf[i].Path, bf[i].Hash, rf[i].Hash, d)})
						case bf[i].Text != rf[i].Text:
							cls, d := firstDiffClass(bf[i].Text, rf[i].Text)
							res.Fail(vh.Failure{Case: caseNo, Stream: "history", Sig: "C14 printed text depends on bundles printed earlier in the process: " + cls, Clause: "output does not depend on earlier compilations/prints in the process (byte-identical printed .proto text)", Input: in, Got: fmt.Sprintf("%s (without history vs after the earlier bundles): %s", bf[i].Path, d)})
						}
					}
				}
			}
		}
	}
}

package main

import (
	"fmt"
	"strings"

	"verifharness/vh"
)

// Entity declarations through the converter (coq/model/CmpbEntity.v = the `ent` family's expansion model
// mapped onto the converter model). Each case is written twice by hand: the Entity.v term and the j5s text.

type entCase struct {
	Name, Coq, Text string
}

func bsT(s string) string { return "(bs " + vh.CoqString(s) + ")" }

func entityCases() []entCase {
	str := func(n string) string { return fmt.Sprintf("mkU %s (KScalar 9 (bs \"string\")) false false", bsT(n)) }
	pk := "mkK (mkU (bs \"fooId\") (KKey true None None) false false) false"
	return []entCase{
		{"minimal",
			fmt.Sprintf("mkE (bs \"foo.v1\") (bs \"Foo\") [] [%s] [] [bs \"ACTIVE\"] [] [] [] None []", pk),
			"package foo.v1\n\nentity Foo {\n  key fooId key:id62 {\n    primary = true\n  }\n  status ACTIVE\n}\n"},
		{"data events command summary query schema",
			fmt.Sprintf("mkE (bs \"foo.v1\") (bs \"Foo\") [] [%s] [%s; mkU (bs \"part\") (KObject (bs \"Part\")) false false] [bs \"ACTIVE\"; bs \"INACTIVE\"] [mkEv (bs \"Create\") [%s]; mkEv (bs \"Archive\") []] [mkC None None [mkM (bs \"Rename\") 2 (bs \"rename\") [mkU (bs \"name\") (KScalar 9 (bs \"string\")) true false] None]] [mkS [] [%s]] (Some (mkQ true [] false)) [SObject (bs \"Part\") [%s]]",
				pk, str("name"), str("name"), str("name"), str("x")),
			"package foo.v1\n\nentity Foo {\n  key fooId key:id62 {\n    primary = true\n  }\n  data name string\n  data part object:Part\n  status ACTIVE\n  status INACTIVE\n  event Create {\n    field name string\n  }\n  event Archive {\n  }\n  command {\n    method Rename {\n      httpMethod = \"POST\"\n      httpPath = \"rename\"\n      request {\n        field name ! string\n      }\n    }\n  }\n  summary {\n    field name string\n  }\n  object Part {\n    field x string\n  }\n  query {\n    eventsInGet = true\n  }\n}\n"},
		{"data refers to a missing object",
			fmt.Sprintf("mkE (bs \"foo.v1\") (bs \"Foo\") [] [%s] [mkU (bs \"part\") (KObject (bs \"Missing\")) false false] [bs \"ACTIVE\"] [] [] [] None []", pk),
			"package foo.v1\n\nentity Foo {\n  key fooId key:id62 {\n    primary = true\n  }\n  data part object:Missing\n  status ACTIVE\n}\n"},
		{"tenant key, enum schema, default status filter",
			fmt.Sprintf("mkE (bs \"foo.v1\") (bs \"Foo\") [] [%s; mkK (mkU (bs \"accountId\") (KKey false None (Some (bs \"account\"))) false false) false] [mkU (bs \"kind\") (Entity.KEnum (bs \"Kind\")) false false] [bs \"ACTIVE\"; bs \"INACTIVE\"] [mkEv (bs \"Create\") [%s]] [] [] (Some (mkQ false [bs \"ACTIVE\"] false)) [SEnum (bs \"Kind\") [bs \"A\"; bs \"B\"]]", pk, str("name")),
			"package foo.v1\n\nentity Foo {\n  key fooId key:id62 {\n    primary = true\n  }\n  key accountId key:id62 {\n    tenant = \"account\"\n  }\n  data kind enum:Kind\n  status ACTIVE\n  status INACTIVE\n  event Create {\n    field name string\n  }\n  enum Kind {\n    option A\n    option B\n  }\n  query {\n    defaultStatusFilter = [\"ACTIVE\"]\n  }\n}\n"},
		{"unknown default status filter",
			fmt.Sprintf("mkE (bs \"foo.v1\") (bs \"Foo\") [] [%s] [] [bs \"ACTIVE\"] [] [] [] (Some (mkQ false [bs \"NOPE\"] false)) []", pk),
			"package foo.v1\n\nentity Foo {\n  key fooId key:id62 {\n    primary = true\n  }\n  status ACTIVE\n  query {\n    defaultStatusFilter = [\"NOPE\"]\n  }\n}\n"},
		{"optional primary key",
			"mkE (bs \"foo.v1\") (bs \"Foo\") [] [mkK (mkU (bs \"fooId\") (KKey true None None) false true) false] [] [bs \"ACTIVE\"] [] [] [] None []",
			"package foo.v1\n\nentity Foo {\n  key fooId ? key:id62 {\n    primary = true\n  }\n  status ACTIVE\n}\n"},
	}
}

var constImports = map[string]bool{
	"buf/validate/validate.proto": true, "j5/ext/v1/annotations.proto": true, "j5/types/date/v1/date.proto": true,
	"j5/types/decimal/v1/decimal.proto": true, "j5/list/v1/annotations.proto": true, "google/protobuf/timestamp.proto": true,
	"j5/types/any/v1/any.proto": true, "google/api/annotations.proto": true, "google/api/httpbody.proto": true,
	"google/protobuf/empty.proto": true, "j5/messaging/v1/annotations.proto": true,
}

func onlyConst(xs []string) []string {
	var out []string
	for _, x := range xs {
		if constImports[x] {
			out = append(out, x)
		}
	}
	return out
}

func runEntities(cfg *vh.Config, res *vh.Result, caseNo *int) (terms []string, recs []vh.CaseRec) {
	for _, ec := range entityCases() {
		files := map[string]string{mainFile: ec.Text}
		in := map[string]any{"entity": ec.Name, "files": files}
		c := compileOnce(files, "foo.v1")
		res.Count("entity")
		var verdict string
		var main, service, topic []string
		switch {
		case c.TimedOut:
			res.Fail(vh.Failure{Case: *caseNo, Stream: "entity", Sig: "C07 entity " + ec.Name + ": hang", Clause: "never hangs", Input: in, Got: "timeout"})
			*caseNo++
			continue
		case c.Panic != nil:
			verdict = "VPanic"
			res.Fail(vh.Failure{Case: *caseNo, Stream: "entity", Sig: "C07 entity " + ec.Name + ": panic " + errClass(fmt.Sprint(c.Panic)), Clause: "never panics", Input: in, Got: fmt.Sprint(c.Panic)})
		case c.Err != nil:
			verdict = "VConvErr"
			if strings.HasPrefix(c.Err.Error(), "resolve file") {
				verdict = "VLinkErr"
				res.Fail(vh.Failure{Case: *caseNo, Stream: "entity", Sig: "C07 entity " + ec.Name + ": link error in isolation", Clause: "accepted and links", Input: in, Got: c.Err.Error()})
			}
		default:
			verdict = "VOk"
			if f := fileByPath(c.Files, mainProto); f != nil {
				main = onlyConst(depList(f))
			}
			if f := fileByPath(c.Files, "foo/v1/service/a.p.j5s.proto"); f != nil {
				service = onlyConst(depList(f))
			}
			if f := fileByPath(c.Files, "foo/v1/topic/a.p.j5s.proto"); f != nil {
				topic = onlyConst(depList(f))
			}
		}
		terms = append(terms, fmt.Sprintf("CEntityFile (%s) %s %s %s %s", ec.Coq, verdict, coqStrList(main), coqStrList(service), coqStrList(topic)))
		recs = append(recs, vh.CaseRec{Case: *caseNo, Stream: "entity", Input: in, Impl: map[string]any{"verdict": verdict, "main": main, "service": service, "topic": topic}})
		*caseNo++
	}
	return terms, recs
}

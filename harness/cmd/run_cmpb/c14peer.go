package main

import (
	"encoding/json"
	"fmt"
	"os"
	"os/exec"
	"path/filepath"
	"sort"
	"strconv"
	"strings"

	"github.com/pentops/j5/lib/verifshim/compile"
	"verifharness/vh"
)

// Peer processes: state that lives for the whole process (a package-level cache, a registry) makes
// every configuration of ONE process agree with the first one, so in-process repetition cannot
// see a dependence on the listing order. A peer is a fresh process that compiles a few bundles with
// REVERSED listings as the very first thing it does; the main process compares its own baseline
// (sorted listings) with the peer's result.

const peerEnv = "VERIF_CMPB_PEER" // comma-separated bundle indexes

func init() { vh.Register("C14PEER", runC14Peer) }

type peerObs map[string]map[string][]fileObs // bundle index -> package -> files

func reversed[T any](xs []T) []T {
	out := make([]T, len(xs))
	for i, x := range xs {
		out[len(xs)-1-i] = x
	}
	return out
}

func c14Bundles(cfg *vh.Config) []bundleT {
	rB := cfg.R.Fork("bundles")
	nB := cfg.Scale(28, 140)
	bundles := make([]bundleT, nB)
	for i := range bundles {
		bundles[i] = genBundle(rB)
	}
	bundles[0] = collisionBundle()
	if nB > 3 {
		bundles[1] = nestedDirBundle()
		bundles[2] = sharedShortNameBundle()
	}
	return bundles
}

func runC14Peer(cfg *vh.Config) error {
	restore := quietStdout()
	defer restore()
	bundles := c14Bundles(cfg)
	out := peerObs{}
	for _, s := range strings.Split(os.Getenv(peerEnv), ",") {
		i, err := strconv.Atoi(s)
		if err != nil || i < 0 || i >= len(bundles) {
			continue
		}
		b := bundles[i]
		res := map[string][]fileObs{}
		for _, pkg := range reversed(b.Packages) {
			files := &compile.Files{Content: b.Content, Packages: reversed(b.Packages), Permute: func(in []string) []string {
				sorted := append([]string{}, in...)
				sort.Strings(sorted)
				return reversed(sorted)
			}}
			set, err := compile.NewSet(files, nil)
			if err != nil {
				continue
			}
			fs, et := safeCompilePkg(set, pkg)
			if et != "" {
				continue
			}
			if obs, oe := observeFiles(fs); oe == "" {
				res[pkg] = obs
			}
		}
		out[strconv.Itoa(i)] = res
	}
	b, err := json.Marshal(out)
	if err != nil {
		return err
	}
	return os.WriteFile(filepath.Join(cfg.Out, "peer.json"), b, 0o644)
}

// spawnPeer runs a fresh process for the given bundle indexes and returns what it observed.
func spawnPeer(cfg *vh.Config, idx []int) (peerObs, error) {
	dir, err := os.MkdirTemp(cfg.Out, "peer")
	if err != nil {
		return nil, err
	}
	defer os.RemoveAll(dir)
	var ss []string
	for _, i := range idx {
		ss = append(ss, strconv.Itoa(i))
	}
	args := []string{"-prop", "C14PEER", "-seed", fmt.Sprint(cfg.Seed), "-tier", cfg.Tier, "-out", dir}
	if cfg.N > 0 {
		args = append(args, "-n", fmt.Sprint(cfg.N))
	}
	if cfg.Mult > 1 {
		args = append(args, "-mult", fmt.Sprint(cfg.Mult))
	}
	cmd := exec.Command(os.Args[0], args...)
	cmd.Env = append(os.Environ(), peerEnv+"="+strings.Join(ss, ","))
	if outb, err := cmd.CombinedOutput(); err != nil {
		return nil, fmt.Errorf("peer process: %v: %s", err, truncate(string(outb), 300))
	}
	b, err := os.ReadFile(filepath.Join(dir, "peer.json"))
	if err != nil {
		return nil, err
	}
	var po peerObs
	if err := json.Unmarshal(b, &po); err != nil {
		return nil, err
	}
	return po, nil
}

package main

import (
	"fmt"
	"sort"
	"strings"

	"verifharness/vh"
)

// ---- random multi-file, multi-package bundles of the documented language (C14) ----

type declRef struct {
	Kind string // object | oneof | enum
	Name string
	Pkg  string
}

type bundleT struct {
	Content  map[string]string
	Packages []string // in dependency order (a package imports only earlier ones)
}

// package naming schemes (in dependency order: a package imports only earlier ones). The import short
// name of a package is the segment before the version ("bar" for acme.billing.bar.v1): packages of three
// and four segments, and a package whose directory lies below another package's directory, in both
// dependency directions.
var bundleSchemes = [][]string{
	{"foo.v1", "bar.v1", "baz.v1"},
	{"acme.foo.v1", "acme.billing.bar.v1", "baz.v1"},
	{"outer.v1", "outer.v1.inner.v1", "baz.v1"},
	{"outer.v1.inner.v1", "outer.v1", "baz.v1"},
	{"foo.bar.v1", "foo.baz.v1", "foo.bar.v1.sub.v1"},
}

// pkgShort: the name an import without alias brings into scope (README "Packages and Imports")
func pkgShort(pkg string) string {
	parts := strings.Split(pkg, ".")
	if len(parts) < 2 {
		return pkg
	}
	return parts[len(parts)-2]
}

// fields that need no reference, taken from the C07 field space (in the language, no known gap)
func scalarFtys() []fty {
	var out []fty
	for _, t := range allFtys(false) {
		p := propT{Shape: shapeT{Kind: "plain", Item: t}}
		if !p.inLanguage() || p.knownGap() != "" {
			continue
		}
		switch t.Kind {
		case "object":
			if t.Ref != rInlineObject {
				continue
			}
		case "oneof":
			if t.Ref != rInlineOneof {
				continue
			}
		case "enum":
			if t.Ref != rInlineEnum {
				continue
			}
		}
		out = append(out, t)
	}
	return out
}

func genField(r *vh.Rand, name string, pool []fty, refs []declRef, alias map[string]string, used map[string]bool) []string {
	wrapper := ""
	prefixFor := func(kind string) string { return "" }
	switch r.Intn(6) {
	case 0:
		wrapper = "array:"
		prefixFor = func(kind string) string { return "items." + kind + "." }
	case 1:
		wrapper = "map:"
		prefixFor = func(kind string) string { return "itemSchema." + kind + "." }
	}
	marker := ""
	switch r.Intn(8) {
	case 0:
		marker = "! "
	case 1:
		if wrapper == "" {
			marker = "? "
		}
	}
	if len(refs) > 0 && r.Chance(30) {
		d := vh.Pick(r, refs)
		tn := d.Name
		if a, ok := alias[d.Pkg]; ok {
			tn = a + "." + d.Name
			used[d.Pkg] = true
		}
		var body []string
		if d.Kind == "enum" && r.Chance(50) {
			// every generated enum has the option V0; the compiled rule holds its NUMBER
			body = append(body, prefixFor(d.Kind)+vh.Pick(r, []string{`rules.in = ["V0"]`, `rules.notIn = ["V0"]`}))
		}
		if r.Chance(30) && d.Kind != "object" {
			body = append(body, prefixFor(d.Kind)+"listRules.filtering.filterable = true")
		}
		if d.Kind == "object" && r.Chance(20) {
			body = append(body, prefixFor(d.Kind)+"rules.minProperties = 1")
		}
		head := fmt.Sprintf("  field %s %s%s%s:%s", name, marker, wrapper, d.Kind, tn)
		if len(body) == 0 {
			return []string{head}
		}
		out := []string{head + " {"}
		for _, l := range body {
			out = append(out, "    "+l)
		}
		return append(out, "  }")
	}
	t := vh.Pick(r, pool)
	if t.Kind == "key" && t.Ent == "primaryT" && marker == "? " {
		marker = ""
	}
	body := t.body(prefixFor(t.Kind))
	if wrapper == "array:" && r.Chance(30) {
		body = append(body, `ext.singleForm = "item"`)
	}
	if wrapper == "array:" && r.Chance(30) {
		body = append(body, "rules.minItems = 1")
	}
	head := fmt.Sprintf("  field %s %s%s%s", name, marker, wrapper, t.typeSpec())
	if len(body) == 0 {
		return []string{head}
	}
	out := []string{head + " {"}
	for _, l := range body {
		out = append(out, "    "+l)
	}
	return append(out, "  }")
}

func genBundle(r *vh.Rand) bundleT {
	pool := scalarFtys()
	b := bundleT{Content: map[string]string{}}
	nPkg := r.Range(1, 3)
	bundlePkgs := bundleSchemes[0]
	if r.Chance(55) {
		bundlePkgs = vh.Pick(r, bundleSchemes[1:])
		if nPkg < 2 {
			nPkg = 2
		}
	}
	exported := map[string][]declRef{} // package -> declarations visible to later files/packages
	noAlias := map[string]bool{}       // file-local: import written without an alias
	for pi := 0; pi < nPkg; pi++ {
		pkg := bundlePkgs[pi]
		b.Packages = append(b.Packages, pkg)
		dir := strings.ReplaceAll(pkg, ".", "/")
		short := pkgShort(pkg)
		nFiles := r.Range(1, 4)
		for fi := 0; fi < nFiles; fi++ {
			letter := string(rune('a' + fi))
			tag := strings.ToUpper(short[:1]) + short[1:] + strings.ToUpper(letter)
			// what this file may refer to: earlier files of this package, and earlier packages
			var refs []declRef
			refs = append(refs, exported[pkg]...)
			alias := map[string]string{}
			noAlias = map[string]bool{}
			takenShort := map[string]bool{}
			for pj := 0; pj < pi; pj++ {
				if r.Chance(60) {
					sh := pkgShort(bundlePkgs[pj])
					if takenShort[sh] {
						// a second import with the same short name gets a distinct alias
						alias[bundlePkgs[pj]] = sh + fmt.Sprint(pj)
					} else {
						alias[bundlePkgs[pj]] = sh
						// by package name (no alias) or with an alias: both bring the same name into scope
						noAlias[bundlePkgs[pj]] = r.Chance(50)
					}
					takenShort[sh] = true
					refs = append(refs, exported[bundlePkgs[pj]]...)
				}
			}
			used := map[string]bool{}
			var decls []string
			var mine []declRef
			nDecl := r.Range(1, 4)
			for di := 0; di < nDecl; di++ {
				name := fmt.Sprintf("%s%d", tag, di)
				avail := append(append([]declRef{}, refs...), mine...)
				switch k := r.Intn(10); {
				case k < 4: // object
					var ls []string
					ls = append(ls, "object "+name+" {")
					if r.Chance(30) {
						ls = append(ls, "  | "+name+" is described", "")
					}
					for f := 0; f < r.Range(1, 5); f++ {
						ls = append(ls, genField(r, fmt.Sprintf("f%d", f), pool, avail, alias, used)...)
					}
					ls = append(ls, "}")
					decls = append(decls, strings.Join(ls, "\n"))
					mine = append(mine, declRef{"object", name, pkg})
				case k < 6: // enum with info maps (several keys: exercises map-option printing)
					var ls []string
					ls = append(ls, "enum "+name+" {")
					keys := []string{"color", "hex", "Hex", "shape", "weight", "zeta", "alpha", "mid", "HEX"}
					keys = shuffled(r, keys)
					nk := r.Intn(len(keys) + 1)
					for _, kk := range keys[:nk] {
						ls = append(ls, "  info "+kk+" {", "    label = \""+strings.ToUpper(kk)+"\"", "  }")
					}
					for o := 0; o < r.Range(1, 4); o++ {
						if nk > 0 && r.Chance(70) {
							ls = append(ls, fmt.Sprintf("  option V%d {", o))
							for _, kk := range keys[:nk] {
								if r.Chance(80) {
									ls = append(ls, fmt.Sprintf("    info.%s = \"%s%d\"", kk, kk, o))
								}
							}
							ls = append(ls, "  }")
						} else {
							ls = append(ls, fmt.Sprintf("  option V%d", o))
						}
					}
					ls = append(ls, "}")
					decls = append(decls, strings.Join(ls, "\n"))
					mine = append(mine, declRef{"enum", name, pkg})
				case k < 7: // oneof
					var ls []string
					ls = append(ls, "oneof "+name+" {")
					for o := 0; o < r.Range(1, 3); o++ {
						ls = append(ls, fmt.Sprintf("  option o%d object {", o), "    field x string", "  }")
					}
					ls = append(ls, "}")
					decls = append(decls, strings.Join(ls, "\n"))
					mine = append(mine, declRef{"oneof", name, pkg})
				case k < 8: // service with service and method options
					var ls []string
					ls = append(ls, "service "+name+" {", fmt.Sprintf("  basePath = \"/%s/%s\"", short, strings.ToLower(name)))
					if r.Chance(50) {
						ls = append(ls, "  options.audience = [\"ops\"]")
					}
					for m := 0; m < r.Range(1, 3); m++ {
						verb := vh.Pick(r, []string{"GET", "POST", "PUT", "DELETE", "PATCH"})
						ls = append(ls, fmt.Sprintf("  method %sM%d {", name, m), fmt.Sprintf("    httpMethod = %q", verb), fmt.Sprintf("    httpPath = \"/m%d/:id\"", m))
						if r.Chance(60) {
							ls = append(ls, "    options.label = \"lbl\"")
						}
						ls = append(ls, "    request {", "      field id string")
						for f := 0; f < r.Intn(3); f++ {
							for _, l := range genField(r, fmt.Sprintf("q%d", f), pool, nil, alias, used) {
								ls = append(ls, "    "+l)
							}
						}
						ls = append(ls, "    }")
						if r.Chance(80) {
							ls = append(ls, "    response {", "      field name string", "    }")
						}
						ls = append(ls, "  }")
					}
					ls = append(ls, "}")
					decls = append(decls, strings.Join(ls, "\n"))
				case k < 9: // topic
					switch r.Intn(3) {
					case 0:
						decls = append(decls, "topic "+name+" publish {\n  message Post"+name+" {\n    field fooId key:id62\n  }\n}")
					case 1:
						decls = append(decls, "topic "+name+" reqres {\n  request {\n    field fooId key:id62\n  }\n  reply {\n    field name string\n  }\n}")
					default:
						decls = append(decls, "topic "+name+" upsert {\n  message Upsert"+name+" {\n    field fooId key:id62\n  }\n}")
					}
				default: // entity
					decls = append(decls, "entity "+name+" {\n  key "+strings.ToLower(name)+"Id key:id62 {\n    primary = true\n  }\n  key accountId key:id62 {\n    primary = false\n    tenant = \"account\"\n  }\n  data name string\n  status ACTIVE\n  status INACTIVE\n  event Create {\n    field name string\n  }\n  event Archive {\n  }\n}")
				}
			}
			var sb strings.Builder
			sb.WriteString("package " + pkg + "\n\n")
			var imps []string
			for p := range used {
				imps = append(imps, p)
			}
			sort.Strings(imps)
			for _, p := range imps {
				if noAlias[p] {
					sb.WriteString("import " + p + "\n")
				} else {
					sb.WriteString("import " + p + ":" + alias[p] + "\n")
				}
			}
			if len(imps) > 0 {
				sb.WriteString("\n")
			}
			sb.WriteString(strings.Join(decls, "\n\n"))
			sb.WriteString("\n")
			b.Content[dir+"/"+letter+".j5s"] = sb.String()
			exported[pkg] = append(exported[pkg], mine...)
		}
	}
	return b
}

// collisionBundle: same-named enums in scopes that a careless cache key would confuse (a main-package
// object named like a service request message, with an inline enum of the same name but another
// numbering; a same-named top-level enum in another package), every use constrained by rules.in /
// rules.notIn, whose compiled form holds the option NUMBERS.
func collisionBundle() bundleT {
	return bundleT{
		Packages: []string{"foo.v1", "bar.v1"},
		Content: map[string]string{
			"foo/v1/a.j5s": `package foo.v1

object PingRequest {
  field kind enum {
    option X
    option Y
    option Z
    rules.in = ["Y", "Z"]
  }
  field kinds array:enum:Kind {
    items.enum.rules.notIn = ["B"]
  }
}

enum Kind {
  option A
  option B
  option C
}
`,
			"foo/v1/b.j5s": `package foo.v1

service Pinger {
  basePath = "/foo/pinger"
  method Ping {
    httpMethod = "POST"
    httpPath = "/ping"
    request {
      field kind enum {
        option Z
        option Y
        option X
        rules.in = ["Y", "Z"]
      }
    }
    response {
      field k enum:Kind {
        rules.in = ["B", "C"]
      }
      field kind enum {
        option Y
        option X
        rules.notIn = ["Y"]
      }
    }
  }
}
`,
			"foo/v1/c.j5s": `package foo.v1

object Service {
  field kind enum {
    option Y
    option Z
    option X
    rules.in = ["Z"]
  }
}
`,
			// fields carrying validation rules AND list rules at once: (buf.validate.field) and (j5.list.v1.field) have the
			// same short name and the same index in their defining files, and a generated file has no source lines,
			// so only the qualified name orders them (enum fields always get defined_only; `!` adds required).
			// rules.in / rules.notIn lists of 4-5 values in an order that is neither the declaration order nor sorted:
			// the compiled rule keeps the order the source lists them in.
			"foo/v1/d.j5s": `package foo.v1

object Listed {
  | Listed has fields with validation and list rules.
  | Second line of the description.

  field status enum:Kind {
    | the status
    listRules.filtering.filterable = true
  }
  field inlineStatus enum {
    option P
    option Q
    rules.in = ["Q"]
    listRules.filtering.filterable = true
  }
  field name string {
    | the name
    rules.minLength = 1
    listRules.searching.searchable = true
  }
  field count integer:INT64 {
    rules.maximum = 5000000000
    listRules.sorting.sortable = true
  }
  field flag ! bool {
    listRules.filtering.filterable = true
  }
  field listedId ! key:id62 {
    listRules.filtering.filterable = true
  }
  field since ! date {
    listRules.filtering.filterable = true
  }
  field statuses array:enum:Kind {
    rules.minItems = 1
    items.enum.listRules.filtering.filterable = true
  }
  field wide enum:Wide {
    rules.in = ["A5", "A2", "A6", "A1", "A4"]
  }
  field wides array:enum:Wide {
    items.enum.rules.notIn = ["A6", "A3", "A1", "A5"]
  }
}

enum Wide {
  | Wide has six options.
  option A1 | the first
  option A2
  option A3
  option A4
  option A5
  option A6
}

enum Shade {
  | Shades with info keys that differ in letter case only.

  info hex {
    label = "hex"
  }
  info Hex {
    label = "Hex"
  }
  info HEX {
    label = "HEX"
  }
  info area {
    label = "area"
  }
  info Zone {
    label = "Zone"
  }
  option RED {
    info.hex = "ff0000"
    info.Hex = "FF0000"
    info.HEX = "#FF0000"
    info.area = "a"
    info.Zone = "z"
  }
  option BLUE {
    | the blue one
    info.Zone = "y"
    info.HEX = "#0000FF"
    info.hex = "0000ff"
  }
}
`,
			"bar/v1/a.j5s": `package bar.v1

import foo.v1:foo

enum Kind {
  option C
  option B
  option A
}

object Use {
  field k enum:Kind {
    rules.in = ["A"]
  }
  field fk enum:foo.Kind {
    rules.in = ["A"]
  }
  field ping object:foo.PingRequest
}
`,
		},
	}
}

// nestedDirBundle: a local package whose directory lies below another local package's directory, the
// enclosing one importing the nested one (and a third, unrelated package): attributing a file to a package
// must not depend on the order the packages are listed in.
func nestedDirBundle() bundleT {
	return bundleT{
		Packages: []string{"outer.v1.inner.v1", "other.v1", "outer.v1"},
		Content: map[string]string{
			"outer/v1/outer.j5s":          "package outer.v1\n\nimport outer.v1.inner.v1:inner\n\nobject Outer {\n  field name string\n  field inner object:inner.Inner\n  field kind enum:inner.Kind {\n    rules.in = [\"B\"]\n  }\n}\n",
			"outer/v1/inner/v1/inner.j5s": "package outer.v1.inner.v1\n\nobject Inner {\n  field name string\n}\n\nenum Kind {\n  option A\n  option B\n}\n",
			"outer/v1/inner/v1/more.j5s":  "package outer.v1.inner.v1\n\nobject More {\n  field inner object:Inner\n}\n",
			"other/v1/other.j5s":          "package other.v1\n\nimport outer.v1\n\nobject Other {\n  field o object:outer.Outer\n}\n",
		},
	}
}

// sharedShortNameBundle: imports without alias of packages that share the segment before the version
// (foo.v1 + foo.v2, a.foo.v1 + b.foo.v1) and references through that short name to a type every one of them
// defines. At the short name the LAST import wins; which one it is must not vary between compilations.
func sharedShortNameBundle() bundleT {
	thing := func(pkg, field string) string {
		return "package " + pkg + "\n\nobject Thing {\n  field " + field + " string\n}\n\nenum Kind {\n  option A\n  option " + strings.ToUpper(field) + "\n}\n"
	}
	return bundleT{
		Packages: []string{"foo.v1", "foo.v2", "a.foo.v1", "b.foo.v1", "use.v1"},
		Content: map[string]string{
			"foo/v1/t.j5s":   thing("foo.v1", "one"),
			"foo/v2/t.j5s":   thing("foo.v2", "two"),
			"a/foo/v1/t.j5s": thing("a.foo.v1", "three"),
			"b/foo/v1/t.j5s": thing("b.foo.v1", "four"),
			"use/v1/a.j5s":   "package use.v1\n\nimport foo.v1\nimport foo.v2\nimport a.foo.v1\nimport b.foo.v1\n\nobject Use {\n  field t object:foo.Thing\n  field ts array:object:foo.Thing\n  field k enum:foo.Kind\n  field t1 object:foo.v1.Thing\n  field t2 object:foo.v2.Thing\n  field t3 object:a.foo.v1.Thing\n  field t4 object:b.foo.v1.Thing\n}\n",
			"use/v1/b.j5s":   "package use.v1\n\nimport foo.v2\nimport foo.v1\n\nobject UseB {\n  field t object:foo.Thing\n  field t2 object:foo.v2.Thing\n}\n",
		},
	}
}

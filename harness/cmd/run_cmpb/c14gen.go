package main

import (
	"fmt"
	"sort"
	"strings"

	"verifharness/vh"
)

// ---- random multi-file, multi-package bundles of the documented language (C14) ----

type declRef struct {
	Kind string // object | oneof | enum
	Name string
	Pkg  string
}

type bundleT struct {
	Content  map[string]string
	Packages []string // in dependency order (a package imports only earlier ones)
}

var bundlePkgs = []string{"foo.v1", "bar.v1", "baz.v1"}

// fields that need no reference, taken from the C07 field space (in the language, no known gap)
func scalarFtys() []fty {
	var out []fty
	for _, t := range allFtys(false) {
		p := propT{Shape: shapeT{Kind: "plain", Item: t}}
		if !p.inLanguage() || p.knownGap() != "" {
			continue
		}
		switch t.Kind {
		case "object":
			if t.Ref != rInlineObject {
				continue
			}
		case "oneof":
			if t.Ref != rInlineOneof {
				continue
			}
		case "enum":
			if t.Ref != rInlineEnum {
				continue
			}
		}
		out = append(out, t)
	}
	return out
}

func genField(r *vh.Rand, name string, pool []fty, refs []declRef, alias map[string]string, used map[string]bool) []string {
	wrapper := ""
	prefixFor := func(kind string) string { return "" }
	switch r.Intn(6) {
	case 0:
		wrapper = "array:"
		prefixFor = func(kind string) string { return "items." + kind + "." }
	case 1:
		wrapper = "map:"
		prefixFor = func(kind string) string { return "itemSchema." + kind + "." }
	}
	marker := ""
	switch r.Intn(8) {
	case 0:
		marker = "! "
	case 1:
		if wrapper == "" {
			marker = "? "
		}
	}
	if len(refs) > 0 && r.Chance(30) {
		d := vh.Pick(r, refs)
		tn := d.Name
		if a, ok := alias[d.Pkg]; ok {
			tn = a + "." + d.Name
			used[d.Pkg] = true
		}
		var body []string
		if d.Kind == "enum" && r.Chance(50) {
			// every generated enum has the option V0; the compiled rule holds its NUMBER
			body = append(body, prefixFor(d.Kind)+vh.Pick(r, []string{`rules.in = ["V0"]`, `rules.notIn = ["V0"]`}))
		}
		if r.Chance(30) && d.Kind != "object" {
			body = append(body, prefixFor(d.Kind)+"listRules.filtering.filterable = true")
		}
		if d.Kind == "object" && r.Chance(20) {
			body = append(body, prefixFor(d.Kind)+"rules.minProperties = 1")
		}
		head := fmt.Sprintf("  field %s %s%s%s:%s", name, marker, wrapper, d.Kind, tn)
		if len(body) == 0 {
			return []string{head}
		}
		out := []string{head + " {"}
		for _, l := range body {
			out = append(out, "    "+l)
		}
		return append(out, "  }")
	}
	t := vh.Pick(r, pool)
	if t.Kind == "key" && t.Ent == "primaryT" && marker == "? " {
		marker = ""
	}
	body := t.body(prefixFor(t.Kind))
	if wrapper == "array:" && r.Chance(30) {
		body = append(body, `ext.singleForm = "item"`)
	}
	if wrapper == "array:" && r.Chance(30) {
		body = append(body, "rules.minItems = 1")
	}
	head := fmt.Sprintf("  field %s %s%s%s", name, marker, wrapper, t.typeSpec())
	if len(body) == 0 {
		return []string{head}
	}
	out := []string{head + " {"}
	for _, l := range body {
		out = append(out, "    "+l)
	}
	return append(out, "  }")
}

func genBundle(r *vh.Rand) bundleT {
	pool := scalarFtys()
	b := bundleT{Content: map[string]string{}}
	nPkg := r.Range(1, 3)
	exported := map[string][]declRef{} // package -> declarations visible to later files/packages
	for pi := 0; pi < nPkg; pi++ {
		pkg := bundlePkgs[pi]
		b.Packages = append(b.Packages, pkg)
		dir := strings.ReplaceAll(pkg, ".", "/")
		short := strings.SplitN(pkg, ".", 2)[0]
		nFiles := r.Range(1, 4)
		for fi := 0; fi < nFiles; fi++ {
			letter := string(rune('a' + fi))
			tag := strings.ToUpper(short[:1]) + short[1:] + strings.ToUpper(letter)
			// what this file may refer to: earlier files of this package, and earlier packages
			var refs []declRef
			refs = append(refs, exported[pkg]...)
			alias := map[string]string{}
			for pj := 0; pj < pi; pj++ {
				if r.Chance(60) {
					alias[bundlePkgs[pj]] = strings.SplitN(bundlePkgs[pj], ".", 2)[0]
					refs = append(refs, exported[bundlePkgs[pj]]...)
				}
			}
			used := map[string]bool{}
			var decls []string
			var mine []declRef
			nDecl := r.Range(1, 4)
			for di := 0; di < nDecl; di++ {
				name := fmt.Sprintf("%s%d", tag, di)
				avail := append(append([]declRef{}, refs...), mine...)
				switch k := r.Intn(10); {
				case k < 4: // object
					var ls []string
					ls = append(ls, "object "+name+" {")
					if r.Chance(30) {
						ls = append(ls, "  | "+name+" is described", "")
					}
					for f := 0; f < r.Range(1, 5); f++ {
						ls = append(ls, genField(r, fmt.Sprintf("f%d", f), pool, avail, alias, used)...)
					}
					ls = append(ls, "}")
					decls = append(decls, strings.Join(ls, "\n"))
					mine = append(mine, declRef{"object", name, pkg})
				case k < 6: // enum with info maps (several keys: exercises map-option printing)
					var ls []string
					ls = append(ls, "enum "+name+" {")
					keys := []string{"color", "hex", "Hex", "shape", "weight", "zeta", "alpha", "mid", "HEX"}
					keys = shuffled(r, keys)
					nk := r.Intn(len(keys) + 1)
					for _, kk := range keys[:nk] {
						ls = append(ls, "  info "+kk+" {", "    label = \""+strings.ToUpper(kk)+"\"", "  }")
					}
					for o := 0; o < r.Range(1, 4); o++ {
						if nk > 0 && r.Chance(70) {
							ls = append(ls, fmt.Sprintf("  option V%d {", o))
							for _, kk := range keys[:nk] {
								if r.Chance(80) {
									ls = append(ls, fmt.Sprintf("    info.%s = \"%s%d\"", kk, kk, o))
								}
							}
							ls = append(ls, "  }")
						} else {
							ls = append(ls, fmt.Sprintf("  option V%d", o))
						}
					}
					ls = append(ls, "}")
					decls = append(decls, strings.Join(ls, "\n"))
					mine = append(mine, declRef{"enum", name, pkg})
				case k < 7: // oneof
					var ls []string
					ls = append(ls, "oneof "+name+" {")
					for o := 0; o < r.Range(1, 3); o++ {
						ls = append(ls, fmt.Sprintf("  option o%d object {", o), "    field x string", "  }")
					}
					ls = append(ls, "}")
					decls = append(decls, strings.Join(ls, "\n"))
					mine = append(mine, declRef{"oneof", name, pkg})
				case k < 8: // service with service and method options
					var ls []string
					ls = append(ls, "service "+name+" {", fmt.Sprintf("  basePath = \"/%s/%s\"", short, strings.ToLower(name)))
					if r.Chance(50) {
						ls = append(ls, "  options.audience = [\"ops\"]")
					}
					for m := 0; m < r.Range(1, 3); m++ {
						verb := vh.Pick(r, []string{"GET", "POST", "PUT", "DELETE", "PATCH"})
						ls = append(ls, fmt.Sprintf("  method %sM%d {", name, m), fmt.Sprintf("    httpMethod = %q", verb), fmt.Sprintf("    httpPath = \"/m%d/:id\"", m))
						if r.Chance(60) {
							ls = append(ls, "    options.label = \"lbl\"")
						}
						ls = append(ls, "    request {", "      field id string")
						for f := 0; f < r.Intn(3); f++ {
							for _, l := range genField(r, fmt.Sprintf("q%d", f), pool, nil, alias, used) {
								ls = append(ls, "    "+l)
							}
						}
						ls = append(ls, "    }")
						if r.Chance(80) {
							ls = append(ls, "    response {", "      field name string", "    }")
						}
						ls = append(ls, "  }")
					}
					ls = append(ls, "}")
					decls = append(decls, strings.Join(ls, "\n"))
				case k < 9: // topic
					switch r.Intn(3) {
					case 0:
						decls = append(decls, "topic "+name+" publish {\n  message Post"+name+" {\n    field fooId key:id62\n  }\n}")
					case 1:
						decls = append(decls, "topic "+name+" reqres {\n  request {\n    field fooId key:id62\n  }\n  reply {\n    field name string\n  }\n}")
					default:
						decls = append(decls, "topic "+name+" upsert {\n  message Upsert"+name+" {\n    field fooId key:id62\n  }\n}")
					}
				default: // entity
					decls = append(decls, "entity "+name+" {\n  key "+strings.ToLower(name)+"Id key:id62 {\n    primary = true\n  }\n  key accountId key:id62 {\n    primary = false\n    tenant = \"account\"\n  }\n  data name string\n  status ACTIVE\n  status INACTIVE\n  event Create {\n    field name string\n  }\n  event Archive {\n  }\n}")
				}
			}
			var sb strings.Builder
			sb.WriteString("package " + pkg + "\n\n")
			var imps []string
			for p := range used {
				imps = append(imps, p)
			}
			sort.Strings(imps)
			for _, p := range imps {
				sb.WriteString("import " + p + ":" + alias[p] + "\n")
			}
			if len(imps) > 0 {
				sb.WriteString("\n")
			}
			sb.WriteString(strings.Join(decls, "\n\n"))
			sb.WriteString("\n")
			b.Content[dir+"/"+letter+".j5s"] = sb.String()
			exported[pkg] = append(exported[pkg], mine...)
		}
	}
	return b
}

// collisionBundle: same-named enums in scopes that a careless cache key would confuse (a main-package
// object named like a service request message, with an inline enum of the same name but another
// numbering; a same-named top-level enum in another package), every use constrained by rules.in /
// rules.notIn, whose compiled form holds the option NUMBERS.
func collisionBundle() bundleT {
	return bundleT{
		Packages: []string{"foo.v1", "bar.v1"},
		Content: map[string]string{
			"foo/v1/a.j5s": `package foo.v1

object PingRequest {
  field kind enum {
    option X
    option Y
    option Z
    rules.in = ["Y", "Z"]
  }
  field kinds array:enum:Kind {
    items.enum.rules.notIn = ["B"]
  }
}

enum Kind {
  option A
  option B
  option C
}
`,
			"foo/v1/b.j5s": `package foo.v1

service Pinger {
  basePath = "/foo/pinger"
  method Ping {
    httpMethod = "POST"
    httpPath = "/ping"
    request {
      field kind enum {
        option Z
        option Y
        option X
        rules.in = ["Y", "Z"]
      }
    }
    response {
      field k enum:Kind {
        rules.in = ["B", "C"]
      }
      field kind enum {
        option Y
        option X
        rules.notIn = ["Y"]
      }
    }
  }
}
`,
			"foo/v1/c.j5s": `package foo.v1

object Service {
  field kind enum {
    option Y
    option Z
    option X
    rules.in = ["Z"]
  }
}
`,
			"bar/v1/a.j5s": `package bar.v1

import foo.v1:foo

enum Kind {
  option C
  option B
  option A
}

object Use {
  field k enum:Kind {
    rules.in = ["A"]
  }
  field fk enum:foo.Kind {
    rules.in = ["A"]
  }
  field ping object:foo.PingRequest
}
`,
		},
	}
}

package main

import (
	"fmt"
	"strings"

	"verifharness/vh"
)

// ---- abstract fields, mirroring coq/model/CmpbFields.v (only the expressible part) ----

type refOut string // Coq term of ref_out

const (
	rInlineObject refOut = "RInlineObject"
	rInlineOneof  refOut = "RInlineOneof"
	rInlineEnum   refOut = "RInlineEnum"
	rNotFound     refOut = "RNotFound"
	rMsgSame      refOut = "(RFound KMsg FSame)"
	rMsgOther     refOut = "(RFound KMsg FOther)"
	rEnumSame     refOut = "(RFound KEnum FSame)"
	rEnumOther    refOut = "(RFound KEnum FOther)"
)

type intRules struct {
	Min, Max   bool
	XMin, XMax int // 0 unset, 1 true, 2 false
	Bad        int // 0 bounds fine; 1 minimum > maximum (both present); 2 a bound outside the format's range
}

type fty struct {
	Kind    string // object oneof enum bool bytes date decimal float integer key string timestamp any
	Ref     refOut
	Oneof   bool // for object/oneof refs: the referenced declaration is a oneof
	Flatten bool
	Rules   bool
	ERules  int // enum: 0 none, 1 ok, 2 value not found
	LRules  bool
	Fmt     string // FLOAT32.. / INT32.. / "", informal, custom, uuid, id62
	IR      *intRules
	Ent     string // "", primaryT, primaryF, foreign, tenantOnly
	Tenant  bool
}

type shapeT struct {
	Kind       string // plain array map
	Item       fty
	Ext        int // array: 0 none, 1 present (single_form unset), 2 single_form set
	ArrayRules bool
	MapRules   bool
}

type propT struct {
	Shape    shapeT
	Required bool
	Optional bool
	Surface  int // which surface form of required/optional: 0 marker, 1 attribute
}

func b(x bool) string { return vh.BoolTerm(x) }

func optBool(x int) string {
	switch x {
	case 1:
		return "(Some true)"
	case 2:
		return "(Some false)"
	}
	return "None"
}

func (t fty) Coq() string {
	switch t.Kind {
	case "object":
		return fmt.Sprintf("(TObject %s %s %s)", t.Ref, b(t.Flatten), b(t.Rules))
	case "oneof":
		return fmt.Sprintf("(TOneof %s %s %s)", t.Ref, b(t.Rules), b(t.LRules))
	case "enum":
		return fmt.Sprintf("(TEnum %s %s %s)", t.Ref, optBool(t.ERules), b(t.LRules))
	case "bool":
		return fmt.Sprintf("(TBool %s %s)", b(t.Rules), b(t.LRules))
	case "bytes":
		return fmt.Sprintf("(TBytes %s)", b(t.Rules))
	case "date":
		return fmt.Sprintf("(TDate %s %s)", b(t.Rules), b(t.LRules))
	case "decimal":
		return fmt.Sprintf("(TDecimal %s %s)", b(t.Rules), b(t.LRules))
	case "float":
		f := map[string]string{"FLOAT32": "F32", "FLOAT64": "F64"}[t.Fmt]
		return fmt.Sprintf("(TFloat %s %s %s)", f, b(t.Rules), b(t.LRules))
	case "integer":
		f := map[string]string{"INT32": "I32", "INT64": "I64", "UINT32": "U32", "UINT64": "U64"}[t.Fmt]
		r := "None"
		if t.IR != nil {
			r = fmt.Sprintf("(Some (mkIR %s %s %s %s %s))", b(t.IR.Min), b(t.IR.Max), optBool(t.IR.XMin), optBool(t.IR.XMax), b(t.IR.Bad != 0 && (t.IR.Min || t.IR.Max)))
		}
		return fmt.Sprintf("(TInteger %s %s %s)", f, r, b(t.LRules))
	case "key":
		e := map[string]string{"": "ENone", "primaryT": "(EPrimary true)", "primaryF": "(EPrimary false)", "foreign": "EForeign", "tenantOnly": "ENilType"}[t.Ent]
		f := map[string]string{"": "KNone", "informal": "KInformal", "custom": "KCustom", "uuid": "KUuid", "id62": "KId62"}[t.Fmt]
		return fmt.Sprintf("(TKey %s %s %s %s)", e, b(t.Tenant || t.Ent == "tenantOnly"), f, b(t.LRules))
	case "string":
		return fmt.Sprintf("(TString %s %s)", b(t.Rules), b(t.LRules))
	case "timestamp":
		return fmt.Sprintf("(TTimestamp %s %s)", b(t.Rules), b(t.LRules))
	case "any":
		return fmt.Sprintf("(TAny %s)", b(t.LRules))
	}
	return "TOther"
}

func (p propT) Coq() string {
	var sh string
	switch p.Shape.Kind {
	case "plain":
		sh = fmt.Sprintf("(Plain %s)", p.Shape.Item.Coq())
	case "array":
		ext := map[int]string{0: "None", 1: "(Some false)", 2: "(Some true)"}[p.Shape.Ext]
		sh = fmt.Sprintf("(Array (Some %s) %s %s)", p.Shape.Item.Coq(), ext, b(p.Shape.ArrayRules))
	case "map":
		sh = fmt.Sprintf("(Map (Some %s) %s)", p.Shape.Item.Coq(), b(p.Shape.MapRules))
	}
	return fmt.Sprintf("(mkProp false %s %s %s)", sh, b(p.Required), b(p.Optional))
}

// ---- rendering as j5s text ----

const refFilePath = "foo/v1/types.j5s.proto"

func (t fty) typeSpec() string {
	switch t.Kind {
	case "object":
		switch t.Ref {
		case rInlineObject:
			return "object"
		case rMsgSame, rMsgOther:
			return "object:Bar"
		case rEnumSame, rEnumOther:
			return "object:Kind"
		default:
			return "object:Missing"
		}
	case "oneof":
		switch t.Ref {
		case rInlineOneof:
			return "oneof"
		case rMsgSame, rMsgOther:
			return "oneof:Choice"
		case rEnumSame, rEnumOther:
			return "oneof:Kind"
		default:
			return "oneof:Missing"
		}
	case "enum":
		switch t.Ref {
		case rInlineEnum:
			return "enum"
		case rEnumSame, rEnumOther:
			return "enum:Kind"
		case rMsgSame, rMsgOther:
			return "enum:Bar"
		default:
			return "enum:Missing"
		}
	case "float", "integer":
		return t.Kind + ":" + t.Fmt
	case "key":
		switch t.Fmt {
		case "", "custom":
			return "key"
		default:
			return "key:" + t.Fmt
		}
	}
	return t.Kind
}

// body lines of the type itself; prefix is "", "items.<kind>." or "itemSchema.<kind>."
func (t fty) body(prefix string) []string {
	var ls []string
	add := func(s string) { ls = append(ls, prefix+s) }
	switch t.Kind {
	case "object":
		if t.Ref == rInlineObject {
			ls = append(ls, "field x string")
		}
		if t.Flatten {
			add("flatten = true")
		}
		if t.Rules {
			add("rules.minProperties = 1")
		}
	case "oneof":
		if t.Ref == rInlineOneof {
			ls = append(ls, "option x object {", "  field y string", "}")
		}
		if t.Rules {
			add("rules {")
			ls = append(ls, "}")
		}
		if t.LRules {
			add("listRules.filtering.filterable = true")
		}
	case "enum":
		if t.Ref == rInlineEnum {
			ls = append(ls, "option A")
		}
		switch t.ERules {
		case 1:
			add(`rules.in = ["A"]`)
		case 2:
			add(`rules.in = ["NOPE"]`)
		}
		if t.LRules {
			add("listRules.filtering.filterable = true")
		}
	case "bool":
		if t.Rules {
			add("rules.const = true")
		}
		if t.LRules {
			add("listRules.filtering.filterable = true")
		}
	case "bytes":
		if t.Rules {
			add("rules.minLength = 1")
		}
	case "date":
		if t.Rules {
			add(`rules.minimum = "2020-01-01"`)
		}
		if t.LRules {
			add("listRules.filtering.filterable = true")
		}
	case "decimal":
		if t.Rules {
			add(`rules.minimum = "1.5"`)
		}
		if t.LRules {
			add("listRules.sorting.sortable = true")
		}
	case "float":
		if t.Rules {
			add("rules.minimum = 1.5")
		}
		if t.LRules {
			add("listRules.sorting.sortable = true")
		}
	case "integer":
		if t.IR != nil {
			n := 0
			lo, hi := "1", "9"
			switch {
			case t.IR.Bad == 1 && t.IR.Min && t.IR.Max:
				lo, hi = "9", "1"
			case t.IR.Bad != 0 && t.IR.Min:
				// beyond the 32-bit ranges (the lexer has no negative literals, and nothing is out of range for 64 bits)
				lo = map[string]string{"INT32": "3000000000", "UINT32": "5000000000"}[t.Fmt]
				hi = "9"
			case t.IR.Bad != 0 && t.IR.Max:
				hi = map[string]string{"INT32": "3000000000", "UINT32": "5000000000"}[t.Fmt]
			}
			if t.IR.Min {
				add("rules.minimum = " + lo)
				n++
			}
			if t.IR.Max {
				add("rules.maximum = " + hi)
				n++
			}
			if t.IR.XMin != 0 {
				add("rules.exclusiveMinimum = " + b(t.IR.XMin == 1))
				n++
			}
			if t.IR.XMax != 0 {
				add("rules.exclusiveMaximum = " + b(t.IR.XMax == 1))
				n++
			}
			if n == 0 {
				add("rules {")
				ls = append(ls, "}")
			}
		}
		if t.LRules {
			add("listRules.sorting.sortable = true")
		}
	case "key":
		if t.Fmt == "custom" {
			add(`format.custom.pattern = "^[a-z]+$"`)
		}
		switch t.Ent {
		case "primaryT":
			add("entity.primaryKey = true")
		case "primaryF":
			add("entity.primaryKey = false")
		case "foreign":
			add(`foreign = "bar.v1.Bar"`)
		}
		if t.Tenant || t.Ent == "tenantOnly" {
			add(`entity.tenantKey = "acct"`)
		}
		if t.LRules {
			add("listRules.filtering.filterable = true")
		}
	case "string":
		if t.Rules {
			add("rules.minLength = 1")
		}
		if t.LRules {
			add("listRules.searching.searchable = true")
		}
	case "timestamp":
		if t.Rules {
			add("rules.exclusiveMinimum = true")
		}
		if t.LRules {
			add("listRules.sorting.sortable = true")
		}
	case "any":
		if t.LRules {
			add("listRules.filtering.filterable = true")
		}
	}
	return ls
}

// Text renders the property as the only member of `object Foo` in foo/v1/a.j5s; referenced
// declarations go to the same file (FSame) or to foo/v1/types.j5s (FOther).
func (p propT) Text() map[string]string {
	t := p.Shape.Item
	var sb strings.Builder
	sb.WriteString("package foo.v1\n\nobject Foo {\n")
	for _, l := range p.fieldLines("f") {
		sb.WriteString("  " + l + "\n")
	}
	sb.WriteString("}\n")
	out := map[string]string{}
	switch t.Ref {
	case rMsgSame, rEnumSame:
		sb.WriteString("\n" + refDecls)
	case rMsgOther, rEnumOther:
		out["foo/v1/types.j5s"] = "package foo.v1\n\n" + refDecls
	}
	out["foo/v1/a.j5s"] = sb.String()
	return out
}

const refDecls = "object Bar {\n  field x string\n}\n\noneof Choice {\n  option x object {\n    field y string\n  }\n}\n\nenum Kind {\n  option A\n  option B\n}\n"

// fieldLines renders the property as `field <name> ...` (unindented lines).
func (p propT) fieldLines(name string) []string {
	t := p.Shape.Item
	spec := t.typeSpec()
	prefix := ""
	switch p.Shape.Kind {
	case "array":
		spec = "array:" + spec
		prefix = "items." + t.Kind + "."
	case "map":
		spec = "map:" + spec
		prefix = "itemSchema." + t.Kind + "."
	}
	marker := ""
	var body []string
	if p.Required {
		if p.Surface == 0 {
			marker = "! "
		} else {
			body = append(body, "required = true")
		}
	}
	if p.Optional {
		if p.Surface == 0 && !p.Required {
			marker = "? "
		} else {
			body = append(body, "optional = true")
		}
	}
	body = append(body, t.body(prefix)...)
	if p.Shape.Kind == "map" && p.Shape.MapRules {
		body = append(body, "rules.minPairs = 1")
	}
	if p.Shape.Kind == "array" {
		switch p.Shape.Ext {
		case 1:
			body = append(body, "ext {", "}")
		case 2:
			body = append(body, `ext.singleForm = "thing"`)
		}
		if p.Shape.ArrayRules {
			body = append(body, "rules.minItems = 1")
		}
	}
	if len(body) == 0 {
		return []string{fmt.Sprintf("field %s %s%s", name, marker, spec)}
	}
	out := []string{fmt.Sprintf("field %s %s%s {", name, marker, spec)}
	for _, l := range body {
		out = append(out, "  "+l)
	}
	return append(out, "}")
}

// ---- enumeration of the expressible field types ----

func allFtys(full bool) []fty {
	var out []fty
	bools := []bool{false, true}
	for _, r := range []refOut{rInlineObject, rMsgSame, rMsgOther, rNotFound, rEnumSame} {
		for _, fl := range bools {
			for _, ru := range bools {
				out = append(out, fty{Kind: "object", Ref: r, Flatten: fl, Rules: ru})
			}
		}
	}
	for _, r := range []refOut{rInlineOneof, rMsgSame, rMsgOther, rNotFound, rEnumSame} {
		for _, ru := range bools {
			for _, lr := range bools {
				out = append(out, fty{Kind: "oneof", Ref: r, Rules: ru, LRules: lr})
			}
		}
	}
	for _, r := range []refOut{rInlineEnum, rEnumSame, rEnumOther, rNotFound, rMsgSame} {
		for er := 0; er < 3; er++ {
			for _, lr := range bools {
				out = append(out, fty{Kind: "enum", Ref: r, ERules: er, LRules: lr})
			}
		}
	}
	for _, ru := range bools {
		for _, lr := range bools {
			out = append(out, fty{Kind: "bool", Rules: ru, LRules: lr})
			out = append(out, fty{Kind: "date", Rules: ru, LRules: lr})
			out = append(out, fty{Kind: "decimal", Rules: ru, LRules: lr})
			out = append(out, fty{Kind: "string", Rules: ru, LRules: lr})
			for _, f := range []string{"FLOAT32", "FLOAT64"} {
				out = append(out, fty{Kind: "float", Fmt: f, Rules: ru, LRules: lr})
			}
		}
		out = append(out, fty{Kind: "bytes", Rules: ru})
		out = append(out, fty{Kind: "timestamp", Rules: ru}, fty{Kind: "timestamp", Rules: ru, LRules: true})
		out = append(out, fty{Kind: "any", LRules: ru})
	}
	for fi, f := range []string{"INT32", "INT64", "UINT32", "UINT64"} {
		for _, lr := range bools {
			out = append(out, fty{Kind: "integer", Fmt: f, LRules: lr})
			if fi == 0 || full {
				for _, mn := range bools {
					for _, mx := range bools {
						for xmn := 0; xmn < 3; xmn++ {
							for xmx := 0; xmx < 3; xmx++ {
								out = append(out, fty{Kind: "integer", Fmt: f, LRules: lr, IR: &intRules{mn, mx, xmn, xmx, 0}})
							}
						}
						if mn || mx {
							// bounds the rule cannot express: a bound out of range, minimum above maximum
							if f == "INT32" || f == "UINT32" {
								out = append(out, fty{Kind: "integer", Fmt: f, LRules: lr, IR: &intRules{mn, mx, 0, 0, 2}})
							}
							if mn && mx {
								out = append(out, fty{Kind: "integer", Fmt: f, LRules: lr, IR: &intRules{mn, mx, 0, 0, 1}})
							}
						}
					}
				}
			} else {
				out = append(out, fty{Kind: "integer", Fmt: f, LRules: lr, IR: &intRules{Min: true}})
				out = append(out, fty{Kind: "integer", Fmt: f, LRules: lr, IR: &intRules{true, true, 1, 2, 0}})
				out = append(out, fty{Kind: "integer", Fmt: f, LRules: lr, IR: &intRules{false, false, 2, 0, 0}})
				out = append(out, fty{Kind: "integer", Fmt: f, LRules: lr, IR: &intRules{true, true, 0, 0, 1}})
				if f == "UINT32" {
					out = append(out, fty{Kind: "integer", Fmt: f, LRules: lr, IR: &intRules{true, false, 0, 0, 2}})
				}
			}
		}
	}
	for _, e := range []string{"", "primaryT", "primaryF", "foreign", "tenantOnly"} {
		for _, ten := range bools {
			if ten && (e == "" || e == "tenantOnly") {
				continue
			}
			for _, f := range []string{"", "informal", "custom", "uuid", "id62"} {
				for _, lr := range bools {
					out = append(out, fty{Kind: "key", Ent: e, Tenant: ten, Fmt: f, LRules: lr})
				}
			}
		}
	}
	return out
}

// isoMatrix: every field type x rule presence as a plain field with all four required/optional
// combinations, as an array item (without and with array ext/rules) and as a map item.
func isoMatrix(r *vh.Rand, full bool) []propT {
	var out []propT
	for _, t := range allFtys(full) {
		for _, req := range []bool{false, true} {
			for _, opt := range []bool{false, true} {
				out = append(out, propT{Shape: shapeT{Kind: "plain", Item: t}, Required: req, Optional: opt, Surface: r.Intn(2)})
			}
		}
		if full {
			for ext := 0; ext < 3; ext++ {
				for _, ar := range []bool{false, true} {
					for _, req := range []bool{false, true} {
						for _, opt := range []bool{false, true} {
							out = append(out, propT{Shape: shapeT{Kind: "array", Item: t, Ext: ext, ArrayRules: ar}, Required: req, Optional: opt, Surface: r.Intn(2)})
						}
					}
				}
			}
			for _, mr := range []bool{false, true} {
				for _, req := range []bool{false, true} {
					for _, opt := range []bool{false, true} {
						out = append(out, propT{Shape: shapeT{Kind: "map", Item: t, MapRules: mr}, Required: req, Optional: opt, Surface: r.Intn(2)})
					}
				}
			}
			continue
		}
		out = append(out, propT{Shape: shapeT{Kind: "array", Item: t}, Surface: r.Intn(2)})
		out = append(out, propT{Shape: shapeT{Kind: "array", Item: t, Ext: 1 + r.Intn(2), ArrayRules: r.Bool()}, Required: r.Chance(30), Optional: r.Chance(20), Surface: r.Intn(2)})
		out = append(out, propT{Shape: shapeT{Kind: "map", Item: t, MapRules: r.Chance(40)}, Required: r.Chance(30), Optional: r.Chance(20), Surface: r.Intn(2)})
	}
	return out
}

package main

import (
	"fmt"
	"sort"
	"strings"

	"google.golang.org/protobuf/reflect/protoreflect"
	"verifharness/vh"
)

// ---- abstract enums and services, mirroring coq/model/CmpbDecls.v ----

type enumAbs struct {
	Info    bool
	OptInfo []bool
}

func (e enumAbs) Coq() string {
	var bs []string
	for _, x := range e.OptInfo {
		bs = append(bs, b(x))
	}
	return fmt.Sprintf("(mkEnum %s [%s])", b(e.Info), strings.Join(bs, "; "))
}

func (e enumAbs) Text() string {
	var sb strings.Builder
	sb.WriteString("package foo.v1\n\nenum Thing {\n")
	if e.Info {
		sb.WriteString("  info color {\n    label = \"Color\"\n  }\n")
	}
	for i, has := range e.OptInfo {
		if has {
			fmt.Fprintf(&sb, "  option V%d {\n    info.color = \"c%d\"\n  }\n", i, i)
		} else {
			fmt.Fprintf(&sb, "  option V%d\n", i)
		}
	}
	sb.WriteString("}\n")
	return sb.String()
}

type methodAbs struct {
	HTTP        string // GET POST PUT PATCH DELETE
	RawResponse bool
	PathOK      bool
	Options     bool
	ListRequest bool
}

type serviceAbs struct {
	Methods []methodAbs
	Options bool
}

func (s serviceAbs) Coq() string {
	var ms []string
	for _, m := range s.Methods {
		h := map[string]string{"GET": "HGet", "POST": "HPost", "PUT": "HPut", "PATCH": "HPatch", "DELETE": "HDelete"}[m.HTTP]
		ms = append(ms, fmt.Sprintf("mkMethod true %s %s %s %s %s", h, b(m.RawResponse), b(m.PathOK), b(m.Options), b(m.ListRequest)))
	}
	return fmt.Sprintf("(mkService [%s] %s)", strings.Join(ms, "; "), b(s.Options))
}

func (s serviceAbs) Text() string {
	var sb strings.Builder
	sb.WriteString("package foo.v1\n\nservice Thing {\n  basePath = \"/thing\"\n")
	if s.Options {
		sb.WriteString("  options.audience = [\"ops\"]\n")
	}
	for i, m := range s.Methods {
		fmt.Fprintf(&sb, "  method M%d {\n    httpMethod = %q\n", i, m.HTTP)
		if m.PathOK {
			fmt.Fprintf(&sb, "    httpPath = \"/m%d/:id\"\n", i)
		} else {
			fmt.Fprintf(&sb, "    httpPath = \"/m%d/:nope\"\n", i)
		}
		if m.Options {
			sb.WriteString("    options.label = \"lbl\"\n")
		}
		if m.ListRequest {
			sb.WriteString("    listRequest.defaultSort = [\"name\"]\n")
		}
		sb.WriteString("    request {\n      field id string\n    }\n")
		if !m.RawResponse {
			sb.WriteString("    response {\n      field name string\n    }\n")
		}
		sb.WriteString("  }\n")
	}
	sb.WriteString("}\n")
	return sb.String()
}

func genEnums(r *vh.Rand, n int) []enumAbs {
	out := []enumAbs{{false, nil}, {true, nil}, {false, []bool{true}}, {true, []bool{true}}, {false, []bool{false, false}}, {true, []bool{false, true, false, true}}}
	for len(out) < n {
		e := enumAbs{Info: r.Bool()}
		for k := r.Intn(7); k > 0; k-- {
			e.OptInfo = append(e.OptInfo, r.Chance(40))
		}
		out = append(out, e)
	}
	return out
}

func genServices(r *vh.Rand, n int) []serviceAbs {
	verbs := []string{"GET", "POST", "PUT", "PATCH", "DELETE"}
	out := []serviceAbs{{nil, false}, {nil, true}}
	for _, v := range verbs {
		out = append(out, serviceAbs{[]methodAbs{{v, false, true, false, false}}, false})
	}
	out = append(out, serviceAbs{[]methodAbs{{"GET", true, true, true, false}}, true})
	out = append(out, serviceAbs{[]methodAbs{{"GET", false, false, false, false}}, false})
	out = append(out, serviceAbs{[]methodAbs{{"GET", false, true, false, true}}, false})
	for len(out) < n {
		s := serviceAbs{Options: r.Bool()}
		for k := r.Intn(4); k > 0; k-- {
			s.Methods = append(s.Methods, methodAbs{vh.Pick(r, verbs), r.Chance(30), !r.Chance(12), r.Bool(), r.Chance(8)})
		}
		out = append(out, s)
	}
	return out
}

type declObs struct {
	Verdict string
	Imports []string
	Exts    []string
	ErrText string
}

// observeDecl compiles the one-declaration file and collects, from the file at `path`, the imports
// and the extension names on enums, enum values, services, methods and messages (not on fields).
func observeDecl(text, path string) declObs {
	c := compileOnce(map[string]string{mainFile: text}, "foo.v1")
	var o declObs
	switch {
	case c.TimedOut:
		o.Verdict, o.ErrText = "VOther", "timeout"
	case c.Panic != nil:
		o.Verdict, o.ErrText = "VPanic", fmt.Sprint(c.Panic)
	case c.Err != nil:
		o.ErrText = c.Err.Error()
		switch {
		case strings.Contains(o.ErrText, "convertJ5File"):
			o.Verdict = "VConvErr"
		case strings.HasPrefix(o.ErrText, "resolve file"):
			o.Verdict = "VLinkErr"
		default:
			o.Verdict = "VOther"
		}
	default:
		f := fileByPath(c.Files, path)
		if f == nil {
			o.Verdict, o.ErrText = "VOther", "file "+path+" not in result"
			return o
		}
		o.Verdict = "VOk"
		o.Imports = depList(f)
		set := map[string]bool{}
		add := func(opts protoreflect.ProtoMessage) {
			for _, n := range extNames(opts) {
				set[n] = true
			}
		}
		for i := 0; i < f.Enums().Len(); i++ {
			e := f.Enums().Get(i)
			add(e.Options())
			for j := 0; j < e.Values().Len(); j++ {
				add(e.Values().Get(j).Options())
			}
		}
		for i := 0; i < f.Services().Len(); i++ {
			s := f.Services().Get(i)
			add(s.Options())
			for j := 0; j < s.Methods().Len(); j++ {
				add(s.Methods().Get(j).Options())
			}
		}
		for i := 0; i < f.Messages().Len(); i++ {
			add(f.Messages().Get(i).Options())
		}
		for n := range set {
			o.Exts = append(o.Exts, n)
		}
		sort.Strings(o.Exts)
	}
	return o
}

package main

import (
	"fmt"
	"sort"
	"strings"

	"github.com/pentops/j5/lib/verifshim/cmpb"
	"google.golang.org/protobuf/reflect/protoreflect"
	"verifharness/vh"
)

// ---- abstract enums and services, mirroring coq/model/CmpbDecls.v ----

type enumAbs struct {
	Info    bool
	OptInfo []bool
}

func (e enumAbs) Coq() string {
	var bs []string
	for _, x := range e.OptInfo {
		bs = append(bs, b(x))
	}
	return fmt.Sprintf("(mkEnum %s [%s])", b(e.Info), strings.Join(bs, "; "))
}

func (e enumAbs) Text() string { return "package foo.v1\n\n" + e.Decl("Thing") }

func (e enumAbs) Decl(name string) string {
	var sb strings.Builder
	sb.WriteString("enum " + name + " {\n")
	if e.Info {
		sb.WriteString("  info color {\n    label = \"Color\"\n  }\n")
	}
	for i, has := range e.OptInfo {
		if has {
			fmt.Fprintf(&sb, "  option V%d {\n    info.color = \"c%d\"\n  }\n", i, i)
		} else {
			fmt.Fprintf(&sb, "  option V%d\n", i)
		}
	}
	sb.WriteString("}\n")
	return sb.String()
}

type methodAbs struct {
	HTTP        string // GET POST PUT PATCH DELETE
	RawResponse bool
	PathOK      bool
	Options     bool
	ListRequest bool
}

type serviceAbs struct {
	Methods []methodAbs
	Options bool
}

func (s serviceAbs) Coq() string {
	var ms []string
	for _, m := range s.Methods {
		h := map[string]string{"GET": "HGet", "POST": "HPost", "PUT": "HPut", "PATCH": "HPatch", "DELETE": "HDelete"}[m.HTTP]
		ms = append(ms, fmt.Sprintf("mkMethod true %s %s %s %s %s", h, b(m.RawResponse), b(m.PathOK), b(m.Options), b(m.ListRequest)))
	}
	return fmt.Sprintf("(mkService [%s] %s)", strings.Join(ms, "; "), b(s.Options))
}

// LCoq: the located service (model/CmpbFront.v LService): each method with the path of its SourceNode
func (s serviceAbs) LCoq(dp []string) string {
	var ms []string
	for i, m := range s.Methods {
		h := map[string]string{"GET": "HGet", "POST": "HPost", "PUT": "HPut", "PATCH": "HPatch", "DELETE": "HDelete"}[m.HTTP]
		mp := append(append([]string{}, dp...), "methods", fmt.Sprint(i), "request") // ServiceMethodNode.Source (service.go)
		ms = append(ms, fmt.Sprintf("(mkMethod true %s %s %s %s %s, %s)", h, b(m.RawResponse), b(m.PathOK), b(m.Options), b(m.ListRequest), pathCoq(mp)))
	}
	return fmt.Sprintf("LService %s %s [%s]", pathCoq(dp), b(s.Options), strings.Join(ms, "; "))
}

func (s serviceAbs) Text() string { return "package foo.v1\n\n" + s.Decl("Thing") }

func (s serviceAbs) Decl(name string) string {
	var sb strings.Builder
	sb.WriteString("service " + name + " {\n  basePath = \"/" + strings.ToLower(name) + "\"\n")
	if s.Options {
		sb.WriteString("  options.audience = [\"ops\"]\n")
	}
	for i, m := range s.Methods {
		fmt.Fprintf(&sb, "  method %sM%d {\n    httpMethod = %q\n", name, i, m.HTTP)
		if m.PathOK {
			fmt.Fprintf(&sb, "    httpPath = \"/m%d/:id\"\n", i)
		} else {
			fmt.Fprintf(&sb, "    httpPath = \"/m%d/:nope\"\n", i)
		}
		if m.Options {
			sb.WriteString("    options.label = \"lbl\"\n")
		}
		if m.ListRequest {
			sb.WriteString("    listRequest.defaultSort = [\"name\"]\n")
		}
		sb.WriteString("    request {\n      field id string\n    }\n")
		if !m.RawResponse {
			sb.WriteString("    response {\n      field name string\n    }\n")
		}
		sb.WriteString("  }\n")
	}
	sb.WriteString("}\n")
	return sb.String()
}

func genEnums(r *vh.Rand, n int) []enumAbs {
	out := []enumAbs{{false, nil}, {true, nil}, {false, []bool{true}}, {true, []bool{true}}, {false, []bool{false, false}}, {true, []bool{false, true, false, true}}}
	for len(out) < n {
		e := enumAbs{Info: r.Bool()}
		for k := r.Intn(7); k > 0; k-- {
			e.OptInfo = append(e.OptInfo, r.Chance(40))
		}
		out = append(out, e)
	}
	return out
}

func genServices(r *vh.Rand, n int) []serviceAbs {
	verbs := []string{"GET", "POST", "PUT", "PATCH", "DELETE"}
	out := []serviceAbs{{nil, false}, {nil, true}}
	for _, v := range verbs {
		out = append(out, serviceAbs{[]methodAbs{{v, false, true, false, false}}, false})
	}
	out = append(out, serviceAbs{[]methodAbs{{"GET", true, true, true, false}}, true})
	out = append(out, serviceAbs{[]methodAbs{{"GET", false, false, false, false}}, false})
	out = append(out, serviceAbs{[]methodAbs{{"GET", false, true, false, true}}, false})
	for len(out) < n {
		s := serviceAbs{Options: r.Bool()}
		for k := r.Intn(4); k > 0; k-- {
			s.Methods = append(s.Methods, methodAbs{vh.Pick(r, verbs), r.Chance(30), !r.Chance(12), r.Bool(), r.Chance(8)})
		}
		out = append(out, s)
	}
	return out
}

type declObs struct {
	Verdict string
	Imports []string
	Exts    []string
	ErrText string
	Pos     []cmpb.Pos
}

// observeDecl compiles the one-declaration file and collects, from the file at `path`, the imports
// and the extension names on enums, enum values, services, methods and messages (not on fields).
func observeDecl(text, path string) declObs {
	c := compileOnce(map[string]string{mainFile: text}, "foo.v1")
	var o declObs
	switch {
	case c.TimedOut:
		o.Verdict, o.ErrText = "VOther", "timeout"
	case c.Panic != nil:
		o.Verdict, o.ErrText = "VPanic", fmt.Sprint(c.Panic)
	case c.Err != nil:
		o.ErrText = c.Err.Error()
		o.Pos = cmpb.Positions(c.Err)
		switch {
		case strings.Contains(o.ErrText, "convertJ5File"):
			o.Verdict = "VConvErr"
		case strings.HasPrefix(o.ErrText, "resolve file"):
			o.Verdict = "VLinkErr"
		default:
			o.Verdict = "VOther"
		}
	default:
		f := fileByPath(c.Files, path)
		if f == nil {
			o.Verdict, o.ErrText = "VOther", "file "+path+" not in result"
			return o
		}
		o.Verdict = "VOk"
		o.Imports = depList(f)
		set := map[string]bool{}
		add := func(opts protoreflect.ProtoMessage) {
			for _, n := range extNames(opts) {
				set[n] = true
			}
		}
		for i := 0; i < f.Enums().Len(); i++ {
			e := f.Enums().Get(i)
			add(e.Options())
			for j := 0; j < e.Values().Len(); j++ {
				add(e.Values().Get(j).Options())
			}
		}
		for i := 0; i < f.Services().Len(); i++ {
			s := f.Services().Get(i)
			add(s.Options())
			for j := 0; j < s.Methods().Len(); j++ {
				add(s.Methods().Get(j).Options())
			}
		}
		for i := 0; i < f.Messages().Len(); i++ {
			add(f.Messages().Get(i).Options())
		}
		for n := range set {
			o.Exts = append(o.Exts, n)
		}
		sort.Strings(o.Exts)
	}
	return o
}

// ---- abstract whole files (model/CmpbDecls.v decl lists) ----

type declAbs struct {
	Coq  string
	Text string
}

// genFile draws 1-5 declarations: objects with 0-5 properties of the isolation matrix (references only to
// foo/v1/types.j5s or inline), oneofs with object members, enums, services, topics.
func genFile(r *vh.Rand, pool []propT) (coq string, files map[string]string, inLang bool, listReq bool, lcoq string) {
	var cs, ts, lcs []string
	inLang = true
	needTypes := false
	n := r.Range(1, 5)
	for i := 0; i < n; i++ {
		switch k := r.Intn(10); {
		case k < 5:
			var ps, ls, lps []string
			dp := declPath(i, "object")
			for j := r.Intn(6); j > 0; j-- {
				p := vh.Pick(r, pool)
				switch p.Shape.Item.Ref {
				case rMsgSame, rEnumSame:
					continue
				case rMsgOther, rEnumOther:
					needTypes = true
				}
				lps = append(lps, lpropCoq(p, dp, len(ps)))
				ps = append(ps, p.Coq())
				for _, l := range p.fieldLines(fmt.Sprintf("f%d", len(ps))) {
					ls = append(ls, "  "+l)
				}
				if !p.inLanguage() || p.knownGap() != "" {
					inLang = false
				}
			}
			cs = append(cs, fmt.Sprintf("DObject false [%s]", strings.Join(ps, "; ")))
			lcs = append(lcs, fmt.Sprintf("LObject %s false [%s]", pathCoq(dp), strings.Join(lps, "; ")))
			ts = append(ts, fmt.Sprintf("object Obj%d {\n%s\n}\n", i, strings.Join(ls, "\n")))
		case k < 6:
			m := r.Range(1, 3)
			var ps, ls, lps []string
			dp := declPath(i, "oneof")
			inl := propT{Shape: shapeT{Kind: "plain", Item: fty{Kind: "object", Ref: rInlineObject}}}
			for j := 0; j < m; j++ {
				lps = append(lps, lpropCoq(inl, dp, j))
				ps = append(ps, "mkProp false (Plain (TObject RInlineObject false false)) false false")
				ls = append(ls, fmt.Sprintf("  option o%d object {\n    field x string\n  }", j))
			}
			cs = append(cs, fmt.Sprintf("DOneof [%s]", strings.Join(ps, "; ")))
			lcs = append(lcs, fmt.Sprintf("LOneof %s [%s]", pathCoq(dp), strings.Join(lps, "; ")))
			ts = append(ts, fmt.Sprintf("oneof One%d {\n%s\n}\n", i, strings.Join(ls, "\n")))
		case k < 7:
			e := enumAbs{Info: r.Bool()}
			for j := r.Intn(5); j > 0; j-- {
				e.OptInfo = append(e.OptInfo, r.Chance(40))
			}
			cs = append(cs, "DEnum "+e.Coq())
			lcs = append(lcs, fmt.Sprintf("LEnum %s %s", pathCoq(declPath(i, "enum")), e.Coq()))
			ts = append(ts, e.Decl(fmt.Sprintf("Enum%d", i)))
		case k < 9:
			sv := serviceAbs{Options: r.Bool()}
			for j := r.Range(1, 3); j > 0; j-- {
				sv.Methods = append(sv.Methods, methodAbs{vh.Pick(r, []string{"GET", "POST", "PUT", "PATCH", "DELETE"}), r.Chance(30), !r.Chance(10), r.Bool(), r.Chance(5)})
			}
			for _, m := range sv.Methods {
				if !m.PathOK {
					inLang = false
				}
				if m.ListRequest {
					listReq = true
				}
			}
			cs = append(cs, "DService "+sv.Coq())
			lcs = append(lcs, sv.LCoq(declPath(i, "service")))
			ts = append(ts, sv.Decl(fmt.Sprintf("Svc%d", i)))
		default:
			m := r.Intn(3)
			var ls []string
			for j := 0; j < m; j++ {
				ls = append(ls, fmt.Sprintf("  message Post%d%d {\n    field x string\n  }", i, j))
			}
			cs = append(cs, fmt.Sprintf("DTopic (TPublish %d)", m))
			lcs = append(lcs, fmt.Sprintf("LTopic %s (TPublish %d)", pathCoq(declPath(i, "topic")), m))
			ts = append(ts, fmt.Sprintf("topic Top%d publish {\n%s\n}\n", i, strings.Join(ls, "\n")))
		}
	}
	files = map[string]string{mainFile: "package foo.v1\n\n" + strings.Join(ts, "\n")}
	if needTypes {
		files["foo/v1/types.j5s"] = "package foo.v1\n\n" + refDecls
	}
	return "[" + strings.Join(cs, "; ") + "]", files, inLang, listReq, "[" + strings.Join(lcs, "; ") + "]"
}


package main

import (
	"fmt"
	"sort"
	"strings"

	"github.com/pentops/j5/lib/verifshim/cmpb"
	"github.com/pentops/j5/lib/verifshim/compile"
	"verifharness/vh"
)

func init() { vh.Register("C07", isolated("C07", runC07)) }

// the one remaining gap around list requests (they panicked before fix 985f10a): rejected with a positioned error
const sigListRequest = "C07 documented language not accepted: listRequest on a service method or entity query"

const mainFile = "foo/v1/a.j5s"
const mainProto = "foo/v1/a.j5s.proto"

// documented language (README + schema.proto), evaluated on the abstract field; mirrors
// in_language of the model but is written independently for the direct oracle.
func (p propT) inLanguage() bool {
	t := p.Shape.Item
	if p.Required && p.Optional {
		return false
	}
	switch t.Kind {
	case "object", "oneof":
		if !(t.Ref == rInlineObject || t.Ref == rInlineOneof || t.Ref == rMsgSame || t.Ref == rMsgOther) {
			return false
		}
	case "enum":
		if !(t.Ref == rInlineEnum || t.Ref == rEnumSame || t.Ref == rEnumOther) || t.ERules == 2 {
			return false
		}
	case "integer":
		if t.IR != nil && ((t.IR.XMin == 2 && !t.IR.Min) || (t.IR.XMax == 2 && !t.IR.Max)) {
			return false
		}
		if t.IR != nil && t.IR.Bad != 0 && (t.IR.Min || t.IR.Max) {
			return false // bounds outside the format's range, or minimum above maximum: a semantic error
		}
	case "key":
		if p.Optional && t.Ent == "primaryT" && p.Shape.Kind != "map" {
			return false
		}
	}
	return true
}

// knownGap names the parts of the documented language the converter is known to reject
// (each has its own narrow signature).
func (p propT) knownGap() string {
	t := p.Shape.Item
	if t.Kind == "float" && t.Rules {
		return "float rules"
	}
	return ""
}

func (p propT) label() string {
	t := p.Shape.Item
	s := p.Shape.Kind + ":" + t.Kind
	if t.Fmt != "" {
		s += ":" + t.Fmt
	}
	return s
}

type isoObs struct {
	Verdict  string
	Imports  []string
	Exts     []string
	PType    string
	Repeated bool
	Opt3     bool
	ErrText  string
	Pos      []cmpb.Pos
	NErr     int
	AllPos   bool
}

func observeIso(content map[string]string) isoObs {
	c := compileOnce(content, "foo.v1")
	var o isoObs
	switch {
	case c.TimedOut:
		o.Verdict = "VOther"
		o.ErrText = "timeout"
	case c.Panic != nil:
		o.Verdict = "VPanic"
		o.ErrText = fmt.Sprint(c.Panic)
	case c.Err != nil:
		o.ErrText = c.Err.Error()
		o.Pos = cmpb.Positions(c.Err)
		o.NErr = len(o.Pos)
		o.AllPos = true
		for _, p := range o.Pos {
			if posProblem(p, content, mainFile) != "" {
				o.AllPos = false
			}
		}
		switch {
		case strings.Contains(o.ErrText, "convertJ5File"):
			o.Verdict = "VConvErr"
		case strings.HasPrefix(o.ErrText, "resolve file"):
			o.Verdict = "VLinkErr"
		default:
			o.Verdict = "VOther"
		}
	default:
		f := fileByPath(c.Files, mainProto)
		if f == nil {
			o.Verdict = "VOther"
			o.ErrText = "main file not in result"
			return o
		}
		msg := findMessage(f, "Foo")
		if msg == nil || msg.Fields().Len() != 1 {
			o.Verdict = "VOther"
			o.ErrText = "message Foo with one field not found"
			return o
		}
		fd := msg.Fields().Get(0)
		fdp := compile.ToProto(f)
		var fp = fdp.MessageType[0].Field[0]
		for _, m := range fdp.MessageType {
			if m.GetName() == "Foo" {
				fp = m.Field[0]
			}
		}
		o.Verdict = "VOk"
		o.Imports = depList(f)
		o.Exts = extNames(fd.Options())
		o.PType = fp.GetType().String()
		o.Repeated = fp.GetLabel().String() == "LABEL_REPEATED"
		o.Opt3 = fp.GetProto3Optional()
	}
	return o
}

// checkPositions: every error leaf must carry a position inside the offending source file.
// The signature is the problem plus the error class, independent of the stream, so one defect
// (e.g. link-stage errors positioned in the generated .proto) has one signature.
func checkPositions(res *vh.Result, caseNo int, stream, what string, pos []cmpb.Pos, content map[string]string, single string, input any) {
	if len(pos) == 0 {
		res.Fail(vh.Failure{Case: caseNo, Stream: stream, Sig: "C07 error without any leaf: " + what, Clause: "errors carry a position inside the offending file", Input: input, Got: "no error leaves"})
		return
	}
	for _, p := range pos {
		if prob := posProblem(p, content, single); prob != "" {
			res.Fail(vh.Failure{Case: caseNo, Stream: stream,
				Sig:    fmt.Sprintf("C07 error position: %s (%s)", prob0(prob), errClass(p.Msg)),
				Clause: "errors carry a position inside the offending file", Input: input,
				Got: fmt.Sprintf("%s [%s]: %+v", prob, what, p)})
			return
		}
	}
}

// prob0 drops the numbers of a position problem so that signatures stay stable
func prob0(s string) string { return reNum.ReplaceAllString(s, "N") }

func runC07(cfg *vh.Config) error {
	restore := quietStdout()
	defer restore()
	res := vh.NewResult("C07", cfg.Seed)
	res.Rule = "isolation matrix: every field type x rule presence x list-rule presence x format x key qualifiers, as a plain field (all required/optional combinations), array item (with/without array ext and rules) and map item, alone in `object Foo` in a file with nothing else (referenced types in the same or another file); declaration matrix (enum info, entity/psm, services with options, topics, entities, imports) alone in a file; malformed stream: random bytes, byte flips, token-level deletions/duplications/swaps/replacements/truncations of valid files; semantic-error files. non-trivial = distinct source text other than the empty file"
	cf := &vh.CasesFile{
		Header: "From Coq Require Import String List NArith.\nFrom J5V.model Require Import CmpbFields CmpbDecls CmpbFieldsCorr.",
		Type:   "c07case",
		Check:  "c07_check",
	}
	ff := &vh.CasesFile{
		Header: "From Coq Require Import String List NArith ZArith.\nFrom J5V.model Require Import Entity.\nFrom J5V.model Require Import BclLexer CmpbFields CmpbDecls CmpbFront CmpbWalker CmpbPackage CmpbEntity CmpbFrontCorr.",
		Type:   "c07fcase",
		Check:  "c07f_check",
	}
	var frontRecs []vh.CaseRec
	wf := &vh.CasesFile{
		Header: "From Coq Require Import String List NArith ZArith Bool.\nFrom J5V.model Require Import BclLexer BclParser CmpbFront CmpbWalkCorr.",
		Type:   "cwalk_case",
		Check:  "cwalk_check",
	}
	var walkRecs []vh.CaseRec
	// conversion errors of a located file: model of sourcewalk child / GetPos + addError against the real positions
	convPos := func(caseNo int, stream string, in any, src string, lcoq string, pos []cmpb.Pos) {
		fo := observeFront(src)
		sp, all := errSpans(pos)
		if !fo.HasFile || !all {
			return
		}
		ff.Terms = append(ff.Terms, fmt.Sprintf("CConvPos %s %s %s", locTreeCoq(fo.Locs), lcoq, spansCoq(sp)))
		frontRecs = append(frontRecs, vh.CaseRec{Case: caseNo, Stream: stream + "-pos", Input: in, Impl: map[string]any{"positions": pos}})
		res.Count("convpos")
	}
	distinct := vh.Distinct{}
	caseNo := 0
	var corpus []map[string]string // valid bundles, seeds of the mutation stream
	// packages of the generated streams that also go through the lint / LSP entry points (stream 1d)
	type lintJob struct {
		Stream  string
		Case    int
		In      any
		Files   map[string]string
		Verdict string
	}
	var lintJobs []lintJob

	// ---- stream 1: isolation matrix (run in full in both tiers; thorough adds the full product)
	rIso := cfg.R.Fork("iso")
	props := isoMatrix(rIso, cfg.Tier == "thorough" && cfg.N == 0)
	if cfg.N > 0 && cfg.N < len(props) {
		props = props[:cfg.N]
	}
	isoContents := make([]map[string]string, len(props))
	for i, p := range props {
		isoContents[i] = p.Text()
	}
	isoObsAll := parallel(len(props), "iso", caseNo,
		func(i int) any { return map[string]any{"prop": props[i].Coq(), "files": isoContents[i]} },
		func(i int) isoObs { return observeIso(isoContents[i]) })
	for pi, p := range props {
		content := isoContents[pi]
		in := map[string]any{"prop": p.Coq(), "files": content}
		o := isoObsAll[pi]
		distinct.Add(content[mainFile] + content["foo/v1/types.j5s"])
		res.Count("iso")
		res.Count("iso_" + o.Verdict)
		lang := p.inLanguage()
		gap := p.knownGap()
		switch o.Verdict {
		case "VPanic":
			res.Fail(vh.Failure{Case: caseNo, Stream: "iso", Sig: fmt.Sprintf("C07 iso %s: panic %s", p.label(), errClass(o.ErrText)), Clause: "never panics", Input: in, Got: o.ErrText})
		case "VOther":
			res.Fail(vh.Failure{Case: caseNo, Stream: "iso", Sig: fmt.Sprintf("C07 iso %s: %s", p.label(), errClass(o.ErrText)), Clause: "generated file parses (harness expectation) / no hang", Input: in, Got: o.ErrText})
		case "VLinkErr":
			res.Fail(vh.Failure{Case: caseNo, Stream: "iso", Sig: fmt.Sprintf("C07 iso %s: link error in isolation (%s)", p.label(), errClass(o.ErrText)), Clause: "accepted and links without depending on unrelated declarations", Input: in, Got: o.ErrText})
		case "VConvErr":
			if lang && gap == "" {
				res.Fail(vh.Failure{Case: caseNo, Stream: "iso", Sig: fmt.Sprintf("C07 iso %s: field of the documented language rejected (%s)", p.label(), errClass(o.ErrText)), Clause: "every package within the documented language is accepted", Input: in, Got: o.ErrText})
			} else if lang {
				res.Fail(vh.Failure{Case: caseNo, Stream: "iso", Sig: "C07 documented language not accepted: " + gap, Clause: "every package within the documented language is accepted", Input: in, Got: o.ErrText})
			}
			checkPositions(res, caseNo, "iso", "iso conversion error", o.Pos, content, mainFile, in)
			if pi%3 == int(cfg.Seed%3) {
				convPos(caseNo, "iso", in, content[mainFile], fmt.Sprintf("[LObject %s false [%s]]", pathCoq(declPath(0, "object")), lpropCoq(p, declPath(0, "object"), 0)), o.Pos)
			}
		case "VOk":
			if len(corpus) < 400 {
				corpus = append(corpus, content)
			}
		}
		if pi%10 == int(cfg.Seed%10) {
			lintJobs = append(lintJobs, lintJob{"iso", caseNo, in, content, o.Verdict})
		}
		cf.Terms = append(cf.Terms, fmt.Sprintf("CIso %s %q %s %s %s %q %s %s %d%%nat %s", p.Coq(), refFilePath, o.Verdict, coqStrList(o.Imports), coqStrList(o.Exts), o.PType, b(o.Repeated), b(o.Opt3), o.NErr, b(o.AllPos)))
		res.Cases = append(res.Cases, vh.CaseRec{Case: caseNo, Stream: "iso", Input: in, Impl: o})
		if lang && o.Verdict == "VOk" && (p.Shape.Item.Rules || p.Shape.Item.LRules) {
			res.Sample(map[string]any{"stream": "iso", "source": content[mainFile], "imports": o.Imports, "field_extensions": o.Exts}, 3)
		}
		caseNo++
	}

	// ---- stream 1b: abstract enums and services alone in a file, against model/CmpbDecls.v
	{
		rAbs := cfg.R.Fork("abs")
		enums := genEnums(rAbs, cfg.Scale(60, 600))
		svcs := genServices(rAbs, cfg.Scale(120, 1500))
		type absCase struct {
			Kind, Coq, Text, Path string
			InLang, ListReq   bool
		}
		var acs []absCase
		for _, e := range enums {
			acs = append(acs, absCase{"CEnum", e.Coq(), e.Text(), mainProto, true, false})
		}
		for _, sv := range svcs {
			lang := len(sv.Methods) > 0
			lr := false
			for _, m := range sv.Methods {
				lang = lang && m.PathOK
				lr = lr || m.ListRequest
			}
			acs = append(acs, absCase{"CService", sv.Coq(), sv.Text(), "foo/v1/service/a.p.j5s.proto", lang, lr})
		}
		// topics and object / oneof shells
		msgs := func(prefix string, n int) string {
			var sb strings.Builder
			for i := 0; i < n; i++ {
				fmt.Fprintf(&sb, "  message %s%d {\n    field x string\n  }\n", prefix, i)
			}
			return sb.String()
		}
		for n := 0; n <= 3; n++ {
			acs = append(acs, absCase{fmt.Sprintf("CTopic (TPublish %d) \"\"", n), fmt.Sprintf("(TPublish %d)", n),
				"package foo.v1\n\ntopic Thing publish {\n" + msgs("Post", n) + "}\n", "foo/v1/topic/a.p.j5s.proto", true, false})
		}
		for _, rr := range [][2]int{{0, 0}, {1, 0}, {0, 1}, {1, 1}} {
			body := ""
			if rr[0] == 1 {
				body += "  request {\n    field x string\n  }\n"
			}
			if rr[1] == 1 {
				body += "  reply {\n    field name string\n  }\n"
			}
			acs = append(acs, absCase{fmt.Sprintf("CTopic (TReqRes %d %d) \"j5/messaging/v1/reqres.proto\"", rr[0], rr[1]), fmt.Sprintf("(TReqRes %d %d)", rr[0], rr[1]),
				"package foo.v1\n\ntopic Thing reqres {\n" + body + "}\n", "foo/v1/topic/a.p.j5s.proto", true, false})
		}
		acs = append(acs, absCase{"CTopic TUpsert \"j5/messaging/v1/upsert.proto\"", "TUpsert",
			"package foo.v1\n\ntopic Thing upsert {\n  message UpsertThing {\n    field x string\n  }\n}\n", "foo/v1/topic/a.p.j5s.proto", true, false})
		acs = append(acs, absCase{"CShell false false", "object", "package foo.v1\n\nobject Thing {\n  field x string\n}\n", mainProto, true, false})
		acs = append(acs, absCase{"CShell false true", "entity object", "package foo.v1\n\nobject ThingKeys {\n  entity.entity = \"Thing\"\n  entity.part = \"KEYS\"\n  field thingId string\n}\n", mainProto, true, false})
		acs = append(acs, absCase{"CShell true false", "oneof", "package foo.v1\n\noneof Thing {\n  option a object {\n    field x string\n  }\n}\n", mainProto, true, false})
		obs := parallel(len(acs), "abs", caseNo,
			func(i int) any { return map[string]any{"decl": acs[i].Coq, "files": map[string]string{mainFile: acs[i].Text}} },
			func(i int) declObs { return observeDecl(acs[i].Text, acs[i].Path) })
		for i, a := range acs {
			o := obs[i]
			in := map[string]any{"decl": a.Coq, "files": map[string]string{mainFile: a.Text}}
			content := map[string]string{mainFile: a.Text}
			distinct.Add(a.Text)
			res.Count("abs")
			res.Count("abs_" + o.Verdict)
			switch o.Verdict {
			case "VPanic":
				res.Fail(vh.Failure{Case: caseNo, Stream: "abs", Sig: fmt.Sprintf("C07 %s alone in a file: panic %s", absKind(a.Kind), errClass(o.ErrText)), Clause: "never panics", Input: in, Got: o.ErrText})
			case "VOther":
				res.Fail(vh.Failure{Case: caseNo, Stream: "abs", Sig: fmt.Sprintf("C07 %s alone in a file: %s", absKind(a.Kind), errClass(o.ErrText)), Clause: "generated file parses (harness expectation) / no hang", Input: in, Got: o.ErrText})
			case "VLinkErr":
				res.Fail(vh.Failure{Case: caseNo, Stream: "abs", Sig: fmt.Sprintf("C07 %s alone in a file: link error in isolation", absKind(a.Kind)), Clause: "accepted and links without depending on unrelated declarations", Input: in, Got: o.ErrText})
			case "VConvErr":
				if a.InLang && a.ListReq {
					res.Fail(vh.Failure{Case: caseNo, Stream: "abs", Sig: sigListRequest, Clause: "every package within the documented language is accepted", Input: in, Got: o.ErrText})
				} else if a.InLang {
					res.Fail(vh.Failure{Case: caseNo, Stream: "abs", Sig: fmt.Sprintf("C07 %s of the documented language rejected (%s)", absKind(a.Kind), errClass(o.ErrText)), Clause: "every package within the documented language is accepted", Input: in, Got: o.ErrText})
				}
				checkPositions(res, caseNo, "abs", "declaration conversion error", o.Pos, content, mainFile, in)
			case "VOk":
				if len(corpus) < 500 {
					corpus = append(corpus, content)
				}
			}
			lintJobs = append(lintJobs, lintJob{"abs", caseNo, in, content, o.Verdict})
			if strings.HasPrefix(a.Kind, "CTopic") || strings.HasPrefix(a.Kind, "CShell") {
				cf.Terms = append(cf.Terms, fmt.Sprintf("%s %s %s %s", a.Kind, o.Verdict, coqStrList(o.Imports), coqStrList(o.Exts)))
			} else {
				cf.Terms = append(cf.Terms, fmt.Sprintf("%s %s %s %s %s", a.Kind, a.Coq, o.Verdict, coqStrList(o.Imports), coqStrList(o.Exts)))
			}
			res.Cases = append(res.Cases, vh.CaseRec{Case: caseNo, Stream: "abs", Input: in, Impl: o})
			caseNo++
		}
	}

	// ---- stream 1c: whole files of several declarations against model/CmpbDecls.v file_state / file_verdict
	{
		rF := cfg.R.Fork("files")
		pool := isoMatrix(rF, false)
		nF := cfg.Scale(90, 1500)
		type fileCase struct {
			Coq     string
			Files   map[string]string
			InLang  bool
			ListReq bool
			LCoq    string
		}
		fcs := make([]fileCase, nF)
		for i := range fcs {
			c, f, l, lr, lc := genFile(rF, pool)
			fcs[i] = fileCase{c, f, l, lr, lc}
		}
		type fobs struct {
			Verdict              string
			Main, Service, Topic []string
			ErrText              string
			Pos                  []cmpb.Pos
		}
		obs := parallel(nF, "file", caseNo,
			func(i int) any { return map[string]any{"decls": fcs[i].Coq, "files": fcs[i].Files} },
			func(i int) fobs {
				c := compileOnce(fcs[i].Files, "foo.v1")
				var o fobs
				switch {
				case c.TimedOut:
					o.Verdict, o.ErrText = "VOther", "timeout"
				case c.Panic != nil:
					o.Verdict, o.ErrText = "VPanic", fmt.Sprint(c.Panic)
				case c.Err != nil:
					o.ErrText = c.Err.Error()
					o.Pos = cmpb.Positions(c.Err)
					switch {
					case strings.Contains(o.ErrText, "convertJ5File"):
						o.Verdict = "VConvErr"
					case strings.HasPrefix(o.ErrText, "resolve file"):
						o.Verdict = "VLinkErr"
					default:
						o.Verdict = "VOther"
					}
				default:
					o.Verdict = "VOk"
					if f := fileByPath(c.Files, mainProto); f != nil {
						o.Main = depList(f)
					}
					if f := fileByPath(c.Files, "foo/v1/service/a.p.j5s.proto"); f != nil {
						o.Service = depList(f)
					}
					if f := fileByPath(c.Files, "foo/v1/topic/a.p.j5s.proto"); f != nil {
						o.Topic = depList(f)
					}
				}
				return o
			})
		for i, fc := range fcs {
			o := obs[i]
			in := map[string]any{"decls": fc.Coq, "files": fc.Files}
			distinct.Add(fc.Files[mainFile])
			res.Count("file")
			res.Count("file_" + o.Verdict)
			switch o.Verdict {
			case "VPanic":
				res.Fail(vh.Failure{Case: caseNo, Stream: "file", Sig: "C07 file of several declarations: panic " + errClass(o.ErrText), Clause: "never panics", Input: in, Got: o.ErrText})
			case "VOther":
				res.Fail(vh.Failure{Case: caseNo, Stream: "file", Sig: "C07 file of several declarations: " + errClass(o.ErrText), Clause: "generated file parses (harness expectation) / no hang", Input: in, Got: o.ErrText})
			case "VLinkErr":
				res.Fail(vh.Failure{Case: caseNo, Stream: "file", Sig: "C07 file of several declarations: link error (" + errClass(o.ErrText) + ")", Clause: "accepted and links", Input: in, Got: o.ErrText})
			case "VConvErr":
				if fc.InLang && fc.ListReq {
					res.Fail(vh.Failure{Case: caseNo, Stream: "file", Sig: sigListRequest, Clause: "every package within the documented language is accepted", Input: in, Got: o.ErrText})
				} else if fc.InLang {
					res.Fail(vh.Failure{Case: caseNo, Stream: "file", Sig: "C07 file of in-language declarations rejected (" + errClass(o.ErrText) + ")", Clause: "every package within the documented language is accepted", Input: in, Got: o.ErrText})
				}
				checkPositions(res, caseNo, "file", "file conversion error", o.Pos, fc.Files, mainFile, in)
				convPos(caseNo, "file", in, fc.Files[mainFile], fc.LCoq, o.Pos)
			}
			lintJobs = append(lintJobs, lintJob{"file", caseNo, in, fc.Files, o.Verdict})
			cf.Terms = append(cf.Terms, fmt.Sprintf("CFile %s %q %s %s %s %s", fc.Coq, refFilePath, o.Verdict, coqStrList(o.Main), coqStrList(o.Service), coqStrList(o.Topic)))
			res.Cases = append(res.Cases, vh.CaseRec{Case: caseNo, Stream: "file", Input: in, Impl: o})
			caseNo++
		}
	}

	// ---- stream 1d: the lint / LSP entry points (LintFile of the main file on a fresh set, LintAll) on the packages of
	// the streams above: same totality as CompilePackage (no panic, no hang), and a package that compiles is not failed
	// by the lint path with a hard error (it converts and links the same file; it "reports, does not fail")
	{
		type lintPair struct{ File, All linted }
		lres := parallel(len(lintJobs), "lintpath", caseNo,
			func(i int) any { return map[string]any{"call": "LintFile + LintAll", "of": lintJobs[i].In} },
			func(i int) lintPair {
				return lintPair{lintOnce(lintJobs[i].Files, mainFile), lintAllOnce(lintJobs[i].Files)}
			})
		for i, j := range lintJobs {
			res.Count("lintpath")
			for _, cl := range []struct {
				Call string
				L    linted
			}{{"LintFile", lres[i].File}, {"LintAll", lres[i].All}} {
				l := cl.L
				lin := map[string]any{"call": cl.Call, "file": mainFile, "files": j.Files, "of": j.In}
				switch {
				case l.TimedOut:
					res.Fail(vh.Failure{Case: j.Case, Stream: j.Stream, Sig: fmt.Sprintf("C07 lint path (%s stream): %s hangs", j.Stream, cl.Call), Clause: "never hangs (lint path)", Input: lin, Got: "timeout"})
				case l.Panic != nil:
					res.Fail(vh.Failure{Case: j.Case, Stream: j.Stream, Sig: fmt.Sprintf("C07 lint path (%s stream): %s panic %s", j.Stream, cl.Call, errClass(fmt.Sprint(l.Panic))), Clause: "never panics (lint path)", Input: lin, Got: fmt.Sprint(l.Panic)})
				case j.Verdict == "VOk" && l.Err != nil:
					res.Count("lintpath_hard_err_on_accepted")
					res.Fail(vh.Failure{Case: j.Case, Stream: j.Stream, Sig: fmt.Sprintf("C07 lint path (%s stream): %s fails on a package that compiles (%s)", j.Stream, cl.Call, truncate(errClass(l.Err.Error()), 60)), Clause: "every package within the documented language is accepted and links (lint / LSP path: reports, does not fail)", Input: lin, Got: l.Err.Error()})
				case (j.Verdict == "VConvErr" || j.Verdict == "VLinkErr") && l.Err == nil && len(l.Pos) == 0:
					res.Count("lintpath_silent_on_rejected")
					res.Fail(vh.Failure{Case: j.Case, Stream: j.Stream, Sig: fmt.Sprintf("C07 lint path (%s stream): %s reports nothing on a package CompilePackage rejects", j.Stream, cl.Call), Clause: "returns descriptors or errors that carry a position (the lint path gives the verdict of the compile path)", Input: lin, Got: "no report, no error"})
				case j.Verdict == "VOk" && len(l.Pos) > 0:
					res.Count("lintpath_report_on_accepted")
				default:
					res.Count("lintpath_agree")
				}
			}
		}
	}

	// ---- stream 2: declaration-level isolation (direct oracle)
	decls := declMatrix()
	type printRes struct {
		Err error
		Pan any
	}
	type declRes struct {
		C         compiled
		Prints    []printRes
		LintNames []string
		Lints     []linted
		All       linted
	}
	declAll := parallel(len(decls), "decl", caseNo,
		func(i int) any { return map[string]any{"decl": decls[i].Name, "files": decls[i].Files} },
		func(i int) declRes {
			r := declRes{C: compileOnce(decls[i].Files, decls[i].Pkg)}
			for _, f := range r.C.Files {
				_, perr, ppan := safePrint(f)
				r.Prints = append(r.Prints, printRes{perr, ppan})
			}
			// the lint / LSP entry points on the same valid declaration: LintFile of every j5s file (each on a
			// fresh set) and LintAll. Declarations with several output files (entities, services and topics
			// referring to types of their own file) take a path of their own through LintFile.
			for _, fn := range sortedFileNames(decls[i].Files) {
				if strings.HasSuffix(fn, ".j5s") {
					r.LintNames = append(r.LintNames, fn)
					r.Lints = append(r.Lints, lintOnce(decls[i].Files, fn))
				}
			}
			r.All = lintAllOnce(decls[i].Files)
			return r
		})
	for di, d := range decls {
		in := map[string]any{"decl": d.Name, "files": d.Files}
		c := declAll[di].C
		distinct.Add(fmt.Sprint(d.Files))
		res.Count("decl")
		switch {
		case c.TimedOut:
			res.Fail(vh.Failure{Case: caseNo, Stream: "decl", Sig: "C07 decl " + d.Name + ": hang", Clause: "never hangs", Input: in, Got: "timeout"})
		case c.Panic != nil:
			res.Count("decl_panic")
			res.Fail(vh.Failure{Case: caseNo, Stream: "decl", Sig: fmt.Sprintf("C07 decl %s: panic %s", d.Name, errClass(fmt.Sprint(c.Panic))), Clause: "never panics", Input: in, Got: fmt.Sprint(c.Panic)})
		case c.Err != nil:
			res.Count("decl_err")
			kind := "rejected"
			if strings.HasPrefix(c.Err.Error(), "resolve file") {
				kind = "link error in isolation"
			}
			sig := fmt.Sprintf("C07 decl %s: %s (%s)", d.Name, kind, truncate(strings.TrimPrefix(errClass(c.Err.Error()), "loadPackage I: loadLocalPackage I: "), 60))
			if strings.Contains(c.Err.Error(), "listRequest is not supported on a method") {
				sig = sigListRequest
			}
			if strings.Contains(c.Err.Error(), "integer rules: multipleOf is not implemented") {
				sig = "C07 documented language not accepted: integer rules.multipleOf (not implemented)"
			}
			if strings.Contains(c.Err.Error(), "TimestampField_Rules") && strings.Contains(c.Err.Error(), "unsupported scalar type *schema_j5pb.Field_Timestamp") {
				sig = "C07 documented language not accepted: timestamp rules minimum / maximum (unsupported scalar type)"
			}
			res.Fail(vh.Failure{Case: caseNo, Stream: "decl", Sig: sig, Clause: "every package within the documented language is accepted and links", Input: in, Got: c.Err.Error()})
			checkPositions(res, caseNo, "decl", "declaration "+d.Name, cmpb.Positions(c.Err), d.Files, d.Main, in)
		default:
			res.Count("decl_ok")
			corpus = append(corpus, d.Files)
			// printing the result must not panic either (protoprint has explicit panic sites)
			for _, pr := range declAll[di].Prints {
				if pr.Pan != nil {
					res.Fail(vh.Failure{Case: caseNo, Stream: "decl", Sig: fmt.Sprintf("C07 decl %s: printer panic %s", d.Name, errClass(fmt.Sprint(pr.Pan))), Clause: "never panics", Input: in, Got: fmt.Sprint(pr.Pan)})
				} else if pr.Err != nil {
					res.Fail(vh.Failure{Case: caseNo, Stream: "decl", Sig: fmt.Sprintf("C07 decl %s: printer error %s", d.Name, errClass(pr.Err.Error())), Clause: "accepted", Input: in, Got: pr.Err.Error()})
				}
			}
		}
		// the lint path on the same declaration: never panics or hangs; a package that compiles is not failed by the
		// lint path with a hard error (LintFile / LintAll "report, not fail": the accepted package links there too)
		{
			lintJudge := func(call, file string, l linted) {
				lin := map[string]any{"decl": d.Name, "files": d.Files, "call": call, "file": file}
				switch {
				case l.TimedOut:
					res.Fail(vh.Failure{Case: caseNo, Stream: "decl", Sig: fmt.Sprintf("C07 decl %s: %s hangs", d.Name, call), Clause: "never hangs (lint path)", Input: lin, Got: "timeout"})
				case l.Panic != nil:
					res.Fail(vh.Failure{Case: caseNo, Stream: "decl", Sig: fmt.Sprintf("C07 decl %s: %s panic %s", d.Name, call, errClass(fmt.Sprint(l.Panic))), Clause: "never panics (lint path)", Input: lin, Got: fmt.Sprint(l.Panic)})
				case l.Err != nil && c.Err == nil && c.Panic == nil && !c.TimedOut:
					res.Count("decl_lint_hard_err")
					res.Fail(vh.Failure{Case: caseNo, Stream: "decl", Sig: fmt.Sprintf("C07 decl %s: %s fails on a package that compiles (%s)", d.Name, call, truncate(errClass(l.Err.Error()), 60)), Clause: "every package within the documented language is accepted and links (lint / LSP path: reports, does not fail)", Input: lin, Got: l.Err.Error()})
				case l.Err == nil && len(l.Pos) > 0 && c.Err == nil && c.Panic == nil && !c.TimedOut:
					res.Count("decl_lint_report_on_accepted")
					res.Sample(map[string]any{"stream": "decl", "decl": d.Name, "call": call, "lint_report_on_accepted_package": truncate(l.Human, 200)}, 6)
				default:
					res.Count("decl_lint_ok")
				}
			}
			for li, l := range declAll[di].Lints {
				lintJudge("LintFile", declAll[di].LintNames[li], l)
			}
			lintJudge("LintAll", "", declAll[di].All)
		}
		caseNo++
	}

	// ---- stream 3: malformed inputs (random bytes, byte flips, token mutations) through Compile and LintFile
	rMut := cfg.R.Fork("mut")
	nMut := cfg.Scale(350, 8000)
	if len(corpus) == 0 {
		// nothing compiled (every case above failed and was reported): mutate a fixed seed so the run completes
		corpus = append(corpus, map[string]string{mainFile: "package foo.v1\n\nobject Foo {\n  field f string\n}\n"})
	}
	mutContents := make([]map[string]string, nMut)
	mutHow := make([]string, nMut)
	for i := 0; i < nMut; i++ {
		mutContents[i], mutHow[i] = mutate(rMut, vh.Pick(rMut, corpus))
	}
	type mutRes struct {
		C compiled
		L linted
	}
	mutAll := parallel(nMut, "mut", caseNo,
		func(i int) any { return map[string]any{"mutation": mutHow[i], "files": mutContents[i]} },
		func(i int) mutRes {
			return mutRes{compileOnce(mutContents[i], "foo.v1"), lintOnce(mutContents[i], mainFile)}
		})
	for i := 0; i < nMut; i++ {
		content, how := mutContents[i], mutHow[i]
		in := map[string]any{"mutation": how, "files": content}
		distinct.Add(fmt.Sprint(content))
		res.Count("mut")
		c := mutAll[i].C
		switch {
		case c.TimedOut:
			res.Fail(vh.Failure{Case: caseNo, Stream: "mut", Sig: "C07 malformed input: compile hangs", Clause: "never hangs", Input: in, Got: "timeout"})
		case c.Panic != nil:
			res.Count("mut_panic")
			res.Fail(vh.Failure{Case: caseNo, Stream: "mut", Sig: "C07 malformed input: compile panic " + errClass(fmt.Sprint(c.Panic)), Clause: "never panics", Input: in, Got: fmt.Sprint(c.Panic)})
		case c.Err != nil:
			res.Count("mut_err")
			checkPositions(res, caseNo, "mut", "malformed input (compile)", cmpb.Positions(c.Err), content, mainFile, in)
		default:
			res.Count("mut_ok")
		}
		l := mutAll[i].L
		switch {
		case l.TimedOut:
			res.Fail(vh.Failure{Case: caseNo, Stream: "mut", Sig: "C07 malformed input: lint hangs", Clause: "never hangs", Input: in, Got: "timeout"})
		case l.Panic != nil:
			res.Fail(vh.Failure{Case: caseNo, Stream: "mut", Sig: "C07 malformed input: lint panic " + errClass(fmt.Sprint(l.Panic)), Clause: "never panics (lint path)", Input: in, Got: fmt.Sprint(l.Panic)})
		case l.Err != nil:
			res.Count("lint_hard_err")
			checkPositions(res, caseNo, "mut", "malformed input (lint returned error)", cmpb.Positions(l.Err), content, mainFile, in)
		case len(l.Pos) > 0:
			res.Count("lint_reported")
			// a report on a package that COMPILES is a warning, not an error of a rejected package: the property
			// says nothing about where warnings point (audit of known findings L75)
			if c.Err != nil {
				checkPositions(res, caseNo, "mut", "malformed input (lint report)", l.Pos, content, mainFile, in)
			}
		default:
			res.Count("lint_clean")
		}
		if c.Err != nil && i < 40 {
			res.Sample(map[string]any{"stream": "mut", "mutation": how, "error": truncate(c.Err.Error(), 160)}, 8)
		}
		caseNo++
	}

	// ---- stream 4: structurally valid files with semantic errors
	sems := semanticErrors()
	type semRes struct {
		C     compiled
		Lints []linted
		All   linted
	}
	semAll := parallel(len(sems), "sem", caseNo,
		func(i int) any { return map[string]any{"class": sems[i].Name, "files": sems[i].Files} },
		func(i int) semRes {
			r := semRes{C: compileOnce(sems[i].Files, sems[i].Pkg)}
			for _, fn := range sortedFileNames(sems[i].Files) {
				if strings.HasSuffix(fn, ".j5s") {
					r.Lints = append(r.Lints, lintOnce(sems[i].Files, fn))
				}
			}
			r.All = lintAllOnce(sems[i].Files)
			return r
		})
	for si, d := range sems {
		in := map[string]any{"class": d.Name, "files": d.Files}
		distinct.Add(fmt.Sprint(d.Files))
		res.Count("sem")
		c := semAll[si].C
		switch {
		case c.TimedOut:
			res.Fail(vh.Failure{Case: caseNo, Stream: "sem", Sig: "C07 semantic error " + d.Name + ": hang", Clause: "never hangs", Input: in, Got: "timeout"})
		case c.Panic != nil:
			res.Fail(vh.Failure{Case: caseNo, Stream: "sem", Sig: fmt.Sprintf("C07 semantic error %s: panic %s", d.Name, errClass(fmt.Sprint(c.Panic))), Clause: "never panics", Input: in, Got: fmt.Sprint(c.Panic)})
		case c.Err != nil:
			res.Count("sem_err")
			checkPositions(res, caseNo, "sem", "semantic error "+d.Name, cmpb.Positions(c.Err), d.Files, d.Main, in)
		default:
			res.Count("sem_accepted")
			if d.MustFail {
				res.Fail(vh.Failure{Case: caseNo, Stream: "sem", Sig: "C07 semantic error " + d.Name + ": accepted", Clause: "returns descriptors or errors (an invalid file is not silently accepted)", Input: in, Got: "compiled"})
			}
		}
		for li, l := range semAll[si].Lints {
			// what LintFile reports (or fails with) must be positioned inside the linted source too
			var j5s []string
			for _, fn := range sortedFileNames(d.Files) {
				if strings.HasSuffix(fn, ".j5s") {
					j5s = append(j5s, fn)
				}
			}
			if l.Panic == nil && !l.TimedOut && li < len(j5s) {
				if l.Err != nil {
					checkPositions(res, caseNo, "sem", "semantic error "+d.Name+" (LintFile returned error)", cmpb.Positions(l.Err), d.Files, j5s[li], in)
				} else if len(l.Pos) > 0 && c.Err != nil {
					checkPositions(res, caseNo, "sem", "semantic error "+d.Name+" (LintFile report)", l.Pos, d.Files, j5s[li], in)
				}
			}
			if l.Panic != nil {
				res.Fail(vh.Failure{Case: caseNo, Stream: "sem", Sig: fmt.Sprintf("C07 semantic error %s: lint panic %s", d.Name, errClass(fmt.Sprint(l.Panic))), Clause: "never panics (lint path)", Input: in, Got: fmt.Sprint(l.Panic)})
			} else if l.TimedOut {
				res.Fail(vh.Failure{Case: caseNo, Stream: "sem", Sig: "C07 semantic error " + d.Name + ": lint hangs", Clause: "never hangs", Input: in, Got: "timeout"})
			}
		}
		la := semAll[si].All
		if la.Panic == nil && !la.TimedOut {
			if la.Err != nil {
				checkPositions(res, caseNo, "sem", "semantic error "+d.Name+" (LintAll returned error)", cmpb.Positions(la.Err), d.Files, d.Main, in)
			} else if len(la.Pos) > 0 && c.Err != nil {
				checkPositions(res, caseNo, "sem", "semantic error "+d.Name+" (LintAll report)", la.Pos, d.Files, d.Main, in)
			}
		}
		if la.Panic != nil {
			res.Fail(vh.Failure{Case: caseNo, Stream: "sem", Sig: fmt.Sprintf("C07 semantic error %s: LintAll panic %s", d.Name, errClass(fmt.Sprint(la.Panic))), Clause: "never panics (lint path)", Input: in, Got: fmt.Sprint(la.Panic)})
		}
		caseNo++
	}

	// ---- stream 5: the front end alone (BCL parser + schema walker) on valid, malformed, semantic-error and
	// walker-directed texts; position contract against C11's parser model; coverage of the unmodelled walker
	{
		var texts, how []string
		seen := map[string]bool{}
		add := func(t, h string) {
			if !seen[t] {
				seen[t] = true
				texts = append(texts, t)
				how = append(how, h)
			}
		}
		for _, t := range walkerInputs() {
			add(t, "walker-directed")
		}
		nValid := cfg.Scale(40, 400)
		for i, c := range corpus {
			if i >= nValid {
				break
			}
			add(c[mainFile], "valid")
		}
		for _, d := range decls {
			for _, fn := range sortedFileNames(d.Files) {
				if strings.HasSuffix(fn, ".j5s") {
					add(d.Files[fn], "declaration matrix "+d.Name)
				}
			}
		}
		for _, d := range sems {
			for _, fn := range sortedFileNames(d.Files) {
				if strings.HasSuffix(fn, ".j5s") {
					add(d.Files[fn], "semantic error "+d.Name)
				}
			}
		}
		nMutFront := cfg.Scale(110, 1500)
		for i := 0; i < nMut && i < nMutFront; i++ {
			add(mutContents[i][mainFile], "malformed: "+mutHow[i])
		}
		// ---- stream 10: valid bundles of C02's generator (harness/j5sgen): every package accepted; their texts join the walker stream
		jt, jh := runJ5sGen(cfg, res, &caseNo, distinct)
		for i := range jt {
			add(jt[i], jh[i])
		}
		for _, t := range texts {
			distinct.Add("front:" + t)
		}
		ft, fr := runFront(cfg, res, &caseNo, texts, how)
		ff.Terms = append(ff.Terms, ft...)
		frontRecs = append(frontRecs, fr...)
		// ---- stream 9: the same texts against the Gallina walker (model/CmpbWalk.v): whole location tree, declarations, error positions
		wt, wr := runWalk(cfg, res, &caseNo, texts, how)
		wf.Terms = append(wf.Terms, wt...)
		walkRecs = append(walkRecs, wr...)
		// ---- stream 11: the same texts compiled alone, against the WHOLE front end with the walker model inside
		ut, ur := runFull(cfg, res, &caseNo, texts, how)
		wf.Terms = append(wf.Terms, ut...)
		walkRecs = append(walkRecs, ur...)
	}
	// ---- stream 7: entity declarations against model/CmpbEntity.v (expansion by the ent family's model)
	{
		et, er := runEntities(cfg, res, &caseNo)
		ff.Terms = append(ff.Terms, et...)
		frontRecs = append(frontRecs, er...)
	}
	// ---- stream 8: conversion-error positions in the non-virtual contexts (service request / response properties, topic
	// message fields) against the model of child / GetPos alone
	{
		ct, cr := runChildPos(cfg, res, &caseNo)
		ff.Terms = append(ff.Terms, ct...)
		frontRecs = append(frontRecs, cr...)
	}
	// ---- stream 6: package loading (import graphs with missing packages and cycles) against model/CmpbPackage.v
	{
		pt, pr := runPkgLoad(cfg, res, &caseNo)
		ff.Terms = append(ff.Terms, pt...)
		frontRecs = append(frontRecs, pr...)
	}

	res.Evaluations = caseNo
	res.Distinct = len(distinct)
	const per = 450
	shards, err := cf.WriteShards(cfg.Out, "cases", per)
	if err != nil {
		return err
	}
	for i := range res.Cases {
		res.Cases[i].Shard = fmt.Sprintf("cases_%d", i/per)
		res.Cases[i].Pos = i % per
	}
	const perFront = 120
	fshards, err := ff.WriteShards(cfg.Out, "front", perFront)
	if err != nil {
		return err
	}
	for i := range frontRecs {
		frontRecs[i].Shard = fmt.Sprintf("front_%d", i/perFront)
		frontRecs[i].Pos = i % perFront
	}
	res.Cases = append(res.Cases, frontRecs...)
	const perWalk = 60
	wshards, err := wf.WriteShards(cfg.Out, "walk", perWalk)
	if err != nil {
		return err
	}
	for i := range walkRecs {
		walkRecs[i].Shard = fmt.Sprintf("walk_%d", i/perWalk)
		walkRecs[i].Pos = i % perWalk
	}
	res.Cases = append(res.Cases, walkRecs...)
	res.Shards = append(append(shards, fshards...), wshards...)
	return res.Write(cfg.Out)
}

// absKind: "CTopic (TPublish 1) ..." -> "Topic"
func absKind(k string) string {
	k = strings.TrimPrefix(k, "C")
	if i := strings.IndexByte(k, ' '); i > 0 {
		k = k[:i]
	}
	return k
}

func truncate(s string, n int) string {
	if len(s) > n {
		return s[:n]
	}
	return s
}

func sortedFileNames(m map[string]string) []string {
	var ks []string
	for k := range m {
		ks = append(ks, k)
	}
	sort.Strings(ks)
	return ks
}

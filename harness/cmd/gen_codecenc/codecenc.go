package main

import (
	"bytes"
	"fmt"
	"go/ast"
	"go/printer"
	"go/token"
	"os"
	"path/filepath"
	"strings"

	"verifharness/gen"
)

func init() {
	gen.Register("ReadmeGen.v", genReadme)
	gen.Register("EncSwitchGen.v", genEncSwitch)
}

// ReadmeGen.v: the rows of README.md's "Scalar Types" table (normative for C08).
func genReadme(repo string) (string, error) {
	b, err := os.ReadFile(filepath.Join(repo, "README.md"))
	if err != nil {
		return "", err
	}
	lines := strings.Split(string(b), "\n")
	start := -1
	for i, l := range lines {
		if strings.HasPrefix(strings.TrimSpace(l), "#") && strings.Contains(l, "Scalar Types") {
			start = i
			break
		}
	}
	if start < 0 {
		return "", fmt.Errorf("README.md: no 'Scalar Types' heading")
	}
	var rows [][]string
	var header []string
	for _, l := range lines[start+1:] {
		t := strings.TrimSpace(l)
		if strings.HasPrefix(t, "#") {
			break
		}
		if !strings.HasPrefix(t, "|") {
			if len(rows) > 0 {
				break
			}
			continue
		}
		cells := strings.Split(strings.Trim(t, "|"), "|")
		for i := range cells {
			cells[i] = strings.TrimSpace(cells[i])
		}
		if header == nil {
			header = cells
			continue
		}
		if strings.HasPrefix(cells[0], "---") {
			continue
		}
		rows = append(rows, cells)
	}
	if len(header) != 3 || header[0] != "J5 Type" || header[2] != "JSON Type" {
		return "", fmt.Errorf("README.md: Scalar Types table header is %q", header)
	}
	if len(rows) == 0 {
		return "", fmt.Errorf("README.md: Scalar Types table has no rows")
	}
	var sb strings.Builder
	sb.WriteString("From Coq Require Import String List.\nImport ListNotations.\nLocal Open Scope string_scope.\n")
	sb.WriteString("(* README.md, section \"Scalar Types\": (J5 Type, Proto Type, JSON Type) *)\n")
	sb.WriteString("Definition scalar_rows : list (string * string * string) := [\n")
	for i, r := range rows {
		if len(r) != 3 {
			return "", fmt.Errorf("README.md: row %q does not have three cells", r)
		}
		sep := ";"
		if i == len(rows)-1 {
			sep = ""
		}
		fmt.Fprintf(&sb, "  (%s, %s, %s)%s\n", gen.CoqString(r[0]), gen.CoqString(r[1]), gen.CoqString(r[2]), sep)
	}
	sb.WriteString("].\n")
	return sb.String(), nil
}

func exprString(fset *token.FileSet, e ast.Node) string {
	var buf bytes.Buffer
	printer.Fprint(&buf, fset, e)
	return strings.Join(strings.Fields(buf.String()), " ")
}

func findFunc(f *ast.File, name string) *ast.FuncDecl {
	for _, d := range f.Decls {
		if fd, ok := d.(*ast.FuncDecl); ok && fd.Name.Name == name {
			return fd
		}
	}
	return nil
}

// calls made on the receiver named recv inside n, in source order
func recvCalls(n ast.Node, recv string) []string {
	var out []string
	ast.Inspect(n, func(nd ast.Node) bool {
		if ce, ok := nd.(*ast.CallExpr); ok {
			if se, ok := ce.Fun.(*ast.SelectorExpr); ok {
				if id, ok := se.X.(*ast.Ident); ok && id.Name == recv {
					out = append(out, se.Sel.Name)
				}
			}
		}
		return true
	})
	return out
}

func pkgCalls(n ast.Node) []string {
	var out []string
	ast.Inspect(n, func(nd ast.Node) bool {
		if ce, ok := nd.(*ast.CallExpr); ok {
			if se, ok := ce.Fun.(*ast.SelectorExpr); ok {
				if id, ok := se.X.(*ast.Ident); ok && (id.Name == "strconv" || id.Name == "base64" || id.Name == "fmt" || id.Name == "time" || id.Name == "math") {
					out = append(out, id.Name+"."+se.Sel.Name)
				}
			}
		}
		return true
	})
	return out
}

func strList(xs []string) string {
	var parts []string
	for _, x := range xs {
		parts = append(parts, gen.CoqString(x))
	}
	return "[" + strings.Join(parts, "; ") + "]"
}

// EncSwitchGen.v: the arms of encodeScalarField and scalarGoFromReflect, the helpers the
// arms call, the format verbs of DateString and the layout passed to time.Format.
func genEncSwitch(repo string) (string, error) {
	fset, se, err := gen.ParseFile(filepath.Join(repo, "internal/codec/structure_encode.go"))
	if err != nil {
		return "", err
	}
	_, enc, err := gen.ParseFile(filepath.Join(repo, "internal/codec/encoder.go"))
	if err != nil {
		return "", err
	}
	vfset, vg, err := gen.ParseFile(filepath.Join(repo, "lib/j5reflect/value_go.go"))
	if err != nil {
		return "", err
	}
	dfset, dt, err := gen.ParseFile(filepath.Join(repo, "j5types/date_j5t/date.go"))
	if err != nil {
		return "", err
	}
	var sb strings.Builder
	sb.WriteString("From Coq Require Import String List.\nImport ListNotations.\nLocal Open Scope string_scope.\n")

	// ---- encodeScalarField: Go type of the value -> encoder methods called in that arm, expression handed on
	fn := findFunc(se, "encodeScalarField")
	if fn == nil {
		return "", fmt.Errorf("structure_encode.go: encodeScalarField not found")
	}
	var ts *ast.TypeSwitchStmt
	ast.Inspect(fn, func(n ast.Node) bool {
		if t, ok := n.(*ast.TypeSwitchStmt); ok && ts == nil {
			ts = t
		}
		return true
	})
	if ts == nil {
		return "", fmt.Errorf("encodeScalarField: no type switch")
	}
	sb.WriteString("(* internal/codec/structure_encode.go encodeScalarField: case type, enc.* methods called, package functions used *)\n")
	sb.WriteString("Definition encode_scalar_arms : list (string * list string * list string) := [\n")
	var arms []string
	for _, st := range ts.Body.List {
		cc := st.(*ast.CaseClause)
		name := "default"
		if len(cc.List) > 0 {
			var ns []string
			for _, e := range cc.List {
				ns = append(ns, exprString(fset, e))
			}
			name = strings.Join(ns, ",")
		}
		var calls, pk []string
		for _, s := range cc.Body {
			calls = append(calls, recvCalls(s, "enc")...)
			pk = append(pk, pkgCalls(s)...)
		}
		arms = append(arms, fmt.Sprintf("  (%s, %s, %s)", gen.CoqString(name), strList(calls), strList(pk)))
	}
	sb.WriteString(strings.Join(arms, ";\n") + "\n].\n")

	// ---- the add* helpers of encoder.go: which primitive writes them, which strconv function formats
	sb.WriteString("(* internal/codec/encoder.go: helper, enc.* methods it calls, package functions it uses *)\n")
	sb.WriteString("Definition encoder_helpers : list (string * list string * list string) := [\n")
	var hs []string
	for _, d := range enc.Decls {
		fd, ok := d.(*ast.FuncDecl)
		if !ok || fd.Recv == nil || !strings.HasPrefix(fd.Name.Name, "add") || fd.Name.Name == "add" {
			continue
		}
		hs = append(hs, fmt.Sprintf("  (%s, %s, %s)", gen.CoqString(fd.Name.Name), strList(recvCalls(fd.Body, "enc")), strList(pkgCalls(fd.Body))))
	}
	sb.WriteString(strings.Join(hs, ";\n") + "\n].\n")

	// ---- scalarGoFromReflect: schema alternative (+ format) -> returned expression
	fn = findFunc(vg, "scalarGoFromReflect")
	if fn == nil {
		return "", fmt.Errorf("value_go.go: scalarGoFromReflect not found")
	}
	ts = nil
	ast.Inspect(fn, func(n ast.Node) bool {
		if t, ok := n.(*ast.TypeSwitchStmt); ok && ts == nil {
			ts = t
		}
		return true
	})
	if ts == nil {
		return "", fmt.Errorf("scalarGoFromReflect: no type switch")
	}
	sb.WriteString("(* lib/j5reflect/value_go.go scalarGoFromReflect: schema alternative, format (\"\" if none), first returned expression *)\n")
	sb.WriteString("Definition go_from_reflect_arms : list (string * string * string) := [\n")
	var gs []string
	firstReturn := func(body []ast.Stmt) string {
		for _, s := range body {
			if rs, ok := s.(*ast.ReturnStmt); ok && len(rs.Results) > 0 {
				return exprString(vfset, rs.Results[0])
			}
		}
		return ""
	}
	for _, st := range ts.Body.List {
		cc := st.(*ast.CaseClause)
		name := "default"
		if len(cc.List) > 0 {
			name = exprString(vfset, cc.List[0])
		}
		var inner *ast.SwitchStmt
		for _, s := range cc.Body {
			if sw, ok := s.(*ast.SwitchStmt); ok {
				inner = sw
			}
		}
		if inner == nil {
			ret := firstReturn(cc.Body)
			if ret == "" { // the arms that build a value and return it at the end
				for _, s := range cc.Body {
					if rs, ok := s.(*ast.ReturnStmt); ok && len(rs.Results) > 0 {
						ret = exprString(vfset, rs.Results[0])
					}
				}
			}
			var extra []string
			for _, s := range cc.Body {
				extra = append(extra, pkgCalls(s)...)
			}
			if len(extra) > 0 {
				ret = ret + " via " + strings.Join(extra, ",")
			}
			gs = append(gs, fmt.Sprintf("  (%s, %s, %s)", gen.CoqString(name), gen.CoqString(""), gen.CoqString(ret)))
			continue
		}
		for _, ist := range inner.Body.List {
			icc := ist.(*ast.CaseClause)
			format := "default"
			if len(icc.List) > 0 {
				format = exprString(vfset, icc.List[0])
			}
			gs = append(gs, fmt.Sprintf("  (%s, %s, %s)", gen.CoqString(name), gen.CoqString(format), gen.CoqString(firstReturn(icc.Body))))
		}
	}
	sb.WriteString(strings.Join(gs, ";\n") + "\n].\n")

	// ---- DateString format and the time layout
	fn = findFunc(dt, "DateString")
	if fn == nil {
		return "", fmt.Errorf("date.go: DateString not found")
	}
	format := ""
	ast.Inspect(fn, func(n ast.Node) bool {
		if bl, ok := n.(*ast.BasicLit); ok && bl.Kind == token.STRING && format == "" {
			format = strings.Trim(bl.Value, "\"`")
		}
		return true
	})
	_ = dfset
	fmt.Fprintf(&sb, "(* j5types/date_j5t/date.go DateString *)\nDefinition date_format : string := %s.\n", gen.CoqString(format))
	layout := ""
	ast.Inspect(findFunc(se, "encodeScalarField"), func(n ast.Node) bool {
		if ce, ok := n.(*ast.CallExpr); ok {
			if sel, ok := ce.Fun.(*ast.SelectorExpr); ok && sel.Sel.Name == "Format" && len(ce.Args) == 1 {
				layout = exprString(fset, ce.Args[0])
			}
		}
		return true
	})
	fmt.Fprintf(&sb, "(* the layout handed to time.Time.Format, and the base64 encoding used *)\nDefinition time_layout : string := %s.\n", gen.CoqString(layout))
	b64 := ""
	ast.Inspect(findFunc(se, "encodeScalarField"), func(n ast.Node) bool {
		if sel, ok := n.(*ast.SelectorExpr); ok {
			if id, ok := sel.X.(*ast.Ident); ok && id.Name == "base64" {
				b64 = "base64." + sel.Sel.Name
			}
		}
		return true
	})
	fmt.Fprintf(&sb, "Definition base64_encoding : string := %s.\n", gen.CoqString(b64))
	return sb.String(), nil
}

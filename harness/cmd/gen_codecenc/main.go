// gen_codecenc: translator for the encoder family (coq/gen/ReadmeGen.v, coq/gen/EncSwitchGen.v).
package main

import "verifharness/gen"

func main() { gen.Main() }

package main

import (
	"fmt"
	"os"
	"path/filepath"
	"regexp"
	"strings"

	"verifharness/gen"
)

// README.md, section "Entities" / "Foo Example": the documented j5s declaration and the
// documented proto it produces. Returned as Coq definitions appended to EntityGen.v.
func readmeFacts(repo string) (string, error) {
	b, err := os.ReadFile(filepath.Join(repo, "README.md"))
	if err != nil {
		return "", err
	}
	text := string(b)
	start := strings.Index(text, "### Foo Example")
	end := strings.Index(text, "\nJSON Codec\n")
	if start < 0 || end < start {
		return "", fmt.Errorf("README.md: section '### Foo Example' .. 'JSON Codec' not found")
	}
	sec := text[start:end]

	// fenced blocks
	type block struct{ lang, body string }
	var blocks []block
	lines := strings.Split(sec, "\n")
	for i := 0; i < len(lines); i++ {
		if strings.HasPrefix(lines[i], "```") && len(lines[i]) > 3 {
			lang := strings.TrimSpace(lines[i][3:])
			var body []string
			for i++; i < len(lines) && !strings.HasPrefix(lines[i], "```"); i++ {
				body = append(body, lines[i])
			}
			blocks = append(blocks, block{lang, strings.Join(body, "\n")})
		}
	}
	var j5s string
	var protos []string
	for _, bl := range blocks {
		switch bl.lang {
		case "j5s":
			if j5s == "" {
				j5s = bl.body
			}
		case "proto":
			protos = append(protos, bl.body)
		}
	}
	if j5s == "" {
		return "", fmt.Errorf("README.md: no j5s block in the Foo example")
	}

	// ---- the declaration
	pkg, name := "", ""
	var keys, data [][2]string
	var statuses []string
	type ev struct {
		name   string
		fields [][2]string
	}
	var events []ev
	inEvent := false
	for _, l := range strings.Split(j5s, "\n") {
		f := strings.Fields(l)
		if len(f) == 0 {
			continue
		}
		switch {
		case f[0] == "package" && len(f) >= 2:
			pkg = f[1]
		case f[0] == "entity" && len(f) >= 2:
			name = f[1]
		case f[0] == "key" && len(f) >= 3:
			keys = append(keys, [2]string{f[1], f[2]})
		case f[0] == "data" && len(f) >= 3:
			data = append(data, [2]string{f[1], f[2]})
		case f[0] == "status" && len(f) >= 2:
			statuses = append(statuses, f[1])
		case f[0] == "event" && len(f) >= 2:
			events = append(events, ev{name: f[1]})
			inEvent = true
		case f[0] == "field" && len(f) >= 3 && inEvent && len(events) > 0:
			events[len(events)-1].fields = append(events[len(events)-1].fields, [2]string{f[1], f[2]})
		case f[0] == "}":
			inEvent = false
		}
	}

	// ---- the documented proto
	reMsg := regexp.MustCompile(`^(\s*)message (\w+) \{`)
	reEnum := regexp.MustCompile(`^enum (\w+) \{`)
	reVal := regexp.MustCompile(`^\s+(\w+) = (\d+);`)
	reSvc := regexp.MustCompile(`^service (\w+) \{`)
	reRpc := regexp.MustCompile(`^\s+rpc (\w+)\((\w+)\) returns \(([\w.]+)\)`)
	reHttp := regexp.MustCompile(`\{(get|post|put|delete|patch): "([^"]+)"`)
	reField := regexp.MustCompile(`^(\s+)([\w.]+) (\w+) = (\d+)[ ;]`)
	reEnt := regexp.MustCompile(`entity_name: "([^"]+)"`)
	rePart := regexp.MustCompile(`entity_part: (\w+)`)
	reQuery := regexp.MustCompile(`state_query\.entity = "([^"]+)"`)
	reTopic := regexp.MustCompile(`topic_name: "([^"]+)"`)

	var messages []string
	var fields [][4]string // message, type, name, number
	var psm [][3]string    // message, entity, part
	var enumVals [][3]string
	var services []string
	var rpcs [][5]string // service, rpc, in, out, path
	var svcEntity [][2]string
	var topicNames [][2]string
	seenMsg := map[string]bool{}
	seenEnumVal := map[string]bool{}
	for _, p := range protos {
		var stack []string // message nesting by indentation
		curEnum, curSvc, pendingEnt := "", "", ""
		lastRpc := -1
		for _, l := range strings.Split(p, "\n") {
			if m := reMsg.FindStringSubmatch(l); m != nil {
				depth := len(m[1]) / 2
				if depth > len(stack) {
					depth = len(stack)
				}
				stack = append(stack[:depth], m[2])
				full := strings.Join(stack, ".")
				if !seenMsg[full] {
					seenMsg[full] = true
					messages = append(messages, full)
				}
				curEnum, curSvc = "", ""
				continue
			}
			if m := reEnum.FindStringSubmatch(l); m != nil {
				curEnum, curSvc, stack = m[1], "", nil
				continue
			}
			if m := reSvc.FindStringSubmatch(l); m != nil {
				curSvc, curEnum, stack = m[1], "", nil
				services = append(services, m[1])
				continue
			}
			if curEnum != "" {
				if m := reVal.FindStringSubmatch(l); m != nil && !seenEnumVal[curEnum+"."+m[1]] {
					seenEnumVal[curEnum+"."+m[1]] = true
					enumVals = append(enumVals, [3]string{curEnum, m[1], m[2]})
				}
				continue
			}
			if curSvc != "" {
				if m := reRpc.FindStringSubmatch(l); m != nil {
					rpcs = append(rpcs, [5]string{curSvc, m[1], m[2], m[3], ""})
					lastRpc = len(rpcs) - 1
				}
				if m := reHttp.FindStringSubmatch(l); m != nil && lastRpc >= 0 {
					rpcs[lastRpc][4] = m[2]
				}
				if m := reQuery.FindStringSubmatch(l); m != nil {
					svcEntity = append(svcEntity, [2]string{curSvc, m[1]})
				}
				if m := reTopic.FindStringSubmatch(l); m != nil {
					topicNames = append(topicNames, [2]string{curSvc, m[1]})
				}
				continue
			}
			if len(stack) > 0 {
				if m := reEnt.FindStringSubmatch(l); m != nil {
					pendingEnt = m[1]
				}
				if m := rePart.FindStringSubmatch(l); m != nil && pendingEnt != "" {
					psm = append(psm, [3]string{strings.Join(stack, "."), pendingEnt, m[1]})
					pendingEnt = ""
				}
				if m := reField.FindStringSubmatch(l); m != nil && m[2] != "option" && m[2] != "rpc" {
					depth := len(m[1])/2 - 1
					if depth >= 0 && depth < len(stack) && !(len(m[1])/2 > len(stack)+1) {
						// a field of the innermost message whose indentation matches
						owner := strings.Join(stack[:min(len(stack), len(m[1])/2)], ".")
						fields = append(fields, [4]string{owner, m[2], m[3], m[4]})
					}
				}
			}
		}
	}

	q := gen.CoqString
	pairs := func(xs [][2]string) string {
		var out []string
		for _, x := range xs {
			out = append(out, "("+q(x[0])+", "+q(x[1])+")")
		}
		return "[" + strings.Join(out, "; ") + "]"
	}
	var sb strings.Builder
	sb.WriteString("(* README.md, section 'Foo Example': the documented declaration ... *)\n")
	fmt.Fprintf(&sb, "Definition readme_package : string := %s.\n", q(pkg))
	fmt.Fprintf(&sb, "Definition readme_entity_name : string := %s.\n", q(name))
	fmt.Fprintf(&sb, "Definition readme_keys : list (string * string) := %s.\n", pairs(keys))
	fmt.Fprintf(&sb, "Definition readme_data : list (string * string) := %s.\n", pairs(data))
	fmt.Fprintf(&sb, "Definition readme_statuses : list string := %s.\n", coqStrList(statuses))
	var evs []string
	for _, e := range events {
		evs = append(evs, "("+q(e.name)+", "+pairs(e.fields)+")")
	}
	fmt.Fprintf(&sb, "Definition readme_events : list (string * list (string * string)) := [%s].\n", strings.Join(evs, "; "))
	sb.WriteString("(* ... and the documented proto it produces *)\n")
	fmt.Fprintf(&sb, "Definition readme_messages : list string := %s.\n", coqStrList(messages))
	var fs []string
	for _, f := range fields {
		fs = append(fs, fmt.Sprintf("(%s, %s, %s, %s)", q(f[0]), q(f[1]), q(f[2]), f[3]))
	}
	fmt.Fprintf(&sb, "Definition readme_fields : list (string * string * string * N) := [%s].\n", strings.Join(fs, "; "))
	fmt.Fprintf(&sb, "Definition readme_psm : list (string * string * string) := %s.\n", coqTriples(psm))
	var vs []string
	for _, v := range enumVals {
		vs = append(vs, fmt.Sprintf("(%s, %s, %s)", q(v[0]), q(v[1]), v[2]))
	}
	fmt.Fprintf(&sb, "Definition readme_enum_values : list (string * string * N) := [%s].\n", strings.Join(vs, "; "))
	fmt.Fprintf(&sb, "Definition readme_services : list string := %s.\n", coqStrList(services))
	var rs []string
	for _, r := range rpcs {
		rs = append(rs, fmt.Sprintf("(%s, %s, %s, %s, %s)", q(r[0]), q(r[1]), q(r[2]), q(r[3]), q(r[4])))
	}
	fmt.Fprintf(&sb, "Definition readme_rpcs : list (string * string * string * string * string) := [%s].\n", strings.Join(rs, "; "))
	fmt.Fprintf(&sb, "Definition readme_query_entity : list (string * string) := %s.\n", pairs(svcEntity))
	fmt.Fprintf(&sb, "Definition readme_topic_names : list (string * string) := %s.\n", pairs(topicNames))
	return sb.String(), nil
}

package main

import (
	"fmt"
	"go/ast"
	"go/token"
	"os"
	"path/filepath"
	"regexp"
	"sort"
	"strconv"
	"strings"

	"verifharness/gen"
)

func init() { gen.Register("EntityGen.v", genEntity) }

func strLit(e ast.Expr) (string, bool) {
	bl, ok := e.(*ast.BasicLit)
	if !ok || bl.Kind != token.STRING {
		return "", false
	}
	s, err := strconv.Unquote(bl.Value)
	return s, err == nil
}

func selector(e ast.Expr) (string, string, bool) {
	se, ok := e.(*ast.SelectorExpr)
	if !ok {
		return "", "", false
	}
	id, ok := se.X.(*ast.Ident)
	if !ok {
		return "", "", false
	}
	return id.Name, se.Sel.Name, true
}

func containsStringConcat(e ast.Expr) bool {
	found := false
	ast.Inspect(e, func(n ast.Node) bool {
		if be, ok := n.(*ast.BinaryExpr); ok && be.Op == token.ADD {
			if _, ok := strLit(be.X); ok {
				found = true
			}
			if _, ok := strLit(be.Y); ok {
				found = true
			}
		}
		return true
	})
	return found
}

func coqStrList(xs []string) string {
	q := make([]string, len(xs))
	for i, x := range xs {
		q[i] = gen.CoqString(x)
	}
	return "[" + strings.Join(q, "; ") + "]"
}

func coqPairs(xs [][2]string) string {
	q := make([]string, len(xs))
	for i, x := range xs {
		q[i] = "(" + gen.CoqString(x[0]) + ", " + gen.CoqString(x[1]) + ")"
	}
	return "[" + strings.Join(q, "; ") + "]"
}

func coqTriples(xs [][3]string) string {
	q := make([]string, len(xs))
	for i, x := range xs {
		q[i] = "(" + gen.CoqString(x[0]) + ", " + gen.CoqString(x[1]) + ", " + gen.CoqString(x[2]) + ")"
	}
	return "[" + strings.Join(q, "; ") + "]"
}

// EntityGen.v: the table-like facts of sourcewalk/entity.go (+ topic.go, file.go),
// j5convert/imports.go and the strcase dependency that model/Entity.v relies on.
func genEntity(repo string) (string, error) {
	_, f, err := gen.ParseFile(filepath.Join(repo, "internal/j5s/sourcewalk/entity.go"))
	if err != nil {
		return "", err
	}
	var runOrder []string
	var suffixSites [][2]string  // (function, literal) of ent.componentName / ent.innerRef
	var formats [][2]string      // (function, format) of fmt.Sprintf
	var refFields [][3]string    // (function, pkg, schema) of schemaRefField
	var propNames [][2]string    // (function, Name: literal) in source order
	var parts [][2]string        // (function, EntityPart_X)
	var strcaseCalls [][2]string // (function, strcase function)
	camelOfConcat := 0
	statusLits := map[string]bool{}

	for _, d := range f.Decls {
		fd, ok := d.(*ast.FuncDecl)
		if !ok || fd.Body == nil {
			continue
		}
		fn := fd.Name.Name
		ast.Inspect(fd.Body, func(n ast.Node) bool {
			switch x := n.(type) {
			case *ast.CallExpr:
				if recv, name, ok := selector(x.Fun); ok {
					switch {
					case recv == "ent" && strings.HasPrefix(name, "accept") && fn == "run":
						runOrder = append(runOrder, name)
					case recv == "ent" && (name == "componentName" || name == "innerRef") && len(x.Args) == 1:
						if s, ok := strLit(x.Args[0]); ok {
							suffixSites = append(suffixSites, [2]string{fn, s})
						} else {
							suffixSites = append(suffixSites, [2]string{fn, "<non-literal>"})
						}
					case recv == "fmt" && name == "Sprintf" && len(x.Args) > 0:
						if s, ok := strLit(x.Args[0]); ok {
							formats = append(formats, [2]string{fn, s})
						}
					case recv == "strcase":
						strcaseCalls = append(strcaseCalls, [2]string{fn, name})
						if len(x.Args) == 1 && containsStringConcat(x.Args[0]) {
							camelOfConcat++
						}
					}
				}
				if id, ok := x.Fun.(*ast.Ident); ok && id.Name == "schemaRefField" && len(x.Args) == 2 {
					p, ok1 := strLit(x.Args[0])
					s, ok2 := strLit(x.Args[1])
					if ok1 && ok2 {
						refFields = append(refFields, [3]string{fn, p, s})
					} else if ok1 {
						refFields = append(refFields, [3]string{fn, p, "<computed>"})
					}
				}
			case *ast.KeyValueExpr:
				if k, ok := x.Key.(*ast.Ident); ok && k.Name == "Name" {
					if s, ok := strLit(x.Value); ok {
						propNames = append(propNames, [2]string{fn, s})
					}
				}
			case *ast.SelectorExpr:
				if id, ok := x.X.(*ast.Ident); ok && id.Name == "schema_j5pb" && strings.HasPrefix(x.Sel.Name, "EntityPart_") {
					parts = append(parts, [2]string{fn, x.Sel.Name})
				}
			case *ast.BasicLit:
				if s, ok := strLit(x); ok && strings.Contains(s, "STATUS") {
					statusLits[s] = true
				}
			}
			return true
		})
	}
	var statusList []string
	for s := range statusLits {
		statusList = append(statusList, s)
	}
	sort.Strings(statusList)

	// file.go: how ent.name is derived
	_, ff, err := gen.ParseFile(filepath.Join(repo, "internal/j5s/sourcewalk/file.go"))
	if err != nil {
		return "", err
	}
	entNameFn := ""
	ast.Inspect(ff, func(n ast.Node) bool {
		if kv, ok := n.(*ast.KeyValueExpr); ok {
			if k, ok := kv.Key.(*ast.Ident); ok && k.Name == "name" {
				if call, ok := kv.Value.(*ast.CallExpr); ok {
					if recv, name, ok := selector(call.Fun); ok && recv == "strcase" {
						entNameFn = name
					}
				}
			}
		}
		return true
	})

	// topic.go: name of the topic service and of the message
	_, tf, err := gen.ParseFile(filepath.Join(repo, "internal/j5s/sourcewalk/topic.go"))
	if err != nil {
		return "", err
	}
	var topicFormats []string
	var topicRefs [][3]string
	for _, d := range tf.Decls {
		fd, ok := d.(*ast.FuncDecl)
		if !ok || fd.Body == nil {
			continue
		}
		ast.Inspect(fd.Body, func(n ast.Node) bool {
			if x, ok := n.(*ast.CallExpr); ok {
				if recv, name, ok := selector(x.Fun); ok && recv == "fmt" && name == "Sprintf" && len(x.Args) > 0 && fd.Name.Name == "acceptTopic" {
					if s, ok := strLit(x.Args[0]); ok {
						topicFormats = append(topicFormats, s)
					}
				}
				if id, ok := x.Fun.(*ast.Ident); ok && id.Name == "schemaRefField" && len(x.Args) == 2 {
					p, ok1 := strLit(x.Args[0])
					s, ok2 := strLit(x.Args[1])
					if ok1 && ok2 {
						topicRefs = append(topicRefs, [3]string{fd.Name.Name, p, s})
					}
				}
			}
			return true
		})
	}

	// imports.go: implicitImports
	_, imf, err := gen.ParseFile(filepath.Join(repo, "internal/j5s/j5convert/imports.go"))
	if err != nil {
		return "", err
	}
	var implicit [][2]string
	for _, d := range imf.Decls {
		gd, ok := d.(*ast.GenDecl)
		if !ok {
			continue
		}
		for _, sp := range gd.Specs {
			vs, ok := sp.(*ast.ValueSpec)
			if !ok || len(vs.Names) != 1 || vs.Names[0].Name != "implicitImports" || len(vs.Values) != 1 {
				continue
			}
			cl, ok := vs.Values[0].(*ast.CompositeLit)
			if !ok {
				continue
			}
			for _, el := range cl.Elts {
				kv, ok := el.(*ast.KeyValueExpr)
				if !ok {
					continue
				}
				pkg, _ := strLit(kv.Key)
				ast.Inspect(kv.Value, func(n ast.Node) bool {
					if inner, ok := n.(*ast.KeyValueExpr); ok {
						if name, ok := strLit(inner.Key); ok {
							if _, isLit := inner.Value.(*ast.CompositeLit); isLit {
								implicit = append(implicit, [2]string{pkg, name})
							}
						}
					}
					return true
				})
			}
		}
	}
	sort.Slice(implicit, func(i, j int) bool {
		if implicit[i][0] != implicit[j][0] {
			return implicit[i][0] < implicit[j][0]
		}
		return implicit[i][1] < implicit[j][1]
	})

	// the strcase dependency: version, and no acronym configuration anywhere in the module
	gomod, err := os.ReadFile(filepath.Join(repo, "go.mod"))
	if err != nil {
		return "", err
	}
	ver := ""
	if m := regexp.MustCompile(`github.com/iancoleman/strcase\s+(\S+)`).FindSubmatch(gomod); m != nil {
		ver = string(m[1])
	}
	acronymCalls := 0
	err = filepath.WalkDir(repo, func(path string, de os.DirEntry, err error) error {
		if err != nil {
			return err
		}
		if de.IsDir() && (de.Name() == ".git" || de.Name() == "node_modules") {
			return filepath.SkipDir
		}
		if !de.IsDir() && strings.HasSuffix(path, ".go") {
			b, err := os.ReadFile(path)
			if err != nil {
				return err
			}
			acronymCalls += strings.Count(string(b), "ConfigureAcronym")
		}
		return nil
	})
	if err != nil {
		return "", err
	}

	var sb strings.Builder
	sb.WriteString("From Coq Require Import String List NArith.\nImport ListNotations.\nLocal Open Scope string_scope.\nLocal Open Scope N_scope.\n")
	sb.WriteString("(* internal/j5s/sourcewalk/entity.go, entityNode.run: the ent.accept* calls in source order *)\n")
	fmt.Fprintf(&sb, "Definition run_order : list string := %s.\n", coqStrList(runOrder))
	sb.WriteString("(* (function, literal) of every ent.componentName(..) / ent.innerRef(..) call, in source order *)\n")
	fmt.Fprintf(&sb, "Definition suffix_sites : list (string * string) := %s.\n", coqPairs(suffixSites))
	sb.WriteString("(* strcase.X(expr) calls in entity.go whose argument concatenates a string literal\n   (the pre-fix definition sites ToCamel(entity.Name + \"State\")) *)\n")
	fmt.Fprintf(&sb, "Definition camel_of_concat_sites : N := %d.\n", camelOfConcat)
	sb.WriteString("(* (function, strcase function) of every strcase call in entity.go, in source order *)\n")
	fmt.Fprintf(&sb, "Definition strcase_calls : list (string * string) := %s.\n", coqPairs(strcaseCalls))
	sb.WriteString("(* (function, format) of every fmt.Sprintf in entity.go, in source order *)\n")
	fmt.Fprintf(&sb, "Definition sprintf_formats : list (string * string) := %s.\n", coqPairs(formats))
	sb.WriteString("(* string literals containing STATUS *)\n")
	fmt.Fprintf(&sb, "Definition status_literals : list string := %s.\n", coqStrList(statusList))
	sb.WriteString("(* (function, package, schema) of every schemaRefField(..) with literal package, entity.go then topic.go *)\n")
	fmt.Fprintf(&sb, "Definition schema_ref_fields : list (string * string * string) := %s.\n", coqTriples(refFields))
	fmt.Fprintf(&sb, "Definition topic_ref_fields : list (string * string * string) := %s.\n", coqTriples(topicRefs))
	sb.WriteString("(* (function, Name: \"literal\") of composite literals in entity.go, in source order *)\n")
	fmt.Fprintf(&sb, "Definition property_names : list (string * string) := %s.\n", coqPairs(propNames))
	sb.WriteString("(* (function, schema_j5pb.EntityPart_X) *)\n")
	fmt.Fprintf(&sb, "Definition entity_parts : list (string * string) := %s.\n", coqPairs(parts))
	sb.WriteString("(* sourcewalk/file.go: entityNode{name: strcase.<this>(entity.Name)} *)\n")
	fmt.Fprintf(&sb, "Definition entity_name_function : string := %s.\n", gen.CoqString(entNameFn))
	sb.WriteString("(* sourcewalk/topic.go acceptTopic: Sprintf formats (message name, service name) *)\n")
	fmt.Fprintf(&sb, "Definition topic_formats : list string := %s.\n", coqStrList(topicFormats))
	sb.WriteString("(* j5convert/imports.go implicitImports: (package, exported name), sorted *)\n")
	fmt.Fprintf(&sb, "Definition implicit_imports : list (string * string) := %s.\n", coqPairs(implicit))
	sb.WriteString("(* go.mod: github.com/iancoleman/strcase version; occurrences of ConfigureAcronym in the module's .go files *)\n")
	fmt.Fprintf(&sb, "Definition strcase_version : string := %s.\n", gen.CoqString(ver))
	fmt.Fprintf(&sb, "Definition configure_acronym_occurrences : N := %d.\n", acronymCalls)
	readme, err := readmeFacts(repo)
	if err != nil {
		return "", err
	}
	sb.WriteString(readme)
	return sb.String(), nil
}

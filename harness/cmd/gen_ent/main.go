// gen_ent: translator for the entity family (coq/gen/EntityGen.v).
package main

import "verifharness/gen"

func main() { gen.Main() }

// run_codecdec: implementation runner for the decoder family (C06, C03).
package main

import "verifharness/vh"

func main() { vh.Main() }

package main

import (
	"fmt"
	"google.golang.org/protobuf/reflect/protoreflect"
	"net/url"
	"regexp"
	"strings"

	"verifharness/codecgen"
	"verifharness/vh"
)

func init() { vh.Register("C03", runC03) }

var pathIdxRe = regexp.MustCompile(`\[[0-9]+\]|\{"[^"]*"\}`)

// diffClass turns a Diff result into a signature component: position indices and
// concrete values removed, field path and kind kept.
func diffClass(d string) string {
	if i := strings.Index(d, ": stored "); i >= 0 {
		if j := strings.Index(d[i:], ", denoted"); j >= 0 {
			d = d[:i] + ": stored value differs from the denoted value"
		}
	}
	d = pathIdxRe.ReplaceAllString(d, "[]")
	// keep only the last two path components
	if sp := strings.Index(d, " "); sp > 0 {
		path := d[:sp]
		parts := strings.Split(path, ".")
		if len(parts) > 2 {
			path = "…" + strings.Join(parts[len(parts)-1:], ".")
		}
		d = path + d[sp:]
	}
	return d
}

func runC03(cfg *vh.Config) error {
	res := vh.NewResult("C03", cfg.Seed)
	res.Rule = "documents generated from the schemas the reflector derives for test.schema.v1.FullSchema (+WrappedOneof, NestedExposed, ImplicitOneof, Bar) and the dynamic verif.wide.v1.Wide/Choice/Flat (every scalar kind x singular/optional/repeated/map, enums, objects, oneofs, recursion, flattening, exposed and unexposed proto oneofs): canonical encodings; every documented spelling variation in random combination (quoted/bare numbers, four base64 forms, enum prefix, timestamp offsets, member permutation, whitespace, explicit nulls); exactly one injected fault per document from the property's eleven classes at a random position. non-trivial = distinct document other than {}"
	targets, err := loadTargets()
	if err != nil {
		return err
	}
	em := &emitter{cf: &vh.CasesFile{Header: envHeader(targets), Type: "deccase", Check: "dec_check"}, res: res, perShd: 250}
	distinct := vh.Distinct{}
	// the schema conditions of the theorems, once per environment
	for _, t := range targets {
		em.add("CEnv "+t.Name, "environment", map[string]any{"target": t.Env.Root}, map[string]any{"env": t.Name})
		em.caseNo++
	}
	r := cfg.R
	byName := map[string]*target{}
	for _, t := range targets {
		byName[t.Name] = t
	}
	pickTarget := func() *target {
		switch {
		case r.Chance(45):
			return byName["env_wide"]
		case r.Chance(55):
			return byName["env_full"]
		}
		return vh.Pick(r, targets)
	}

	// every call goes through the worker process; a call that does not come back is a failure with its input,
	// and after maxHard of them nothing more is run
	dec := func(t *target, doc []byte, stream string) (obs, bool) {
		if tripped() {
			res.Count(stream + ": not run (the run stopped after calls that did not return)")
			return obs{}, false
		}
		o := decodeJSON(t, doc)
		if o.hard() {
			res.Fail(hardFailure("C03", "JSONToProto", em.caseNo, stream, map[string]any{"target": t.Env.Root, "json": short(doc)}, o))
			em.caseNo++
		}
		return o, o.usable()
	}
	decQ := func(t *target, q url.Values, stream string) (obs, bool) {
		if tripped() {
			return obs{}, false
		}
		o := decodeQuery(t, q)
		if o.hard() {
			res.Fail(hardFailure("C03", "QueryToProto", em.caseNo, stream, map[string]any{"target": t.Env.Root, "query": q.Encode()}, o))
			em.caseNo++
		}
		return o, o.usable()
	}

	// exact: the decoded message against the independent reading of the document
	checkExact := func(t *target, tree *codecgen.J, doc []byte, o obs, stream string, extra string) {
		rd := codecgen.Read(t.Env, tree)
		input := map[string]any{"target": t.Env.Root, "json": short(doc)}
		if extra != "" {
			input["variation"] = extra
		}
		switch o.Kind {
		case "panic":
			res.Fail(vh.Failure{Case: em.caseNo, Stream: stream, Sig: "C03 decoder panics in " + o.Site, Clause: "decoding succeeds or is rejected with an error", Input: input, Got: o.Panic})
		case "ok":
			if rd.Verdict == codecgen.MustReject {
				res.Fail(vh.Failure{Case: em.caseNo, Stream: stream, Sig: fmt.Sprintf("C03 accepted although not representable: %s", rd.Why), Clause: "a member that cannot be represented in its target field is rejected", Input: input, Got: "decoded to " + short([]byte(o.term())), Want: "error (" + rd.Why + " at " + rd.Where + ")"})
			} else if o.Msg == nil {
				res.Count("exactness not judged: decoded message not transferable from the worker")
			} else if !rd.Incomparable {
				if d := codecgen.Diff(rd.Msg, o.Msg); d != "" {
					res.Fail(vh.Failure{Case: em.caseNo, Stream: stream, Sig: "C03 stored message differs from what the document denotes: " + diffClass(d), Clause: "every non-null member is stored with exactly the value it denotes", Input: input, Got: d})
				}
			}
		case "err":
			if rd.Verdict == codecgen.MustAccept {
				res.Fail(vh.Failure{Case: em.caseNo, Stream: stream, Sig: "C03 documented spelling rejected" + map[bool]string{true: ": " + firstWord(extra), false: ""}[extra != ""], Clause: "all documented alternate spellings decode to the same message as the canonical spelling", Input: input, Got: o.Err})
			}
		}
	}

	// ---- stream 1+2: canonical documents, their spelling variants (leniency) and exactness of both
	nBase := cfg.Scale(170, 1400)
	var bases []struct {
		t    *target
		tree *codecgen.J
	}
	for i := 0; i < nBase; i++ {
		if tripped() {
			break
		}
		t := pickTarget()
		g := codecgen.NewGen(r, t.Env)
		g.Canonical = true
		g.MaxDepth = r.Range(1, 4)
		g.PropChance = vh.Pick(r, []int{8, 20, 35, 60})
		tree := g.Root()
		doc := []byte(tree.Print(nil))
		o, ran := dec(t, doc, "canonical")
		if !ran {
			continue
		}
		distinct.Add(t.Name + string(doc))
		res.Count("canonical")
		res.Count("canonical-outcome:" + o.Kind)
		checkExact(t, tree, doc, o, "canonical", "")
		em.add(decCase(t, doc, o), "canonical", map[string]any{"target": t.Env.Root, "json": short(doc)}, map[string]any{"kind": o.Kind, "err": o.Err})
		em.caseNo++
		if o.Kind == "ok" && len(doc) > 30 {
			res.Sample(map[string]any{"stream": "canonical", "doc": short(doc)}, 3)
		}
		bases = append(bases, struct {
			t    *target
			tree *codecgen.J
		}{t, tree})
		if o.Kind != "ok" {
			continue
		}
		want := o.term()
		for k := 0; k < 3; k++ {
			vt, kinds := codecgen.Respell(r, t.Env, tree)
			st := &codecgen.Style{R: r, Spaces: r.Bool(), Unicode: r.Bool(), Shuffle: r.Bool()}
			vdoc := []byte(vt.Print(st))
			vo, ran := dec(t, vdoc, "variant")
			if !ran {
				continue
			}
			distinct.Add(t.Name + string(vdoc))
			res.Count("variant")
			res.Count("variant-outcome:" + vo.Kind)
			for _, kd := range kinds {
				res.Count("variation:" + kd)
			}
			input := map[string]any{"target": t.Env.Root, "canonical": short(doc), "variant": short(vdoc), "variations": kinds}
			switch vo.Kind {
			case "ok":
				if got := vo.term(); got != want {
					res.Fail(vh.Failure{Case: em.caseNo, Stream: "variant", Sig: "C03 spelling variant decodes to a different message: " + culprit(r, t, tree, vt, want), Clause: "all documented alternate spellings produce the same message as the canonical spelling", Input: input, Got: firstDiff(got, want)})
				}
			case "err":
				res.Fail(vh.Failure{Case: em.caseNo, Stream: "variant", Sig: "C03 documented spelling rejected: " + culprit(r, t, tree, vt, want), Clause: "all documented alternate spellings produce the same message as the canonical spelling", Input: input, Got: vo.Err})
			case "panic":
				res.Fail(vh.Failure{Case: em.caseNo, Stream: "variant", Sig: "C03 decoder panics in " + vo.Site, Clause: "decoding succeeds or is rejected with an error", Input: input, Got: vo.Panic})
			}
			em.add(decCase(t, vdoc, vo), "variant", input, map[string]any{"kind": vo.Kind, "err": vo.Err})
			em.caseNo++
		}
	}

	// ---- stream 2b: generally valid documents in mixed spellings: exactness
	nMixed := cfg.Scale(250, 2500)
	for i := 0; i < nMixed; i++ {
		if tripped() {
			break
		}
		t := pickTarget()
		g := codecgen.NewGen(r, t.Env)
		g.MaxDepth = r.Range(1, 4)
		g.PropChance = vh.Pick(r, []int{8, 20, 35, 60})
		tree := g.Root()
		st := &codecgen.Style{R: r, Spaces: r.Bool(), Unicode: r.Bool(), Shuffle: r.Bool()}
		doc := []byte(tree.Print(st))
		o, ran := dec(t, doc, "mixed")
		if !ran {
			continue
		}
		distinct.Add(t.Name + string(doc))
		res.Count("mixed")
		res.Count("mixed-outcome:" + o.Kind)
		checkExact(t, tree, doc, o, "mixed", "")
		em.add(decCase(t, doc, o), "mixed", map[string]any{"target": t.Env.Root, "json": short(doc)}, map[string]any{"kind": o.Kind, "err": o.Err})
		em.caseNo++
	}

	// ---- stream 3: exactly one injected fault
	nFault := cfg.Scale(700, 7000)
	disagree := 0
	for i := 0; i < nFault; i++ {
		if tripped() || len(bases) == 0 {
			break
		}
		b := vh.Pick(r, bases)
		ft, f := codecgen.InjectFault(r, b.t.Env, b.tree)
		if ft == nil {
			continue
		}
		doc := []byte(ft.Print(nil))
		o, ran := dec(b.t, doc, "fault")
		if !ran {
			continue
		}
		distinct.Add(b.t.Name + string(doc))
		res.Count("fault")
		res.Count("fault:" + f.Class)
		res.Count("fault-at:" + f.Where)
		res.Count("fault-outcome:" + o.Kind)
		rd := codecgen.Read(b.t.Env, ft)
		input := map[string]any{"target": b.t.Env.Root, "json": short(doc), "fault": f.String()}
		if rd.Verdict != codecgen.MustReject {
			// the injector and the reader disagree that this is a fault (e.g. 1e10 for a float): not judged
			disagree++
		} else {
			switch o.Kind {
			case "ok":
				res.Fail(vh.Failure{Case: em.caseNo, Stream: "fault", Sig: fmt.Sprintf("C03 faulted document accepted: %s (%s)", f.Class, f.Kind), Clause: "a document containing a member that cannot be represented is rejected with an error rather than partially accepted", Input: input, Got: "decoded to " + short([]byte(o.term())), Want: "error"})
			case "panic":
				res.Fail(vh.Failure{Case: em.caseNo, Stream: "fault", Sig: "C03 decoder panics in " + o.Site, Clause: "rejected with an error", Input: input, Got: o.Panic})
			}
		}
		if o.Kind == "err" {
			res.Sample(map[string]any{"stream": "fault", "fault": f.String(), "doc": short(doc), "error": o.Err}, 12)
		}
		em.add(decCase(b.t, doc, o), "fault", input, map[string]any{"kind": o.Kind, "err": o.Err})
		em.caseNo++
	}
	res.Notes = append(res.Notes, fmt.Sprintf("fault documents the independent reader did not classify as must-reject (not judged): %d", disagree))

	// ---- stream 3b: the input is ONE document: anything but white space after the top-level value is a
	// fault (fixed corpus of tails x accepted documents), white space around the document is not
	{
		tails := []struct {
			tail  string
			class string
		}{
			{`{}`, "second document"}, {`{"sString":"lost"}`, "second document"}, {` {"sBool":true}`, "second document"},
			{"\n{}", "second document"}, {` x`, "stray text"}, {`]`, "stray close"}, {`}`, "stray close"}, {`,`, "stray separator"},
			{`:`, "stray separator"}, {`null`, "second value"}, {` 1`, "second value"}, {`"`, "unterminated string"},
			{`"x"`, "second value"}, {` tru`, "incomplete literal"}, {`[]`, "second value"}, {"\x00", "stray text"},
		}
		pads := [][2]string{{"", " "}, {"", "\n"}, {" ", ""}, {"\t\r\n ", " \n\t\r"}, {"\n\n", "\n"}}
		nTail := cfg.Scale(12, 120)
		for i := 0; i < nTail && len(bases) > 0 && !tripped(); i++ {
			b := bases[(i*7)%len(bases)]
			canon := []byte(b.tree.Print(nil))
			co, ran := dec(b.t, canon, "trailing")
			if !ran || co.Kind != "ok" {
				continue
			}
			want := co.term()
			for _, tl := range tails {
				doc := append(append([]byte{}, canon...), tl.tail...)
				o, ran := dec(b.t, doc, "trailing")
				if !ran {
					continue
				}
				distinct.Add(b.t.Name + string(doc))
				res.Count("trailing")
				res.Count("trailing-outcome:" + o.Kind)
				input := map[string]any{"target": b.t.Env.Root, "json": short(doc), "tail": tl.tail}
				switch o.Kind {
				case "ok":
					res.Fail(vh.Failure{Case: em.caseNo, Stream: "trailing", Sig: "C03 data after the top-level value accepted: " + tl.class, Clause: "a document is rejected with an error rather than partially accepted", Input: input, Got: "decoded to " + short([]byte(o.term())), Want: "error"})
				case "panic":
					res.Fail(vh.Failure{Case: em.caseNo, Stream: "trailing", Sig: "C03 decoder panics in " + o.Site, Clause: "rejected with an error", Input: input, Got: o.Panic})
				}
				em.add(decCase(b.t, doc, o), "trailing", input, map[string]any{"kind": o.Kind, "err": o.Err})
				em.caseNo++
			}
			for _, pd := range pads {
				doc := append(append([]byte(pd[0]), canon...), pd[1]...)
				o, ran := dec(b.t, doc, "padded")
				if !ran {
					continue
				}
				res.Count("padded")
				input := map[string]any{"target": b.t.Env.Root, "json": short(doc)}
				switch {
				case o.Kind == "err":
					res.Fail(vh.Failure{Case: em.caseNo, Stream: "padded", Sig: "C03 documented spelling rejected: white space around the document", Clause: "insignificant whitespace produces the same message as the canonical spelling", Input: input, Got: o.Err})
				case o.Kind == "panic":
					res.Fail(vh.Failure{Case: em.caseNo, Stream: "padded", Sig: "C03 decoder panics in " + o.Site, Clause: "decoding succeeds or is rejected with an error", Input: input, Got: o.Panic})
				case o.term() != want:
					res.Fail(vh.Failure{Case: em.caseNo, Stream: "padded", Sig: "C03 spelling variant decodes to a different message: white space around the document", Clause: "insignificant whitespace produces the same message as the canonical spelling", Input: input, Got: firstDiff(o.term(), want)})
				}
				em.add(decCase(b.t, doc, o), "padded", input, map[string]any{"kind": o.Kind, "err": o.Err})
				em.caseNo++
			}
		}
	}

	// ---- stream 4: two members of one unexposed proto oneof (both non-null)
	nSib := cfg.Scale(40, 600)
	for i := 0; i < nSib; i++ {
		if tripped() {
			break
		}
		t := pickTarget()
		root := t.Env.Lookup(t.Env.Root)
		var withSib []*codecgen.Prop
		for _, p := range root.Props {
			if len(p.Siblings) > 0 && len(p.Path) == 1 {
				withSib = append(withSib, p)
			}
		}
		if root.Class != "object" || len(withSib) < 2 {
			continue
		}
		a := vh.Pick(r, withSib)
		var partners []*codecgen.Prop
		for _, p := range withSib {
			for _, sib := range a.Siblings {
				if p.Path[0] == sib {
					partners = append(partners, p)
				}
			}
		}
		if len(partners) == 0 {
			continue
		}
		b := vh.Pick(r, partners)
		g := codecgen.NewGen(r, t.Env)
		g.Canonical = true
		tree := codecgen.Obj()
		tree.Schema = root
		tree.Add(a.JSON, g.Value(a.Ty, 2)).Add(b.JSON, g.Value(b.Ty, 2))
		doc := []byte(tree.Print(nil))
		o, ran := dec(t, doc, "proto-oneof-siblings")
		if !ran {
			continue
		}
		distinct.Add(t.Name + string(doc))
		res.Count("proto-oneof-siblings")
		res.Count("proto-oneof-siblings-outcome:" + o.Kind)
		checkExact(t, tree, doc, o, "proto-oneof-siblings", "")
		em.add(decCase(t, doc, o), "proto-oneof-siblings", map[string]any{"target": t.Env.Root, "json": short(doc)}, map[string]any{"kind": o.Kind, "err": o.Err})
		em.caseNo++
	}

	// ---- stream 5: scalar values supplied as URL query parameters decode like the JSON document
	nQuery := cfg.Scale(150, 3000)
	for i := 0; i < nQuery; i++ {
		if tripped() {
			break
		}
		t := pickTarget()
		root := t.Env.Lookup(t.Env.Root)
		if root.Class != "object" {
			continue
		}
		g := codecgen.NewGen(r, t.Env)
		g.Canonical = true
		tree := codecgen.Obj()
		tree.Schema = root
		q := url.Values{}
		var kinds []string
		for _, p := range root.Props {
			if !r.Chance(12) || len(p.Path) == 0 {
				continue
			}
			switch {
			case p.Ty.Class == "scalar" || p.Ty.Class == "enum":
				v := g.Value(p.Ty, 1)
				tree.Add(p.JSON, v)
				q.Add(p.JSON, queryText(v))
				kinds = append(kinds, tyLabel(p.Ty))
			case p.Ty.Class == "array" && (p.Ty.Item.Class == "scalar" || p.Ty.Item.Class == "enum"):
				arr := codecgen.Arr()
				arr.Ty = p.Ty
				for k := r.Range(1, 3); k > 0; k-- {
					v := g.Value(p.Ty.Item, 1)
					arr.Items = append(arr.Items, v)
					q.Add(p.JSON, queryText(v))
				}
				tree.Add(p.JSON, arr)
				kinds = append(kinds, "array of "+tyLabel(p.Ty.Item))
			}
		}
		if len(q) == 0 {
			continue
		}
		doc := []byte(tree.Print(nil))
		oj, ran := dec(t, doc, "query")
		if !ran {
			continue
		}
		oq, ran := decQ(t, q, "query")
		if !ran {
			continue
		}
		distinct.Add(t.Name + "q:" + q.Encode())
		res.Count("query")
		res.Count("query-outcome:" + oq.Kind)
		input := map[string]any{"target": t.Env.Root, "query": q.Encode(), "json": short(doc)}
		if oj.Kind == "ok" {
			switch oq.Kind {
			case "ok":
				if a, b := oq.term(), oj.term(); a != b {
					res.Fail(vh.Failure{Case: em.caseNo, Stream: "query", Sig: "C03 query parameters decode to a different message than the JSON document: " + queryCulprit(t, tree, q), Clause: "scalar values supplied as URL query parameters produce the same message as the canonical spelling", Input: input, Got: firstDiff(a, b)})
				}
			case "err":
				res.Fail(vh.Failure{Case: em.caseNo, Stream: "query", Sig: "C03 query parameter rejected: " + queryCulprit(t, tree, q), Clause: "scalar values supplied as URL query parameters produce the same message as the canonical spelling", Input: input, Got: oq.Err})
			case "panic":
				res.Fail(vh.Failure{Case: em.caseNo, Stream: "query", Sig: "C03 QueryToProto panics in " + oq.Site, Clause: "decoding succeeds or is rejected with an error", Input: input, Got: oq.Panic})
			}
		}
		if oq.Kind == "ok" {
			res.Sample(map[string]any{"stream": "query", "query": q.Encode()}, 16)
		}
		if len(q) <= 4 {
			em.add(queryCase(t, q, oq), "query", input, map[string]any{"kind": oq.Kind, "err": oq.Err})
		}
		em.caseNo++
	}

	// ---- stream 5b (pinned): query values with surrounding white space.  A scalar / enum parameter is the
	// field's text verbatim: it decodes exactly like the same text written as a JSON string (strings and keys
	// keep the white space; numbers, bools, dates, timestamps, enums ... are rejected); only container-valued
	// parameters are trimmed.  Every root scalar kind, scalar arrays and nested a.b paths.
	{
		spaced := []func(string) string{
			func(s string) string { return " " + s }, func(s string) string { return s + " " },
			func(s string) string { return "\t" + s + "\n" }, func(string) string { return "   " },
			func(s string) string { return "\u00a0" + s }, func(s string) string { return s + "\u2003" },
			func(s string) string { return "\r\n" + s + " " },
		}
		k := 0
		for _, t := range []*target{byName["env_full"], byName["env_wide"]} {
			root := t.Env.Lookup(t.Env.Root)
			if root == nil || root.Class != "object" {
				continue
			}
			g := codecgen.NewGen(r, t.Env)
			g.Canonical = true
			type qparam struct {
				key  string
				ty   *codecgen.Ty
				wrap func(*codecgen.J) *codecgen.J
			}
			var params []qparam
			for _, p := range root.Props {
				if len(p.Path) == 0 {
					continue
				}
				name := p.JSON
				switch {
				case p.Ty.Class == "scalar" || p.Ty.Class == "enum":
					params = append(params, qparam{name, p.Ty, func(v *codecgen.J) *codecgen.J { return codecgen.Obj().Add(name, v) }})
				case p.Ty.Class == "array" && (p.Ty.Item.Class == "scalar" || p.Ty.Item.Class == "enum"):
					params = append(params, qparam{name, p.Ty.Item, func(v *codecgen.J) *codecgen.J { return codecgen.Obj().Add(name, codecgen.Arr(v)) }})
				case p.Ty.Class == "object":
					if sub := t.Env.Lookup(p.Ty.Ref); sub != nil {
						for _, c := range sub.Props {
							if len(c.Path) > 0 && c.Ty.Class == "scalar" {
								child := c.JSON
								params = append(params, qparam{name + "." + child, c.Ty, func(v *codecgen.J) *codecgen.J {
									return codecgen.Obj().Add(name, codecgen.Obj().Add(child, v))
								}})
								break
							}
						}
					}
				}
			}
			for _, pr := range params {
				if tripped() {
					break
				}
				for rep := cfg.Scale(2, 7); rep > 0; rep-- {
					text := queryText(g.Value(pr.ty, 1))
					sp := spaced[k%len(spaced)](text)
					k++
					q := url.Values{pr.key: {sp}}
					doc := []byte(pr.wrap(codecgen.Str(sp)).Print(nil))
					oj, ran := dec(t, doc, "query-space")
					if !ran {
						continue
					}
					oq, ran := decQ(t, q, "query-space")
					if !ran {
						continue
					}
					distinct.Add(t.Name + "q:" + q.Encode())
					res.Count("query-space")
					res.Count("query-space-outcome:" + oq.Kind)
					input := map[string]any{"target": t.Env.Root, "query": q.Encode(), "json": short(doc)}
					label := tyLabel(pr.ty)
					switch {
					case oq.Kind == "panic":
						res.Fail(vh.Failure{Case: em.caseNo, Stream: "query-space", Sig: "C03 QueryToProto panics in " + oq.Site, Clause: "decoding succeeds or is rejected with an error", Input: input, Got: oq.Panic})
					case oj.Kind == "err" && oq.Kind == "ok":
						res.Fail(vh.Failure{Case: em.caseNo, Stream: "query-space", Sig: "C03 query value with surrounding white space accepted although the same text is rejected as a JSON string: " + label, Clause: "a member that cannot be represented in its target field is rejected", Input: input, Got: "decoded to " + short([]byte(oq.term())), Want: "error"})
					case oj.Kind == "ok" && oq.Kind == "err":
						res.Fail(vh.Failure{Case: em.caseNo, Stream: "query-space", Sig: "C03 query parameter rejected: white space is part of the value of " + label, Clause: "scalar values supplied as URL query parameters produce the same message as the canonical spelling", Input: input, Got: oq.Err})
					case oj.Kind == "ok" && oq.Kind == "ok" && oq.term() != oj.term():
						res.Fail(vh.Failure{Case: em.caseNo, Stream: "query-space", Sig: "C03 query parameters decode to a different message than the JSON document: white space around " + label, Clause: "stored with exactly the value it denotes", Input: input, Got: firstDiff(oq.term(), oj.term())})
					}
					em.add(queryCase(t, q, oq), "query-space", input, map[string]any{"kind": oq.Kind, "err": oq.Err})
					em.caseNo++
				}
			}
		}
	}

	// ---- stream 6: boundary literals per scalar kind, one member per document
	boundary := map[codecgen.Kind][]*codecgen.J{
		"KInt32":     {codecgen.Num("1e60000000"), codecgen.Num("0e-2000000000"), codecgen.Str("1e60000000"), codecgen.Num("2147483647"), codecgen.Num("-2147483648"), codecgen.Str("2147483647"), codecgen.Num("2147483648"), codecgen.Str("-2147483649"), codecgen.Num("-0"), codecgen.Num("1e2"), codecgen.Num("1.0"), codecgen.Str("+1"), codecgen.Str(" 1"), codecgen.Str("1 "), codecgen.Str("01"), codecgen.Str("")},
		"KInt64":     {codecgen.Num("1e60000000"), codecgen.Num("0e-2000000000"), codecgen.Str("1e60000000"), codecgen.Num("9223372036854775807"), codecgen.Str("-9223372036854775808"), codecgen.Num("9223372036854775808"), codecgen.Str("9223372036854775808"), codecgen.Num("1e18"), codecgen.Str("1e18")},
		"KUint32":    {codecgen.Num("1e60000000"), codecgen.Num("0e-2000000000"), codecgen.Str("1e60000000"), codecgen.Num("4294967295"), codecgen.Str("4294967295"), codecgen.Num("4294967296"), codecgen.Num("-0"), codecgen.Str("-0"), codecgen.Num("-1"), codecgen.Str("+1")},
		"KUint64":    {codecgen.Num("1e60000000"), codecgen.Num("0e-2000000000"), codecgen.Str("1e60000000"), codecgen.Num("18446744073709551615"), codecgen.Str("18446744073709551615"), codecgen.Num("18446744073709551616"), codecgen.Str("18446744073709551616"), codecgen.Num("-0"), codecgen.Num("-1")},
		"KFloat32":   {codecgen.Num("1e60000000"), codecgen.Num("0e-2000000000"), codecgen.Str("1e60000000"), codecgen.Num("3.4028235e38"), codecgen.Num("3.4028235e+38"), codecgen.Num("3.4028236e38"), codecgen.Num("3.5e38"), codecgen.Num("1.00000005960464477539062500000000000000000000000001"), codecgen.Num("1.000000059604644775390625"), codecgen.Num("16777217"), codecgen.Num("1e-46"), codecgen.Num("1.401298464324817e-45"), codecgen.Num("-0"), codecgen.Str("1e39"), codecgen.Str("Infinity"), codecgen.Str("NaN")},
		"KFloat64":   {codecgen.Num("1e60000000"), codecgen.Num("0e-2000000000"), codecgen.Str("1e60000000"), codecgen.Num("1.7976931348623157e308"), codecgen.Num("1.7976931348623159e308"), codecgen.Num("5e-324"), codecgen.Num("2e-324"), codecgen.Num("0.1"), codecgen.Num("9007199254740993"), codecgen.Num("-0"), codecgen.Str("-Infinity")},
		"KBytes":     {codecgen.Str(" "), codecgen.Str(""), codecgen.Str("AQ"), codecgen.Str("AQ=="), codecgen.Str("AQ="), codecgen.Str("AR=="), codecgen.Str("-_-_"), codecgen.Str("+/+/"), codecgen.Str("-/+_"), codecgen.Str("AQID\n"), codecgen.Str("A"), codecgen.Str("AQIDBA")},
		"KDate":      {codecgen.Str(" "), codecgen.Str(""), codecgen.Str("2024-02-29"), codecgen.Str("2023-02-29"), codecgen.Str("0000-01-01"), codecgen.Str("9999-12-31"), codecgen.Str("10000-01-01"), codecgen.Str("2024-1-2"), codecgen.Str("2024-04-31"), codecgen.Str("1900-02-29"), codecgen.Str("2000-02-29")},
		"KDecimal":   {codecgen.Str(""), codecgen.Num("1e60000000"), codecgen.Num("0e-2000000000"), codecgen.Str("1e60000000"), codecgen.Str("0"), codecgen.Num("0"), codecgen.Str("-0"), codecgen.Str("1.50"), codecgen.Num("1.50"), codecgen.Str("1e3"), codecgen.Num("1e3"), codecgen.Str(".5"), codecgen.Str("5."), codecgen.Str("1e1000"), codecgen.Str("1e1001"), codecgen.Str("0.0000000000000000000000000000000000001")},
		"KTimestamp": {codecgen.Str(" "), codecgen.Str(""), codecgen.Str("0001-01-01T00:00:00Z"), codecgen.Str("9999-12-31T23:59:59.999999999Z"), codecgen.Str("1970-01-01T00:00:00Z"), codecgen.Str("2020-02-29T12:00:00+14:00"), codecgen.Str("2020-02-29T12:00:00-12:00"), codecgen.Str("2020-01-01T00:00:00.1234567891Z"), codecgen.Str("2016-12-31T23:59:60Z"), codecgen.Str("2020-01-01T24:00:00Z"), codecgen.Str("2021-02-29T00:00:00Z")},
		"KBool":      {codecgen.Bool(true), codecgen.Bool(false), codecgen.Str("true"), codecgen.Num("1"), codecgen.Num("0")},
		"KString":    {codecgen.Str(""), codecgen.Str("\u0000"), codecgen.Str("\U0010FFFF"), codecgen.Num("1"), codecgen.Bool(true)},
	}
	for _, lit := range []string{"2147483647", "2147483648", "-2147483648", "-2147483649", "4294967295", "4294967296",
		"9223372036854775807", "9223372036854775808", "-9223372036854775808", "-9223372036854775809",
		"18446744073709551615", "18446744073709551616", "0", "-1"} {
		for _, k := range []codecgen.Kind{"KInt32", "KInt64", "KUint32", "KUint64"} {
			boundary[k] = append(boundary[k], codecgen.Num(lit), codecgen.Str(lit))
		}
	}
	for _, t := range []*target{byName["env_full"], byName["env_wide"]} {
		root := t.Env.Lookup(t.Env.Root)
		for _, p := range root.Props {
			var ty *codecgen.Ty
			wrap := func(v *codecgen.J) *codecgen.J { return v }
			switch {
			case p.Ty.Class == "scalar" || p.Ty.Class == "enum":
				ty = p.Ty
			case (p.Ty.Class == "array" || p.Ty.Class == "map") && (p.Ty.Item.Class == "scalar" || p.Ty.Item.Class == "enum"):
				ty = p.Ty.Item
				pt := p.Ty
				if p.Ty.Class == "array" {
					wrap = func(v *codecgen.J) *codecgen.J { a := codecgen.Arr(v); a.Ty = pt; return a }
				} else {
					wrap = func(v *codecgen.J) *codecgen.J { o := codecgen.Obj().Add("k", v); o.Ty = pt; return o }
				}
			default:
				continue
			}
			lits := boundary[ty.Kind]
			if ty.Class == "enum" {
				// every option by both names, and names that are not options: the zero option of a no_default
				// enum is not in the schema and must be rejected like any other unknown name
				lits = nil
				if es := t.Env.Lookup(ty.Ref); es != nil {
					for _, nm := range []string{"UNSPECIFIED", es.Prefix + "UNSPECIFIED", es.Prefix, "", "unspecified"} {
						lits = append(lits, codecgen.Str(nm))
					}
					for _, o := range es.Options {
						lits = append(lits, codecgen.Str(o.Name), codecgen.Str(es.Prefix+o.Name), codecgen.Str(es.Prefix+es.Prefix+o.Name), codecgen.Str(strings.ToLower(o.Name)))
					}
					lits = append(lits, codecgen.Num("0"), codecgen.Num("1"))
				}
			}
			for _, lit := range lits {
				v := lit.Clone()
				v.Ty = ty
				tree := codecgen.Obj()
				tree.Schema = root
				tree.Add(p.JSON, wrap(v))
				doc := []byte(tree.Print(nil))
				o, ran := dec(t, doc, "boundary")
				if !ran {
					continue
				}
				distinct.Add(t.Name + string(doc))
				res.Count("boundary")
				res.Count("boundary-outcome:" + o.Kind)
				checkExact(t, tree, doc, o, "boundary", "")
				em.add(decCase(t, doc, o), "boundary", map[string]any{"target": t.Env.Root, "json": short(doc)}, map[string]any{"kind": o.Kind, "err": o.Err})
				em.caseNo++
			}
		}
	}

	// ---- stream 6b: j5 Any values: the stored j5_json is json.Compact of the text of the "value" member,
	// byte for byte (member order, repeated members, escapes and number spellings as written)
	nAny := cfg.Scale(120, 2000)
	for i := 0; i < nAny; i++ {
		if tripped() {
			break
		}
		t := vh.Pick(r, []*target{byName["env_full"], byName["env_wide"]})
		raw := codecgen.RawJSON(r, r.Range(1, 3))
		want, err := codecgen.CompactJSON(raw)
		if err != nil {
			continue
		}
		tn := vh.Pick(r, []string{"test.schema.v1.Bar", "x", "a.b.C", ""})
		sp := func() string {
			if r.Chance(75) {
				return ""
			}
			return vh.Pick(r, []string{" ", "\n", "  "})
		}
		typ := fmt.Sprintf(`"!type"%s:%s%q`, sp(), sp(), tn)
		val := fmt.Sprintf(`"value"%s:%s%s`, sp(), sp(), raw)
		body := typ + sp() + "," + sp() + val
		if r.Chance(40) {
			body = val + sp() + "," + sp() + typ
		}
		doc := []byte(`{` + sp() + `"j5any"` + sp() + `:` + sp() + `{` + sp() + body + sp() + `}` + sp() + `}`)
		o, ran := dec(t, doc, "any-payload")
		if !ran {
			continue
		}
		distinct.Add(t.Name + string(doc))
		res.Count("any-payload")
		res.Count("any-payload-outcome:" + o.Kind)
		input := map[string]any{"target": t.Env.Root, "json": short(doc)}
		switch o.Kind {
		case "panic":
			res.Fail(vh.Failure{Case: em.caseNo, Stream: "any-payload", Sig: "C03 decoder panics in " + o.Site, Clause: "decoding succeeds or is rejected with an error", Input: input, Got: o.Panic})
		case "err":
			if tn != "" {
				res.Fail(vh.Failure{Case: em.caseNo, Stream: "any-payload", Sig: "C03 any value rejected", Clause: "every non-null member is stored with exactly the value it denotes", Input: input, Got: o.Err})
			}
		case "ok":
			got, gotType, found := anyPayload(o.Msg)
			switch {
			case o.Msg == nil:
				res.Count("any-payload not judged: message not transferable")
			case !found:
				res.Fail(vh.Failure{Case: em.caseNo, Stream: "any-payload", Sig: "C03 any value not stored", Clause: "every non-null member is stored with exactly the value it denotes", Input: input, Got: "field j5any unset", Want: want})
			case got != want:
				res.Fail(vh.Failure{Case: em.caseNo, Stream: "any-payload", Sig: "C03 any value stored differs from the text of the member (json.Compact)", Clause: "every non-null member is stored with exactly the value it denotes", Input: input, Got: got, Want: want})
			case gotType != tn:
				res.Fail(vh.Failure{Case: em.caseNo, Stream: "any-payload", Sig: "C03 any type name stored differs from the \"!type\" member", Clause: "every non-null member is stored with exactly the value it denotes", Input: input, Got: gotType, Want: tn})
			}
		}
		em.add(decCase(t, doc, o), "any-payload", input, map[string]any{"kind": o.Kind, "err": o.Err})
		em.caseNo++
	}

	// ---- stream 7: timestamp texts, valid in every accepted form and near misses: the model of
	// time.Parse(time.RFC3339, .) against the real function (the theorems about timestamps assume they agree)
	nTime := cfg.Scale(400, 6000)
	fixedTimes := []string{"", "Z", "2020-01-01T00:00:00Z", "2020-01-01T00:00:00z", "2020-01-01t00:00:00Z", "2020-01-01 00:00:00Z", "2020-01-01T00:00:00", "2020-01-01T00:00Z", "2020-01-01",
		"2020-01-01T24:00:00Z", "2020-01-01T23:59:60Z", "2016-12-31T23:59:60Z", "2020-01-01T1:02:03Z", "2020-01-01T1:2:3Z", "2020-01-01T01:02:03.Z", "2020-01-01T01:02:03,5Z", "2020-01-01T01:02:03.1234567891234Z",
		"2020-01-01T00:00:00+24:00", "2020-01-01T00:00:00+24:60", "2020-01-01T00:00:00+25:00", "2020-01-01T00:00:00-00:61", "2020-01-01T00:00:00+0000", "2020-01-01T00:00:00+00", "2020-01-01T00:00:00 00:00",
		"0000-01-01T00:00:00Z", "0000-01-01T00:00:00+24:60", "9999-12-31T23:59:59.999999999-24:60", "10000-01-01T00:00:00Z", "+2020-01-01T00:00:00Z", "-2020-01-01T00:00:00Z", "2020-1-1T00:00:00Z",
		"2020-02-29T00:00:00Z", "2021-02-29T00:00:00Z", "1900-02-29T00:00:00Z", "2000-02-29T00:00:00Z", "2020-04-31T00:00:00Z", "2020-00-10T00:00:00Z", "2020-13-10T00:00:00Z", "2020-01-00T00:00:00Z", "2020-01-32T00:00:00Z",
		"2020-01-01T00:00:00Z ", " 2020-01-01T00:00:00Z", "2020-01-01T00:00:00ZZ", "2020-01-01T00:00:00.5", "2020-01-01T00:00:00.5.5Z", "2020-01-01T00:00:00.٥Z", "２０２０-01-01T00:00:00Z", "2020-01-01T00:00:00Z\x00"}
	for i := 0; i < nTime+len(fixedTimes); i++ {
		var s string
		if i < len(fixedTimes) {
			s = fixedTimes[i]
		} else {
			s = codecgen.TimeText(r)
		}
		term, ok := codecgen.TimeTerm(s)
		res.Count("timestamp-text")
		res.Count(fmt.Sprintf("timestamp-text accepted by time.Parse: %v", ok))
		distinct.Add("time:" + s)
		em.add(fmt.Sprintf("CTime %s %s", codecgen.BytesTerm(s), term), "timestamp-text", map[string]any{"text": s}, map[string]any{"time.Parse": term})
		em.caseNo++
		if ok && i >= len(fixedTimes) {
			res.Sample(map[string]any{"stream": "timestamp-text", "text": s, "accepted": true}, 8)
		}
	}

	// ---- stream 8: decimal texts: the model of decimal.NewFromString / String() (lib/Decimal.v) against the library
	nDec := cfg.Scale(300, 4000)
	for i := 0; i < nDec; i++ {
		s := codecgen.DecimalText(r)
		term, ok := codecgen.DecimalTerm(s)
		res.Count("decimal-text")
		res.Count(fmt.Sprintf("decimal-text accepted by decimal.NewFromString: %v", ok))
		distinct.Add("dec:" + s)
		em.add(fmt.Sprintf("CDecimal %s %s", codecgen.BytesTerm(s), term), "decimal-text", map[string]any{"text": s}, map[string]any{"decimal.NewFromString": short([]byte(term))})
		em.caseNo++
		if ok {
			res.Sample(map[string]any{"stream": "decimal-text", "text": s, "accepted": true}, 8)
		}
	}

	if tripped() {
		res.Notes = append(res.Notes, fmt.Sprintf("the run stopped issuing calls after %d calls that did not return (killed worker processes); the remaining inputs were not executed", maxHard))
	}
	shutdownWorker()
	res.Evaluations = em.caseNo
	res.Distinct = len(distinct) - 1
	return em.finish(cfg)
}

// anyPayload reads the j5any field of a decoded message: (j5_json, type_name, present).
func anyPayload(m protoreflect.Message) (string, string, bool) {
	if m == nil {
		return "", "", false
	}
	fd := m.Descriptor().Fields().ByJSONName("j5any")
	if fd == nil || !m.Has(fd) {
		return "", "", false
	}
	a := m.Get(fd).Message()
	jf := a.Descriptor().Fields().ByName("j5_json")
	tf := a.Descriptor().Fields().ByName("type_name")
	if jf == nil || tf == nil {
		return "", "", false
	}
	return string(a.Get(jf).Bytes()), a.Get(tf).String(), true
}

func firstWord(s string) string {
	if i := strings.Index(s, ","); i > 0 {
		return s[:i]
	}
	return s
}

// culprit finds which single variation is responsible: re-applies the variant's
// differences one leaf at a time to the canonical tree.
func culprit(r *vh.Rand, t *target, canon, variant *codecgen.J, want string) string {
	cn := codecgen.Walk(canon)
	// structural additions (explicit nulls) shift positions: compare by path walk where shapes agree
	var out []string
	seen := map[string]bool{}
	var rec func(a, b *codecgen.J, path func(*codecgen.J) *codecgen.J)
	_ = cn
	rec = func(a, b *codecgen.J, _ func(*codecgen.J) *codecgen.J) {
		if a.K != b.K || a.S != b.S {
			// leaf differs: test it alone
			if a.Ty != nil {
				name := tyLabel(a.Ty) + " " + spelling(a, b)
				if !seen[name] {
					probe := canon.Clone()
					replaceEqual(probe, a, b)
					o := decodeJSON(t, []byte(probe.Print(nil)))
					if o.Kind != "ok" || o.term() != want {
						seen[name] = true
						out = append(out, name)
					}
				}
			}
			return
		}
		if a.K == "arr" && len(a.Items) == len(b.Items) {
			for i := range a.Items {
				rec(a.Items[i], b.Items[i], nil)
			}
		}
		if a.K == "obj" {
			for _, ma := range a.Members {
				for _, mb := range b.Members {
					if ma.Key == mb.Key {
						rec(ma.Val, mb.Val, nil)
						break
					}
				}
			}
		}
	}
	rec(canon, variant, nil)
	if len(out) == 0 {
		return "combination (explicit null / member order / whitespace)"
	}
	return out[0]
}

func tyLabel(t *codecgen.Ty) string {
	switch t.Class {
	case "scalar":
		return strings.ToLower(string(t.Kind)[1:])
	}
	return t.Class
}

func spelling(a, b *codecgen.J) string {
	switch {
	case a.K == "num" && b.K == "str":
		return "quoted"
	case a.K == "str" && b.K == "num":
		return "bare"
	}
	return "respelled"
}

// replaceEqual replaces, in tree, the first node equal (by kind and text) to a and of the same type by b.
func replaceEqual(tree, a, b *codecgen.J) {
	for _, n := range codecgen.Walk(tree) {
		if n.J.Ty == a.Ty && n.J.K == a.K && n.J.S == a.S && n.Parent != nil {
			c := b.Clone()
			n.Replace(c)
			return
		}
	}
}

func firstDiff(got, want string) string {
	i := 0
	for i < len(got) && i < len(want) && got[i] == want[i] {
		i++
	}
	lo := i - 80
	if lo < 0 {
		lo = 0
	}
	cut := func(s string) string {
		hi := i + 80
		if hi > len(s) {
			hi = len(s)
		}
		if lo > len(s) {
			return ""
		}
		return s[lo:hi]
	}
	return fmt.Sprintf("variant: …%s… canonical: …%s…", cut(got), cut(want))
}

// queryText is the text of a scalar as a query parameter: the string content, or the literal.
func queryText(v *codecgen.J) string {
	switch v.K {
	case "bool":
		if v.B {
			return "true"
		}
		return "false"
	}
	return v.S
}

// queryCulprit names the first single parameter that alone fails or differs.
func queryCulprit(t *target, tree *codecgen.J, q url.Values) string {
	for _, m := range tree.Members {
		one := codecgen.Obj()
		one.Schema = tree.Schema
		one.Add(m.Key, m.Val)
		oj := decodeJSON(t, []byte(one.Print(nil)))
		oq := decodeQuery(t, url.Values{m.Key: q[m.Key]})
		if oj.Kind == "ok" && (oq.Kind != "ok" || oq.term() != oj.term()) {
			ty := m.Val.Ty
			if ty == nil {
				return m.Key
			}
			if ty.Class == "array" {
				return "array of " + tyLabel(ty.Item)
			}
			return tyLabel(ty)
		}
	}
	return "combination"
}

package main

import (
	"bufio"
	"bytes"
	"encoding/json"
	"fmt"
	"io"
	"net/url"
	"os"
	"os/exec"
	"runtime/debug"
	"strconv"
	"strings"
	"sync"
	"time"

	"google.golang.org/protobuf/proto"
	"google.golang.org/protobuf/reflect/protoreflect"

	"verifharness/codecgen"
	"verifharness/vh"
)

// Every call of the implementation runs in a killable child process ("worker"):
// a hang, a memory bomb or a fatal runtime error (stack overflow) cannot be
// handled by recover() and must not take the harness with it. The parent sends
// one request at a time, waits with a deadline while watching the child's
// resident memory, kills and restarts the child when either limit is hit, and
// attributes the failure to the request in flight. After maxHard such failures
// the run stops issuing requests (tripped), so a check always ends promptly.

func init() { vh.Register("CODECWORKER", runWorker) }

type wreq struct {
	ID     int    `json:"id"`
	Target string `json:"target"`
	Kind   string `json:"kind"` // json query json-any (JSONToProto with a codec built WithProtoToAny)
	Doc    []byte `json:"doc,omitempty"`
	Query  []wkv  `json:"query,omitempty"`
}

// wkv: one query key with its values, as bytes (query text need not be valid UTF-8, JSON strings must be)
type wkv struct {
	Key  []byte   `json:"k"`
	Vals [][]byte `json:"v"`
	Nil  bool     `json:"nil,omitempty"`
}

func packQuery(q url.Values) []wkv {
	out := make([]wkv, 0, len(q))
	for k, vs := range q {
		e := wkv{Key: []byte(k), Nil: vs == nil}
		for _, v := range vs {
			e.Vals = append(e.Vals, []byte(v))
		}
		out = append(out, e)
	}
	return out
}

func unpackQuery(kvs []wkv) url.Values {
	q := url.Values{}
	for _, e := range kvs {
		vs := []string{}
		if e.Nil {
			vs = nil
		}
		for _, v := range e.Vals {
			vs = append(vs, string(v))
		}
		q[string(e.Key)] = vs
	}
	return q
}

type wresp struct {
	ID        int    `json:"id"`
	Kind      string `json:"kind"` // ok err panic
	Err       string `json:"err,omitempty"`
	Panic     string `json:"panic,omitempty"`
	Site      string `json:"site,omitempty"`
	Wire      []byte `json:"wire,omitempty"`
	WireOK    bool   `json:"wire_ok,omitempty"`
	Term      string `json:"term,omitempty"`
	ElapsedNs int64  `json:"elapsed_ns"`
}

// ---------------------------------------------------------------- child side

func runWorker(cfg *vh.Config) error {
	// the nesting bound of the decoder (10^4 levels) needs a few tens of MB of stack; with the default
	// limit of 1 GB unbounded recursion would first have to fill that before it shows
	debug.SetMaxStack(96 << 20)
	targets, err := loadTargets()
	if err != nil {
		return err
	}
	byName := map[string]*target{}
	for _, t := range targets {
		byName[t.Name] = t
	}
	in := bufio.NewReaderSize(os.Stdin, 1<<20)
	out := bufio.NewWriter(os.Stdout)
	for {
		line, err := in.ReadBytes('\n')
		if len(line) > 0 {
			var req wreq
			if jerr := json.Unmarshal(line, &req); jerr != nil {
				return jerr
			}
			t := byName[req.Target]
			if t == nil {
				return fmt.Errorf("unknown target %q", req.Target)
			}
			var o obs
			switch req.Kind {
			case "json":
				o = inProcess(func() (protoreflect.Message, error) {
					m := t.New()
					return m, theCodec.JSONToProto(req.Doc, m)
				})
			case "json-any":
				o = inProcess(func() (protoreflect.Message, error) {
					m := t.New()
					return m, theAnyCodec.JSONToProto(req.Doc, m)
				})
			case "query":
				o = inProcess(func() (protoreflect.Message, error) {
					m := t.New()
					return m, theCodec.QueryToProto(unpackQuery(req.Query), m)
				})
			}
			resp := wresp{ID: req.ID, Kind: o.Kind, Err: o.Err, Panic: o.Panic, Site: o.Site, ElapsedNs: int64(o.Elapsed)}
			if o.Kind == "ok" {
				resp.Term = codecgen.MsgTerm(o.Msg)
				if b, merr := (proto.MarshalOptions{AllowPartial: true, Deterministic: true}).Marshal(o.Msg.Interface()); merr == nil {
					resp.Wire, resp.WireOK = b, true
				}
			}
			b, _ := json.Marshal(resp)
			out.Write(b)
			out.WriteByte('\n')
			out.Flush()
		}
		if err != nil {
			if err == io.EOF {
				return nil
			}
			return err
		}
	}
}

// ---------------------------------------------------------------- parent side

const (
	maxHard     = 3          // hard failures (timeout / fatal / memory) before the run stops issuing requests
	maxRSSBytes = 1536 << 20 // resident memory a worker may reach while handling one request
)

type worker struct {
	mu      sync.Mutex
	cmd     *exec.Cmd
	in      io.WriteCloser
	lines   chan []byte
	stderr  *bytes.Buffer
	nextID  int
	hard    int
	started int
}

var theWorker = &worker{}

// tripped: enough hard failures have been seen; further calls are not made.
func tripped() bool {
	theWorker.mu.Lock()
	defer theWorker.mu.Unlock()
	return theWorker.hard >= maxHard
}

func (w *worker) start() error {
	cmd := exec.Command(os.Args[0], "-prop", "CODECWORKER", "-out", os.TempDir())
	cmd.Env = append(os.Environ(), "GOMEMLIMIT=1GiB")
	in, err := cmd.StdinPipe()
	if err != nil {
		return err
	}
	outp, err := cmd.StdoutPipe()
	if err != nil {
		return err
	}
	w.stderr = &bytes.Buffer{}
	cmd.Stderr = w.stderr
	if err := cmd.Start(); err != nil {
		return err
	}
	w.cmd, w.in = cmd, in
	w.lines = make(chan []byte, 1)
	w.started++
	go func(ch chan []byte) {
		rd := bufio.NewReaderSize(outp, 1<<20)
		for {
			line, err := rd.ReadBytes('\n')
			if len(line) > 0 {
				ch <- line
			}
			if err != nil {
				close(ch)
				return
			}
		}
	}(w.lines)
	return nil
}

func (w *worker) kill() {
	if w.cmd != nil && w.cmd.Process != nil {
		w.cmd.Process.Kill()
		w.cmd.Wait()
	}
	w.cmd = nil
}

func rssBytes(pid int) int64 {
	b, err := os.ReadFile("/proc/" + strconv.Itoa(pid) + "/statm")
	if err != nil {
		return 0
	}
	f := strings.Fields(string(b))
	if len(f) < 2 {
		return 0
	}
	pages, _ := strconv.ParseInt(f[1], 10, 64)
	return pages * int64(os.Getpagesize())
}

// call sends one request; hard is "" or "timeout" / "fatal" / "memory" (the worker was killed or died).
func (w *worker) call(req wreq, deadline time.Duration) (resp wresp, hard string, detail string) {
	w.mu.Lock()
	defer w.mu.Unlock()
	if w.hard >= maxHard {
		return wresp{}, "skipped", ""
	}
	if w.cmd == nil {
		if err := w.start(); err != nil {
			w.hard = maxHard
			return wresp{}, "fatal", "cannot start worker: " + err.Error()
		}
	}
	w.nextID++
	req.ID = w.nextID
	b, _ := json.Marshal(req)
	b = append(b, '\n')
	if _, err := w.in.Write(b); err != nil {
		detail = "worker pipe: " + err.Error() + " " + tail(w.stderr.String(), 400)
		w.kill()
		w.hard++
		return wresp{}, "fatal", detail
	}
	timer := time.NewTimer(deadline)
	defer timer.Stop()
	tick := time.NewTicker(50 * time.Millisecond)
	defer tick.Stop()
	for {
		select {
		case line, ok := <-w.lines:
			if !ok {
				detail = tail(w.stderr.String(), 600)
				w.kill()
				w.hard++
				return wresp{}, "fatal", detail
			}
			if err := json.Unmarshal(line, &resp); err != nil || resp.ID != req.ID {
				continue
			}
			return resp, "", ""
		case <-timer.C:
			w.kill()
			w.hard++
			return wresp{}, "timeout", "no answer after " + deadline.String()
		case <-tick.C:
			if w.cmd != nil && w.cmd.Process != nil {
				if rss := rssBytes(w.cmd.Process.Pid); rss > maxRSSBytes {
					w.kill()
					w.hard++
					return wresp{}, "memory", fmt.Sprintf("resident memory %d MB while handling one request", rss>>20)
				}
			}
		}
	}
}

func tail(s string, n int) string {
	if i := strings.Index(s, "fatal error"); i >= 0 {
		s = s[i:]
	}
	if len(s) > n {
		s = s[:n]
	}
	return s
}

// deadlineFor is the kill deadline of a request: generous against the linear
// budget of the timing oracle, but finite.
func deadlineFor(size int) time.Duration {
	d := 8*time.Second + time.Duration(size)*60*time.Microsecond
	if d > 40*time.Second {
		d = 40 * time.Second
	}
	return d
}

// hardFailure reports a call that did not come back, with the input in flight.
func hardFailure(prop, fn string, caseNo int, stream string, input any, o obs) vh.Failure {
	f := vh.Failure{Case: caseNo, Stream: stream, Input: input, Got: o.Kind + ": " + o.Err}
	switch o.Kind {
	case "timeout":
		f.Sig = prop + " " + fn + " does not return within the deadline"
		f.Clause = "decoding returns in time bounded by the input size"
	case "memory":
		f.Sig = prop + " " + fn + " memory use not bounded by the input size"
		f.Clause = "decoding returns in time (and space) bounded by the input size"
	default:
		cls := "process died"
		if strings.Contains(o.Err, "stack overflow") || strings.Contains(o.Err, "stack exceeds") {
			cls = "fatal stack overflow"
		} else if strings.Contains(o.Err, "out of memory") {
			cls = "out of memory"
		}
		f.Sig = prop + " " + fn + " kills the process: " + cls
		f.Clause = "never recurses without bound / exhausts the stack"
	}
	return f
}

func viaWorker(t *target, req wreq, size int) obs {
	req.Target = t.Name
	resp, hard, detail := theWorker.call(req, deadlineFor(size))
	if hard != "" {
		return obs{Kind: hard, Err: detail, Elapsed: deadlineFor(size)}
	}
	o := obs{Kind: resp.Kind, Err: resp.Err, Panic: resp.Panic, Site: resp.Site, Elapsed: time.Duration(resp.ElapsedNs), Term: resp.Term}
	if resp.Kind == "ok" && resp.WireOK {
		m := t.New()
		if err := (proto.UnmarshalOptions{AllowPartial: true}).Unmarshal(resp.Wire, m.Interface()); err == nil {
			o.Msg = m
		}
	}
	return o
}

func shutdownWorker() {
	theWorker.mu.Lock()
	defer theWorker.mu.Unlock()
	if theWorker.cmd != nil {
		theWorker.in.Close()
		theWorker.kill()
	}
}

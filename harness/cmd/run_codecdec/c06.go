package main

import (
	"fmt"
	"net/url"
	"os"
	"strings"
	"time"

	"verifharness/codecgen"
	"verifharness/vh"
)

func init() {
	vh.Register("C06", runC06)
}

// inputClass names the generator that produced an input; part of failure signatures.
type c06input struct {
	class string
	t     *target
	doc   []byte
	model bool // also evaluated by the Coq model
}

func runC06(cfg *vh.Config) error {
	res := vh.NewResult("C06", cfg.Seed)
	res.Rule = "JSON: valid generated documents in varied spellings; truncation at every byte; null at every value position; byte-level edits; duplicate members; huge numbers; wrong JSON type at a random position; hand-written shapes; random bytes; nesting 10^3..10^5 on the recursive type and in arrays/any values; query: generated url.Values with empty keys, dotted paths into every field kind, repeats. non-trivial = distinct input other than the empty input"
	tStart := time.Now()
	targets, err := loadTargets()
	if err != nil {
		return err
	}
	fmt.Fprintf(os.Stderr, "c06 loadTargets %s\n", time.Since(tStart))
	em := &emitter{cf: &vh.CasesFile{Header: envHeader(targets), Type: "deccase", Check: "dec_check"}, res: res, perShd: 250}
	distinct := vh.Distinct{}
	// the schema conditions of the theorems, once per environment
	for _, t := range targets {
		em.add("CEnv "+t.Name, "environment", map[string]any{"target": t.Env.Root}, map[string]any{"env": t.Name})
		em.caseNo++
	}
	r := cfg.R
	full := targets[0]
	byName := map[string]*target{}
	for _, t := range targets {
		byName[t.Name] = t
	}

	var inputs []c06input
	add := func(class string, t *target, doc string, model bool) {
		inputs = append(inputs, c06input{class, t, []byte(doc), model})
	}

	// ---- hand-written shapes (every target)
	shapes := []string{
		``, ` `, `{}`, `{`, `}`, `null`, `[]`, `1`, `"x"`, `true`, `{}{}`, `{} x`, `{"a"}`, `{"a":}`, `{,}`, `{"sString":"a",}`,
		`{"sString":null}`, `{"sString":1}`, `{"sString":{}}`, `{"sString":[]}`, `{"rString":[null]}`, `{"rString":null}`, `{"rString":[1]}`, `{"rString":["a",null]}`,
		`{"rBool":[null]}`, `{"rBool":[true,null,false]}`, `{"rFloat":[null]}`, `{"rEnum":[null]}`, `{"rBytes":[null]}`, `{"rTs":[null]}`, `{"rDate":[null]}`, `{"rDecimal":[null]}`,
		`{"mapStringString":{"k":null}}`, `{"mapStringString":{"k":1}}`, `{"mapStringString":null}`, `{"mapStringString":{"k":"a","k":"b"}}`, `{"mapStringBar":{"k":null}}`, `{"mapStringBar":{"k":{}, "k":{}}}`,
		`{"wrappedOneof":{"!type":"wOneofString"}}`, `{"wrappedOneof":{"!type":"wOneofBar"}}`, `{"wrappedOneof":{"!type":"nope"}}`, `{"wrappedOneof":{"!type":null}}`, `{"wrappedOneof":{"!type":1}}`,
		`{"wrappedOneof":{"!type":"wOneofString","wOneofString":null}}`, `{"wrappedOneof":{"wOneofString":"a","wOneofFloat":1}}`, `{"wrappedOneof":{"!type":"wOneofFloat","wOneofString":"a"}}`, `{"wrappedOneof":{}}`, `{"wrappedOneof":null}`,
		`{"wrappedOneofs":[{"!type":"wOneofString"}]}`, `{"wrappedOneofs":[null]}`, `{"wrappedOneofs":[{}]}`, `{"exposedOneof":{"!type":"exposedString"}}`, `{"exposedOneof":{"exposedString":"x"}}`,
		`{"nestedExposedOneof":{"type":{"!type":"de3"}}}`, `{"nestedExposedOneof":{"type":{"de3":{"type":{"de1":"x"}}}}}`,
		`{"sImplicitOneof":{"!type":"ioBar"}}`, `{"sImplicitOneof":{"ioBar":{},"ioBaz":{}}}`, `{"rImplicitOneofs":[{"!type":"ioBaz"}]}`,
		`{"!type":"wOneofString"}`, `{"!type":"wOneofBar"}`, `{"!type":"x"}`, `{"!type":"de3"}`, `{"type":{"!type":"de3"}}`, `{"!type":"ioBar"}`, `{"!type":"barId"}`,
		`{"j5any":{"!type":"x","value":{}}}`, `{"j5any":{"!type":"x"}}`, `{"j5any":{"value":{}}}`, `{"j5any":{}}`, `{"j5any":{"!type":"x","value":1,"v2":2}}`, `{"j5any":{"!type":"x","value":[1,{"a":null}]}}`, `{"j5any":{"!type":"x","value":}}`,
		`{"pbany":{"!type":"test.schema.v1.Bar","value":{"barId":"1"}}}`, `{"pbany":null}`, `{"j5any":null}`, `{"j5any":{"!type":"", "value":"aA\n"}}`,
		`{"sBar":{"barId":"a","barId":"b"}}`, `{"sBar":null,"sBar":{}}`, `{"sBar":{},"sBar":null}`, `{"sString":"a","sString":"b"}`, `{"sString":null,"sString":"b"}`, `{"sString":"a","sString":null}`,
		`{"fieldFromFlattened":"a","field2FromFlattened":"b"}`, `{"fieldFromFlattened":""}`, `{"fieldFromFlattened":null}`, `{"flattened":{}}`,
		`{"aOneofString":"x","aOneofFloat":1.5}`, `{"aOneofBar":{},"aOneofString":"x"}`, `{"aOneofEnum":"VALUE1"}`,
		`{"enum":"VALUE1"}`, `{"enum":"ENUM_VALUE1"}`, `{"enum":"ENUM_ENUM_VALUE1"}`, `{"enum":"nope"}`, `{"enum":1}`, `{"enum":null}`, `{"enum":""}`, `{"enum":"ENUM_"}`,
		`{"sInt32":"abc"}`, `{"sInt32":"2147483648"}`, `{"sInt32":2147483648}`, `{"sInt32":1.0}`, `{"sInt32":1e2}`, `{"sInt32":"+1"}`, `{"sInt32":"-0"}`, `{"sInt32":-0}`, `{"sInt32":" 1"}`, `{"sInt32":"1_0"}`, `{"sInt32":"0x10"}`, `{"sInt32":""}`, `{"sInt32":true}`,
		`{"sUint64":18446744073709551615}`, `{"sUint64":"18446744073709551615"}`, `{"sUint64":"18446744073709551616"}`, `{"sUint64":-1}`, `{"sUint64":"-1"}`, `{"sUint64":"+1"}`, `{"sUint32":4294967296}`, `{"sUint32":"4294967295"}`,
		`{"sInt64":9223372036854775808}`, `{"sInt64":"-9223372036854775808"}`, `{"sSint32":-2147483648}`,
		`{"sFloat":1e39}`, `{"sFloat":"1e39"}`, `{"sFloat":1e400}`, `{"sFloat":"NaN"}`, `{"sFloat":"Inf"}`, `{"sFloat":"-inf"}`, `{"sFloat":"0x1p-2"}`, `{"sFloat":"1_0"}`, `{"sFloat":true}`, `{"sFloat":""}`, `{"sFloat":".5"}`, `{"sFloat":"+5."}`, `{"sFloat":-0}`, `{"sFloat":"infinity"}`, `{"sFloat":"infin"}`,
		`{"sBool":"true"}`, `{"sBool":1}`, `{"sBool":null}`, `{"oBool":false}`, `{"oString":""}`, `{"oFloat":0}`,
		`{"sBytes":"AQID"}`, `{"sBytes":"AQI"}`, `{"sBytes":"AQI="}`, `{"sBytes":"AQ=="}`, `{"sBytes":"AQ="}`, `{"sBytes":"A"}`, `{"sBytes":"A==="}`, `{"sBytes":"-_-_"}`, `{"sBytes":"AQ\nID"}`, `{"sBytes":"AQID\n"}`, `{"sBytes":"AQ==\n"}`, `{"sBytes":"AQ=\n="}`, `{"sBytes":"AQ==AQ=="}`, `{"sBytes":"****"}`, `{"sBytes":""}`, `{"sBytes":"="}`, `{"sBytes":"AQID="}`, `{"sBytes":1}`, `{"sBytes":"AR=="}`,
		`{"date":"2024-01-02"}`, `{"date":"2024-13-45"}`, `{"date":"2024-1-2"}`, `{"date":"+2024-+1-+2"}`, `{"date":"-2024-01-02"}`, `{"date":"2024-01"}`, `{"date":"2024-01-02-03"}`, `{"date":"4294967297-1-1"}`, `{"date":"99999999999999999999-1-1"}`, `{"date":"a-b-c"}`, `{"date":""}`, `{"date":"0-0-0"}`, `{"date":20240102}`,
		`{"decimal":"1.50"}`, `{"decimal":1.50}`, `{"decimal":"abc"}`, `{"decimal":"1e3"}`, `{"decimal":""}`, `{"decimal":"1.2.3"}`, `{"decimal":"-.5"}`, `{"decimal":"1e99999999999"}`, `{"decimal":"1e7000000"}`, `{"decimal":"1e-7000000"}`, `{"decimal":"1e1000"}`, `{"decimal":"1e1001"}`, `{"decimal":1e-1001}`, `{"rDecimal":["1e400000000"]}`,
		`{"ts":"2020-01-01T00:00:00Z"}`, `{"ts":"2020-01-01T10:00:00+10:00"}`, `{"ts":"2020-01-01T00:00:00.123456789Z"}`, `{"ts":"2020-01-01 00:00:00Z"}`, `{"ts":"2020-02-30T00:00:00Z"}`, `{"ts":"2020-01-01T24:00:00Z"}`, `{"ts":"2020-01-01T00:00:60Z"}`, `{"ts":"2020-01-01t00:00:00z"}`, `{"ts":"2020-01-01T00:00:00"}`, `{"ts":"2020-01-01T00:00:00,5Z"}`, `{"ts":"0000-01-01T00:00:00Z"}`, `{"ts":"10000-01-01T00:00:00Z"}`, `{"ts":1577836800}`, `{"ts":""}`,
		`{"keyString":null}`, `{"keyString":1}`, `{"unknown":1}`, `{"sstring":"a"}`, `{"s_string":"a"}`, `{"":1}`, `{"sString":"\ud800"}`, `{"sString":"\udc00\ud800"}`, `{"sString":"😀"}`, `{"sString":"\ud83dA"}`, `{"sString":"é\u0000"}`, "{\"sString\":\"\xff\xfe\"}", "{\"sString\":\"\xed\xa0\x80\"}", "{\"sString\":\"a\x01\"}", `{"sString":"\x"}`, `{"sString":"\u12"}`,
		"\xef\xbb\xbf{}", `{"sString" "a"}`, `{"sString":"a" "oString":"b"}`, `{"sString"::"a"}`, `{"rString":["a" "b"]}`, `{"rString":["a",,"b"]}`, `{"rString":["a",]}`, `{"rString":[,"a"]}`, `{"rString":["a"}`, `{"rString":{"a":"b"}}`, `{"sBar":["a"]}`, `{"rBars":[[]]}`, `{"rBars":[{}]}`, `{"rBars":{}}`, `{"rBars":[null]}`, `{"rBars":[{"barId":null}]}`,
		`{"sString":tru}`, `{"sString":nul}`, `{"sString":TRUE}`, `{"sInt32":01}`, `{"sInt32":-}`, `{"sInt32":1.}`, `{"sInt32":1e}`, `{"sInt32":.5}`, `{"sInt32":+1}`, `{"sInt32":0x1}`, `{"sInt32":1}}`, `{"sInt32":1]`, `{"sInt32":[1}`,
	}
	for _, s := range shapes {
		for _, t := range targets {
			if t != full && r.Chance(70) {
				continue
			}
			add("hand-written shape", t, s, true)
		}
	}

	// ---- generated valid documents and their mutations
	nValid := cfg.Scale(60, 420)
	for i := 0; i < nValid; i++ {
		t := full
		switch {
		case r.Chance(45):
			t = byName["env_wide"]
		case r.Chance(30):
			t = vh.Pick(r, targets)
		}
		g := codecgen.NewGen(r, t.Env)
		g.MaxDepth = r.Range(1, 5)
		g.PropChance = vh.Pick(r, []int{10, 25, 40, 70})
		tree := g.Root()
		st := &codecgen.Style{R: r, Spaces: r.Bool(), Unicode: r.Bool(), Shuffle: r.Bool()}
		doc := tree.Print(st)
		add("generated valid document", t, doc, true)
		compact := tree.Print(nil)
		if len(compact) < 400 || r.Chance(10) {
			for _, p := range codecgen.Prefixes(compact, 60, r) {
				add("truncated document", t, p, r.Chance(25))
			}
			for _, nd := range codecgen.NullEverywhere(tree) {
				add("null at a value position", t, nd.Print(nil), r.Chance(40))
			}
		}
		for k := 0; k < 4; k++ {
			add("byte-level edit", t, codecgen.ByteMutation(doc, r), true)
		}
		add("duplicate member", t, codecgen.DuplicateMember(tree, r).Print(st), true)
		add("huge number", t, codecgen.HugeNumber(tree, r).Print(st), true)
		for k := 0; k < 3; k++ {
			add("wrong JSON type at a position", t, codecgen.WrongShape(tree, r).Print(st), true)
		}
	}

	// ---- every property of every target confronted with values of every JSON shape:
	// as the member itself, as an array element, as a map value
	for _, t := range targets {
		root := t.Env.Lookup(t.Env.Root)
		for _, p := range root.Props {
			for _, v := range codecgen.OddValues() {
				for _, shape := range []string{"member", "element", "entry"} {
					var val *codecgen.J
					switch shape {
					case "member":
						val = v
					case "element":
						if p.Ty.Class != "array" {
							continue
						}
						val = codecgen.Arr(codecgen.Str("x"), v)
						if r.Bool() {
							val = codecgen.Arr(v)
						}
					case "entry":
						if p.Ty.Class != "map" {
							continue
						}
						val = codecgen.Obj().Add("k", v)
					}
					doc := codecgen.Obj().Add(p.JSON, val).Print(nil)
					add("odd value at a member position", t, doc, r.Chance(map[bool]int{true: 9, false: 22}[cfg.Tier == "quick"]))
				}
			}
		}
	}

	// ---- random bytes / random token soup
	nRand := cfg.Scale(150, 4000)
	soup := []string{"{", "}", "[", "]", ",", ":", `"sString"`, `"rString"`, `"sBar"`, `"!type"`, `"wrappedOneof"`, `"wOneofString"`, `"mapStringString"`, `"j5any"`, `"value"`, `"type"`, `"de3"`, "null", "true", "1", `"a"`, " ", "-", "1e5"}
	for i := 0; i < nRand; i++ {
		t := vh.Pick(r, targets)
		if r.Bool() {
			add("random bytes", t, string(r.Bytes(r.Intn(40))), true)
		} else {
			var sb strings.Builder
			sb.WriteString("{")
			for k := r.Intn(14); k > 0; k-- {
				sb.WriteString(vh.Pick(r, soup))
			}
			add("random token soup", t, sb.String(), true)
		}
	}

	// ---- depth: recursive type, arrays, any values (implementation only beyond small depths)
	nested := byName["env_nested"]
	depths := []int{1, 2, 10, 100, 1000, 10000}
	if cfg.Tier == "thorough" {
		depths = append(depths, 100000)
	}
	for _, d := range depths {
		model := d <= 100
		add("deep nesting on recursive type", nested, strings.Repeat(`{"type":{"de3":`, d)+`{}`+strings.Repeat(`}}`, d), model)
		if d <= 1000 || (d <= 10000 && cfg.Tier == "thorough") {
			// the error path is quadratic in the depth (fieldError.parent copies the path at every level):
			// 10^4 levels take seconds; bounded by the input size, but not linearly
			add("deep nesting on recursive type, unclosed", nested, strings.Repeat(`{"type":{"de3":`, d), model)
		}
		add("deep nesting on recursive type", full, `{"nestedExposedOneofs":[`+strings.Repeat(`{"type":{"de3":`, d)+`{}`+strings.Repeat(`}}`, d)+`]}`, model)
		add("deep array nesting", full, `{"rString":`+strings.Repeat(`[`, d)+strings.Repeat(`]`, d)+`}`, model)
		add("deep object nesting", full, `{"sBar":`+strings.Repeat(`{"barId":`, d)+`1`+strings.Repeat(`}`, d)+`}`, model)
		add("deep nesting inside any value", full, `{"j5any":{"!type":"x","value":`+strings.Repeat(`[`, d)+strings.Repeat(`]`, d)+`}}`, model)
		add("deep nesting inside any value", full, `{"j5any":{"!type":"x","value":`+strings.Repeat(`{"a":`, d)+`null`+strings.Repeat(`}`, d)+`}}`, model)
	}
	add("deep nesting inside any value", full, `{"j5any":{"!type":"x","value":`+strings.Repeat(`[`, 10001)+strings.Repeat(`]`, 10001)+`}}`, false)
	// recursion through a repeated and through a map message field (Wide.children / Wide.kids), and depths far
	// beyond the nesting bound: a fatal stack overflow is only visible because the call runs in the worker process
	wide := byName["env_wide"]
	thorough := cfg.Tier == "thorough"
	for _, d := range append(append([]int{}, depths...), 400000, 1000000) {
		model := d <= 100
		big := d > 100000
		// beyond the nesting bound every one of these is an error whose path has 10^4 levels: seconds each
		// (see the unclosed documents above), so the quick tier runs three of them
		if d <= 1000 || (big && thorough) {
			add("deep nesting through a repeated field, unclosed", wide, strings.Repeat(`{"children":[`, d), model)
			add("deep nesting through a map field, unclosed", wide, strings.Repeat(`{"kids":{"k":`, d), model)
		}
		if d <= 1000 || thorough {
			add("deep nesting through a repeated field", wide, strings.Repeat(`{"children":[`, d)+`{}`+strings.Repeat(`]}`, d), model)
			add("deep nesting through a map field", wide, strings.Repeat(`{"kids":{"k":`, d)+`{}`+strings.Repeat(`}}`, d), model)
		}
		if big && thorough {
			add("deep nesting on recursive type", nested, strings.Repeat(`{"type":{"de3":`, d)+`{}`+strings.Repeat(`}}`, d), false)
			add("deep nesting on recursive type", full, `{"nestedExposedOneofs":[`+strings.Repeat(`{"type":{"de3":`, d)+`{}`+strings.Repeat(`}}`, d)+`]}`, false)
			add("deep array nesting", full, `{"rString":`+strings.Repeat(`[`, d)+strings.Repeat(`]`, d)+`}`, false)
			add("deep nesting inside any value", full, `{"j5any":{"!type":"x","value":`+strings.Repeat(`[`, d)+strings.Repeat(`]`, d)+`}}`, false)
		}
	}
	if !thorough {
		add("deep nesting through a repeated field, unclosed", wide, strings.Repeat(`{"children":[`, 400000), false)
		add("deep nesting through a map field", wide, strings.Repeat(`{"kids":{"k":`, 400000)+`{}`+strings.Repeat(`}}`, 400000), false)
		add("deep nesting on recursive type", nested, strings.Repeat(`{"type":{"de3":`, 1000000)+`{}`+strings.Repeat(`}}`, 1000000), false)
		add("deep array nesting", full, `{"rString":`+strings.Repeat(`[`, 1000000)+strings.Repeat(`]`, 1000000)+`}`, false)
		add("deep nesting inside any value", full, `{"j5any":{"!type":"x","value":`+strings.Repeat(`[`, 1000000)+strings.Repeat(`]`, 1000000)+`}}`, false)
	}
	add("long string", full, `{"sString":"`+strings.Repeat("a", 100000)+`"}`, false)
	add("long array", full, `{"rString":[`+strings.Repeat(`"a",`, 20000)+`"a"]}`, false)
	add("many duplicate keys", full, `{`+strings.Repeat(`"sString":null,`, 20000)+`"sString":"x"}`, false)

	fmt.Fprintf(os.Stderr, "c06 generation done %s\n", time.Since(tStart))
	res.Notes = append(res.Notes, fmt.Sprintf("stage: generation done (%d inputs)", len(inputs)))
	t0 := time.Now()
	// ---- run
	timings := map[string]time.Duration{}
	for _, in := range inputs {
		if tripped() {
			res.Count("json: not run (the run stopped after calls that did not return)")
			continue
		}
		o := decodeJSON(in.t, in.doc)
		key := in.t.Name + "\x00" + string(in.doc)
		distinct.Add(key)
		res.Count("json:" + in.class)
		res.Count("json-outcome:" + o.Kind)
		if o.Elapsed > timings[in.class] {
			timings[in.class] = o.Elapsed
		}
		input := map[string]any{"target": in.t.Env.Root, "json": short(in.doc), "class": in.class}
		switch o.Kind {
		case "panic":
			res.Fail(vh.Failure{Case: em.caseNo, Stream: "json", Sig: fmt.Sprintf("C06 JSONToProto panics in %s: %s", o.Site, panicClass(o.Panic)), Clause: "decoding never panics", Input: input, Got: o.Panic})
		case "timeout", "fatal", "memory":
			res.Fail(hardFailure("C06", "JSONToProto", em.caseNo, "json", input, o))
		default:
			// time bounded by input size: generous linear budget
			budget := 2*time.Second + time.Duration(len(in.doc))*50*time.Microsecond
			if o.Elapsed > budget {
				res.Fail(vh.Failure{Case: em.caseNo, Stream: "json", Sig: "C06 JSONToProto time not linear in input size", Clause: "decoding returns in time bounded by the input size", Input: input, Got: o.Elapsed.String()})
			}
		}
		if in.model && o.usable() && len(in.doc) < 6000 {
			em.add(decCase(in.t, in.doc, o), "json", input, map[string]any{"kind": o.Kind, "err": o.Err, "panic": o.Panic})
		}
		if o.Kind == "ok" && len(in.doc) > 20 {
			res.Sample(map[string]any{"stream": "json", "class": in.class, "doc": short(in.doc), "outcome": o.Kind}, 4)
		} else if o.Kind == "err" && len(in.doc) > 20 {
			res.Sample(map[string]any{"stream": "json", "class": in.class, "doc": short(in.doc), "outcome": "err: " + o.Err}, 8)
		}
		em.caseNo++
	}
	res.Notes = append(res.Notes, fmt.Sprintf("stage: json run %s", time.Since(t0)))
	for k, v := range timings {
		res.Notes = append(res.Notes, fmt.Sprintf("max wall time, %s: %s", k, v))
	}

	// ---- lexer stream: the tokenizer model against encoding/json on the same documents
	nLex := 0
	for i, in := range inputs {
		if !in.model || len(in.doc) > 3000 || (i%3 != 0 && in.class != "hand-written shape") {
			continue
		}
		toks, more := codecgen.Tokens(in.doc)
		em.add(fmt.Sprintf("CLex %s %s %s", codecgen.BytesTerm(string(in.doc)), codecgen.TokensTerm(toks), vh.BoolTerm(more)), "lex", short(in.doc), map[string]any{"tokens": len(toks), "more": more})
		nLex++
		res.Count("lex")
	}

	res.Notes = append(res.Notes, fmt.Sprintf("stage: after lex %s", time.Since(t0)))
	// ---- query stream: crash / deadline oracle, and the query model on the same url.Values
	nQuery := cfg.Scale(400, 30000)
	for i := 0; i < nQuery; i++ {
		t := vh.Pick(r, targets)
		q := genQuery(r, t)
		if tripped() {
			res.Count("query: not run (the run stopped after calls that did not return)")
			continue
		}
		o := decodeQuery(t, q)
		distinct.Add("q:" + t.Name + fmt.Sprintf("%q", map[string][]string(q)))
		res.Count("query")
		res.Count("query-outcome:" + o.Kind)
		input := map[string]any{"target": t.Env.Root, "query": fmt.Sprintf("%q", map[string][]string(q))}
		switch o.Kind {
		case "panic":
			res.Fail(vh.Failure{Case: em.caseNo, Stream: "query", Sig: fmt.Sprintf("C06 QueryToProto panics in %s: %s", o.Site, panicClass(o.Panic)), Clause: "query decoding never panics", Input: input, Got: o.Panic})
		case "timeout", "fatal", "memory":
			res.Fail(hardFailure("C06", "QueryToProto", em.caseNo, "query", input, o))
		}
		if o.Kind == "ok" {
			res.Sample(map[string]any{"stream": "query", "query": q.Encode(), "outcome": "ok"}, 10)
		}
		if len(q) <= 4 && o.usable() && (cfg.Tier == "quick" || i%8 == 0) {
			em.add(queryCase(t, q, o), "query", input, map[string]any{"kind": o.Kind, "err": o.Err, "panic": o.Panic})
		}
		em.caseNo++
	}

	// ---- query: every scalar / scalar-array property of every root with blank and odd values
	for _, t := range targets {
		root := t.Env.Lookup(t.Env.Root)
		for _, p := range root.Props {
			leaf := p.Ty.Class == "scalar" || p.Ty.Class == "enum" ||
				(p.Ty.Class == "array" && (p.Ty.Item.Class == "scalar" || p.Ty.Item.Class == "enum"))
			if !leaf {
				continue
			}
			for _, vals := range [][]string{{""}, {"", "x"}, {"x", ""}, {" "}, {"1e60000000"}, {"0e-2000000000"}, {"null"}, {"\x00"}} {
				q := url.Values{p.JSON: vals}
				if tripped() {
					continue
				}
				o := decodeQuery(t, q)
				res.Count("query")
				res.Count("query-outcome:" + o.Kind)
				input := map[string]any{"target": t.Env.Root, "query": fmt.Sprintf("%q", map[string][]string(q))}
				switch o.Kind {
				case "panic":
					res.Fail(vh.Failure{Case: em.caseNo, Stream: "query", Sig: fmt.Sprintf("C06 QueryToProto panics in %s: %s", o.Site, panicClass(o.Panic)), Clause: "query decoding never panics", Input: input, Got: o.Panic})
				case "timeout", "fatal", "memory":
					res.Fail(hardFailure("C06", "QueryToProto", em.caseNo, "query", input, o))
				default:
					if o.Elapsed > 2*time.Second {
						res.Fail(vh.Failure{Case: em.caseNo, Stream: "query", Sig: "C06 QueryToProto time not linear in input size", Clause: "query decoding returns in time bounded by the input size", Input: input, Got: o.Elapsed.String()})
					}
				}
				if o.usable() && r.Chance(25) {
					em.add(queryCase(t, q, o), "query", input, map[string]any{"kind": o.Kind, "err": o.Err, "panic": o.Panic})
				}
				em.caseNo++
			}
		}
	}
	res.Notes = append(res.Notes, fmt.Sprintf("stage: after query %s", time.Since(t0)))

	// ---- query-size: the size terms of C06_query_steps_linear_in_input (3 * keys + key bytes + values + value bytes),
	// one family per term, sizes ascending: components of a dotted key (propertyAtPath walks / creates one container
	// per component on the recursive type), values of one array parameter, keys without values, bytes of a
	// container-valued parameter.  Implementation only (deadline + budget 2 s + 50 us/byte of query); a family stops
	// at its first failure so the reported input is the smallest.
	{
		type qfam struct {
			class string
			t     *target
			sizes []int
			mk    func(n int) url.Values
		}
		big := cfg.Scale(20000, 200000)
		fams := []qfam{
			{"dotted key of n components on the recursive type", nested, []int{1, 10, 100, 1000, big}, func(n int) url.Values {
				return url.Values{strings.Repeat("type.de3.", n) + "type.de1": {"x"}}
			}},
			{"dotted key of n components, unknown tail", nested, []int{1, 10, 100, 1000, big}, func(n int) url.Values {
				return url.Values{strings.Repeat("type.de3.", n) + "nope": {"x"}}
			}},
			{"n values for one array parameter", full, []int{1, 10, 100, 1000, big, 5 * big}, func(n int) url.Values {
				vs := make([]string, n)
				for i := range vs {
					vs[i] = "v"
				}
				return url.Values{"rString": vs}
			}},
			{"n keys without values", full, []int{1, 10, 100, 1000, big, 5 * big}, func(n int) url.Values {
				q := url.Values{"sString": {"x"}}
				for i := 0; i < n; i++ {
					q[fmt.Sprintf("k%d", i)] = []string{}
				}
				return q
			}},
			{"container parameter of n members", full, []int{1, 10, 100, 1000, big}, func(n int) url.Values {
				return url.Values{"sBar": {` {"barId":"b"` + strings.Repeat(`,"barId":null`, n) + `}`}}
			}},
			{"container parameter with a value of n bytes", full, []int{1, 100, 10000, 50 * big}, func(n int) url.Values {
				return url.Values{"sBar": {`{"barId":"` + strings.Repeat("b", n) + `"}`}}
			}},
		}
		for _, fam := range fams {
			var maxT time.Duration
			for _, n := range fam.sizes {
				if tripped() || fam.t == nil {
					break
				}
				q := fam.mk(n)
				size := 0
				for k, vs := range q {
					size += 3 + len(k)
					for _, v := range vs {
						size += 1 + len(v)
					}
				}
				o := decodeQuery(fam.t, q)
				res.Count("query-size:" + fam.class)
				res.Count("query-size-outcome:" + o.Kind)
				if o.Elapsed > maxT {
					maxT = o.Elapsed
				}
				input := map[string]any{"target": fam.t.Env.Root, "class": fam.class, "n": n, "query_size": size, "query": string(short([]byte(fmt.Sprintf("%q", map[string][]string(q)))))}
				failed := true
				switch {
				case o.Kind == "panic":
					res.Fail(vh.Failure{Case: em.caseNo, Stream: "query-size", Sig: fmt.Sprintf("C06 QueryToProto panics in %s: %s", o.Site, panicClass(o.Panic)), Clause: "query decoding never panics", Input: input, Got: o.Panic})
				case o.hard():
					res.Fail(hardFailure("C06", "QueryToProto", em.caseNo, "query-size", input, o))
				case o.Elapsed > 2*time.Second+time.Duration(size)*50*time.Microsecond:
					res.Fail(vh.Failure{Case: em.caseNo, Stream: "query-size", Sig: "C06 QueryToProto time not bounded by the size of the query: " + fam.class, Clause: "query decoding returns in time bounded by the input size", Input: input, Got: o.Elapsed.String()})
				default:
					failed = false
				}
				em.caseNo++
				if failed {
					break
				}
			}
			res.Notes = append(res.Notes, fmt.Sprintf("max wall time, query-size %s: %s", fam.class, maxT))
		}
	}

	// ---- nested Any values with a codec built WithProtoToAny (last: a hang here must not starve the other streams).
	// decodeAny decodes the payload as its declared type, which may hold an Any again: one decode per level is
	// quadratic at worst; a second decode per level is 2^depth.  Depths ascending, so the first failure is the
	// smallest input; the family stops at its first failure.
	{
		nestedAny := func(depth int, leaf string) []byte {
			sb := &strings.Builder{}
			for i := 0; i < depth; i++ {
				sb.WriteString(`{"j5any":{"!type":"test.schema.v1.FullSchema","value":`)
			}
			sb.WriteString(leaf)
			for i := 0; i < depth; i++ {
				sb.WriteString(`}}`)
			}
			return []byte(sb.String())
		}
		full := byName["env_full"]
		for _, fam := range []struct{ class, leaf, want string }{
			{"nested any (WithProtoToAny), valid leaf", `{"sString":"leaf"}`, "ok"},
			{"nested any (WithProtoToAny), faulty leaf", `{"sString":5}`, "err"},
		} {
			var maxT time.Duration
			for _, depth := range []int{1, 2, 3, 4, 6, 8, 10, 12, 13, 14, 15, 16, 17, 18, 19, 20, 22, 24, 26, 28, 30, 40, 48} {
				if tripped() || full == nil {
					break
				}
				doc := nestedAny(depth, fam.leaf)
				o := decodeJSONAny(full, doc)
				res.Count("json-any:" + fam.class)
				res.Count("json-any-outcome:" + o.Kind)
				if o.Elapsed > maxT {
					maxT = o.Elapsed
				}
				input := map[string]any{"target": full.Env.Root, "codec": "WithProtoToAny", "depth": depth, "bytes": len(doc), "json": short(doc), "class": fam.class}
				failed := true
				switch {
				case o.Kind == "panic":
					res.Fail(vh.Failure{Case: em.caseNo, Stream: "json-any", Sig: fmt.Sprintf("C06 JSONToProto (WithProtoToAny) panics in %s: %s", o.Site, panicClass(o.Panic)), Clause: "decoding never panics", Input: input, Got: o.Panic})
				case o.hard():
					res.Fail(hardFailure("C06", "JSONToProto (WithProtoToAny)", em.caseNo, "json-any", input, o))
				case o.Elapsed > 2*time.Second+time.Duration(len(doc))*50*time.Microsecond:
					res.Fail(vh.Failure{Case: em.caseNo, Stream: "json-any", Sig: "C06 JSONToProto (WithProtoToAny) time not bounded by input size: nested Any values", Clause: "decoding returns in time bounded by the input size", Input: input, Got: o.Elapsed.String()})
				case o.Kind != fam.want:
					res.Fail(vh.Failure{Case: em.caseNo, Stream: "json-any", Sig: "C06 JSONToProto (WithProtoToAny) nested Any values: " + fam.want + " expected, got " + o.Kind, Clause: "decoding returns success or an error", Input: input, Got: o.Kind + " " + o.Err})
				default:
					failed = false
				}
				em.caseNo++
				if failed {
					break
				}
			}
			res.Notes = append(res.Notes, fmt.Sprintf("max wall time, %s: %s", fam.class, maxT))
		}
	}
	if tripped() {
		res.Notes = append(res.Notes, fmt.Sprintf("the run stopped issuing calls after %d calls that did not return (killed worker processes); the remaining inputs were not executed", maxHard))
	}
	shutdownWorker()
	res.Evaluations = em.caseNo
	res.Distinct = len(distinct) - 1
	err = em.finish(cfg)
	fmt.Fprintf(os.Stderr, "c06 stages: total %s\n", time.Since(t0))
	return err
}

// genQuery draws url.Values: property names of the target (camel and snake),
// dotted paths into containers, unknown and empty keys, repeats, values of every sort.
func genQuery(r *vh.Rand, t *target) url.Values {
	q := url.Values{}
	root := t.Env.Lookup(t.Env.Root)
	values := []string{"", "a", "1", "-1", "1.5", "true", "false", "null", "abc", "2020-01-01", "2020-01-01T00:00:00Z", "AQID", "VALUE1", "ENUM_VALUE1", "{}", `{"barId":"x"}`, `{"!type":"wOneofString"}`, `{"wOneofString":"x"}`, ` {"barId":"x"}`, `{`, `[]`, `[1]`, "18446744073709551615", "99999999999999999999", "1e400", "\xff", "a b", "{\"barId\":null}", `{"type":{"de1":"x"}}`}
	for n := r.Intn(5); n >= 0; n-- {
		var key string
		switch r.Intn(10) {
		case 0:
			key = vh.Pick(r, []string{"", ".", "..", "a.", ".a", "unknown", "sBar.", "sBar..barId", "sString.x", "rString.0", "mapStringString.k", "!type", "s_string", "S_STRING", "sBar.bar_id", "flattened.fieldFromFlattened", "wrappedOneof.wOneofBar.barId", "nestedExposedOneof.type.de3.type.de1", "type.de3.type.de1", "type.de1", "type", "j5any.value", "pbany.x", "exposedOneof.exposedString"})
		default:
			s := root
			var parts []string
			for depth := 0; depth < 4 && s != nil && len(s.Props) > 0; depth++ {
				p := vh.Pick(r, s.Props)
				parts = append(parts, p.JSON)
				if (p.Ty.Class == "object" || p.Ty.Class == "oneof") && r.Chance(60) {
					s = t.Env.Lookup(p.Ty.Ref)
					continue
				}
				break
			}
			key = strings.Join(parts, ".")
		}
		if r.Chance(6) {
			q[key] = []string{} // a key with no values at all
			continue
		}
		for k := r.Range(1, 3); k > 0; k-- {
			q.Add(key, vh.Pick(r, values))
			if r.Chance(70) {
				break
			}
		}
	}
	return q
}

package main

import (
	"fmt"
	"net/url"
	"regexp"
	"runtime/debug"
	"sort"
	"strings"
	"time"

	"github.com/pentops/j5/gen/test/schema/v1/schema_testpb"
	"github.com/pentops/j5/lib/j5codec"
	"google.golang.org/protobuf/proto"
	"google.golang.org/protobuf/reflect/protoreflect"
	"google.golang.org/protobuf/types/dynamicpb"

	"verifharness/codecgen"
	"verifharness/vh"
)

// target is one message type decoded into, with the environment the real reflector derives for it.
type target struct {
	Name string // Coq identifier of its env
	New  func() protoreflect.Message
	Env  *codecgen.Env
}

func loadTargets() ([]*target, error) {
	mk := func(name string, m proto.Message) *target {
		return &target{Name: name, New: func() protoreflect.Message { return m.ProtoReflect().New() }}
	}
	ts := []*target{
		mk("env_full", &schema_testpb.FullSchema{}),
		mk("env_wrapped", &schema_testpb.WrappedOneof{}),
		mk("env_nested", &schema_testpb.NestedExposed{}),
		mk("env_implicit", &schema_testpb.ImplicitOneof{}),
		mk("env_bar", &schema_testpb.Bar{}),
	}
	wf, err := codecgen.WideFile()
	if err != nil {
		return nil, err
	}
	for _, n := range []string{"Wide", "Choice", "Flat"} {
		md := wf.Messages().ByName(protoreflect.Name(n))
		ts = append(ts, &target{Name: "env_" + strings.ToLower(n), New: func() protoreflect.Message { return dynamicpb.NewMessage(md) }})
	}
	for _, t := range ts {
		env, err := codecgen.BuildEnv(t.New().Descriptor())
		if err != nil {
			return nil, fmt.Errorf("%s: %w", t.Name, err)
		}
		if len(env.Problems) > 0 {
			return nil, fmt.Errorf("%s: %v", t.Name, env.Problems)
		}
		t.Env = env
	}
	return ts, nil
}

func envHeader(ts []*target) string {
	var sb strings.Builder
	codecgen.Packed = true
	sb.WriteString("From Coq Require Import String List NArith ZArith.\nFrom Coq Require Import Uint63.\nFrom J5V.lib Require Import Json Pack.\nFrom J5V.model Require Import CodecTypes CodecDecScalar CodecDec CodecDecCorr.\nImport ListNotations.\nLocal Open Scope N_scope.\n")
	for _, t := range ts {
		fmt.Fprintf(&sb, "Definition %s : env := %s.\n", t.Name, t.Env.Coq())
	}
	return sb.String()
}

// observation of one call
type obs struct {
	Kind    string // ok err panic | timeout fatal memory | skipped
	Term    string // Coq term of the message (from the worker)
	Err     string
	Panic   string
	Site    string // first j5 frame of a panic
	Msg     protoreflect.Message
	Elapsed time.Duration
}

func panicSite(stack string) string {
	for _, line := range strings.Split(stack, "\n") {
		line = strings.TrimSpace(line)
		if !strings.HasPrefix(line, "github.com/pentops/j5/") {
			continue
		}
		if i := strings.LastIndex(line, "("); i > 0 {
			line = line[:i]
		}
		return strings.TrimPrefix(line, "github.com/pentops/j5/")
	}
	return "?"
}

var numRe = regexp.MustCompile(`[0-9]+`)

func panicClass(p string) string {
	p = numRe.ReplaceAllString(p, "N")
	if len(p) > 80 {
		p = p[:80]
	}
	return p
}

// inProcess runs one call with recover(); used only inside the worker child process.
func inProcess(f func() (protoreflect.Message, error)) (o obs) {
	start := time.Now()
	defer func() {
		if r := recover(); r != nil {
			o = obs{Kind: "panic", Panic: fmt.Sprint(r), Site: panicSite(string(debug.Stack()))}
		}
		o.Elapsed = time.Since(start)
	}()
	m, err := f()
	if err != nil {
		return obs{Kind: "err", Err: err.Error()}
	}
	return obs{Kind: "ok", Msg: m}
}

var theCodec = j5codec.NewCodec()

// the configuration of the repository's own TestUnmarshal: decodeAny also decodes the payload as its declared
// type and stores the proto encoding
var theAnyCodec = j5codec.NewCodec(j5codec.WithProtoToAny())

// decodeJSON / decodeQuery call the implementation in the worker child process (worker.go).
// Kinds: ok err panic, or a hard failure timeout / fatal / memory (worker killed or died; Err has
// the detail), or skipped (the run already saw maxHard hard failures).
func decodeJSON(t *target, doc []byte) obs {
	return viaWorker(t, wreq{Kind: "json", Doc: doc}, len(doc))
}

// decodeJSONAny: JSONToProto of the codec built WithProtoToAny (oracle only: not modelled).
func decodeJSONAny(t *target, doc []byte) obs {
	return viaWorker(t, wreq{Kind: "json-any", Doc: doc}, len(doc))
}

func decodeQuery(t *target, q url.Values) obs {
	n := 0
	for k, vs := range q {
		n += len(k)
		for _, v := range vs {
			n += len(v)
		}
	}
	return viaWorker(t, wreq{Kind: "query", Query: packQuery(q)}, n)
}

// term is the Coq term of the decoded message.
func (o obs) term() string {
	if o.Term != "" || o.Msg == nil {
		return o.Term
	}
	return codecgen.MsgTerm(o.Msg)
}

// hard: the call did not come back (hang, fatal runtime error, memory); never a model case.
func (o obs) hard() bool { return o.Kind == "timeout" || o.Kind == "fatal" || o.Kind == "memory" }

// usable: the call came back with an ordinary observation.
func (o obs) usable() bool { return o.Kind == "ok" || o.Kind == "err" || o.Kind == "panic" }

func (o obs) Coq() string {
	switch o.Kind {
	case "ok":
		if o.Term != "" {
			return "(ObsOk " + o.Term + ")"
		}
		return "(ObsOk " + codecgen.MsgTerm(o.Msg) + ")"
	case "err":
		return "ObsErr"
	case "panic":
		return "ObsPanic"
	}
	panic("no Coq observation for a call that did not return: " + o.Kind)
}

// decCase renders a CDec case term.
func decCase(t *target, doc []byte, o obs) string {
	toks, _ := codecgen.Tokens(doc)
	orc := codecgen.NewOracles()
	orc.AddTokens(toks)
	f, tm, d := orc.Coq()
	return fmt.Sprintf("CDec %s %s %s %s %s %s %s", t.Name, codecgen.BytesTerm(t.Env.Root), codecgen.BytesTerm(string(doc)), f, tm, d, o.Coq())
}

// queryCase renders a CQuery case term; keys in sorted order (the model tries every order).
func queryCase(t *target, q url.Values, o obs) string {
	orc := codecgen.NewOracles()
	keys := make([]string, 0, len(q))
	for k := range q {
		keys = append(keys, k)
	}
	sort.Strings(keys)
	var kvs []string
	for _, k := range keys {
		var vs []string
		for _, v := range q[k] {
			vs = append(vs, codecgen.BytesTerm(v))
			orc.Add(v, true)
			if strings.HasPrefix(strings.TrimSpace(v), "{") {
				toks, _ := codecgen.Tokens([]byte(strings.TrimSpace(v)))
				orc.AddTokens(toks)
			}
		}
		kvs = append(kvs, fmt.Sprintf("(%s, [%s])", codecgen.BytesTerm(k), strings.Join(vs, "; ")))
	}
	f, tm, d := orc.Coq()
	return fmt.Sprintf("CQuery %s %s [%s] %s %s %s %s", t.Name, codecgen.BytesTerm(t.Env.Root), strings.Join(kvs, "; "), f, tm, d, o.Coq())
}

func short(b []byte) string {
	if len(b) > 300 {
		return fmt.Sprintf("%q...(%d bytes)", b[:300], len(b))
	}
	return fmt.Sprintf("%q", b)
}

type emitter struct {
	cf     *vh.CasesFile
	res    *vh.Result
	caseNo int
	perShd int
}

func (e *emitter) add(term, stream string, input any, impl any) {
	e.cf.Terms = append(e.cf.Terms, term)
	e.res.Cases = append(e.res.Cases, vh.CaseRec{Case: e.caseNo, Stream: stream, Input: input, Impl: impl})
}

func (e *emitter) finish(cfg *vh.Config) error {
	shards, err := e.cf.WriteShards(cfg.Out, "cases", e.perShd)
	if err != nil {
		return err
	}
	for i := range e.res.Cases {
		e.res.Cases[i].Shard = fmt.Sprintf("cases_%d", i/e.perShd)
		e.res.Cases[i].Pos = i % e.perShd
	}
	e.res.Shards = shards
	return e.res.Write(cfg.Out)
}

package main

import (
	"fmt"
	"go/ast"
	"go/token"
	"path/filepath"
	"sort"
	"strconv"
	"strings"

	"verifharness/gen"
)

func init() { gen.Register("ImportsGen.v", genImports) }

func unq(e ast.Expr) (string, bool) {
	bl, ok := e.(*ast.BasicLit)
	if !ok || bl.Kind != token.STRING {
		return "", false
	}
	s, err := strconv.Unquote(bl.Value)
	return s, err == nil
}

func coqStrList(l []string) string {
	var items []string
	for _, s := range l {
		items = append(items, gen.CoqString(s))
	}
	return "[" + strings.Join(items, "; ") + "]"
}

func coqBytesList(l []string) string {
	var items []string
	for _, s := range l {
		items = append(items, gen.NList([]byte(s)))
	}
	return "[" + strings.Join(items, "; ") + "]"
}

// caseNames returns the Field_X / FORMAT names of a case clause.
func caseNames(cc *ast.CaseClause) []string {
	var out []string
	for _, e := range cc.List {
		if st, ok := e.(*ast.StarExpr); ok {
			e = st.X
		}
		if se, ok := e.(*ast.SelectorExpr); ok {
			out = append(out, se.Sel.Name)
		}
	}
	return out
}

type arm struct {
	name    string
	types   []string // descriptorpb TYPE_ / LABEL_ constants mentioned
	imports []string // constants passed to ensureImport
	tnames  []string // string literals starting with "." (type names)
	setExt  bool     // calls ww.setJ5Ext (which ensures the j5 ext import)
}

func collectArm(name string, body []ast.Stmt) arm {
	a := arm{name: name}
	seenT, seenI, seenN := map[string]bool{}, map[string]bool{}, map[string]bool{}
	for _, st := range body {
		ast.Inspect(st, func(n ast.Node) bool {
			switch x := n.(type) {
			case *ast.SelectorExpr:
				if strings.HasPrefix(x.Sel.Name, "FieldDescriptorProto_") {
					c := strings.TrimPrefix(x.Sel.Name, "FieldDescriptorProto_")
					if !seenT[c] {
						seenT[c] = true
						a.types = append(a.types, c)
					}
				}
			case *ast.CallExpr:
				if se, ok := x.Fun.(*ast.SelectorExpr); ok {
					if se.Sel.Name == "ensureImport" && len(x.Args) == 1 {
						if id, ok := x.Args[0].(*ast.Ident); ok && !seenI[id.Name] {
							seenI[id.Name] = true
							a.imports = append(a.imports, id.Name)
						}
					}
					if se.Sel.Name == "setJ5Ext" {
						a.setExt = true
					}
				}
			case *ast.BasicLit:
				if s, ok := unq(x); ok && strings.HasPrefix(s, ".") && len(s) > 1 && !seenN[s] {
					seenN[s] = true
					a.tnames = append(a.tnames, s)
				}
			}
			return true
		})
	}
	sort.Strings(a.types)
	sort.Strings(a.imports)
	sort.Strings(a.tnames)
	return a
}

// infra splits the infrastructure imports of a statement list into those ensured on every
// path that runs the list to its end (statements of the list itself: `x.ensureImport(C)`, or a
// call of setJ5Ext, which ends in ensureImport(j5ExtImport)) and those ensured only inside a
// nested if / switch / for / closure.
func infra(body []ast.Stmt) (uncond, cond []string) {
	u, c := map[string]bool{}, map[string]bool{}
	callOf := func(e ast.Expr) (string, bool) {
		ce, ok := e.(*ast.CallExpr)
		if !ok {
			return "", false
		}
		se, ok := ce.Fun.(*ast.SelectorExpr)
		if !ok {
			return "", false
		}
		if se.Sel.Name == "ensureImport" && len(ce.Args) == 1 {
			if id, ok := ce.Args[0].(*ast.Ident); ok {
				return id.Name, true
			}
			return "(non-constant)", true
		}
		if se.Sel.Name == "setJ5Ext" {
			return "j5ExtImport", true
		}
		return "", false
	}
	for _, st := range body {
		direct := false
		switch x := st.(type) {
		case *ast.ExprStmt:
			if n, ok := callOf(x.X); ok {
				u[n], direct = true, true
			}
		case *ast.AssignStmt:
			if len(x.Rhs) == 1 {
				if n, ok := callOf(x.Rhs[0]); ok {
					u[n], direct = true, true
				}
			}
		}
		if direct {
			continue
		}
		ast.Inspect(st, func(n ast.Node) bool {
			if e, ok := n.(ast.Expr); ok {
				if nm, ok := callOf(e); ok {
					c[nm] = true
				}
			}
			return true
		})
	}
	for k := range u {
		uncond = append(uncond, k)
	}
	for k := range c {
		if !u[k] {
			cond = append(cond, k)
		}
	}
	sort.Strings(uncond)
	sort.Strings(cond)
	return
}

type infraRow struct {
	name         string
	uncond, cond []string
}

// typeSwitchInfra: infra() of every arm of the first top-level type switch of fn.
func typeSwitchInfra(fn *ast.FuncDecl) []infraRow {
	var out []infraRow
	for _, st := range fn.Body.List {
		ts, ok := st.(*ast.TypeSwitchStmt)
		if !ok {
			continue
		}
		for _, c := range ts.Body.List {
			cc := c.(*ast.CaseClause)
			names := caseNames(cc)
			if len(names) == 0 {
				names = []string{"default"}
			}
			u, cd := infra(cc.Body)
			out = append(out, infraRow{strings.Join(names, "|"), u, cd})
		}
		break
	}
	return out
}

func findFunc(f *ast.File, name string) *ast.FuncDecl {
	for _, d := range f.Decls {
		if fd, ok := d.(*ast.FuncDecl); ok && fd.Name.Name == name {
			return fd
		}
	}
	return nil
}

// typeSwitchArms returns the arms of the first top-level type switch of fn.
func typeSwitchArms(fn *ast.FuncDecl) []arm {
	var out []arm
	for _, st := range fn.Body.List {
		ts, ok := st.(*ast.TypeSwitchStmt)
		if !ok {
			continue
		}
		for _, c := range ts.Body.List {
			cc := c.(*ast.CaseClause)
			names := caseNames(cc)
			if len(names) == 0 {
				names = []string{"default"}
			}
			out = append(out, collectArm(strings.Join(names, "|"), cc.Body))
		}
		break
	}
	return out
}

func genImports(repo string) (string, error) {
	dir := filepath.Join(repo, "internal/j5s/j5convert")
	_, f, err := gen.ParseFile(filepath.Join(dir, "imports.go"))
	if err != nil {
		return "", err
	}
	// ---- string constants
	type kv struct{ k, v string }
	var consts []kv
	for _, d := range f.Decls {
		gd, ok := d.(*ast.GenDecl)
		if !ok || gd.Tok != token.CONST {
			continue
		}
		for _, sp := range gd.Specs {
			vs := sp.(*ast.ValueSpec)
			for i, n := range vs.Names {
				if i < len(vs.Values) {
					if s, ok := unq(vs.Values[i]); ok {
						consts = append(consts, kv{n.Name, s})
					}
				}
			}
		}
	}
	sort.Slice(consts, func(i, j int) bool { return consts[i].k < consts[j].k })
	// ---- implicitImports: package -> Exports -> name -> {Package, Name, File}
	type imp struct{ pkg, name, file string }
	var imps []imp
	found := false
	for _, d := range f.Decls {
		gd, ok := d.(*ast.GenDecl)
		if !ok || gd.Tok != token.VAR {
			continue
		}
		for _, sp := range gd.Specs {
			vs := sp.(*ast.ValueSpec)
			if len(vs.Names) != 1 || vs.Names[0].Name != "implicitImports" || len(vs.Values) != 1 {
				continue
			}
			found = true
			top, ok := vs.Values[0].(*ast.CompositeLit)
			if !ok {
				return "", fmt.Errorf("implicitImports is not a composite literal")
			}
			for _, pe := range top.Elts {
				pkv := pe.(*ast.KeyValueExpr)
				pkgKey, _ := unq(pkv.Key)
				ast.Inspect(pkv.Value, func(n ast.Node) bool {
					kv2, ok := n.(*ast.KeyValueExpr)
					if !ok {
						return true
					}
					nameKey, isStr := unq(kv2.Key)
					cl, isLit := kv2.Value.(*ast.CompositeLit)
					if !isStr || !isLit {
						return true
					}
					e := imp{}
					for _, fe := range cl.Elts {
						fkv, ok := fe.(*ast.KeyValueExpr)
						if !ok {
							continue
						}
						id, _ := fkv.Key.(*ast.Ident)
						v, _ := unq(fkv.Value)
						if id == nil {
							continue
						}
						switch id.Name {
						case "Package":
							e.pkg = v
						case "Name":
							e.name = v
						case "File":
							e.file = v
						}
					}
					if e.pkg != pkgKey || e.name != nameKey {
						// key and content disagree: report both so that the agreement lemma fails
						e.pkg, e.name = pkgKey+"|"+e.pkg, nameKey+"|"+e.name
					}
					imps = append(imps, e)
					return false
				})
			}
		}
	}
	if !found {
		return "", fmt.Errorf("imports.go: var implicitImports not found")
	}
	sort.Slice(imps, func(i, j int) bool {
		if imps[i].pkg != imps[j].pkg {
			return imps[i].pkg < imps[j].pkg
		}
		return imps[i].name < imps[j].name
	})
	// ---- fields.go: buildField / buildProperty arms
	_, ff, err := gen.ParseFile(filepath.Join(dir, "fields.go"))
	if err != nil {
		return "", err
	}
	bf := findFunc(ff, "buildField")
	bp := findFunc(ff, "buildProperty")
	if bf == nil || bp == nil {
		return "", fmt.Errorf("fields.go: buildField/buildProperty not found")
	}
	fieldArms := typeSwitchArms(bf)
	propArms := typeSwitchArms(bp)
	// format sub-arms: case schema_j5pb.XField_FORMAT_Y: desc.Type = TYPE_Z (first value switch per format const)
	type fmtArm struct{ format, typ string }
	var fmts []fmtArm
	seenFmt := map[string]bool{}
	ast.Inspect(bf, func(n ast.Node) bool {
		cc, ok := n.(*ast.CaseClause)
		if !ok {
			return true
		}
		for _, nm := range caseNames(cc) {
			if !strings.Contains(nm, "_FORMAT_") || seenFmt[nm] {
				continue
			}
			a := collectArm(nm, cc.Body)
			var ts []string
			for _, t := range a.types {
				if strings.HasPrefix(t, "TYPE_") {
					ts = append(ts, t)
				}
			}
			if len(ts) == 1 {
				seenFmt[nm] = true
				fmts = append(fmts, fmtArm{nm, ts[0]})
			}
		}
		return true
	})
	sort.Slice(fmts, func(i, j int) bool { return fmts[i].format < fmts[j].format })

	// ---- infrastructure imports: per buildField / buildProperty arm, the `if required` block of
	// buildProperty, and per function of conversion.go / service.go
	fieldInfra := typeSwitchInfra(bf)
	propInfra := typeSwitchInfra(bp)
	for _, st := range bp.Body.List {
		if is, ok := st.(*ast.IfStmt); ok {
			if id, ok := is.Cond.(*ast.Ident); ok && id.Name == "required" {
				u, c := infra(is.Body.List)
				propInfra = append(propInfra, infraRow{"if required", u, c})
			}
		}
	}
	var funcInfra []infraRow
	for _, file := range []string{"conversion.go", "service.go"} {
		_, cf, err := gen.ParseFile(filepath.Join(dir, file))
		if err != nil {
			return "", err
		}
		for _, d := range cf.Decls {
			fd, ok := d.(*ast.FuncDecl)
			if !ok || fd.Body == nil {
				continue
			}
			u, c := infra(fd.Body.List)
			if len(u)+len(c) > 0 {
				funcInfra = append(funcInfra, infraRow{file + ":" + fd.Name.Name, u, c})
			}
		}
	}
	sort.Slice(funcInfra, func(i, j int) bool { return funcInfra[i].name < funcInfra[j].name })

	// ---- literals compared / concatenated in the two decision functions the model mirrors by hand:
	// enum.go isExplicitZero (which first option is the zero value) and service.go checkListMethod
	// (what makes a list method, how many response arrays): every binary expression ==, !=, + whose
	// right operand is a string or integer literal, in source order: (operator, literal)
	type litRow struct {
		name string
		ops  []string
		lits []string
	}
	var litRows []litRow
	for _, want := range [][2]string{{"enum.go", "isExplicitZero"}, {"service.go", "checkListMethod"}} {
		_, cf, err := gen.ParseFile(filepath.Join(dir, want[0]))
		if err != nil {
			return "", err
		}
		fd := findFunc(cf, want[1])
		if fd == nil || fd.Body == nil {
			return "", fmt.Errorf("%s: func %s not found", want[0], want[1])
		}
		row := litRow{name: want[0] + ":" + want[1]}
		ast.Inspect(fd.Body, func(n ast.Node) bool {
			be, ok := n.(*ast.BinaryExpr)
			if !ok || (be.Op != token.EQL && be.Op != token.NEQ && be.Op != token.ADD) {
				return true
			}
			if bl, ok := be.Y.(*ast.BasicLit); ok && (bl.Kind == token.STRING || bl.Kind == token.INT) {
				v := bl.Value
				if bl.Kind == token.STRING {
					if u, ok := unq(bl); ok {
						v = u
					}
				}
				row.ops = append(row.ops, be.Op.String())
				row.lits = append(row.lits, v)
			}
			return true
		})
		litRows = append(litRows, row)
	}

	var sb strings.Builder
	sb.WriteString("From Coq Require Import String List NArith.\nImport ListNotations.\nLocal Open Scope N_scope.\nLocal Open Scope string_scope.\n")
	sb.WriteString("(* internal/j5s/j5convert/imports.go: string constants (name, value as bytes) *)\n")
	sb.WriteString("Definition import_constants : list (string * list N) := [\n")
	for i, c := range consts {
		sep := ";"
		if i == len(consts)-1 {
			sep = ""
		}
		fmt.Fprintf(&sb, "  (%s, %s)%s (* %s *)\n", gen.CoqString(c.k), gen.NList([]byte(c.v)), sep, c.v)
	}
	sb.WriteString("].\n")
	sb.WriteString("(* imports.go: implicitImports (package, name, file), sorted *)\n")
	sb.WriteString("Definition implicit_imports : list (list N * list N * list N) := [\n")
	for i, e := range imps {
		sep := ";"
		if i == len(imps)-1 {
			sep = ""
		}
		fmt.Fprintf(&sb, "  (%s, %s, %s)%s (* %s.%s %s *)\n", gen.NList([]byte(e.pkg)), gen.NList([]byte(e.name)), gen.NList([]byte(e.file)), sep, e.pkg, e.name, e.file)
	}
	sb.WriteString("].\n")
	writeArms := func(name, comment string, arms []arm) {
		fmt.Fprintf(&sb, "(* %s: (case, TYPE_/LABEL_ constants, ensureImport constants, type-name literals, calls setJ5Ext) *)\n", comment)
		fmt.Fprintf(&sb, "Definition %s : list (string * list string * list string * list (list N) * bool) := [\n", name)
		for i, a := range arms {
			sep := ";"
			if i == len(arms)-1 {
				sep = ""
			}
			b := "false"
			if a.setExt {
				b = "true"
			}
			fmt.Fprintf(&sb, "  (%s, %s, %s, %s, %s)%s\n", gen.CoqString(a.name), coqStrList(a.types), coqStrList(a.imports), coqBytesList(a.tnames), b, sep)
		}
		sb.WriteString("].\n")
	}
	writeArms("field_arms", "fields.go buildField type switch", fieldArms)
	writeArms("property_arms", "fields.go buildProperty type switch", propArms)
	writeInfra := func(name, comment string, rows []infraRow) {
		fmt.Fprintf(&sb, "(* %s: (where, constants ensured on every path to the end, constants ensured only under a nested condition) *)\n", comment)
		fmt.Fprintf(&sb, "Definition %s : list (string * list string * list string) := [\n", name)
		for i, r := range rows {
			sep := ";"
			if i == len(rows)-1 {
				sep = ""
			}
			fmt.Fprintf(&sb, "  (%s, %s, %s)%s\n", gen.CoqString(r.name), coqStrList(r.uncond), coqStrList(r.cond), sep)
		}
		sb.WriteString("].\n")
	}
	writeInfra("field_infra", "fields.go buildField arms, infrastructure imports (setJ5Ext counts as j5ExtImport)", fieldInfra)
	writeInfra("property_infra", "fields.go buildProperty arms and its `if required` block", propInfra)
	writeInfra("func_infra", "conversion.go / service.go, per function", funcInfra)
	sb.WriteString("(* enum.go isExplicitZero / service.go checkListMethod: (function, operators, literals) of every ==, !=, + with a literal right operand, in source order *)\n")
	sb.WriteString("Definition decision_literals : list (string * list string * list string) := [\n")
	for i, r := range litRows {
		sep := ";"
		if i == len(litRows)-1 {
			sep = ""
		}
		fmt.Fprintf(&sb, "  (%s, %s, %s)%s\n", gen.CoqString(r.name), coqStrList(r.ops), coqStrList(r.lits), sep)
	}
	sb.WriteString("].\n")
	sb.WriteString("(* fields.go buildField: format constant -> proto type *)\n")
	sb.WriteString("Definition format_arms : list (string * string) := [\n")
	for i, a := range fmts {
		sep := ";"
		if i == len(fmts)-1 {
			sep = ""
		}
		fmt.Fprintf(&sb, "  (%s, %s)%s\n", gen.CoqString(a.format), gen.CoqString(a.typ), sep)
	}
	sb.WriteString("].\n")
	return sb.String(), nil
}

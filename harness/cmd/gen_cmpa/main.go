// gen_cmpa: translator for the j5s compiler family (coq/gen/ImportsGen.v).
package main

import "verifharness/gen"

func main() { gen.Main() }

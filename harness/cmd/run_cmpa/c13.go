package main

import (
	"fmt"
	"io"
	"log"
	"strings"

	"verifharness/j5sgen"
	"verifharness/vh"
)

func init() { vh.Register("C13", runC13) }

// ---- direct oracle: compile(P) equals compile(e(P)) restricted to the elements of compile(P)

type c13oracle struct {
	out []violation
	// the instances of the recorded finding in this pair (j5sgen.EmptyEnumAppends): full name of
	// an enum that had no options -> the option ending in UNSPECIFIED appended to it first
	emptyEnumAppends map[string]string
}

func (o *c13oracle) fail(sig, clause, got, want string) {
	o.out = append(o.out, violation{Sig: sig, Clause: clause, Got: got, Want: want})
}

func (o *c13oracle) enum(at string, a, b *DEnum) {
	if len(b.Vals) < len(a.Vals) {
		o.fail("C13 enum value removed by an append edit", "enum values unchanged", at+": "+fmt.Sprint(b.Vals), fmt.Sprint(a.Vals))
		return
	}
	for i, v := range a.Vals {
		if b.Vals[i] != v {
			// (the class repaired by a65e1f2 - the SOURCE enum had no options and the first option
			// appended to it ends in UNSPECIFIED - keeps a signature of its own so that a
			// regression of that fix is named)
			if opt, ok := o.emptyEnumAppends[at]; ok && i == 0 && len(a.Vals) == 1 && v.Num == 0 &&
				strings.HasSuffix(v.Name, "UNSPECIFIED") && b.Vals[0] == (DVal{Name: prefixedOption(strings.TrimSuffix(v.Name, "UNSPECIFIED"), opt), Num: 0}) {
				o.fail("C13 option ending in UNSPECIFIED appended to an enum without options replaces the implicit zero value (regression of fix a65e1f2)", "enum values (name, number) unchanged", fmt.Sprintf("%s: %v", at, b.Vals[0]), fmt.Sprint(v))
				continue
			}
			o.fail("C13 enum value (name, number) changed by an append edit", "enum values (name, number) unchanged", fmt.Sprintf("%s: %v", at, b.Vals[i]), fmt.Sprint(v))
		}
	}
}

// enumBuilder.addValue: the prefix is put in front unless the option already carries it
func prefixedOption(pfx, opt string) string {
	if strings.HasPrefix(opt, pfx) {
		return opt
	}
	return pfx + opt
}

func (o *c13oracle) msg(at string, a, b *DMsg) {
	if a.Kind != b.Kind {
		o.fail("C13 message kind changed by an append edit", "messages unchanged", at+": "+b.Kind, a.Kind)
	}
	if len(b.Fields) < len(a.Fields) {
		o.fail("C13 field removed by an append edit", "fields unchanged", fmt.Sprintf("%s: %d fields", at, len(b.Fields)), fmt.Sprint(len(a.Fields)))
	} else {
		for i, f := range a.Fields {
			if *b.Fields[i] != *f {
				sig := "C13 field (name, number, type, label, JSON name) changed by an append edit"
				g := *b.Fields[i]
				g.TName = f.TName
				if g == *f {
					sig = "C13 type of an existing field changed by an append edit (same relative name, other scope)"
				}
				o.fail(sig, "fields (name, number, type, label, JSON name) unchanged", fmt.Sprintf("%s: %+v", at, *b.Fields[i]), fmt.Sprintf("%+v", *f))
			}
		}
	}
	bm := map[string]*DMsg{}
	for _, m := range b.Msgs {
		bm[m.Name] = m
	}
	for _, m := range a.Msgs {
		if n := bm[m.Name]; n == nil {
			o.fail("C13 nested message removed by an append edit", "messages unchanged", at+"."+m.Name, "present")
		} else {
			o.msg(at+"."+m.Name, m, n)
		}
	}
	be := map[string]*DEnum{}
	for _, e := range b.Enums {
		be[e.Name] = e
	}
	for _, e := range a.Enums {
		if n := be[e.Name]; n == nil {
			o.fail("C13 nested enum removed by an append edit", "enums unchanged", at+"."+e.Name, "present")
		} else {
			o.enum(at+"."+e.Name, e, n)
		}
	}
}

func (o *c13oracle) files(before, after []*DFile) []violation {
	af := map[string]*DFile{}
	for _, f := range after {
		af[f.Path] = f
	}
	for _, a := range before {
		b := af[a.Path]
		if b == nil {
			o.fail("C13 file removed by an append edit", "previously generated elements unchanged", a.Path, "present")
			continue
		}
		if a.Pkg != b.Pkg {
			o.fail("C13 file package changed by an append edit", "previously generated elements unchanged", b.Pkg, a.Pkg)
		}
		bm := map[string]*DMsg{}
		for _, m := range b.Msgs {
			bm[m.Name] = m
		}
		for _, m := range a.Msgs {
			if n := bm[m.Name]; n == nil {
				o.fail("C13 message removed by an append edit", "messages unchanged", a.Pkg+"."+m.Name, "present")
			} else {
				o.msg(a.Pkg+"."+m.Name, m, n)
			}
		}
		be := map[string]*DEnum{}
		for _, e := range b.Enums {
			be[e.Name] = e
		}
		for _, e := range a.Enums {
			if n := be[e.Name]; n == nil {
				o.fail("C13 enum removed by an append edit", "enums unchanged", a.Pkg+"."+e.Name, "present")
			} else {
				o.enum(a.Pkg+"."+e.Name, e, n)
			}
		}
		bs := map[string]*DService{}
		for _, s := range b.Svcs {
			bs[s.Name] = s
		}
		for _, s := range a.Svcs {
			n := bs[s.Name]
			if n == nil {
				o.fail("C13 service removed by an append edit", "services unchanged", a.Pkg+"."+s.Name, "present")
				continue
			}
			if fmt.Sprint(s.TopicName != nil, s.Role, s.Entity) != fmt.Sprint(n.TopicName != nil, n.Role, n.Entity) ||
				(s.TopicName != nil && *s.TopicName != *n.TopicName) {
				o.fail("C13 messaging role of a service changed by an append edit", "services unchanged", a.Pkg+"."+s.Name, s.Role)
			}
			nm := map[string]*DMethod{}
			for _, m := range n.Methods {
				nm[m.Name] = m
			}
			for _, m := range s.Methods {
				x := nm[m.Name]
				if x == nil {
					o.fail("C13 method removed by an append edit", "methods unchanged", a.Pkg+"."+s.Name+"."+m.Name, "present")
					continue
				}
				same := x.In == m.In && x.Out == m.Out && (x.Http == nil) == (m.Http == nil)
				if same && x.Http != nil {
					same = *x.Http == *m.Http
				}
				if !same {
					o.fail("C13 method (types, HTTP rule) changed by an append edit", "methods unchanged", fmt.Sprintf("%s.%s.%s: %+v", a.Pkg, s.Name, m.Name, x), fmt.Sprintf("%+v", m))
				}
			}
		}
	}
	return o.out
}

func runC13(cfg *vh.Config) error {
	log.SetOutput(io.Discard)
	res := vh.NewResult("C13", cfg.Seed)
	res.Rule = "C02's generated bundles x 1-4 random append edits (field at the end of an object / oneof / request / response / topic message or of an inline or nested type inside one, at any depth; option at the end of a declared, nested or inline enum; nested declaration at the end of a declared object / oneof; declaration - object, oneof, enum, service, topic - at the end of a file), each also handed to Coq as a term of J5sEdit.edit whose application to the original must compile to what the real compiler made of the edited text; both versions compiled by the real compiler; non-trivial = distinct (bundle, edit list) where the original compiles; entity stream: generated bundles whose package has a file with entities x 1-4 entity edits (key / data field / status / event appended to an entity, field appended to an event, declaration / new entity appended to the file, field appended to a plain declaration; 10% of the histories append a primary / shard key = the recorded class) as terms of J5sEntityEdit.eedit, expanded and compiled by the model"
	cf := &vh.CasesFile{
		Header: "From Coq Require Import String List NArith.\nFrom J5V.model Require Import J5sAst Desc J5sEdit J5sCorr.",
		Type:   "c13case",
		Check:  "c13_check",
	}
	n := cfg.Scale(140, 1400)
	distinct := vh.Distinct{}
	const perShard = 20
	pairs := j5sgen.EditCorpus()
	n += len(pairs)
	for i := 0; i < n; i++ {
		gcfg := j5sgen.DefaultConfig()
		gcfg.MaxFiles, gcfg.MaxPackages = 2, 2
		gcfg.Entities = false // the edit addresses index the declared root elements (entities are C02's)
		switch i % 4 {
		case 0:
			gcfg.Imports, gcfg.Services, gcfg.Topics, gcfg.PFiles, gcfg.MaxFiles = false, false, false, false, 1
		case 1:
			gcfg.PFiles = false
		}
		label := fmt.Sprintf("c13-%d", i)
		var b0, b1 *j5sgen.Bundle
		var pkg string
		var edits []j5sgen.EditRec
		if i < len(pairs) {
			b0, b1, pkg, edits = pairs[i].Before, pairs[i].After, pairs[i].Pkg, pairs[i].Edits
			res.Count("corpus")
		} else {
			b0, pkg = j5sgen.NewGen(cfg.R.Fork(label), gcfg).Bundle()
			b1, _ = j5sgen.NewGen(cfg.R.Fork(label), gcfg).Bundle()
			re := cfg.R.Fork(label + "-edit")
			edits = j5sgen.ApplyEdits(re, b1, pkg, re.Range(1, 4))
		}
		// the same surface forms for the unchanged parts are not required: both are printed independently
		t0 := b0.Texts(cfg.R.Fork(label + "-print"))
		t1 := b1.Texts(cfg.R.Fork(label + "-print2"))
		g0 := compileReal(t0, pkg)
		g1 := compileReal(t1, pkg)
		in := map[string]any{"package": pkg, "before": t0, "after": t1, "edits": edits}
		for _, e := range edits {
			res.Count("edit_" + e.Kind)
			if e.Note != "" {
				res.Count("edit_" + e.Kind + "_" + e.Note)
			}
		}
		res.Count("pairs")
		if g0.panic != nil || g1.panic != nil {
			res.Fail(vh.Failure{Case: i, Stream: "edit", Sig: "C13 compiler panic", Clause: "valid packages compile", Input: in, Got: fmt.Sprint(g0.panic, g1.panic)})
			continue
		}
		knownAppends := j5sgen.EmptyEnumAppends(b0, pkg, edits)
		switch {
		case !g0.ok:
			res.Count("before_rejected")
		case !g1.ok:
			res.Count("after_rejected")
			sig := "C13 package no longer compiles after an append edit: " + strings.TrimPrefix(classifyError(g1.err), "C02 valid package rejected: ")
			res.Fail(vh.Failure{Case: i, Stream: "edit", Sig: sig, Clause: "append edits leave every previously generated element unchanged", Input: in, Got: g1.err})
		default:
			res.Count("both_compiled")
			distinct.Add(fmt.Sprint(t0, edits))
			for _, v := range (&c13oracle{emptyEnumAppends: knownAppends}).files(g0.files, g1.files) {
				res.Fail(vh.Failure{Case: i, Stream: "edit", Sig: v.Sig, Clause: v.Clause, Input: in, Got: v.Got, Want: v.Want})
			}
		}
		var es []string
		for _, e := range edits {
			es = append(es, e.Coq)
		}
		okall0, okall1 := acceptsAll(b0, t0, pkg, g0.ok), acceptsAll(b1, t1, pkg, g1.ok)
		// embeds: the old descriptors are expected to embed into the new ones - always (no
		// excluded class since fix a65e1f2)
		embeds := !(i < len(pairs) && pairs[i].KnownNoEmbed)
		if len(knownAppends) > 0 {
			res.Count("pairs_unspecified_first_to_enum_without_options")
		}
		cf.Terms = append(cf.Terms, fmt.Sprintf("CEdit\n   %s\n   [%s]\n   %s\n   %s %s %s %s %s %s\n   %s\n   %s", b0.Coq(), strings.Join(es, ";\n    "), b1.Coq(), j5sgen.S(pkg),
			vh.BoolTerm(g0.ok), vh.BoolTerm(g1.ok), vh.BoolTerm(okall0), vh.BoolTerm(okall1), vh.BoolTerm(embeds), filesCoq(g0.files), filesCoq(g1.files)))
		res.Cases = append(res.Cases, vh.CaseRec{Case: i, Stream: "edit", Input: in, Impl: map[string]any{"ok_before": g0.ok, "ok_after": g1.ok, "err_after": g1.err}})
		if len(t0) == 1 && len(res.Samples) < 2 {
			res.Sample(in, 2)
		}
	}
	res.Evaluations = n
	res.Distinct = len(distinct)
	shards, err := cf.WriteShards(cfg.Out, "cases", perShard)
	if err != nil {
		return err
	}
	for i := range res.Cases {
		res.Cases[i].Shard = fmt.Sprintf("cases_%d", i/perShard)
		res.Cases[i].Pos = i % perShard
	}
	res.Shards = shards
	// the entity-append stream (c13ent.go): its own case type and shards
	eshards, err := entityStream(cfg, res, n)
	if err != nil {
		return err
	}
	res.Shards = append(res.Shards, eshards...)
	return res.Write(cfg.Out)
}

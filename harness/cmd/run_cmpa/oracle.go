package main

import (
	"fmt"
	"path"
	"sort"
	"strings"

	"github.com/iancoleman/strcase"
	"verifharness/j5sgen"
)

// Direct oracle for C02: the property text re-stated in Go over the abstract package and
// evaluated on the real descriptors. It shares no code with the Coq model: expected
// values are derived clause by clause from the declaration.

type violation struct {
	Sig    string
	Clause string
	Got    string
	Want   string
}

type oracle struct {
	b     *j5sgen.Bundle
	pkg   string
	out   []violation
	decls map[string]map[string]declInfo // package -> top-level name -> info
}

type declInfo struct {
	kind string // object oneof enum
	file string // proto path of the defining file
}

var wellKnownImports = map[string]bool{
	"buf/validate/validate.proto": true, "j5/ext/v1/annotations.proto": true, "j5/types/date/v1/date.proto": true,
	"j5/types/decimal/v1/decimal.proto": true, "j5/list/v1/annotations.proto": true, "google/protobuf/timestamp.proto": true,
	"j5/types/any/v1/any.proto": true, "google/api/httpbody.proto": true, "google/api/annotations.proto": true,
	"google/protobuf/empty.proto": true, "j5/messaging/v1/annotations.proto": true,
}

var implicitTypes = map[string]string{
	"j5.list.v1.PageRequest": "j5/list/v1/page.proto", "j5.list.v1.PageResponse": "j5/list/v1/page.proto",
	"j5.list.v1.QueryRequest": "j5/list/v1/query.proto", "j5.messaging.v1.RequestMetadata": "j5/messaging/v1/reqres.proto",
	"j5.messaging.v1.UpsertMetadata": "j5/messaging/v1/upsert.proto", "j5.state.v1.EventMetadata": "j5/state/v1/metadata.proto",
	"j5.state.v1.EventPublishMetadata": "j5/state/v1/metadata.proto", "j5.state.v1.StateMetadata": "j5/state/v1/metadata.proto",
}

func (o *oracle) fail(sig, clause, got, want string) {
	o.out = append(o.out, violation{Sig: sig, Clause: clause, Got: got, Want: want})
}

func newOracle(b *j5sgen.Bundle, pkg string) *oracle {
	o := &oracle{b: b, pkg: pkg, decls: map[string]map[string]declInfo{}}
	add := func(p, n, k, f string) {
		if o.decls[p] == nil {
			o.decls[p] = map[string]declInfo{}
		}
		o.decls[p][n] = declInfo{k, f}
	}
	for _, f := range b.Files {
		for _, e := range f.Expanded() {
			if e.N != nil {
				name := e.N.Name
				add(f.Package(), name, e.N.Kind, f.Path()+".proto")
				// explicitly nested declarations can be referred to by their dotted name
				// (the events of an entity: <Name>EventType.<Event>)
				var sub func(prefix string, ns []*j5sgen.Nested)
				sub = func(prefix string, ns []*j5sgen.Nested) {
					for _, n := range ns {
						nm := n.Name
						if n.Kind == "enum" {
							nm = n.Enum.Name
						}
						add(f.Package(), prefix+"."+nm, n.Kind, f.Path()+".proto")
						sub(prefix+"."+nm, n.Subs)
					}
				}
				sub(name, e.N.Subs)
			}
		}
	}
	for _, f := range b.PFiles {
		for _, m := range f.Msgs {
			add(f.Package(), m, "object", f.Path())
		}
		for _, m := range f.Enums {
			add(f.Package(), m, "enum", f.Path())
		}
	}
	return o
}

// fileCtx is what is known while checking one output file.
type fileCtx struct {
	src      *j5sgen.File
	fpkg     string // proto package of the output file
	needDeps map[string]string
}

// resolveSpec applies the documented import rule: "", own package, alias, package name
// without version, full package, or an implicitly importable well-known type.
func (o *oracle) resolveSpec(src *j5sgen.File, r *j5sgen.Ref) (pkg string, ok bool) {
	if r.Pkg == "" || r.Pkg == src.Package() {
		return src.Package(), true
	}
	if _, ok := implicitTypes[r.Pkg+"."+r.Name]; ok {
		return r.Pkg, true
	}
	found := ""
	for _, i := range src.Imports { // a later import of the same key wins
		switch {
		case strings.Contains(i.Path, "/"):
			if p := strings.ReplaceAll(path.Dir(i.Path), "/", "."); p == r.Pkg {
				found = p
			}
		case i.Alias != "":
			if i.Alias == r.Pkg {
				found = i.Path
			}
		default:
			parts := strings.Split(i.Path, ".")
			if i.Path == r.Pkg || (len(parts) >= 2 && parts[len(parts)-2] == r.Pkg) {
				found = i.Path
			}
		}
	}
	return found, found != ""
}

func scalarType(s *j5sgen.Scalar) (typ, tname, dep string) {
	switch s.Kind {
	case "string", "key":
		return "TString", "", ""
	case "bool":
		return "TBool", "", ""
	case "bytes":
		return "TBytes", "", ""
	case "integer":
		return map[string]string{"INT32": "TInt32", "INT64": "TInt64", "UINT32": "TUint32", "UINT64": "TUint64"}[s.Fmt], "", ""
	case "float":
		return map[string]string{"FLOAT32": "TFloat", "FLOAT64": "TDouble"}[s.Fmt], "", ""
	case "timestamp":
		return "TMessage", ".google.protobuf.Timestamp", "google/protobuf/timestamp.proto"
	case "date":
		return "TMessage", ".j5.types.date.v1.Date", "j5/types/date/v1/date.proto"
	case "decimal":
		return "TMessage", ".j5.types.decimal.v1.Decimal", "j5/types/decimal/v1/decimal.proto"
	case "any":
		return "TMessage", ".j5.types.any.v1.Any", "j5/types/any/v1/any.proto"
	}
	return "?", "", ""
}

// expected nested declarations of one message
type expNested struct {
	name  string
	kind  string // object oneof enum mapentry
	props []*j5sgen.Property
	subs  []*j5sgen.Nested
	enum  *j5sgen.Enum
	value *DField // mapentry: expected value field (type, tname)
}

func mapEntryName(field string) string {
	out, up := "", true
	for _, c := range strcase.ToSnake(field) {
		if c == '_' {
			up = true
			continue
		}
		if up {
			out += strings.ToUpper(string(c))
			up = false
		} else {
			out += string(c)
		}
	}
	return out + "Entry"
}

// itemType gives the expected proto type / type name of a non-container field and records
// the inline declaration it implies.
func (o *oracle) itemType(fc *fileCtx, at string, scopePath []string, pname string, f *j5sgen.Field, nested *[]expNested) (typ, tname string) {
	full := func(name string) string {
		return "." + fc.fpkg + "." + strings.Join(append(append([]string{}, scopePath...), name), ".")
	}
	switch f.Kind {
	case "scalar":
		t, tn, dep := scalarType(f.Scalar)
		if dep != "" {
			fc.needDeps[dep] = at
		}
		return t, tn
	case "objref", "oneofref", "enumref":
		want := map[string]string{"objref": "object", "oneofref": "oneof", "enumref": "enum"}[f.Kind]
		typ = "TMessage"
		if want == "enum" {
			typ = "TEnum"
		}
		p, ok := o.resolveSpec(fc.src, f.Ref)
		if !ok {
			o.fail("C02 oracle: generated reference does not resolve by the documented import rule", "generator", at, f.Ref.Pkg+"."+f.Ref.Name)
			return typ, "?"
		}
		if file, ok := implicitTypes[p+"."+f.Ref.Name]; ok {
			fc.needDeps[file] = at
			return typ, "." + p + "." + f.Ref.Name
		}
		d, ok := o.decls[p][f.Ref.Name]
		if !ok || (d.kind == "enum") != (want == "enum") {
			o.fail("C02 oracle: generated reference names no declaration of the right kind", "generator", at, p+"."+f.Ref.Name)
			return typ, "?"
		}
		fc.needDeps[d.file] = at
		return typ, "." + p + "." + f.Ref.Name
	case "objinline", "oneofinline":
		name := f.Name
		if name == "" {
			name = strcase.ToCamel(pname)
		}
		kind := "object"
		if f.Kind == "oneofinline" {
			kind = "oneof"
		}
		*nested = append(*nested, expNested{name: name, kind: kind, props: f.Props})
		return "TMessage", full(name)
	case "enuminline":
		name := f.Enum.Name
		if name == "" {
			name = strcase.ToCamel(pname)
		}
		*nested = append(*nested, expNested{name: name, kind: "enum", enum: f.Enum})
		return "TEnum", full(name)
	}
	return "?", "?"
}

func (o *oracle) checkEnum(at string, name string, e *j5sgen.Enum, de *DEnum) {
	pfx := e.Prefix
	if pfx == "" {
		pfx = strcase.ToScreamingSnake(name) + "_"
	}
	opts := e.Opts
	want := []DVal{{pfx + "UNSPECIFIED", 0}}
	if len(opts) > 0 && (opts[0] == "UNSPECIFIED" || opts[0] == pfx+"UNSPECIFIED") {
		opts = opts[1:] // documented: UNSPECIFIED may be spelled out to carry a description
	}
	for i, op := range opts {
		n := op
		if !strings.HasPrefix(n, pfx) {
			n = pfx + n
		}
		want = append(want, DVal{n, i + 1})
	}
	if fmt.Sprint(de.Vals) != fmt.Sprint(want) {
		o.fail("C02 enum values: not the declared options numbered in order after <PREFIX>UNSPECIFIED=0", "enum options numbered in order after implicit UNSPECIFIED", at+": "+fmt.Sprint(de.Vals), fmt.Sprint(want))
	}
}

// checkMsg checks one message against its declaration: virtual-prepended then declared
// properties, explicitly nested schemas.
func (o *oracle) checkMsg(fc *fileCtx, scopePath []string, kind string, virt, props []*j5sgen.Property, subs []*j5sgen.Nested, dm *DMsg) {
	at := fc.fpkg + "." + strings.Join(scopePath, ".")
	wantKind := map[string]string{"object": "MObject", "oneof": "MOneof"}[kind]
	if dm.Kind != wantKind {
		o.fail("C02 message kind: object/oneof marker differs", "objects and oneofs become messages of the declared kind", at+": "+dm.Kind, wantKind)
	}
	if kind == "oneof" {
		if len(dm.OneofNames) != 1 || dm.OneofNames[0] != "type" {
			o.fail("C02 oneof wrapper: message lacks the single oneof 'type'", "oneof is a message wrapping one proto oneof", at+": "+fmt.Sprint(dm.OneofNames), "[type]")
		}
	} else if len(dm.OneofNames) != 0 {
		o.fail("C02 object with a real oneof", "objects have no proto oneof", at+": "+fmt.Sprint(dm.OneofNames), "[]")
	}
	all := append(append([]*j5sgen.Property{}, virt...), props...)
	if len(dm.Fields) != len(all) {
		o.fail("C02 field set: number of fields differs from the declaration", "exactly the declared fields", fmt.Sprintf("%s: %d fields", at, len(dm.Fields)), fmt.Sprint(len(all)))
		return
	}
	var nested []expNested
	for i, p := range all {
		df := dm.Fields[i]
		fat := at + "." + p.Name
		want := &DField{Name: strcase.ToSnake(p.Name), JSON: p.Name, Num: i + 1, Label: "LOptional", Opt3: p.Optional, Oneof: kind == "oneof"}
		switch p.F.Kind {
		case "array":
			want.Label = "LRepeated"
			want.Type, want.TName = o.itemType(fc, fat, scopePath, p.Name, p.F.Item, &nested)
		case "map":
			want.Label = "LRepeated"
			vt, vn := o.itemType(fc, fat, scopePath, p.Name, p.F.Item, &nested)
			en := mapEntryName(p.Name)
			nested = append(nested, expNested{name: en, kind: "mapentry", value: &DField{Type: vt, TName: vn}})
			want.Type, want.TName = "TMessage", "."+fc.fpkg+"."+strings.Join(append(append([]string{}, scopePath...), en), ".")
		default:
			want.Type, want.TName = o.itemType(fc, fat, scopePath, p.Name, p.F, &nested)
		}
		if df.Num != want.Num {
			o.fail("C02 field number: not the 1-based declaration position (after implicit leading fields)", "field number = 1-based position", fmt.Sprintf("%s = %d", fat, df.Num), fmt.Sprint(want.Num))
		}
		if df.Name != want.Name || df.JSON != want.JSON {
			o.fail("C02 field name / JSON name", "declared name (snake) and JSON name", fmt.Sprintf("%s: %s/%s", fat, df.Name, df.JSON), want.Name+"/"+want.JSON)
		}
		if df.Type != want.Type {
			o.fail("C02 field proto type", "declared proto type", fmt.Sprintf("%s: %s", fat, df.Type), want.Type)
		}
		if df.TName != want.TName {
			sig := "C02 field type name: reference does not resolve to the declared type"
			// the declared inline type, but found below a nested message named like the root message
			rel := strings.TrimPrefix(want.TName, "."+fc.fpkg+".")
			if (p.F.Kind == "objinline" || p.F.Kind == "oneofinline" || p.F.Kind == "enuminline" ||
				(p.F.Item != nil && strings.HasSuffix(p.F.Item.Kind, "inline"))) &&
				strings.HasPrefix(df.TName, "."+fc.fpkg+"."+scopePath[0]+".") && strings.HasSuffix(df.TName, "."+rel) {
				sig = "C02 inline type named like an enclosing message -> reference silently resolves to another nested type with the same relative name"
			}
			o.fail(sig, "references resolve to the declared type", fmt.Sprintf("%s: %s", fat, df.TName), want.TName)
		}
		if df.Label != want.Label {
			o.fail("C02 field cardinality", "declared cardinality", fmt.Sprintf("%s: %s", fat, df.Label), want.Label)
		}
		if (p.F.Kind == "array" || p.F.Kind == "map") && p.Optional {
			// "repeated" has no presence: an optional array / map is a plain repeated field
			// (a repeated member of a synthetic oneof is not a valid descriptor)
			want.Opt3 = false
			if df.Opt3 {
				o.fail("C02 optional array / map marked proto3_optional (repeated field in a synthetic oneof)", "declared cardinality and optionality", fmt.Sprintf("%s: %s proto3_optional", fat, df.Label), "repeated, not proto3_optional")
			}
		} else if kind == "oneof" && p.Optional {
			// every option of a oneof is optional already; a member of the wrapper's oneof
			// cannot be in a synthetic oneof of its own (fix a0446fc)
			want.Opt3 = false
			if df.Opt3 {
				o.fail("C02 optional oneof option marked proto3_optional (member of a real oneof)", "declared optionality and oneof membership", fmt.Sprintf("%s: proto3_optional", fat), "not proto3_optional")
			}
		} else if df.Opt3 != want.Opt3 {
			o.fail("C02 field optionality (proto3_optional)", "declared optionality", fmt.Sprintf("%s: %v", fat, df.Opt3), fmt.Sprint(want.Opt3))
		}
		if df.Oneof != want.Oneof {
			o.fail("C02 oneof membership", "oneof members belong to the oneof 'type'", fmt.Sprintf("%s: %v", fat, df.Oneof), fmt.Sprint(want.Oneof))
		}
	}
	for _, s := range subs {
		switch s.Kind {
		case "enum":
			nested = append(nested, expNested{name: s.Enum.Name, kind: "enum", enum: s.Enum})
		default:
			nested = append(nested, expNested{name: s.Name, kind: s.Kind, props: s.Props, subs: s.Subs})
		}
	}
	// exactly the expected nested messages and enums
	msgs := map[string]*DMsg{}
	var gotM, wantM, gotE, wantE []string
	for _, m := range dm.Msgs {
		msgs[m.Name] = m
		gotM = append(gotM, m.Name)
	}
	enums := map[string]*DEnum{}
	for _, e := range dm.Enums {
		enums[e.Name] = e
		gotE = append(gotE, e.Name)
	}
	for _, n := range nested {
		if n.kind == "enum" {
			wantE = append(wantE, n.name)
		} else {
			wantM = append(wantM, n.name)
		}
	}
	sort.Strings(gotM)
	sort.Strings(wantM)
	sort.Strings(gotE)
	sort.Strings(wantE)
	if fmt.Sprint(gotM) != fmt.Sprint(wantM) {
		o.fail("C02 nested messages: not exactly the inline / nested declarations", "inline types nested under default or overridden name", at+": "+fmt.Sprint(gotM), fmt.Sprint(wantM))
	}
	if fmt.Sprint(gotE) != fmt.Sprint(wantE) {
		o.fail("C02 nested enums: not exactly the inline / nested declarations", "inline types nested under default or overridden name", at+": "+fmt.Sprint(gotE), fmt.Sprint(wantE))
	}
	for _, n := range nested {
		sp := append(append([]string{}, scopePath...), n.name)
		switch n.kind {
		case "enum":
			if de := enums[n.name]; de != nil {
				o.checkEnum(fc.fpkg+"."+strings.Join(sp, "."), n.name, n.enum, de)
			}
		case "mapentry":
			m := msgs[n.name]
			if m == nil {
				continue
			}
			if m.Kind != "MMapEntry" || len(m.Fields) != 2 || m.Fields[0].Name != "key" || m.Fields[0].Num != 1 || m.Fields[0].Type != "TString" ||
				m.Fields[1].Name != "value" || m.Fields[1].Num != 2 || m.Fields[1].Type != n.value.Type || m.Fields[1].TName != n.value.TName {
				o.fail("C02 map entry shape", "maps are string-keyed entries of the declared item type", fmt.Sprintf("%s.%s: %+v", at, n.name, m.Fields), n.value.Type+" "+n.value.TName)
			}
		default:
			if m := msgs[n.name]; m != nil {
				o.checkMsg(fc, sp, n.kind, nil, n.props, n.subs, m)
			}
		}
	}
}

func cleanJoin(base *string, p string) string {
	if base == nil {
		return p
	}
	return path.Join(*base, p)
}

func (o *oracle) checkDeps(fc *fileCtx, df *DFile) {
	have := map[string]bool{}
	for _, d := range df.Deps {
		have[d] = true
	}
	for d, at := range fc.needDeps {
		if d != df.Path && !have[d] {
			o.fail("C02 imports: defining file of a referenced type is not imported", "references add the right import", df.Path+": "+fmt.Sprint(df.Deps), d+" (for "+at+")")
		}
	}
	for _, d := range df.Deps {
		if wellKnownImports[d] {
			continue
		}
		if _, ok := fc.needDeps[d]; !ok {
			o.fail("C02 imports: file imported although no declaration of this file refers to it", "references add the right import", df.Path+": "+d, "only files defining referenced types")
		}
	}
}

func msgNames(l []*DMsg) []string {
	var out []string
	for _, m := range l {
		out = append(out, m.Name)
	}
	return out
}

// Check evaluates the contract for the compiled files of o.pkg.
func (o *oracle) Check(files []*DFile) []violation {
	byPath := map[string]*DFile{}
	for _, f := range files {
		byPath[f.Path] = f
	}
	wantFiles := map[string]bool{}
	for _, src := range o.b.Files {
		if src.Package() != o.pkg {
			continue
		}
		dir := strings.Join(src.Dir, "/")
		// ---- main file: declared objects, oneofs, enums
		mainPath := src.Path() + ".proto"
		wantFiles[mainPath] = true
		var svcs []*j5sgen.Service
		var topics []*j5sgen.Topic
		if df := byPath[mainPath]; df == nil {
			o.fail("C02 files: no descriptor for a source file", "one file per source", mainPath, "present")
		} else {
			fc := &fileCtx{src: src, fpkg: o.pkg, needDeps: map[string]string{}}
			if df.Pkg != o.pkg {
				o.fail("C02 file package", "package follows the path", df.Pkg, o.pkg)
			}
			var wantM, wantE []string
			for _, e := range src.Expanded() {
				switch e.Kind {
				case "object", "oneof":
					wantM = append(wantM, e.N.Name)
				case "enum":
					wantE = append(wantE, e.N.Enum.Name)
				}
			}
			if fmt.Sprint(msgNames(df.Msgs)) != fmt.Sprint(wantM) {
				o.fail("C02 top-level messages: not exactly the declared objects and oneofs", "exactly the declared messages", mainPath+": "+fmt.Sprint(msgNames(df.Msgs)), fmt.Sprint(wantM))
			}
			mi, ei := 0, 0
			for _, e := range src.Expanded() {
				switch e.Kind {
				case "object", "oneof":
					if mi < len(df.Msgs) && df.Msgs[mi].Name == e.N.Name {
						o.checkMsg(fc, []string{e.N.Name}, e.Kind, nil, e.N.Props, e.N.Subs, df.Msgs[mi])
					}
					mi++
				case "enum":
					if ei < len(df.Enums) && df.Enums[ei].Name == e.N.Enum.Name {
						o.checkEnum(o.pkg+"."+e.N.Enum.Name, e.N.Enum.Name, e.N.Enum, df.Enums[ei])
					} else {
						o.fail("C02 top-level enums: not exactly the declared enums", "exactly the declared enums", mainPath, fmt.Sprint(wantE))
					}
					ei++
				}
			}
			if ei != len(df.Enums) {
				o.fail("C02 top-level enums: not exactly the declared enums", "exactly the declared enums", fmt.Sprintf("%s: %d", mainPath, len(df.Enums)), fmt.Sprint(wantE))
			}
			if len(df.Svcs) != 0 {
				o.fail("C02 services outside the sub-package", "services live in .service / .topic", mainPath, "no services")
			}
			o.checkDeps(fc, df)
		}
		for _, e := range src.Expanded() {
			if e.Kind == "service" {
				svcs = append(svcs, e.Service)
			}
			if e.Kind == "topic" {
				topics = append(topics, e.Topic)
			}
		}
		// ---- .service sub-package
		if len(svcs) > 0 {
			sp := dir + "/service/" + src.Base + ".p.j5s.proto"
			wantFiles[sp] = true
			if df := byPath[sp]; df == nil {
				o.fail("C02 files: no .service sub-package file", "services are emitted into the .service sub-package", sp, "present")
			} else {
				o.checkServiceFile(src, svcs, df)
			}
		}
		if len(topics) > 0 {
			tp := dir + "/topic/" + src.Base + ".p.j5s.proto"
			wantFiles[tp] = true
			if df := byPath[tp]; df == nil {
				o.fail("C02 files: no .topic sub-package file", "topics are emitted into the .topic sub-package", tp, "present")
			} else {
				o.checkTopicFile(src, topics, df)
			}
		}
	}
	for _, f := range files {
		if !wantFiles[f.Path] {
			o.fail("C02 files: descriptor without a source declaration", "exactly the declared elements", f.Path, "absent")
		}
	}
	return o.out
}

func (o *oracle) checkServiceFile(src *j5sgen.File, svcs []*j5sgen.Service, df *DFile) {
	fpkg := o.pkg + ".service"
	fc := &fileCtx{src: src, fpkg: fpkg, needDeps: map[string]string{}}
	if df.Pkg != fpkg {
		o.fail("C02 service sub-package name", "services are emitted into the .service sub-package", df.Pkg, fpkg)
	}
	var wantM []string
	type exp struct {
		name  string
		props []*j5sgen.Property
	}
	var exps []exp
	for _, s := range svcs {
		for _, m := range s.Methods {
			exps = append(exps, exp{m.Name + "Request", m.Request})
			if m.HasResp {
				exps = append(exps, exp{m.Name + "Response", m.Response})
			}
		}
	}
	for _, e := range exps {
		wantM = append(wantM, e.name)
	}
	if fmt.Sprint(msgNames(df.Msgs)) != fmt.Sprint(wantM) {
		o.fail("C02 service messages: not exactly <Method>Request/<Method>Response", "<Method>Request/<Method>Response types", df.Path+": "+fmt.Sprint(msgNames(df.Msgs)), fmt.Sprint(wantM))
	} else {
		for i, e := range exps {
			o.checkMsg(fc, []string{e.name}, "object", nil, e.props, nil, df.Msgs[i])
		}
	}
	if len(df.Svcs) != len(svcs) {
		o.fail("C02 services: not exactly the declared services", "exactly the declared services", fmt.Sprintf("%s: %d", df.Path, len(df.Svcs)), fmt.Sprint(len(svcs)))
		return
	}
	for i, s := range svcs {
		ds := df.Svcs[i]
		at := fpkg + "." + s.Name + "Service"
		if ds.Name != s.Name+"Service" {
			o.fail("C02 service name", "<Name>Service", ds.Name, s.Name+"Service")
		}
		if len(ds.Methods) != len(s.Methods) {
			o.fail("C02 methods: not exactly the declared methods", "exactly the declared methods", fmt.Sprintf("%s: %d", at, len(ds.Methods)), fmt.Sprint(len(s.Methods)))
			continue
		}
		for j, m := range s.Methods {
			dm := ds.Methods[j]
			mat := at + "." + m.Name
			wantOut := ".google.api.HttpBody"
			if m.HasResp {
				wantOut = "." + fpkg + "." + m.Name + "Response"
			} else {
				fc.needDeps["google/api/httpbody.proto"] = mat
			}
			if dm.Name != m.Name || dm.In != "."+fpkg+"."+m.Name+"Request" || dm.Out != wantOut {
				o.fail("C02 method signature: not (<Method>Request) returns (<Method>Response)", "<Method>Request/<Method>Response types", fmt.Sprintf("%s: %s(%s) returns (%s)", mat, dm.Name, dm.In, dm.Out), wantOut)
			}
			// declared verb and path, ":name" rewritten to "{snake_name}"
			segs := strings.Split(cleanJoin(s.Base, m.Path), "/")
			for k, sg := range segs {
				if strings.HasPrefix(sg, ":") {
					segs[k] = "{" + strcase.ToSnake(sg[1:]) + "}"
				}
			}
			wantPath := strings.Join(segs, "/")
			wantVerb := map[string]string{"GET": "VGet", "POST": "VPost", "PUT": "VPut", "DELETE": "VDelete", "PATCH": "VPatch"}[m.Verb]
			if dm.Http == nil {
				o.fail("C02 http rule missing", "declared HTTP verb and path", mat, wantVerb+" "+wantPath)
			} else if dm.Http.Verb != wantVerb || dm.Http.Path != wantPath {
				o.fail("C02 http rule: verb or path differs from the declaration", "declared HTTP verb and path with :name -> {snake_name}", fmt.Sprintf("%s: %s %s", mat, dm.Http.Verb, dm.Http.Path), wantVerb+" "+wantPath)
			}
		}
	}
	o.checkDeps(fc, df)
}

type expTopicSvc struct {
	name      string
	topicName string
	role      string
	entity    string
	methods   []string // method names
}

func (o *oracle) checkTopicFile(src *j5sgen.File, topics []*j5sgen.Topic, df *DFile) {
	fpkg := o.pkg + ".topic"
	fc := &fileCtx{src: src, fpkg: fpkg, needDeps: map[string]string{}}
	if df.Pkg != fpkg {
		o.fail("C02 topic sub-package name", "topics are emitted into the .topic sub-package", df.Pkg, fpkg)
	}
	type expMsg struct {
		name  string
		virt  []*j5sgen.Property
		props []*j5sgen.Property
	}
	var msgs []expMsg
	var svcs []expTopicSvc
	meta := func(field, typ string) []*j5sgen.Property {
		return []*j5sgen.Property{{Name: field, Required: true, F: &j5sgen.Field{Kind: "objref", Ref: &j5sgen.Ref{Pkg: "j5.messaging.v1", Name: typ}}}}
	}
	addSvc := func(tname, topicName, role, entity string, virt []*j5sgen.Property, tms []*j5sgen.Tmsg) {
		sv := expTopicSvc{name: strcase.ToCamel(tname) + "Topic", topicName: topicName, role: role, entity: entity}
		for _, tm := range tms {
			mn := tname
			if tm.Name != nil {
				mn = *tm.Name
			}
			msgs = append(msgs, expMsg{mn + "Message", virt, tm.Fields})
			sv.methods = append(sv.methods, mn)
		}
		svcs = append(svcs, sv)
	}
	for _, t := range topics {
		tn := strcase.ToSnake(t.Name)
		switch t.Kind {
		case "publish":
			addSvc(t.Name, tn, "publish", "", nil, t.Msgs)
		case "reqres":
			addSvc(t.Name+"Request", tn, "request", "", meta("request", "RequestMetadata"), t.Req)
			addSvc(t.Name+"Reply", tn, "reply", "", meta("request", "RequestMetadata"), t.Reply)
		case "upsert":
			addSvc(t.Name, tn, "upsert", t.Entity, meta("upsert", "UpsertMetadata"), t.Msgs)
		case "event":
			addSvc(t.Name, tn, "event", t.Entity, nil, t.Msgs)
		}
	}
	var wantM []string
	for _, m := range msgs {
		wantM = append(wantM, m.name)
	}
	if fmt.Sprint(msgNames(df.Msgs)) != fmt.Sprint(wantM) {
		o.fail("C02 topic messages: not exactly <Name>Message", "<Name>Message types", df.Path+": "+fmt.Sprint(msgNames(df.Msgs)), fmt.Sprint(wantM))
	} else {
		for i, m := range msgs {
			o.checkMsg(fc, []string{m.name}, "object", m.virt, m.props, nil, df.Msgs[i])
		}
	}
	if len(df.Svcs) != len(svcs) {
		o.fail("C02 topics: not exactly the declared topics", "exactly the declared topics", fmt.Sprintf("%s: %d", df.Path, len(df.Svcs)), fmt.Sprint(len(svcs)))
		return
	}
	for i, sv := range svcs {
		ds := df.Svcs[i]
		at := fpkg + "." + sv.name
		if ds.Name != sv.name {
			o.fail("C02 topic service name", "<Name>Topic", ds.Name, sv.name)
		}
		gotTN := "<nil>"
		if ds.TopicName != nil {
			gotTN = *ds.TopicName
		}
		if ds.Role != sv.role || ds.Entity != sv.entity || gotTN != sv.topicName {
			o.fail("C02 messaging role: differs from the documented role", "documented messaging role", fmt.Sprintf("%s: %s/%s/%s", at, gotTN, ds.Role, ds.Entity), sv.topicName+"/"+sv.role+"/"+sv.entity)
		}
		if len(ds.Methods) != len(sv.methods) {
			o.fail("C02 topic methods: not exactly the declared messages", "exactly the declared messages", fmt.Sprintf("%s: %d", at, len(ds.Methods)), fmt.Sprint(len(sv.methods)))
			continue
		}
		for j, mn := range sv.methods {
			dm := ds.Methods[j]
			if dm.Name != mn || dm.In != "."+fpkg+"."+mn+"Message" || dm.Out != ".google.protobuf.Empty" {
				o.fail("C02 topic method signature: not (<Name>Message) returns (Empty)", "<Name>Message types", fmt.Sprintf("%s: %s(%s) returns (%s)", at, dm.Name, dm.In, dm.Out), mn+"Message")
			}
		}
	}
	o.checkDeps(fc, df)
}

package main

import (
	"fmt"
	"strings"

	"github.com/bufbuild/protocompile/protoutil"
	"google.golang.org/protobuf/proto"
	"google.golang.org/protobuf/reflect/protoreflect"
	"verifharness/j5sgen"
)

// Canonical view of a linked FileDescriptor: exactly the observables of coq/model/Desc.v.

type DField struct {
	Name, JSON string
	Num        int
	Type       string // Coq ptype constructor
	Label      string // LOptional LRepeated LRequired
	Opt3       bool
	TName      string
	Oneof      bool
}

type DEnum struct {
	Name string
	Vals []DVal
}
type DVal struct {
	Name string
	Num  int
}

type DMsg struct {
	Name   string
	Kind   string // MObject MOneof MMapEntry
	Fields []*DField
	Msgs   []*DMsg
	Enums  []*DEnum
	// extra observations for the direct oracle
	OneofNames []string
}

type DHttp struct{ Verb, Path, Body string }

type DMethod struct {
	Name, In, Out string
	Http          *DHttp
}

type DService struct {
	Name      string
	Methods   []*DMethod
	TopicName *string
	Role      string // "", publish request reply upsert event
	Entity    string
}

type DFile struct {
	Path, Pkg string
	Deps      []string
	Msgs      []*DMsg
	Enums     []*DEnum
	Svcs      []*DService
}

// extMsg finds a set extension by full name on an options message.
func extMsg(opts proto.Message, fullName string) protoreflect.Message {
	if opts == nil {
		return nil
	}
	var out protoreflect.Message
	opts.ProtoReflect().Range(func(fd protoreflect.FieldDescriptor, v protoreflect.Value) bool {
		if fd.IsExtension() && string(fd.FullName()) == fullName && fd.Message() != nil && !fd.IsList() {
			out = v.Message()
			return false
		}
		return true
	})
	return out
}

func setFieldNames(m protoreflect.Message) map[string]protoreflect.Value {
	out := map[string]protoreflect.Value{}
	if m == nil {
		return out
	}
	m.Range(func(fd protoreflect.FieldDescriptor, v protoreflect.Value) bool {
		out[string(fd.Name())] = v
		return true
	})
	return out
}

var kindName = map[protoreflect.Kind]string{
	protoreflect.DoubleKind: "TDouble", protoreflect.FloatKind: "TFloat", protoreflect.Int64Kind: "TInt64",
	protoreflect.Uint64Kind: "TUint64", protoreflect.Int32Kind: "TInt32", protoreflect.Uint32Kind: "TUint32",
	protoreflect.BoolKind: "TBool", protoreflect.StringKind: "TString", protoreflect.BytesKind: "TBytes",
	protoreflect.MessageKind: "TMessage", protoreflect.EnumKind: "TEnum",
}

func dumpField(fd protoreflect.FieldDescriptor) *DField {
	f := &DField{Name: string(fd.Name()), JSON: fd.JSONName(), Num: int(fd.Number())}
	if k, ok := kindName[fd.Kind()]; ok {
		f.Type = k
	} else {
		f.Type = "(*unmodelled kind " + fd.Kind().String() + "*) TBytes"
	}
	switch fd.Cardinality() {
	case protoreflect.Repeated:
		f.Label = "LRepeated"
	case protoreflect.Required:
		f.Label = "LRequired"
	default:
		f.Label = "LOptional"
	}
	// the raw descriptor field: protoreflect's HasOptionalKeyword() answers false for every
	// repeated field, so it hides proto3_optional written on an array / map (fix d536c9b)
	f.Opt3 = protoutil.ProtoFromFieldDescriptor(fd).GetProto3Optional()
	if fd.Message() != nil {
		f.TName = "." + string(fd.Message().FullName())
	} else if fd.Enum() != nil {
		f.TName = "." + string(fd.Enum().FullName())
	}
	if o := fd.ContainingOneof(); o != nil && !o.IsSynthetic() {
		f.Oneof = true
	}
	return f
}

func dumpEnum(ed protoreflect.EnumDescriptor) *DEnum {
	e := &DEnum{Name: string(ed.Name())}
	for i := 0; i < ed.Values().Len(); i++ {
		v := ed.Values().Get(i)
		e.Vals = append(e.Vals, DVal{string(v.Name()), int(v.Number())})
	}
	return e
}

func dumpMsg(md protoreflect.MessageDescriptor) *DMsg {
	m := &DMsg{Name: string(md.Name()), Kind: "MObject"}
	if md.IsMapEntry() {
		m.Kind = "MMapEntry"
	} else if ext := extMsg(md.Options(), "j5.ext.v1.message"); ext != nil {
		if _, ok := setFieldNames(ext)["oneof"]; ok {
			m.Kind = "MOneof"
		}
	}
	for i := 0; i < md.Oneofs().Len(); i++ {
		if o := md.Oneofs().Get(i); !o.IsSynthetic() {
			m.OneofNames = append(m.OneofNames, string(o.Name()))
		}
	}
	for i := 0; i < md.Fields().Len(); i++ {
		f := dumpField(md.Fields().Get(i))
		if md.IsMapEntry() {
			f.JSON = "" // synthetic key/value fields: JSON name is not part of the contract
		}
		m.Fields = append(m.Fields, f)
	}
	for i := 0; i < md.Messages().Len(); i++ {
		m.Msgs = append(m.Msgs, dumpMsg(md.Messages().Get(i)))
	}
	for i := 0; i < md.Enums().Len(); i++ {
		m.Enums = append(m.Enums, dumpEnum(md.Enums().Get(i)))
	}
	return m
}

func dumpService(sd protoreflect.ServiceDescriptor) *DService {
	s := &DService{Name: string(sd.Name())}
	if ext := extMsg(sd.Options(), "j5.messaging.v1.service"); ext != nil {
		fs := setFieldNames(ext)
		if v, ok := fs["topic_name"]; ok {
			tn := v.String()
			s.TopicName = &tn
		}
		for _, r := range []string{"publish", "request", "reply", "upsert", "event"} {
			if v, ok := fs[r]; ok {
				s.Role = r
				if r == "upsert" || r == "event" {
					if e, ok := setFieldNames(v.Message())["entity_name"]; ok {
						s.Entity = e.String()
					}
				}
			}
		}
	}
	for i := 0; i < sd.Methods().Len(); i++ {
		md := sd.Methods().Get(i)
		m := &DMethod{Name: string(md.Name()), In: "." + string(md.Input().FullName()), Out: "." + string(md.Output().FullName())}
		if ext := extMsg(md.Options(), "google.api.http"); ext != nil {
			fs := setFieldNames(ext)
			h := &DHttp{}
			for verb, coq := range map[string]string{"get": "VGet", "post": "VPost", "put": "VPut", "delete": "VDelete", "patch": "VPatch"} {
				if v, ok := fs[verb]; ok {
					h.Verb = coq
					h.Path = v.String()
				}
			}
			if v, ok := fs["body"]; ok {
				h.Body = v.String()
			}
			m.Http = h
		}
		s.Methods = append(s.Methods, m)
	}
	return s
}

func dumpFile(fd protoreflect.FileDescriptor) *DFile {
	f := &DFile{Path: fd.Path(), Pkg: string(fd.Package())}
	for i := 0; i < fd.Imports().Len(); i++ {
		f.Deps = append(f.Deps, fd.Imports().Get(i).Path())
	}
	for i := 0; i < fd.Messages().Len(); i++ {
		f.Msgs = append(f.Msgs, dumpMsg(fd.Messages().Get(i)))
	}
	for i := 0; i < fd.Enums().Len(); i++ {
		f.Enums = append(f.Enums, dumpEnum(fd.Enums().Get(i)))
	}
	for i := 0; i < fd.Services().Len(); i++ {
		f.Svcs = append(f.Svcs, dumpService(fd.Services().Get(i)))
	}
	return f
}

// ---------------------------------------------------------------- Coq terms

var S = j5sgen.S

func coqList(items []string) string { return "[" + strings.Join(items, "; ") + "]" }
func coqBool(b bool) string {
	if b {
		return "true"
	}
	return "false"
}

func (f *DField) Coq() string {
	return fmt.Sprintf("(mkField %s %s %d %s %s %s %s %s)", S(f.Name), S(f.JSON), f.Num, f.Type, f.Label, coqBool(f.Opt3), S(f.TName), coqBool(f.Oneof))
}

func (e *DEnum) Coq() string {
	var vs []string
	for _, v := range e.Vals {
		vs = append(vs, fmt.Sprintf("(%s, %d)", S(v.Name), v.Num))
	}
	return fmt.Sprintf("(mkDenum %s %s)", S(e.Name), coqList(vs))
}

func (m *DMsg) Coq() string {
	var fs, ms, es []string
	for _, f := range m.Fields {
		fs = append(fs, f.Coq())
	}
	for _, x := range m.Msgs {
		ms = append(ms, x.Coq())
	}
	for _, x := range m.Enums {
		es = append(es, x.Coq())
	}
	return fmt.Sprintf("(DMsg %s %s %s %s %s)", S(m.Name), m.Kind, coqList(fs), coqList(ms), coqList(es))
}

func (s *DService) Coq() string {
	var ms []string
	for _, m := range s.Methods {
		http := "None"
		if m.Http != nil {
			http = fmt.Sprintf("(Some (mkHttp %s %s %s))", m.Http.Verb, S(m.Http.Path), S(m.Http.Body))
		}
		ms = append(ms, fmt.Sprintf("(mkDmethod %s %s %s %s)", S(m.Name), S(m.In), S(m.Out), http))
	}
	topic := "None"
	if s.TopicName != nil || s.Role != "" {
		role := map[string]string{"publish": "RPublish", "request": "RRequest", "reply": "RReply"}[s.Role]
		switch s.Role {
		case "upsert":
			role = "(RUpsert " + S(s.Entity) + ")"
		case "event":
			role = "(REvent " + S(s.Entity) + ")"
		case "":
			role = "RPublish (*no role set*)"
		}
		tn := ""
		if s.TopicName != nil {
			tn = *s.TopicName
		}
		topic = fmt.Sprintf("(Some (%s, %s))", S(tn), role)
	}
	return fmt.Sprintf("(mkDservice %s %s %s)", S(s.Name), coqList(ms), topic)
}

func (f *DFile) Coq() string {
	var ds, ms, es, ss []string
	for _, d := range f.Deps {
		ds = append(ds, S(d))
	}
	for _, x := range f.Msgs {
		ms = append(ms, x.Coq())
	}
	for _, x := range f.Enums {
		es = append(es, x.Coq())
	}
	for _, x := range f.Svcs {
		ss = append(ss, x.Coq())
	}
	return fmt.Sprintf("(mkDfile %s %s %s\n      %s\n      %s\n      %s)", S(f.Path), S(f.Pkg), coqList(ds), coqList(ms), coqList(es), coqList(ss))
}

package main

import (
	"context"
	"fmt"
	"io"
	"log"
	"sort"
	"strings"

	"github.com/pentops/j5/lib/verifshim/compile"
	"verifharness/j5sgen"
	"verifharness/vh"
)

func init() { vh.Register("C02", runC02) }

type compiled struct {
	ok    bool
	err   string
	panic any
	files []*DFile // generated files (*.j5s.proto), sorted by path
	all   []string // every file CompilePackage returned
	// source locations of every generated file, by path: (descriptor path, leading comment) in order
	locs map[string][]srcLoc
}

type srcLoc struct {
	Path    []int32
	Leading string
}

// compileReal runs the real compiler on the bundle text.
func compileReal(texts map[string]string, pkg string) (res compiled) {
	defer func() {
		if r := recover(); r != nil {
			res = compiled{panic: r}
		}
	}()
	out, err := compile.Compile(context.Background(), texts, pkg)
	if err != nil {
		return compiled{err: err.Error()}
	}
	res.ok = true
	for _, f := range out {
		res.all = append(res.all, f.Path())
		if strings.HasSuffix(f.Path(), ".j5s.proto") {
			res.files = append(res.files, dumpFile(f))
			if res.locs == nil {
				res.locs = map[string][]srcLoc{}
			}
			sl := f.SourceLocations()
			for i := 0; i < sl.Len(); i++ {
				l := sl.Get(i)
				res.locs[f.Path()] = append(res.locs[f.Path()], srcLoc{Path: append([]int32{}, l.Path...), Leading: l.LeadingComments})
			}
		}
	}
	sort.Slice(res.files, func(i, j int) bool { return res.files[i].Path < res.files[j].Path })
	return res
}

// acceptsAll reports whether the real compiler accepts every package of the bundle (okPkg is the
// known answer for pkg).
func acceptsAll(b *j5sgen.Bundle, texts map[string]string, pkg string, okPkg bool) bool {
	if !okPkg {
		return false
	}
	for _, p := range b.Packages() {
		if p == pkg {
			continue
		}
		hasSource := false
		for _, f := range b.Files {
			if f.Package() == p {
				hasSource = true
			}
		}
		if !hasSource {
			continue
		}
		if got := compileReal(texts, p); !got.ok {
			return false
		}
	}
	return true
}

func filesCoq(fs []*DFile) string {
	var items []string
	for _, f := range fs {
		items = append(items, f.Coq())
	}
	return "[" + strings.Join(items, ";\n     ") + "]"
}

// classifyError turns a compile error into a narrow signature.
func classifyError(err string) string {
	switch {
	case strings.Contains(err, "which is not defined; consider using a leading dot"):
		return "C02 valid package rejected: inline type named like an enclosing message -> relative type name resolves into the wrong scope (link: unknown type ... consider using a leading dot)"
	case strings.Contains(err, "unknown type"):
		return "C02 valid package rejected: link error unknown type (reference resolved to a file that does not define it)"
	case strings.Contains(err, "not imported") || strings.Contains(err, "namespace") && strings.Contains(err, "not found"):
		return "C02 valid package rejected: reference not resolved through the declared imports"
	case strings.Contains(err, "already defined") || strings.Contains(err, "duplicate"):
		return "C02 valid package rejected: duplicate symbol"
	}
	cut := err
	if i := strings.LastIndex(cut, ": "); i >= 0 && i+2 < len(cut) {
		cut = cut[i+2:]
	}
	if len(cut) > 80 {
		cut = cut[:80]
	}
	return "C02 valid package rejected: " + cut
}

func bundleInput(texts map[string]string, pkg string) map[string]any {
	return map[string]any{"package": pkg, "files": texts}
}

// caseTerm renders one correspondence case; a bundle with entities names the main files of the
// sources that declare one (J5sCorr.CCompileE).
// locsTerm: for every source file of pkg that compiled, (main proto path, description table,
// the locations the real compiler wrote into that file).
func locsTerm(b *j5sgen.Bundle, pkg string, got compiled) string {
	var rows []string
	if got.ok {
		for _, f := range b.Files {
			if f.Package() != pkg {
				continue
			}
			main := f.Path() + ".proto"
			var ls []string
			for _, l := range got.locs[main] {
				var ps []string
				for _, x := range l.Path {
					ps = append(ps, fmt.Sprint(x))
				}
				ls = append(ls, "(["+strings.Join(ps, ";")+"], "+j5sgen.S(l.Leading)+")")
			}
			rows = append(rows, fmt.Sprintf("(%s, %s,\n     [%s])", j5sgen.S(main), f.DescTable(), strings.Join(ls, "; ")))
		}
	}
	return "[" + strings.Join(rows, ";\n    ") + "]"
}

func caseTerm(b *j5sgen.Bundle, pkg string, ok, okall, exact bool, files []*DFile, locs string) string {
	var ents []string
	for _, f := range b.Files {
		if f.HasEntity() {
			ents = append(ents, j5sgen.S(f.Path()+".proto"))
		}
	}
	if len(ents) == 0 {
		return fmt.Sprintf("CCompileV\n   %s\n   %s %s %s %s\n   %s", b.Coq(), j5sgen.S(pkg), vh.BoolTerm(ok), vh.BoolTerm(okall), vh.BoolTerm(exact), filesCoq(files)+"\n   "+locs)
	}
	return fmt.Sprintf("CCompileE\n   %s\n   %s [%s] %s %s %s\n   %s", b.Coq(), j5sgen.S(pkg), strings.Join(ents, "; "), vh.BoolTerm(ok), vh.BoolTerm(okall), vh.BoolTerm(exact), filesCoq(files)+"\n   "+locs)
}

func runC02(cfg *vh.Config) error {
	log.SetOutput(io.Discard)
	res := vh.NewResult("C02", cfg.Seed)
	res.Rule = "generated valid j5s bundles (1-3 packages x 1-3 files; objects/oneofs/enums top-level, explicitly nested and inline to depth 4; every scalar type; arrays/maps; refs local, cross-file, imported by alias / package / path, implicit well-known; services with path parameters; publish/reqres/upsert/event topics; entities: 1-3 keys - key-typed primary / shard or any scalar -, data and event fields of every type, 1-4 statuses, 1-3 events), printed in randomly chosen surface forms; non-trivial = distinct bundle text with at least one field"
	cf := &vh.CasesFile{
		Header: "From Coq Require Import String List NArith.\nFrom J5V.model Require Import J5sAst Desc J5sEntity J5sComments J5sCorr.",
		Type:   "c02case",
		Check:  "c02_check",
	}
	n := cfg.Scale(180, 2400)
	distinct := vh.Distinct{}
	const perShard = 30
	stats := map[string]int{}
	corpus := j5sgen.Corpus()
	for i := 0; i < n+len(corpus); i++ {
		r := cfg.R.Fork(fmt.Sprintf("c02-%d", i))
		var b *j5sgen.Bundle
		var pkg string
		stream := "compile"
		if i < len(corpus) {
			b, pkg = corpus[i].B, corpus[i].Pkg
			stream = "corpus:" + corpus[i].Name
			res.Count("corpus")
		} else {
			gcfg := j5sgen.DefaultConfig()
			// a third of the cases stay small and feature-poor so that failures are readable
			switch i % 6 {
			case 0:
				gcfg.Imports, gcfg.Services, gcfg.Topics, gcfg.PFiles, gcfg.MaxFiles = false, false, false, false, 1
			case 1:
				gcfg.Services, gcfg.Topics, gcfg.PFiles = false, false, false
			}
			g := j5sgen.NewGen(r, gcfg)
			b, pkg = g.Bundle()
			for k, v := range g.Stats {
				stats[k] += v
			}
		}
		texts := b.Texts(r.Fork("print"))
		got := compileReal(texts, pkg)
		key := fmt.Sprint(texts)
		distinct.Add(key)
		res.Count("bundles")
		in := bundleInput(texts, pkg)
		if got.panic != nil {
			res.Count("panic")
			res.Fail(vh.Failure{Case: i, Stream: stream, Sig: "C02 compiler panic on a valid package", Clause: "valid packages compile", Input: in, Got: fmt.Sprint(got.panic)})
			continue
		}
		if i < len(corpus) && corpus[i].Outside {
			res.Count("corpus_outside_language")
		} else if !got.ok {
			res.Count("rejected")
			res.Fail(vh.Failure{Case: i, Stream: stream, Sig: classifyError(got.err), Clause: "every valid j5s package compiles to the declared contract", Input: in, Got: got.err})
		} else {
			res.Count("compiled")
			res.Distribution["files_out"] += len(got.files)
			for _, v := range newOracle(b, pkg).Check(got.files) {
				res.Fail(vh.Failure{Case: i, Stream: stream, Sig: v.Sig, Clause: v.Clause, Input: in, Got: v.Got, Want: v.Want})
			}
		}
		okall := acceptsAll(b, texts, pkg, got.ok)
		if okall {
			res.Count("accepted_all_packages")
		}
		exact := !(i < len(corpus) && corpus[i].Outside)
		cf.Terms = append(cf.Terms, caseTerm(b, pkg, got.ok, okall, exact, got.files, locsTerm(b, pkg, got)))
		res.Cases = append(res.Cases, vh.CaseRec{Case: i, Stream: stream, Input: in, Impl: map[string]any{"ok": got.ok, "ok_all_packages": okall, "err": got.err, "files": got.all}})
		if len(texts) == 1 && i >= len(corpus) {
			res.Sample(in, 3)
		}
	}
	// ---- malformed stream: a valid bundle broken in one place must be rejected, by the compiler
	// (with an error, not a panic) and by the model
	nBad := cfg.Scale(45, 500)
	for i := 0; i < nBad; i++ {
		r := cfg.R.Fork(fmt.Sprintf("c02-bad-%d", i))
		gcfg := j5sgen.DefaultConfig()
		gcfg.MaxFiles, gcfg.MaxPackages, gcfg.AncestorNames = 2, 2, 0
		g := j5sgen.NewGen(r, gcfg)
		b, pkg := g.Bundle()
		what := j5sgen.Malform(r.Fork("break"), b, pkg)
		if what == "" {
			continue
		}
		texts := b.Texts(r.Fork("print"))
		got := compileReal(texts, pkg)
		res.Count("malformed")
		res.Count("malformed: " + what)
		in := bundleInput(texts, pkg)
		in["broken"] = what
		caseNo := n + len(corpus) + i
		if got.panic != nil {
			res.Count("malformed_panic")
			res.Fail(vh.Failure{Case: caseNo, Stream: "malformed", Sig: "C02 compiler panic on an invalid package: " + what, Clause: "invalid packages are rejected with an error", Input: in, Got: fmt.Sprint(got.panic)})
			continue
		}
		if got.ok {
			res.Count("malformed_accepted")
		}
		okall := acceptsAll(b, texts, pkg, got.ok)
		cf.Terms = append(cf.Terms, caseTerm(b, pkg, got.ok, okall, true, got.files, locsTerm(b, pkg, got)))
		res.Cases = append(res.Cases, vh.CaseRec{Case: caseNo, Stream: "malformed: " + what, Input: in, Impl: map[string]any{"ok": got.ok, "ok_all_packages": okall, "err": got.err}})
	}
	for k, v := range stats {
		res.Distribution["gen_"+k] = v
	}
	res.Evaluations = n + len(corpus) + res.Distribution["malformed"]
	res.Distinct = len(distinct)
	shards, err := cf.WriteShards(cfg.Out, "cases", perShard)
	if err != nil {
		return err
	}
	for i := range res.Cases {
		res.Cases[i].Shard = fmt.Sprintf("cases_%d", i/perShard)
		res.Cases[i].Pos = i % perShard
	}
	res.Shards = shards
	return res.Write(cfg.Out)
}

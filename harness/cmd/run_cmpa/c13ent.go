package main

import (
	"fmt"
	"strings"

	"github.com/iancoleman/strcase"
	"verifharness/j5sgen"
	"verifharness/vh"
)

// The entity-append stream of C13 (coq/model/J5sEntityEdit.v, theorem C13_entity_histories):
// bundles whose files declare entities x 1-4 entity edits (key / data field / status / event
// appended to an entity, field appended to an event, declaration / new entity appended to the
// file, field appended to a plain declaration), both versions compiled by the real compiler; the
// model expands and compiles both, the embedding is evaluated in Coq on the real descriptors and
// the restriction-equality oracle of c13.go runs on them.

// A key-typed key that is primary or shard, appended to an entity, goes into the requests of the query
// methods IN FRONT of page / query (numbered by position) and into the paths. That edit is OUTSIDE the
// property's quantifier (C13 speaks of fields / options / declarations appended to user-declared objects,
// oneofs, enums, services and topics; a URL key changes the resource path by its nature): such histories
// are still generated for the correspondence (model = real, embedding on the real descriptors as the
// model predicts), but what they change in the Query service of that entity is NOT an oracle failure.

func entityStream(cfg *vh.Config, res *vh.Result, firstCase int) ([]string, error) {
	cf := &vh.CasesFile{
		Header: "From Coq Require Import String List NArith.\nFrom J5V.model Require Import J5sAst Desc J5sEdit J5sEntity J5sEntityEdit J5sCorr.",
		Type:   "c13ecase",
		Check:  "c13e_check",
	}
	const perShard = 5
	corpus := j5sgen.EntityEditCorpus()
	n := cfg.Scale(12, 120) + len(corpus)
	var recs []vh.CaseRec
	for i := 0; i < n; i++ {
		label := fmt.Sprintf("c13e-%d", i)
		var b0, b1 *j5sgen.Bundle
		var pkg string
		var edits []j5sgen.EntEditRec
		stream := "entity-edit"
		if i < len(corpus) {
			b0, b1, pkg, edits = corpus[i].Before, corpus[i].After, corpus[i].Pkg, corpus[i].Edits
			stream = "entity-edit-corpus:" + corpus[i].Name
			res.Count("entity_corpus")
		} else {
			gcfg := j5sgen.DefaultConfig()
			gcfg.MaxFiles, gcfg.MaxPackages, gcfg.PFiles, gcfg.Descriptions = 2, 2, false, false
			gcfg.MaxDepth, gcfg.MaxFields = 3, 4
			if i%2 == 0 {
				gcfg.Imports, gcfg.MaxPackages, gcfg.MaxFiles = false, 1, 1
			}
			found := false
			for try := 0; try < 200 && !found; try++ {
				l := fmt.Sprintf("%s-%d", label, try)
				b0, pkg = j5sgen.NewGen(cfg.R.Fork(l), gcfg).Bundle()
				for _, f := range b0.Files {
					found = found || (f.Package() == pkg && f.HasEntity())
				}
				if found {
					b1, _ = j5sgen.NewGen(cfg.R.Fork(l), gcfg).Bundle()
				}
			}
			if !found {
				continue
			}
			re := cfg.R.Fork(label + "-edit")
			url := 0
			if re.Chance(10) { // the class outside the theorem, drawn too: expected NOT to embed
				url = 1
			}
			edits = j5sgen.ApplyEntityEdits(re, b1, pkg, re.Range(1, 4), url)
		}
		t0 := b0.Texts(cfg.R.Fork(label + "-print"))
		t1 := b1.Texts(cfg.R.Fork(label + "-print2"))
		g0 := compileReal(t0, pkg)
		g1 := compileReal(t1, pkg)
		in := map[string]any{"package": pkg, "before": t0, "after": t1, "edits": edits}
		caseNo := firstCase + i
		urlEntities := map[string]bool{}
		var es []string
		for _, e := range edits {
			res.Count("entity_edit_" + e.Kind)
			es = append(es, e.Coq)
			if e.URLKey {
				urlEntities[strcase.ToCamel(strcase.ToSnake(e.Entity))] = true
			}
		}
		res.Count("entity_pairs")
		if g0.panic != nil || g1.panic != nil {
			res.Fail(vh.Failure{Case: caseNo, Stream: stream, Sig: "C13 compiler panic", Clause: "valid packages compile", Input: in, Got: fmt.Sprint(g0.panic, g1.panic)})
			continue
		}
		embeds := true
		switch {
		case !g0.ok:
			res.Count("entity_before_rejected")
		case !g1.ok:
			res.Count("entity_after_rejected")
			sig := "C13 package no longer compiles after an append edit of an entity file: " + strings.TrimPrefix(classifyError(g1.err), "C02 valid package rejected: ")
			res.Fail(vh.Failure{Case: caseNo, Stream: stream, Sig: sig, Clause: "append edits leave every previously generated element unchanged", Input: in, Got: g1.err})
		default:
			res.Count("entity_both_compiled")
			for _, v := range (&c13oracle{}).files(g0.files, g1.files) {
				sig := v.Sig
				outside := false
				// bound to the source: only the requests / methods of the Query service of an entity that got a URL key
				for qn := range urlEntities {
					svc := pkg + ".service." + qn
					isReq := strings.HasPrefix(v.Got, svc+"GetRequest:") || strings.HasPrefix(v.Got, svc+"ListRequest:") || strings.HasPrefix(v.Got, svc+"EventsRequest:")
					isMeth := strings.HasPrefix(v.Got, svc+"QueryService."+qn)
					if (isReq && strings.HasPrefix(v.Sig, "C13 field (name, number")) || (isMeth && strings.HasPrefix(v.Sig, "C13 method (types, HTTP rule)")) {
						outside = true
					}
				}
				if outside {
					// the URL-key class: observed (the real descriptors do not embed, as the model says), not reported
					embeds = false
					res.Count("entity_urlkey_query_service_changes_outside_quantifier")
					continue
				}
				res.Fail(vh.Failure{Case: caseNo, Stream: stream, Sig: sig, Clause: v.Clause, Input: in, Got: v.Got, Want: v.Want})
			}
		}
		var ents []string
		for _, f := range b1.Files {
			if f.HasEntity() {
				ents = append(ents, j5sgen.S(f.Path()+".proto"))
			}
		}
		okall0, okall1 := acceptsAll(b0, t0, pkg, g0.ok), acceptsAll(b1, t1, pkg, g1.ok)
		cf.Terms = append(cf.Terms, fmt.Sprintf("CEntEdit\n   %s\n   [%s]\n   %s [%s]\n   %s %s %s %s %s\n   %s\n   %s", b0.ECoq(), strings.Join(es, ";\n    "), j5sgen.S(pkg), strings.Join(ents, "; "),
			vh.BoolTerm(g0.ok), vh.BoolTerm(g1.ok), vh.BoolTerm(okall0), vh.BoolTerm(okall1), vh.BoolTerm(embeds), filesCoq(g0.files), filesCoq(g1.files)))
		k := len(cf.Terms) - 1
		recs = append(recs, vh.CaseRec{Case: caseNo, Stream: stream, Input: in, Impl: map[string]any{"ok_before": g0.ok, "ok_after": g1.ok, "err_after": g1.err},
			Shard: fmt.Sprintf("ecases_%d", k/perShard), Pos: k % perShard})
	}
	res.Evaluations += n
	// ---- a message appended to a publish topic all of whose messages have names of their own
	// (preferably one with exactly ONE message): the existing rpcs / messages keep their names
	nt := cfg.Scale(10, 100) + 1
	for i := 0; i < nt; i++ {
		label := fmt.Sprintf("c13t-%d", i)
		var b0, b1 *j5sgen.Bundle
		var pkg string
		var rec *j5sgen.TopicMsgRec
		stream := "topic-message-append"
		if i == 0 {
			b0, b1, pkg, rec = j5sgen.TopicMsgCorpus()
			stream = "topic-message-append-corpus:orders"
		} else {
			gcfg := j5sgen.DefaultConfig()
			gcfg.MaxFiles, gcfg.MaxPackages, gcfg.PFiles, gcfg.Descriptions, gcfg.Entities = 2, 2, false, false, false
			gcfg.MaxDepth, gcfg.MaxFields = 3, 4
			if i%2 == 0 {
				gcfg.Imports, gcfg.MaxPackages, gcfg.MaxFiles = false, 1, 1
			}
			for try := 0; try < 300 && rec == nil; try++ {
				l := fmt.Sprintf("%s-%d", label, try)
				b1, pkg = j5sgen.NewGen(cfg.R.Fork(l), gcfg).Bundle()
				if rec = j5sgen.AppendTopicMessage(cfg.R.Fork(l+"-edit"), b1, pkg); rec != nil {
					b0, _ = j5sgen.NewGen(cfg.R.Fork(l), gcfg).Bundle()
				}
			}
			if rec == nil {
				continue
			}
		}
		t0 := b0.Texts(cfg.R.Fork(label + "-print"))
		t1 := b1.Texts(cfg.R.Fork(label + "-print2"))
		g0 := compileReal(t0, pkg)
		g1 := compileReal(t1, pkg)
		in := map[string]any{"package": pkg, "before": t0, "after": t1, "edits": []any{rec}}
		caseNo := firstCase + n + i
		res.Count("topicmsg_pairs")
		if rec.Single {
			res.Count("topicmsg_pairs_single_message_before")
		}
		if g0.panic != nil || g1.panic != nil {
			res.Fail(vh.Failure{Case: caseNo, Stream: stream, Sig: "C13 compiler panic", Clause: "valid packages compile", Input: in, Got: fmt.Sprint(g0.panic, g1.panic)})
			continue
		}
		switch {
		case !g0.ok:
			res.Count("topicmsg_before_rejected")
		case !g1.ok:
			res.Count("topicmsg_after_rejected")
			sig := "C13 package no longer compiles after a message is appended to a publish topic: " + strings.TrimPrefix(classifyError(g1.err), "C02 valid package rejected: ")
			res.Fail(vh.Failure{Case: caseNo, Stream: stream, Sig: sig, Clause: "append edits leave every previously generated element unchanged", Input: in, Got: g1.err})
		default:
			res.Count("topicmsg_both_compiled")
			// service / method identities of the topic: every old rpc is still there under its name, with its request message
			for _, v := range (&c13oracle{}).files(g0.files, g1.files) {
				sig := v.Sig
				switch {
				case strings.HasPrefix(sig, "C13 method removed"):
					sig = "C13 existing rpc of a publish topic renamed / removed by appending a message to the topic"
				case strings.HasPrefix(sig, "C13 message removed"):
					sig = "C13 existing message type of a publish topic renamed / removed by appending a message to the topic"
				}
				res.Fail(vh.Failure{Case: caseNo, Stream: stream, Sig: sig, Clause: v.Clause, Input: in, Got: v.Got, Want: v.Want})
			}
		}
		okall0, okall1 := acceptsAll(b0, t0, pkg, g0.ok), acceptsAll(b1, t1, pkg, g1.ok)
		cf.Terms = append(cf.Terms, fmt.Sprintf("CAppendPair\n   %s\n   %s\n   %s\n   %s %s %s %s true\n   %s\n   %s", b0.Coq(), b1.Coq(), j5sgen.S(pkg),
			vh.BoolTerm(g0.ok), vh.BoolTerm(g1.ok), vh.BoolTerm(okall0), vh.BoolTerm(okall1), filesCoq(g0.files), filesCoq(g1.files)))
		k := len(cf.Terms) - 1
		recs = append(recs, vh.CaseRec{Case: caseNo, Stream: stream, Input: in, Impl: map[string]any{"ok_before": g0.ok, "ok_after": g1.ok, "err_after": g1.err},
			Shard: fmt.Sprintf("ecases_%d", k/perShard), Pos: k % perShard})
	}
	res.Evaluations += nt
	shards, err := cf.WriteShards(cfg.Out, "ecases", perShard)
	if err != nil {
		return nil, err
	}
	res.Cases = append(res.Cases, recs...)
	return shards, nil
}

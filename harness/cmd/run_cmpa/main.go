// run_cmpa: implementation runner for the j5s compiler family (C02, C13).
package main

import "verifharness/vh"

func main() { vh.Main() }

package main

import (
	"crypto/sha1"
	"fmt"
	"math/big"
	"strings"

	"github.com/pentops/j5/lib/id62"
	"verifharness/vh"
)

func init() { vh.Register("C20", runC20) }

func safeString(id id62.UUID) (s string, panicked any) {
	defer func() {
		if r := recover(); r != nil {
			panicked = r
		}
	}()
	return id.String(), nil
}

func safeParse(s string) (id id62.UUID, err error, panicked any) {
	defer func() {
		if r := recover(); r != nil {
			panicked = r
		}
	}()
	id, err = id62.Parse(s)
	return
}

func idFromBig(v *big.Int) id62.UUID {
	var id id62.UUID
	b := v.Bytes()
	if len(b) > 16 {
		b = b[len(b)-16:]
	}
	copy(id[16-len(b):], b)
	return id
}

func runC20(cfg *vh.Config) error {
	res := vh.NewResult("C20", cfg.Seed)
	res.Rule = "identifiers: uniform 128-bit, all-zero, all-one, every single bit, leading-zero-byte runs, 62^k and 62^k±1, 2^k-1; parse strings: renderings, signed, underscore, non-ASCII, lengths 0-40, 23+ chars around 2^128, leading zeros; hash histories: sequences of NewHash calls over families of tuples that collide under naive joining (separators inside parts, re-cut concatenations), each call compared with SHA-1 of the plain concatenation; emitted patterns: key:id62 in every qualifier form (plain, !, ?, required/optional attribute, array, map, list rules), alone and in random subsets, compiled by the real compiler, validation pattern compared with id62.PatternString; non-trivial = distinct input other than the all-zero id / empty string"
	cf := &vh.CasesFile{
		Header: "From Coq Require Import String List NArith.\nFrom J5V.model Require Import Id62 Id62Corr.",
		Type:   "c20case",
		Check:  "c20_check",
	}
	distinct := vh.Distinct{}
	r := cfg.R
	nIDs := cfg.Scale(2000, 100000)
	nStr := cfg.Scale(2000, 100000)
	caseNo := 0

	// ---- stream 1: identifiers
	var ids []id62.UUID
	ids = append(ids, id62.UUID{})
	var ones id62.UUID
	for i := range ones {
		ones[i] = 0xff
	}
	ids = append(ids, ones)
	for bit := 0; bit < 128; bit++ {
		var id id62.UUID
		id[bit/8] = 1 << (7 - bit%8)
		ids = append(ids, id)
		// 2^k - 1
		v := new(big.Int).Lsh(big.NewInt(1), uint(bit))
		v.Sub(v, big.NewInt(1))
		ids = append(ids, idFromBig(v))
	}
	p := big.NewInt(1)
	for k := 0; k <= 21; k++ {
		for _, d := range []int64{-1, 0, 1} {
			v := new(big.Int).Add(p, big.NewInt(d))
			if v.Sign() >= 0 {
				ids = append(ids, idFromBig(v))
			}
		}
		p = new(big.Int).Mul(p, big.NewInt(62))
	}
	for len(ids) < nIDs {
		var id id62.UUID
		copy(id[:], r.Bytes(16))
		if r.Chance(25) { // leading-zero-byte run
			z := r.Range(1, 15)
			for i := 0; i < z; i++ {
				id[i] = 0
			}
		}
		ids = append(ids, id)
	}
	var rendered []string
	for _, id := range ids {
		s, pan := safeString(id)
		in := fmt.Sprintf("%x", id[:])
		distinct.Add("id:" + in)
		res.Count("id")
		if pan != nil {
			res.Fail(vh.Failure{Case: caseNo, Stream: "render", Sig: "C20 render panic", Clause: "render never panics", Input: in, Got: fmt.Sprint(pan)})
			caseNo++
			continue
		}
		pat := id62.Pattern.MatchString(s)
		rendered = append(rendered, s)
		// direct oracle
		if len(s) != 22 {
			res.Fail(vh.Failure{Case: caseNo, Stream: "render", Sig: "C20 render length", Clause: "renders to exactly 22 characters", Input: in, Got: s})
		}
		if !pat {
			res.Fail(vh.Failure{Case: caseNo, Stream: "render", Sig: "C20 render pattern", Clause: "rendering matches the published pattern", Input: in, Got: s})
		}
		back, err, pan2 := safeParse(s)
		if pan2 != nil || err != nil || back != id {
			res.Fail(vh.Failure{Case: caseNo, Stream: "render", Sig: "C20 roundtrip", Clause: "parse(render(id)) = id", Input: in, Got: fmt.Sprintf("s=%q back=%x err=%v panic=%v", s, back[:], err, pan2)})
		}
		cf.Terms = append(cf.Terms, fmt.Sprintf("CRender %s %s %s", vh.NList(id[:]), vh.BytesTerm(s), vh.BoolTerm(pat)))
		res.Cases = append(res.Cases, vh.CaseRec{Case: caseNo, Stream: "render", Input: in, Impl: map[string]any{"s": s, "pattern": pat}})
		res.Sample(map[string]any{"stream": "render", "id": in, "rendered": s}, 4)
		caseNo++
	}

	// ---- stream 2: strings for Parse
	const alnum = "0123456789abcdefghijklmnopqrstuvwxyzABCDEFGHIJKLMNOPQRSTUVWXYZ"
	var strs []string
	strs = append(strs, "", "+", "-", "0", "-0", "+0", "_", "1_0", " 1", "1 ", "0x10", "١٢", "１２３", "\x00", strings.Repeat("0", 40)+"1", strings.Repeat("Z", 22), strings.Repeat("Z", 21), "7N42dgm5tFLK9N8MT7fHC7", "7N42dgm5tFLK9N8MT7fHC8", "7n42dgm5tFLK9N8MT7fHC8")
	two128 := new(big.Int).Lsh(big.NewInt(1), 128)
	for d := int64(-3); d <= 3; d++ {
		v := new(big.Int).Add(two128, big.NewInt(d))
		strs = append(strs, v.Text(62), "-"+v.Text(62), "000"+v.Text(62))
	}
	for len(strs) < nStr {
		switch r.Intn(8) {
		case 0, 1: // a rendering, maybe decorated
			s := vh.Pick(r, rendered)
			switch r.Intn(6) {
			case 0:
				s = "+" + s
			case 1:
				s = "-" + s
			case 2:
				i := r.Intn(len(s))
				s = s[:i] + "_" + s[i:]
			case 3:
				s = strings.Repeat("0", r.Range(1, 10)) + s
			case 4:
				s = strings.TrimLeft(s, "0")
			}
			strs = append(strs, s)
		case 2, 3: // random alphanumerics of random length
			n := r.Range(0, 40)
			b := make([]byte, n)
			for i := range b {
				b[i] = alnum[r.Intn(62)]
			}
			strs = append(strs, string(b))
		case 4: // 22..24 chars, first char biased near the 2^128 boundary ('7')
			n := r.Range(22, 24)
			b := make([]byte, n)
			for i := range b {
				b[i] = alnum[r.Intn(62)]
			}
			b[0] = "0678"[r.Intn(4)]
			strs = append(strs, string(b))
		case 5: // random bytes
			strs = append(strs, string(r.Bytes(r.Range(0, 30))))
		case 6: // alnum with one foreign character
			n := r.Range(1, 25)
			b := make([]byte, n)
			for i := range b {
				b[i] = alnum[r.Intn(62)]
			}
			foreign := []string{"_", "-", "+", " ", ".", "é", "٣", "\n", "/", "=", "@", "[", "`", "{"}
			i := r.Intn(n)
			strs = append(strs, string(b[:i])+vh.Pick(r, foreign)+string(b[i:]))
		case 7: // sign only + digits
			n := r.Range(0, 23)
			b := make([]byte, n)
			for i := range b {
				b[i] = alnum[r.Intn(62)]
			}
			strs = append(strs, vh.Pick(r, []string{"+", "-", "+-", "--"})+string(b))
		}
	}
	for _, s := range strs {
		id, err, pan := safeParse(s)
		distinct.Add("str:" + s)
		res.Count("parse")
		if pan != nil {
			res.Fail(vh.Failure{Case: caseNo, Stream: "parse", Sig: "C20 parse panic", Clause: "parsing never panics", Input: fmt.Sprintf("%q", s), Got: fmt.Sprint(pan)})
			caseNo++
			continue
		}
		ok := err == nil
		if ok {
			res.Count("parse_ok")
		} else {
			res.Count("parse_err")
		}
		// direct oracle: a value that does not fit in 16 bytes must be rejected;
		// the independent reading of the string is big.Int's.
		var v big.Int
		if _, good := v.SetString(s, 62); good {
			v.Abs(&v)
			if v.Cmp(two128) >= 0 && ok {
				res.Fail(vh.Failure{Case: caseNo, Stream: "parse", Sig: "C20 oversize accepted", Clause: "values that do not fit in 16 bytes are rejected", Input: fmt.Sprintf("%q", s), Got: fmt.Sprintf("%x", id[:])})
			}
			if v.Cmp(two128) < 0 && ok && idFromBig(&v) != id {
				res.Fail(vh.Failure{Case: caseNo, Stream: "parse", Sig: "C20 parse value", Clause: "accepted string denotes the returned bytes", Input: fmt.Sprintf("%q", s), Got: fmt.Sprintf("%x", id[:])})
			}
		}
		pat := id62.Pattern.MatchString(s)
		cf.Terms = append(cf.Terms, fmt.Sprintf("CParse %s %s %s %s", vh.BytesTerm(s), vh.BoolTerm(ok), vh.NList(id[:]), vh.BoolTerm(pat)))
		res.Cases = append(res.Cases, vh.CaseRec{Case: caseNo, Stream: "parse", Input: fmt.Sprintf("%q", s), Impl: map[string]any{"ok": ok, "id": fmt.Sprintf("%x", id[:]), "pattern": pat}})
		if len(s) > 0 && len(s) < 30 {
			res.Sample(map[string]any{"stream": "parse", "s": s, "ok": ok}, 8)
		}
		caseNo++
	}

	// ---- stream 3: NewHash is the first 16 bytes of SHA-1(namespace ++ inputs...), and pure
	nHash := cfg.Scale(200, 5000)
	for i := 0; i < nHash; i++ {
		ns := string(r.Bytes(r.Range(0, 20)))
		var ins []string
		for k := r.Intn(4); k > 0; k-- {
			ins = append(ins, string(r.Bytes(r.Range(0, 70))))
		}
		a := id62.NewHash(ns, ins...)
		b := id62.NewHash(ns, ins...)
		h := sha1.Sum([]byte(ns + strings.Join(ins, "")))
		res.Count("hash")
		distinct.Add("hash:" + ns + "\x00" + strings.Join(ins, "\x00"))
		if a != b {
			res.Fail(vh.Failure{Case: caseNo, Stream: "hash", Sig: "C20 hash impure", Clause: "hash-derived identifiers are a pure function of namespace and inputs", Input: fmt.Sprintf("%q %q", ns, ins), Got: fmt.Sprintf("%x vs %x", a[:], b[:])})
		}
		var want id62.UUID
		copy(want[:], h[:16])
		if a != want {
			res.Fail(vh.Failure{Case: caseNo, Stream: "hash", Sig: "C20 hash value", Clause: "hash-derived identifiers are a pure function of namespace and inputs", Input: fmt.Sprintf("%q %q", ns, ins), Got: fmt.Sprintf("%x", a[:]), Want: fmt.Sprintf("%x", want[:])})
		}
		var parts []string
		for _, in := range ins {
			parts = append(parts, vh.BytesTerm(in))
		}
		if len(ns)+len(strings.Join(ins, "")) <= 120 && i < cfg.Scale(60, 400) {
			cf.Terms = append(cf.Terms, fmt.Sprintf("CHash %s [%s] %s", vh.BytesTerm(ns), strings.Join(parts, ";"), vh.NList(a[:])))
			res.Cases = append(res.Cases, vh.CaseRec{Case: caseNo, Stream: "hash", Input: fmt.Sprintf("%q %q", ns, ins), Impl: fmt.Sprintf("%x", a[:])})
		}
		caseNo++
	}

	runHashHistories(cfg, r.Fork("hash-histories"), res, cf, distinct, &caseNo)
	runHashConcurrent(cfg, r.Fork("hash-concurrent"), res, distinct, &caseNo)
	runNew(cfg, res, cf, &caseNo)
	if err := runEmittedPatterns(cfg, r.Fork("emitted-patterns"), res, cf, distinct, &caseNo); err != nil {
		return err
	}

	res.Evaluations = caseNo
	res.Distinct = len(distinct) - 2
	shards, err := cf.WriteShards(cfg.Out, "cases", 700)
	if err != nil {
		return err
	}
	// record shard/pos for each case term
	for i := range res.Cases {
		res.Cases[i].Shard = fmt.Sprintf("cases_%d", i/700)
		res.Cases[i].Pos = i % 700
	}
	res.Shards = shards
	return res.Write(cfg.Out)
}

// run_id62: implementation runner for the id62 family (C20).
package main

import "verifharness/vh"

func main() { vh.Main() }

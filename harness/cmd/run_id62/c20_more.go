package main

// Two further C20 streams (added after the second round of seeded changes):
//   - hash histories: NewHash must be a function of (namespace, inputs) alone, so a SEQUENCE of
//     calls on tuples that collide under naive joining (separators inside the parts, different
//     splits of one concatenation) must give every call the value the reference SHA-1 gives;
//   - emitted patterns: the compiler must bake exactly id62.PatternString into the validation
//     rule of every key:id62 field, whatever qualifiers the field carries.

import (
	"context"
	"crypto/sha1"
	"fmt"
	"sort"
	"strings"
	"sync"

	"buf.build/gen/go/bufbuild/protovalidate/protocolbuffers/go/buf/validate"
	"github.com/pentops/j5/gen/j5/schema/v1/schema_j5pb"
	"github.com/pentops/j5/lib/id62"
	"github.com/pentops/j5/lib/j5schema"
	"github.com/pentops/j5/lib/verifshim/compile"
	"google.golang.org/protobuf/proto"
	"google.golang.org/protobuf/reflect/protoreflect"
	"verifharness/vh"
)

type hashTuple struct {
	ns  string
	ins []string
}

func refHash(t hashTuple) id62.UUID {
	h := sha1.Sum([]byte(t.ns + strings.Join(t.ins, "")))
	var want id62.UUID
	copy(want[:], h[:16])
	return want
}

// collidingTuples builds a family of tuples around one byte string: every way of cutting it
// into namespace + 0..3 inputs at separator-rich positions, plus spellings with the separator
// moved between "inside a part" and "between parts".
func collidingTuples(r *vh.Rand) []hashTuple {
	seps := []string{":", "/", "|", "\x00", ",", "::", ""}
	words := []string{"account", "tenant", "user", "a", "b", "urn", "foo", "1", "", "x:y", "é"}
	n := r.Range(2, 4)
	var parts []string
	for i := 0; i < n; i++ {
		parts = append(parts, vh.Pick(r, words))
	}
	sep := vh.Pick(r, seps)
	var out []hashTuple
	// (ns, p1, p2, ...) as given
	out = append(out, hashTuple{parts[0], append([]string{}, parts[1:]...)})
	// neighbouring parts glued with the separator inside one part
	for i := 0; i+1 < len(parts); i++ {
		glued := append([]string{}, parts[:i]...)
		glued = append(glued, parts[i]+sep+parts[i+1])
		glued = append(glued, parts[i+2:]...)
		out = append(out, hashTuple{glued[0], append([]string{}, glued[1:]...)})
	}
	// the same concatenation cut elsewhere
	whole := strings.Join(parts, "")
	if len(whole) >= 2 {
		k := r.Range(1, len(whole)-1)
		out = append(out, hashTuple{whole[:k], []string{whole[k:]}}, hashTuple{whole, nil}, hashTuple{"", []string{whole}})
	}
	return out
}

func runHashHistories(cfg *vh.Config, r *vh.Rand, res *vh.Result, cf *vh.CasesFile, distinct vh.Distinct, caseNo *int) {
	n := cfg.Scale(150, 4000)
	for i := 0; i < n; i++ {
		fam := collidingTuples(r)
		// a history: every tuple of the family, in a random order, some repeated
		order := make([]int, 0, 2*len(fam))
		for k := range fam {
			order = append(order, k)
			if r.Chance(40) {
				order = append(order, k)
			}
		}
		for k := len(order) - 1; k > 0; k-- {
			j := r.Intn(k + 1)
			order[k], order[j] = order[j], order[k]
		}
		var hist []string
		for step, k := range order {
			t := fam[k]
			got := id62.NewHash(t.ns, t.ins...)
			hist = append(hist, fmt.Sprintf("%q%q", t.ns, t.ins))
			res.Count("hash-history-call")
			distinct.Add("hh:" + t.ns + "\x01" + strings.Join(t.ins, "\x01"))
			if want := refHash(t); got != want {
				res.Fail(vh.Failure{Case: *caseNo, Stream: "hash-history", Sig: "C20 hash depends on call history",
					Clause: "hash-derived identifiers are a pure function of namespace and inputs",
					Input:  map[string]any{"calls_so_far": hist, "step": step}, Got: fmt.Sprintf("%x", got[:]), Want: fmt.Sprintf("%x", want[:])})
			}
			if step < 3 && i < cfg.Scale(40, 300) {
				var parts []string
				for _, in := range t.ins {
					parts = append(parts, vh.BytesTerm(in))
				}
				cf.Terms = append(cf.Terms, fmt.Sprintf("CHash %s [%s] %s", vh.BytesTerm(t.ns), strings.Join(parts, ";"), vh.NList(got[:])))
				res.Cases = append(res.Cases, vh.CaseRec{Case: *caseNo, Stream: "hash-history", Input: fmt.Sprintf("%q %q after %d calls", t.ns, t.ins, step), Impl: fmt.Sprintf("%x", got[:])})
			}
		}
		res.Sample(map[string]any{"stream": "hash-history", "calls": hist}, 10)
		*caseNo++
	}
}

// runNew: New() / NewString() (uuid v7 through github.com/google/uuid; not modelled: any 16 bytes are inside C20_full) —
// the identifiers the package itself mints render to the published shape and parse back, and the rendering goes to
// Coq as an ordinary CRender case (model render of the same 16 bytes).
func runNew(cfg *vh.Config, res *vh.Result, cf *vh.CasesFile, caseNo *int) {
	n := cfg.Scale(40, 400)
	seen := map[id62.UUID]bool{}
	for i := 0; i < n; i++ {
		id := id62.New()
		s, pan := safeString(id)
		res.Count("new")
		in := fmt.Sprintf("id62.New() = %x", id[:])
		if pan != nil || len(s) != 22 || !id62.Pattern.MatchString(s) {
			res.Fail(vh.Failure{Case: *caseNo, Stream: "new", Sig: "C20 identifier minted by New() does not render to 22 characters of the published pattern",
				Clause: "renders to exactly 22 characters matching the published ID62 pattern", Input: in, Got: fmt.Sprintf("%q panic=%v", s, pan)})
		} else if back, err, pan2 := safeParse(s); err != nil || pan2 != nil || back != id {
			res.Fail(vh.Failure{Case: *caseNo, Stream: "new", Sig: "C20 identifier minted by New() does not parse back", Clause: "parse(render(id)) = id", Input: in,
				Got: fmt.Sprintf("s=%q back=%x err=%v panic=%v", s, back[:], err, pan2)})
		}
		if seen[id] {
			res.Fail(vh.Failure{Case: *caseNo, Stream: "new", Sig: "C20 New() returned the same identifier twice", Clause: "distinct identifiers", Input: in, Got: "duplicate"})
		}
		seen[id] = true
		if pan == nil && i < 20 {
			cf.Terms = append(cf.Terms, fmt.Sprintf("CRender %s %s %s", vh.NList(id[:]), vh.BytesTerm(s), vh.BoolTerm(id62.Pattern.MatchString(s))))
			res.Cases = append(res.Cases, vh.CaseRec{Case: *caseNo, Stream: "new", Input: in, Impl: s})
		}
		*caseNo++
	}
	if s := id62.NewString(); len(s) != 22 || !id62.Pattern.MatchString(s) {
		res.Fail(vh.Failure{Case: *caseNo, Stream: "new", Sig: "C20 NewString() is not 22 characters of the published pattern",
			Clause: "renders to exactly 22 characters matching the published ID62 pattern", Input: "id62.NewString()", Got: s})
	}
}

// runHashConcurrent: NewHash called by several goroutines at overlapping times, each on its own tuples; every result must
// be SHA-1 of the caller's own concatenation (a shared hasher or digest buffer shows up as another caller's id or a torn mix).
func runHashConcurrent(cfg *vh.Config, r *vh.Rand, res *vh.Result, distinct vh.Distinct, caseNo *int) {
	rounds := cfg.Scale(6, 60)
	for k := 0; k < rounds; k++ {
		ng := r.Range(4, 8)
		iters := 1500
		tuples := make([][]hashTuple, ng)
		for g := range tuples {
			for i := 0; i < 8; i++ {
				tuples[g] = append(tuples[g], hashTuple{fmt.Sprintf("ns%d-%d-%d", k, g, i), []string{fmt.Sprintf("in%d", r.Intn(1000)), strings.Repeat("x", r.Intn(40))}})
			}
		}
		type miss struct {
			g, it int
			t     hashTuple
			got   id62.UUID
		}
		misses := make([][]miss, ng)
		gate := make(chan struct{})
		var wg sync.WaitGroup
		for g := 0; g < ng; g++ {
			g := g
			wg.Add(1)
			go func() {
				defer wg.Done()
				<-gate
				for it := 0; it < iters; it++ {
					t := tuples[g][it%len(tuples[g])]
					if got := id62.NewHash(t.ns, t.ins...); got != refHash(t) && len(misses[g]) < 2 {
						misses[g] = append(misses[g], miss{g, it, t, got})
					}
				}
			}()
		}
		close(gate)
		wg.Wait()
		res.Distribution["hash-concurrent-call"] += ng * iters
		distinct.Add(fmt.Sprintf("hc:%d:%d", k, ng))
		for _, ml := range misses {
			for _, m := range ml {
				want := refHash(m.t)
				res.Fail(vh.Failure{Case: *caseNo, Stream: "hash-concurrent", Sig: "C20 hash differs when NewHash is called by several goroutines at once",
					Clause: "hash-derived identifiers are a pure function of namespace and inputs",
					Input:  map[string]any{"goroutines": ng, "iterations_each": iters, "goroutine": m.g, "iteration": m.it, "namespace": m.t.ns, "inputs": m.t.ins},
					Got:    fmt.Sprintf("%x", m.got[:]), Want: fmt.Sprintf("%x", want[:])})
			}
		}
		res.Cases = append(res.Cases, vh.CaseRec{Case: *caseNo, Stream: "hash-concurrent", Input: map[string]any{"goroutines": ng, "iterations_each": iters}, Impl: "compared with SHA-1 per call"})
		*caseNo++
	}
}

// key:id62 in every qualifier form the language has; name -> declaration
var id62Forms = []struct{ name, decl string }{
	{"plain", "field plain key:id62"},
	{"required_mark", "field requiredMark ! key:id62"},
	{"optional_mark", "field optionalMark ? key:id62"},
	{"required_attr", "field requiredAttr key:id62 {\n\t\trequired = true\n\t}"},
	{"optional_attr", "field optionalAttr key:id62 {\n\t\toptional = true\n\t}"},
	{"array", "field arr array:key:id62"},
	{"array_required", "field arrReq ! array:key:id62"},
	{"map", "field mp map:key:id62"},
	{"listed", "field listed key:id62 {\n\t\tlistRules.filtering.filterable = true\n\t}"},
}

func stringPatterns(fd protoreflect.FieldDescriptor) []string {
	var out []string
	c, _ := proto.GetExtension(fd.Options(), validate.E_Field).(*validate.FieldConstraints)
	var walk func(c *validate.FieldConstraints)
	walk = func(c *validate.FieldConstraints) {
		if c == nil {
			return
		}
		if s := c.GetString_(); s != nil && s.Pattern != nil {
			out = append(out, s.GetPattern())
		}
		if rep := c.GetRepeated(); rep != nil {
			walk(rep.GetItems())
		}
		if m := c.GetMap(); m != nil {
			walk(m.GetValues())
		}
	}
	walk(c)
	if fd.IsMap() {
		v := fd.MapValue()
		c2, _ := proto.GetExtension(v.Options(), validate.E_Field).(*validate.FieldConstraints)
		walk(c2)
	}
	return out
}

// readBackID62 reflects the compiled message back into a J5 schema and reports, per property, whether the
// (item) schema is recognised as key:id62 — "recognised on read-back" in the property's anchors.
func readBackID62(md protoreflect.MessageDescriptor) (res map[string]string, err error) {
	defer func() {
		if p := recover(); p != nil {
			err = fmt.Errorf("panic: %v", p)
		}
	}()
	root, err := j5schema.NewSchemaCache().Schema(md)
	if err != nil {
		return nil, err
	}
	obj := root.ToJ5Root().GetObject()
	res = map[string]string{}
	for _, prop := range obj.GetProperties() {
		f := prop.GetSchema()
		kind := "direct"
		if a := f.GetArray(); a != nil {
			f, kind = a.GetItems(), "array items"
		} else if m := f.GetMap(); m != nil {
			f, kind = m.GetItemSchema(), "map values"
		}
		k := f.GetKey()
		switch {
		case k == nil:
			res[prop.GetName()] = fmt.Sprintf("%s: not a key (%T)", kind, f.GetType())
		case k.GetFormat() == nil:
			res[prop.GetName()] = kind + ": key without format"
		default:
			if _, ok := k.GetFormat().GetType().(*schema_j5pb.KeyFormat_Id62); ok {
				res[prop.GetName()] = "id62"
			} else {
				res[prop.GetName()] = fmt.Sprintf("%s: key format %T", kind, k.GetFormat().GetType())
			}
		}
	}
	return res, nil
}

func runEmittedPatterns(cfg *vh.Config, r *vh.Rand, res *vh.Result, cf *vh.CasesFile, distinct vh.Distinct, caseNo *int) error {
	// several files: all forms together, each form alone, and random subsets in random order
	type fileCase struct {
		forms []int
	}
	var cases []fileCase
	all := make([]int, len(id62Forms))
	for i := range all {
		all[i] = i
		cases = append(cases, fileCase{[]int{i}})
	}
	cases = append(cases, fileCase{all})
	for k := cfg.Scale(6, 60); k > 0; k-- {
		var sub []int
		for i := range id62Forms {
			if r.Chance(50) {
				sub = append(sub, i)
			}
		}
		for a := len(sub) - 1; a > 0; a-- {
			b := r.Intn(a + 1)
			sub[a], sub[b] = sub[b], sub[a]
		}
		if len(sub) > 0 {
			cases = append(cases, fileCase{sub})
		}
	}
	for _, fc := range cases {
		var sb strings.Builder
		sb.WriteString("package idp.v1\n\nobject Holder {\n")
		for _, i := range fc.forms {
			sb.WriteString("\t" + id62Forms[i].decl + "\n")
		}
		sb.WriteString("}\n")
		src := sb.String()
		files, err := func() (fs []protoreflect.FileDescriptor, err error) {
			defer func() {
				if p := recover(); p != nil {
					err = fmt.Errorf("panic: %v", p)
				}
			}()
			return compile.Compile(context.Background(), map[string]string{"idp/v1/holder.j5s": src}, "idp.v1")
		}()
		res.Count("emit-file")
		if err != nil {
			res.Fail(vh.Failure{Case: *caseNo, Stream: "emit", Sig: "C20 key:id62 declaration does not compile",
				Clause: "PatternString is emitted as the validation pattern for key:id62", Input: src, Got: err.Error()})
			*caseNo++
			continue
		}
		found := map[string][]string{}
		backAll := map[string]string{}
		for _, f := range files {
			msgs := f.Messages()
			for m := 0; m < msgs.Len(); m++ {
				back, berr := readBackID62(msgs.Get(m))
				res.Count("emit-readback")
				if berr != nil {
					res.Fail(vh.Failure{Case: *caseNo, Stream: "emit", Sig: "C20 message with key:id62 fields cannot be reflected back",
						Clause: "PatternString is ... recognised on read-back", Input: src, Got: berr.Error()})
				}
				names := make([]string, 0, len(back))
				for n := range back {
					names = append(names, n)
				}
				sort.Strings(names)
				for _, n := range names {
					backAll[n] = back[n]
					if back[n] != "id62" {
						res.Fail(vh.Failure{Case: *caseNo, Stream: "emit", Sig: "C20 key:id62 field is not recognised as id62 on read-back",
							Clause: "PatternString is ... recognised on read-back", Input: map[string]any{"j5s": src, "field": n}, Got: back[n], Want: "id62"})
					}
				}
				fields := msgs.Get(m).Fields()
				for k := 0; k < fields.Len(); k++ {
					fd := fields.Get(k)
					found[fd.JSONName()] = stringPatterns(fd)
				}
			}
		}
		names := make([]string, 0, len(found))
		for n := range found {
			names = append(names, n)
		}
		sort.Strings(names)
		for _, n := range names {
			pats := found[n]
			distinct.Add("emit:" + n + ":" + strings.Join(pats, "|"))
			res.Count("emit-field")
			// at least one pattern rule, and every pattern rule found on the field (a map carries it
			// both in map.values and on the entry's value field) is the published pattern
			ok := len(pats) >= 1
			for _, p := range pats {
				ok = ok && p == id62.PatternString
			}
			if !ok {
				res.Fail(vh.Failure{Case: *caseNo, Stream: "emit", Sig: "C20 key:id62 field does not carry exactly the published pattern",
					Clause: "renders ... matching the published ID62 pattern (the pattern baked into every key:id62 rule)",
					Input:  map[string]any{"j5s": src, "field": n}, Got: pats, Want: []string{id62.PatternString}})
			}
			for _, p := range pats {
				cf.Terms = append(cf.Terms, fmt.Sprintf("CEmit %s", vh.BytesTerm(p)))
				res.Cases = append(res.Cases, vh.CaseRec{Case: *caseNo, Stream: "emit", Input: map[string]any{"field": n, "j5s": src}, Impl: p})
			}
			// the reader's recognition against its model (Id62.reads_back_as over the regenerated table): the one
			// pattern the field carries, and whether the reflected schema has it as a key of format id62
			if b, seen := backAll[n]; seen && len(pats) >= 1 {
				one := true
				for _, p := range pats {
					one = one && p == pats[0]
				}
				if one {
					cf.Terms = append(cf.Terms, fmt.Sprintf("CReadback %s %s", vh.BytesTerm(pats[0]), vh.BoolTerm(b == "id62")))
					res.Cases = append(res.Cases, vh.CaseRec{Case: *caseNo, Stream: "readback", Input: map[string]any{"field": n, "j5s": src}, Impl: b})
					res.Count("readback-case")
				}
			}
		}
		res.Sample(map[string]any{"stream": "emit", "j5s": src, "patterns": found}, 12)
		*caseNo++
	}
	return nil
}

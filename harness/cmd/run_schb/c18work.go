package main

// Child-side work for C18: the real reader, reflector and codec on one linked
// descriptor set, plus the direct evaluation of the property's clauses on the
// reader's own objects.

import (
	"fmt"
	"sort"
	"strings"

	"github.com/pentops/j5/lib/j5codec"
	"github.com/pentops/j5/lib/j5reflect"
	"github.com/pentops/j5/lib/j5schema"
	"google.golang.org/protobuf/encoding/prototext"
	"google.golang.org/protobuf/proto"
	"google.golang.org/protobuf/reflect/protodesc"
	"google.golang.org/protobuf/reflect/protoreflect"
	"google.golang.org/protobuf/reflect/protoregistry"
	"google.golang.org/protobuf/types/descriptorpb"
	"google.golang.org/protobuf/types/dynamicpb"
	"verifharness/descgen"
	"verifharness/vh"
)

func linkFor(req *Request, set []byte) (*protoregistry.Files, error) {
	if !req.Dynamic {
		return descgen.LinkBytes(set)
	}
	// option values parsed with a resolver that only knows the set's own
	// descriptors: extension values are dynamicpb messages (as when a compiler
	// library links .proto text directly)
	plain, err := descgen.LinkBytes(set)
	if err != nil {
		return nil, err
	}
	fds := &descriptorpb.FileDescriptorSet{}
	if err := (proto.UnmarshalOptions{Resolver: dynamicpb.NewTypes(plain)}).Unmarshal(set, fds); err != nil {
		return nil, err
	}
	return protodesc.NewFiles(fds)
}

type descIndex struct {
	byName map[string][]protoreflect.MessageDescriptor // "pkg/Name_Nested" -> messages (also "pkg/Msg_oneof" -> parent)
}

func joinSplit(d protoreflect.Descriptor) string {
	var path []string
	cur := d
	for {
		path = append([]string{string(cur.Name())}, path...)
		p := cur.Parent()
		if f, ok := p.(protoreflect.FileDescriptor); ok {
			return string(f.Package()) + "/" + strings.Join(path, "_")
		}
		cur = p
	}
}

func indexFiles(files *protoregistry.Files) *descIndex {
	ix := &descIndex{byName: map[string][]protoreflect.MessageDescriptor{}}
	files.RangeFiles(func(fd protoreflect.FileDescriptor) bool {
		for _, m := range descgen.AllMessages(fd) {
			ix.byName[joinSplit(m)] = append(ix.byName[joinSplit(m)], m)
			for i := 0; i < m.Oneofs().Len(); i++ {
				o := m.Oneofs().Get(i)
				if !o.IsSynthetic() {
					k := joinSplit(o)
					ix.byName["oneof:"+k] = append(ix.byName["oneof:"+k], m)
				}
			}
		}
		return true
	})
	return ix
}

// fieldMatches: does the proto field have the kind the schema describes?
func fieldMatches(fs j5schema.FieldSchema, fd protoreflect.FieldDescriptor, item bool) string {
	switch t := fs.(type) {
	case *j5schema.ArrayField:
		if item || !fd.IsList() {
			return "array schema on a non-repeated field"
		}
		return fieldMatches(t.Schema, fd, true)
	case *j5schema.MapField:
		if !item && fd.IsMap() {
			return fieldMatches(t.Schema, fd.MapValue(), true)
		}
		// google.protobuf.Struct is read as a map of any, also as an array item or a map value
		if fd.Kind() == protoreflect.MessageKind && fd.Message().FullName() == "google.protobuf.Struct" && (item || !fd.IsList()) {
			return ""
		}
		if item {
			return "map schema as an item"
		}
		return "map schema on a non-map field"
	}
	if !item && (fd.IsList() || fd.IsMap()) {
		return "singular schema on a repeated / map field"
	}
	switch t := fs.(type) {
	case *j5schema.ScalarSchema:
		if t.WellKnownTypeName != "" {
			if fd.Kind() != protoreflect.MessageKind || fd.Message().FullName() != t.WellKnownTypeName {
				return fmt.Sprintf("well-known scalar %s on %s", t.WellKnownTypeName, fd.Kind())
			}
			return ""
		}
		if fd.Kind() != t.Kind {
			return fmt.Sprintf("scalar schema of kind %s on a %s field", t.Kind, fd.Kind())
		}
		return ""
	case *j5schema.EnumField:
		if fd.Kind() != protoreflect.EnumKind {
			return "enum schema on " + fd.Kind().String()
		}
		if _, ok := t.Ref.To.(*j5schema.EnumSchema); !ok {
			return fmt.Sprintf("enum field refers to %T", t.Ref.To)
		}
		return ""
	case *j5schema.ObjectField:
		if fd.Kind() != protoreflect.MessageKind {
			return "object schema on " + fd.Kind().String()
		}
		if _, ok := t.Ref.To.(*j5schema.ObjectSchema); !ok {
			return fmt.Sprintf("object field refers to %T", t.Ref.To)
		}
		return ""
	case *j5schema.OneofField:
		if fd.Kind() != protoreflect.MessageKind {
			return "oneof schema on " + fd.Kind().String()
		}
		if _, ok := t.Ref.To.(*j5schema.OneofSchema); !ok {
			return fmt.Sprintf("oneof field refers to %T", t.Ref.To)
		}
		return ""
	case *j5schema.AnyField:
		if fd.Kind() != protoreflect.MessageKind {
			return "any schema on " + fd.Kind().String()
		}
		switch fd.Message().FullName() {
		case "google.protobuf.Any", "j5.types.any.v1.Any":
			return ""
		}
		return "any schema on message " + string(fd.Message().FullName())
	}
	return fmt.Sprintf("unknown schema %T", fs)
}

// viol is one violated clause with what a known-finding signature may be bound to:
// Keys are the schema names (package/name) the failure involves (the schema being
// checked, the schemas its property refers to, the flattened schemas on the way);
// Kind says, for a duplicate name, which two properties carry it.
type viol struct {
	Text string
	Keys []string
	Kind string
}

func refKey(r *j5schema.RefSchema) string {
	if r == nil || r.Package == nil {
		return ""
	}
	return r.Package.Name + "/" + r.Schema
}

// refKeys: the schema names a field schema refers to (through array items and map values)
func refKeys(fs j5schema.FieldSchema) []string {
	switch t := fs.(type) {
	case *j5schema.ArrayField:
		return refKeys(t.Schema)
	case *j5schema.MapField:
		return refKeys(t.Schema)
	case *j5schema.EnumField:
		return []string{refKey(t.Ref)}
	case *j5schema.ObjectField:
		return []string{refKey(t.Ref)}
	case *j5schema.OneofField:
		return []string{refKey(t.Ref)}
	}
	return nil
}

// Duplicate property names have exactly two recorded causes. dupOneofVsField: the two
// properties with that name are an exposed oneof of the message (no proto field of its own,
// a real oneof of md carrying the schema name the property refers to) and a field of md.
// Anything else ("other") is not a known finding.
const (
	dupOneofVsField = "oneof-vs-field"
	dupFlatten      = "flatten"
	dupOther        = "other"
)

func ownDupKind(props []*j5schema.ObjectProperty, name string, md protoreflect.MessageDescriptor) string {
	var same []*j5schema.ObjectProperty
	for _, p := range props {
		if p.JSONName == name {
			same = append(same, p)
		}
	}
	if len(same) != 2 {
		return dupOther
	}
	var exposed, field *j5schema.ObjectProperty
	for _, p := range same {
		if _, isOneof := p.Schema.(*j5schema.OneofField); isOneof && len(p.ProtoField) == 0 {
			exposed = p
		} else if len(p.ProtoField) == 1 {
			field = p
		}
	}
	if exposed == nil || field == nil {
		return dupOther
	}
	if md != nil {
		if md.Fields().ByNumber(field.ProtoField[0]) == nil {
			return dupOther
		}
		want := refKey(exposed.Schema.(*j5schema.OneofField).Ref)
		found := false
		for i := 0; i < md.Oneofs().Len(); i++ {
			if o := md.Oneofs().Get(i); !o.IsSynthetic() && joinSplit(o) == want {
				found = true
			}
		}
		if !found {
			return dupOther
		}
	}
	return dupOneofVsField
}

// checkProps evaluates "every property's proto field path resolves to a field of
// the matching kind" and "property names are unique" for one property list.
// names=false leaves the names to the caller (client properties: checkClientNames).
func checkProps(what string, keys []string, props []*j5schema.ObjectProperty, md protoreflect.MessageDescriptor, names bool) []viol {
	var out []viol
	seen := map[string]int{}
	for _, p := range props {
		seen[p.JSONName]++
		if names && seen[p.JSONName] == 2 {
			out = append(out, viol{Text: fmt.Sprintf("names-unique: %s has two properties named %q", what, p.JSONName), Keys: keys, Kind: ownDupKind(props, p.JSONName, md)})
		}
		pkeys := append(append([]string{}, keys...), refKeys(p.Schema)...)
		if len(p.ProtoField) == 0 {
			of, ok := p.Schema.(*j5schema.OneofField)
			if !ok {
				out = append(out, viol{Text: fmt.Sprintf("path-resolves: %s.%s has no proto field and is not an exposed oneof", what, p.JSONName), Keys: pkeys})
				continue
			}
			os, ok := of.Ref.To.(*j5schema.OneofSchema)
			if !ok {
				out = append(out, viol{Text: fmt.Sprintf("path-resolves: %s.%s exposed oneof refers to %T", what, p.JSONName, of.Ref.To), Keys: pkeys})
				continue
			}
			out = append(out, checkProps(what+"."+p.JSONName, pkeys, os.Properties, md, true)...)
			continue
		}
		walk := md
		var fd protoreflect.FieldDescriptor
		bad := ""
		for i, n := range p.ProtoField {
			fd = walk.Fields().ByNumber(n)
			if fd == nil {
				bad = fmt.Sprintf("field %d not found in %s", n, walk.FullName())
				break
			}
			if i < len(p.ProtoField)-1 {
				if fd.Kind() != protoreflect.MessageKind || fd.IsList() || fd.IsMap() {
					bad = fmt.Sprintf("field %s is not a singular message but the path continues", fd.FullName())
					break
				}
				walk = fd.Message()
			}
		}
		if bad == "" {
			bad = fieldMatches(p.Schema, fd, false)
		}
		if bad != "" {
			out = append(out, viol{Text: fmt.Sprintf("path-resolves: %s.%s: %s", what, p.JSONName, bad), Keys: pkeys})
		}
	}
	return out
}

// cprop is one client property as the flatten expansion of the reader's own objects yields it:
// the flatten site is the proto path of the enclosing flattened fields ("" = the object itself).
type cprop struct {
	name  string
	site  string
	owner *j5schema.ObjectSchema
}

// expandClient re-derives the client properties of obj from the own property lists (what
// ObjectSchema.ClientProperties does), recording where each comes from. via collects the schema
// names of the flattened objects.
func expandClient(obj *j5schema.ObjectSchema, prefix string, depth int, via *[]string) []cprop {
	var out []cprop
	for _, p := range obj.Properties {
		if of, ok := p.Schema.(*j5schema.ObjectField); ok && of.Flatten && depth < 40 {
			*via = append(*via, refKey(of.Ref))
			if child, ok := of.Ref.To.(*j5schema.ObjectSchema); ok {
				out = append(out, expandClient(child, prefix+fmt.Sprint(p.ProtoField), depth+1, via)...)
				continue
			}
		}
		out = append(out, cprop{name: p.JSONName, site: prefix, owner: obj})
	}
	return out
}

// checkClientNames: duplicate names among the client properties, each with its cause.
// dupFlatten: the properties with that name come from different flatten sites, once per site
// (a flattened child against a sibling, or two flattened children): the recorded finding.
// A name twice within ONE site is that object's own duplicate (ownDupKind decides);
// a property list that is not the flatten expansion at all is dupOther.
func checkClientNames(what string, keys []string, obj *j5schema.ObjectSchema, props []*j5schema.ObjectProperty, md protoreflect.MessageDescriptor) ([]viol, []string) {
	var via []string
	exp := expandClient(obj, "", 0, &via)
	sameList := len(exp) == len(props)
	if sameList {
		for i := range exp {
			if exp[i].name != props[i].JSONName {
				sameList = false
			}
		}
	}
	var out []viol
	var explained []string
	count := map[string]int{}
	for _, p := range props {
		count[p.JSONName]++
		if count[p.JSONName] != 2 {
			continue
		}
		name := p.JSONName
		kind := dupOther
		if sameList {
			sites := map[string]int{}
			var owners []*j5schema.ObjectSchema
			for _, c := range exp {
				if c.name == name {
					sites[c.site]++
					if sites[c.site] == 2 {
						owners = append(owners, c.owner)
					}
				}
			}
			// a name twice at one site must be that object's exposed-oneof / field pair; the name at
			// several sites is the flatten finding (both can combine)
			ownOK := true
			for _, ow := range owners {
				var omd protoreflect.MessageDescriptor
				if ow == obj {
					omd = md
				}
				if ownDupKind(ow.Properties, name, omd) != dupOneofVsField {
					ownOK = false
				}
			}
			switch {
			case !ownOK:
				kind = dupOther
			case len(sites) >= 2:
				kind = dupFlatten
			case len(owners) == 1:
				kind = dupOneofVsField
			}
		}
		out = append(out, viol{Text: fmt.Sprintf("names-unique: %s has two properties named %q", what, name), Keys: append(append([]string{}, keys...), via...), Kind: kind})
		explained = append(explained, kind+":"+name)
	}
	return out, explained
}

func (o *Obs) addViol(vs []viol) {
	for _, v := range vs {
		o.Viol = append(o.Viol, v.Text)
		o.ViolKeys = append(o.ViolKeys, v.Keys)
		o.ViolKind = append(o.ViolKind, v.Kind)
	}
}

func checkRoot(ix *descIndex, pkg, name string, root j5schema.RootSchema) []viol {
	keys := []string{pkg + "/" + name}
	switch t := root.(type) {
	case *j5schema.ObjectSchema:
		mds := ix.byName[pkg+"/"+name]
		if len(mds) == 0 {
			return []viol{{Text: fmt.Sprintf("path-resolves: no message for object schema %s.%s", pkg, name), Keys: keys}}
		}
		best := []viol(nil)
		for i, md := range mds {
			v := checkProps(pkg+"."+name, keys, t.Properties, md, true)
			if i == 0 || len(v) < len(best) {
				best = v
			}
		}
		return best
	case *j5schema.OneofSchema:
		mds := append(append([]protoreflect.MessageDescriptor{}, ix.byName[pkg+"/"+name]...), ix.byName["oneof:"+pkg+"/"+name]...)
		if len(mds) == 0 {
			return []viol{{Text: fmt.Sprintf("path-resolves: no message for oneof schema %s.%s", pkg, name), Keys: keys}}
		}
		best := []viol(nil)
		for i, md := range mds {
			v := checkProps(pkg+"."+name, keys, t.Properties, md, true)
			if i == 0 || len(v) < len(best) {
				best = v
			}
		}
		return best
	}
	return nil
}

func checkSet(ix *descIndex, ss *j5schema.SchemaSet) []viol {
	var viol []viol
	var pkgs []string
	for n := range ss.Packages {
		pkgs = append(pkgs, n)
	}
	sort.Strings(pkgs)
	for _, pn := range pkgs {
		pkg := ss.Packages[pn]
		var names []string
		for n := range pkg.Schemas {
			names = append(names, n)
		}
		sort.Strings(names)
		for _, n := range names {
			ref := pkg.Schemas[n]
			if ref.To == nil {
				viol = append(viol, viol0(fmt.Sprintf("unlinked: %s.%s has no schema after a successful build", pn, n), pn+"/"+n))
				continue
			}
			viol = append(viol, checkRoot(ix, pn, n, ref.To)...)
		}
	}
	return viol
}

func viol0(text string, keys ...string) viol { return viol{Text: text, Keys: keys} }

func short(s string) string {
	if len(s) > 300 {
		return s[:300]
	}
	return s
}

func workC18(req *Request, set []byte) {
	var files *protoregistry.Files
	linkClass, linkMsg, linkSite := guard(func() error {
		var err error
		files, err = linkFor(req, set)
		return err
	})
	if linkClass != "ok" {
		emit("begin", req.ID, "link")
		o := Obs{Step: "link", Class: linkClass, Msg: linkMsg, Site: linkSite}
		b, _ := jsonMarshal(o)
		emit("obs", req.ID, b)
		return
	}
	ix := indexFiles(files)

	var msgs []protoreflect.MessageDescriptor
	for _, p := range req.GenPaths {
		fd, err := files.FindFileByPath(p)
		if err != nil {
			continue
		}
		msgs = append(msgs, descgen.AllMessages(fd)...)
	}

	// ---- SchemaSetFromFiles, one included file at a time (deterministic order)
	for _, p := range req.GenPaths {
		path := p
		step(req, "set|"+path, func(o *Obs) {
			ss, err := j5schema.SchemaSetFromFiles(files, func(f protoreflect.FileDescriptor) bool { return f.Path() == path })
			if err != nil {
				o.Class, o.Msg = "err", short(err.Error())
				return
			}
			term, terr := descgen.SetTerm(ss)
			if terr != nil {
				o.Extra = "dump: " + terr.Error()
			}
			o.Term = term
			o.addViol(checkSet(ix, ss))
		})
	}

	if req.SetOnly {
		return
	}
	// ---- per message: a fresh cache, then reflector + codec
	freshTerm := map[string]string{} // message -> the fresh cache's answer as a term
	for _, md := range msgs {
		md := md
		full := string(md.FullName())
		var root j5schema.RootSchema
		step(req, "msg|"+full, func(o *Obs) {
			r, err := j5schema.NewSchemaCache().Schema(md)
			if err != nil {
				o.Class, o.Msg = "err", short(err.Error())
				return
			}
			root = r
			term, terr := descgen.InternalRootTerm(r)
			if terr != nil {
				o.Extra = "dump: " + terr.Error()
			}
			o.Term = term
			freshTerm[full] = term
			pkg, path := string(md.ParentFile().Package()), strings.SplitN(joinSplit(md), "/", 2)[1]
			o.addViol(checkRoot(ix, pkg, path, r))
		})
		if req.dead("msg|" + full) {
			continue // building this schema kills the process: nothing further to try on it
		}
		if req.skip("msg|" + full) {
			// retry after a crash in a later step: rebuild quietly
			func() {
				defer func() { _ = recover() }()
				root, _ = j5schema.NewSchemaCache().Schema(md)
			}()
		}
		if root == nil {
			continue
		}
		if obj, ok := root.(*j5schema.ObjectSchema); ok {
			step(req, "client|"+full, func(o *Obs) {
				props := obj.ClientProperties()
				rootKey := joinSplit(md)
				nameViol, _ := checkClientNames("client:"+full, []string{rootKey}, obj, props, md)
				var via []string
				expandClient(obj, "", 0, &via)
				o.addViol(nameViol)
				o.addViol(checkProps("client:"+full, append([]string{rootKey}, via...), props, md, false))
				// the two flags as the model defines them: duplicate names among the client
				// properties; any other violation (paths, kinds, members of exposed oneofs)
				dup, unres := "nodup", "resolved"
				seen := map[string]bool{}
				for _, p := range props {
					if seen[p.JSONName] {
						dup = "dup"
					}
					seen[p.JSONName] = true
				}
				for _, v := range o.Viol {
					if strings.HasPrefix(v, "path-resolves") || (strings.HasPrefix(v, "names-unique") && !strings.HasPrefix(v, "names-unique: client:"+full+" has")) {
						unres = "unresolved"
					}
				}
				own := "own-unique"
				seenOwn := map[string]bool{}
				for _, p := range obj.Properties {
					if seenOwn[p.JSONName] {
						own = "own-dup"
					}
					seenOwn[p.JSONName] = true
				}
				o.Sub = []string{dup, unres, own}
				var pt []string
				for _, p := range props {
					var nums []string
					for _, n := range p.ProtoField {
						nums = append(nums, fmt.Sprintf("%d", n))
					}
					pt = append(pt, fmt.Sprintf("(%s, [%s])", descgen.Str(p.JSONName), strings.Join(nums, "; ")))
				}
				o.Term = "[" + strings.Join(pt, "; ") + "]"
			})
		}
		step(req, "newroot|"+full, func(o *Obs) {
			r, err := j5reflect.New().NewRoot(dynamicpb.NewMessage(md))
			if err != nil {
				o.Class, o.Msg = "err", short(err.Error())
				return
			}
			if r == nil {
				o.Class = "nilnil"
			}
		})
		step(req, "codec|"+full, func(o *Obs) {
			c := j5codec.NewCodec(j5codec.WithProtoToAny())
			// duplicate property names of this type with their cause ("flatten:id", "oneof-vs-field:fooBar"):
			// what a "field ... is already set" decode failure may be attributed to
			switch rt := root.(type) {
			case *j5schema.ObjectSchema:
				func() {
					defer func() { _ = recover() }()
					_, o.Names = checkClientNames("", nil, rt, rt.ClientProperties(), md)
				}()
			case *j5schema.OneofSchema:
				cnt := map[string]int{}
				for _, p := range rt.Properties {
					cnt[p.JSONName]++
					if cnt[p.JSONName] == 2 {
						o.Names = append(o.Names, ownDupKind(rt.Properties, p.JSONName, nil)+":"+p.JSONName)
					}
				}
			}
			sub := func(f func() error) {
				class, msg, site := guard(f)
				o.Sub = append(o.Sub, class)
				if site != "" {
					msg = msg + " @" + site
				}
				o.SubMsg = append(o.SubMsg, short(msg))
			}
			var jsE, jsP []byte
			sub(func() error {
				var err error
				jsE, err = c.ProtoToJSON(dynamicpb.NewMessage(md))
				return err
			})
			if o.Sub[0] == "ok" {
				sub(func() error { return c.JSONToProto(jsE, dynamicpb.NewMessage(md)) })
			} else {
				o.Sub, o.SubMsg = append(o.Sub, "skip"), append(o.SubMsg, "")
			}
			// populated: every field set (nested messages left empty); one variant per
			// member of the largest oneof so that every field is exercised. The worst
			// class over the variants is reported.
			_, single := root.(*j5schema.OneofSchema)
			nv := descgen.Variants(md, single)
			encP, decP, encM, decM := "ok", "skip", "", ""
			rank := map[string]int{"skip": -1, "ok": 0, "err": 1, "panic": 2}
			for v := 0; v < nv; v++ {
				pop := descgen.Populate(md, 0, v, single)
				class, msg, site := guard(func() error {
					var err error
					jsP, err = c.ProtoToJSON(pop)
					return err
				})
				if site != "" {
					msg += " @" + site
				}
				if rank[class] > rank[encP] {
					encP, encM = class, msg
					o.Extra = short(prototext.MarshalOptions{Multiline: false}.Format(pop))
				}
				if class != "ok" {
					continue
				}
				class, msg, site = guard(func() error { return c.JSONToProto(jsP, dynamicpb.NewMessage(md)) })
				if site != "" {
					msg += " @" + site
				}
				if rank[class] > rank[decP] {
					decP, decM = class, msg
					if class != "ok" {
						o.Extra = short(string(jsP))
					}
				}
			}
			o.Sub = append(o.Sub, encP, decP)
			o.SubMsg = append(o.SubMsg, short(encM), short(decM))
			// one message per client property with only the field on its proto path set: the
			// worst encode class is what the model's per-property usability predicts
			fieldClass, fieldMsg := "ok", ""
			var paths [][]protoreflect.FieldNumber
			var names []string
			addProps := func(ps []*j5schema.ObjectProperty) {
				for _, p := range ps {
					if len(p.ProtoField) > 0 {
						paths = append(paths, p.ProtoField)
						names = append(names, p.JSONName)
					} else if of, ok := p.Schema.(*j5schema.OneofField); ok {
						if os, ok := of.Ref.To.(*j5schema.OneofSchema); ok {
							for _, q := range os.Properties {
								if len(q.ProtoField) > 0 {
									paths = append(paths, q.ProtoField)
									names = append(names, p.JSONName+"."+q.JSONName)
								}
							}
						}
					}
				}
			}
			switch rt := root.(type) {
			case *j5schema.ObjectSchema:
				addProps(rt.ClientProperties())
			case *j5schema.OneofSchema:
				addProps(rt.Properties)
			}
			for i, path := range paths {
				one := descgen.PopulatePath(md, path)
				class, msg, site := guard(func() error {
					_, err := c.ProtoToJSON(one)
					return err
				})
				if site != "" {
					msg += " @" + site
				}
				if rank[class] > rank[fieldClass] {
					fieldClass, fieldMsg = class, names[i]+": "+msg
				}
			}
			o.Sub = append(o.Sub, fieldClass)
			o.SubMsg = append(o.SubMsg, short(fieldMsg))
		})
	}

	// ---- history: one shared cache, every message in a seeded order; a failed
	// build must not change a later answer
	step(req, "hist", func(o *Obs) {
		r := vh.NewRand(req.HistSeed)
		order := make([]protoreflect.MessageDescriptor, len(msgs))
		copy(order, msgs)
		for i := len(order) - 1; i > 0; i-- {
			j := r.Intn(i + 1)
			order[i], order[j] = order[j], order[i]
		}
		cache := j5schema.NewSchemaCache()
		for _, md := range order {
			md := md
			var got j5schema.RootSchema
			class, msg, site := guard(func() error {
				var err error
				got, err = cache.Schema(md)
				return err
			})
			if site != "" {
				msg = msg + " @" + site
			}
			// cache transparency of values: the shared cache's answer against the fresh cache's
			same := "na"
			if ft, ok := freshTerm[string(md.FullName())]; ok && class == "ok" && got != nil && ft != "" {
				if t, terr := descgen.InternalRootTerm(got); terr == nil {
					if t == ft {
						same = "same"
					} else {
						same = "diff"
					}
				}
			}
			// the collision error of RefSchema.claim is the innermost cause: drop the "properties of X: field:"
			// wrappers in front of it so that the truncation below cannot cut it off
			if i := strings.Index(msg, "schema name "); i > 0 && strings.Contains(msg[i:], "is used by both") {
				msg = msg[i:]
			}
			o.Names = append(o.Names, string(md.FullName()))
			o.Sub = append(o.Sub, class)
			o.Same = append(o.Same, same)
			o.SubMsg = append(o.SubMsg, short(msg))
		}
	})
}

package main

import (
	"encoding/base64"
	"fmt"
	"regexp"
	"sort"
	"strings"
	"time"

	"verifharness/descgen"
	"verifharness/vh"
)

func init() { vh.Register("C15", runC15) }

var reVersion = regexp.MustCompile(`^v[0-9]+$`)

// imagePackage is the package name structure.APIFromImage files a proto package under
// (everything up to and including the version part).
func imagePackage(pkg string) string {
	parts := strings.Split(pkg, ".")
	for i, p := range parts {
		if reVersion.MatchString(p) {
			return strings.Join(parts[:i+1], ".")
		}
	}
	return pkg
}

func runC15(cfg *vh.Config) error {
	res := vh.NewResult("C15", cfg.Seed)
	res.Rule = "generated proto3 descriptor sets using the J5-supported subset (1-3 files, sub-packages, cross-package references, self / mutual recursion, nested messages and enums, enums referenced only from fields, exposed oneofs and oneof wrappers, maps, arrays, every rule / list-rule / ext annotation the reader understands, enum info fields and option info, entities, any membership, comments) plus a share of descriptor sets with unsupported or inconsistent features (reflection errors); SourceImage -> structure.APIFromImage -> PackageSetFromSourceAPI -> ToJ5Root; non-trivial = distinct descriptor set whose export succeeds with at least one schema"
	deps, err := descgen.DepFiles()
	if err != nil {
		return err
	}
	n := cfg.Scale(420, 3000)
	r := cfg.R
	distinct := vh.Distinct{}

	type c15case struct {
		id       int
		c        *descgen.Case
		term     string
		svcs     string
		req      *Request
		collides bool
	}
	var cases []*c15case
	invalid := 0
	for len(cases) < n && invalid < 10*n+100 {
		prof := descgen.Profile{MaxFiles: 3, Supported: true, Comments: r.Chance(40), CrossPkg: len(cases)%3 == 1, OddPkg: len(cases)%13 == 4}
		if len(cases)%4 == 2 {
			prof.Services = 70
		}
		if len(cases)%8 == 7 {
			prof.Supported, prof.Wild = false, 5
		}
		switch len(cases) {
		case 2, 10, 18, 26, 34:
			// crafted split-name collisions (variants 1..5): either the reflection fails (nothing to
			// round-trip) or the type-confused schemas must still survive the round trip
			prof.Collide = 1 + len(cases)/8
		}
		c := descgen.Generate(r.Fork(fmt.Sprintf("c15-%d-%d", len(cases), invalid)), prof, deps)
		if len(cases)%8 == 5 {
			// a valid j5s package compiled by the real compiler (the C02 generator)
			jc, jerr := descgen.GenerateJ5S(r.Fork(fmt.Sprintf("c15-j5s-%d-%d", len(cases), invalid)), len(cases)%16 == 5)
			if jerr != nil {
				invalid++
				res.Count("j5s-package-not-compiled")
				continue
			}
			c = jc
			prof.CrossPkg = false
		}
		files, b, lerr := descgen.Link(c.Set())
		if lerr != nil {
			invalid++
			res.Count("generated-set-rejected-by-protodesc")
			continue
		}
		term, terr := descgen.DescTerm(files, c.GenPaths())
		if terr != nil {
			return terr
		}
		svcTerm, nsvc := descgen.ServicesTerm(files)
		if nsvc > 0 {
			c.Tags["image-with-services-or-topics"]++
			c.Tags["services-and-topics"] += nsvc
		}
		pkgSeen := map[string]bool{}
		var allPkgs []string
		for _, f := range c.Gen {
			p := imagePackage(f.GetPackage())
			if !pkgSeen[p] {
				pkgSeen[p] = true
				allPkgs = append(allPkgs, p)
			}
		}
		sort.Strings(allPkgs)
		// the image lists some of the packages; the others (and their sub-packages) are
		// reached only through references: "indirect" packages of the API
		pkgs := allPkgs
		first := imagePackage(c.Gen[0].GetPackage())
		if prof.CrossPkg && len(allPkgs) > 1 && r.Chance(70) {
			// list everything but the package of the first file: it (often a sub-package) is then
			// reached only through references from the listed ones
			pkgs = nil
			for _, p := range allPkgs {
				if p != first {
					pkgs = append(pkgs, p)
				}
			}
			c.Tags["image-with-unlisted-packages"]++
			if c.Gen[0].GetPackage() != first {
				c.Tags["unlisted-sub-package-first"]++
			}
		} else if len(allPkgs) > 1 && r.Chance(60) {
			pkgs = nil
			for _, p := range allPkgs {
				if r.Chance(50) {
					pkgs = append(pkgs, p)
				}
			}
			if len(pkgs) == 0 {
				pkgs = allPkgs[:1]
			}
			if len(pkgs) < len(allPkgs) {
				c.Tags["image-with-unlisted-packages"]++
			}
		}
		// the files APIFromImage's selector includes: package name has a listed prefix
		var included []string
		for _, f := range c.Gen {
			for _, p := range pkgs {
				if strings.HasPrefix(f.GetPackage(), p) {
					included = append(included, f.GetName())
					break
				}
			}
		}
		id := len(cases)
		cases = append(cases, &c15case{id: id, c: c, term: term, svcs: svcTerm, collides: splitCollision(files), req: &Request{
			ID: id, Prop: "C15", SetB64: base64.StdEncoding.EncodeToString(b), GenPaths: included, Packages: pkgs,
		}})
		for t, k := range c.Tags {
			res.Distribution["feature:"+t] += k
		}
	}
	if len(cases) < n {
		return fmt.Errorf("generator: only %d of %d descriptor sets linked", len(cases), n)
	}

	pool := &Pool{n: poolSize(), Deadline: 60 * time.Second}
	var reqs []*Request
	for _, c := range cases {
		reqs = append(reqs, c.req)
	}
	obs := pool.RunAll(reqs)
	res.Distribution["worker-restarts"] = pool.Restarts

	cf := &vh.CasesFile{
		Header: "From Coq Require Import String List NArith ZArith.\nFrom J5V.model Require Import ReflectDesc ReflectSchema ExportForm ExportApi ExportCorr.",
		Type:   "c15case",
		Check:  "c15_check",
	}
	evals := 0
	for _, c := range cases {
		input := map[string]any{"files": c.c.GenPaths(), "packages": c.req.Packages, "seed": cfg.Seed, "case": c.id, "generated_files_base64": genOnlyB64(c.c)}
		if c.collides {
			res.Count("case-with-split-name-collision")
		}
		ce, ci := 7, 7
		first, second := "[]", "[]"
		for _, o := range obs[c.id] {
			evals++
			res.Count("step:" + o.Step + ":" + o.Class)
			fail := func(sig, clause, got string) {
				in := map[string]any{}
				for k, v := range input {
					in[k] = v
				}
				in["step"] = o.Step
				res.Fail(vh.Failure{Case: c.id, Stream: o.Step, Sig: sig, Clause: clause, Input: in, Got: got})
			}
			bad := o.Class == "panic" || o.Class == "fatal" || o.Class == "timeout"
			switch o.Step {
			case "worker", "spawn":
				return fmt.Errorf("case %d: %s: %s %s", c.id, o.Step, o.Class, o.Msg)
			case "export":
				ce = classN[o.Class]
				if o.Class == "err" {
					m := normMsg(o.Msg)
					if i := strings.LastIndex(m, ": "); i >= 0 {
						m = m[i+2:]
					}
					res.Count("export-error: " + m)
				}
				if bad {
					fail(fmt.Sprintf("C15 APIFromImage -> %s in %s: %s", o.Class, o.Site, normMsg(o.Msg)), "exporting the reflected schemas", o.Msg)
				}
				if o.Class == "ok" {
					first = o.Term
					if o.Count > 0 {
						distinct.Add(c.term)
					}
					if o.Extra != "" {
						return fmt.Errorf("case %d: %s", c.id, o.Extra)
					}
				}
			case "exportloss":
				if bad {
					fail(fmt.Sprintf("C15 SchemaSetFromFiles / ToJ5Root -> %s in %s: %s", o.Class, o.Site, normMsg(o.Msg)), "exporting the reflected schemas", o.Msg)
				}
				for _, v := range o.Viol {
					if rest, ok := strings.CutPrefix(v, "export-coverage: "); ok {
						what, _, _ := strings.Cut(rest, " | ")
						fail("C15 the export carries a field the model of the source form does not cover: "+what, "nothing is lost in the round trip (every exported field must be part of the checked form)", v)
						continue
					}
					fail("C15 the export of a reflected schema differs from the schema object (member lost or changed by ToJ5Root / ToJ5Field)", "no rule, enum option info, entity marker, any-membership or list rule is lost", v)
				}
			case "import":
				ci = classN[o.Class]
				if bad {
					fail(fmt.Sprintf("C15 PackageSetFromSourceAPI -> %s in %s: %s", o.Class, o.Site, normMsg(o.Msg)), "rebuilding a schema set from the exported form", o.Msg)
				} else if o.Class == "err" {
					fail("C15 PackageSetFromSourceAPI rejects the export of reflected schemas: "+normMsg(o.Msg), "rebuilding a schema set from the exported form yields schemas", o.Msg)
				}
			case "reexport":
				if bad {
					fail(fmt.Sprintf("C15 ToJ5Root of an imported schema -> %s in %s: %s", o.Class, o.Site, normMsg(o.Msg)), "export again", o.Msg)
					break
				}
				second = o.Term
				for _, v := range o.Viol {
					kind, rest, _ := strings.Cut(v, ": ")
					switch kind {
					case "differs":
						what, _, _ := strings.Cut(rest, " | ")
						fail("C15 second export differs: "+what, "the rebuilt schemas export to exactly the same form again; no rule, enum option info, entity marker, any-membership or list rule is lost", rest)
					case "unresolved":
						fail("C15 unresolved reference after the import", "with every reference resolved", rest)
					default:
						fail("C15 second export "+kind, "the rebuilt schemas export to exactly the same form again", rest)
					}
				}
			}
		}
		cf.Terms = append(cf.Terms, fmt.Sprintf("C15Case\n  %s\n  %s\n  %s\n  %d %s\n  %d %s", c.term, c.svcs, listStr(c.req.Packages), ce, first, ci, second))
		res.Cases = append(res.Cases, vh.CaseRec{Case: c.id, Stream: "roundtrip", Input: input, Impl: summarize(obs[c.id])})
		if c.id < 3 {
			res.Sample(map[string]any{"files": c.c.GenPaths(), "features": c.c.Tags, "observed": summarize(obs[c.id])}, 3)
		}
	}
	res.Evaluations = evals
	res.Distinct = len(distinct)
	const per = 60
	shards, err := cf.WriteShards(cfg.Out, "cases", per)
	if err != nil {
		return err
	}
	for i := range res.Cases {
		res.Cases[i].Shard = fmt.Sprintf("cases_%d", i/per)
		res.Cases[i].Pos = i % per
	}
	res.Shards = shards
	return res.Write(cfg.Out)
}

func listStr(ss []string) string {
	var it []string
	for _, s := range ss {
		it = append(it, descgen.Str(s))
	}
	return "[" + strings.Join(it, "; ") + "]"
}

package main

import (
	"encoding/base64"
	"encoding/json"
	"fmt"
	"os"
	"regexp"
	"runtime"
	"sort"
	"strconv"
	"strings"
	"time"

	"google.golang.org/protobuf/proto"
	"google.golang.org/protobuf/reflect/protoreflect"
	"google.golang.org/protobuf/reflect/protoregistry"
	"google.golang.org/protobuf/types/descriptorpb"
	"verifharness/descgen"
	"verifharness/vh"
)

func init() { vh.Register("C18", runC18) }

func jsonMarshal(v any) (string, error) {
	b, err := json.Marshal(v)
	return string(b), err
}

func poolSize() int {
	n := runtime.NumCPU()
	if j, err := strconv.Atoi(os.Getenv("VERIF_JOBS")); err == nil && j > 0 {
		n = j
	}
	if n > 8 {
		n = 8
	}
	if n < 1 {
		n = 1
	}
	return n
}

var classN = map[string]int{"ok": 0, "err": 1, "panic": 2, "fatal": 3, "timeout": 3, "nilnil": 6, "skip": 7}

var reNum = regexp.MustCompile(`[0-9]+`)
var reQuoted = regexp.MustCompile(`"[^"]*"`)
var reAddr = regexp.MustCompile(`0x[0-9a-f]+`)

// normMsg strips the input-specific parts of an error / panic text so that it can serve in a signature.
func normMsg(s string) string {
	// protobuf-go deliberately varies "proto: " / "proto:\u00a0" between builds
	s = strings.ReplaceAll(s, "\u00a0", " ")
	s = reAddr.ReplaceAllString(s, "0x?")
	s = reQuoted.ReplaceAllString(s, `"?"`)
	// names of generated things
	s = regexp.MustCompile(`gen\.[a-z]\.v[0-9](\.sub)?\.[A-Za-z0-9_.]+`).ReplaceAllString(s, "<name>")
	s = regexp.MustCompile(`gen\.[a-z]\.v[0-9](\.sub)?`).ReplaceAllString(s, "<pkg>")
	if i := strings.Index(s, "values of type google.protobuf.Duration are not supported"); i >= 0 {
		return "values of type google.protobuf.Duration are not supported"
	}
	s = regexp.MustCompile(`field [A-Za-z0-9_.]+: `).ReplaceAllString(s, "field <path>: ")
	s = regexp.MustCompile(`field [A-Za-z0-9_]+ is already set`).ReplaceAllString(s, "field <name> is already set")
	s = reNum.ReplaceAllString(s, "N")
	if len(s) > 160 {
		s = s[:160]
	}
	return s
}

// collisionKeys: the schema names (package/names joined with "_") that two different
// messages / enums / real oneofs of the linked set share, each with the descriptors sharing it.
func collisionKeys(files *protoregistry.Files) map[string][]string {
	seen := map[string][]string{}
	add := func(key, full string) {
		for _, f := range seen[key] {
			if f == full {
				return
			}
		}
		seen[key] = append(seen[key], full)
	}
	files.RangeFiles(func(fd protoreflect.FileDescriptor) bool {
		if strings.HasPrefix(string(fd.Package()), "google.") || strings.HasPrefix(string(fd.Package()), "buf.") {
			return true
		}
		for _, m := range descgen.AllMessages(fd) {
			add(joinSplit(m), "message "+string(m.FullName()))
			for i := 0; i < m.Oneofs().Len(); i++ {
				if o := m.Oneofs().Get(i); !o.IsSynthetic() {
					add(joinSplit(o), "oneof "+string(o.FullName()))
				}
			}
		}
		for _, e := range descgen.AllEnums(fd) {
			add(joinSplit(e), "enum "+string(e.FullName()))
		}
		return true
	})
	out := map[string][]string{}
	for k, v := range seen {
		if len(v) > 1 {
			sort.Strings(v)
			out[k] = v
		}
	}
	return out
}

// reachKeys: the schema names reflecting md builds or looks up: md itself, its real oneofs, and
// the enums / messages its fields refer to, transitively.
func reachKeys(md protoreflect.MessageDescriptor, into map[string]bool, visited map[protoreflect.FullName]bool) {
	if visited[md.FullName()] {
		return
	}
	visited[md.FullName()] = true
	into[joinSplit(md)] = true
	for i := 0; i < md.Oneofs().Len(); i++ {
		if o := md.Oneofs().Get(i); !o.IsSynthetic() {
			into[joinSplit(o)] = true
		}
	}
	for i := 0; i < md.Fields().Len(); i++ {
		fd := md.Fields().Get(i)
		if fd.IsMap() {
			fd = fd.MapValue()
		}
		if e := fd.Enum(); e != nil {
			into[joinSplit(e)] = true
		}
		if m := fd.Message(); m != nil && !strings.HasPrefix(string(m.FullName()), "google.protobuf.") {
			reachKeys(m, into, visited)
		}
	}
}

// collisionScope answers, for one case, which colliding schema names a step can be affected by.
type collisionScope struct {
	files *protoregistry.Files
	coll  map[string][]string
	memo  map[string][]string
}

func newCollisionScope(files *protoregistry.Files) *collisionScope {
	return &collisionScope{files: files, coll: collisionKeys(files), memo: map[string][]string{}}
}

// among: the colliding names among keys
func (cs *collisionScope) among(keys []string) []string {
	var out []string
	for _, k := range keys {
		if _, ok := cs.coll[k]; ok {
			out = append(out, k)
		}
	}
	return out
}

// ofMessage: the colliding names reachable from the message
func (cs *collisionScope) ofMessage(full string) []string {
	if len(cs.coll) == 0 {
		return nil
	}
	if v, ok := cs.memo["m:"+full]; ok {
		return v
	}
	var out []string
	if d, err := cs.files.FindDescriptorByName(protoreflect.FullName(full)); err == nil {
		if md, ok := d.(protoreflect.MessageDescriptor); ok {
			into := map[string]bool{}
			reachKeys(md, into, map[protoreflect.FullName]bool{})
			for k := range into {
				if _, ok := cs.coll[k]; ok {
					out = append(out, k)
				}
			}
		}
	}
	sort.Strings(out)
	cs.memo["m:"+full] = out
	return out
}

// ofFile: the colliding names reachable from the messages and enums of the file
func (cs *collisionScope) ofFile(path string) []string {
	if len(cs.coll) == 0 {
		return nil
	}
	fd, err := cs.files.FindFileByPath(path)
	if err != nil {
		return nil
	}
	set := map[string]bool{}
	for _, m := range descgen.AllMessages(fd) {
		for _, k := range cs.ofMessage(string(m.FullName())) {
			set[k] = true
		}
	}
	for _, e := range descgen.AllEnums(fd) {
		if _, ok := cs.coll[joinSplit(e)]; ok {
			set[joinSplit(e)] = true
		}
	}
	var out []string
	for k := range set {
		out = append(out, k)
	}
	sort.Strings(out)
	return out
}

// splitCollision reports whether two different messages / enums / real oneofs of the
// linked set get the same schema name (package, names joined with "_").
func splitCollision(files *protoregistry.Files) bool { return len(collisionKeys(files)) > 0 }

// Known-finding signatures of this family are CONDITIONAL: each is given to a failure only when
// the descriptor shows that failure to be an instance of the recorded defect (the colliding names,
// the flatten site, the exposed oneof are derived per failure); the same symptom anywhere else
// keeps its own specific signature and is reported as a new violation.

// the two properties with one name are exactly an exposed oneof and a field of the same message
const sigOwnDup = "C18 reflected object / oneof has two properties with one name (JSON name of an exposed oneof equals the JSON name of a field)"

// the properties with one name come from different flatten levels of the object, once per level
const sigFlattenDup = "C18 client properties of a reflected object have one JSON name twice: properties of different flatten levels (a flattened child against a sibling or another flattened child)"

// decode of the codec's own output fails on the repeated key, the key being such a duplicate name
const sigDecodeFlattenDup = "C18 codec decode populated of a reflected type -> err: field is already set, the field being a JSON name that two flatten levels of the object share"
const sigDecodeOneofDup = "C18 codec decode populated of a reflected type -> err: field is already set, the field being the JSON name shared by an exposed oneof and a field"

// What is left of the split-name collision finding since fix 0e6056c (a schema name asked for by a second
// descriptor is an error, never the schema of the first): on a SHARED cache the descriptor asked second
// fails while a fresh cache answers it. Given only when (i) the fresh cache answers, (ii) the shared cache
// returns the collision error of RefSchema.claim, (iii) the message reaches a name two descriptors of
// that file set share. Every other symptom on a colliding name (schema of another descriptor, codec
// failure, path that does not resolve, panic) is a NEW violation: that part is fixed.
const sigCollision = "C18 shared SchemaCache, two descriptors with the same split name (package, names joined by _): the one asked second is an error (schema name is used by both), a fresh cache answers it"

var reAlreadySet = regexp.MustCompile(`field ([A-Za-z0-9_]+) is already set`)

type c18case struct {
	id    int
	c     *descgen.Case
	term  string // Coq desc
	req   *Request
	files *protoregistry.Files
}

func runC18(cfg *vh.Config) error {
	res := vh.NewResult("C18", cfg.Seed)
	res.Rule = "generated proto3 descriptor sets (1-3 files; messages, nested messages and enums; every scalar kind incl. fixed32/64 and sfixed32/64; WKTs and unsupported google types; real, exposed, synthetic oneofs and automatic oneof wrappers; maps incl. non-string keys; repeated; self / mutual / cross-file recursion; (buf.validate.field), (j5.list.v1.field), (j5.ext.v1.field|key|message|psm|oneof|enum|enum_value) in consistent and inconsistent combinations), linked FileDescriptorSet -> protodesc.NewFiles; non-trivial = distinct descriptor set with at least one message field or annotation"
	deps, err := descgen.DepFiles()
	if err != nil {
		return err
	}
	n := cfg.Scale(420, 3000)
	r := cfg.R
	distinct := vh.Distinct{}

	var cases []*c18case
	invalid := 0
	for len(cases) < n && invalid < 10*n+100 {
		prof := descgen.Profile{MaxFiles: 3}
		switch k := len(cases) % 10; {
		case k < 4:
			prof.Supported = true
		case k < 8:
			prof.Wild = 6
		default:
			prof.Wild = 25
		}
		prof.Comments = r.Chance(25)
		switch len(cases) {
		case 1:
			prof.Collide = 1
		case 2:
			prof.Collide = 2
		case 12:
			prof.Collide = 3
		case 22:
			prof.Collide = 4
		case 32:
			prof.Collide = 1 + r.Intn(5)
		case 42:
			prof.Collide = 5
		}
		prof.Clash = len(cases) == 4 || len(cases) == 14
		switch len(cases) {
		case 6:
			prof.FlatCycle = 2
		case 16:
			prof.FlatCycle = 3
		case 26:
			prof.FlatCycle = -2
		case 36:
			prof.FlatCycle = 1
		case 8:
			prof.FlatDeep = 3
		case 18:
			prof.FlatDeep = 4
		case 28:
			prof.FlatDeep = 5
		case 9:
			prof.FlatClash = 1
		case 19:
			prof.FlatClash = 2
		case 29:
			prof.FlatClash = 3
		case 39:
			prof.FlatClash = 4
		}
		c := descgen.Generate(r.Fork(fmt.Sprintf("case%d-%d", len(cases), invalid)), prof, deps)
		if len(cases)%10 == 3 {
			// a valid j5s package compiled by the real compiler (the C02 generator)
			jc, jerr := descgen.GenerateJ5S(r.Fork(fmt.Sprintf("j5s-%d-%d", len(cases), invalid)), len(cases)%20 == 13)
			if jerr != nil {
				invalid++
				res.Count("j5s-package-not-compiled")
				continue
			}
			c = jc
		}
		files, b, lerr := descgen.Link(c.Set())
		if lerr != nil {
			invalid++
			res.Count("generated-set-rejected-by-protodesc")
			if invalid <= 3 {
				res.Notes = append(res.Notes, "rejected by protodesc: "+short(lerr.Error()))
			}
			continue
		}
		term, terr := descgen.DescTerm(files, c.GenPaths())
		if terr != nil {
			return terr
		}
		id := len(cases)
		cases = append(cases, &c18case{id: id, c: c, term: term, files: files, req: &Request{
			ID: id, Prop: "C18", SetB64: base64.StdEncoding.EncodeToString(b), GenPaths: c.GenPaths(), HistSeed: r.U64(),
		}})
		distinct.Add(term)
		for t, k := range c.Tags {
			res.Distribution["feature:"+t] += k
		}
	}
	if len(cases) < n {
		return fmt.Errorf("generator: only %d of %d descriptor sets linked", len(cases), n)
	}

	pool := &Pool{n: poolSize(), Deadline: 60 * time.Second}
	var reqs []*Request
	for _, c := range cases {
		reqs = append(reqs, c.req)
	}
	obs := pool.RunAll(reqs)
	res.Distribution["worker-restarts"] = pool.Restarts

	// ---- observation only (DESIGN section 10, #23): the same sets linked so that option extension
	// values are dynamicpb messages (what a compiler library hands out before any re-marshal). This
	// entry point is outside C18 as checked here: the repository itself re-marshals such descriptors
	// before they reach the reader (internal/protosrc/compiler.go addFile, "we need them to be the
	// implemented Go type for proto.GetExtension to not panic"), and the abstract descriptors of the
	// model carry typed option trees. The classes are recorded as evidence, never as failures.
	var dyn []*Request
	for i, c := range cases {
		if i >= cfg.Scale(24, 200) {
			break
		}
		dyn = append(dyn, &Request{ID: c.id, Prop: "C18", SetB64: c.req.SetB64, GenPaths: c.req.GenPaths, Dynamic: true, SetOnly: true})
	}
	for _, os := range pool.RunAll(dyn) {
		for _, o := range os {
			if strings.HasPrefix(o.Step, "set|") {
				res.Count("observation-only:dynamic-extension-values:" + o.Class)
				if o.Class == "panic" && len(res.Notes) < 6 {
					res.Notes = append(res.Notes, "dynamic extension values (outside the property, see notes/schb.md #23): "+o.Site+": "+short(o.Msg))
				}
			}
		}
	}

	cf := &vh.CasesFile{
		Header: "From Coq Require Import String List NArith ZArith.\nFrom J5V.model Require Import ReflectDesc ReflectSchema ReflectCorr.",
		Type:   "c18case",
		Check:  "c18_check",
	}
	evals := 0
	for _, c := range cases {
		os := obs[c.id]
		var terms []string
		input := map[string]any{"files": c.c.GenPaths(), "seed": cfg.Seed, "case": c.id, "generated_files_base64": genOnlyB64(c.c)}
		fresh := map[string]string{} // msg -> fresh-cache class
		freshEnc := map[string]string{}
		scope := newCollisionScope(c.files)
		if len(scope.coll) > 0 {
			res.Count("case-with-split-name-collision")
		}
		for _, o := range os {
			evals++
			kind, arg, _ := strings.Cut(o.Step, "|")
			res.Count("step:" + kind + ":" + o.Class)
			// the colliding schema names this step can meet: those reachable from its message
			// (file); a violation of one schema / property narrows that to the names it involves
			var stepKeys []string
			switch kind {
			case "set":
				stepKeys = scope.ofFile(arg)
			case "msg", "client", "newroot", "codec":
				stepKeys = scope.ofMessage(arg)
			}
			failK := func(keys []string, sig, clause, got string) {
				in := map[string]any{}
				for k, v := range input {
					in[k] = v
				}
				in["step"] = o.Step
				if len(keys) > 0 && sig == sigCollision {
					var parties []string
					for _, k := range keys {
						parties = append(parties, k+" = "+strings.Join(scope.coll[k], " / "))
					}
					got = got + " | colliding: " + strings.Join(parties, "; ")
				}
				res.Fail(vh.Failure{Case: c.id, Stream: kind, Sig: sig, Clause: clause, Input: in, Got: got})
			}
			fail := func(sig, clause, got string) { failK(stepKeys, sig, clause, got) }
			// violation i of the step: bound to the schema names it involves
			violKeys := func(i int) []string {
				if i < len(o.ViolKeys) {
					return scope.among(o.ViolKeys[i])
				}
				return nil
			}
			violKind := func(i int) string {
				if i < len(o.ViolKind) {
					return o.ViolKind[i]
				}
				return ""
			}
			bad := o.Class == "panic" || o.Class == "fatal" || o.Class == "timeout"
			switch kind {
			case "link", "spawn":
				return fmt.Errorf("case %d: %s: %s %s", c.id, o.Step, o.Class, o.Msg)
			case "worker":
				fail("C18 worker process died outside a step", "never panics or recurses forever", o.Msg)
			case "set":
				if bad {
					// a reader panic is never part of the name-collision finding (fixed by 32db692; C18_reflect_total)
					failK(nil, fmt.Sprintf("C18 SchemaSetFromFiles -> %s in %s: %s", o.Class, o.Site, normMsg(o.Msg)), "building J5 schemas returns a schema set or an error; it never panics or recurses forever", o.Msg)
				}
				for i, v := range o.Viol {
					clause, _, _ := strings.Cut(v, ":")
					if clause == "names-unique" && violKind(i) == dupOneofVsField {
						failK(nil, sigOwnDup, "property names are unique within each object", v)
						continue
					}
					failK(violKeys(i), "C18 SchemaSetFromFiles ok but "+clause+": "+normMsg(v), "on success every property's proto field path resolves to a field of the matching kind and names are unique", v)
				}
				set := "[]"
				if o.Class == "ok" {
					set = o.Term
				}
				terms = append(terms, fmt.Sprintf("OSet %s %d %v %s", descgen.Str(arg), classN[o.Class], len(o.Viol) == 0, set))
			case "msg":
				fresh[arg] = o.Class
				if bad {
					failK(nil, fmt.Sprintf("C18 SchemaCache.Schema -> %s in %s: %s", o.Class, o.Site, normMsg(o.Msg)), "building J5 schemas returns a schema set or an error; it never panics or recurses forever", o.Msg)
				}
				for i, v := range o.Viol {
					clause, _, _ := strings.Cut(v, ":")
					if clause == "names-unique" && violKind(i) == dupOneofVsField {
						failK(nil, sigOwnDup, "property names are unique within each object", v)
						continue
					}
					failK(violKeys(i), "C18 SchemaCache.Schema ok but "+clause+": "+normMsg(v), "on success every property's proto field path resolves to a field of the matching kind and names are unique", v)
				}
				root := "None"
				if o.Class == "ok" {
					root = "(Some (" + o.Term + "))"
				}
				terms = append(terms, fmt.Sprintf("OMsg %s %d %v %s", descgen.Str(arg), classN[o.Class], len(o.Viol) == 0, root))
			case "client":
				if bad {
					fail(fmt.Sprintf("C18 ClientProperties of a reflected object -> %s in %s: %s", o.Class, o.Site, normMsg(o.Msg)), "never panics or recurses forever, including on self- and mutually-recursive messages", o.Msg)
				}
				ownDup := len(o.Sub) == 3 && o.Sub[2] == "own-dup"
				for i, v := range o.Viol {
					clause, _, _ := strings.Cut(v, ":")
					if clause == "names-unique" {
						switch violKind(i) {
						case dupFlatten:
							failK(nil, sigFlattenDup, "property names are unique within each object", v)
							continue
						case dupOneofVsField:
							if ownDup {
								continue // the object's own duplicate: reported by its msg / set step
							}
							// the duplicate of a flattened child, seen through the flattening
							failK(nil, sigOwnDup, "property names are unique within each object", v)
							continue
						}
					}
					failK(violKeys(i), "C18 client properties "+clause+": "+normMsg(v), "on success every property's proto field path resolves to a field of the matching kind and names are unique", v)
				}
				dup, unres := false, false
				if len(o.Sub) >= 2 {
					dup, unres = o.Sub[0] == "dup", o.Sub[1] == "unresolved"
				}
				paths := o.Term
				if paths == "" {
					paths = "[]"
				}
				terms = append(terms, fmt.Sprintf("OClient %s %d %v %v %s", descgen.Str(arg), classN[o.Class], dup, unres, paths))
			case "newroot":
				if bad {
					fail(fmt.Sprintf("C18 Reflector.NewRoot -> %s in %s: %s", o.Class, o.Site, normMsg(o.Msg)), "never panics", o.Msg)
				}
				if o.Class == "nilnil" {
					fail("C18 Reflector.NewRoot returns (nil, nil) when the schema cannot be built", "building J5 schemas returns a schema set or an error", "nil root and nil error")
				}
			case "codec":
				if bad {
					fail(fmt.Sprintf("C18 codec on a reflected type -> %s: %s", o.Class, normMsg(o.Msg)), "the codec can encode and decode an empty and a populated message of every reflected type", o.Msg)
					terms = append(terms, fmt.Sprintf("OCodec %s %d %d", descgen.Str(arg), classN[o.Class], classN[o.Class]))
					break
				}
				names := []string{"encode empty", "decode empty", "encode populated", "decode populated", "encode single-field"}
				for i, s := range o.Sub {
					if s != "ok" && s != "skip" {
						m := o.SubMsg[i]
						if i == 4 { // "<field>: <text>"
							_, m, _ = strings.Cut(m, ": ")
						}
						sig := fmt.Sprintf("C18 codec %s of a reflected type -> %s: %s", names[i], s, normMsg(m))
						if mm := reAlreadySet.FindStringSubmatch(m); i == 3 && s == "err" && mm != nil {
							// the repeated key must be one of the duplicate names of THIS type, with its cause
							for _, n := range o.Names {
								switch n {
								case dupFlatten + ":" + mm[1]:
									sig = sigDecodeFlattenDup
								case dupOneofVsField + ":" + mm[1]:
									sig = sigDecodeOneofDup
								}
							}
						}
						fail(sig, "the codec can encode and decode an empty and a populated message of every reflected type", o.SubMsg[i]+" input="+o.Extra)
					}
				}
				if len(o.Sub) == 5 {
					freshEnc[arg] = o.Sub[2]
					terms = append(terms, fmt.Sprintf("OCodec %s %d %d", descgen.Str(arg), classN[o.Sub[0]], classN[o.Sub[4]]))
				}
			case "hist":
				if bad {
					fail(fmt.Sprintf("C18 shared SchemaCache sequence -> %s", o.Class), "never panics", o.Msg)
					break
				}
				for i, s := range o.Sub {
					hk := scope.ofMessage(o.Names[i])
					if s == "panic" {
						failK(nil, fmt.Sprintf("C18 SchemaCache.Schema after an earlier failed build on the same cache -> panic: %s", normMsg(o.SubMsg[i])), "building J5 schemas returns a schema set or an error; it never panics", fmt.Sprintf("order=%v at %s: %s", o.Names, o.Names[i], o.SubMsg[i]))
					} else if f, ok := fresh[o.Names[i]]; ok && f == "ok" && s == "err" && len(hk) > 0 && strings.Contains(o.SubMsg[i], "is used by both") {
						failK(hk, sigCollision, "the answer does not depend on earlier calls", fmt.Sprintf("order=%v at %s: %s", o.Names, o.Names[i], o.SubMsg[i]))
					} else if f, ok := fresh[o.Names[i]]; ok && f != s && (f == "ok" || s == "ok") {
						failK(hk, fmt.Sprintf("C18 SchemaCache.Schema answer depends on earlier failed builds: fresh %s, shared %s: %s", f, s, normMsg(o.SubMsg[i])), "a failed build leaves no half-built entry that changes a later answer", fmt.Sprintf("order=%v at %s: %s", o.Names, o.Names[i], o.SubMsg[i]))
					}
				}
				var hs []string
				for i, s := range o.Sub {
					same := i >= len(o.Same) || o.Same[i] != "diff"
					if !same {
						failK(scope.ofMessage(o.Names[i]), "C18 SchemaCache.Schema answer of a cache with a history is another schema than the fresh cache's (fresh ok, shared ok, schemas differ)", "the answer does not depend on earlier calls", fmt.Sprintf("order=%v at %s", o.Names, o.Names[i]))
					}
					hs = append(hs, fmt.Sprintf("(%s, %d, %v)", descgen.Str(o.Names[i]), classN[s], same))
				}
				terms = append(terms, "OHist ["+strings.Join(hs, "; ")+"]")
			}
		}
		cf.Terms = append(cf.Terms, fmt.Sprintf("C18Case\n  %s\n  [%s]", c.term, strings.Join(terms, ";\n   ")))
		res.Cases = append(res.Cases, vh.CaseRec{Case: c.id, Stream: "reflect", Input: input, Impl: summarize(os)})
		if c.id < 3 {
			res.Sample(map[string]any{"files": c.c.GenPaths(), "features": c.c.Tags, "observed": summarize(os)}, 3)
		}
	}

	res.Evaluations = evals
	res.Distinct = len(distinct)
	const per = 60
	shards, err := cf.WriteShards(cfg.Out, "cases", per)
	if err != nil {
		return err
	}
	for i := range res.Cases {
		res.Cases[i].Shard = fmt.Sprintf("cases_%d", i/per)
		res.Cases[i].Pos = i % per
	}
	res.Shards = shards
	return res.Write(cfg.Out)
}

// genOnlyB64 is the FileDescriptorSet of the generated files alone (their imports are
// descgen.DepPaths, taken from the Go registry).
func genOnlyB64(c *descgen.Case) string {
	b, err := proto.MarshalOptions{Deterministic: true}.Marshal(&descriptorpb.FileDescriptorSet{File: c.Gen})
	if err != nil {
		return ""
	}
	return base64.StdEncoding.EncodeToString(b)
}

func summarize(os []Obs) []string {
	var out []string
	for _, o := range os {
		s := o.Step + "=" + o.Class
		if len(o.Sub) > 0 {
			s += "[" + strings.Join(o.Sub, ",") + "]"
		}
		out = append(out, s)
	}
	sort.Strings(out)
	if len(out) > 40 {
		out = out[:40]
	}
	return out
}

package main

// `run_schb replay <replay.json> [step-substring]`: runs the worker-side steps of one C18 / C15
// failing input (the generated files of the replay plus the fixed dependency files) in this
// process and prints the observations, so that a reported input can be looked at directly.

import (
	"bufio"
	"encoding/base64"
	"encoding/json"
	"fmt"
	"os"

	"google.golang.org/protobuf/proto"
	"google.golang.org/protobuf/types/descriptorpb"
	"verifharness/descgen"
)

func replayMain(args []string) {
	if len(args) < 1 {
		fmt.Fprintln(os.Stderr, "usage: run_schb replay <replay.json> [step-substring]")
		os.Exit(2)
	}
	raw, err := os.ReadFile(args[0])
	if err != nil {
		fmt.Fprintln(os.Stderr, err)
		os.Exit(2)
	}
	var rp struct {
		Property string `json:"property"`
		Input    struct {
			Gen      string   `json:"generated_files_base64"`
			Packages []string `json:"packages"`
		} `json:"input"`
	}
	if err := json.Unmarshal(raw, &rp); err != nil || rp.Input.Gen == "" {
		fmt.Fprintln(os.Stderr, "not a replay file with input.generated_files_base64:", err)
		os.Exit(2)
	}
	gb, _ := base64.StdEncoding.DecodeString(rp.Input.Gen)
	gen := &descriptorpb.FileDescriptorSet{}
	if err := proto.Unmarshal(gb, gen); err != nil {
		fmt.Fprintln(os.Stderr, err)
		os.Exit(2)
	}
	deps, err := descgen.DepFiles()
	if err != nil {
		fmt.Fprintln(os.Stderr, err)
		os.Exit(2)
	}
	set := &descriptorpb.FileDescriptorSet{File: append(append([]*descriptorpb.FileDescriptorProto{}, deps...), gen.File...)}
	b, _ := proto.MarshalOptions{Deterministic: true}.Marshal(set)
	req := &Request{ID: 0, Prop: rp.Property, SetB64: base64.StdEncoding.EncodeToString(b), Packages: rp.Input.Packages, HistSeed: 1}
	for _, f := range gen.File {
		req.GenPaths = append(req.GenPaths, f.GetName())
	}
	wout = bufio.NewWriterSize(os.Stdout, 1<<20)
	switch rp.Property {
	case "C15":
		workC15(req, b)
	default:
		workC18(req, b)
	}
	wout.Flush()
}

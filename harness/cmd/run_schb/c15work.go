package main

func workC15(req *Request, set []byte) {}

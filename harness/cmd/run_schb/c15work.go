package main

// Child-side work for C15: export of the reflected schemas to the source-API
// form (structure.APIFromImage), re-import (j5schema.PackageSetFromSourceAPI),
// export again, compare.

import (
	"fmt"
	"regexp"
	"sort"
	"strings"

	"github.com/pentops/j5/gen/j5/schema/v1/schema_j5pb"
	"github.com/pentops/j5/gen/j5/source/v1/source_j5pb"
	"github.com/pentops/j5/lib/j5schema"
	shim "github.com/pentops/j5/lib/verifshim/schb"
	"google.golang.org/protobuf/encoding/prototext"
	"google.golang.org/protobuf/proto"
	"google.golang.org/protobuf/reflect/protoreflect"
	"google.golang.org/protobuf/types/descriptorpb"
	"verifharness/descgen"
)

// flatten the API's package / sub-package schema maps: "pkg" or "pkg.sub" -> name -> root
func apiSchemas(api *source_j5pb.API) map[string]map[string]*schema_j5pb.RootSchema {
	out := map[string]map[string]*schema_j5pb.RootSchema{}
	for _, p := range api.Packages {
		if len(p.Schemas) > 0 {
			out[p.Name] = p.Schemas
		}
		for _, sp := range p.SubPackages {
			if len(sp.Schemas) > 0 {
				out[p.Name+"."+sp.Name] = sp.Schemas
			}
		}
	}
	return out
}

func exportTerm(m map[string]map[string]*schema_j5pb.RootSchema) (string, error) {
	var pkgs []string
	for p := range m {
		pkgs = append(pkgs, p)
	}
	sort.Strings(pkgs)
	var it []string
	for _, p := range pkgs {
		var names []string
		for n := range m[p] {
			names = append(names, n)
		}
		sort.Strings(names)
		for _, n := range names {
			t, err := descgen.RootTerm(m[p][n])
			if err != nil {
				return "", fmt.Errorf("%s.%s: %w", p, n, err)
			}
			it = append(it, fmt.Sprintf("((%s, %s), %s)", descgen.Str(p), descgen.Str(n), t))
		}
	}
	return "[" + strings.Join(it, ";\n    ") + "]", nil
}

// lostFields names the top-level differences between two exported roots (for the signature)
func lostFields(a, b proto.Message, prefix string, out *[]string, depth int) {
	if depth > 6 || len(*out) > 8 {
		return
	}
	am, bm := a.ProtoReflect(), b.ProtoReflect()
	fds := am.Descriptor().Fields()
	for i := 0; i < fds.Len(); i++ {
		fd := fds.Get(i)
		ha, hb := am.Has(fd), bm.Has(fd)
		name := prefix + string(am.Descriptor().Name()) + "." + string(fd.Name())
		switch {
		case ha && !hb:
			*out = append(*out, name+" lost")
		case !ha && hb:
			*out = append(*out, name+" appeared")
		case ha && hb:
			if fd.Message() != nil && !fd.IsList() && !fd.IsMap() {
				if !proto.Equal(am.Get(fd).Message().Interface(), bm.Get(fd).Message().Interface()) {
					lostFields(am.Get(fd).Message().Interface(), bm.Get(fd).Message().Interface(), "", out, depth+1)
				}
			} else if fd.IsList() && fd.Message() != nil {
				la, lb := am.Get(fd).List(), bm.Get(fd).List()
				if la.Len() != lb.Len() {
					*out = append(*out, name+" length changed")
				} else {
					for k := 0; k < la.Len(); k++ {
						if !proto.Equal(la.Get(k).Message().Interface(), lb.Get(k).Message().Interface()) {
							lostFields(la.Get(k).Message().Interface(), lb.Get(k).Message().Interface(), "", out, depth+1)
							break
						}
					}
				}
			} else if !am.Get(fd).Equal(bm.Get(fd)) {
				*out = append(*out, name+" changed")
			}
		}
	}
}

func workC15(req *Request, set []byte) {
	fds := &descriptorpb.FileDescriptorSet{}
	if err := proto.Unmarshal(set, fds); err != nil {
		return
	}
	image := &source_j5pb.SourceImage{File: fds.File}
	for _, p := range req.Packages {
		image.Packages = append(image.Packages, &source_j5pb.PackageInfo{Name: p})
	}
	var api *source_j5pb.API
	var first map[string]map[string]*schema_j5pb.RootSchema
	step(req, "export", func(o *Obs) {
		a, err := shim.APIFromImage(image)
		if err != nil {
			o.Class, o.Msg = "err", short(err.Error())
			return
		}
		api = a
		first = apiSchemas(a)
		t, terr := descgen.APITerm(a)
		if terr != nil {
			o.Extra = "dump: " + terr.Error()
		}
		o.Term = t
		n := 0
		for _, m := range first {
			n += len(m)
		}
		o.Count = n
	})
	// the export loses nothing of the reflected schema objects but Kind / WellKnownTypeName of scalars:
	// the reader's own objects, dumped member by member, against the dump of their ToJ5Root()
	step(req, "exportloss", func(o *Obs) {
		files, err := descgen.LinkBytes(set)
		if err != nil {
			return
		}
		ss, err := j5schema.SchemaSetFromFiles(files, func(f protoreflect.FileDescriptor) bool {
			for _, p := range req.Packages {
				if strings.HasPrefix(string(f.Package()), p) {
					return true
				}
			}
			return false
		})
		if err != nil {
			o.Class, o.Msg = "err", short(err.Error())
			return
		}
		for _, pkg := range ss.Packages {
			for name, ref := range pkg.Schemas {
				if ref.To == nil {
					continue
				}
				exported := ref.To.ToJ5Root()
				for _, c := range descgen.ExportCoverage(exported) {
					o.Viol = append(o.Viol, fmt.Sprintf("export-coverage: %s | %s.%s", c, pkg.Name, name))
				}
				a, err1 := descgen.InternalRootTerm(ref.To)
				b, err2 := descgen.RootTermAsReflected(exported)
				if err1 != nil || err2 != nil {
					o.Viol = append(o.Viol, fmt.Sprintf("dump: %s.%s: %v %v", pkg.Name, name, err1, err2))
					continue
				}
				a = reScalarKW.ReplaceAllString(a, "(FScalar None")
				if a != b {
					o.Viol = append(o.Viol, fmt.Sprintf("exportloss: %s.%s reflected=%s exported=%s", pkg.Name, name, short(firstDiff(a, b)), short(firstDiff(b, a))))
				}
			}
		}
		sort.Strings(o.Viol)
	})
	if req.skip("export") || api == nil {
		return
	}
	var ss *j5schema.SchemaSet
	step(req, "import", func(o *Obs) {
		s, err := j5schema.PackageSetFromSourceAPI(api.Packages)
		if err != nil {
			o.Class, o.Msg = "err", short(err.Error())
			return
		}
		ss = s
	})
	if ss == nil {
		return
	}
	step(req, "reexport", func(o *Obs) {
		second := map[string]map[string]*schema_j5pb.RootSchema{}
		for _, pkg := range ss.Packages {
			for name, ref := range pkg.Schemas {
				if ref.To == nil {
					o.Viol = append(o.Viol, fmt.Sprintf("unresolved: %s.%s has no schema after the import", pkg.Name, name))
					continue
				}
				if second[pkg.Name] == nil {
					second[pkg.Name] = map[string]*schema_j5pb.RootSchema{}
				}
				second[pkg.Name][name] = ref.To.ToJ5Root()
			}
		}
		t, terr := exportTerm(second)
		if terr != nil {
			o.Extra = "dump: " + terr.Error()
		}
		o.Term = t
		// every reference resolved
		for _, pkg := range ss.Packages {
			for name, ref := range pkg.Schemas {
				if ref.To == nil {
					continue
				}
				var props j5schema.PropertySet
				switch rt := ref.To.(type) {
				case *j5schema.ObjectSchema:
					props = rt.Properties
				case *j5schema.OneofSchema:
					props = rt.Properties
				}
				var walk func(fs j5schema.FieldSchema, where string)
				walk = func(fs j5schema.FieldSchema, where string) {
					var r *j5schema.RefSchema
					switch ft := fs.(type) {
					case *j5schema.ObjectField:
						r = ft.Ref
					case *j5schema.OneofField:
						r = ft.Ref
					case *j5schema.EnumField:
						r = ft.Ref
					case *j5schema.ArrayField:
						walk(ft.Schema, where)
					case *j5schema.MapField:
						walk(ft.Schema, where)
					}
					if r != nil && r.To == nil {
						o.Viol = append(o.Viol, fmt.Sprintf("unresolved: %s refers to %s which has no schema", where, r.FullName()))
					}
				}
				for _, p := range props {
					walk(p.Schema, pkg.Name+"."+name+"."+p.JSONName)
				}
			}
		}
		// exactly the same form again
		for p, m := range first {
			for n, r1 := range m {
				r2 := second[p][n]
				if r2 == nil {
					o.Viol = append(o.Viol, fmt.Sprintf("missing: %s.%s is not in the second export", p, n))
					continue
				}
				if !proto.Equal(r1, r2) {
					var lost []string
					lostFields(r1, r2, "", &lost, 0)
					sort.Strings(lost)
					o.Viol = append(o.Viol, fmt.Sprintf("differs: %s | %s.%s first=%s second=%s", strings.Join(uniq(lost), ", "), p, n,
						short(prototext.MarshalOptions{Multiline: false}.Format(r1)), short(prototext.MarshalOptions{Multiline: false}.Format(r2))))
				}
			}
		}
		for p, m := range second {
			for n := range m {
				if first[p][n] == nil {
					o.Viol = append(o.Viol, fmt.Sprintf("extra: %s.%s only in the second export", p, n))
				}
			}
		}
		sort.Strings(o.Viol)
	})
	_ = protoreflect.FullName("")
}

var reScalarKW = regexp.MustCompile(`\(FScalar \(Some \([A-Za-z0-9]+, \[[0-9;]*\]\)\)`)

// firstDiff returns a window of a around the first position where a and b differ.
func firstDiff(a, b string) string {
	i := 0
	for i < len(a) && i < len(b) && a[i] == b[i] {
		i++
	}
	lo := i - 60
	if lo < 0 {
		lo = 0
	}
	hi := i + 120
	if hi > len(a) {
		hi = len(a)
	}
	return a[lo:hi]
}

func uniq(xs []string) []string {
	var out []string
	for i, x := range xs {
		if i == 0 || xs[i-1] != x {
			out = append(out, x)
		}
	}
	return out
}

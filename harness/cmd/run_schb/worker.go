package main

// Crash isolation. The real reader / codec run in child processes
// (`run_schb worker`): a message flattening its own type kills the process with
// "fatal error: stack overflow", which recover() cannot catch. The child writes
// `begin <id> <step>` before every step and `obs <id> <json>` after it; a child
// that dies (or exceeds the per-request deadline) is attributed to the step in
// flight, recorded as fatal / timeout, and the request is re-sent to a fresh
// child with that step skipped.

import (
	"bufio"
	"encoding/base64"
	"encoding/json"
	"fmt"
	"io"
	"os"
	"os/exec"
	"runtime/debug"
	"strings"
	"sync"
	"time"
)

// Request is one descriptor set plus what to do with it.
type Request struct {
	ID       int      `json:"id"`
	Prop     string   `json:"prop"`
	SetB64   string   `json:"set"`
	GenPaths []string `json:"gen"`
	Packages []string `json:"packages,omitempty"` // C15: image packages
	HistSeed uint64   `json:"hist_seed"`
	Dynamic  bool     `json:"dynamic,omitempty"` // C18 sub-stream: link with dynamic extension values
	SetOnly  bool     `json:"set_only,omitempty"`
	Skip     []string `json:"skip,omitempty"`
	Dead     []string `json:"dead,omitempty"` // steps during which an earlier child died
}

// Obs is the observed behaviour of one step.
type Obs struct {
	Step     string     `json:"step"`           // "set|<file>", "msg|<full>", "client|<full>", "codec|<full>", "hist", ...
	Class    string     `json:"class"`          // ok | err | panic | fatal | timeout | nilnil
	Msg      string     `json:"msg,omitempty"`  // error / panic text
	Site     string     `json:"site,omitempty"` // first pentops/j5 frame of a panic
	Term     string     `json:"term,omitempty"` // Coq term of the result
	Sub      []string   `json:"sub,omitempty"`  // sub-classes (codec: encE decE encP decP; hist: per message)
	SubMsg   []string   `json:"submsg,omitempty"`
	Viol     []string   `json:"viol,omitempty"`     // property clauses found violated by the worker-side oracle
	ViolKeys [][]string `json:"violkeys,omitempty"` // per violation: the schema names (package/name) it involves
	ViolKind []string   `json:"violkind,omitempty"` // per violation: for a duplicate name, its cause (c18work.go dup*)
	Names    []string   `json:"names,omitempty"`    // hist: message order
	Same     []string   `json:"same,omitempty"`     // hist: per message "same" / "diff" (Ok answer vs the fresh cache's Ok answer) / "na"
	Extra    string     `json:"extra,omitempty"`
	Count    int        `json:"count,omitempty"` // export: number of schemas in the API
}

func (r *Request) dead(step string) bool {
	for _, s := range r.Dead {
		if s == step {
			return true
		}
	}
	return false
}

func (r *Request) skip(step string) bool {
	for _, s := range r.Skip {
		if s == step {
			return true
		}
	}
	return false
}

// ---------------------------------------------------------------- child side

var wout *bufio.Writer

func emit(kind string, id int, payload string) {
	fmt.Fprintf(wout, "%s %d %s\n", kind, id, payload)
	wout.Flush()
}

// step runs f under recover with begin/obs markers.
func step(req *Request, name string, f func(o *Obs)) {
	if req.skip(name) {
		return
	}
	emit("begin", req.ID, name)
	o := &Obs{Step: name, Class: "ok"}
	func() {
		defer func() {
			if r := recover(); r != nil {
				o.Class = "panic"
				o.Msg = fmt.Sprint(r)
				o.Site = panicSite(string(debug.Stack()))
			}
		}()
		f(o)
	}()
	b, _ := json.Marshal(o)
	emit("obs", req.ID, string(b))
}

// guard runs f under recover and classifies.
func guard(f func() error) (class, msg, site string) {
	defer func() {
		if r := recover(); r != nil {
			class, msg, site = "panic", fmt.Sprint(r), panicSite(string(debug.Stack()))
		}
	}()
	if err := f(); err != nil {
		return "err", err.Error(), ""
	}
	return "ok", "", ""
}

// panicSite returns the first pentops/j5 function on the panicking stack.
func panicSite(stack string) string {
	lines := strings.Split(stack, "\n")
	seenPanic := false
	for _, l := range lines {
		if strings.HasPrefix(l, "panic(") {
			seenPanic = true
			continue
		}
		if !seenPanic {
			continue
		}
		if strings.HasPrefix(l, "github.com/pentops/j5/") {
			fn := strings.TrimPrefix(l, "github.com/pentops/j5/")
			if i := strings.LastIndex(fn, "("); i > 0 {
				fn = fn[:i]
			}
			return fn
		}
	}
	return "?"
}

func workerMain() {
	debug.SetMaxStack(48 << 20) // a runaway recursion dies quickly
	wout = bufio.NewWriterSize(os.Stdout, 1<<20)
	in := bufio.NewReaderSize(os.Stdin, 1<<20)
	for {
		line, err := in.ReadString('\n')
		if len(line) > 0 {
			var req Request
			if jerr := json.Unmarshal([]byte(line), &req); jerr != nil {
				fmt.Fprintf(os.Stderr, "worker: bad request: %v\n", jerr)
				os.Exit(2)
			}
			set, derr := base64.StdEncoding.DecodeString(req.SetB64)
			if derr != nil {
				os.Exit(2)
			}
			switch req.Prop {
			case "C18":
				workC18(&req, set)
			case "C15":
				workC15(&req, set)
			}
			emit("done", req.ID, "")
		}
		if err != nil {
			return
		}
	}
}

// ---------------------------------------------------------------- parent side

type child struct {
	cmd *exec.Cmd
	in  io.WriteCloser
	out *bufio.Reader
}

func startChild() (*child, error) {
	exe, err := os.Executable()
	if err != nil {
		return nil, err
	}
	cmd := exec.Command(exe, "worker")
	cmd.Stderr = io.Discard
	in, err := cmd.StdinPipe()
	if err != nil {
		return nil, err
	}
	out, err := cmd.StdoutPipe()
	if err != nil {
		return nil, err
	}
	if err := cmd.Start(); err != nil {
		return nil, err
	}
	return &child{cmd: cmd, in: in, out: bufio.NewReaderSize(out, 1<<20)}, nil
}

func (c *child) kill() {
	if c == nil {
		return
	}
	c.in.Close()
	_ = c.cmd.Process.Kill()
	_ = c.cmd.Wait()
}

// Pool runs requests on a fixed number of children.
type Pool struct {
	n        int
	Deadline time.Duration
	Restarts int
	mu       sync.Mutex
}

// RunAll executes every request and returns the observations per request id (in step order).
func (p *Pool) RunAll(reqs []*Request) map[int][]Obs {
	res := map[int][]Obs{}
	var mu sync.Mutex
	ch := make(chan *Request)
	var wg sync.WaitGroup
	for w := 0; w < p.n; w++ {
		wg.Add(1)
		go func() {
			defer wg.Done()
			var c *child
			defer func() { c.kill() }()
			for req := range ch {
				obs := p.runOne(&c, req)
				mu.Lock()
				res[req.ID] = obs
				mu.Unlock()
			}
		}()
	}
	for _, r := range reqs {
		ch <- r
	}
	close(ch)
	wg.Wait()
	return res
}

func (p *Pool) runOne(cp **child, req *Request) []Obs {
	var all []Obs
	for attempt := 0; attempt < 12; attempt++ {
		if *cp == nil {
			c, err := startChild()
			if err != nil {
				return append(all, Obs{Step: "spawn", Class: "fatal", Msg: err.Error()})
			}
			*cp = c
		}
		c := *cp
		b, _ := json.Marshal(req)
		if _, err := c.in.Write(append(b, '\n')); err != nil {
			c.kill()
			*cp = nil
			continue
		}
		inflight := ""
		done := false
		type lineT struct {
			s   string
			err error
		}
		lines := make(chan lineT, 64)
		go func() {
			for {
				s, err := c.out.ReadString('\n')
				lines <- lineT{s, err}
				if err != nil {
					return
				}
				if strings.HasPrefix(s, "done ") {
					return
				}
			}
		}()
		timer := time.NewTimer(p.Deadline)
		died, timedOut := false, false
	loop:
		for {
			select {
			case l := <-lines:
				if l.err != nil && l.s == "" {
					died = true
					break loop
				}
				parts := strings.SplitN(strings.TrimRight(l.s, "\n"), " ", 3)
				if len(parts) < 2 {
					continue
				}
				switch parts[0] {
				case "begin":
					if len(parts) == 3 {
						inflight = parts[2]
					}
				case "obs":
					var o Obs
					if len(parts) == 3 && json.Unmarshal([]byte(parts[2]), &o) == nil {
						all = append(all, o)
						inflight = ""
					}
				case "done":
					done = true
					break loop
				}
			case <-timer.C:
				timedOut = true
				break loop
			}
		}
		timer.Stop()
		if done {
			return all
		}
		// the child died or hung: attribute to the in-flight step, skip it next time
		c.kill()
		*cp = nil
		p.mu.Lock()
		p.Restarts++
		p.mu.Unlock()
		class := "fatal"
		if timedOut && !died {
			class = "timeout"
		}
		if inflight == "" {
			return append(all, Obs{Step: "worker", Class: class, Msg: "worker died outside a step"})
		}
		all = append(all, Obs{Step: inflight, Class: class, Msg: "worker process died during this step (not recoverable: stack overflow / runtime fatal error)"})
		req.Dead = append(req.Dead, inflight)
		done2 := map[string]bool{}
		for _, o := range all {
			done2[o.Step] = true
		}
		req.Skip = req.Skip[:0]
		for s := range done2 {
			req.Skip = append(req.Skip, s)
		}
	}
	return all
}

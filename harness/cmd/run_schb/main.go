// run_schb: implementation runner for the schema-reader family (C18, C15).
// `run_schb worker` is the crash-isolated child that runs the real code.
package main

import (
	"os"

	"verifharness/vh"
)

func main() {
	if len(os.Args) > 1 && os.Args[1] == "worker" {
		workerMain()
		return
	}
	if len(os.Args) > 1 && os.Args[1] == "replay" {
		replayMain(os.Args[2:])
		return
	}
	vh.Main()
}

// cov_cmpb: the walker crash stream under coverage instrumentation. run_cmpb builds this command with
// `go build -cover -coverpkg=<walker packages>` and runs it with GOCOVERDIR set on the inputs of the C07
// front-end stream; the counters it leaves behind say which functions of the unmodelled BCL walker the
// stream executed (the coverage obligation of coq/model/CmpbWalker.v).
package main

import (
	"encoding/json"
	"flag"
	"fmt"
	"os"

	"github.com/pentops/j5/lib/verifshim/cmpb"
)

func main() {
	in := flag.String("in", "", "JSON file: list of source texts")
	flag.Parse()
	b, err := os.ReadFile(*in)
	if err != nil {
		fmt.Fprintln(os.Stderr, err)
		os.Exit(2)
	}
	var texts []string
	if err := json.Unmarshal(b, &texts); err != nil {
		fmt.Fprintln(os.Stderr, err)
		os.Exit(2)
	}
	// silence the converter's log output
	if devnull, err := os.OpenFile(os.DevNull, os.O_WRONLY, 0); err == nil {
		os.Stdout = devnull
	}
	fe, err := cmpb.NewFrontEnd()
	if err != nil {
		fmt.Fprintln(os.Stderr, err)
		os.Exit(2)
	}
	panics := 0
	for _, t := range texts {
		out := fe.Parse("foo/v1/a.j5s", t)
		if out.Panic != nil {
			panics++
		}
	}
	fmt.Fprintf(os.Stderr, "cov_cmpb: %d inputs, %d panics\n", len(texts), panics)
}

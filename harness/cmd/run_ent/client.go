package main

import (
	"fmt"

	"github.com/pentops/j5/gen/j5/client/v1/client_j5pb"
	"github.com/pentops/j5/gen/j5/source/v1/source_j5pb"
	"github.com/pentops/j5/lib/verifshim/compile"
	"github.com/pentops/j5/lib/verifshim/tool"
	"google.golang.org/protobuf/reflect/protoreflect"
)

// clientEntities derives the client API with the real structure/j5client code
// (descriptors -> source API -> client API) and returns the package's state entities.
func clientEntities(pkg string, files []protoreflect.FileDescriptor) (ents []*client_j5pb.StateEntity, plain []*client_j5pb.Service, err error, panicked any) {
	defer func() {
		if r := recover(); r != nil {
			panicked = r
		}
	}()
	img := &source_j5pb.SourceImage{Packages: []*source_j5pb.PackageInfo{{Name: pkg}}}
	for _, f := range compile.WithDeps(files) {
		img.File = append(img.File, compile.ToProto(f))
	}
	src, err := tool.APIFromImage(img)
	if err != nil {
		return nil, nil, fmt.Errorf("APIFromImage: %w", err), nil
	}
	api, err := tool.APIFromSource(src)
	if err != nil {
		return nil, nil, fmt.Errorf("APIFromSource: %w", err), nil
	}
	for _, p := range api.Packages {
		if p.Name == pkg {
			ents = append(ents, p.StateEntities...)
			plain = append(plain, p.Services...)
		}
	}
	return ents, plain, nil, nil
}

// clientLines is the canonical form compared with coq/model/EntityCorr.v [client_lines].
func clientLines(ents []*client_j5pb.StateEntity) []line {
	var out []line
	for _, e := range ents {
		q := ""
		if e.QueryService != nil {
			q = e.QueryService.Name
		}
		out = append(out, line{Tag: 8, Strs: []string{e.Name, e.FullName, e.SchemaName, q}, Nums: []uint64{}})
		out = append(out, line{Tag: 9, Strs: append([]string{}, e.PrimaryKey...), Nums: []uint64{}})
		var cmds []string
		for _, c := range e.CommandServices {
			cmds = append(cmds, c.Name)
		}
		out = append(out, line{Tag: 10, Strs: append([]string{}, cmds...), Nums: []uint64{}})
		var evs []string
		for _, ev := range e.Events {
			evs = append(evs, ev.Name)
		}
		out = append(out, line{Tag: 11, Strs: append([]string{}, evs...), Nums: []uint64{}})
		if e.QueryService != nil {
			for _, m := range e.QueryService.Methods {
				out = append(out, line{Tag: 12, Strs: []string{m.Name, m.HttpPath}, Nums: []uint64{uint64(m.HttpMethod)}})
			}
		}
		for _, c := range e.CommandServices {
			for _, m := range c.Methods {
				out = append(out, line{Tag: 13, Strs: []string{c.Name, m.Name, m.HttpPath}, Nums: []uint64{uint64(m.HttpMethod)}})
			}
		}
	}
	return out
}

package main

import (
	"fmt"
	"strings"

	"verifharness/vh"
)

// ---- the abstract entity declaration (mirrors coq/model/Entity.v) ----------------

type uField struct {
	Name     string
	Key      bool // schema.key
	Primary  bool
	Tenant   *string
	KeyFmt   string // "", "id62", "uuid"
	J5Type   string // j5s type text for scalars ("string", "integer:INT32", ...)
	PType    int    // proto type number the scalar compiles to
	J5Kind   string // name of the (j5.ext.v1.field) alternative
	Required bool
	Bang     bool // print required as '!' / optional as '?' instead of an attribute
	Foreign  *[2]string // (package, entity) of a foreign key
	Optional bool
	Obj      string // <RefKind>:<Name> reference to a schema of the package ("" = not a reference)
	RefKind  string // "object" (default), "oneof", "enum"
	// SayFalse prints the boolean attributes that are off explicitly (`primary = false`,
	// `required = false`, `optional = false`): same declaration, different text
	SayFalse bool
	// Ext: a message type of another (always imported) package, given by its full name
	// (timestamp / date / decimal / any); J5Type is the j5s type word, J5Kind the field ext kind
	Ext string
	// Container: "" | "array" | "map": the rest of the struct describes the item / value type
	Container string
	// Inline: "" | "object" | "oneof" | "enum": an anonymous schema defined in the field itself
	// (`field x object { ... }`); InFields are its fields / options (simple types), InOptions the enum options
	Inline    string
	InFields  []uField
	InOptions []string
	// a text-only variation the compiler must ignore for the compared output: an explicit
	// `protoField = [n]` (numbering is positional: mapProperties)
	ProtoField int
	// the description: a leading comment of the proto field (compared: tag 14 lines); DescBlock
	// writes it as `| line` lines at the top of the body (the only form that can hold several lines)
	Desc      string
	DescBlock bool
}

type eSchema struct {
	Kind    int // 0 object, 1 oneof, 2 enum
	Name    string
	Fields  []uField // object fields / oneof options
	Options []string // enum options
	OptionNum []int  // the `number` an enum option declares (0 = none); ignored by the compiler (positional numbering)
	Desc       string   // description of the schema: leading comment of the message / enum
	OptionDesc []string // descriptions of the enum options (parallel to Options, may be shorter)
}

func (sc eSchema) coq() string {
	switch sc.Kind {
	case 1:
		return fmt.Sprintf("(SOneof %s %s)", bt(sc.Name), fieldsCoq(sc.Fields))
	case 2:
		return fmt.Sprintf("(SEnum %s %s)", bt(sc.Name), coqList(sc.Options, bt))
	}
	return fmt.Sprintf("(SObject %s %s)", bt(sc.Name), fieldsCoq(sc.Fields))
}

type eKey struct {
	uField
	Shard bool
}

// text-only variation: `shardKey = false` spelled out
func (k eKey) extraAttrs() []string {
	var out []string
	if k.Key && !k.Primary && k.Foreign == nil && k.SayFalse {
		// `primary` is an attribute of entity keys only
		out = append(out, "primary = false")
	}
	if k.Shard {
		out = append(out, "shardKey = true")
	} else if k.SayFalse {
		out = append(out, "shardKey = false")
	}
	return out
}

type eEvent struct {
	Name   string
	Fields []uField
	Desc   string // leading comment of the nested message <X>EventType.<Name>
}

type eMethod struct {
	Name     string
	Verb     int // client_j5pb.HTTPMethod
	Path     string
	Request    []uField
	Response   []uField
	NoResponse bool // no response block: google.api.HttpBody
	Desc       string // accepted, appears nowhere in the output (methodBuilder's comment set is never merged)
}

type eCommand struct {
	Name    *string
	Base    *string
	Methods []eMethod
	// Audience, when non-nil, gives the command its own options block (audience / default auth).
	// acceptCommands replaces the declared options by the state_command annotation.
	Audience    []string
	OptionsForm int // 0 block, 1 dotted attributes
	Desc        string // accepted, appears nowhere in the output
}

type eQuery struct {
	EventsInGet   bool
	DefaultStatus []string
	SayFalse      bool // `eventsInGet = false` spelled out
	// ListRequest: 0 none, 1 `listRequest {}`, 2 `eventsListRequest {}` (any value panics the
	// real compiler: cmpb's known C07 finding; outside C17's quantifier)
	ListRequest int
}

type eSummary struct {
	Name   string
	Fields []uField
	Desc   string // accepted, appears nowhere in the output
}

type entityDecl struct {
	Desc      string // `description = "..."` of the entity (not part of the compared output)
	Pkg       string
	Name      string
	BaseURL   string
	Keys      []eKey
	Data      []uField
	Status    []string
	StatusNum []int // the `number` a status declares (0 = none), parallel to Status (may be shorter)
	StatusDesc []string // the description of a status ("" = none), parallel to Status (may be shorter)
	Events    []eEvent
	Commands  []eCommand
	Summaries []eSummary
	Query     *eQuery
	Schemas   []eSchema // objects declared inside the entity block
	second    bool      // generated as the second entity of a file
}

// ---- Coq terms ---------------------------------------------------------------------

// bt renders a byte string as a Coq term of type [bytes]: `(bs "text")` for printable ASCII
// (parsing a string literal is an order of magnitude cheaper for coqc than a list of numerals),
// the list of byte values otherwise.
func bt(s string) string {
	if s == "" {
		return "[]"
	}
	for i := 0; i < len(s); i++ {
		if s[i] < 0x20 || s[i] > 0x7e || s[i] == '"' {
			return vh.BytesTerm(s)
		}
	}
	return "(bs \"" + s + "\")"
}

func optBytes(s *string) string {
	if s == nil {
		return "None"
	}
	return "(Some " + bt(*s) + ")"
}

// itemCoq is the ikind term of the item / value type of a container.
func (u uField) itemCoq() string {
	switch {
	case u.Obj != "":
		ctor := map[string]string{"": "IObject", "object": "IObject", "oneof": "IOneof", "enum": "IEnum"}[u.RefKind]
		return fmt.Sprintf("(%s %s)", ctor, bt(u.Obj))
	case u.Ext != "":
		return fmt.Sprintf("(IExt %s %s)", bt(u.Ext), bt(u.J5Kind))
	}
	return fmt.Sprintf("(IScalar %d %s)", u.PType, bt(u.J5Kind))
}

func (u uField) sfieldCoq() string {
	return fmt.Sprintf("(mkSF5 %s %s %s %s %s)", bt(u.Name), u.itemCoq(), vh.BoolTerm(u.Required), vh.BoolTerm(u.Optional), bt(u.Desc))
}

// isTree: an inline object / oneof one of whose fields is again an inline schema, an array or a map
func (u uField) isTree() bool {
	if u.Inline != "object" && u.Inline != "oneof" {
		return false
	}
	for _, f := range u.InFields {
		if f.Inline != "" || f.Container != "" {
			return true
		}
	}
	return false
}

var inlineKindCode = map[string]int{"object": 0, "oneof": 1, "enum": 2}
var containerCode = map[string]int{"": 0, "array": 1, "map": 2}

// tfieldCoq: a field of a tree-form inline schema (Entity.tfield)
func (u uField) tfieldCoq() string {
	kind := "(TK " + u.itemCoq() + ")"
	switch {
	case u.Inline != "":
		kind = fmt.Sprintf("(TKInline %d %d %s %s)", inlineKindCode[u.Inline], containerCode[u.Container], coqList(u.InFields, uField.tfieldCoq), coqList(u.InOptions, bt))
	case u.Container == "array":
		kind = "(TKArray " + u.itemCoq() + ")"
	case u.Container == "map":
		kind = "(TKMap " + u.itemCoq() + ")"
	}
	return fmt.Sprintf("(TF %s %s %s %s %s)", bt(u.Name), kind, vh.BoolTerm(u.Required), vh.BoolTerm(u.Optional), bt(u.Desc))
}

func (u uField) coq() string {
	kind := fmt.Sprintf("(KScalar %d %s)", u.PType, bt(u.J5Kind))
	if u.isTree() {
		kind = fmt.Sprintf("(KInlineTree %d %s)", inlineKindCode[u.Inline], coqList(u.InFields, uField.tfieldCoq))
	} else if u.Inline == "object" {
		kind = "(KInlineObject " + coqList(u.InFields, uField.sfieldCoq) + ")"
	} else if u.Inline == "oneof" {
		kind = "(KInlineOneof " + coqList(u.InFields, uField.sfieldCoq) + ")"
	} else if u.Inline == "enum" {
		kind = "(KInlineEnum " + coqList(u.InOptions, bt) + ")"
	} else if u.Container == "array" {
		kind = "(KArray " + u.itemCoq() + ")"
	} else if u.Container == "map" {
		kind = "(KMap " + u.itemCoq() + ")"
	} else if u.Ext != "" {
		kind = fmt.Sprintf("(KExt %s %s)", bt(u.Ext), bt(u.J5Kind))
	} else if u.Obj != "" {
		ctor := map[string]string{"": "KObject", "object": "KObject", "oneof": "KOneof", "enum": "KEnum"}[u.RefKind]
		kind = fmt.Sprintf("(%s %s)", ctor, bt(u.Obj))
	} else if u.Key {
		foreign := "None"
		if u.Foreign != nil {
			foreign = fmt.Sprintf("(Some (%s, %s))", bt(u.Foreign[0]), bt(u.Foreign[1]))
		}
		kind = fmt.Sprintf("(KKey %s %s %s)", vh.BoolTerm(u.Primary), foreign, optBytes(u.Tenant))
	}
	keyfmt := 0
	if (u.Container == "" || u.Container == "map") && u.Inline == "" && u.Ext == "" && u.Obj == "" {
		if u.Key {
			keyfmt = map[string]int{"": 0, "id62": 1, "uuid": 2}[u.KeyFmt]
		} else if u.J5Kind == "key" {
			// a key-typed scalar that is not a schema.key declaration of the generator (`data x key:id62`)
			keyfmt = map[string]int{"key": 0, "key:id62": 1, "key:uuid": 2}[u.J5Type]
		}
	}
	container := 0
	if u.Inline != "" {
		container = map[string]int{"": 0, "array": 1, "map": 2}[u.Container]
	}
	return fmt.Sprintf("(mkU7 %s %s %s %s %s %d %d)", bt(u.Name), kind, vh.BoolTerm(u.Required), vh.BoolTerm(u.Optional), bt(u.Desc), keyfmt, container)
}

func coqList[T any](xs []T, f func(T) string) string {
	parts := make([]string, len(xs))
	for i, x := range xs {
		parts[i] = f(x)
	}
	return "[" + strings.Join(parts, "; ") + "]"
}

func fieldsCoq(fs []uField) string { return coqList(fs, uField.coq) }

func (d *entityDecl) coq() string {
	q := "None"
	if d.Query != nil {
		q = fmt.Sprintf("(Some (mkQ %s %s %s))", vh.BoolTerm(d.Query.EventsInGet), coqList(d.Query.DefaultStatus, bt), vh.BoolTerm(d.Query.ListRequest != 0))
	}
	nums := make([]string, len(d.StatusNum))
	for i, n := range d.StatusNum {
		nums[i] = fmt.Sprint(n)
	}
	notes := "no_notes"
	{
		evd := make([]string, len(d.Events))
		any := false
		for i, e := range d.Events {
			evd[i] = e.Desc
			any = any || e.Desc != ""
		}
		scd := make([]string, len(d.Schemas))
		opd := make([]string, len(d.Schemas))
		for i, sc := range d.Schemas {
			scd[i] = sc.Desc
			opd[i] = coqList(sc.OptionDesc, bt)
			any = any || sc.Desc != "" || len(sc.OptionDesc) > 0
		}
		any = any || len(d.StatusDesc) > 0
		if any {
			notes = fmt.Sprintf("(mkN %s %s %s [%s])", coqList(evd, bt), coqList(d.StatusDesc, bt), coqList(scd, bt), strings.Join(opd, "; "))
		}
	}
	return fmt.Sprintf("(mkE13 %s %s %s %s %s %s %s %s %s %s %s [%s] %s)",
		bt(d.Pkg), bt(d.Name), bt(d.BaseURL),
		coqList(d.Keys, func(k eKey) string { return fmt.Sprintf("(mkK %s %s)", k.uField.coq(), vh.BoolTerm(k.Shard)) }),
		fieldsCoq(d.Data),
		coqList(d.Status, bt),
		coqList(d.Events, func(e eEvent) string { return fmt.Sprintf("(mkEv %s %s)", bt(e.Name), fieldsCoq(e.Fields)) }),
		coqList(d.Commands, func(c eCommand) string {
			return fmt.Sprintf("(mkC %s %s %s)", optBytes(c.Name), optBytes(c.Base), coqList(c.Methods, func(m eMethod) string {
				resp := "None"
				if !m.NoResponse {
					resp = "(Some " + fieldsCoq(m.Response) + ")"
				}
				return fmt.Sprintf("(mkM %s %d %s %s %s)", bt(m.Name), m.Verb, bt(m.Path), fieldsCoq(m.Request), resp)
			}))
		}),
		coqList(d.Summaries, func(s eSummary) string { return fmt.Sprintf("(mkS %s %s)", bt(s.Name), fieldsCoq(s.Fields)) }),
		q,
		coqList(d.Schemas, eSchema.coq),
		strings.Join(nums, "; "), notes)
}

// ---- j5s text ----------------------------------------------------------------------

var verbNames = map[int]string{1: "GET", 2: "POST", 3: "PUT", 4: "DELETE", 5: "PATCH"}

func (u uField) j5sType() string {
	if u.Inline != "" {
		if u.Container != "" {
			return u.Container + ":" + u.Inline
		}
		return u.Inline
	}
	if u.Container != "" {
		item := u
		item.Container = ""
		return u.Container + ":" + item.j5sType()
	}
	if u.Obj != "" {
		if u.RefKind == "" {
			return "object:" + u.Obj
		}
		return u.RefKind + ":" + u.Obj
	}
	if !u.Key {
		return u.J5Type
	}
	if u.KeyFmt == "" {
		return "key"
	}
	return "key:" + u.KeyFmt
}

// printField prints `<word> name [!] type [{ attrs }]`; extra are further attribute lines.
func printField(sb *strings.Builder, indent, word string, u uField, extra ...string) {
	sb.WriteString(indent + word + " " + u.Name + " ")
	if u.Required && u.Bang {
		sb.WriteString("! ")
	} else if u.Optional && u.Bang {
		sb.WriteString("? ")
	}
	sb.WriteString(u.j5sType())
	var attrs []string
	if u.Required && !u.Bang {
		attrs = append(attrs, "required = true")
	} else if !u.Required && u.SayFalse {
		attrs = append(attrs, "required = false")
	}
	if u.Optional && (!u.Bang || u.Required) {
		attrs = append(attrs, "optional = true")
	} else if !u.Optional && u.SayFalse {
		attrs = append(attrs, "optional = false")
	}
	if u.Key && u.Foreign != nil {
		attrs = append(attrs, fmt.Sprintf("foreign = %q", u.Foreign[0]+"."+u.Foreign[1]))
	}
	if u.Key && u.Primary {
		attrs = append(attrs, "primary = true")
	}
	if u.Key && u.Tenant != nil {
		attrs = append(attrs, fmt.Sprintf("tenant = %q", *u.Tenant))
	}
	if u.ProtoField != 0 {
		attrs = append(attrs, fmt.Sprintf("protoField = [%d]", u.ProtoField))
	}
	if u.Desc != "" && !u.DescBlock {
		attrs = append(attrs, fmt.Sprintf("description = %q", u.Desc))
	}
	attrs = append(attrs, extra...)
	if len(attrs) == 0 && u.Inline == "" && !(u.Desc != "" && u.DescBlock) {
		sb.WriteString("\n")
		return
	}
	sb.WriteString(" {\n")
	if u.Desc != "" && u.DescBlock {
		for _, l := range strings.Split(u.Desc, "\n") {
			sb.WriteString(indent + "\t| " + l + "\n")
		}
	}
	for _, a := range attrs {
		sb.WriteString(indent + "\t" + a + "\n")
	}
	// the anonymous schema defined by the field
	switch u.Inline {
	case "object":
		for _, f := range u.InFields {
			printField(sb, indent+"\t", "field", f)
		}
	case "oneof":
		for _, f := range u.InFields {
			printField(sb, indent+"\t", "option", f)
		}
	case "enum":
		for _, o := range u.InOptions {
			sb.WriteString(indent + "\toption " + o + "\n")
		}
	}
	sb.WriteString(indent + "}\n")
}

// fileDecl is one source file: entity declarations of one package.
type fileDecl struct {
	Ents []*entityDecl
}

func (f *fileDecl) pkg() string      { return f.Ents[0].Pkg }
func (f *fileDecl) filename() string { return f.Ents[0].filename() }
func (f *fileDecl) coq() string {
	return coqList(f.Ents, func(d *entityDecl) string { return d.coq() })
}
func (f *fileDecl) j5s() string {
	var sb strings.Builder
	sb.WriteString("package " + f.pkg() + "\n")
	for _, d := range f.Ents {
		sb.WriteString("\n" + d.block())
	}
	return sb.String()
}

func (d *entityDecl) j5s() string {
	return "package " + d.Pkg + "\n\n" + d.block()
}

func (d *entityDecl) block() string {
	var sb strings.Builder
	sb.WriteString("entity " + d.Name + " {\n")
	if d.BaseURL != "" {
		fmt.Fprintf(&sb, "\tbaseUrlPath = %q\n", d.BaseURL)
	}
	if d.Desc != "" {
		fmt.Fprintf(&sb, "\tdescription = %q\n", d.Desc)
	}
	for _, k := range d.Keys {
		printField(&sb, "\t", "key", k.uField, k.extraAttrs()...)
	}
	for _, f := range d.Data {
		printField(&sb, "\t", "data", f)
	}
	for i, s := range d.Status {
		var attrs []string
		if i < len(d.StatusNum) && d.StatusNum[i] != 0 {
			attrs = append(attrs, fmt.Sprintf("number = %d", d.StatusNum[i]))
		}
		if i < len(d.StatusDesc) && d.StatusDesc[i] != "" {
			attrs = append(attrs, fmt.Sprintf("description = %q", d.StatusDesc[i]))
		}
		if len(attrs) > 0 {
			sb.WriteString("\tstatus " + s + " {\n")
			for _, a := range attrs {
				sb.WriteString("\t\t" + a + "\n")
			}
			sb.WriteString("\t}\n")
		} else {
			sb.WriteString("\tstatus " + s + "\n")
		}
	}
	for _, e := range d.Events {
		sb.WriteString("\tevent " + e.Name + " {\n")
		if e.Desc != "" && strings.Contains(e.Desc, "\n") {
			for _, l := range strings.Split(e.Desc, "\n") {
				sb.WriteString("\t\t| " + l + "\n")
			}
		} else if e.Desc != "" {
			fmt.Fprintf(&sb, "\t\tdescription = %q\n", e.Desc)
		}
		for _, f := range e.Fields {
			printField(&sb, "\t\t", "field", f)
		}
		sb.WriteString("\t}\n")
	}
	for _, c := range d.Commands {
		sb.WriteString("\tcommand {\n")
		if c.Name != nil {
			fmt.Fprintf(&sb, "\t\tname = %q\n", *c.Name)
		}
		if c.Base != nil {
			fmt.Fprintf(&sb, "\t\tbasePath = %q\n", *c.Base)
		}
		if c.Desc != "" {
			fmt.Fprintf(&sb, "\t\tdescription = %q\n", c.Desc)
		}
		if c.Audience != nil {
			q := make([]string, len(c.Audience))
			for i, a := range c.Audience {
				q[i] = fmt.Sprintf("%q", a)
			}
			if c.OptionsForm == 0 {
				sb.WriteString("\t\toptions {\n\t\t\taudience = [" + strings.Join(q, ", ") + "]\n\t\t}\n")
			} else {
				sb.WriteString("\t\toptions.audience = [" + strings.Join(q, ", ") + "]\n\t\toptions.defaultAuth.none {\n\t\t}\n")
			}
		}
		for _, m := range c.Methods {
			sb.WriteString("\t\tmethod " + m.Name + " {\n")
			if m.Desc != "" {
				fmt.Fprintf(&sb, "\t\t\tdescription = %q\n", m.Desc)
			}
			fmt.Fprintf(&sb, "\t\t\thttpMethod = %q\n", verbNames[m.Verb])
			fmt.Fprintf(&sb, "\t\t\thttpPath = %q\n", m.Path)
			sb.WriteString("\t\t\trequest {\n")
			for _, f := range m.Request {
				printField(&sb, "\t\t\t\t", "field", f)
			}
			sb.WriteString("\t\t\t}\n")
			if !m.NoResponse {
				sb.WriteString("\t\t\tresponse {\n")
				for _, f := range m.Response {
					printField(&sb, "\t\t\t\t", "field", f)
				}
				sb.WriteString("\t\t\t}\n")
			}
			sb.WriteString("\t\t}\n")
		}
		sb.WriteString("\t}\n")
	}
	for _, s := range d.Summaries {
		if s.Name == "" {
			sb.WriteString("\tsummary {\n")
		} else {
			sb.WriteString("\tsummary " + s.Name + " {\n")
		}
		if s.Desc != "" {
			fmt.Fprintf(&sb, "\t\tdescription = %q\n", s.Desc)
		}
		for _, f := range s.Fields {
			printField(&sb, "\t\t", "field", f)
		}
		sb.WriteString("\t}\n")
	}
	for _, sc := range d.Schemas {
		switch sc.Kind {
		case 1:
			sb.WriteString("\toneof " + sc.Name + " {\n")
			if sc.Desc != "" {
				fmt.Fprintf(&sb, "\t\tdescription = %q\n", sc.Desc)
			}
			for _, f := range sc.Fields {
				printField(&sb, "\t\t", "option", f)
			}
		case 2:
			sb.WriteString("\tenum " + sc.Name + " {\n")
			if sc.Desc != "" {
				fmt.Fprintf(&sb, "\t\tdescription = %q\n", sc.Desc)
			}
			for i, o := range sc.Options {
				var attrs []string
				if i < len(sc.OptionNum) && sc.OptionNum[i] != 0 {
					attrs = append(attrs, fmt.Sprintf("number = %d", sc.OptionNum[i]))
				}
				if i < len(sc.OptionDesc) && sc.OptionDesc[i] != "" {
					attrs = append(attrs, fmt.Sprintf("description = %q", sc.OptionDesc[i]))
				}
				if len(attrs) > 0 {
					sb.WriteString("\t\toption " + o + " {\n")
					for _, a := range attrs {
						sb.WriteString("\t\t\t" + a + "\n")
					}
					sb.WriteString("\t\t}\n")
				} else {
					sb.WriteString("\t\toption " + o + "\n")
				}
			}
		default:
			sb.WriteString("\tobject " + sc.Name + " {\n")
			if sc.Desc != "" {
				fmt.Fprintf(&sb, "\t\tdescription = %q\n", sc.Desc)
			}
			for _, f := range sc.Fields {
				printField(&sb, "\t\t", "field", f)
			}
		}
		sb.WriteString("\t}\n")
	}
	if d.Query != nil {
		sb.WriteString("\tquery {\n")
		if d.Query.EventsInGet {
			sb.WriteString("\t\teventsInGet = true\n")
		} else if d.Query.SayFalse {
			sb.WriteString("\t\teventsInGet = false\n")
		}
		if len(d.Query.DefaultStatus) > 0 {
			q := make([]string, len(d.Query.DefaultStatus))
			for i, s := range d.Query.DefaultStatus {
				q[i] = fmt.Sprintf("%q", s)
			}
			sb.WriteString("\t\tdefaultStatusFilter = [" + strings.Join(q, ", ") + "]\n")
		}
		switch d.Query.ListRequest {
		case 1:
			sb.WriteString("\t\tlistRequest {\n\t\t}\n")
		case 2:
			sb.WriteString("\t\teventsListRequest {\n\t\t}\n")
		}
		sb.WriteString("\t}\n")
	}
	sb.WriteString("}\n")
	return sb.String()
}

func (d *entityDecl) filename() string {
	return strings.ReplaceAll(d.Pkg, ".", "/") + "/ent.j5s"
}

package main

import (
	"fmt"
	"strings"

	"verifharness/vh"
)

// ---- the abstract entity declaration (mirrors coq/model/Entity.v) ----------------

type uField struct {
	Name     string
	Key      bool // schema.key
	Primary  bool
	Tenant   *string
	KeyFmt   string // "", "id62", "uuid"
	J5Type   string // j5s type text for scalars ("string", "integer:INT32", ...)
	PType    int    // proto type number the scalar compiles to
	J5Kind   string // name of the (j5.ext.v1.field) alternative
	Required bool
	Bang     bool // print required as '!' instead of an attribute
}

type eKey struct {
	uField
	Shard bool
}

type eEvent struct {
	Name   string
	Fields []uField
}

type eMethod struct {
	Name     string
	Verb     int // client_j5pb.HTTPMethod
	Path     string
	Request  []uField
	Response []uField
}

type eCommand struct {
	Name    *string
	Base    *string
	Methods []eMethod
}

type eSummary struct {
	Name   string
	Fields []uField
}

type eQuery struct {
	EventsInGet   bool
	DefaultStatus []string
}

type entityDecl struct {
	Pkg       string
	Name      string
	BaseURL   string
	Keys      []eKey
	Data      []uField
	Status    []string
	Events    []eEvent
	Commands  []eCommand
	Summaries []eSummary
	Query     *eQuery
}

// ---- Coq terms ---------------------------------------------------------------------

func optBytes(s *string) string {
	if s == nil {
		return "None"
	}
	return "(Some " + vh.BytesTerm(*s) + ")"
}

func (u uField) coq() string {
	kind := fmt.Sprintf("(KScalar %d %s)", u.PType, vh.BytesTerm(u.J5Kind))
	if u.Key {
		kind = fmt.Sprintf("(KKey %s %s)", vh.BoolTerm(u.Primary), optBytes(u.Tenant))
	}
	return fmt.Sprintf("(mkU %s %s %s)", vh.BytesTerm(u.Name), kind, vh.BoolTerm(u.Required))
}

func coqList[T any](xs []T, f func(T) string) string {
	parts := make([]string, len(xs))
	for i, x := range xs {
		parts[i] = f(x)
	}
	return "[" + strings.Join(parts, "; ") + "]"
}

func fieldsCoq(fs []uField) string { return coqList(fs, uField.coq) }

func (d *entityDecl) coq() string {
	q := "None"
	if d.Query != nil {
		q = fmt.Sprintf("(Some (mkQ %s %s))", vh.BoolTerm(d.Query.EventsInGet), coqList(d.Query.DefaultStatus, vh.BytesTerm))
	}
	return fmt.Sprintf("(mkE %s %s %s %s %s %s %s %s %s %s)",
		vh.BytesTerm(d.Pkg), vh.BytesTerm(d.Name), vh.BytesTerm(d.BaseURL),
		coqList(d.Keys, func(k eKey) string { return fmt.Sprintf("(mkK %s %s)", k.uField.coq(), vh.BoolTerm(k.Shard)) }),
		fieldsCoq(d.Data),
		coqList(d.Status, vh.BytesTerm),
		coqList(d.Events, func(e eEvent) string { return fmt.Sprintf("(mkEv %s %s)", vh.BytesTerm(e.Name), fieldsCoq(e.Fields)) }),
		coqList(d.Commands, func(c eCommand) string {
			return fmt.Sprintf("(mkC %s %s %s)", optBytes(c.Name), optBytes(c.Base), coqList(c.Methods, func(m eMethod) string {
				return fmt.Sprintf("(mkM %s %d %s %s %s)", vh.BytesTerm(m.Name), m.Verb, vh.BytesTerm(m.Path), fieldsCoq(m.Request), fieldsCoq(m.Response))
			}))
		}),
		coqList(d.Summaries, func(s eSummary) string { return fmt.Sprintf("(mkS %s %s)", vh.BytesTerm(s.Name), fieldsCoq(s.Fields)) }),
		q)
}

// ---- j5s text ----------------------------------------------------------------------

var verbNames = map[int]string{1: "GET", 2: "POST", 3: "PUT", 4: "DELETE", 5: "PATCH"}

func (u uField) j5sType() string {
	if !u.Key {
		return u.J5Type
	}
	if u.KeyFmt == "" {
		return "key"
	}
	return "key:" + u.KeyFmt
}

// printField prints `<word> name [!] type [{ attrs }]`; extra are further attribute lines.
func printField(sb *strings.Builder, indent, word string, u uField, extra ...string) {
	sb.WriteString(indent + word + " " + u.Name + " ")
	if u.Required && u.Bang {
		sb.WriteString("! ")
	}
	sb.WriteString(u.j5sType())
	var attrs []string
	if u.Required && !u.Bang {
		attrs = append(attrs, "required = true")
	}
	if u.Key && u.Primary {
		attrs = append(attrs, "primary = true")
	}
	if u.Key && u.Tenant != nil {
		attrs = append(attrs, fmt.Sprintf("tenant = %q", *u.Tenant))
	}
	attrs = append(attrs, extra...)
	if len(attrs) == 0 {
		sb.WriteString("\n")
		return
	}
	sb.WriteString(" {\n")
	for _, a := range attrs {
		sb.WriteString(indent + "\t" + a + "\n")
	}
	sb.WriteString(indent + "}\n")
}

func (d *entityDecl) j5s() string {
	var sb strings.Builder
	sb.WriteString("package " + d.Pkg + "\n\nentity " + d.Name + " {\n")
	if d.BaseURL != "" {
		fmt.Fprintf(&sb, "\tbaseUrlPath = %q\n", d.BaseURL)
	}
	for _, k := range d.Keys {
		if k.Shard {
			printField(&sb, "\t", "key", k.uField, "shardKey = true")
		} else {
			printField(&sb, "\t", "key", k.uField)
		}
	}
	for _, f := range d.Data {
		printField(&sb, "\t", "data", f)
	}
	for _, s := range d.Status {
		sb.WriteString("\tstatus " + s + "\n")
	}
	for _, e := range d.Events {
		sb.WriteString("\tevent " + e.Name + " {\n")
		for _, f := range e.Fields {
			printField(&sb, "\t\t", "field", f)
		}
		sb.WriteString("\t}\n")
	}
	for _, c := range d.Commands {
		sb.WriteString("\tcommand {\n")
		if c.Name != nil {
			fmt.Fprintf(&sb, "\t\tname = %q\n", *c.Name)
		}
		if c.Base != nil {
			fmt.Fprintf(&sb, "\t\tbasePath = %q\n", *c.Base)
		}
		for _, m := range c.Methods {
			sb.WriteString("\t\tmethod " + m.Name + " {\n")
			fmt.Fprintf(&sb, "\t\t\thttpMethod = %q\n", verbNames[m.Verb])
			fmt.Fprintf(&sb, "\t\t\thttpPath = %q\n", m.Path)
			sb.WriteString("\t\t\trequest {\n")
			for _, f := range m.Request {
				printField(&sb, "\t\t\t\t", "field", f)
			}
			sb.WriteString("\t\t\t}\n\t\t\tresponse {\n")
			for _, f := range m.Response {
				printField(&sb, "\t\t\t\t", "field", f)
			}
			sb.WriteString("\t\t\t}\n\t\t}\n")
		}
		sb.WriteString("\t}\n")
	}
	for _, s := range d.Summaries {
		if s.Name == "" {
			sb.WriteString("\tsummary {\n")
		} else {
			sb.WriteString("\tsummary " + s.Name + " {\n")
		}
		for _, f := range s.Fields {
			printField(&sb, "\t\t", "field", f)
		}
		sb.WriteString("\t}\n")
	}
	if d.Query != nil {
		sb.WriteString("\tquery {\n")
		if d.Query.EventsInGet {
			sb.WriteString("\t\teventsInGet = true\n")
		}
		if len(d.Query.DefaultStatus) > 0 {
			q := make([]string, len(d.Query.DefaultStatus))
			for i, s := range d.Query.DefaultStatus {
				q[i] = fmt.Sprintf("%q", s)
			}
			sb.WriteString("\t\tdefaultStatusFilter = [" + strings.Join(q, ", ") + "]\n")
		}
		sb.WriteString("\t}\n")
	}
	sb.WriteString("}\n")
	return sb.String()
}

func (d *entityDecl) filename() string {
	return strings.ReplaceAll(d.Pkg, ".", "/") + "/ent.j5s"
}

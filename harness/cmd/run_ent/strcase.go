package main

import (
	"fmt"
	"strings"

	"github.com/iancoleman/strcase"
	"verifharness/vh"
)

// Pseudo-property "strcase": correspondence of coq/lib/Strcase.v with the real
// github.com/iancoleman/strcase (the version /repo's go.mod selects). It is run
// on its own (`run_ent -prop strcase`) and as the first stream of C17.
func init() { vh.Register("strcase", runStrcase) }

var scWords = []string{"foo", "bar", "Foo", "Bar", "FOO", "ID", "Id", "id", "JSON", "Http", "HTTP", "API", "S", "s", "x", "X", "State", "Event", "Keys", "Data", "Status", "EventType", "Query", "Command", "v1", "V2", "2", "42", "a1b", "A1B", "URLs", "iOS", "\u00c9", "\u00e9", "\u00df", "\u65e5\u672c"}
var scSeps = []string{"", "", "", "_", "_", "-", ".", " ", "__", "_-", "\t", "/", ":", "$"}
var scSpaces = []string{" ", "\t", "\n", "\v", "\f", "\r", "\u0085", "\u00a0", "\u1680", "\u2000", "\u2005", "\u200a", "\u200b", "\u2028", "\u2029", "\u202f", "\u205f", "\u3000", "\u3001", "\u180e", "\ufeff", "\xc2", "\x85", "\xa0", "\xe2\x80", "\xe2", "\x80", "\xe1\x9a", "\xe2\x81\x9f", "\xe2\x80\x8b", "\xe2\x80\xa7", "\xe2\x80\xaa", "\xe2\x80\xae", "\xe2\x80\xb0", "\xe3\x80\x81", "\xe2\x81\x9e", "\xe1\x9a\x81", "\x1c", "\x1f", "\x00", "\x08", "\x0e"}

const scAlpha = "abcdefghijklmnopqrstuvwxyz"
const scUpper = "ABCDEFGHIJKLMNOPQRSTUVWXYZ"
const scDigit = "0123456789"

func genStrcaseInput(r *vh.Rand) (string, string) {
	switch r.Intn(12) {
	case 0, 1: // words glued with separators
		var sb strings.Builder
		for k := r.Range(1, 5); k > 0; k-- {
			sb.WriteString(vh.Pick(r, scWords))
			if k > 1 {
				sb.WriteString(vh.Pick(r, scSeps))
			}
		}
		return "words", sb.String()
	case 2, 3: // lowerCamel / UpperCamel ASCII letters only
		var sb strings.Builder
		for k := r.Range(1, 5); k > 0; k-- {
			sb.WriteByte(scUpper[r.Intn(26)])
			for j := r.Range(0, 4); j > 0; j-- {
				sb.WriteByte(scAlpha[r.Intn(26)])
			}
		}
		s := sb.String()
		if r.Bool() {
			s = strings.ToLower(s[:1]) + s[1:]
		}
		return "camel", s
	case 4: // snake with digits
		var sb strings.Builder
		for k := r.Range(1, 5); k > 0; k-- {
			for j := r.Range(1, 4); j > 0; j-- {
				if r.Chance(20) {
					sb.WriteByte(scDigit[r.Intn(10)])
				} else {
					sb.WriteByte(scAlpha[r.Intn(26)])
				}
			}
			if k > 1 {
				sb.WriteByte('_')
			}
		}
		return "snake", sb.String()
	case 5, 6: // random over a small alphabet: dense in case/digit/separator transitions
		const small = "aAbB1_ zZ9-."
		n := r.Range(0, 10)
		b := make([]byte, n)
		for i := range b {
			b[i] = small[r.Intn(len(small))]
		}
		return "dense", string(b)
	case 7: // trailing capitals / acronym runs
		var sb strings.Builder
		sb.WriteString(vh.Pick(r, scWords))
		for j := r.Range(1, 4); j > 0; j-- {
			sb.WriteByte(scUpper[r.Intn(26)])
		}
		if r.Bool() {
			sb.WriteString(vh.Pick(r, []string{"State", "Event", "EventType", "Keys", "Data", "Status", "s", "1"}))
		}
		return "acronym", sb.String()
	case 8: // surrounded by (unicode) spaces and near-spaces
		var sb strings.Builder
		for k := r.Intn(4); k > 0; k-- {
			sb.WriteString(vh.Pick(r, scSpaces))
		}
		for k := r.Intn(3); k > 0; k-- {
			sb.WriteString(vh.Pick(r, scWords))
			if r.Chance(30) {
				sb.WriteString(vh.Pick(r, scSpaces))
			}
		}
		for k := r.Intn(4); k > 0; k-- {
			sb.WriteString(vh.Pick(r, scSpaces))
		}
		return "spaces", sb.String()
	case 9: // random bytes
		return "bytes", string(r.Bytes(r.Range(0, 12)))
	case 10: // random printable ASCII
		n := r.Range(0, 14)
		b := make([]byte, n)
		for i := range b {
			b[i] = byte(32 + r.Intn(95))
		}
		return "ascii", string(b)
	default: // bytes near the class boundaries
		const edge = "@AZ[`az{/09:_ -.\x7f\x80\xc2\x85\xa0\xe2\x80\xa8\t\r"
		n := r.Range(0, 8)
		b := make([]byte, n)
		for i := range b {
			b[i] = edge[r.Intn(len(edge))]
		}
		return "edges", string(b)
	}
}

type strcaseObs struct{ snake, screaming, camel, lcamel, kebab string }

func observeStrcase(s string) (o strcaseObs, panicked any) {
	defer func() {
		if r := recover(); r != nil {
			panicked = r
		}
	}()
	o.snake = strcase.ToSnake(s)
	o.screaming = strcase.ToScreamingSnake(s)
	o.camel = strcase.ToCamel(s)
	o.lcamel = strcase.ToLowerCamel(s)
	o.kebab = strcase.ToKebab(s)
	return
}

func isLowerCamelLetters(s string) bool {
	if s == "" || !(s[0] >= 'a' && s[0] <= 'z') {
		return false
	}
	prevCap := false
	for i := 0; i < len(s); i++ {
		c := s[i]
		isCap := c >= 'A' && c <= 'Z'
		if !(isCap || (c >= 'a' && c <= 'z')) {
			return false
		}
		if isCap && prevCap {
			return false
		}
		prevCap = isCap
	}
	return !prevCap
}

// strcaseStream appends n strcase cases to cf/res; shared by the pseudo-property and C17.
func strcaseStream(cfg *vh.Config, r *vh.Rand, res *vh.Result, n int, caseNo *int, distinct vh.Distinct) []string {
	var terms []string
	fixed := []string{"", "Foo", "foo", "FooS", "FooSState", "FooBar", "fooBar", "foo_bar", "FOO_BAR", "JSONData", "userID", "ID", "a1", "A1", "1a", "v2Thing", " Foo ", " Foo\u3000", "\xc2Foo\x85", "Foo\xc2", "\u2003Foo\u00a0\u0085", "foo.bar-baz qux", "__foo__", "fooBAR", "FOOBar", "aB", "AB", "ABc", "aBC", "x_1", "x1Y", "\u00c9", "\u65e5\u672c\u8a9eFoo", "\xe2\x80\x80\x80", "x\xe2\x80", "\x80\x80\xe2\x80\x80",
		// adversarial identifiers of the class the j5s lexer accepts as a name (unicode letter, then letters /
		// digits / '_'): digits inside and at the ends of words, acronym runs, trailing / doubled / leading
		// underscores, non-ASCII letters (the library classifies bytes, so they are caseless), non-ASCII digits
		"HTTPServer", "userIDs", "X9Y", "x9", "foo2bar", "foo2Bar", "Foo2", "a1B2c3", "A1B2", "v2", "V2X", "IPv6", "OAuth2Token",
		"getHTTPSUrl", "HTTPSUrl2", "foo_", "foo__", "Foo_Bar_", "Z_", "a_", "a_b_c", "A_B_C", "_foo", "_Foo", "__", "_", "foo_1", "foo_1_bar",
		"foo1_bar", "1", "12ab", "ab12", "aB1C", "AbC1d", "S3Bucket", "s3Bucket", "md5Sum", "MD5sum", "i18n", "I18N", "x_X", "X_x", "aA", "Aa", "aAa", "AaA",
		"\u00c9lan", "\u00e9lan", "na\u00efve", "Stra\u00dfe", "stra\u00dfeName", "\u65e5\u672c", "x\u65e5\u672cY", "\u03a9mega", "\u03c9Mega", "\u01c5x", "\u0131d", "\u0130D",
		"foo\u0663", "a\u0663B", "Foo\u00c9Bar", "foo_\u00e9_bar", "\u00e9_", "\u00c9X", "x\u00c9", "FOO\u00c9", "page", "Page", "PAGE", "pAge", "query", "Query", "upsert", "Upsert", "type", "Type", "TYPE",
		"events", "Events", "eVents", "EventS", "page_", "Page2", "type_", "tYpe"}
	for i := 0; i < n; i++ {
		var kind, s string
		if i < len(fixed) {
			kind, s = "fixed", fixed[i]
		} else {
			kind, s = genStrcaseInput(r)
		}
		o, pan := observeStrcase(s)
		distinct.Add("sc:" + s)
		res.Count("strcase_" + kind)
		in := fmt.Sprintf("%q", s)
		if pan != nil {
			res.Fail(vh.Failure{Case: *caseNo, Stream: "strcase", Sig: "strcase panic", Clause: "strcase functions are total", Input: in, Got: fmt.Sprint(pan)})
			*caseNo++
			continue
		}
		// direct oracle for the laws the compiler relies on (proofs/StrcaseProofs.v)
		if isLowerCamelLetters(s) {
			if back := strcase.ToLowerCamel(o.snake); back != s {
				res.Fail(vh.Failure{Case: *caseNo, Stream: "strcase", Sig: "strcase lowerCamel(snake(n)) != n on lowerCamel letters", Clause: "ToLowerCamel(ToSnake n) = n", Input: in, Got: back})
			}
		}
		if strcase.ToSnake(o.snake) != o.snake && isLowerCamelLetters(s) {
			res.Fail(vh.Failure{Case: *caseNo, Stream: "strcase", Sig: "strcase snake not idempotent on lowerCamel letters", Clause: "ToSnake idempotent", Input: in, Got: strcase.ToSnake(o.snake)})
		}
		terms = append(terms, fmt.Sprintf("SC %s %s %s %s %s %s", vh.BytesTerm(s), vh.BytesTerm(o.snake), vh.BytesTerm(o.screaming), vh.BytesTerm(o.camel), vh.BytesTerm(o.lcamel), vh.BytesTerm(o.kebab)))
		res.Cases = append(res.Cases, vh.CaseRec{Case: *caseNo, Stream: "strcase", Input: in, Impl: map[string]any{"snake": o.snake, "screaming": o.screaming, "camel": o.camel, "lowerCamel": o.lcamel, "kebab": o.kebab}})
		if len(s) > 2 && len(s) < 16 {
			res.Sample(map[string]any{"stream": "strcase", "s": s, "snake": o.snake, "camel": o.camel}, 6)
		}
		*caseNo++
	}
	return terms
}

const strcaseShard = 250

func runStrcase(cfg *vh.Config) error {
	res := vh.NewResult("strcase", cfg.Seed)
	res.Rule = "strcase inputs: word lists glued by separators, ASCII camel names, snake with digits, dense small-alphabet strings, acronym/trailing-capital names, (unicode) space padding, random bytes, printable ASCII, class-boundary bytes; non-trivial = distinct non-empty input"
	cf := &vh.CasesFile{
		Header: "From Coq Require Import String List NArith.\nFrom J5V.model Require Import EntityStrcaseCorr.",
		Type:   "strcase_case",
		Check:  "strcase_check",
	}
	distinct := vh.Distinct{}
	caseNo := 0
	cf.Terms = strcaseStream(cfg, cfg.R, res, cfg.Scale(1500, 40000), &caseNo, distinct)
	res.Evaluations = caseNo
	res.Distinct = len(distinct) - 1
	shards, err := cf.WriteShards(cfg.Out, "sc", strcaseShard)
	if err != nil {
		return err
	}
	for i := range res.Cases {
		res.Cases[i].Shard = fmt.Sprintf("sc_%d", i/strcaseShard)
		res.Cases[i].Pos = i % strcaseShard
	}
	res.Shards = shards
	return res.Write(cfg.Out)
}

package main

import (
	"fmt"
	"os"
	"sort"
	"strings"

	"buf.build/gen/go/bufbuild/protovalidate/protocolbuffers/go/buf/validate"
	"github.com/pentops/j5/gen/j5/ext/v1/ext_j5pb"
	"github.com/pentops/j5/gen/j5/list/v1/list_j5pb"
	"github.com/pentops/j5/gen/j5/messaging/v1/messaging_j5pb"
	"github.com/pentops/j5/lib/verifshim/compile"
	"google.golang.org/genproto/googleapis/api/annotations"
	"google.golang.org/protobuf/proto"
	"google.golang.org/protobuf/reflect/protoreflect"
	"google.golang.org/protobuf/types/descriptorpb"
	"verifharness/vh"
)

// line is the canonical flat form compared with coq/model/EntityCorr.v [flatten].
type line struct {
	Tag  int
	Strs []string
	Nums []uint64
}

func (l line) coq() string {
	strs := make([]string, len(l.Strs))
	for i, s := range l.Strs {
		strs[i] = bt(s)
	}
	return fmt.Sprintf("(%d, [%s], %s)", l.Tag, strings.Join(strs, ";"), vh.NList(l.Nums))
}

func (l line) String() string {
	return fmt.Sprintf("%d %q %v", l.Tag, l.Strs, l.Nums)
}

func b2n(b bool) uint64 {
	if b {
		return 1
	}
	return 0
}

// concrete re-parses a descriptor through the wire format so that every option
// extension is a generated Go type (the global registry knows them all).
func concrete(f protoreflect.FileDescriptor) (*descriptorpb.FileDescriptorProto, error) {
	b, err := proto.Marshal(compile.ToProto(f))
	if err != nil {
		return nil, err
	}
	out := &descriptorpb.FileDescriptorProto{}
	if err := proto.Unmarshal(b, out); err != nil {
		return nil, err
	}
	return out, nil
}

func getExt[T proto.Message](opts proto.Message, xt protoreflect.ExtensionType) (T, bool) {
	var zero T
	if opts == nil || !opts.ProtoReflect().IsValid() || !proto.HasExtension(opts, xt) {
		return zero, false
	}
	v, ok := proto.GetExtension(opts, xt).(T)
	return v, ok
}

func fileIndex(pkg, filePkg string) int {
	switch filePkg {
	case pkg:
		return 0
	case pkg + ".service":
		return 1
	case pkg + ".topic":
		return 2
	}
	return 9
}

func fieldLines(f *descriptorpb.FieldDescriptorProto) []line {
	kind := ""
	flatten := false
	var opts proto.Message
	if f.Options != nil {
		opts = f.Options
	}
	if fo, ok := getExt[*ext_j5pb.FieldOptions](opts, ext_j5pb.E_Field); ok && fo != nil {
		r := fo.ProtoReflect()
		if fd := r.WhichOneof(r.Descriptor().Oneofs().ByName("type")); fd != nil {
			kind = string(fd.Name())
		}
		if o := fo.GetObject(); o != nil {
			flatten = o.GetFlatten()
		}
	}
	required := false
	if vc, ok := getExt[*validate.FieldConstraints](opts, validate.E_Field); ok && vc != nil {
		required = vc.GetRequired()
	}
	keyFmt := ""
	if fo, ok := getExt[*ext_j5pb.FieldOptions](opts, ext_j5pb.E_Field); ok && fo != nil {
		if k := fo.GetKey(); k != nil {
			switch t := k.Type.(type) {
			case *ext_j5pb.KeyField_Format_:
				keyFmt = t.Format.String()
			case *ext_j5pb.KeyField_Pattern:
				keyFmt = "pattern:" + t.Pattern
			}
		}
	}
	primary, tenant, hasTenant := false, "", false
	fpkg, fent, hasForeign := "", "", false
	if ko, ok := getExt[*ext_j5pb.PSMKeyFieldOptions](opts, ext_j5pb.E_Key); ok && ko != nil {
		primary = ko.GetPrimaryKey()
		if ko.TenantType != nil {
			tenant, hasTenant = *ko.TenantType, true
		}
		if fk := ko.GetForeignKey(); fk != nil {
			fpkg, fent, hasForeign = fk.GetPackage(), fk.GetEntity(), true
		}
	}
	optional := f.GetProto3Optional()
	filterable := false
	var defaults []string
	if lc, ok := getExt[*list_j5pb.FieldConstraint](opts, list_j5pb.E_Field); ok && lc != nil {
		var fc *list_j5pb.FilteringConstraint
		if e := lc.GetEnum(); e != nil {
			fc = e.GetFiltering()
		} else if o := lc.GetOneof(); o != nil {
			fc = o.GetFiltering()
		}
		if fc != nil {
			filterable = fc.GetFilterable()
			defaults = fc.GetDefaultFilters()
		}
	}
	out := []line{{
		Tag:  2,
		Strs: []string{f.GetName(), f.GetJsonName(), strings.TrimPrefix(f.GetTypeName(), "."), kind, tenant, fpkg, fent, keyFmt},
		Nums: []uint64{uint64(f.GetNumber()), uint64(f.GetType()), b2n(f.GetLabel() == descriptorpb.FieldDescriptorProto_LABEL_REPEATED),
			b2n(required), b2n(flatten), b2n(f.OneofIndex != nil && !optional), b2n(primary), b2n(hasTenant), b2n(filterable),
			b2n(hasForeign), b2n(optional)},
	}}
	if filterable {
		out = append(out, line{Tag: 3, Strs: append([]string{}, defaults...), Nums: []uint64{}})
	}
	return out
}

// comments maps a SourceCodeInfo path (as "4.0.2.1") to the leading comment at that location.
type comments map[string]string

func pathKey(path []int32) string {
	parts := make([]string, len(path))
	for i, p := range path {
		parts[i] = fmt.Sprint(p)
	}
	return strings.Join(parts, ".")
}

func sub(path []int32, more ...int32) []int32 {
	out := make([]int32, 0, len(path)+len(more))
	out = append(out, path...)
	return append(out, more...)
}

// commentLine: tag 14 [leading comment] [] directly after the line of the element that carries it
// (descriptions of the j5s source become leading comments: commentSet in j5convert/builders.go)
func (c comments) line(path []int32) []line {
	if t, ok := c[pathKey(path)]; ok && t != "" {
		return []line{{Tag: 14, Strs: []string{t}, Nums: []uint64{}}}
	}
	return nil
}

func fileComments(f *descriptorpb.FileDescriptorProto) comments {
	out := comments{}
	for _, loc := range f.GetSourceCodeInfo().GetLocation() {
		if loc.LeadingComments != nil && os.Getenv("VERIF_PROBE_COMMENTS") != "" {
			fmt.Printf("    comment %s %v %q\n", f.GetPackage(), loc.Path, loc.GetLeadingComments())
		}
		if loc.LeadingComments != nil {
			out[pathKey(loc.Path)] = loc.GetLeadingComments()
		}
	}
	return out
}

func msgLines(prefix string, file int, m *descriptorpb.DescriptorProto) []line {
	return msgLinesC(prefix, file, m, nil, nil)
}

func msgLinesC(prefix string, file int, m *descriptorpb.DescriptorProto, cm comments, path []int32) []line {
	full := prefix + "." + m.GetName()
	psmEntity, psmPart := "", uint64(0)
	var opts proto.Message
	if m.Options != nil {
		opts = m.Options
	}
	if psm, ok := getExt[*ext_j5pb.PSMOptions](opts, ext_j5pb.E_Psm); ok && psm != nil {
		psmEntity = psm.GetEntityName()
		psmPart = uint64(psm.GetEntityPart())
	}
	isOneof := false
	if mo, ok := getExt[*ext_j5pb.MessageOptions](opts, ext_j5pb.E_Message); ok && mo != nil {
		isOneof = mo.GetOneof() != nil
	}
	out := []line{{Tag: 1, Strs: []string{full, psmEntity}, Nums: []uint64{uint64(file), psmPart, b2n(isOneof)}}}
	for i, f := range m.Field {
		fl := fieldLines(f)
		out = append(out, fl[0])
		out = append(out, cm.line(sub(path, 2, int32(i)))...)
		out = append(out, fl[1:]...)
	}
	for i, n := range m.NestedType {
		out = append(out, msgLinesC(full, file, n, cm, sub(path, 3, int32(i)))...)
	}
	// enums nested in the message (inline `enum { ... }` fields), after its nested messages
	for _, e := range m.EnumType {
		out = append(out, line{Tag: 4, Strs: []string{full + "." + e.GetName()}, Nums: []uint64{}})
		for _, v := range e.Value {
			out = append(out, line{Tag: 5, Strs: []string{v.GetName()}, Nums: []uint64{uint64(v.GetNumber())}})
		}
	}
	return out
}

func svcLines(pkgName string, file int, s *descriptorpb.ServiceDescriptorProto) []line {
	return svcLinesC(pkgName, file, s, nil, nil)
}

func svcLinesC(pkgName string, file int, s *descriptorpb.ServiceDescriptorProto, cm comments, loc []int32) []line {
	l := line{Tag: 6, Strs: []string{pkgName + "." + s.GetName(), "", "", ""}, Nums: []uint64{uint64(file), 0, 0}}
	var opts proto.Message
	if s.Options != nil {
		opts = s.Options
	}
	if so, ok := getExt[*ext_j5pb.ServiceOptions](opts, ext_j5pb.E_Service); ok && so != nil {
		if q := so.GetStateQuery(); q != nil {
			l.Strs[1], l.Nums[1] = q.GetEntity(), 1
		} else if c := so.GetStateCommand(); c != nil {
			l.Strs[1], l.Nums[1] = c.GetEntity(), 2
		}
		l.Strs[3] = strings.Join(so.GetAudience(), ",")
		if so.GetDefaultAuth() != nil {
			l.Strs[3] += "+auth"
		}
	}
	if mc, ok := getExt[*messaging_j5pb.ServiceConfig](opts, messaging_j5pb.E_Service); ok && mc != nil {
		l.Strs[1], l.Nums[1] = mc.GetTopicName(), 3
		switch {
		case mc.GetPublish() != nil:
			l.Nums[2] = 1
		case mc.GetRequest() != nil:
			l.Nums[2] = 2
		case mc.GetReply() != nil:
			l.Nums[2] = 5
		case mc.GetUpsert() != nil:
			l.Nums[2], l.Strs[2] = 3, mc.GetUpsert().GetEntityName()
		case mc.GetEvent() != nil:
			l.Nums[2], l.Strs[2] = 4, mc.GetEvent().GetEntityName()
		}
	}
	out := []line{l}
	for _, m := range s.Method {
		verb, path, sq, body := uint64(0), "", uint64(0), ""
		var mopts proto.Message
		if m.Options != nil {
			mopts = m.Options
		}
		if hr, ok := getExt[*annotations.HttpRule](mopts, annotations.E_Http); ok && hr != nil {
			body = hr.GetBody()
			switch p := hr.Pattern.(type) {
			case *annotations.HttpRule_Get:
				verb, path = 1, p.Get
			case *annotations.HttpRule_Post:
				verb, path = 2, p.Post
			case *annotations.HttpRule_Put:
				verb, path = 3, p.Put
			case *annotations.HttpRule_Delete:
				verb, path = 4, p.Delete
			case *annotations.HttpRule_Patch:
				verb, path = 5, p.Patch
			}
		}
		if mo, ok := getExt[*ext_j5pb.MethodOptions](mopts, ext_j5pb.E_Method); ok && mo != nil {
			if q := mo.GetStateQuery(); q != nil {
				switch {
				case q.GetGet():
					sq = 1
				case q.GetList():
					sq = 2
				case q.GetListEvents():
					sq = 3
				}
			}
		}
		out = append(out, line{Tag: 7,
			Strs: []string{m.GetName(), strings.TrimPrefix(m.GetInputType(), "."), strings.TrimPrefix(m.GetOutputType(), "."), path, body},
			Nums: []uint64{verb, sq}})
	}
	return out
}

type dumped struct {
	Files []*descriptorpb.FileDescriptorProto // ordered: pkg, pkg.service, pkg.topic
	Lines []line
}

func dumpFiles(pkg string, files []protoreflect.FileDescriptor) (*dumped, error) {
	d := &dumped{}
	for _, f := range files {
		c, err := concrete(f)
		if err != nil {
			return nil, err
		}
		d.Files = append(d.Files, c)
	}
	sort.SliceStable(d.Files, func(i, j int) bool {
		return fileIndex(pkg, d.Files[i].GetPackage()) < fileIndex(pkg, d.Files[j].GetPackage())
	})
	for _, f := range d.Files {
		idx := fileIndex(pkg, f.GetPackage())
		cm := fileComments(f)
		for i, m := range f.MessageType {
			d.Lines = append(d.Lines, msgLinesC(f.GetPackage(), idx, m, cm, []int32{4, int32(i)})...)
		}
		for _, e := range f.EnumType {
			d.Lines = append(d.Lines, line{Tag: 4, Strs: []string{f.GetPackage() + "." + e.GetName()}, Nums: []uint64{}})
			for _, v := range e.Value {
				d.Lines = append(d.Lines, line{Tag: 5, Strs: []string{v.GetName()}, Nums: []uint64{uint64(v.GetNumber())}})
			}
		}
		for i, s := range f.Service {
			d.Lines = append(d.Lines, svcLinesC(f.GetPackage(), idx, s, cm, []int32{6, int32(i)})...)
		}
	}
	// the comments of the elements that are not fields (tag 16: [element full name; comment]), after
	// all structural lines, in descriptor order: per file the messages (pre-order: the message, its
	// nested messages, its nested enums and their values), the enums with their values, the services
	// with their methods
	for _, f := range d.Files {
		cm := fileComments(f)
		note := func(name string, path []int32) {
			if t, ok := cm[pathKey(path)]; ok && t != "" {
				d.Lines = append(d.Lines, line{Tag: 16, Strs: []string{name, t}, Nums: []uint64{}})
			}
		}
		var walkMsg func(prefix string, m *descriptorpb.DescriptorProto, path []int32)
		walkEnum := func(prefix string, e *descriptorpb.EnumDescriptorProto, path []int32) {
			note(prefix+"."+e.GetName(), path)
			for j, v := range e.Value {
				note(prefix+"."+e.GetName()+"."+v.GetName(), sub(path, 2, int32(j)))
			}
		}
		walkMsg = func(prefix string, m *descriptorpb.DescriptorProto, path []int32) {
			full := prefix + "." + m.GetName()
			note(full, path)
			for i, n := range m.NestedType {
				walkMsg(full, n, sub(path, 3, int32(i)))
			}
			for i, e := range m.EnumType {
				walkEnum(full, e, sub(path, 4, int32(i)))
			}
		}
		for i, m := range f.MessageType {
			walkMsg(f.GetPackage(), m, []int32{4, int32(i)})
		}
		for i, e := range f.EnumType {
			walkEnum(f.GetPackage(), e, []int32{5, int32(i)})
		}
		for i, sv := range f.Service {
			note(f.GetPackage()+"."+sv.GetName(), []int32{6, int32(i)})
			for j, m := range sv.Method {
				note(f.GetPackage()+"."+sv.GetName()+"."+m.GetName(), []int32{6, int32(i), 2, int32(j)})
			}
		}
	}
	return d, nil
}

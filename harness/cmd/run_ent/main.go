// run_ent: implementation runner for the entity family (C17) and the Strcase library stream.
package main

import "verifharness/vh"

func main() { vh.Main() }

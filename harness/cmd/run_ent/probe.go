package main

import (
	"context"
	"fmt"
	"io"
	"log"
	"os"
	"path/filepath"
	"sort"
	"strings"

	"github.com/pentops/j5/lib/verifshim/compile"
	"verifharness/vh"
)

// Pseudo-property "c17probe": compile every *.j5s file of the directory VERIF_PROBE_DIR with the
// real compiler, derive the client API, and print the outcome (for reproducing findings by hand):
//   VERIF_PROBE_DIR=/tmp/x run_ent -prop c17probe -out /tmp/x/out
// The first line of each file must be `package <name>`.
func init() { vh.Register("c17probe", runProbe) }

func runProbe(cfg *vh.Config) error {
	log.SetOutput(io.Discard)
	dir := os.Getenv("VERIF_PROBE_DIR")
	names, _ := filepath.Glob(filepath.Join(dir, "*.j5s"))
	sort.Strings(names)
	for _, fn := range names {
		b, err := os.ReadFile(fn)
		if err != nil {
			return err
		}
		text := string(b)
		first := strings.SplitN(text, "\n", 2)[0]
		pkg := strings.TrimSpace(strings.TrimPrefix(first, "package"))
		fmt.Printf("=== %s (package %s)\n", filepath.Base(fn), pkg)
		func() {
			defer func() {
				if r := recover(); r != nil {
					fmt.Printf("  PANIC: %v\n", r)
				}
			}()
			files, err := compile.Compile(context.Background(), map[string]string{strings.ReplaceAll(pkg, ".", "/") + "/ent.j5s": text}, pkg)
			if err != nil {
				fmt.Printf("  compile ERR [%s]: %s\n", errClass(err), strings.ReplaceAll(err.Error(), "\n", " | "))
				return
			}
			dd, err := dumpFiles(pkg, files)
			if err != nil {
				fmt.Printf("  dump ERR: %v\n", err)
				return
			}
			fmt.Printf("  compile OK: %d files, %d lines\n", len(files), len(dd.Lines))
			if os.Getenv("VERIF_PROBE_LINES") != "" {
				for _, l := range dd.Lines {
					fmt.Printf("    %s\n", l.String())
				}
			}
			ents, plain, cerr, cpan := clientEntities(pkg, files)
			switch {
			case cpan != nil:
				fmt.Printf("  client PANIC: %v\n", cpan)
			case cerr != nil:
				fmt.Printf("  client ERR [%s]: %s\n", errClass(cerr), strings.ReplaceAll(cerr.Error(), "\n", " | "))
			default:
				fmt.Printf("  client OK: %d state entities, %d plain services\n", len(ents), len(plain))
				for _, l := range clientLines(ents) {
					if os.Getenv("VERIF_PROBE_LINES") != "" || l.Tag == 9 {
						fmt.Printf("    %s\n", l.String())
					}
				}
			}
		}()
	}
	return nil
}

package main

import (
	"context"
	"fmt"
	"io"
	"log"
	"strings"

	"github.com/iancoleman/strcase"
	"github.com/pentops/j5/gen/j5/client/v1/client_j5pb"
	"github.com/pentops/j5/lib/verifshim/compile"
	"google.golang.org/protobuf/reflect/protoreflect"
	"google.golang.org/protobuf/types/descriptorpb"
	"verifharness/vh"
)

func init() { vh.Register("C17", runC17) }

// ---- generator -----------------------------------------------------------------------

var entNames = []string{"Foo", "foo", "fooBar", "FooBar", "foo_bar", "Foo_Bar", "FOO", "FooS", "F", "f", "ABc", "Foo2", "foo2bar",
	"A1", "fooBAR", "FOOBar", "x", "a_b_c", "Widget", "userID", "HTTPServer", "Order_v2", "orderLine", "Thing1", "aB", "Ab", "AB", "iOS",
	"foo_", "foo__bar", "FooEvent", "FooState", "State", "Keys", "fooKeys", "X9Y", "x9", "Z_", "camelCaseName", "snake_case_name", "SCREAMING_NAME"}

var pkgNames = []string{"foo.v1", "foo.v1", "bar.baz.v2", "a.v1", "test.deep.pkg.v3"}

type scalarT struct {
	j5    string
	ptype int
	kind  string
}

var scalars = []scalarT{
	{"string", 9, "string"}, {"bool", 8, "bool"}, {"integer:INT32", 5, "integer"}, {"integer:INT64", 3, "integer"},
	{"integer:UINT32", 13, "integer"}, {"integer:UINT64", 4, "integer"}, {"float:FLOAT64", 1, "float"}, {"float:FLOAT32", 2, "float"},
	{"bytes", 12, "bytes"},
}

const identAlpha = "abcdefghijklmnopqrstuvwxyz"

func genIdent(r *vh.Rand, style int) string {
	// 0 lowerCamel, 1 snake, 2 UpperCamel, 3 wild (letters, digits, underscores, capital runs)
	var sb strings.Builder
	words := r.Range(1, 3)
	for w := 0; w < words; w++ {
		n := r.Range(1, 5)
		word := make([]byte, n)
		for i := range word {
			word[i] = identAlpha[r.Intn(26)]
		}
		s := string(word)
		switch style {
		case 0:
			if w > 0 {
				s = strings.ToUpper(s[:1]) + s[1:]
			}
		case 1:
			if w > 0 {
				s = "_" + s
			}
		case 2:
			s = strings.ToUpper(s[:1]) + s[1:]
		default:
			switch r.Intn(6) {
			case 0:
				s = strings.ToUpper(s)
			case 1:
				s = strings.ToUpper(s[:1]) + s[1:]
			case 2:
				s = s + fmt.Sprint(r.Intn(100))
			case 3:
				s = "_" + s
			case 4:
				s = s + strings.ToUpper(string(identAlpha[r.Intn(26)]))
			}
			if w == 0 && (s[0] == '_' || (s[0] >= '0' && s[0] <= '9')) {
				s = "e" + s
			}
		}
		sb.WriteString(s)
	}
	return sb.String()
}

type nameSet map[string]bool

// fresh draws names until one is new under every key function.
func (ns nameSet) fresh(gen func() string, keys ...func(string) string) string {
	for try := 0; ; try++ {
		n := gen()
		if try > 50 {
			n = fmt.Sprintf("%sx%d", n, try)
		}
		ok := true
		for _, k := range keys {
			if ns[k(n)] {
				ok = false
			}
		}
		if ok {
			for _, k := range keys {
				ns[k(n)] = true
			}
			return n
		}
	}
}

func snakeKey(s string) string { return "s:" + strcase.ToSnake(s) }
func rawKey(s string) string   { return "r:" + s }
func camelKey(s string) string { return "c:" + strcase.ToCamel(s) }
func lowerKey(s string) string { return "l:" + strings.ToLower(strings.ReplaceAll(s, "_", "")) }

func genScalarField(r *vh.Rand, name string) uField {
	t := vh.Pick(r, scalars)
	u := uField{Name: name, J5Type: t.j5, PType: t.ptype, J5Kind: t.kind, Required: r.Chance(25), Bang: r.Bool(), SayFalse: r.Chance(20)}
	if !u.Required && r.Chance(15) {
		u.Optional = true
	}
	return u
}

func genKeyTyped(r *vh.Rand, name string) uField {
	u := uField{Name: name, Key: true, KeyFmt: vh.Pick(r, []string{"", "id62", "uuid", "id62"}), PType: 9, J5Kind: "key", Required: r.Chance(30), Bang: r.Bool(), SayFalse: r.Chance(30)}
	if !u.Required && r.Chance(10) {
		u.Optional = true
	}
	return u
}

func genFields(r *vh.Rand, lo, hi int, reserved ...string) []uField {
	ns := nameSet{}
	for _, x := range reserved {
		ns[snakeKey(x)] = true
	}
	var out []uField
	for k := r.Range(lo, hi); k > 0; k-- {
		name := ns.fresh(func() string { return genIdent(r, r.Intn(2)) }, snakeKey, lowerKey)
		if r.Chance(20) {
			out = append(out, genKeyTyped(r, name))
		} else {
			out = append(out, genScalarField(r, name))
		}
	}
	return out
}

func ptr(s string) *string { return &s }

func genEntity(r *vh.Rand) *entityDecl { return genEntityOpt(r, false, "") }

func genEntityOpt(r *vh.Rand, second bool, forcedName string) *entityDecl {
	d := &entityDecl{Pkg: vh.Pick(r, pkgNames), second: second}
	switch r.Intn(4) {
	case 0, 1:
		d.Name = vh.Pick(r, entNames)
	case 2:
		d.Name = genIdent(r, r.Intn(3))
	default:
		d.Name = genIdent(r, 3)
	}
	if forcedName != "" {
		d.Name = forcedName
	}
	if r.Chance(15) {
		d.BaseURL = vh.Pick(r, []string{"x/y", "custom", "a/b/c_d", "v1/things", "/rooted/", "dbl//slash", "trail/"})
	}
	// keys
	ks := nameSet{snakeKey("page"): true, snakeKey("query"): true, snakeKey("events"): true}
	nKeys := r.Range(1, 4)
	for i := 0; i < nKeys; i++ {
		name := ks.fresh(func() string {
			if r.Chance(40) {
				return vh.Pick(r, []string{"fooId", "foo_id", "id", "accountId", "tenant_id", "orgID", "k2", "parentId", "shard"})
			}
			return genIdent(r, r.Intn(2))
		}, snakeKey, lowerKey)
		var k eKey
		if r.Chance(80) {
			k.uField = genKeyTyped(r, name)
			switch r.Intn(5) {
			case 0, 1:
				k.Primary = true
				k.Optional = false
			case 2:
				if r.Bool() {
					k.Tenant = ptr(vh.Pick(r, []string{"account", "org", "t_1"}))
				}
			case 3:
				k.Foreign = &[2]string{vh.Pick(r, []string{"other.v1", "bar.baz.v2", d.Pkg}), vh.Pick(r, []string{"thing", "account", "foo_bar", "Widget"})}
				if r.Chance(30) {
					k.Tenant = ptr("org")
				}
			}
			if k.Primary && r.Chance(15) {
				k.Tenant = ptr("owner")
			}
		} else {
			k.uField = genScalarField(r, name)
		}
		k.Shard = r.Chance(25)
		d.Keys = append(d.Keys, k)
	}
	d.Data = genFields(r, 0, 4)
	// statuses
	ss := nameSet{}
	for k := r.Range(1, 4); k > 0; k-- {
		d.Status = append(d.Status, ss.fresh(func() string {
			if r.Chance(85) {
				return vh.Pick(r, []string{"ACTIVE", "INACTIVE", "PENDING", "DONE", "A_B", "S1", "NEW", "ARCHIVED", "IN_PROGRESS", "X"})
			}
			return vh.Pick(r, []string{"Active", "active", "inProgress", "Done2", "a_b", "Draft", "onHold"})
		}, rawKey, lowerKey))
	}
	// edge cases of visitEnumNode/addValue: a first status ending in UNSPECIFIED takes slot 0,
	// a status that already carries the prefix keeps its name
	if r.Chance(8) {
		d.Status = append([]string{vh.Pick(r, []string{"UNSPECIFIED", "X_UNSPECIFIED", strcase.ToScreamingSnake(d.Name) + "_STATUS_UNSPECIFIED"})}, d.Status...)
	}
	if r.Chance(8) {
		pre := strcase.ToScreamingSnake(d.Name) + "_STATUS_" + vh.Pick(r, []string{"LIVE", "Z9"})
		if !ss[lowerKey(pre)] {
			d.Status = append(d.Status, pre)
		}
	}
	// events
	es := nameSet{}
	for k := r.Range(0, 3); k > 0; k-- {
		name := es.fresh(func() string {
			if r.Chance(70) {
				return vh.Pick(r, []string{"Create", "Update", "Archive", "Delete", "Created", "DoThing", "Renamed", "V2Migrated"})
			}
			return genIdent(r, 2)
		}, rawKey, func(s string) string { return snakeKey(strcase.ToLowerCamel(s)) }, lowerKey)
		d.Events = append(d.Events, eEvent{Name: name, Fields: genFields(r, 0, 3)})
	}
	// commands: service names and method names are unique in the .service package
	svcNames := nameSet{}
	methodNames := nameSet{}
	for _, q := range []string{"Get", "List", "Events"} {
		methodNames[rawKey(strcase.ToCamel(strcase.ToSnake(d.Name))+q)] = true
	}
	for k := r.Range(0, 2); k > 0; k-- {
		var c eCommand
		if r.Chance(50) && !svcNames["default"] {
			svcNames["default"] = true
		} else {
			n := svcNames.fresh(func() string { return vh.Pick(r, []string{"Special", "OtherCommand", "Admin", "Ops", "BulkCommand", "Extra"}) },
				func(s string) string { return strings.TrimSuffix(s, "Command") })
			c.Name = &n
		}
		if r.Chance(40) {
			c.Base = ptr(vh.Pick(r, []string{"sp", "admin", "x/y", "ops_2", "/lead", "trail/", "a//b", "/"}))
		}
		if r.Chance(35) {
			c.Audience = vh.Pick(r, [][]string{{"admin"}, {"ops", "admin"}, {"public"}})
			c.OptionsForm = r.Intn(2)
		}
		for mk := r.Range(0, 2); mk > 0; mk-- {
			m := eMethod{Verb: vh.Pick(r, []int{1, 2, 2, 3, 4, 5})}
			m.Name = methodNames.fresh(func() string {
				return vh.Pick(r, []string{"DoIt", "Create", "Update", "Archive", "Rename", "Touch", "Bump", "SetName", "Op"}) + vh.Pick(r, []string{"", "", "Foo", "2", "Thing"})
			}, rawKey)
			m.Request = genFields(r, 0, 3)
			if r.Chance(15) {
				m.NoResponse = true
			} else {
				m.Response = genFields(r, 0, 2)
			}
			var parts []string
			for _, f := range m.Request {
				if r.Chance(50) {
					if r.Chance(40) {
						parts = append(parts, vh.Pick(r, []string{"do", "items", "sub_path", "x"}))
					}
					parts = append(parts, ":"+f.Name)
				}
			}
			if r.Chance(50) {
				parts = append(parts, vh.Pick(r, []string{"go", "run", "action"}))
			}
			m.Path = strings.Join(parts, "/")
			// path.Join cleans what the declaration leaves unclean
			switch r.Intn(8) {
			case 0:
				m.Path = "/" + m.Path
			case 1:
				if m.Path != "" {
					m.Path += "/"
				}
			case 2:
				m.Path = strings.Replace(m.Path, "/", "//", 1)
			}
			c.Methods = append(c.Methods, m)
		}
		d.Commands = append(d.Commands, c)
	}
	// summaries: topic names are unique in the .topic package
	sums := nameSet{rawKey("Publish"): true, camelKey("Publish"): true, camelKey("Event"): true}
	for k := r.Range(0, 2); k > 0; k-- {
		name := ""
		if r.Chance(60) || sums[rawKey("")] {
			name = sums.fresh(func() string { return vh.Pick(r, []string{"Small", "big_view", "small", "Overview", "list_item", "V2", "Mini"}) }, rawKey, camelKey)
		} else {
			sums[rawKey("")] = true
			sums[camelKey("Summary")] = true
		}
		d.Summaries = append(d.Summaries, eSummary{Name: name, Fields: genFields(r, 0, 3, "upsert")})
	}
	// objects declared in the entity block, and references to them (or to the entity's own
	// generated schemas) from data / event / command / summary fields
	if r.Chance(35) {
		sn := nameSet{}
		for k := r.Range(1, 2); k > 0; k-- {
			name := sn.fresh(func() string { return vh.Pick(r, []string{"Address", "Money", "Tag", "Meta", "Dimensions", "Contact"}) + d.schemaSuffix() }, rawKey)
			sc := eSchema{Name: name, Fields: genFields(r, 0, 3, "keys")}
			if len(d.Schemas) > 0 && r.Chance(40) {
				sc.Fields = append(sc.Fields, uField{Name: "prev", Obj: d.Schemas[0].Name, PType: 11, J5Kind: "object"})
			}
			if r.Chance(40) {
				// an object that embeds the entity's keys must not be taken for its KEYS part
				sc.Fields = append(sc.Fields, uField{Name: "keys", Obj: strcase.ToCamel(d.Name) + "Keys", PType: 11, J5Kind: "object", Required: r.Bool()})
			}
			d.Schemas = append(d.Schemas, sc)
		}
		// an enum and a oneof declared in the entity block (the other two arms of RangeNestedSchemas)
		var enumName, oneofName string
		if r.Chance(50) {
			enumName = vh.Pick(r, []string{"Kind", "Colour", "level_type", "Mode"}) + d.schemaSuffix()
			opts := [][]string{{"A", "B"}, {"RED", "GREEN", "DARK_BLUE"}, {"LOW"}, {"UNSPECIFIED", "ON", "OFF"}}
			d.Schemas = append(d.Schemas, eSchema{Kind: 2, Name: enumName, Options: vh.Pick(r, opts)})
		}
		if r.Chance(40) {
			oneofName = vh.Pick(r, []string{"Choice", "Payload", "Either"}) + d.schemaSuffix()
			var opts []uField
			for _, f := range genFields(r, 1, 3) {
				f.Required, f.Optional, f.SayFalse = false, false, false
				opts = append(opts, f)
			}
			if pos := r.Intn(len(d.Schemas) + 1); true {
				sc := eSchema{Kind: 1, Name: oneofName, Fields: opts}
				d.Schemas = append(d.Schemas[:pos], append([]eSchema{sc}, d.Schemas[pos:]...)...)
			}
		}
		targets := []string{strcase.ToCamel(d.Name) + "Keys", strcase.ToCamel(d.Name) + "Data"}
		for _, sc := range d.Schemas {
			if sc.Kind == 0 {
				targets = append(targets, sc.Name, sc.Name)
			}
		}
		ref := func(name string) uField {
			u := uField{Name: name, Obj: vh.Pick(r, targets), PType: 11, J5Kind: "object", Required: r.Chance(20), Bang: r.Bool()}
			switch {
			case enumName != "" && r.Chance(25):
				u.Obj, u.RefKind, u.PType, u.J5Kind = enumName, "enum", 14, "enum"
			case oneofName != "" && r.Chance(25):
				u.Obj, u.RefKind, u.J5Kind = oneofName, "oneof", "oneof"
			}
			return u
		}
		if r.Chance(60) {
			d.Data = append(d.Data, ref("refField"))
		}
		if len(d.Events) > 0 && r.Chance(50) {
			d.Events[0].Fields = append(d.Events[0].Fields, ref("refInEvent"))
		}
		if len(d.Summaries) > 0 && r.Chance(50) {
			d.Summaries[0].Fields = append(d.Summaries[0].Fields, ref("refInSummary"))
		}
		if len(d.Commands) > 0 && len(d.Commands[0].Methods) > 0 && r.Chance(50) {
			m := &d.Commands[0].Methods[0]
			if m.Verb != 1 { // an object cannot be a query parameter of a GET
				m.Request = append(m.Request, ref("refInRequest"))
			}
			if !m.NoResponse {
				m.Response = append(m.Response, ref("refInResponse"))
			}
		}
	}
	if r.Chance(50) {
		q := &eQuery{EventsInGet: r.Bool(), SayFalse: r.Bool()}
		for _, s := range d.Status {
			if r.Chance(40) {
				q.DefaultStatus = append(q.DefaultStatus, s)
			}
		}
		// the filters keep the order (and repetitions) in which they are listed
		if len(q.DefaultStatus) > 1 && r.Chance(50) {
			i, j := r.Intn(len(q.DefaultStatus)), r.Intn(len(q.DefaultStatus))
			q.DefaultStatus[i], q.DefaultStatus[j] = q.DefaultStatus[j], q.DefaultStatus[i]
		}
		if len(q.DefaultStatus) > 0 && r.Chance(10) {
			q.DefaultStatus = append(q.DefaultStatus, q.DefaultStatus[0])
		}
		d.Query = q
	}
	return d
}

// schemaSuffix keeps entity-level schema names apart when a file declares two entities.
func (d *entityDecl) schemaSuffix() string {
	if d.second {
		return "B"
	}
	return ""
}

func squash(s string) string { return strings.ToLower(strings.ReplaceAll(s, "_", "")) }

// genSecond draws a second entity for the same file whose generated names cannot collide
// with the first one's.
func genSecond(r *vh.Rand, first *entityDecl) *entityDecl {
	for {
		d := genEntityOpt(r, true, "")
		a, b := squash(first.Name), squash(d.Name)
		if a == "" || b == "" || strings.HasPrefix(a, b) || strings.HasPrefix(b, a) {
			continue
		}
		d.Pkg = first.Pkg
		for i := range d.Commands {
			if d.Commands[i].Name != nil {
				n := "Two" + *d.Commands[i].Name
				d.Commands[i].Name = &n
			}
			for k := range d.Commands[i].Methods {
				d.Commands[i].Methods[k].Name += "B"
			}
		}
		return d
	}
}

// malformed stream: declarations entityNode.run rejects
func genMalformed(r *vh.Rand) (*entityDecl, string) {
	d := genEntity(r)
	if r.Chance(30) {
		// buildProperty: a field cannot be both required (or a primary key) and optional
		switch {
		case len(d.Data) > 0 && r.Bool():
			d.Data[0].Required, d.Data[0].Optional = true, true
		case len(d.Events) > 0 && len(d.Events[0].Fields) > 0 && r.Bool():
			d.Events[0].Fields[0].Required, d.Events[0].Fields[0].Optional = true, true
		default:
			k := &d.Keys[r.Intn(len(d.Keys))]
			if !k.Key {
				k.uField = genKeyTyped(r, k.Name)
			}
			k.Primary, k.Foreign, k.Optional, k.Required = true, nil, true, false
		}
		return d, "optional-required"
	}
	if r.Chance(20) {
		// an object reference that names nothing: resolveType fails
		d.Data = append(d.Data, uField{Name: "dangling", Obj: vh.Pick(r, []string{"NoSuchType", strcase.ToCamel(d.Name) + "Stat", "Addres"}), PType: 11, J5Kind: "object"})
		return d, "dangling-reference"
	}
	if r.Chance(25) {
		// visitServiceMethodNode: a ":name" path part must be a request field
		m := eMethod{Name: "MissingParam", Verb: 2, Path: vh.Pick(r, []string{":nope", "x/:nope/y", ":a/:nope"}), Request: []uField{genScalarField(r, "a")}}
		if len(d.Commands) == 0 {
			d.Commands = append(d.Commands, eCommand{})
		}
		c := &d.Commands[r.Intn(len(d.Commands))]
		c.Methods = append(c.Methods, m)
		return d, "missing-path-field"
	}
	if r.Bool() {
		if d.Query == nil {
			d.Query = &eQuery{}
		}
		d.Query.DefaultStatus = append(d.Query.DefaultStatus, "NO_SUCH_STATUS")
		return d, "unknown-default-status"
	}
	n := vh.Pick(r, []string{"Small", "", "dup"})
	d.Summaries = []eSummary{{Name: n, Fields: genFields(r, 0, 2, "upsert")}, {Name: n, Fields: genFields(r, 0, 2, "upsert")}}
	return d, "duplicate-summary"
}

// ---- running the real compiler ----------------------------------------------------------

type compiled struct {
	dump     *dumped
	files    []protoreflect.FileDescriptor
	err      error
	panicked any
}

func compileEntity(d *fileDecl) (out compiled) {
	defer func() {
		if r := recover(); r != nil {
			out.panicked = r
		}
	}()
	files, err := compile.Compile(context.Background(), map[string]string{d.filename(): d.j5s()}, d.pkg())
	if err != nil {
		out.err = err
		return
	}
	dd, err := dumpFiles(d.pkg(), files)
	if err != nil {
		out.err = fmt.Errorf("dump: %w", err)
		return
	}
	out.dump = dd
	out.files = files
	return
}

const c17Shard = 25

func runC17(cfg *vh.Config) error {
	log.SetOutput(io.Discard) // the compiler logs every walker error
	res := vh.NewResult("C17", cfg.Seed)
	res.Rule = "entity declarations: name casings (fixed list incl. trailing capitals/acronyms/digits/underscores + generated identifiers), 1-4 keys (key-typed id62/uuid/plain with primary/tenant, or scalar) x shard flag x required, 0-4 data fields over 9 scalar types + keys, 1-4 statuses (+ the UNSPECIFIED-first and prefixed-name edge cases), foreign keys, optional fields, methods without response, objects declared in the entity block and object references to them / to the generated Keys and Data, 0-3 events with 0-3 fields, 0-2 command services (default/named, base path (also with leading/trailing/double slashes, cleaned by path.Join), own options block with audience/default auth, 0-2 methods with path parameters), boolean attributes also spelled out as false (primary/shardKey/required/optional/eventsInGet = false), 0-2 summaries (default/named), optional query settings; 20% of the files declare two entities; malformed: unknown default status, duplicate summary, optional+required field, path parameter that is not a request field, dangling object reference; plus the strcase stream; non-trivial = distinct declaration text"
	cf := &vh.CasesFile{
		Header: "From Coq Require Import String List NArith.\nFrom J5V.lib Require Import Outcome.\nFrom J5V.model Require Import Entity EntityCorr.",
		Type:   "c17case",
		Check:  "c17_check",
	}
	distinct := vh.Distinct{}
	caseNo := 0
	r := cfg.R

	var decls []*fileDecl
	var kinds []string
	// every fixed name once with a small fixed shape, then random declarations
	for _, n := range entNames {
		d := genEntityOpt(r.Fork("fixed:"+n), false, n)
		decls = append(decls, &fileDecl{Ents: []*entityDecl{d}})
		kinds = append(kinds, "fixed-name")
	}
	nGen := cfg.Scale(160, 4000)
	for i := 0; i < nGen; i++ {
		d := genEntity(r)
		if r.Chance(20) {
			decls = append(decls, &fileDecl{Ents: []*entityDecl{d, genSecond(r, d)}})
			kinds = append(kinds, "two-entities")
		} else {
			decls = append(decls, &fileDecl{Ents: []*entityDecl{d}})
			kinds = append(kinds, "generated")
		}
	}
	nBad := cfg.Scale(24, 300)
	for i := 0; i < nBad; i++ {
		d, k := genMalformed(r)
		decls = append(decls, &fileDecl{Ents: []*entityDecl{d}})
		kinds = append(kinds, k)
	}

	for i, d := range decls {
		text := d.j5s()
		distinct.Add(text)
		res.Count("entity_" + kinds[i])
		for _, e := range d.Ents {
			countShape(res, e)
		}
		out := compileEntity(d)
		in := map[string]any{"j5s": text}
		malformed := kinds[i] == "unknown-default-status" || kinds[i] == "duplicate-summary" || kinds[i] == "optional-required" || kinds[i] == "missing-path-field" || kinds[i] == "dangling-reference"
		if out.panicked != nil {
			res.Fail(vh.Failure{Case: caseNo, Stream: "entity", Sig: "C17 compiler panic on entity declaration", Clause: "entity expansion is total", Input: in, Got: fmt.Sprint(out.panicked)})
			caseNo++
			continue
		}
		ok := out.err == nil
		var lines []line
		if ok {
			lines = out.dump.Lines
			res.Count("compiled_ok")
			if malformed {
				res.Fail(vh.Failure{Case: caseNo, Stream: "entity", Sig: "C17 malformed entity (" + kinds[i] + ") accepted", Clause: "walker rejects unknown default status / duplicate summary", Input: in, Got: "compiled"})
			} else if len(d.Ents) == 1 {
				oracleC17(res, caseNo, d.Ents[0], out.dump, in)
			}
		} else {
			res.Count("compiled_err")
			if !malformed {
				// an admissible declaration must compile (closedness of the expansion)
				sig := "C17 admissible entity fails to compile: " + errClass(out.err)
				if strings.Contains(out.err.Error(), "not found") && endsCap(d.Ents[0].Name) {
					sig = "C17 entity name ending in a capital fails to compile: type <Name>State/Event/EventType not found (entity.go naming)"
				}
				res.Fail(vh.Failure{Case: caseNo, Stream: "entity", Sig: sig, Clause: "every internal reference of the expansion resolves", Input: in, Got: out.err.Error()})
			}
		}
		// second observable: the client API's StateEntity, derived by the real j5client
		var clines []line
		cok := false
		if ok {
			ents, plain, cerr, cpan := clientEntities(d.pkg(), out.files)
			switch {
			case cpan != nil:
				res.Fail(vh.Failure{Case: caseNo, Stream: "entity", Sig: "C17 client API derivation panics on a compiled entity", Clause: "the client groups the parts into one StateEntity", Input: in, Got: fmt.Sprint(cpan)})
			case cerr != nil:
				res.Count("client_err")
				if !malformed {
					res.Fail(vh.Failure{Case: caseNo, Stream: "entity", Sig: "C17 client API derivation fails on a compiled entity: " + errClass(cerr), Clause: "the client groups the parts into one StateEntity", Input: in, Got: cerr.Error()})
				}
			default:
				cok = true
				// the client lists entities in map order: bring them into declaration order
				var ordered []*client_j5pb.StateEntity
				for _, decl := range d.Ents {
					for _, e := range ents {
						if e.Name == strcase.ToSnake(decl.Name) {
							ordered = append(ordered, e)
						}
					}
				}
				if len(ordered) != len(ents) || len(ents) != len(d.Ents) {
					res.Fail(vh.Failure{Case: caseNo, Stream: "entity", Sig: "C17 client API does not show one state entity per declared entity", Clause: "the client groups the parts into one StateEntity", Input: in, Got: fmt.Sprint(len(ents))})
					ordered = ents
				}
				clines = clientLines(ordered)
				if !malformed {
					for k, decl := range d.Ents {
						if k < len(ordered) {
							oracleClient(res, caseNo, decl, ordered[k:k+1], plain, in)
						}
					}
				}
			}
		}
		lineTerms := make([]string, len(lines))
		for k, l := range lines {
			lineTerms[k] = l.coq()
		}
		clineTerms := make([]string, len(clines))
		for k, l := range clines {
			clineTerms[k] = l.coq()
		}
		cf.Terms = append(cf.Terms, fmt.Sprintf("EC %s %s [%s] %s [%s]", d.coq(), vh.BoolTerm(ok), strings.Join(lineTerms, ";\n    "), vh.BoolTerm(cok), strings.Join(clineTerms, ";\n    ")))
		impl := map[string]any{"ok": ok, "lines": len(lines), "client_ok": cok, "client_lines": len(clines)}
		if !ok {
			impl["err"] = errClass(out.err)
		}
		res.Cases = append(res.Cases, vh.CaseRec{Case: caseNo, Stream: "entity", Input: in, Impl: impl})
		if i%37 == 5 {
			res.Sample(map[string]any{"stream": "entity", "name": d.Ents[0].Name, "entities": len(d.Ents), "ok": ok, "lines": len(lines)}, 6)
		}
		caseNo++
	}
	res.Distinct = len(distinct)
	shards, err := cf.WriteShards(cfg.Out, "cases", c17Shard)
	if err != nil {
		return err
	}
	for i := range res.Cases {
		res.Cases[i].Shard = fmt.Sprintf("cases_%d", i/c17Shard)
		res.Cases[i].Pos = i % c17Shard
	}

	// ---- the Strcase library stream (its own case type and shards)
	nEnt := len(res.Cases)
	scf := &vh.CasesFile{
		Header: "From Coq Require Import String List NArith.\nFrom J5V.model Require Import EntityStrcaseCorr.",
		Type:   "strcase_case",
		Check:  "strcase_check",
	}
	scf.Terms = strcaseStream(cfg, r.Fork("strcase"), res, cfg.Scale(1000, 20000), &caseNo, distinct)
	// entity names used above are strcase inputs too
	scShards, err := scf.WriteShards(cfg.Out, "sc", strcaseShard)
	if err != nil {
		return err
	}
	for i := nEnt; i < len(res.Cases); i++ {
		res.Cases[i].Shard = fmt.Sprintf("sc_%d", (i-nEnt)/strcaseShard)
		res.Cases[i].Pos = (i - nEnt) % strcaseShard
	}
	res.Evaluations = caseNo
	res.Distinct = len(distinct)
	res.Shards = append(shards, scShards...)
	return res.Write(cfg.Out)
}

func endsCap(s string) bool {
	return s != "" && s[len(s)-1] >= 'A' && s[len(s)-1] <= 'Z'
}

func errClass(err error) string {
	s := err.Error()
	switch {
	case strings.Contains(s, "cannot be both required and optional"):
		return "required and optional"
	case strings.Contains(s, "missing field") && strings.Contains(s, "in request"):
		return "missing field in request"
	case strings.Contains(s, "not found in entity"):
		return "status not found in entity"
	case strings.Contains(s, "duplicate summary"):
		return "duplicate summary name"
	case strings.Contains(s, "must contain at least one field declaration"):
		return "proto oneof without members"
	case strings.Contains(s, "unknown enum value"):
		return "unknown enum value"
	case strings.Contains(s, "not found"):
		return "type not found"
	case strings.Contains(s, "already defined") || strings.Contains(s, "duplicate") || strings.Contains(s, "conflict"):
		return "name conflict"
	}
	if len(s) > 80 {
		s = s[:80]
	}
	return s
}

// ---- direct oracle: the property clauses, re-stated on the real descriptors -----------------

func findMsg(f *descriptorpb.FileDescriptorProto, name string) *descriptorpb.DescriptorProto {
	for _, m := range f.MessageType {
		if m.GetName() == name {
			return m
		}
	}
	return nil
}

func oracleC17(res *vh.Result, caseNo int, d *entityDecl, dump *dumped, in any) {
	fail := func(sig, clause, got string) {
		res.Fail(vh.Failure{Case: caseNo, Stream: "entity", Sig: sig, Clause: clause, Input: in, Got: got})
	}
	if len(dump.Files) != 3 {
		fail("C17 expansion does not produce the three files", "schemas + .service + .topic files", fmt.Sprint(len(dump.Files)))
		return
	}
	main, svc, topic := dump.Files[0], dump.Files[1], dump.Files[2]
	lines := map[string][]line{} // message full name -> its lines
	var cur string
	for _, l := range dump.Lines {
		if l.Tag == 1 {
			cur = l.Strs[0]
		}
		if l.Tag == 1 || l.Tag == 2 || l.Tag == 3 {
			lines[cur] = append(lines[cur], l)
		}
	}
	// the Keys message (by annotation) names the entity prefix X
	var X, entAnn string
	for _, l := range dump.Lines {
		if l.Tag == 1 && l.Nums[1] == 1 && l.Nums[0] == 0 {
			name := strings.TrimPrefix(l.Strs[0], d.Pkg+".")
			if !strings.HasSuffix(name, "Keys") {
				fail("C17 KEYS part not named <X>Keys", "named from the entity name", name)
				return
			}
			X, entAnn = strings.TrimSuffix(name, "Keys"), l.Strs[1]
		}
	}
	if X == "" {
		fail("C17 no message annotated as KEYS part", "Keys schema with entity annotation", "")
		return
	}
	squash := func(s string) string { return strings.ToLower(strings.ReplaceAll(s, "_", "")) }
	if squash(X) != squash(d.Name) {
		fail("C17 component prefix is not the entity name", "named from the entity name", X)
	}
	// schemas
	for _, part := range []struct {
		suffix string
		num    uint64
	}{{"Keys", 1}, {"Data", 4}, {"State", 2}, {"Event", 3}} {
		ls := lines[d.Pkg+"."+X+part.suffix]
		if ls == nil {
			fail("C17 missing schema "+part.suffix, "yields Keys, Data, Status, State, EventType and Event schemas", X+part.suffix)
			continue
		}
		if ls[0].Nums[1] != part.num || ls[0].Strs[1] != entAnn {
			fail("C17 "+part.suffix+" schema carries a different entity annotation", "all carrying the same entity annotation", ls[0].String())
		}
	}
	if lines[d.Pkg+"."+X+"EventType"] == nil {
		fail("C17 missing schema EventType", "yields Keys, Data, Status, State, EventType and Event schemas", X+"EventType")
	}
	var statusEnum *descriptorpb.EnumDescriptorProto
	for _, e := range main.EnumType {
		if e.GetName() == X+"Status" {
			statusEnum = e
		}
	}
	if statusEnum == nil {
		fail("C17 missing Status enum", "yields ... Status ...", X+"Status")
	} else {
		// statuses numbered in declaration order after UNSPECIFIED
		vals := statusEnum.Value
		if len(vals) == 0 || vals[0].GetNumber() != 0 || !strings.HasSuffix(vals[0].GetName(), "UNSPECIFIED") {
			fail("C17 status enum does not start with UNSPECIFIED = 0", "statuses are numbered in declaration order after UNSPECIFIED", fmt.Sprint(vals))
		}
		decl := d.Status
		if len(decl) > 0 && strings.HasSuffix(decl[0], "UNSPECIFIED") {
			decl = decl[1:]
		}
		if len(vals) != len(decl)+1 {
			fail("C17 status count differs from the declaration", "statuses are numbered in declaration order after UNSPECIFIED", fmt.Sprint(len(vals)))
		} else {
			for i, s := range decl {
				if vals[i+1].GetNumber() != int32(i+1) || !strings.HasSuffix(vals[i+1].GetName(), s) {
					fail("C17 status not numbered in declaration order", "statuses are numbered in declaration order after UNSPECIFIED", vals[i+1].String())
				}
			}
		}
	}
	// State / Event shape
	shape := func(name string, want [][2]string, flattenIdx int) {
		ls := lines[d.Pkg+"."+name]
		var fs []line
		for _, l := range ls {
			if l.Tag == 2 {
				fs = append(fs, l)
			}
		}
		if len(fs) != len(want) {
			fail("C17 "+strings.TrimPrefix(name, X)+" does not have the documented fields", "State and Event hold metadata plus the flattened keys (and data/status, or the event oneof)", fmt.Sprint(len(fs)))
			return
		}
		for i, w := range want {
			if fs[i].Strs[0] != w[0] || fs[i].Strs[2] != w[1] || fs[i].Nums[0] != uint64(i+1) || fs[i].Nums[3] != 1 || (fs[i].Nums[4] == 1) != (i == flattenIdx) {
				fail("C17 "+strings.TrimPrefix(name, X)+" field "+w[0]+" differs from the documented shape", "State and Event hold metadata plus the flattened keys (and data/status, or the event oneof)", fs[i].String())
			}
		}
	}
	shape(X+"State", [][2]string{{"metadata", "j5.state.v1.StateMetadata"}, {"keys", d.Pkg + "." + X + "Keys"}, {"data", d.Pkg + "." + X + "Data"}, {"status", d.Pkg + "." + X + "Status"}}, 1)
	shape(X+"Event", [][2]string{{"metadata", "j5.state.v1.EventMetadata"}, {"keys", d.Pkg + "." + X + "Keys"}, {"event", d.Pkg + "." + X + "EventType"}}, 1)
	// event oneof <-> events
	if et := findMsg(main, X+"EventType"); et != nil {
		if len(et.Field) != len(d.Events) || len(et.NestedType) != len(d.Events) {
			fail("C17 event oneof options differ in number from the declared events", "exactly one option per declared event", fmt.Sprintf("%d fields %d nested for %d events", len(et.Field), len(et.NestedType), len(d.Events)))
		} else {
			for i, ev := range d.Events {
				f := et.Field[i]
				if f.GetTypeName() != "."+d.Pkg+"."+X+"EventType."+ev.Name || et.NestedType[i].GetName() != ev.Name || f.OneofIndex == nil || f.GetNumber() != int32(i+1) {
					fail("C17 event oneof option does not point at the nested message of the event's name", "one option per declared event pointing at a nested message of that name", f.String())
				}
			}
		}
	}
	// primary keys required, and in order as the path parameters of Get and Events
	var primaries, shardOnly []string
	if keys := findMsg(main, X+"Keys"); keys != nil {
		for i, f := range keys.Field {
			fl := fieldLines(f)[0]
			if fl.Nums[6] == 1 {
				primaries = append(primaries, f.GetName())
				if fl.Nums[3] != 1 {
					fail("C17 primary key field is not required", "primary-key fields are required", f.GetName())
				}
			} else if i < len(d.Keys) && d.Keys[i].Shard && d.Keys[i].Key {
				shardOnly = append(shardOnly, f.GetName())
			}
		}
	}
	var query *descriptorpb.ServiceDescriptorProto
	nCommand := 0
	for _, s := range svc.Service {
		sl := svcLines(svc.GetPackage(), 1, s)[0]
		switch sl.Nums[1] {
		case 1:
			if query != nil {
				fail("C17 more than one query service", "a query service with Get, List and Events methods", s.GetName())
			}
			query = s
		case 2:
			nCommand++
		}
		if sl.Strs[1] != entAnn {
			fail("C17 service carries a different entity annotation", "all carrying the same entity annotation", sl.String())
		}
	}
	if nCommand != len(d.Commands) {
		fail("C17 command services differ in number from the declaration", "every declared command service", fmt.Sprint(nCommand))
	}
	if query == nil || len(query.Method) != 3 {
		fail("C17 no query service with three methods", "a query service with Get, List and Events methods", "")
	} else {
		ql := svcLines(svc.GetPackage(), 1, query)
		Q := strings.TrimSuffix(query.GetName(), "QueryService")
		if squash(Q) != squash(d.Name) || !strings.HasSuffix(query.GetName(), "QueryService") {
			fail("C17 query service is not named from the entity name", "named from the entity name", query.GetName())
		}
		for i, suffix := range []string{"Get", "List", "Events"} {
			if ql[i+1].Strs[0] != Q+suffix || ql[i+1].Nums[1] != uint64(i+1) || ql[i+1].Nums[0] != 1 {
				fail("C17 query method "+suffix+" missing or mis-flagged", "a query service with Get, List and Events methods", ql[i+1].String())
			}
		}
		params := func(path string) []string {
			var out []string
			for _, p := range strings.Split(path, "/") {
				if strings.HasPrefix(p, "{") && strings.HasSuffix(p, "}") {
					out = append(out, p[1:len(p)-1])
				}
			}
			return out
		}
		getP, evP := params(ql[1].Strs[3]), params(ql[3].Strs[3])
		sub := func(ps []string) []string { // path parameters that are primary keys
			var out []string
			for _, p := range ps {
				for _, k := range primaries {
					if p == k {
						out = append(out, p)
					}
				}
			}
			return out
		}
		if strings.Join(sub(getP), ",") != strings.Join(primaries, ",") {
			fail("C17 Get path parameters are not the primary keys in declaration order", "primary-key fields ... appear in declaration order as the path parameters of Get and Events", ql[1].Strs[3])
		}
		if strings.Join(evP, ",") != strings.Join(getP, ",") || !strings.HasSuffix(ql[3].Strs[3], "/events") {
			fail("C17 Events path parameters differ from Get's", "primary-key fields ... appear in declaration order as the path parameters of Get and Events", ql[3].Strs[3])
		}
		if len(getP) != len(primaries)+len(shardOnly) {
			fail("C17 Get path has parameters that are neither primary nor shard keys", "path parameters of Get", ql[1].Strs[3])
		}
	}
	// topics
	nUpsert, nEvent := 0, 0
	for _, s := range topic.Service {
		sl := svcLines(topic.GetPackage(), 2, s)[0]
		if sl.Nums[1] != 3 {
			continue
		}
		switch sl.Nums[2] {
		case 3:
			nUpsert++
		case 4:
			nEvent++
		}
		if sl.Strs[2] != d.Pkg+"."+X {
			fail("C17 topic carries a different entity name", "all carrying the same entity annotation", sl.String())
		}
	}
	if nEvent != 1 {
		fail("C17 publish topic missing or duplicated", "a publish topic", fmt.Sprint(nEvent))
	}
	if nUpsert != len(d.Summaries) {
		fail("C17 upsert topics differ in number from the summaries", "one upsert topic per summary", fmt.Sprint(nUpsert))
	}
}

// oracleClient: the client API groups the entity's parts into exactly one StateEntity.
func oracleClient(res *vh.Result, caseNo int, d *entityDecl, ents []*client_j5pb.StateEntity, plain []*client_j5pb.Service, in any) {
	fail := func(sig, clause, got string) {
		res.Fail(vh.Failure{Case: caseNo, Stream: "entity", Sig: sig, Clause: clause, Input: in, Got: got})
	}
	if len(ents) != 1 {
		fail("C17 client API does not show exactly one state entity", "the client groups the parts into one StateEntity", fmt.Sprint(len(ents)))
		return
	}
	e := ents[0]
	if len(plain) != 0 {
		fail("C17 client API leaves an entity service outside the StateEntity", "query and command services belong to the entity", plain[0].Name)
	}
	if e.QueryService == nil || len(e.QueryService.Methods) != 3 {
		fail("C17 client StateEntity has no query service with three methods", "a query service with Get, List and Events methods", "")
	}
	if len(e.CommandServices) != len(d.Commands) {
		fail("C17 client StateEntity command services differ in number from the declaration", "every declared command service", fmt.Sprint(len(e.CommandServices)))
	}
	if len(e.Events) != len(d.Events) {
		fail("C17 client StateEntity events differ in number from the declaration", "exactly one option per declared event", fmt.Sprint(len(e.Events)))
	}
	var prim []string
	for _, k := range d.Keys {
		if k.Key && k.Primary {
			prim = append(prim, k.Name)
		}
	}
	if strings.Join(prim, ",") != strings.Join(e.PrimaryKey, ",") {
		fail("C17 client StateEntity primary keys are not the declared primary keys in order", "primary-key fields ... in declaration order", strings.Join(e.PrimaryKey, ","))
	}
}

// countShape records which corners of the declaration space a case touches.
func countShape(res *vh.Result, e *entityDecl) {
	n := e.Name
	switch {
	case endsCap(n):
		res.Count("name_ends_in_capital")
	case strings.ContainsAny(n, "0123456789"):
		res.Count("name_with_digit")
	case strings.Contains(n, "_"):
		res.Count("name_with_underscore")
	case n[0] >= 'a' && n[0] <= 'z':
		res.Count("name_lower_camel")
	default:
		res.Count("name_upper_camel")
	}
	if strcase.ToCamel(strcase.ToSnake(n)) != strcase.ToCamel(n) {
		res.Count("name_query_prefix_differs")
	}
	prim, shard, foreign, tenant, scalarKey := 0, 0, 0, 0, 0
	for _, k := range e.Keys {
		if k.Key && k.Primary {
			prim++
		}
		if k.Shard {
			shard++
		}
		if k.Foreign != nil {
			foreign++
		}
		if k.Tenant != nil {
			tenant++
		}
		if !k.Key {
			scalarKey++
		}
	}
	res.Count(fmt.Sprintf("keys_%d", len(e.Keys)))
	res.Count(fmt.Sprintf("primary_keys_%d", prim))
	if shard > 0 {
		res.Count("with_shard_key")
	}
	if foreign > 0 {
		res.Count("with_foreign_key")
	}
	if tenant > 0 {
		res.Count("with_tenant_key")
	}
	if scalarKey > 0 {
		res.Count("with_non_key_typed_key")
	}
	res.Count(fmt.Sprintf("events_%d", len(e.Events)))
	res.Count(fmt.Sprintf("commands_%d", len(e.Commands)))
	res.Count(fmt.Sprintf("summaries_%d", len(e.Summaries)))
	res.Count(fmt.Sprintf("statuses_%d", len(e.Status)))
	if e.Query != nil {
		res.Count("with_query_settings")
		if len(e.Query.DefaultStatus) > 0 {
			res.Count("with_default_status_filter")
		}
		if e.Query.EventsInGet {
			res.Count("with_events_in_get")
		}
	}
	if e.BaseURL != "" {
		res.Count("with_base_url_override")
	}
}

package main

import (
	"context"
	"fmt"
	"io"
	"log"
	"regexp"
	"strconv"
	"strings"
	"time"

	"github.com/iancoleman/strcase"
	"github.com/pentops/j5/gen/j5/client/v1/client_j5pb"
	"github.com/pentops/j5/lib/verifshim/compile"
	"google.golang.org/protobuf/reflect/protoreflect"
	"google.golang.org/protobuf/types/descriptorpb"
	"verifharness/vh"
)

func init() { vh.Register("C17", runC17) }

// ---- generator -----------------------------------------------------------------------

var entNames = []string{"Foo", "foo", "fooBar", "FooBar", "foo_bar", "Foo_Bar", "FOO", "FooS", "F", "f", "ABc", "Foo2", "foo2bar",
	"A1", "fooBAR", "FOOBar", "x", "a_b_c", "Widget", "userID", "HTTPServer", "Order_v2", "orderLine", "Thing1", "aB", "Ab", "AB", "iOS",
	"foo_", "foo__bar", "FooEvent", "FooState", "State", "Keys", "fooKeys", "X9Y", "x9", "Z_", "camelCaseName", "snake_case_name", "SCREAMING_NAME",
	// the entity's own property in the Get / List responses sits next to events / page
	"Page", "Events", "Query"}

var pkgNames = []string{"foo.v1", "foo.v1", "bar.baz.v2", "a.v1", "test.deep.pkg.v3"}

type scalarT struct {
	j5    string
	ptype int
	kind  string
}

var scalars = []scalarT{
	{"string", 9, "string"}, {"bool", 8, "bool"}, {"integer:INT32", 5, "integer"}, {"integer:INT64", 3, "integer"},
	{"integer:UINT32", 13, "integer"}, {"integer:UINT64", 4, "integer"}, {"float:FLOAT64", 1, "float"}, {"float:FLOAT32", 2, "float"},
	{"bytes", 12, "bytes"},
}

const identAlpha = "abcdefghijklmnopqrstuvwxyz"

func genIdent(r *vh.Rand, style int) string {
	// 0 lowerCamel, 1 snake, 2 UpperCamel, 3 wild (letters, digits, underscores, capital runs)
	var sb strings.Builder
	words := r.Range(1, 3)
	for w := 0; w < words; w++ {
		n := r.Range(1, 5)
		word := make([]byte, n)
		for i := range word {
			word[i] = identAlpha[r.Intn(26)]
		}
		s := string(word)
		switch style {
		case 0:
			if w > 0 {
				s = strings.ToUpper(s[:1]) + s[1:]
			}
		case 1:
			if w > 0 {
				s = "_" + s
			}
		case 2:
			s = strings.ToUpper(s[:1]) + s[1:]
		default:
			switch r.Intn(6) {
			case 0:
				s = strings.ToUpper(s)
			case 1:
				s = strings.ToUpper(s[:1]) + s[1:]
			case 2:
				s = s + fmt.Sprint(r.Intn(100))
			case 3:
				s = "_" + s
			case 4:
				s = s + strings.ToUpper(string(identAlpha[r.Intn(26)]))
			}
			if w == 0 && (s[0] == '_' || (s[0] >= '0' && s[0] <= '9')) {
				s = "e" + s
			}
		}
		sb.WriteString(s)
	}
	return sb.String()
}

type nameSet map[string]bool

// fresh draws names until one is new under every key function.
func (ns nameSet) fresh(gen func() string, keys ...func(string) string) string {
	for try := 0; ; try++ {
		n := gen()
		if try > 50 {
			n = fmt.Sprintf("%sx%d", n, try)
		}
		ok := true
		for _, k := range keys {
			if ns[k(n)] {
				ok = false
			}
		}
		if ok {
			for _, k := range keys {
				ns[k(n)] = true
			}
			return n
		}
	}
}

func snakeKey(s string) string { return "s:" + strcase.ToSnake(s) }
func rawKey(s string) string   { return "r:" + s }
func camelKey(s string) string { return "c:" + strcase.ToCamel(s) }
func lowerKey(s string) string { return "l:" + strings.ToLower(strings.ReplaceAll(s, "_", "")) }

// message-typed scalars of other packages: j5s word, full type name, (j5.ext.v1.field) kind as compiled
var extTypes = []struct{ j5, full, kind string }{
	{"timestamp", "google.protobuf.Timestamp", "timestamp"},
	{"date", "j5.types.date.v1.Date", ""},
	{"decimal", "j5.types.decimal.v1.Decimal", ""},
	{"any", "j5.types.any.v1.Any", "any"},
}

var descTexts = []string{"a field", "the id", "x", "with \"quotes\"", "Two  spaces, a comma; and a colon: here.", "trailing space ", "// looks like a comment", "unicode \u00e9\u00df"}

var blockTexts = []string{"one line", "first line\nsecond line", "Three\nlines of\ntext.", "with \"quotes\" inside\nand a second line"}

// textNoise: an attribute the compiler accepts and the compared output must not depend on (an
// explicit protoField number), and a description (compared: it becomes the field's leading comment)
func textNoise(r *vh.Rand, u *uField) {
	if r.Chance(8) {
		u.ProtoField = vh.Pick(r, []int{1, 2, 3, 7, 11, 40})
	}
	if r.Chance(10) {
		u.Desc = vh.Pick(r, descTexts)
		if r.Chance(35) {
			// the block form `| text`: the only one that can hold several lines
			u.Desc, u.DescBlock = vh.Pick(r, blockTexts), true
		}
	}
}

// addDescriptions: descriptions of the elements that are not fields. Events, statuses, the schemas
// of the block and enum options keep theirs (leading comments); the entity's, a command's, a
// method's and a summary's description is accepted and appears nowhere in the output.
func addDescriptions(r *vh.Rand, d *entityDecl) {
	for i := range d.Events {
		if r.Chance(15) {
			d.Events[i].Desc = vh.Pick(r, descTexts)
			if r.Chance(35) {
				d.Events[i].Desc = vh.Pick(r, blockTexts[1:])
			}
		}
	}
	if r.Chance(15) {
		d.StatusDesc = make([]string, len(d.Status))
		for i := range d.Status {
			if r.Chance(60) {
				d.StatusDesc[i] = vh.Pick(r, descTexts)
			}
		}
	}
	for i := range d.Schemas {
		if r.Chance(20) {
			d.Schemas[i].Desc = vh.Pick(r, descTexts)
		}
		if d.Schemas[i].Kind == 2 && r.Chance(30) {
			d.Schemas[i].OptionDesc = make([]string, len(d.Schemas[i].Options))
			for j := range d.Schemas[i].Options {
				if r.Chance(60) {
					d.Schemas[i].OptionDesc[j] = vh.Pick(r, descTexts)
				}
			}
		}
	}
	for i := range d.Commands {
		if r.Chance(10) {
			d.Commands[i].Desc = vh.Pick(r, descTexts)
		}
		for j := range d.Commands[i].Methods {
			if r.Chance(10) {
				d.Commands[i].Methods[j].Desc = vh.Pick(r, descTexts)
			}
		}
	}
	for i := range d.Summaries {
		if r.Chance(10) {
			d.Summaries[i].Desc = vh.Pick(r, descTexts)
		}
	}
}

func genScalarField(r *vh.Rand, name string) uField {
	t := vh.Pick(r, scalars)
	u := uField{Name: name, J5Type: t.j5, PType: t.ptype, J5Kind: t.kind, Required: r.Chance(25), Bang: r.Bool(), SayFalse: r.Chance(20)}
	textNoise(r, &u)
	if r.Chance(18) {
		x := vh.Pick(r, extTypes)
		u.J5Type, u.PType, u.J5Kind, u.Ext = x.j5, 11, x.kind, x.full
	}
	if !u.Required && r.Chance(15) {
		u.Optional = true
	}
	return u
}

// genAnyField: every field type of the schema language that is not a reference: scalars, the
// message-typed scalars, keys, and arrays / maps of those.
func genAnyField(r *vh.Rand, name string) uField {
	u := genScalarField(r, name)
	isKey := r.Chance(12)
	if isKey {
		u = genKeyTyped(r, name)
	}
	if r.Chance(22) {
		if isKey {
			// the item type key:<format>: not a schema.key of the field itself
			u.J5Type = vh.Pick(r, []string{"key", "key:id62", "key:uuid"})
			u.Key, u.KeyFmt = false, ""
		}
		u.Container = vh.Pick(r, []string{"array", "array", "map"})
		// an optional array / map compiles to a proto3-optional repeated field (known finding)
		u.Optional = !u.Required && r.Chance(2)
	}
	return u
}

// growTree turns one or two fields of an inline object / oneof into deeper structure: a nested inline
// schema (recursively, up to depth levels) or, inside an object, an array / a map of a simple type
func growTree(r *vh.Rand, u *uField, depth int) {
	n := r.Range(1, 2)
	for k := 0; k < n && k < len(u.InFields); k++ {
		i := r.Intn(len(u.InFields))
		f := &u.InFields[i]
		if f.Inline != "" || f.Container != "" {
			continue
		}
		if u.Inline == "object" && r.Chance(35) {
			f.Container = vh.Pick(r, []string{"array", "map"})
			f.Optional = false
			continue
		}
		child := genInline(r, f.Name)
		if u.Inline == "oneof" {
			// the members of a proto oneof are singular
			child.Container, child.Required, child.Optional = "", false, false
		}
		if child.Inline != "enum" && len(child.InFields) > 0 && depth > 1 && r.Chance(50) {
			growTree(r, &child, depth-1)
		}
		*f = child
	}
}

// genInline: a field whose type is an anonymous schema defined in place (nested in the message)
func genInline(r *vh.Rand, name string) uField {
	u := uField{Name: name, Required: r.Chance(20), Bang: r.Bool(), PType: 11}
	if r.Chance(15) {
		// the description written inside the anonymous schema is the FIELD's description
		u.Desc = vh.Pick(r, descTexts)
	}
	simple := func(n int) []uField {
		ns := nameSet{}
		var out []uField
		for i := 0; i < n; i++ {
			f := genScalarField(r, ns.fresh(func() string { return genIdent(r, r.Intn(2)) }, snakeKey, lowerKey))
			out = append(out, f)
		}
		return out
	}
	switch r.Intn(3) {
	case 0:
		u.Inline, u.J5Kind = "object", "object"
		u.InFields = simple(r.Range(0, 3))
	case 1:
		u.Inline, u.J5Kind = "oneof", "oneof"
		for _, f := range simple(r.Range(1, 3)) {
			f.Required, f.Optional, f.SayFalse = false, false, false
			u.InFields = append(u.InFields, f)
		}
	default:
		u.Inline, u.J5Kind, u.PType = "enum", "enum", 14
		u.InOptions = vh.Pick(r, [][]string{{"A", "B"}, {"LOW", "MID", "HIGH"}, {"UNSPECIFIED", "ON"}, {"X"}})
	}
	// inline schemas inside inline schemas, arrays and maps inside inline objects (the tree form of the
	// model: KInlineTree; outside the formal quantifier, tied to the compiler like everything else)
	if u.Inline != "enum" && len(u.InFields) > 0 && r.Chance(30) {
		growTree(r, &u, 2)
	}
	// `array:object { .. }` / `map:object { .. }` (also oneof, enum): the anonymous schema is the item /
	// value type of a repeated field
	if r.Chance(35) {
		u.Container = vh.Pick(r, []string{"array", "array", "map"})
		u.Optional = !u.Required && r.Chance(10)
	}
	return u
}

func genKeyTyped(r *vh.Rand, name string) uField {
	u := uField{Name: name, Key: true, KeyFmt: vh.Pick(r, []string{"", "id62", "uuid", "id62"}), PType: 9, J5Kind: "key", Required: r.Chance(30), Bang: r.Bool(), SayFalse: r.Chance(30)}
	textNoise(r, &u)
	if !u.Required && r.Chance(10) {
		u.Optional = true
	}
	return u
}

func genFields(r *vh.Rand, lo, hi int, reserved ...string) []uField {
	ns := nameSet{}
	for _, x := range reserved {
		ns[snakeKey(x)] = true
	}
	var out []uField
	for k := r.Range(lo, hi); k > 0; k-- {
		name := ns.fresh(func() string { return genIdent(r, r.Intn(2)) }, snakeKey, lowerKey)
		switch {
		case r.Chance(20):
			out = append(out, genKeyTyped(r, name))
		case r.Chance(7):
			out = append(out, genInline(r, name))
		default:
			out = append(out, genAnyField(r, name))
		}
	}
	return out
}

func ptr(s string) *string { return &s }

func genEntity(r *vh.Rand) *entityDecl { return genEntityOpt(r, false, "") }

func genEntityOpt(r *vh.Rand, second bool, forcedName string) *entityDecl {
	d := &entityDecl{Pkg: vh.Pick(r, pkgNames), second: second}
	switch r.Intn(4) {
	case 0, 1:
		d.Name = vh.Pick(r, entNames)
	case 2:
		d.Name = genIdent(r, r.Intn(3))
	default:
		d.Name = genIdent(r, 3)
	}
	if forcedName != "" {
		d.Name = forcedName
	}
	if r.Chance(15) {
		d.BaseURL = vh.Pick(r, []string{"x/y", "custom", "a/b/c_d", "v1/things", "/rooted/", "dbl//slash", "trail/"})
	}
	if r.Chance(10) {
		d.Desc = vh.Pick(r, []string{"The entity.", "multi word description", "x"})
	}
	// keys
	// key names are free (the property quantifies over keys of any name): also the names the
	// expansion itself uses next to the keys (page / query in the List and Events requests,
	// metadata / data / status / event next to the flattened keys in State and Event)
	ks := nameSet{}
	nKeys := r.Range(1, 4)
	reservedKey := !second && r.Chance(5)
	for i := 0; i < nKeys; i++ {
		name := ks.fresh(func() string {
			if reservedKey && i == 0 {
				return vh.Pick(r, []string{"page", "query", "Page", "events", "metadata", "data", "status", "keys", "event"})
			}
			if r.Chance(40) {
				return vh.Pick(r, []string{"fooId", "foo_id", "id", "accountId", "tenant_id", "orgID", "k2", "parentId", "shard"})
			}
			return genIdent(r, r.Intn(2))
		}, snakeKey, lowerKey)
		var k eKey
		if r.Chance(80) {
			k.uField = genKeyTyped(r, name)
			switch r.Intn(5) {
			case 0, 1:
				k.Primary = true
				k.Optional = false
			case 2:
				if r.Bool() {
					k.Tenant = ptr(vh.Pick(r, []string{"account", "org", "t_1"}))
				}
			case 3:
				k.Foreign = &[2]string{vh.Pick(r, []string{"other.v1", "bar.baz.v2", d.Pkg}), vh.Pick(r, []string{"thing", "account", "foo_bar", "Widget"})}
				if r.Chance(30) {
					k.Tenant = ptr("org")
				}
			}
			if k.Primary && r.Chance(15) {
				k.Tenant = ptr("owner")
			}
		} else {
			k.uField = genAnyField(r, name)
		}
		k.Shard = r.Chance(25)
		d.Keys = append(d.Keys, k)
	}
	d.Data = genFields(r, 0, 4)
	// statuses
	ss := nameSet{}
	for k := r.Range(1, 4); k > 0; k-- {
		d.Status = append(d.Status, ss.fresh(func() string {
			if r.Chance(85) {
				return vh.Pick(r, []string{"ACTIVE", "INACTIVE", "PENDING", "DONE", "A_B", "S1", "NEW", "ARCHIVED", "IN_PROGRESS", "X"})
			}
			return vh.Pick(r, []string{"Active", "active", "inProgress", "Done2", "a_b", "Draft", "onHold"})
		}, rawKey, lowerKey))
	}
	// (two statuses that differ only in case are one protobuf name twice: a compile error since fix
	// 4fb405b, malformed class status-case-variant)
	// edge cases of visitEnumNode/addValue: a first status ending in UNSPECIFIED takes slot 0,
	// a status that already carries the prefix keeps its name
	if r.Chance(8) {
		d.Status = append([]string{vh.Pick(r, []string{"UNSPECIFIED", "X_UNSPECIFIED", strcase.ToScreamingSnake(d.Name) + "_STATUS_UNSPECIFIED"})}, d.Status...)
	}
	if r.Chance(8) {
		pre := strcase.ToScreamingSnake(d.Name) + "_STATUS_" + vh.Pick(r, []string{"LIVE", "Z9"})
		if !ss[lowerKey(pre)] {
			d.Status = append(d.Status, pre)
		}
	}
	// explicit option numbers: the parser accepts `status X { number = 5 }`; visitEnumNode numbers by
	// POSITION, so a declared number must not show in the enum (only a first status that ends in
	// UNSPECIFIED and declares a number loses slot 0: malformed stream)
	if r.Chance(25) {
		d.StatusNum = make([]int, len(d.Status))
		for i := range d.Status {
			if r.Chance(60) && !(i == 0 && (d.Status[0] == "UNSPECIFIED" || strings.HasSuffix(d.Status[0], "_STATUS_UNSPECIFIED"))) {
				d.StatusNum[i] = vh.Pick(r, []int{1, 2, 3, 5, 7, 9, 12, 40})
			}
		}
	}
	// events
	es := nameSet{}
	for k := r.Range(0, 3); k > 0; k-- {
		name := es.fresh(func() string {
			if !second && r.Chance(1) {
				// its oneof option "type" sits next to the proto oneof "type" of the wrapper
				return "Type"
			}
			if r.Chance(70) {
				return vh.Pick(r, []string{"Create", "Update", "Archive", "Delete", "Created", "DoThing", "Renamed", "V2Migrated", "Do_Thing", "Up_2", "D2", "X_"})
			}
			return genIdent(r, 2)
		}, rawKey, func(s string) string { return snakeKey(strcase.ToLowerCamel(s)) }, lowerKey)
		d.Events = append(d.Events, eEvent{Name: name, Fields: genFields(r, 0, 3)})
	}
	// commands: service names and method names are unique in the .service package
	svcNames := nameSet{}
	methodNames := nameSet{}
	for _, q := range []string{"Get", "List", "Events"} {
		methodNames[rawKey(strcase.ToCamel(strcase.ToSnake(d.Name))+q)] = true
	}
	for k := r.Range(0, 2); k > 0; k-- {
		var c eCommand
		if r.Chance(50) && !svcNames["default"] {
			svcNames["default"] = true
		} else {
			n := svcNames.fresh(func() string {
				return vh.Pick(r, []string{"Special", "OtherCommand", "Admin", "Ops", "BulkCommand", "Extra", "my_cmd", "Batch_2", "ops2"})
			},
				func(s string) string { return strings.TrimSuffix(s, "Command") })
			c.Name = &n
		}
		if r.Chance(40) {
			c.Base = ptr(vh.Pick(r, []string{"sp", "admin", "x/y", "ops_2", "/lead", "trail/", "a//b", "/"}))
		}
		if r.Chance(35) {
			c.Audience = vh.Pick(r, [][]string{{"admin"}, {"ops", "admin"}, {"public"}})
			c.OptionsForm = r.Intn(2)
		}
		for mk := r.Range(0, 2); mk > 0; mk-- {
			m := eMethod{Verb: vh.Pick(r, []int{1, 2, 2, 3, 4, 5})}
			m.Name = methodNames.fresh(func() string {
				return vh.Pick(r, []string{"DoIt", "Create", "Update", "Archive", "Rename", "Touch", "Bump", "SetName", "Op", "do_it", "Do_It", "bump"}) + vh.Pick(r, []string{"", "", "Foo", "2", "Thing", "_x"})
			}, rawKey)
			m.Request = genFields(r, 0, 3)
			if r.Chance(15) {
				m.NoResponse = true
			} else {
				m.Response = genFields(r, 0, 2)
			}
			var parts []string
			for _, f := range m.Request {
				if f.Container == "" && f.Ext == "" && f.Inline == "" && r.Chance(50) {
					if r.Chance(40) {
						parts = append(parts, vh.Pick(r, []string{"do", "items", "sub_path", "x"}))
					}
					parts = append(parts, ":"+f.Name)
				}
			}
			if r.Chance(50) {
				parts = append(parts, vh.Pick(r, []string{"go", "run", "action"}))
			}
			m.Path = strings.Join(parts, "/")
			// path.Join cleans what the declaration leaves unclean
			switch r.Intn(8) {
			case 0:
				m.Path = "/" + m.Path
			case 1:
				if m.Path != "" {
					m.Path += "/"
				}
			case 2:
				m.Path = strings.Replace(m.Path, "/", "//", 1)
			}
			c.Methods = append(c.Methods, m)
		}
		d.Commands = append(d.Commands, c)
	}
	// summaries: topic names are unique in the .topic package
	sums := nameSet{rawKey("Publish"): true, camelKey("Publish"): true, camelKey("Event"): true}
	for k := r.Range(0, 2); k > 0; k-- {
		name := ""
		if r.Chance(60) || sums[rawKey("")] {
			name = sums.fresh(func() string {
				return vh.Pick(r, []string{"Small", "big_view", "small", "Overview", "list_item", "V2", "Mini"})
			}, rawKey, camelKey)
		} else {
			sums[rawKey("")] = true
			sums[camelKey("Summary")] = true
		}
		sm := eSummary{Name: name, Fields: genFields(r, 0, 3, "upsert")}
		if !second && r.Chance(4) {
			// a summary field named like the metadata field the expansion prepends
			sm.Fields = append(sm.Fields, genScalarField(r, "upsert"))
		}
		d.Summaries = append(d.Summaries, sm)
	}
	// objects declared in the entity block, and references to them (or to the entity's own
	// generated schemas) from data / event / command / summary fields
	if r.Chance(35) {
		sn := nameSet{}
		for k := r.Range(1, 2); k > 0; k-- {
			name := sn.fresh(func() string {
				return vh.Pick(r, []string{"Address", "Money", "Tag", "Meta", "Dimensions", "Contact"}) + d.schemaSuffix()
			}, rawKey)
			sc := eSchema{Name: name, Fields: genFields(r, 0, 3, "keys")}
			if len(d.Schemas) > 0 && r.Chance(40) {
				sc.Fields = append(sc.Fields, uField{Name: "prev", Obj: d.Schemas[0].Name, PType: 11, J5Kind: "object"})
			}
			if r.Chance(40) {
				// an object that embeds the entity's keys must not be taken for its KEYS part
				sc.Fields = append(sc.Fields, uField{Name: "keys", Obj: strcase.ToCamel(d.Name) + "Keys", PType: 11, J5Kind: "object", Required: r.Bool()})
			}
			d.Schemas = append(d.Schemas, sc)
		}
		// an enum and a oneof declared in the entity block (the other two arms of RangeNestedSchemas)
		var enumName, oneofName string
		if r.Chance(50) {
			enumName = vh.Pick(r, []string{"Kind", "Colour", "level_type", "Mode"}) + d.schemaSuffix()
			opts := [][]string{{"A", "B"}, {"RED", "GREEN", "DARK_BLUE"}, {"LOW"}, {"UNSPECIFIED", "ON", "OFF"}}
			en := eSchema{Kind: 2, Name: enumName, Options: vh.Pick(r, opts)}
			if r.Chance(30) {
				en.OptionNum = make([]int, len(en.Options))
				for i := 1; i < len(en.Options); i++ {
					en.OptionNum[i] = vh.Pick(r, []int{1, 4, 6, 9})
				}
			}
			d.Schemas = append(d.Schemas, en)
		}
		if r.Chance(40) {
			oneofName = vh.Pick(r, []string{"Choice", "Payload", "Either"}) + d.schemaSuffix()
			var opts []uField
			for _, f := range genFields(r, 1, 3) {
				f.Required, f.Optional, f.SayFalse, f.Container = false, false, false, ""
				if f.Inline != "" {
					f = genScalarField(r, f.Name)
					f.Required, f.Optional, f.SayFalse = false, false, false
				}
				opts = append(opts, f)
			}
			if pos := r.Intn(len(d.Schemas) + 1); true {
				sc := eSchema{Kind: 1, Name: oneofName, Fields: opts}
				d.Schemas = append(d.Schemas[:pos], append([]eSchema{sc}, d.Schemas[pos:]...)...)
			}
		}
		targets := []string{strcase.ToCamel(d.Name) + "Keys", strcase.ToCamel(d.Name) + "Data"}
		for _, sc := range d.Schemas {
			if sc.Kind == 0 {
				targets = append(targets, sc.Name, sc.Name)
			}
		}
		ref := func(name string) uField {
			u := uField{Name: name, Obj: vh.Pick(r, targets), PType: 11, J5Kind: "object", Required: r.Chance(20), Bang: r.Bool()}
			switch {
			case enumName != "" && r.Chance(25):
				u.Obj, u.RefKind, u.PType, u.J5Kind = enumName, "enum", 14, "enum"
			case oneofName != "" && r.Chance(25):
				u.Obj, u.RefKind, u.J5Kind = oneofName, "oneof", "oneof"
			}
			if r.Chance(35) {
				u.Container = "array"
				if u.RefKind != "oneof" && r.Chance(40) {
					u.Container = "map"
				}
			}
			return u
		}
		if r.Chance(60) {
			d.Data = append(d.Data, ref("refField"))
		}
		if len(d.Events) > 0 && r.Chance(50) {
			d.Events[0].Fields = append(d.Events[0].Fields, ref("refInEvent"))
		}
		if len(d.Summaries) > 0 && r.Chance(50) {
			d.Summaries[0].Fields = append(d.Summaries[0].Fields, ref("refInSummary"))
		}
		if len(d.Commands) > 0 && len(d.Commands[0].Methods) > 0 && r.Chance(50) {
			m := &d.Commands[0].Methods[0]
			if m.Verb != 1 { // an object cannot be a query parameter of a GET
				m.Request = append(m.Request, ref("refInRequest"))
			}
			if !m.NoResponse {
				m.Response = append(m.Response, ref("refInResponse"))
			}
		}
	}
	if r.Chance(50) {
		q := &eQuery{EventsInGet: r.Bool(), SayFalse: r.Bool()}
		for _, s := range d.Status {
			if r.Chance(40) {
				q.DefaultStatus = append(q.DefaultStatus, s)
			}
		}
		// the filters keep the order (and repetitions) in which they are listed
		if len(q.DefaultStatus) > 1 && r.Chance(50) {
			i, j := r.Intn(len(q.DefaultStatus)), r.Intn(len(q.DefaultStatus))
			q.DefaultStatus[i], q.DefaultStatus[j] = q.DefaultStatus[j], q.DefaultStatus[i]
		}
		if len(q.DefaultStatus) > 0 && r.Chance(10) {
			q.DefaultStatus = append(q.DefaultStatus, q.DefaultStatus[0])
		}
		d.Query = q
	}
	addDescriptions(r, d)
	return d
}

// schemaSuffix keeps entity-level schema names apart when a file declares two entities.
func (d *entityDecl) schemaSuffix() string {
	if d.second {
		return "B"
	}
	return ""
}

func squash(s string) string { return strings.ToLower(strings.ReplaceAll(s, "_", "")) }

// genSecond draws a second entity for the same file whose generated names cannot collide
// with the first one's.
func genSecond(r *vh.Rand, first *entityDecl) *entityDecl {
	for {
		d := genPlain(r)
		a, b := squash(first.Name), squash(d.Name)
		if a == "" || b == "" || strings.HasPrefix(a, b) || strings.HasPrefix(b, a) {
			continue
		}
		d.Pkg = first.Pkg
		for i := range d.Commands {
			if d.Commands[i].Name != nil {
				n := "Two" + *d.Commands[i].Name
				d.Commands[i].Name = &n
			}
			for k := range d.Commands[i].Methods {
				d.Commands[i].Methods[k].Name += "B"
			}
		}
		return d
	}
}

// malformed stream: declarations the real compiler rejects, one fault per declaration, and the error
// class it must report (compared with the model's error class in c17_check).
// 1 unknown default status, 2 duplicate summary, 3 type not found, 4 optional+required,
// 5 path parameter that is not a request field, 6 link error "symbol already defined",
// 7 parser validation "value is required" (entity without status), 8 list-request settings,
// 9 a name the expansion reserves (positioned diagnostic since the reserved-names fix: walker error of
// entityNode.checkReservedNames, aborts the walk / conversion error of visitOneofNode, collected).
type negClass struct {
	kind string
	errc int
	make func(r *vh.Rand, d *entityDecl)
}

func plainString(name string) uField {
	return uField{Name: name, J5Type: "string", PType: 9, J5Kind: "string"}
}

func emptyMethod(name, path string) eMethod {
	return eMethod{Name: name, Verb: 2, Path: path, Response: nil}
}

var negClasses = []negClass{
	// buildProperty: a field cannot be both required and optional ...
	{"optional-required-data", 4, func(r *vh.Rand, d *entityDecl) {
		f := genScalarField(r, "bothWays")
		f.Required, f.Optional = true, true
		d.Data = append(d.Data, f)
	}},
	{"optional-required-event-field", 4, func(r *vh.Rand, d *entityDecl) {
		f := genScalarField(r, "bothWays")
		f.Required, f.Optional = true, true
		d.Events = append(d.Events, eEvent{Name: "WithBoth", Fields: []uField{f}})
	}},
	// ... and a PRIMARY key is required, so `key x ? key:id62 { primary = true }` is the same clash
	{"primary-optional-key", 4, func(r *vh.Rand, d *entityDecl) {
		k := eKey{uField: genKeyTyped(r, "optPrimary")}
		k.Primary, k.Foreign, k.Optional, k.Required, k.Bang = true, nil, true, false, r.Bool()
		k.Shard = r.Bool()
		if r.Bool() {
			d.Keys = append(d.Keys, k)
		} else {
			d.Keys = append([]eKey{k}, d.Keys...)
		}
	}},
	// ... also for the fields of an inline (anonymous) object
	{"inline-optional-required", 4, func(r *vh.Rand, d *entityDecl) {
		in := plainString("bothWays")
		in.Required, in.Optional = true, true
		d.Data = append(d.Data, uField{Name: "inlineBoth", Inline: "object", J5Kind: "object", PType: 11, InFields: []uField{plainString("fine"), in}})
	}},
	{"dangling-reference", 3, func(r *vh.Rand, d *entityDecl) {
		// an object reference that names nothing: resolveType fails
		d.Data = append(d.Data, uField{Name: "dangling", Obj: vh.Pick(r, []string{"NoSuchType", strcase.ToCamel(d.Name) + "Stat", "Addres"}), PType: 11, J5Kind: "object"})
	}},
	{"missing-path-field", 5, func(r *vh.Rand, d *entityDecl) {
		// visitServiceMethodNode: a ":name" path part must be a request field
		m := eMethod{Name: "MissingParam", Verb: 2, Path: vh.Pick(r, []string{":nope", "x/:nope/y", ":a/:nope"}), Request: []uField{plainString("a")}}
		if len(d.Commands) == 0 {
			d.Commands = append(d.Commands, eCommand{})
		}
		c := &d.Commands[r.Intn(len(d.Commands))]
		c.Methods = append(c.Methods, m)
	}},
	{"unknown-default-status", 1, func(r *vh.Rand, d *entityDecl) {
		if d.Query == nil {
			d.Query = &eQuery{}
		}
		d.Query.DefaultStatus = append(d.Query.DefaultStatus, "NO_SUCH_STATUS")
	}},
	{"duplicate-summary", 2, func(r *vh.Rand, d *entityDecl) {
		n := vh.Pick(r, []string{"Small", "", "dup"})
		d.Summaries = []eSummary{{Name: n, Fields: genFields(r, 0, 2, "upsert")}, {Name: n, Fields: genFields(r, 0, 2, "upsert")}}
	}},
	// ---- declarations whose expansion defines a symbol twice: the linker rejects them
	{"dup-key", 6, func(r *vh.Rand, d *entityDecl) {
		k := d.Keys[r.Intn(len(d.Keys))]
		k.Primary, k.Shard = false, false
		d.Keys = append(d.Keys, k)
	}},
	{"dup-key-snake", 6, func(r *vh.Rand, d *entityDecl) {
		// different spellings, one proto field name
		pair := vh.Pick(r, [][2]string{{"dupId", "dup_id"}, {"dup1", "dup_1"}, {"DupKey", "dupKey"}})
		a, b := genKeyTyped(r, pair[0]), genKeyTyped(r, pair[1])
		a.Optional, b.Optional = false, false
		d.Keys = append(d.Keys, eKey{uField: a}, eKey{uField: b})
	}},
	{"dup-data", 6, func(r *vh.Rand, d *entityDecl) {
		d.Data = append(d.Data, plainString("twice"), plainString(vh.Pick(r, []string{"twice", "Twice"})))
	}},
	{"status-case-variant", 10, func(r *vh.Rand, d *entityDecl) {
		// Active next to ACTIVE, A_B next to AB: distinct symbols, one canonical protobuf name
		base := d.Status[r.Intn(len(d.Status))]
		variant := strings.ToUpper(base[:1]) + strings.ToLower(base[1:])
		if variant == base {
			variant = strings.ToUpper(base)
		}
		if variant == base {
			variant = base + "_"
		}
		d.Status = append(d.Status, variant)
	}},
	{"block-enum-option-case-variant", 10, func(r *vh.Rand, d *entityDecl) {
		d.Schemas = append(d.Schemas, eSchema{Kind: 2, Name: "CaseClash", Options: []string{"Active", vh.Pick(r, []string{"ACTIVE", "active", "ACTIVE_", "Active"})}})
	}},
	{"inline-enum-option-case-variant", 10, func(r *vh.Rand, d *entityDecl) {
		d.Data = append(d.Data, uField{Name: "inlineLevel", Inline: "enum", J5Kind: "enum", PType: 14, InOptions: []string{"LOW", vh.Pick(r, []string{"low", "Low", "LOW_"})}})
	}},
	{"dup-status", 10, func(r *vh.Rand, d *entityDecl) {
		d.Status = append(d.Status, d.Status[r.Intn(len(d.Status))])
	}},
	{"status-unspecified-not-first", 10, func(r *vh.Rand, d *entityDecl) {
		// only a FIRST option ending in UNSPECIFIED takes slot 0; later it repeats the generated zero value
		d.Status = []string{vh.Pick(r, []string{"ACTIVE", "NEW"}), "DONE", "UNSPECIFIED"}
		d.StatusNum = nil
		if d.Query != nil {
			d.Query.DefaultStatus = nil
		}
	}},
	{"unspecified-first-with-number", 10, func(r *vh.Rand, d *entityDecl) {
		// a first status ending in UNSPECIFIED takes slot 0 only when it declares no number
		d.Status = []string{"UNSPECIFIED", "ACTIVE", "DONE"}
		d.StatusNum = []int{vh.Pick(r, []int{1, 3, 7}), 0, 0}
		if d.Query != nil {
			d.Query.DefaultStatus = nil
		}
	}},
	{"dup-event", 6, func(r *vh.Rand, d *entityDecl) {
		d.Events = append(d.Events, eEvent{Name: "Twice"}, eEvent{Name: "Twice"})
	}},
	{"event-option-clash", 6, func(r *vh.Rand, d *entityDecl) {
		// two events whose oneof options (ToLowerCamel, then ToSnake for the proto field) coincide
		d.Events = append(d.Events, eEvent{Name: "DoThing"}, eEvent{Name: vh.Pick(r, []string{"doThing", "Do_thing", "DoTHING"})})
	}},
	{"event-lower-initial", 6, func(r *vh.Rand, d *entityDecl) {
		// a one-word lower-case event: the option ToLowerCamel(name) and the nested message share the name
		d.Events = append(d.Events, eEvent{Name: vh.Pick(r, []string{"create", "archived", "x"})})
	}},
	{"inline-dup-field", 6, func(r *vh.Rand, d *entityDecl) {
		d.Data = append(d.Data, uField{Name: "inlineTwins", Inline: "object", J5Kind: "object", PType: 11,
			InFields: []uField{plainString("twin"), plainString(vh.Pick(r, []string{"twin", "Twin"}))}})
	}},
	{"inline-oneof-option-type", 9, func(r *vh.Rand, d *entityDecl) {
		// the option "type" next to the proto oneof "type" of the inline wrapper (any j5 oneof: C02/C07 territory)
		d.Data = append(d.Data, uField{Name: "inlineChoice", Inline: "oneof", J5Kind: "oneof", PType: 11,
			InFields: []uField{plainString("a"), plainString("type")}})
	}},
	{"inline-name-clash", 6, func(r *vh.Rand, d *entityDecl) {
		// two inline types of one message with the same ToCamel name would need equal snake names; an inline
		// enum VALUE, however, lives in the message scope: KIND_A of `kind` and of `Kind_`
		d.Data = append(d.Data,
			uField{Name: "kind", Inline: "enum", J5Kind: "enum", PType: 14, InOptions: []string{"A"}},
			uField{Name: "kindA", Inline: "enum", J5Kind: "enum", PType: 14, InOptions: []string{"B"}},
			uField{Name: "kind_", Inline: "enum", J5Kind: "enum", PType: 14, InOptions: []string{"A"}})
	}},
	// the same faults two levels down (tree-form inline schemas)
	{"tree-dup-field", 6, func(r *vh.Rand, d *entityDecl) {
		inner := uField{Name: "inner", Inline: "object", J5Kind: "object", PType: 11,
			InFields: []uField{plainString("twin"), plainString(vh.Pick(r, []string{"twin", "Twin"}))}}
		d.Data = append(d.Data, uField{Name: "treeTwins", Inline: "object", J5Kind: "object", PType: 11, InFields: []uField{plainString("fine"), inner}})
	}},
	{"tree-optional-required", 4, func(r *vh.Rand, d *entityDecl) {
		in := plainString("bothWays")
		in.Required, in.Optional = true, true
		inner := uField{Name: "inner", Inline: "object", J5Kind: "object", PType: 11, Container: vh.Pick(r, []string{"", "array", "map"}), InFields: []uField{in}}
		d.Data = append(d.Data, uField{Name: "treeBoth", Inline: "object", J5Kind: "object", PType: 11, InFields: []uField{inner}})
	}},
	{"tree-oneof-option-type", 9, func(r *vh.Rand, d *entityDecl) {
		inner := uField{Name: "pick", Inline: "oneof", J5Kind: "oneof", PType: 11, InFields: []uField{plainString("a"), plainString("type")}}
		d.Data = append(d.Data, uField{Name: "treeChoice", Inline: "object", J5Kind: "object", PType: 11, InFields: []uField{inner}})
	}},
	{"tree-entry-clash", 6, func(r *vh.Rand, d *entityDecl) {
		// inside a nested object: the entry message of the map `tags` and the inline type of `tagsEntry`
		m := plainString("tags")
		m.Container = "map"
		clash := uField{Name: "tagsEntry", Inline: "object", J5Kind: "object", PType: 11, InFields: []uField{plainString("a")}}
		inner := uField{Name: "inner", Inline: "object", J5Kind: "object", PType: 11, InFields: []uField{m, clash}}
		d.Data = append(d.Data, uField{Name: "treeEntry", Inline: "object", J5Kind: "object", PType: 11, InFields: []uField{inner}})
	}},
	{"tree-dangling-reference", 3, func(r *vh.Rand, d *entityDecl) {
		ref := uField{Name: "dangling", Obj: "NoSuchType", PType: 11, J5Kind: "object"}
		inner := uField{Name: "inner", Inline: "object", J5Kind: "object", PType: 11, InFields: []uField{ref}}
		d.Data = append(d.Data, uField{Name: "treeRef", Inline: "object", J5Kind: "object", PType: 11, InFields: []uField{inner}})
	}},
	{"dup-event-field", 6, func(r *vh.Rand, d *entityDecl) {
		d.Events = append(d.Events, eEvent{Name: "WithTwins", Fields: []uField{plainString("twin"), plainString("twin")}})
	}},
	{"schema-named-like-component", 6, func(r *vh.Rand, d *entityDecl) {
		c := strcase.ToCamel(d.Name)
		switch r.Intn(3) {
		case 0:
			d.Schemas = append(d.Schemas, eSchema{Name: c + vh.Pick(r, []string{"Keys", "Data", "State", "Event", "EventType"})})
		case 1:
			d.Schemas = append(d.Schemas, eSchema{Kind: 2, Name: c + "Status", Options: []string{"A"}})
		default:
			d.Schemas = append(d.Schemas, eSchema{Name: "SameName"}, eSchema{Kind: 1, Name: "SameName", Fields: []uField{plainString("a")}})
		}
	}},
	{"summary-named-like-publish", 6, func(r *vh.Rand, d *entityDecl) {
		d.Summaries = []eSummary{{Name: vh.Pick(r, []string{"Publish", "Event", "publish"})}}
	}},
	{"method-named-like-query", 6, func(r *vh.Rand, d *entityDecl) {
		q := strcase.ToCamel(strcase.ToSnake(d.Name))
		d.Commands = append(d.Commands, eCommand{Name: ptr("Clash"), Methods: []eMethod{emptyMethod(q+vh.Pick(r, []string{"Get", "List", "Events"}), "clash")}})
	}},
	{"two-default-commands", 6, func(r *vh.Rand, d *entityDecl) {
		d.Commands = []eCommand{{}, {}}
	}},
	{"dup-method", 6, func(r *vh.Rand, d *entityDecl) {
		d.Commands = append(d.Commands, eCommand{Name: ptr("Twins"), Methods: []eMethod{emptyMethod("SameOp", "a"), emptyMethod("SameOp", "b")}})
	}},
	// reserved names (class 9), alone and next to a second fault: the walker's check comes before every
	// other walker error of the declaration and aborts the conversion; the conversion's own reserved-name
	// error (oneof option `type`) is reported together with the other conversion errors and classified first
	{"block-oneof-option-type", 9, func(r *vh.Rand, d *entityDecl) {
		d.Schemas = append(d.Schemas, eSchema{Kind: 1, Name: "BlockChoice", Fields: []uField{plainString("a"), plainString(vh.Pick(r, []string{"type", "Type", "TYPE"}))}})
	}},
	{"reserved-key+unknown-default-status", 9, func(r *vh.Rand, d *entityDecl) {
		k := eKey{uField: genKeyTyped(r, vh.Pick(r, []string{"page", "query", "Page", "QUERY"}))}
		k.Optional = false
		if r.Bool() {
			k.Primary = true
		} else {
			k.Shard = true
		}
		d.Keys = append(d.Keys, k)
		if d.Query == nil {
			d.Query = &eQuery{}
		}
		d.Query.DefaultStatus = append(d.Query.DefaultStatus, "NO_SUCH_STATUS")
	}},
	{"reserved-summary-field+dangling-reference", 9, func(r *vh.Rand, d *entityDecl) {
		d.Summaries = append(d.Summaries, eSummary{Name: "Reserved", Fields: []uField{plainString("fine"), plainString(vh.Pick(r, []string{"upsert", "Upsert"}))}})
		d.Data = append(d.Data, uField{Name: "dangling", Obj: "NoSuchType", PType: 11, J5Kind: "object"})
	}},
	{"reserved-event-name+optional-required", 9, func(r *vh.Rand, d *entityDecl) {
		d.Events = append(d.Events, eEvent{Name: "Type"})
		f := genScalarField(r, "bothWays")
		f.Required, f.Optional = true, true
		d.Data = append(d.Data, f)
	}},
	{"oneof-option-type+dangling-reference", 9, func(r *vh.Rand, d *entityDecl) {
		d.Data = append(d.Data, uField{Name: "dangling", Obj: "NoSuchType", PType: 11, J5Kind: "object"},
			uField{Name: "inlineChoice", Inline: "oneof", J5Kind: "oneof", PType: 11, InFields: []uField{plainString("a"), plainString("type")}})
	}},
	{"unknown-default-status+oneof-option-type", 1, func(r *vh.Rand, d *entityDecl) {
		// a walker error aborts before the conversion reports anything
		d.Schemas = append(d.Schemas, eSchema{Kind: 1, Name: "BlockChoice", Fields: []uField{plainString("type")}})
		if d.Query == nil {
			d.Query = &eQuery{}
		}
		d.Query.DefaultStatus = append(d.Query.DefaultStatus, "NO_SUCH_STATUS")
	}},
	{"no-status", 7, func(r *vh.Rand, d *entityDecl) {
		d.Status, d.StatusNum = nil, nil
		if d.Query != nil {
			d.Query.DefaultStatus = nil
		}
	}},
}

func (d *entityDecl) usesReservedName() bool {
	return d.pathKeyReserved() || d.namedLikeResponseField() || d.eventNamedType() || d.summaryUpsert()
}

// genPlain: a declaration without any name the expansion reserves (`second`: no reserved key /
// summary-field / event names; the entity name is redrawn)
func genPlain(r *vh.Rand) *entityDecl {
	for {
		d := genEntityOpt(r, true, "")
		if !d.usesReservedName() {
			return d
		}
	}
}

func genMalformed(r *vh.Rand, i int) (*entityDecl, negClass) {
	c := negClasses[i%len(negClasses)]
	d := genPlain(r)
	d.second = false
	c.make(r, d)
	return d, c
}

// ---- running the real compiler ----------------------------------------------------------

type compiled struct {
	dump     *dumped
	files    []protoreflect.FileDescriptor
	err      error
	panicked any
}

func compileEntity(d *fileDecl) (out compiled) {
	defer func() {
		if r := recover(); r != nil {
			out.panicked = r
		}
	}()
	files, err := compile.Compile(context.Background(), map[string]string{d.filename(): d.j5s()}, d.pkg())
	if err != nil {
		out.err = err
		return
	}
	dd, err := dumpFiles(d.pkg(), files)
	if err != nil {
		out.err = fmt.Errorf("dump: %w", err)
		return
	}
	out.dump = dd
	out.files = files
	return
}

// compileWithTimeout runs the real compiler in its own goroutine: a change that makes it spin must
// not hang the check. The goroutine of a timed-out compile cannot be killed; the runner stops after
// three timeouts and the process exits after writing its result.
func compileWithTimeout(d *fileDecl, limit time.Duration) (compiled, bool) {
	ch := make(chan compiled, 1)
	go func() { ch <- compileEntity(d) }()
	select {
	case out := <-ch:
		return out, true
	case <-time.After(limit):
		return compiled{}, false
	}
}

const c17Shard = 25

func runC17(cfg *vh.Config) error {
	log.SetOutput(io.Discard) // the compiler logs every walker error
	res := vh.NewResult("C17", cfg.Seed)
	res.Rule = "entity declarations: name casings (fixed list incl. trailing capitals/acronyms/digits/underscores + generated identifiers), 1-4 keys (key-typed id62/uuid/plain with primary/tenant/foreign, or ANY other field type) x shard flag x required; keys/data/event/request/response/summary/object fields over every field type of the schema language: 9 scalars, timestamp/date/decimal/any, bytes, keys, object/oneof/enum references, arrays and maps of all of these (3-4% optional arrays/maps: plain repeated fields since fix d536c9b); 1-4 statuses (+ UNSPECIFIED-first and prefixed-name edge cases), 0-3 events, 0-2 command services (default/named, base paths with leading/trailing/double slashes, options blocks, 0-2 methods with path parameters), boolean attributes also spelled out as false, 0-2 summaries, objects/oneofs/enums declared in the entity block, optional query settings; names the expansion itself adds are NOT avoided (keys page/query, summary field upsert, event Type, entity Page/Events: reserved, the compiler must reject them by name at their source position - class 9, the diagnostic's line is checked against the source; keys metadata/data/status/event: accepted, every clause holds); event / command / method / block schema names also with underscores and lower-case initials where the compiler accepts them; 20% of the files declare two entities; zero-keys (outside the quantifier, accepted); list-request settings (outside the quantifier, conversion error); malformed stream: the fault classes of negClasses round-robin (walker errors, conversion errors, parser validation, duplicate-symbol classes - a quarter of them in the second entity of a file -, reserved names alone / next to a second fault / in the other declaration of a two-entity file, enum options whose protobuf names collide), acceptance compared both ways and the error class compared; plus the strcase stream; non-trivial = distinct declaration text"
	cf := &vh.CasesFile{
		Header: "From Coq Require Import String List NArith.\nFrom J5V.lib Require Import Outcome.\nFrom J5V.model Require Import Entity EntityCorr.\nFrom J5V.proofs Require Import EntitySpecCorr.",
		Type:   "c17case",
		Check:  "c17_check_adm",
	}
	distinct := vh.Distinct{}
	caseNo := 0
	r := cfg.R

	var decls []*fileDecl
	var kinds []string
	wantErr := map[int]int{} // index -> error class the malformed declaration must be rejected with
	// every fixed name once with a small fixed shape, then random declarations
	for _, n := range entNames {
		d := genEntityOpt(r.Fork("fixed:"+n), false, n)
		decls = append(decls, &fileDecl{Ents: []*entityDecl{d}})
		kinds = append(kinds, "fixed-name")
	}
	// every combination of the key flags once on every run: primary x shardKey x tenant x optional on a
	// key-typed key (primary + optional is the fault class primary-optional-key), next to a plain primary
	// key, before or after it; the List clause of the oracle is judged on each
	for c := 0; c < 16; c++ {
		prim, shard, tenant, opt := c&1 != 0, c&2 != 0, c&4 != 0, c&8 != 0
		if prim && opt {
			continue
		}
		fr := r.Fork(fmt.Sprintf("keyflags:%d", c))
		d := genEntityOpt(fr, false, "")
		for d.namedLikeResponseField() || d.eventNamedType() || d.summaryUpsert() {
			d = genEntityOpt(fr, false, "")
		}
		anchor := eKey{uField: genKeyTyped(fr, "anchorId")}
		anchor.Primary, anchor.Optional = true, false
		k := eKey{uField: genKeyTyped(fr, vh.Pick(fr, []string{"flagKey", "flag_key", "scopeId", "tenantId"})), Shard: shard}
		k.Primary, k.Optional = prim, opt
		if opt {
			k.Required = false
		}
		if tenant {
			k.Tenant = ptr(vh.Pick(fr, []string{"account", "org", "owner"}))
		}
		if c%4 < 2 == (c < 8) {
			d.Keys = []eKey{anchor, k}
		} else {
			d.Keys = []eKey{k, anchor}
		}
		decls = append(decls, &fileDecl{Ents: []*entityDecl{d}})
		kinds = append(kinds, "key-flags")
	}
	nGen := cfg.Scale(130, 3000)
	for i := 0; i < nGen; i++ {
		d := genEntity(r)
		if r.Chance(20) {
			decls = append(decls, &fileDecl{Ents: []*entityDecl{d, genSecond(r, d)}})
			kinds = append(kinds, "two-entities")
		} else {
			decls = append(decls, &fileDecl{Ents: []*entityDecl{d}})
			kinds = append(kinds, "generated")
		}
	}
	// out of the quantifier (1..n keys) but accepted by the compiler and the model alike
	for i := 0; i < cfg.Scale(2, 20); i++ {
		d := genPlain(r)
		d.second = false
		d.Keys = nil
		decls = append(decls, &fileDecl{Ents: []*entityDecl{d}})
		kinds = append(kinds, "zero-keys")
	}
	// outside the quantifier too: list-request settings in the query block. Since fix 985f10a the
	// conversion reports "listRequest is not supported on a method" (class 8; before, SetExtension of
	// (j5.list.v1.list_request) on MethodOptions panicked) unless a walker error comes first; a second
	// conversion error is reported together with it and decides the class
	for i := 0; i < cfg.Scale(4, 40); i++ {
		d := genPlain(r)
		d.second = false
		if d.Query == nil {
			d.Query = &eQuery{}
		}
		d.Query.ListRequest = 1 + i%2
		kind := "list-request-settings"
		wantErr[len(decls)] = 8
		switch i % 4 {
		case 2:
			d.Query.DefaultStatus = append(d.Query.DefaultStatus, "NO_SUCH_STATUS")
			wantErr[len(decls)] = 1
			kind = "list-request-settings+unknown-default-status"
		case 3:
			d.Data = append(d.Data, uField{Name: "dangling", Obj: "NoSuchType", PType: 11, J5Kind: "object"})
			wantErr[len(decls)] = 3
			kind = "list-request-settings+dangling-reference"
		}
		decls = append(decls, &fileDecl{Ents: []*entityDecl{d}})
		kinds = append(kinds, kind)
	}
	// two declarations in one file, a reserved name in one and another fault in the other: the walker's
	// first error aborts the conversion whatever was collected before (class of the walker error); a
	// conversion error of the first declaration is reported together with the reserved oneof option of the
	// second (classified "reserved name")
	for i := 0; i < cfg.Scale(4, 40); i++ {
		a := genPlain(r)
		a.second = false
		b := genSecond(r, a)
		kind := ""
		switch i % 4 {
		case 0: // conversion error first, walker reserved name second
			a.Data = append(a.Data, uField{Name: "dangling", Obj: "NoSuchType", PType: 11, J5Kind: "object"})
			b.Events = append(b.Events, eEvent{Name: "Type"})
			wantErr[len(decls)] = 9
			kind = "two-entities-dangling-reference+reserved-event-name"
		case 1: // walker error first: it wins
			if a.Query == nil {
				a.Query = &eQuery{}
			}
			a.Query.DefaultStatus = append(a.Query.DefaultStatus, "NO_SUCH_STATUS")
			b.Summaries = append(b.Summaries, eSummary{Name: "Reserved", Fields: []uField{plainString("upsert")}})
			wantErr[len(decls)] = 1
			kind = "two-entities-unknown-default-status+reserved-summary-field"
		case 2: // reserved walker name first, unknown status second
			k := eKey{uField: genKeyTyped(r, "query")}
			k.Optional, k.Primary = false, true
			a.Keys = append(a.Keys, k)
			if b.Query == nil {
				b.Query = &eQuery{}
			}
			b.Query.DefaultStatus = append(b.Query.DefaultStatus, "NO_SUCH_STATUS")
			wantErr[len(decls)] = 9
			kind = "two-entities-reserved-key+unknown-default-status"
		default: // two conversion errors, one of them the reserved option
			f := genScalarField(r, "bothWays")
			f.Required, f.Optional = true, true
			a.Data = append(a.Data, f)
			b.Data = append(b.Data, uField{Name: "inlineChoice", Inline: "oneof", J5Kind: "oneof", PType: 11, InFields: []uField{plainString("type")}})
			wantErr[len(decls)] = 9
			kind = "two-entities-optional-required+oneof-option-type"
		}
		decls = append(decls, &fileDecl{Ents: []*entityDecl{a, b}})
		kinds = append(kinds, kind)
	}
	nBad := cfg.Scale(2*len(negClasses), 14*len(negClasses))
	for i := 0; i < nBad; i++ {
		d, c := genMalformed(r, i)
		wantErr[len(decls)] = c.errc
		if c.errc == 6 && r.Chance(25) {
			// the link step sees the whole file: the fault in the second entity of a file
			first := genEntityOpt(r, false, "")
			clash := func() bool {
				a, b := squash(first.Name), squash(d.Name)
				return a == "" || strings.HasPrefix(a, b) || strings.HasPrefix(b, a)
			}
			for first.pathKeyReserved() || first.summaryUpsert() || first.eventNamedType() || first.namedLikeResponseField() || clash() {
				first = genEntityOpt(r, false, "")
			}
			first.Commands, first.Summaries = nil, nil
			first.Pkg = d.Pkg
			decls = append(decls, &fileDecl{Ents: []*entityDecl{first, d}})
		} else {
			decls = append(decls, &fileDecl{Ents: []*entityDecl{d}})
		}
		kinds = append(kinds, c.kind)
	}

	timeouts := 0
	for i, d := range decls {
		text := d.j5s()
		distinct.Add(text)
		res.Count("entity_" + kinds[i])
		for _, e := range d.Ents {
			countShape(res, e)
		}
		out, finished := compileWithTimeout(d, 20*time.Second)
		in := map[string]any{"j5s": text}
		if !finished {
			timeouts++
			res.Fail(vh.Failure{Case: caseNo, Stream: "entity", Sig: "C17 compiler does not terminate on entity declaration (20 s)", Clause: "each entity declaration yields ... (the compiler does not terminate instead)", Input: in, Got: "timeout"})
			caseNo++
			if timeouts >= 3 {
				break
			}
			continue
		}
		wantClass, malformed := wantErr[i]
		if out.panicked != nil {
			res.Count("compiler_panic")
			res.Fail(vh.Failure{Case: caseNo, Stream: "entity", Sig: "C17 compiler panic on entity declaration", Clause: "each entity declaration yields ... (the compiler crashed instead)", Input: in, Got: fmt.Sprint(out.panicked)})
			// the model never predicts a panic (C17_convert_never_panics): errc 100 is a mismatch
			cf.Terms = append(cf.Terms, fmt.Sprintf("EC %s false 100 [] false []", d.coq()))
			res.Cases = append(res.Cases, vh.CaseRec{Case: caseNo, Stream: "entity", Input: in, Impl: map[string]any{"ok": false, "panic": fmt.Sprint(out.panicked)}})
			caseNo++
			continue
		}
		ok := out.err == nil
		errc := 0
		var lines []line
		inQuant := !malformed && kinds[i] != "zero-keys" && !strings.HasPrefix(kinds[i], "list-request-settings")
		if ok {
			lines = out.dump.Lines
			res.Count("compiled_ok")
			if malformed {
				res.Fail(vh.Failure{Case: caseNo, Stream: "entity", Sig: "C17 malformed entity (" + kinds[i] + ") accepted", Clause: "tie, not a clause of C17 (the declaration is outside the quantifier): the model of the compiler predicts rejection (link error / walker error) and the real compiler accepted", Input: in, Got: "compiled"})
				// what it compiled to is still judged against the clauses (an accepted optional primary
				// key shows as "primary key field is not required")
				if len(d.Ents) == 1 {
					oracleC17(res, caseNo, d.Ents[0], out.dump, in)
				}
			} else if len(d.Ents) == 1 {
				oracleC17(res, caseNo, d.Ents[0], out.dump, in)
			}
		} else {
			errc = errClassNum(out.err)
			res.Count("compiled_err")
			res.Count("err_class_" + errClass(out.err))
			if malformed && errc != wantClass {
				res.Fail(vh.Failure{Case: caseNo, Stream: "entity", Sig: "C17 malformed entity (" + kinds[i] + ") rejected with an unexpected error class", Clause: "tie, not a clause of C17 (the declaration is outside the quantifier): error class of a rejected declaration differs from the model's", Input: in, Got: out.err.Error()})
			}
			if inQuant {
				// a declaration inside the quantifier is rejected only for a RESERVED name (the five field
				// names the expansion puts next to the user's: C17_fails_exactly_on_reserved), and then by
				// the diagnostic that names it at its position in the source (fix: checkReservedNames /
				// visitOneofNode).  Anything else contradicts "each entity declaration yields ..."
				msg := out.err.Error()
				usesReserved := anyEnt(d, (*entityDecl).pathKeyReserved) || anyEnt(d, (*entityDecl).namedLikeResponseField) ||
					anyEnt(d, (*entityDecl).eventNamedType) || anyEnt(d, (*entityDecl).summaryUpsert)
				clause := "each entity declaration yields Keys, Data, Status, State, EventType and Event schemas, a query service ..., every declared command service, a publish topic and one upsert topic per summary (the compiler rejects the declaration)"
				sig := ""
				switch {
				case usesReserved && errc == 9:
					if why := reservedDiagnosticOK(msg, text); why != "" {
						sig = "C17 reserved-name diagnostic is not positioned at the name in the source: " + why
						clause = "tie / C07: a declaration that uses a name the expansion reserves is rejected by a diagnostic at that name's source position"
					} else {
						res.Count("reserved_name_rejected_at_its_position")
					}
				case usesReserved && errc == 6:
					sig = "C17 reserved name (key page|query, summary field upsert, event Type, entity Page|Events) is not diagnosed as reserved: it fails as a name conflict with the field the expansion adds (duplicate-name error / link error on the generated file)"
					clause = "each entity declaration yields ... (a name the expansion reserves must be rejected by name at its source position, not fail at link time in a generated file)"
				case strings.Contains(msg, "not found") && endsCap(d.Ents[0].Name):
					sig = "C17 entity name ending in a capital fails to compile: type <Name>State/Event/EventType not found (entity.go naming)"
				default:
					sig = "C17 admissible entity fails to compile: " + errClass(out.err)
				}
				if sig != "" {
					res.Fail(vh.Failure{Case: caseNo, Stream: "entity", Sig: sig, Clause: clause, Input: in, Got: msg})
				}
			}
		}
		// second observable: the client API's StateEntity, derived by the real j5client
		var clines []line
		cok := false
		if ok {
			ents, plain, cerr, cpan := clientEntities(d.pkg(), out.files)
			// C17 states what the declaration YIELDS (the compiled descriptors); that a client API can be
			// derived from them without error is C16's clause. A derivation that fails or panics is
			// therefore not judged here (known-findings audit 2.7/2.8) - the tie still compares whether
			// it fails with the model's prediction (client_accepts), so a change of behaviour breaks
			// the correspondence - and the StateEntity is judged against C17's clauses when it exists
			switch {
			case cpan != nil:
				res.Count("client_panic_not_judged_by_C17")
			case cerr != nil:
				res.Count("client_err_not_judged_by_C17")
				res.Count("client_err_" + errClass(cerr))
			default:
				cok = true
				// the client lists entities in map order: bring them into declaration order
				var ordered []*client_j5pb.StateEntity
				for _, decl := range d.Ents {
					for _, e := range ents {
						if e.Name == strcase.ToSnake(decl.Name) {
							ordered = append(ordered, e)
						}
					}
				}
				if len(ordered) != len(ents) || len(ents) != len(d.Ents) {
					res.Fail(vh.Failure{Case: caseNo, Stream: "entity", Sig: "C17 client API does not show one state entity per declared entity", Clause: "all carrying the same entity annotation (observed at the client API StateEntity derived from the descriptors)", Input: in, Got: fmt.Sprint(len(ents))})
					ordered = ents
				}
				clines = clientLines(ordered)
				if !malformed {
					for k, decl := range d.Ents {
						if k < len(ordered) {
							oracleClient(res, caseNo, decl, ordered[k:k+1], plain, in)
						}
					}
				}
			}
		}
		lineTerms := make([]string, len(lines))
		for k, l := range lines {
			lineTerms[k] = l.coq()
		}
		clineTerms := make([]string, len(clines))
		for k, l := range clines {
			clineTerms[k] = l.coq()
		}
		cf.Terms = append(cf.Terms, fmt.Sprintf("EC %s %s %d [%s] %s [%s]", d.coq(), vh.BoolTerm(ok), errc, strings.Join(lineTerms, ";\n    "), vh.BoolTerm(cok), strings.Join(clineTerms, ";\n    ")))
		impl := map[string]any{"ok": ok, "lines": len(lines), "client_ok": cok, "client_lines": len(clines)}
		if !ok {
			impl["err"] = errClass(out.err)
		}
		res.Cases = append(res.Cases, vh.CaseRec{Case: caseNo, Stream: "entity", Input: in, Impl: impl})
		if i%37 == 5 {
			res.Sample(map[string]any{"stream": "entity", "name": d.Ents[0].Name, "entities": len(d.Ents), "ok": ok, "lines": len(lines)}, 6)
		}
		caseNo++
	}
	res.Distinct = len(distinct)
	shards, err := cf.WriteShards(cfg.Out, "cases", c17Shard)
	if err != nil {
		return err
	}
	for i := range res.Cases {
		res.Cases[i].Shard = fmt.Sprintf("cases_%d", i/c17Shard)
		res.Cases[i].Pos = i % c17Shard
	}

	// ---- the Strcase library stream (its own case type and shards)
	nEnt := len(res.Cases)
	scf := &vh.CasesFile{
		Header: "From Coq Require Import String List NArith.\nFrom J5V.model Require Import EntityStrcaseCorr.",
		Type:   "strcase_case",
		Check:  "strcase_check",
	}
	scf.Terms = strcaseStream(cfg, r.Fork("strcase"), res, cfg.Scale(800, 15000), &caseNo, distinct)
	// entity names used above are strcase inputs too
	scShards, err := scf.WriteShards(cfg.Out, "sc", strcaseShard)
	if err != nil {
		return err
	}
	for i := nEnt; i < len(res.Cases); i++ {
		res.Cases[i].Shard = fmt.Sprintf("sc_%d", (i-nEnt)/strcaseShard)
		res.Cases[i].Pos = (i - nEnt) % strcaseShard
	}
	res.Evaluations = caseNo
	res.Distinct = len(distinct)
	res.Shards = append(shards, scShards...)
	return res.Write(cfg.Out)
}

func anyEnt(f *fileDecl, p func(*entityDecl) bool) bool {
	for _, e := range f.Ents {
		if p(e) {
			return true
		}
	}
	return false
}

// pathKeyReserved: a key that goes into the Get/Events (primary or shard) or List (shard) request and
// whose proto name is one of the pagination fields acceptQuery appends to those requests.
func (d *entityDecl) pathKeyReserved() bool {
	for _, k := range d.Keys {
		if k.Key && (k.Primary || k.Shard) {
			if n := strcase.ToSnake(k.Name); n == "page" || n == "query" {
				return true
			}
		}
	}
	return false
}

func (d *entityDecl) namedLikeResponseField() bool {
	n := strcase.ToSnake(strcase.ToLowerCamel(strcase.ToSnake(d.Name)))
	return n == "page" || (n == "events" && d.Query != nil && d.Query.EventsInGet)
}

func (d *entityDecl) eventNamedType() bool {
	for _, ev := range d.Events {
		if strcase.ToSnake(strcase.ToLowerCamel(ev.Name)) == "type" {
			return true
		}
	}
	return false
}

func (d *entityDecl) summaryUpsert() bool {
	for _, s := range d.Summaries {
		for _, f := range s.Fields {
			if strcase.ToSnake(f.Name) == "upsert" {
				return true
			}
		}
	}
	return false
}

var reservedPosRe = regexp.MustCompile(`\.j5s:? ?(\d+):(\d+)`)
var reservedNameRe = regexp.MustCompile(`name "([^"]+)" is reserved: `)

// reservedDiagnosticOK: the reserved-name error names a position inside the source text, and the line it
// names (for an option of a block oneof: that line or a later one) carries the reserved name. "" = fine.
func reservedDiagnosticOK(msg, text string) string {
	pm := reservedPosRe.FindStringSubmatch(msg)
	nm := reservedNameRe.FindStringSubmatch(msg)
	if pm == nil {
		return "no line:column"
	}
	if nm == nil {
		return "the reserved name is not quoted"
	}
	lines := strings.Split(text, "\n")
	ln, _ := strconv.Atoi(pm[1])
	if ln < 1 || ln > len(lines) {
		return "line outside the file"
	}
	if strings.Contains(lines[ln-1], nm[1]) {
		return ""
	}
	if strings.Contains(msg, "oneof option name") {
		for _, l := range lines[ln-1:] {
			if strings.Contains(l, nm[1]) {
				return ""
			}
		}
	}
	return "the named line does not carry the name"
}

// errClassNum mirrors Entity.err_class (coq/model/Entity.v).
func errClassNum(err error) int {
	switch errClass(err) {
	case "status not found in entity":
		return 1
	case "duplicate summary name":
		return 2
	case "type not found":
		return 3
	case "required and optional":
		return 4
	case "missing field in request":
		return 5
	case "name conflict":
		return 6
	case "value is required":
		return 7
	case "list request on a method":
		return 8
	case "reserved name":
		return 9
	case "enum option conflict":
		return 10
	}
	return 99
}

func endsCap(s string) bool {
	return s != "" && s[len(s)-1] >= 'A' && s[len(s)-1] <= 'Z'
}

func errClass(err error) string {
	s := err.Error()
	switch {
	case strings.Contains(s, "is reserved: "):
		// looked for FIRST: a walker error stands alone; the conversion's reserved-name error is
		// reported together with its other errors (Entity.compile_file does the same)
		return "reserved name"
	case strings.Contains(s, "conflicts with option") || (strings.Contains(s, "enum ") && strings.Contains(s, ": option ") && strings.Contains(s, "is defined more than once")):
		// second: enum options (statuses) whose protobuf canonical names collide (fix 4fb405b), a
		// conversion error reported together with the others
		return "enum option conflict"
	case strings.Contains(s, "is already used by an earlier"), strings.Contains(s, "is defined more than once"):
		// a name defined twice in one scope: reported from the j5s source since fix 5b3591a (properties /
		// options with one protobuf name, a type defined twice; the link step reports the rest: "already
		// defined", below). Looked for before "not found": a type defined twice makes later checks that
		// look the type up fail as a consequence (e.g. the default filters of the status field)
		return "name conflict"
	case strings.Contains(s, "cannot be both required and optional"):
		return "required and optional"
	case strings.Contains(s, "missing field") && strings.Contains(s, "in request"):
		return "missing field in request"
	case strings.Contains(s, "value is required"):
		return "value is required"
	case strings.Contains(s, "not found in entity"):
		return "status not found in entity"
	case strings.Contains(s, "duplicate summary"):
		return "duplicate summary name"
	case strings.Contains(s, "belongs in a oneof and must be optional") || strings.Contains(s, "must be declared before synthetic oneofs"):
		return "proto3-optional repeated field (optional array or map)"
	case strings.Contains(s, "using open semantics has conflict"):
		return "enum values that differ only in case"
	case strings.Contains(s, "must contain at least one field declaration"):
		return "proto oneof without members"
	case strings.Contains(s, "unknown enum value"):
		return "unknown enum value"
	case strings.Contains(s, "not found"):
		return "type not found"
	case strings.Contains(s, "already defined"):
		return "name conflict"
	case strings.Contains(s, "listRequest is not supported on a method"):
		// looked for LAST: the conversion reports its errors together, a joint message is classified
		// by the other error (Entity.convert does the same)
		return "list request on a method"
	}
	if len(s) > 80 {
		s = s[:80]
	}
	return s
}

// ---- direct oracle: the property clauses, re-stated on the real descriptors -----------------

func findMsg(f *descriptorpb.FileDescriptorProto, name string) *descriptorpb.DescriptorProto {
	for _, m := range f.MessageType {
		if m.GetName() == name {
			return m
		}
	}
	return nil
}

func oracleC17(res *vh.Result, caseNo int, d *entityDecl, dump *dumped, in any) {
	fail := func(sig, clause, got string) {
		res.Fail(vh.Failure{Case: caseNo, Stream: "entity", Sig: sig, Clause: clause, Input: in, Got: got})
	}
	if len(dump.Files) != 3 {
		fail("C17 expansion does not produce the three files", "schemas + .service + .topic files", fmt.Sprint(len(dump.Files)))
		return
	}
	main, svc, topic := dump.Files[0], dump.Files[1], dump.Files[2]
	lines := map[string][]line{} // message full name -> its lines
	var cur string
	for _, l := range dump.Lines {
		if l.Tag == 1 {
			cur = l.Strs[0]
		}
		if l.Tag == 1 || l.Tag == 2 || l.Tag == 3 {
			lines[cur] = append(lines[cur], l)
		}
	}
	// the Keys message (by annotation) names the entity prefix X
	var X, entAnn string
	for _, l := range dump.Lines {
		if l.Tag == 1 && l.Nums[1] == 1 && l.Nums[0] == 0 {
			name := strings.TrimPrefix(l.Strs[0], d.Pkg+".")
			if !strings.HasSuffix(name, "Keys") {
				fail("C17 KEYS part not named <X>Keys", "named from the entity name", name)
				return
			}
			X, entAnn = strings.TrimSuffix(name, "Keys"), l.Strs[1]
		}
	}
	if X == "" {
		fail("C17 no message annotated as KEYS part", "Keys schema with entity annotation", "")
		return
	}
	squash := func(s string) string { return strings.ToLower(strings.ReplaceAll(s, "_", "")) }
	if squash(X) != squash(d.Name) {
		fail("C17 component prefix is not the entity name", "named from the entity name", X)
	}
	// schemas
	for _, part := range []struct {
		suffix string
		num    uint64
	}{{"Keys", 1}, {"Data", 4}, {"State", 2}, {"Event", 3}} {
		ls := lines[d.Pkg+"."+X+part.suffix]
		if ls == nil {
			fail("C17 missing schema "+part.suffix, "yields Keys, Data, Status, State, EventType and Event schemas", X+part.suffix)
			continue
		}
		if ls[0].Nums[1] != part.num || ls[0].Strs[1] != entAnn {
			fail("C17 "+part.suffix+" schema carries a different entity annotation", "all carrying the same entity annotation", ls[0].String())
		}
	}
	if lines[d.Pkg+"."+X+"EventType"] == nil {
		fail("C17 missing schema EventType", "yields Keys, Data, Status, State, EventType and Event schemas", X+"EventType")
	}
	var statusEnum *descriptorpb.EnumDescriptorProto
	for _, e := range main.EnumType {
		if e.GetName() == X+"Status" {
			statusEnum = e
		}
	}
	if statusEnum == nil {
		fail("C17 missing Status enum", "yields ... Status ...", X+"Status")
	} else {
		// statuses numbered in declaration order after UNSPECIFIED
		vals := statusEnum.Value
		if len(vals) == 0 || vals[0].GetNumber() != 0 || !strings.HasSuffix(vals[0].GetName(), "UNSPECIFIED") {
			fail("C17 status enum does not start with UNSPECIFIED = 0", "statuses are numbered in declaration order after UNSPECIFIED", fmt.Sprint(vals))
		}
		decl := d.Status
		// a first status that SPELLS the zero value (UNSPECIFIED / <PREFIX>UNSPECIFIED) is the zero value
		// (isExplicitZero, fix a65e1f2; X_UNSPECIFIED is an ordinary status)
		statusPrefix := strcase.ToScreamingSnake(d.Name) + "_STATUS_"
		if len(decl) > 0 && (decl[0] == "UNSPECIFIED" || decl[0] == statusPrefix+"UNSPECIFIED") && (len(d.StatusNum) == 0 || d.StatusNum[0] == 0) {
			decl = decl[1:]
		}
		if len(vals) != len(decl)+1 {
			fail("C17 status count differs from the declaration", "statuses are numbered in declaration order after UNSPECIFIED", fmt.Sprint(len(vals)))
		} else {
			for i, s := range decl {
				if vals[i+1].GetNumber() != int32(i+1) || !strings.HasSuffix(vals[i+1].GetName(), s) {
					fail("C17 status not numbered in declaration order", "statuses are numbered in declaration order after UNSPECIFIED", vals[i+1].String())
				}
			}
		}
	}
	// State / Event shape
	shape := func(name string, want [][2]string, flattenIdx int) {
		ls := lines[d.Pkg+"."+name]
		var fs []line
		for _, l := range ls {
			if l.Tag == 2 {
				fs = append(fs, l)
			}
		}
		if len(fs) != len(want) {
			fail("C17 "+strings.TrimPrefix(name, X)+" does not have the documented fields", "State and Event hold metadata plus the flattened keys (and data/status, or the event oneof)", fmt.Sprint(len(fs)))
			return
		}
		for i, w := range want {
			if fs[i].Strs[0] != w[0] || fs[i].Strs[2] != w[1] || fs[i].Nums[0] != uint64(i+1) || fs[i].Nums[3] != 1 || (fs[i].Nums[4] == 1) != (i == flattenIdx) {
				fail("C17 "+strings.TrimPrefix(name, X)+" field "+w[0]+" differs from the documented shape", "State and Event hold metadata plus the flattened keys (and data/status, or the event oneof)", fs[i].String())
			}
		}
	}
	shape(X+"State", [][2]string{{"metadata", "j5.state.v1.StateMetadata"}, {"keys", d.Pkg + "." + X + "Keys"}, {"data", d.Pkg + "." + X + "Data"}, {"status", d.Pkg + "." + X + "Status"}}, 1)
	shape(X+"Event", [][2]string{{"metadata", "j5.state.v1.EventMetadata"}, {"keys", d.Pkg + "." + X + "Keys"}, {"event", d.Pkg + "." + X + "EventType"}}, 1)
	// event oneof <-> events
	if et := findMsg(main, X+"EventType"); et != nil {
		if len(et.Field) != len(d.Events) || len(et.NestedType) != len(d.Events) {
			fail("C17 event oneof options differ in number from the declared events", "exactly one option per declared event", fmt.Sprintf("%d fields %d nested for %d events", len(et.Field), len(et.NestedType), len(d.Events)))
		} else {
			for i, ev := range d.Events {
				f := et.Field[i]
				if f.GetTypeName() != "."+d.Pkg+"."+X+"EventType."+ev.Name || et.NestedType[i].GetName() != ev.Name || f.OneofIndex == nil || f.GetNumber() != int32(i+1) {
					fail("C17 event oneof option does not point at the nested message of the event's name", "one option per declared event pointing at a nested message of that name", f.String())
				}
			}
		}
	}
	// primary keys required, and in order as the path parameters of Get and Events
	var primaries, shardOnly []string
	if keys := findMsg(main, X+"Keys"); keys != nil {
		for i, f := range keys.Field {
			fl := fieldLines(f)[0]
			if fl.Nums[6] == 1 {
				primaries = append(primaries, f.GetName())
				if fl.Nums[3] != 1 {
					fail("C17 primary key field is not required", "primary-key fields are required", f.GetName())
				}
			} else if i < len(d.Keys) && d.Keys[i].Shard && d.Keys[i].Key {
				shardOnly = append(shardOnly, f.GetName())
			}
		}
	}
	var query *descriptorpb.ServiceDescriptorProto
	nCommand := 0
	for _, s := range svc.Service {
		sl := svcLines(svc.GetPackage(), 1, s)[0]
		switch sl.Nums[1] {
		case 1:
			if query != nil {
				fail("C17 more than one query service", "a query service with Get, List and Events methods", s.GetName())
			}
			query = s
		case 2:
			nCommand++
		}
		if sl.Strs[1] != entAnn {
			fail("C17 service carries a different entity annotation", "all carrying the same entity annotation", sl.String())
		}
	}
	if nCommand != len(d.Commands) {
		fail("C17 command services differ in number from the declaration", "every declared command service", fmt.Sprint(nCommand))
	}
	if query == nil || len(query.Method) != 3 {
		fail("C17 no query service with three methods", "a query service with Get, List and Events methods", "")
	} else {
		ql := svcLines(svc.GetPackage(), 1, query)
		Q := strings.TrimSuffix(query.GetName(), "QueryService")
		if squash(Q) != squash(d.Name) || !strings.HasSuffix(query.GetName(), "QueryService") {
			fail("C17 query service is not named from the entity name", "named from the entity name", query.GetName())
		}
		for i, suffix := range []string{"Get", "List", "Events"} {
			if ql[i+1].Strs[0] != Q+suffix || ql[i+1].Nums[1] != uint64(i+1) || ql[i+1].Nums[0] != 1 {
				fail("C17 query method "+suffix+" missing or mis-flagged", "a query service with Get, List and Events methods", ql[i+1].String())
			}
		}
		params := func(path string) []string {
			var out []string
			for _, p := range strings.Split(path, "/") {
				if strings.HasPrefix(p, "{") && strings.HasSuffix(p, "}") {
					out = append(out, p[1:len(p)-1])
				}
			}
			return out
		}
		getP, evP := params(ql[1].Strs[3]), params(ql[3].Strs[3])
		sub := func(ps []string) []string { // path parameters that are primary keys
			var out []string
			for _, p := range ps {
				for _, k := range primaries {
					if p == k {
						out = append(out, p)
					}
				}
			}
			return out
		}
		if strings.Join(sub(getP), ",") != strings.Join(primaries, ",") {
			fail("C17 Get path parameters are not the primary keys in declaration order", "primary-key fields ... appear in declaration order as the path parameters of Get and Events", ql[1].Strs[3])
		}
		if strings.Join(evP, ",") != strings.Join(getP, ",") || !strings.HasSuffix(ql[3].Strs[3], "/events") {
			fail("C17 Events path parameters differ from Get's", "primary-key fields ... appear in declaration order as the path parameters of Get and Events", ql[3].Strs[3])
		}
		if len(getP) != len(primaries)+len(shardOnly) {
			fail("C17 Get path parameters are not exactly the primary and shard keys", "path parameters of Get", ql[1].Strs[3])
		}
	}
	// the Get and Events requests hold every path key; a primary key is required there too
	if query != nil && len(query.Method) == 3 {
		for _, mi := range []int{0, 2} {
			req := strings.TrimPrefix(query.Method[mi].GetInputType(), ".")
			have := map[string]line{}
			for _, l := range lines[req] {
				if l.Tag == 2 {
					have[l.Strs[0]] = l
				}
			}
			for _, k := range d.Keys {
				if !k.Key || !(k.Primary || k.Shard) {
					continue
				}
				l, ok := have[strcase.ToSnake(k.Name)]
				if !ok {
					fail("C17 path key missing from the Get/Events request", "primary-key fields ... appear ... as the path parameters of Get and Events", req+"."+k.Name)
				} else if k.Primary && l.Nums[3] != 1 {
					fail("C17 primary key not required in the Get/Events request", "primary-key fields are required", req+"."+k.Name)
				}
			}
		}
	}
	// List is scoped by the shard keys: every key-typed key flagged shardKey (primary or not, tenant or not,
	// optional or not) is a path parameter of List, in declaration order, and a field of the List request
	// (next to page / query); no other key is. Get, List and Events agree on the keys they share: one
	// field of the same name, type, key options, required / optional flags in every request that holds it
	// (only the field number may differ, List numbers its subset).
	if query != nil && len(query.Method) == 3 {
		ql := svcLines(svc.GetPackage(), 1, query)
		var wantList []string
		for _, k := range d.Keys {
			if k.Key && k.Shard {
				wantList = append(wantList, strcase.ToSnake(k.Name))
			}
		}
		var listP []string
		for _, p := range strings.Split(ql[2].Strs[3], "/") {
			if strings.HasPrefix(p, "{") && strings.HasSuffix(p, "}") {
				listP = append(listP, p[1:len(p)-1])
			}
		}
		if strings.Join(listP, ",") != strings.Join(wantList, ",") {
			fail("C17 List path parameters are not the shard keys in declaration order", "shard keys appear in the List method's path (List is scoped by the declared shard keys)", ql[2].Strs[3]+" for shard keys "+strings.Join(wantList, ","))
		}
		reqFields := func(mi int) (names []string, byName map[string]line) {
			byName = map[string]line{}
			for _, l := range lines[strings.TrimPrefix(query.Method[mi].GetInputType(), ".")] {
				if l.Tag == 2 {
					names = append(names, l.Strs[0])
					byName[l.Strs[0]] = l
				}
			}
			return
		}
		getN, getF := reqFields(0)
		listN, listF := reqFields(1)
		evN, evF := reqFields(2)
		// the description of a field (leading comment, tag 14 directly after the field's line)
		desc := map[string]string{}
		{
			var msg string
			for i, l := range dump.Lines {
				if l.Tag == 1 {
					msg = l.Strs[0]
				}
				if l.Tag == 2 && i+1 < len(dump.Lines) && dump.Lines[i+1].Tag == 14 {
					desc[msg+"."+l.Strs[0]] = dump.Lines[i+1].Strs[0]
				}
			}
		}
		reqName := func(mi int) string { return strings.TrimPrefix(query.Method[mi].GetInputType(), ".") }
		for _, n := range getN {
			g, e := desc[reqName(0)+"."+n], desc[reqName(2)+"."+n]
			if _, ok := evF[n]; ok && g != e {
				fail("C17 Get and Events requests disagree on the description of a shared key", "Get, List and Events agree on the keys they share", n+": "+g+" | "+e)
			}
			if _, ok := listF[n]; ok && g != desc[reqName(1)+"."+n] {
				fail("C17 Get and List requests disagree on the description of a shared key", "Get, List and Events agree on the keys they share", n+": "+g+" | "+desc[reqName(1)+"."+n])
			}
		}
		// the generated page / query fields close the List and Events requests (a key of that name in the
		// path is reserved and never compiles)
		keysOf := func(ns []string) []string {
			if n := len(ns); n > 0 && ns[n-1] == "query" {
				ns = ns[:n-1]
			}
			if n := len(ns); n > 0 && ns[n-1] == "page" {
				ns = ns[:n-1]
			}
			return ns
		}
		listKeys := keysOf(listN)
		if strings.Join(listKeys, ",") != strings.Join(wantList, ",") {
			fail("C17 List request fields are not the shard keys in declaration order", "shard keys appear ... as fields of the List request", strings.Join(listN, ",")+" for shard keys "+strings.Join(wantList, ","))
		}
		evKeys := keysOf(evN)
		if strings.Join(evKeys, ",") != strings.Join(getN, ",") {
			fail("C17 Events request keys differ from the Get request's", "Get and Events take the same keys", strings.Join(evN, ",")+" vs "+strings.Join(getN, ","))
		}
		same := func(a, b line) bool { // everything but the field number
			if strings.Join(a.Strs, "\x00") != strings.Join(b.Strs, "\x00") || len(a.Nums) != len(b.Nums) {
				return false
			}
			for i := 1; i < len(a.Nums); i++ {
				if a.Nums[i] != b.Nums[i] {
					return false
				}
			}
			return true
		}
		for _, n := range wantList {
			g, okG := getF[n]
			l, okL := listF[n]
			e, okE := evF[n]
			if !okG || !okE {
				fail("C17 shard key missing from the Get/Events request", "Get, List and Events agree on the keys they share (a shard key is part of every URL)", n)
				continue
			}
			if okL && (!same(g, l) || !same(g, e)) {
				fail("C17 Get, List and Events requests disagree on a shared key", "Get, List and Events agree on the keys they share", g.String()+" | "+l.String()+" | "+e.String())
			}
		}
		for _, n := range getN {
			if e, ok := evF[n]; ok && !same(getF[n], e) {
				fail("C17 Get and Events requests disagree on a shared key", "Get, List and Events agree on the keys they share", getF[n].String()+" | "+e.String())
			}
		}
	}
	// every declared command service, with the declared methods
	ci := 0
	for _, s := range svc.Service {
		sl := svcLines(svc.GetPackage(), 1, s)
		if sl[0].Nums[1] != 2 {
			continue
		}
		if ci < len(d.Commands) {
			var want, got []string
			for _, m := range d.Commands[ci].Methods {
				want = append(want, m.Name+":"+fmt.Sprint(m.Verb))
			}
			for _, ml := range sl[1:] {
				got = append(got, ml.Strs[0]+":"+fmt.Sprint(ml.Nums[0]))
			}
			if strings.Join(want, ",") != strings.Join(got, ",") {
				fail("C17 command service methods differ from the declaration", "every declared command service", strings.Join(got, ","))
			}
		}
		ci++
	}
	// the nested event messages hold the declared fields, in order
	if et := findMsg(main, X+"EventType"); et != nil && len(et.NestedType) == len(d.Events) {
		for i, ev := range d.Events {
			var want, got []string
			for _, f := range ev.Fields {
				want = append(want, strcase.ToSnake(f.Name))
			}
			for _, f := range et.NestedType[i].Field {
				got = append(got, f.GetName())
			}
			if strings.Join(want, ",") != strings.Join(got, ",") {
				fail("C17 nested event message does not hold the declared fields", "0..n events with arbitrary fields / a nested message of that name", ev.Name+": "+strings.Join(got, ","))
			}
		}
	}
	// status values carry the prefix SCREAMING_SNAKE(entity)_STATUS_
	if statusEnum != nil {
		prefix := strcase.ToScreamingSnake(d.Name) + "_STATUS_"
		for _, v := range statusEnum.Value {
			if !strings.HasPrefix(v.GetName(), prefix) {
				fail("C17 status value without the entity's status prefix", "statuses ... named from the entity name", v.GetName())
			}
		}
	}
	// each upsert message holds the summary's fields after the upsert metadata
	upsertMsgs := 0
	for _, s := range topic.Service {
		sl := svcLines(topic.GetPackage(), 2, s)
		if sl[0].Nums[1] != 3 || sl[0].Nums[2] != 3 || len(sl) != 2 {
			continue
		}
		if upsertMsgs < len(d.Summaries) {
			var got []string
			for _, l := range lines[sl[1].Strs[1]] {
				if l.Tag == 2 {
					got = append(got, l.Strs[0])
				}
			}
			want := []string{"upsert"}
			for _, f := range d.Summaries[upsertMsgs].Fields {
				want = append(want, strcase.ToSnake(f.Name))
			}
			if strings.Join(want, ",") != strings.Join(got, ",") {
				fail("C17 upsert message does not hold upsert metadata + the summary's fields", "one upsert topic per summary", sl[1].Strs[1]+": "+strings.Join(got, ","))
			}
		}
		upsertMsgs++
	}
	// topics
	nUpsert, nEvent := 0, 0
	for _, s := range topic.Service {
		sl := svcLines(topic.GetPackage(), 2, s)[0]
		if sl.Nums[1] != 3 {
			continue
		}
		switch sl.Nums[2] {
		case 3:
			nUpsert++
		case 4:
			nEvent++
		}
		if sl.Strs[2] != d.Pkg+"."+X {
			fail("C17 topic carries a different entity name", "all carrying the same entity annotation", sl.String())
		}
	}
	if nEvent != 1 {
		fail("C17 publish topic missing or duplicated", "a publish topic", fmt.Sprint(nEvent))
	}
	if nUpsert != len(d.Summaries) {
		fail("C17 upsert topics differ in number from the summaries", "one upsert topic per summary", fmt.Sprint(nUpsert))
	}
}

// oracleClient: the client API groups the entity's parts into exactly one StateEntity.
func oracleClient(res *vh.Result, caseNo int, d *entityDecl, ents []*client_j5pb.StateEntity, plain []*client_j5pb.Service, in any) {
	fail := func(sig, clause, got string) {
		res.Fail(vh.Failure{Case: caseNo, Stream: "entity", Sig: sig, Clause: clause, Input: in, Got: got})
	}
	if len(ents) != 1 {
		fail("C17 client API does not show exactly one state entity", "all carrying the same entity annotation (observed at the client API StateEntity derived from the descriptors)", fmt.Sprint(len(ents)))
		return
	}
	e := ents[0]
	if len(plain) != 0 {
		fail("C17 client API leaves an entity service outside the StateEntity", "a query service ..., every declared command service ..., all carrying the same entity annotation (observed at the client API StateEntity)", plain[0].Name)
	}
	if e.QueryService == nil || len(e.QueryService.Methods) != 3 {
		fail("C17 client StateEntity has no query service with three methods", "a query service with Get, List and Events methods", "")
	}
	if len(e.CommandServices) != len(d.Commands) {
		fail("C17 client StateEntity command services differ in number from the declaration", "every declared command service", fmt.Sprint(len(e.CommandServices)))
	}
	if len(e.Events) != len(d.Events) {
		fail("C17 client StateEntity events differ in number from the declaration", "exactly one option per declared event", fmt.Sprint(len(e.Events)))
	}
	var prim []string
	for _, k := range d.Keys {
		if k.Key && k.Primary {
			prim = append(prim, k.Name)
		}
	}
	if strings.Join(prim, ",") != strings.Join(e.PrimaryKey, ",") {
		fail("C17 client StateEntity primary keys are not the declared primary keys in order", "primary-key fields ... in declaration order", strings.Join(e.PrimaryKey, ","))
	}
}

// countShape records which corners of the declaration space a case touches.
func countShape(res *vh.Result, e *entityDecl) {
	n := e.Name
	switch {
	case endsCap(n):
		res.Count("name_ends_in_capital")
	case strings.ContainsAny(n, "0123456789"):
		res.Count("name_with_digit")
	case strings.Contains(n, "_"):
		res.Count("name_with_underscore")
	case n[0] >= 'a' && n[0] <= 'z':
		res.Count("name_lower_camel")
	default:
		res.Count("name_upper_camel")
	}
	if strcase.ToCamel(strcase.ToSnake(n)) != strcase.ToCamel(n) {
		res.Count("name_query_prefix_differs")
	}
	prim, shard, foreign, tenant, scalarKey := 0, 0, 0, 0, 0
	for _, k := range e.Keys {
		if k.Key && k.Primary {
			prim++
		}
		if k.Shard {
			shard++
		}
		if k.Foreign != nil {
			foreign++
		}
		if k.Tenant != nil {
			tenant++
		}
		if !k.Key {
			scalarKey++
		}
	}
	res.Count(fmt.Sprintf("keys_%d", len(e.Keys)))
	res.Count(fmt.Sprintf("primary_keys_%d", prim))
	if shard > 0 {
		res.Count("with_shard_key")
	}
	if foreign > 0 {
		res.Count("with_foreign_key")
	}
	if tenant > 0 {
		res.Count("with_tenant_key")
	}
	if scalarKey > 0 {
		res.Count("with_non_key_typed_key")
	}
	res.Count(fmt.Sprintf("events_%d", len(e.Events)))
	res.Count(fmt.Sprintf("commands_%d", len(e.Commands)))
	res.Count(fmt.Sprintf("summaries_%d", len(e.Summaries)))
	res.Count(fmt.Sprintf("statuses_%d", len(e.Status)))
	if e.Query != nil {
		res.Count("with_query_settings")
		if len(e.Query.DefaultStatus) > 0 {
			res.Count("with_default_status_filter")
		}
		if e.Query.EventsInGet {
			res.Count("with_events_in_get")
		}
	}
	if e.BaseURL != "" {
		res.Count("with_base_url_override")
	}
	kinds := map[string]bool{}
	var walk func(fs []uField)
	walk = func(fs []uField) {
		for _, f := range fs {
			switch {
			case f.Inline != "":
				kinds["inline_"+f.Inline] = true
				if f.Container != "" {
					kinds[f.Container+"_of_inline_"+f.Inline] = true
				}
			case f.Container != "":
				kinds[f.Container] = true
			case f.Ext != "":
				kinds["wkt_"+f.J5Type] = true
			}
			if f.Optional && f.Container != "" {
				kinds["optional_container"] = true
			}
		}
	}
	for _, k := range e.Keys {
		walk([]uField{k.uField})
	}
	walk(e.Data)
	for _, ev := range e.Events {
		walk(ev.Fields)
	}
	for _, c := range e.Commands {
		for _, m := range c.Methods {
			walk(m.Request)
			walk(m.Response)
		}
	}
	for _, sm := range e.Summaries {
		walk(sm.Fields)
	}
	for _, sc := range e.Schemas {
		walk(sc.Fields)
	}
	for k := range kinds {
		res.Count("fieldkind_" + k)
	}
}

//go:build verif

package main

// A deterministic scheduler for goroutines that call into lib/j5schema: the
// hook points (lib/j5schema/verifhook_on.go) park the calling goroutine; the
// scheduler resumes exactly one goroutine at a time and waits until it parks at
// its next hook, finishes, or blocks in a sync mutex (seen from its runtime
// wait reason — not inferred from the hooks, so that a removed or narrowed
// lock is observed as it really behaves).

import (
	"bytes"
	"runtime"
	"strconv"
	"strings"
	"sync"
	"time"

	"github.com/pentops/j5/lib/j5schema"
)

// labels of the model's pc_label
const (
	lbEnter     = 0
	lbWait      = 1
	lbLookup    = 2
	lbInsert    = 3
	lbRefLookup = 4
	lbRefInsert = 5
	lbLinked    = 6
	lbReturn    = 7
	lbDone      = 8
	lbUnknown   = 99
)

var siteLabel = map[string]int{
	"schema.enter": lbEnter,
	"cache.lookup": lbLookup,
	"cache.insert": lbInsert,
	"refto.lookup": lbRefLookup,
	"refto.insert": lbRefInsert,
	"ref.linked":   lbLinked,
	"cache.linked": lbReturn,
	"done":         lbDone,
}

var labelName = map[int]string{
	lbEnter: "schema.enter", lbWait: "blocked(sc.mu.Lock)", lbLookup: "cache.lookup", lbInsert: "cache.insert",
	lbRefLookup: "refto.lookup", lbRefInsert: "refto.insert", lbLinked: "ref.linked", lbReturn: "cache.linked", lbDone: "done",
}

type thrState int

const (
	stParked thrState = iota
	stBlocked
	stDone
)

type thr struct {
	id      int
	gid     uint64
	resume  chan struct{}
	arrived chan string
	state   thrState
	site    string
}

var (
	gidMap   sync.Map // goroutine id -> *thr
	hookOnce sync.Once
)

func curGID() uint64 {
	var buf [64]byte
	n := runtime.Stack(buf[:], false)
	// "goroutine 123 [running]:"
	s := buf[:n]
	s = s[len("goroutine "):]
	i := bytes.IndexByte(s, ' ')
	id, _ := strconv.ParseUint(string(s[:i]), 10, 64)
	return id
}

func hookDispatch(site string) {
	v, ok := gidMap.Load(curGID())
	if !ok {
		return
	}
	t := v.(*thr)
	t.arrived <- site
	<-t.resume
}

func installHook() {
	hookOnce.Do(func() { j5schema.SetVerifHook(hookDispatch) })
}

var stackBuf = make([]byte, 1<<20)

// waitReason returns the runtime's state of goroutine gid ("running", "chan receive", "sync.Mutex.Lock", ...).
func waitReason(gid uint64) string {
	n := runtime.Stack(stackBuf, true)
	key := []byte("goroutine " + strconv.FormatUint(gid, 10) + " [")
	s := stackBuf[:n]
	for {
		i := bytes.Index(s, key)
		if i < 0 {
			return ""
		}
		if i == 0 || s[i-1] == '\n' {
			rest := s[i+len(key):]
			j := bytes.IndexByte(rest, ']')
			if j < 0 {
				return ""
			}
			return string(rest[:j])
		}
		s = s[i+len(key):]
	}
}

// lockWaitReason: the wait reasons the runtime (Go >= 1.20; /repo's go.mod pins the toolchain) gives a
// goroutine parked inside a sync.Mutex / sync.RWMutex operation.  NOT the bare "semacquire": that is
// what a goroutine shows while it waits for one of the runtime's own semaphores (worldsema / gcsema in
// gcStart), and the scheduler's runtime.Stack(all) takes exactly worldsema for its sample - a lock
// holder whose allocation starts a GC cycle at that moment parks on it and was taken for blocked in
// sc.mu.Lock.  Seen once (VERIF_SEED=2, case 0 - the first, slow, steps of the process, where the
// 100us timeout does fire for a running thread): the HOLDER t0 labelled blocked(sc.mu.Lock) between
// refto.insert and cache.linked, one false model/implementation mismatch on the unchanged tree; not
// reproduced in 52 further runs (12 of them with GOGC=1), so the cause is the probable one, not a
// proven one; the second sample in mutexWaiting guards against any other transient wait too (conc3).
func lockWaitReason(r string) bool {
	return strings.HasPrefix(r, "sync.Mutex.") || strings.HasPrefix(r, "sync.RWMutex.")
}

// mutexWaiting: goroutine gid is parked in a mutex operation (one sample; absorb re-examines its
// verdicts on every step, so a stale one corrects itself there).
func mutexWaiting(gid uint64) bool { return lockWaitReason(waitReason(gid)) }

// mutexBlocked: the same in two samples with the processor yielded in between - the verdict of await,
// which becomes a trace label: being blocked persists while every other goroutine of the group is
// parked, anything transient does not.
func mutexBlocked(gid uint64) bool {
	if !mutexWaiting(gid) {
		return false
	}
	runtime.Gosched()
	return mutexWaiting(gid)
}

// Sched runs one group of threads.
type Sched struct {
	thr     []*thr
	blocked []*thr
	wg      sync.WaitGroup
}

// Start launches one goroutine per body; each runs up to its first hook point (or to its end).
func Start(bodies []func()) *Sched {
	installHook()
	s := &Sched{}
	for i, body := range bodies {
		t := &thr{id: i, resume: make(chan struct{}), arrived: make(chan string, 1)}
		s.thr = append(s.thr, t)
		ready := make(chan struct{})
		s.wg.Add(1)
		body := body
		go func() {
			defer s.wg.Done()
			t.gid = curGID()
			gidMap.Store(t.gid, t)
			close(ready)
			defer func() {
				gidMap.Delete(t.gid)
				t.arrived <- "done"
			}()
			body()
		}()
		<-ready
		s.await(t)
		s.absorb()
	}
	return s
}

// await waits until the running thread t parks at a hook, finishes, or blocks in a mutex.
func (s *Sched) await(t *thr) int {
	for spin := 0; spin < 200; spin++ {
		select {
		case site := <-t.arrived:
			return s.arrive(t, site)
		default:
			runtime.Gosched()
		}
	}
	for {
		select {
		case site := <-t.arrived:
			return s.arrive(t, site)
		case <-time.After(100 * time.Microsecond):
			if mutexBlocked(t.gid) {
				// it may have been woken between the check and now only by another
				// thread's unlock, and every other thread is parked: it is blocked.
				t.state = stBlocked
				s.blocked = append(s.blocked, t)
				return lbWait
			}
		}
	}
}

func (s *Sched) arrive(t *thr, site string) int {
	if site == "done" {
		t.state = stDone
		t.site = site
		return lbDone
	}
	t.state = stParked
	t.site = site
	if l, ok := siteLabel[site]; ok {
		return l
	}
	return lbUnknown
}

// absorb lets goroutines that were handed the mutex run up to their next hook.
func (s *Sched) absorb() {
	for changed := true; changed; {
		changed = false
		for i, t := range s.blocked {
			if mutexWaiting(t.gid) {
				continue
			}
			// woken: it is running towards its next hook point
			s.blocked = append(append([]*thr{}, s.blocked[:i]...), s.blocked[i+1:]...)
			for {
				done := false
				select {
				case site := <-t.arrived:
					s.arrive(t, site)
					done = true
				case <-time.After(100 * time.Microsecond):
					if mutexWaiting(t.gid) { // lost the lock to someone else after all
						s.blocked = append(s.blocked, t)
						done = true
					}
				}
				if done {
					break
				}
			}
			changed = true
			break
		}
	}
}

// Step lets thread i take one step; it returns the label of where the thread is afterwards.
func (s *Sched) Step(i int) int {
	if i < 0 || i >= len(s.thr) {
		return 9
	}
	t := s.thr[i]
	switch t.state {
	case stDone:
		return lbDone
	case stBlocked:
		return lbWait
	}
	t.resume <- struct{}{}
	l := s.await(t)
	s.absorb()
	return l
}

func (s *Sched) AllDone() bool {
	for _, t := range s.thr {
		if t.state != stDone {
			return false
		}
	}
	return true
}

// Stuck: some thread is unfinished and every unfinished thread is blocked.
func (s *Sched) Stuck() bool {
	some := false
	for _, t := range s.thr {
		if t.state == stParked {
			return false
		}
		if t.state == stBlocked {
			some = true
		}
	}
	return some
}

// Drain steps the threads round-robin until all are done; it returns the steps taken
// and whether it gave up (deadlock, or more than max steps).
func (s *Sched) Drain(max int) (steps []int, labels []int, gaveUp bool) {
	for !s.AllDone() {
		// every unfinished thread waits for the lock: for good only if that is still so after a grace period (several
		// threads released together - readers of an RWMutex - may queue for the lock again behind each other for a
		// moment, which absorb sampled as "still waiting")
		for try := 0; try < 60 && s.Stuck(); try++ {
			time.Sleep(2 * time.Millisecond)
			s.absorb()
		}
		if s.Stuck() || len(steps) >= max {
			return steps, labels, true
		}
		for i := range s.thr {
			if s.thr[i].state == stDone {
				continue
			}
			steps = append(steps, i)
			labels = append(labels, s.Step(i))
		}
	}
	return steps, labels, false
}

// Abandon releases a stuck group as well as it can (parked threads are resumed
// freely; blocked ones are left to the runtime).
func (s *Sched) Abandon() {
	for _, t := range s.thr {
		gidMap.Delete(t.gid)
	}
	for _, t := range s.thr {
		if t.state == stParked {
			t := t
			go func() {
				for {
					select {
					case t.resume <- struct{}{}:
					case site := <-t.arrived:
						if site == "done" {
							return
						}
					case <-time.After(2 * time.Second):
						return
					}
				}
			}()
		}
	}
}

func (s *Sched) Wait() { s.wg.Wait() }

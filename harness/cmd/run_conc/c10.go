//go:build verif

package main

import (
	"encoding/hex"
	"encoding/json"
	"fmt"
	"net/url"
	"os"
	"strconv"
	"strings"

	"github.com/pentops/j5/lib/j5codec"
	"github.com/pentops/j5/lib/j5schema"
	"google.golang.org/protobuf/proto"
	"google.golang.org/protobuf/reflect/protoreflect"

	"verifharness/cmd/run_conc/cdesc"
	"verifharness/vh"
)

func init() { vh.Register("C10", runC10) }

// call kinds
const (
	kSchema = 0 // SchemaCache.Schema(desc), observed by unfolding the returned schema
	kEncode = 1 // Codec.ProtoToJSON of a populated message
	kDecode = 2 // Codec.JSONToProto of the solo encoding
	kQuery  = 3 // Codec.QueryToProto
)

var kindName = []string{"schema", "encode", "decode", "query"}

type call struct {
	Kind int `json:"kind"`
	Node int `json:"node"`
}

type caseSpec struct {
	U     *cdesc.Universe `json:"universe"`
	K     int             `json:"depth"`
	Mode  string          `json:"mode"` // cache | codec | global
	Calls [][]call        `json:"calls"`
	Sched []int           `json:"schedule"`
	Why   string          `json:"why"`
	// Repeat (replay only): the case is run up to that many times in one process (the input of a failure "process dies":
	// which of the goroutines released together gets where first is not forced by the schedule)
	Repeat int `json:"repeat,omitempty"`
}

type callRes struct {
	Err   string
	Nil   bool // Schema returned a nil (typed nil) schema and no error
	Panic string
	Tree  *cdesc.Tree
	Out   string
	Root  j5schema.RootSchema // the object Schema returned (identity is compared within a case)
}

// class of a completed call: 0 returned normally, 1 returned an error (or a nil schema), 2 panicked
func (r callRes) class() int {
	switch {
	case r.Panic != "":
		return 2
	case r.Err != "" || r.Nil:
		return 1
	}
	return 0
}

func (r callRes) failed() bool { return r.Err != "" || r.Panic != "" || r.Nil }

func (r callRes) String() string {
	switch {
	case r.Panic != "":
		return "panic: " + r.Panic
	case r.Nil:
		return "nil schema, no error"
	case r.Err != "":
		return "error: " + r.Err
	case r.Tree != nil:
		return "schema " + r.Tree.String()
	}
	return "ok " + r.Out
}

// sameRes: what the caller observes is the same — the class, the error text / panic value,
// the schema's unfolding, the encode output bytes, the decoded message
func sameRes(a, b callRes) bool {
	if a.failed() != b.failed() {
		return false
	}
	if a.failed() {
		return a.Panic == b.Panic && a.Nil == b.Nil && a.Err == b.Err
	}
	if (a.Tree == nil) != (b.Tree == nil) {
		return false
	}
	if a.Tree != nil {
		return a.Tree.Coq() == b.Tree.Coq()
	}
	return a.Out == b.Out
}

// the shared object of a case
type sharedObj struct {
	cache *j5schema.SchemaCache
	codec *j5codec.Codec
}

func newShared(mode string) *sharedObj {
	switch mode {
	case "cache":
		return &sharedObj{cache: j5schema.NewSchemaCache()}
	case "global":
		return &sharedObj{codec: j5codec.Global}
	}
	return &sharedObj{codec: j5codec.NewCodec()}
}

type caseEnv struct {
	b       *cdesc.Built
	k       int
	encoded map[int]string // solo encoding of the populated message of a node
}

func detBytes(m protoreflect.Message) string {
	b, err := proto.MarshalOptions{Deterministic: true}.Marshal(m.Interface())
	if err != nil {
		return "marshal error: " + err.Error()
	}
	return hex.EncodeToString(b)
}

func (e *caseEnv) doCall(sh *sharedObj, c call) (res callRes) {
	defer func() {
		if r := recover(); r != nil {
			res = callRes{Panic: fmt.Sprint(r)}
		}
	}()
	switch c.Kind {
	case kSchema:
		root, err := sh.cache.Schema(e.b.Msg[c.Node])
		if err != nil {
			return callRes{Err: err.Error()}
		}
		if cdesc.NilSchema(root) {
			// the typed nil pointer of a failed build, handed out without an error: not a usable schema
			return callRes{Nil: true}
		}
		return callRes{Tree: e.b.UnfoldRoot(e.k, root), Root: root}
	case kEncode:
		out, err := sh.codec.ProtoToJSON(e.b.Populate(c.Node, 2))
		if err != nil {
			return callRes{Err: err.Error()}
		}
		return callRes{Out: string(out)}
	case kDecode:
		msg := e.b.New(c.Node)
		if err := sh.codec.JSONToProto([]byte(e.encoded[c.Node]), msg); err != nil {
			return callRes{Err: err.Error()}
		}
		return callRes{Out: detBytes(msg)}
	case kQuery:
		msg := e.b.New(c.Node)
		if err := sh.codec.QueryToProto(url.Values{"label": {"q"}}, msg); err != nil {
			return callRes{Err: err.Error()}
		}
		return callRes{Out: detBytes(msg)}
	}
	return callRes{Err: "unknown call kind"}
}

// solo: the call run alone on a fresh cache / codec
func (e *caseEnv) solo(c call) callRes {
	mode := "codec"
	if c.Kind == kSchema {
		mode = "cache"
	}
	return e.doCall(newShared(mode), c)
}

func newEnv(u *cdesc.Universe, k int) (*caseEnv, error) {
	b, err := u.Build()
	if err != nil {
		return nil, err
	}
	e := &caseEnv{b: b, k: k, encoded: map[int]string{}}
	for i := range u.Nodes {
		if u.Nodes[i].Kind != cdesc.KMsg {
			continue
		}
		r := e.doCall(newShared("codec"), call{Kind: kEncode, Node: i})
		if u.ReachesCollision(i) {
			// a message that contains both descriptors of one schema name is reflected with the schema of the
			// first for both fields: whether its populated form encodes is not a function of Good
			e.encoded[i] = r.Out
			if r.failed() {
				e.encoded[i] = "{}"
			}
			continue
		}
		if r.failed() != !u.Good(i) {
			return nil, fmt.Errorf("solo encode of node %d (reflectable: %v): %s", i, u.Good(i), r)
		}
		e.encoded[i] = r.Out
	}
	return e, nil
}

type caseRun struct {
	Sched  []int // the schedule actually run (given schedule + drain)
	Trace  []int
	Res    [][]callRes
	Stuck  bool
	NSteps int
}

// runForced runs the case's threads under the forced schedule, then drains round-robin.
func runForced(cs *caseSpec, e *caseEnv) *caseRun {
	sh := newShared(cs.Mode)
	out := &caseRun{Res: make([][]callRes, len(cs.Calls))}
	bodies := make([]func(), len(cs.Calls))
	for i := range cs.Calls {
		i := i
		bodies[i] = func() {
			for _, c := range cs.Calls[i] {
				out.Res[i] = append(out.Res[i], e.doCall(sh, c))
			}
		}
	}
	s := Start(bodies)
	for _, t := range cs.Sched {
		out.Sched = append(out.Sched, t)
		out.Trace = append(out.Trace, s.Step(t))
	}
	steps, labels, gaveUp := s.Drain(4000)
	out.Sched = append(out.Sched, steps...)
	out.Trace = append(out.Trace, labels...)
	out.Stuck = gaveUp
	if gaveUp {
		s.Abandon()
	} else {
		s.Wait()
	}
	return out
}

// collisionSig: the signature of the one recorded defect of C10 (KNOWN_FINDINGS.txt): since /repo 0e6056c a schema name
// belongs to the descriptor that asked for it first, and a call that meets a name claimed by another descriptor fails.
// Given only to a call on a type from which one of two messages sharing a schema name is reachable, that returned this error.
const collisionSig = "C10 two messages with one schema name (a nested message M.N and a top-level message M_N of one package): whichever is reflected second on a shared cache fails with 'schema name ... is used by both ...', though the call succeeds alone"

// collisionTextSig: the same defect on a type that contains both descriptors and so fails alone as well: which descriptor
// the error names first, and at which field the build stops, depends on which of the two is already in the shared cache.
const collisionTextSig = "C10 two messages with one schema name (a nested message M.N and a top-level message M_N of one package): a type holding both fails alone and on a shared cache with 'schema name ... is used by both ...', but the text (order of the two descriptors, failing field) depends on which was reflected first"

// ---------------------------------------------------------------- generators

func genCalls(r *vh.Rand, u *cdesc.Universe, mode string) [][]call {
	ms := cdesc.MsgNodes(u)
	nt := r.Range(2, 4)
	if r.Chance(10) {
		nt = r.Range(5, 6)
	}
	hot := vh.Pick(r, ms) // several threads make their first call on the same type
	calls := make([][]call, nt)
	for t := range calls {
		nc := r.Range(1, 3)
		if r.Chance(5) {
			nc = 0
		}
		for k := 0; k < nc; k++ {
			node := vh.Pick(r, ms)
			if k == 0 && r.Chance(50) {
				node = hot
			}
			kind := kSchema
			if mode != "cache" {
				kind = r.Range(kEncode, kQuery)
			}
			calls[t] = append(calls[t], call{Kind: kind, Node: node})
		}
		if calls[t] == nil {
			calls[t] = []call{}
		}
	}
	return calls
}

func genSched(r *vh.Rand, nt int) ([]int, string) {
	var s []int
	switch r.Intn(5) {
	case 0, 1: // uniform
		for n := r.Range(0, 60); n > 0; n-- {
			s = append(s, r.Intn(nt))
		}
		return s, "uniform"
	case 2: // bursts
		for n := r.Range(1, 12); n > 0; n-- {
			t := r.Intn(nt)
			for k := r.Range(1, 8); k > 0; k-- {
				s = append(s, t)
			}
		}
		return s, "bursts"
	case 3: // one thread stalls after k steps, the others run
		t0 := r.Intn(nt)
		for k := r.Range(1, 9); k > 0; k-- {
			s = append(s, t0)
		}
		for n := r.Range(4, 40); n > 0; n-- {
			t := r.Intn(nt)
			if t != t0 || r.Chance(10) {
				s = append(s, t)
			}
		}
		return s, "stall"
	}
	// every thread enters, then a random order
	for t := 0; t < nt; t++ {
		s = append(s, t)
	}
	for n := r.Range(0, 40); n > 0; n-- {
		s = append(s, r.Intn(nt))
	}
	return s, "all-enter"
}

// witnessCases are the schedules of the model's refutation witnesses
// (coq/proofs/ConcProofs.v: unguarded_refuted, unguarded_refuted_nested), in all three modes.
func witnessCases(tag string) []*caseSpec {
	single := func(refs ...int) cdesc.Node {
		return cdesc.Node{Kind: cdesc.KMsg, Refs: refs, Shape: make([]int, len(refs))}
	}
	var out []*caseSpec
	for _, mode := range []string{"cache", "codec", "global"} {
		kind := kSchema
		if mode != "cache" {
			kind = kEncode
		}
		// thread 0 registers the placeholder of type 0 and stops before linking it; thread 1 asks for type 0
		out = append(out, &caseSpec{
			U: &cdesc.Universe{Tag: tag + "w1" + mode, Nodes: []cdesc.Node{single(1), single()}},
			K: 3, Mode: mode, Calls: [][]call{{{kind, 0}}, {{kind, 0}}}, Sched: []int{0, 0, 0, 1, 1}, Why: "witness-unlinked-root",
		})
		// thread 0 registers type 0 and stops; thread 1 builds type 2, which refers to type 0
		out = append(out, &caseSpec{
			U: &cdesc.Universe{Tag: tag + "w2" + mode, Nodes: []cdesc.Node{single(1), single(), single(0)}},
			K: 3, Mode: mode, Calls: [][]call{{{kind, 0}}, {{kind, 2}}}, Sched: []int{0, 0, 0, 1, 1, 1, 1, 1}, Why: "witness-unlinked-nested",
		})
	}
	return out
}

// collisionCases: the model's witness C10_result_depends_on_schedule_refuted (coq/proofs/ConcKeyProofs.v) on the
// real cache and codec: message N1 nested in M0 (one enum field) and the top-level message M0_N1 (no reference
// field) have the schema name M0_N1; two goroutines, one asks for each; both lock orders.
func collisionCases(tag string) []*caseSpec {
	var out []*caseSpec
	for _, mode := range []string{"cache", "codec"} {
		kind := kSchema
		if mode != "cache" {
			kind = kEncode
		}
		for oi, sched := range [][]int{{0, 0, 0, 0, 0, 0, 0, 0, 1, 1, 1}, {1, 1, 1, 1, 1, 1, 0, 0, 0}} {
			u := &cdesc.Universe{Tag: fmt.Sprintf("%scol%s%d", tag, mode, oi), Nodes: []cdesc.Node{
				{Kind: cdesc.KMsg, Refs: []int{}, Shape: []int{}},
				{Kind: cdesc.KMsg, Nest: 1, Refs: []int{3}, Shape: []int{cdesc.FSingle}},
				{Kind: cdesc.KMsg, Twin: 2, Refs: []int{}, Shape: []int{}},
				{Kind: cdesc.KEnum, Refs: []int{}, Shape: []int{}},
			}}
			out = append(out, &caseSpec{U: u, K: 3, Mode: mode, Calls: [][]call{{{kind, 1}}, {{kind, 2}}}, Sched: sched,
				Why: fmt.Sprintf("witness-split-name-collision-order%d", oi)})
		}
	}
	return out
}

// ---------------------------------------------------------------- the run

func intsN(xs []int) string {
	ys := make([]uint64, len(xs))
	for i, x := range xs {
		ys[i] = uint64(x)
	}
	return vh.NList(ys)
}

func callsTerm(cs [][]call) string {
	parts := make([]string, len(cs))
	for i, th := range cs {
		ns := make([]int, len(th))
		for k, c := range th {
			ns[k] = cdesc.Name(c.Node)
		}
		parts[i] = intsN(ns)
	}
	return "[" + strings.Join(parts, ";") + "]"
}

// replayOne runs the forced-schedule case stored in a replay file (its "input"), and prints
// the trace and the results next to what each call returns alone. For debugging:
//
//	run_conc -prop C10 -out DIR -replay FILE
func replayOne(path string) error {
	raw, err := os.ReadFile(path)
	if err != nil {
		return err
	}
	var doc struct {
		Input caseSpec `json:"input"`
	}
	if err := json.Unmarshal(raw, &doc); err != nil {
		return err
	}
	cs := &doc.Input
	if cs.U == nil {
		return fmt.Errorf("%s: no forced-schedule input", path)
	}
	env, err := newEnv(cs.U, cs.K)
	if err != nil {
		return err
	}
	run := runForced(cs, env)
	for i := 1; i < cs.Repeat; i++ {
		run = runForced(cs, env)
	}
	fmt.Printf("graph %s\ncalls %s\nschedule %s\ntrace    %s\n", cs.U.CoqGraph(), callsTerm(cs.Calls), intsN(run.Sched), intsN(run.Trace))
	for i, l := range run.Trace {
		fmt.Printf(" t%d:%s", run.Sched[i], labelName[l])
	}
	fmt.Println()
	for t, th := range cs.Calls {
		for k, c := range th {
			if k < len(run.Res[t]) {
				fmt.Printf("thread %d call %d (%s of node %d): %s   | alone: %s\n", t, k, kindName[c.Kind], c.Node, run.Res[t][k], env.solo(c))
			}
		}
	}
	return nil
}

// forcedCase runs one forced-schedule case on the real code and evaluates the direct oracle on it; what it records goes to
// res (the run's result, or a per-case partial result when the case runs in a child process). Returns the case's Coq term
// and its distinctness key.
func forcedCase(cs *caseSpec, caseNo int, res *vh.Result) (string, string, int, error) {
	env, err := newEnv(cs.U, cs.K)
	if err != nil {
		return "", "", 0, fmt.Errorf("case %d: %w", caseNo, err)
	}
	run := runForced(cs, env)
	input := map[string]any{"universe": cs.U, "depth": cs.K, "mode": cs.Mode, "calls": cs.Calls, "schedule": run.Sched, "why": cs.Why}
	res.Count("mode:" + cs.Mode)
	res.Count("shape:" + cs.Why)
	active := 0
	for _, th := range cs.Calls {
		if len(th) > 0 {
			active++
		}
	}
	key, _ := json.Marshal([]any{cs.U.Nodes, cs.Calls, run.Sched})
	blocked := false
	for _, l := range run.Trace {
		if l == lbWait {
			blocked = true
		}
	}
	if blocked {
		res.Count("schedule blocks on the lock")
	}

	// ---- direct oracle: each completed call returns what it returns alone; no deadlock
	if run.Stuck {
		res.Fail(vh.Failure{Case: caseNo, Stream: "forced", Sig: "C10 forced schedule: threads do not finish (deadlock)", Clause: "concurrent calls complete without deadlock",
			Input: input, Got: fmt.Sprintf("trace %v", run.Trace)})
	}
	var obs []string
	// identity of the schemas handed out: index of first appearance over (thread, call)
	ptrID := map[j5schema.RootSchema]int{}
	for t := range cs.Calls {
		for _, got := range run.Res[t] {
			if got.Root != nil {
				if _, ok := ptrID[got.Root]; !ok {
					ptrID[got.Root] = len(ptrID) + 1
				}
			}
		}
	}
	for t, th := range cs.Calls {
		var os []string
		for k, c := range th {
			if k >= len(run.Res[t]) {
				break
			}
			got := run.Res[t][k]
			want := env.solo(c)
			same := sameRes(got, want)
			if !same {
				sig := "C10 forced schedule: " + kindName[c.Kind] + " result differs from the result of the call run alone"
				switch {
				case cs.U.ReachesCollision(c.Node) && strings.Contains(got.Err, "is used by both") && !want.failed():
					sig = collisionSig
				case cs.U.ReachesCollision(c.Node) && strings.Contains(got.Err, "is used by both") && strings.Contains(want.Err, "is used by both"):
					sig = collisionTextSig

				case c.Kind == kSchema && got.Err != "" && !want.failed():
					sig = "C10 forced schedule: Schema fails (unlinked placeholder of a build in progress is visible) for a type that reflects alone"
				case c.Kind == kSchema && got.Tree != nil && !got.Tree.Linked():
					sig = "C10 forced schedule: Schema returns a schema with an unlinked nested reference (To == nil)"
				case got.Panic != "" && want.Panic == "":
					sig = "C10 forced schedule: " + kindName[c.Kind] + " panics, unlike the call run alone"
				case got.Err != "" && !want.failed():
					sig = "C10 forced schedule: " + kindName[c.Kind] + " fails, succeeds alone"
				case got.failed() && want.failed():
					sig = "C10 forced schedule: " + kindName[c.Kind] + " fails with a different error than the call run alone"
				case !got.failed() && !want.failed() && got.Tree == nil:
					sig = "C10 forced schedule: " + kindName[c.Kind] + " output differs from the output of the call run alone"
				}
				res.Fail(vh.Failure{Case: caseNo, Stream: "forced", Sig: sig, Clause: "each call returns the same result it returns when run alone",
					Input: input, Got: fmt.Sprintf("thread %d call %d (%s of type %d): %s", t, k, kindName[c.Kind], c.Node, got), Want: want.String()})
			}
			res.Count("call:" + kindName[c.Kind])
			if c.Kind == kSchema {
				if got.Nil {
					os = append(os, "ORes RNil 0")
				} else if strings.HasPrefix(got.Err, "unlinked ref") {
					os = append(os, "ORes RUnlinked 0")
				} else if got.failed() {
					os = append(os, "ORes RErr 0")
				} else {
					os = append(os, fmt.Sprintf("ORes (ROk (%s)) %d", got.Tree.Coq(), ptrID[got.Root]))
				}
			} else {
				os = append(os, fmt.Sprintf("OCall %d %d %s", got.class(), want.class(), vh.BoolTerm(same)))
			}
		}
		obs = append(obs, "["+strings.Join(os, ";")+"]")
	}
	if cs.U.Rich() {
		res.Count("universe with exposed oneofs")
	}
	if cs.U.Collides() {
		res.Count("universe with two messages of one schema name")
	}
	term := fmt.Sprintf("C10Case %d %s %s %s %s %s %s [%s]", cs.K, cs.U.CoqGraph(), cs.U.CoqExpo(), cs.U.CoqKeys(), callsTerm(cs.Calls), intsN(run.Sched), intsN(run.Trace), strings.Join(obs, ";"))
	var resStr [][]string
	for _, th := range run.Res {
		var ss []string
		for _, x := range th {
			ss = append(ss, x.String())
		}
		resStr = append(resStr, ss)
	}
	var trNames []string
	for i, l := range run.Trace {
		if i < 80 {
			trNames = append(trNames, fmt.Sprintf("t%d:%s", run.Sched[i], labelName[l]))
		}
	}
	res.Cases = append(res.Cases, vh.CaseRec{Case: caseNo, Stream: "forced", Input: input, Impl: map[string]any{"trace": trNames, "results": resStr}})
	if cs.Mode == "cache" && blocked {
		res.Sample(map[string]any{"universe": cs.U.CoqGraph(), "calls": cs.Calls, "schedule": run.Sched, "trace": trNames, "results": resStr}, 3)
	}
	return term, string(key), active, nil
}

func runC10(cfg *vh.Config) error {
	if cfg.Replay != "" {
		return replayOne(cfg.Replay)
	}
	res := vh.NewResult("C10", cfg.Seed)
	res.Rule = "forced schedules on the real SchemaCache / Codec / package-level Global codec through the verifhook points: type universes (a quarter of them with one or two types that have a field of an unsupported type and so fail to reflect, as do the types that reach them; chain, shared sub-schema, mutual+self recursion, disjoint, random graphs of 2-7 messages/enums in 1-3 packages, list and map fields; a fifth of the universes also have exposed oneofs and more oneof wrapper messages; an eighth have one or two pairs of messages with ONE schema name - a message nested in M and a top-level message M_N - that differ in their reference fields and are referred to by other messages), 2-6 threads of 0-3 calls (Schema / encode / decode / query-decode), schedules uniform / bursts / stall-after-k / all-enter, each drained round-robin; plus the model's two refutation witnesses of the lock-free discipline in every mode and its split-name-collision witness in both lock orders on cache and codec; plus real goroutines under the race detector (first use on fresh codecs). non-trivial = distinct (universe, calls, schedule) with at least two threads that make a call"
	cf := &vh.CasesFile{
		Header: "From Coq Require Import String List NArith.\nFrom J5V.model Require Import Conc ConcCorr.",
		Type:   "c10case",
		Check:  "c10_check",
	}
	distinct := vh.Distinct{}
	r := cfg.R
	nForced := cfg.Scale(500, 8000)
	tagBase := fmt.Sprintf("s%dx", cfg.Seed)

	specs := append(witnessCases(tagBase), collisionCases(tagBase)...)
	for i := 0; len(specs) < nForced; i++ {
		mode := "cache"
		switch r.Intn(10) {
		case 0, 1, 2:
			mode = "codec"
		case 3:
			mode = "global"
		}
		u, why := cdesc.GenUniverse(r, fmt.Sprintf("%sc%d", tagBase, i))
		if r.Chance(12) {
			// two messages with one schema name (a nested message M.N and a top-level message M_N): the cache has
			// one entry for both descriptors
			u, why = cdesc.GenCollide(r, fmt.Sprintf("%sc%d", tagBase, i))
		} else if r.Chance(25) {
			// some types cannot be reflected: their calls fail, alone and under any schedule,
			// and must leave nothing behind for the others
			cdesc.WithBad(r, u)
			why += "+unsupported"
		} else if r.Chance(30) {
			// exposed oneofs (registered up front and linked at once, their members processed in
			// the message's field loop) and more oneof wrapper messages
			u, why = cdesc.GenRich(r, fmt.Sprintf("%sc%d", tagBase, i))
		}
		if len(cdesc.MsgNodes(u)) == 0 {
			continue
		}
		calls := genCalls(r, u, mode)
		sched, swhy := genSched(r, len(calls))
		if i%12 == 7 {
			// first uses of types from several DISTINCT new packages overlap on one shared cache / codec: every type in a
			// package of its own, one thread per type; thread 0 gets some steps into its call (on today's code: into
			// the build, holding the lock), every other thread then runs up to the lock, and all are let go together
			u, why = cdesc.GenDistinctPkgs(r, fmt.Sprintf("%sc%d", tagBase, i))
			calls = nil
			for t := range u.Nodes {
				kind := kSchema
				if mode != "cache" {
					kind = r.Range(kEncode, kQuery)
				}
				th := []call{{Kind: kind, Node: t}}
				if r.Chance(50) {
					th = append(th, call{Kind: kind, Node: (t + 1) % len(u.Nodes)})
				}
				calls = append(calls, th)
			}
			sched = nil
			for k := r.Range(1, 6); k > 0; k-- {
				sched = append(sched, 0)
			}
			for t := 1; t < len(calls); t++ {
				sched = append(sched, t, t)
			}
			swhy = "one-in-others-arrive"
		}
		k := r.Range(2, 4)
		if u.Collides() && mode != "cache" {
			// a codec call walks the schema as deep as its message goes (Populate: 2 levels, whose messages are
			// checked against their property sets): the model's verdict "same schema as alone" must see that far
			k = 5
		}
		specs = append(specs, &caseSpec{U: u, K: k, Mode: mode, Calls: calls, Sched: sched, Why: why + "/" + swhy})
	}

	if v := os.Getenv(childEnv); v != "" {
		// the child of forcedIsolated: same seed, same specs; runs the cases from v on and reports them on stdout
		start, err := strconv.Atoi(v)
		if err != nil {
			return err
		}
		return forcedChild(specs, start, cfg.Seed)
	}
	caseNo, err := forcedIsolated(cfg, specs, res, cf, distinct)
	if err != nil {
		return err
	}

	// ---- real goroutines under the race detector
	nRounds := cfg.Scale(200, 5000)
	n, err := raceOracle(cfg, res, nRounds, caseNo)
	if err != nil {
		res.Notes = append(res.Notes, "race-detector oracle not run: "+err.Error())
	}
	caseNo += n

	res.Evaluations = caseNo
	res.Distinct = len(distinct)
	const per = 250
	shards, err := cf.WriteShards(cfg.Out, "cases", per)
	if err != nil {
		return err
	}
	for i := range res.Cases {
		res.Cases[i].Shard = fmt.Sprintf("cases_%d", i/per)
		res.Cases[i].Pos = i % per
	}
	res.Shards = shards
	return res.Write(cfg.Out)
}

// worker: real goroutines making their first use of shared / recursive / disjoint
// types on one shared codec, each result compared with the call run alone.
// Built by run_conc with `go build -race` (no verif tag: only public packages of
// pentops/j5 are used, and the hook points compile to nothing).
//
// stdout protocol, one JSON object per line:
//
//	{"begin":k}                       before round k
//	{"fail":{...}}                    a call whose result differs from its solo result
//	{"end":rounds,"calls":n}          after the last round
package main

import (
	"encoding/hex"
	"encoding/json"
	"flag"
	"fmt"
	"net/url"
	"os"
	"sync"

	"github.com/pentops/j5/lib/j5codec"
	"google.golang.org/protobuf/proto"

	"verifharness/cmd/run_conc/cdesc"
	"verifharness/vh"
)

type call struct {
	Kind int `json:"kind"` // 1 encode, 2 decode, 3 query
	Node int `json:"node"`
}

type outcome struct {
	Err   string `json:"err,omitempty"`
	Panic string `json:"panic,omitempty"`
	Out   string `json:"out,omitempty"`
}

// same: class, error text / panic value and output are what the call returns alone
func (o outcome) same(p outcome) bool {
	return o.Err == p.Err && o.Panic == p.Panic && o.Out == p.Out
}

func doCall(cd *j5codec.Codec, b *cdesc.Built, enc map[int]string, c call) (o outcome) {
	defer func() {
		if r := recover(); r != nil {
			o = outcome{Panic: fmt.Sprint(r)}
		}
	}()
	switch c.Kind {
	case 1:
		out, err := cd.ProtoToJSON(b.Populate(c.Node, 2))
		if err != nil {
			return outcome{Err: err.Error()}
		}
		return outcome{Out: string(out)}
	case 2:
		msg := b.New(c.Node)
		if err := cd.JSONToProto([]byte(enc[c.Node]), msg); err != nil {
			return outcome{Err: err.Error()}
		}
		bs, _ := proto.MarshalOptions{Deterministic: true}.Marshal(msg.Interface())
		return outcome{Out: hex.EncodeToString(bs)}
	default:
		msg := b.New(c.Node)
		if err := cd.QueryToProto(url.Values{"label": {"q"}}, msg); err != nil {
			return outcome{Err: err.Error()}
		}
		bs, _ := proto.MarshalOptions{Deterministic: true}.Marshal(msg.Interface())
		return outcome{Out: hex.EncodeToString(bs)}
	}
}

func main() {
	seed := flag.Uint64("seed", 1, "seed")
	start := flag.Int("start", 0, "first round")
	rounds := flag.Int("rounds", 200, "one past the last round")
	flag.Parse()
	enc := json.NewEncoder(os.Stdout)
	total := 0
	for k := *start; k < *rounds; k++ {
		_ = enc.Encode(map[string]any{"begin": k})
		r := vh.NewRand(*seed).Fork(fmt.Sprintf("race-round-%d", k))
		u, why := cdesc.GenUniverse(r, fmt.Sprintf("r%dx%d", *seed, k))
		if k%3 == 1 {
			u, why = cdesc.GenRich(r, fmt.Sprintf("r%dx%d", *seed, k))
		} else if k%3 == 2 && k%2 == 0 {
			cdesc.WithBad(r, u)
			why += "+unsupported"
		}
		ms := cdesc.MsgNodes(u)
		if len(ms) == 0 {
			continue
		}
		b, err := u.Build()
		if err != nil {
			fmt.Fprintln(os.Stderr, "build:", err)
			os.Exit(3)
		}
		// solo results, each on a fresh codec
		encoded := map[int]string{}
		for _, i := range ms {
			o := doCall(j5codec.NewCodec(), b, nil, call{1, i})
			if (o.Err != "" || o.Panic != "") != !u.Good(i) {
				fmt.Fprintf(os.Stderr, "solo encode of node %d (reflectable: %v): %+v\n", i, u.Good(i), o)
				os.Exit(3)
			}
			encoded[i] = o.Out
		}
		ng := r.Range(2, 16)
		hot := vh.Pick(r, ms)
		calls := make([][]call, ng)
		for g := range calls {
			for n := r.Range(1, 3); n > 0; n-- {
				node := vh.Pick(r, ms)
				if r.Chance(60) {
					node = hot
				}
				calls[g] = append(calls[g], call{r.Range(1, 3), node})
			}
		}
		shared := j5codec.NewCodec()
		mode := "codec"
		if k%4 == 3 {
			shared = j5codec.Global
			mode = "global"
		}
		got := make([][]outcome, ng)
		gate := make(chan struct{})
		var wg sync.WaitGroup
		for g := 0; g < ng; g++ {
			g := g
			wg.Add(1)
			go func() {
				defer wg.Done()
				<-gate
				for _, c := range calls[g] {
					got[g] = append(got[g], doCall(shared, b, encoded, c))
				}
			}()
		}
		close(gate)
		wg.Wait()
		for g := range calls {
			for i, c := range calls[g] {
				total++
				want := doCall(j5codec.NewCodec(), b, encoded, c)
				if !got[g][i].same(want) {
					_ = enc.Encode(map[string]any{"fail": map[string]any{
						"round": k, "mode": mode, "shape": why, "universe": u, "goroutines": ng, "calls": calls,
						"goroutine": g, "call": i, "got": got[g][i], "want": want,
					}})
				}
			}
		}
		// storm: when some type fails to reflect, every call on it registers and takes out
		// again its placeholders; many goroutines repeat such calls (and calls on the other
		// types) on one fresh codec, so that any window in which a failed build's leftovers
		// are visible is hit sooner or later
		bad := false
		for _, i := range ms {
			if !u.Good(i) {
				bad = true
			}
		}
		if bad {
			solo := map[call]outcome{}
			for _, i := range ms {
				for kind := 1; kind <= 3; kind++ {
					solo[call{kind, i}] = doCall(j5codec.NewCodec(), b, encoded, call{kind, i})
				}
			}
			storm := j5codec.NewCodec()
			const ngs, iters = 8, 120
			type miss struct {
				g, it int
				c     call
				got   outcome
			}
			misses := make([][]miss, ngs)
			gate := make(chan struct{})
			var wg sync.WaitGroup
			for g := 0; g < ngs; g++ {
				g := g
				wg.Add(1)
				go func() {
					defer wg.Done()
					<-gate
					for it := 0; it < iters; it++ {
						c := call{1 + (g+it)%3, ms[(g*7+it)%len(ms)]}
						o := doCall(storm, b, encoded, c)
						if !o.same(solo[c]) && len(misses[g]) < 3 {
							misses[g] = append(misses[g], miss{g, it, c, o})
						}
					}
				}()
			}
			close(gate)
			wg.Wait()
			total += ngs * iters
			for _, ml := range misses {
				for _, m := range ml {
					_ = enc.Encode(map[string]any{"fail": map[string]any{
						"round": k, "mode": "storm", "shape": why, "universe": u, "goroutines": ngs, "iterations": iters,
						"goroutine": m.g, "iteration": m.it, "call": m.c, "got": m.got, "want": solo[m.c],
					}})
				}
			}
		}
	}
	_ = enc.Encode(map[string]any{"end": *rounds, "calls": total})
}

// worker: real goroutines making their first use of shared / recursive / disjoint
// types on one shared codec, each result compared with the call run alone.
// Every fifth round the messages also carry a google.protobuf.Any of another type of the
// universe (nested encode on the same codec, failing half-way for types that do not reflect).
// Built by run_conc with `go build -race` (no verif tag: only public packages of
// pentops/j5 are used, and the hook points compile to nothing).
//
// stdout protocol, one JSON object per line:
//
//	{"begin":k}                       before round k
//	{"fail":{...}}                    a call whose result differs from its solo result
//	{"end":rounds,"calls":n}          after the last round
package main

import (
	"encoding/hex"
	"encoding/json"
	"flag"
	"fmt"
	"net/url"
	"os"
	"sync"

	"github.com/pentops/j5/lib/j5codec"
	"google.golang.org/protobuf/proto"

	"verifharness/cmd/run_conc/cdesc"
	"verifharness/vh"
)

type call struct {
	Kind   int `json:"kind"` // 1 encode, 2 decode, 3 query, 4 encode with the Any field holding a message of node Target
	Node   int `json:"node"`
	Target int `json:"target,omitempty"`
}

type outcome struct {
	Err   string `json:"err,omitempty"`
	Panic string `json:"panic,omitempty"`
	Out   string `json:"out,omitempty"`
}

// same: class, error text / panic value and output are what the call returns alone
func (o outcome) same(p outcome) bool {
	return o.Err == p.Err && o.Panic == p.Panic && o.Out == p.Out
}

func doCall(cd *j5codec.Codec, b *cdesc.Built, enc map[int]string, c call) (o outcome) {
	defer func() {
		if r := recover(); r != nil {
			o = outcome{Panic: fmt.Sprint(r)}
		}
	}()
	switch c.Kind {
	case 1:
		out, err := cd.ProtoToJSON(b.Populate(c.Node, 2))
		if err != nil {
			return outcome{Err: err.Error()}
		}
		return outcome{Out: string(out)}
	case 4:
		msg, err := b.PopulateWithAny(c.Node, c.Target, 1)
		if err != nil {
			return outcome{Err: "populate: " + err.Error()}
		}
		out, err := cd.ProtoToJSON(msg)
		if err != nil {
			return outcome{Err: err.Error()}
		}
		return outcome{Out: string(out)}
	case 2:
		msg := b.New(c.Node)
		if err := cd.JSONToProto([]byte(enc[c.Node]), msg); err != nil {
			return outcome{Err: err.Error()}
		}
		bs, _ := proto.MarshalOptions{Deterministic: true}.Marshal(msg.Interface())
		return outcome{Out: hex.EncodeToString(bs)}
	default:
		msg := b.New(c.Node)
		if err := cd.QueryToProto(url.Values{"label": {"q"}}, msg); err != nil {
			return outcome{Err: err.Error()}
		}
		bs, _ := proto.MarshalOptions{Deterministic: true}.Marshal(msg.Interface())
		return outcome{Out: hex.EncodeToString(bs)}
	}
}

func main() {
	seed := flag.Uint64("seed", 1, "seed")
	start := flag.Int("start", 0, "first round")
	rounds := flag.Int("rounds", 200, "one past the last round")
	show := flag.Bool("show", false, "print the solo outcomes of the calls that carry an Any (stderr)")
	flag.Parse()
	enc := json.NewEncoder(os.Stdout)
	total := 0
	for k := *start; k < *rounds; k++ {
		_ = enc.Encode(map[string]any{"begin": k})
		r := vh.NewRand(*seed).Fork(fmt.Sprintf("race-round-%d", k))
		u, why := cdesc.GenUniverse(r, fmt.Sprintf("r%dx%d", *seed, k))
		if k%3 == 1 {
			u, why = cdesc.GenRich(r, fmt.Sprintf("r%dx%d", *seed, k))
		} else if k%3 == 2 && k%2 == 0 {
			cdesc.WithBad(r, u)
			why += "+unsupported"
		}
		anyRound := k%5 == 4
		if anyRound {
			// messages carry a google.protobuf.Any of another type of the universe, some of which cannot be
			// reflected: the nested encode on the same codec fails half-way for those
			u, why = cdesc.GenUniverse(r, fmt.Sprintf("r%dx%da", *seed, k))
			cdesc.WithBad(r, u)
			for i := range u.Nodes {
				if u.Nodes[i].Kind == cdesc.KMsg && !u.Nodes[i].Wrapper {
					u.Nodes[i].Any = true
				}
			}
			why += "+any"
		}
		ms := cdesc.MsgNodes(u)
		if len(ms) == 0 {
			continue
		}
		b, err := u.Build()
		if err != nil {
			fmt.Fprintln(os.Stderr, "build:", err)
			os.Exit(3)
		}
		// codecs of a round with Any fields resolve the universe's own types
		newCodec := func() *j5codec.Codec {
			if anyRound {
				return j5codec.NewCodec(j5codec.WithResolver(b.Types()))
			}
			return j5codec.NewCodec()
		}
		// solo results, each on a fresh codec
		encoded := map[int]string{}
		for _, i := range ms {
			o := doCall(newCodec(), b, nil, call{Kind: 1, Node: i})
			if (o.Err != "" || o.Panic != "") != !u.Good(i) {
				fmt.Fprintf(os.Stderr, "solo encode of node %d (reflectable: %v): %+v\n", i, u.Good(i), o)
				os.Exit(3)
			}
			encoded[i] = o.Out
		}
		ng := r.Range(2, 16)
		hot := vh.Pick(r, ms)
		calls := make([][]call, ng)
		for g := range calls {
			for n := r.Range(1, 3); n > 0; n-- {
				node := vh.Pick(r, ms)
				if r.Chance(60) {
					node = hot
				}
				c := call{Kind: r.Range(1, 3), Node: node}
				if anyRound && r.Chance(50) {
					c = call{Kind: 4, Node: node, Target: vh.Pick(r, ms)}
				}
				calls[g] = append(calls[g], c)
			}
		}
		shared := newCodec()
		mode := "codec"
		if k%4 == 3 && !anyRound {
			shared = j5codec.Global
			mode = "global"
		}
		got := make([][]outcome, ng)
		gate := make(chan struct{})
		var wg sync.WaitGroup
		for g := 0; g < ng; g++ {
			g := g
			wg.Add(1)
			go func() {
				defer wg.Done()
				<-gate
				for _, c := range calls[g] {
					got[g] = append(got[g], doCall(shared, b, encoded, c))
				}
			}()
		}
		close(gate)
		wg.Wait()
		for g := range calls {
			for i, c := range calls[g] {
				total++
				want := doCall(newCodec(), b, encoded, c)
				if !got[g][i].same(want) {
					_ = enc.Encode(map[string]any{"fail": map[string]any{
						"round": k, "mode": mode, "shape": why, "universe": u, "goroutines": ng, "calls": calls,
						"goroutine": g, "call": i, "got": got[g][i], "want": want,
					}})
				}
			}
		}
		// storm: when some type fails to reflect, every call on it registers and takes out
		// again its placeholders; many goroutines repeat such calls (and calls on the other
		// types) on one fresh codec, so that any window in which a failed build's leftovers
		// are visible is hit sooner or later
		bad := false
		for _, i := range ms {
			if !u.Good(i) {
				bad = true
			}
		}
		if bad {
			solo := map[call]outcome{}
			for _, i := range ms {
				for kind := 1; kind <= 3; kind++ {
					solo[call{Kind: kind, Node: i}] = doCall(newCodec(), b, encoded, call{Kind: kind, Node: i})
				}
				if anyRound {
					for _, j := range ms {
						solo[call{Kind: 4, Node: i, Target: j}] = doCall(newCodec(), b, encoded, call{Kind: 4, Node: i, Target: j})
						if *show {
							fmt.Fprintf(os.Stderr, "round %d: node %d (good %v) any of %d (good %v): %+v\n", k, i, u.Good(i), j, u.Good(j), solo[call{Kind: 4, Node: i, Target: j}])
						}
					}
				}
			}
			storm := newCodec()
			const ngs, iters = 8, 120
			type miss struct {
				g, it int
				c     call
				got   outcome
			}
			misses := make([][]miss, ngs)
			gate := make(chan struct{})
			var wg sync.WaitGroup
			for g := 0; g < ngs; g++ {
				g := g
				wg.Add(1)
				go func() {
					defer wg.Done()
					<-gate
					for it := 0; it < iters; it++ {
						c := call{Kind: 1 + (g+it)%3, Node: ms[(g*7+it)%len(ms)]}
						if anyRound && it%2 == 0 {
							// every other call carries an Any: of a type that fails half-way through the
							// nested encode, or of one that encodes
							c = call{Kind: 4, Node: ms[(g+it/2)%len(ms)], Target: ms[(g*3+it/2)%len(ms)]}
						}
						o := doCall(storm, b, encoded, c)
						if !o.same(solo[c]) && len(misses[g]) < 3 {
							misses[g] = append(misses[g], miss{g, it, c, o})
						}
					}
				}()
			}
			close(gate)
			wg.Wait()
			total += ngs * iters
			for _, ml := range misses {
				for _, m := range ml {
					_ = enc.Encode(map[string]any{"fail": map[string]any{
						"round": k, "mode": "storm", "shape": why, "universe": u, "goroutines": ngs, "iterations": iters,
						"goroutine": m.g, "iteration": m.it, "call": m.c, "got": m.got, "want": solo[m.c],
					}})
				}
			}
		}
	}
	_ = enc.Encode(map[string]any{"end": *rounds, "calls": total})
}

// worker: real goroutines making their first use of shared / recursive / disjoint
// types on one shared codec, each result compared with the call run alone.
// Every fifth round the messages also carry a google.protobuf.Any of another type of the
// universe (nested encode on the same codec, failing half-way for types that do not reflect).
// Built by run_conc with `go build -race` (no verif tag: only public packages of
// pentops/j5 are used, and the hook points compile to nothing).
//
// stdout protocol, one JSON object per line:
//
//	{"begin":k}                       before round k
//	{"fail":{...}}                    a call whose result differs from its solo result
//	{"hang":{...}}                    no call completed for hangAfter while goroutines were running: where they block
//	                                  (the worker then exits with status 4)
//	{"end":rounds,"calls":n}          after the last round
//
// Every fortieth round (round 0 first) is a warm-versus-cold round: goroutines keep calling on a type that is already
// in the cache while others make the first use of several hundred distinct types (a lock upgrade / a nested
// read lock / a writer-preference deadlock needs a miss arriving during a hit). Every fortieth round (round 4 first)
// is a deep-document round: several goroutines decode, at the same time, documents nested a few thousand levels
// deep on a recursive type, each inside the nesting limit on its own (per-call state kept on the shared codec).
package main

import (
	"encoding/hex"
	"encoding/json"
	"flag"
	"fmt"
	"net/url"
	"os"
	"regexp"
	"runtime"
	"sort"
	"strings"
	"sync"
	"sync/atomic"
	"time"

	"github.com/pentops/j5/lib/j5codec"
	"google.golang.org/protobuf/proto"

	"verifharness/cmd/run_conc/cdesc"
	"verifharness/vh"
)

type call struct {
	Kind   int `json:"kind"` // 1 encode, 2 decode, 3 query, 4 encode with the Any field holding a message of node Target
	Node   int `json:"node"`
	Target int `json:"target,omitempty"`
}

type outcome struct {
	Err   string `json:"err,omitempty"`
	Panic string `json:"panic,omitempty"`
	Out   string `json:"out,omitempty"`

	// raw: the bytes an encode call handed to its caller, RETAINED as they are (not copied) until the result is
	// compared — after the goroutines of the round have joined, after further calls on the same or other codecs.
	// A caller may keep what ProtoToJSON returned; a buffer that the codec reuses for a later call shows here.
	raw []byte
}

// settled: the outcome with the retained bytes read now
func (o outcome) settled() outcome {
	if o.raw != nil {
		o.Out, o.raw = string(o.raw), nil
	}
	return o
}

// same: class, error text / panic value and output are what the call returns alone
func (o outcome) same(p outcome) bool {
	o, p = o.settled(), p.settled()
	return o.Err == p.Err && o.Panic == p.Panic && o.Out == p.Out
}

func (o outcome) MarshalJSON() ([]byte, error) {
	s := o.settled()
	return json.Marshal(struct {
		Err   string `json:"err,omitempty"`
		Panic string `json:"panic,omitempty"`
		Out   string `json:"out,omitempty"`
	}{s.Err, s.Panic, s.Out})
}

// progress counts completed calls; running is non-zero while the goroutines of a round run
var progress, running atomic.Int64
var where atomic.Value // what is running, for the hang report

// setWhere records what is about to run, and says so on stdout ({"running":{...}}): when the process dies in the middle
// (race report with halt_on_error, runtime throw) the runner knows the goroutines, calls and types that were in flight.
func setWhere(desc map[string]any) {
	where.Store(desc)
	stdoutMu.Lock()
	_ = json.NewEncoder(os.Stdout).Encode(map[string]any{"running": desc})
	stdoutMu.Unlock()
}

var stdoutMu sync.Mutex

const hangAfter = 10 * time.Second

var goroutineHead = regexp.MustCompile(`^goroutine (\d+) \[([^\]]*)\]:`)

// blockedSummary condenses a full goroutine dump: per (wait reason, innermost pentops/j5 frame) the number of goroutines.
func blockedSummary(dump string) []string {
	count := map[string]int{}
	for _, g := range strings.Split(dump, "\n\n") {
		lines := strings.Split(g, "\n")
		m := goroutineHead.FindStringSubmatch(lines[0])
		if m == nil {
			continue
		}
		reason := strings.Split(m[2], ",")[0]
		frame := ""
		for i := 1; i+1 < len(lines); i += 2 {
			if strings.Contains(lines[i], "github.com/pentops/j5/") {
				fn := lines[i]
				if j := strings.LastIndex(fn, "("); j > 0 {
					fn = fn[:j]
				}
				loc := strings.TrimSpace(lines[i+1])
				if j := strings.Index(loc, " +0x"); j > 0 {
					loc = loc[:j]
				}
				if j := strings.LastIndex(loc, "/"); j >= 0 {
					loc = loc[j+1:]
				}
				frame = strings.TrimPrefix(fn, "github.com/pentops/j5/") + " " + loc
				break
			}
		}
		if frame == "" || reason == "running" || reason == "runnable" {
			continue
		}
		count[reason+" in "+frame]++
	}
	var out []string
	for k, n := range count {
		out = append(out, fmt.Sprintf("%d x %s", n, k))
	}
	sort.Strings(out)
	return out
}

func watchdog(enc *json.Encoder) {
	last, since := progress.Load(), time.Now()
	for {
		time.Sleep(200 * time.Millisecond)
		p := progress.Load()
		if p != last || running.Load() == 0 {
			last, since = p, time.Now()
			continue
		}
		if time.Since(since) > hangAfter {
			buf := make([]byte, 4<<20)
			buf = buf[:runtime.Stack(buf, true)]
			w, _ := where.Load().(map[string]any)
			_ = enc.Encode(map[string]any{"hang": map[string]any{"running": w, "completed_calls": p, "blocked": blockedSummary(string(buf)),
				"no_call_completed_for": hangAfter.String()}})
			os.Exit(4)
		}
	}
}

func doCall(cd *j5codec.Codec, b *cdesc.Built, enc map[int]string, c call) (o outcome) {
	defer progress.Add(1)
	defer func() {
		if r := recover(); r != nil {
			o = outcome{Panic: fmt.Sprint(r)}
		}
	}()
	switch c.Kind {
	case 1:
		out, err := cd.ProtoToJSON(b.Populate(c.Node, 2))
		if err != nil {
			return outcome{Err: err.Error()}
		}
		return outcome{raw: out}
	case 4:
		msg, err := b.PopulateWithAny(c.Node, c.Target, 1)
		if err != nil {
			return outcome{Err: "populate: " + err.Error()}
		}
		out, err := cd.ProtoToJSON(msg)
		if err != nil {
			return outcome{Err: err.Error()}
		}
		return outcome{raw: out}
	case 2:
		msg := b.New(c.Node)
		if err := cd.JSONToProto([]byte(enc[c.Node]), msg); err != nil {
			return outcome{Err: err.Error()}
		}
		bs, _ := proto.MarshalOptions{Deterministic: true}.Marshal(msg.Interface())
		return outcome{Out: hex.EncodeToString(bs)}
	default:
		msg := b.New(c.Node)
		if err := cd.QueryToProto(url.Values{"label": {"q"}}, msg); err != nil {
			return outcome{Err: err.Error()}
		}
		bs, _ := proto.MarshalOptions{Deterministic: true}.Marshal(msg.Interface())
		return outcome{Out: hex.EncodeToString(bs)}
	}
}

// goAll runs the bodies as goroutines released together and waits for them; the watchdog is armed meanwhile.
func goAll(desc map[string]any, bodies []func()) {
	setWhere(desc)
	gate := make(chan struct{})
	var wg sync.WaitGroup
	for _, body := range bodies {
		body := body
		wg.Add(1)
		go func() {
			defer wg.Done()
			<-gate
			body()
		}()
	}
	running.Store(1)
	close(gate)
	wg.Wait()
	running.Store(0)
}

// warmCold: readers keep encoding a warm type while writers make the first use of nCold distinct types, all on one codec.
func warmCold(enc *json.Encoder, seed uint64, k int, r *vh.Rand) int {
	nCold := r.Range(150, 300)
	u := &cdesc.Universe{Tag: fmt.Sprintf("r%dx%dwc", seed, k)}
	u.Nodes = append(u.Nodes, cdesc.Node{Kind: cdesc.KMsg, Refs: []int{1}, Shape: []int{cdesc.FSingle}}, cdesc.Node{Kind: cdesc.KMsg, Refs: []int{}, Shape: []int{}})
	for i := 0; i < nCold; i++ {
		nd := cdesc.Node{Kind: cdesc.KMsg, Refs: []int{}, Shape: []int{}}
		if i%3 == 0 {
			nd.Refs, nd.Shape = []int{1}, []int{cdesc.FSingle}
		}
		u.Nodes = append(u.Nodes, nd)
	}
	b, err := u.Build()
	if err != nil {
		fmt.Fprintln(os.Stderr, "build:", err)
		os.Exit(3)
	}
	solo := make([]outcome, len(u.Nodes))
	for i := range u.Nodes {
		solo[i] = doCall(j5codec.NewCodec(), b, nil, call{Kind: 1, Node: i}).settled()
	}
	shared := j5codec.NewCodec()
	if o := doCall(shared, b, nil, call{Kind: 1, Node: 0}); !o.same(solo[0]) { // warm it
		_ = enc.Encode(map[string]any{"fail": map[string]any{"round": k, "mode": "warm-cold", "call": call{Kind: 1, Node: 0}, "got": o, "want": solo[0]}})
	}
	nReaders, nWriters := r.Range(4, 8), r.Range(2, 3)
	var done atomic.Int64
	type miss struct {
		g    int
		c    call
		got  outcome
		want outcome
	}
	misses := make([][]miss, nReaders+nWriters)
	var bodies []func()
	for g := 0; g < nReaders; g++ {
		g := g
		bodies = append(bodies, func() {
			for it := 0; it < 200000 && done.Load() < int64(nWriters); it++ {
				c := call{Kind: 1, Node: it % 2} // both warm after the first call
				if o := doCall(shared, b, nil, c); !o.same(solo[c.Node]) && len(misses[g]) < 2 {
					misses[g] = append(misses[g], miss{g, c, o, solo[c.Node]})
				}
			}
		})
	}
	for w := 0; w < nWriters; w++ {
		w := w
		bodies = append(bodies, func() {
			defer done.Add(1)
			for i := 2 + w; i < len(u.Nodes); i += nWriters {
				c := call{Kind: 1, Node: i}
				if o := doCall(shared, b, nil, c); !o.same(solo[i]) && len(misses[nReaders+w]) < 2 {
					misses[nReaders+w] = append(misses[nReaders+w], miss{nReaders + w, c, o, solo[i]})
				}
			}
		})
	}
	before := progress.Load()
	goAll(map[string]any{"round": k, "mode": "warm-cold", "readers_on_warm_types": nReaders, "writers_first_use": nWriters, "cold_types": nCold,
		"how": "worker -seed S -start ROUND -rounds ROUND+1"}, bodies)
	for _, ml := range misses {
		for _, m := range ml {
			_ = enc.Encode(map[string]any{"fail": map[string]any{"round": k, "mode": "warm-cold", "goroutine": m.g, "call": m.c, "got": m.got, "want": m.want,
				"readers_on_warm_types": nReaders, "writers_first_use": nWriters, "cold_types": nCold}})
		}
	}
	return int(progress.Load() - before)
}

// distinctPkgs: every type lives in a proto package of its own, which the shared codec has not seen; on a fresh codec (or one
// that is warm for a few of the packages) all goroutines start together, each making the first use of the type of ITS
// package, then of the next goroutines' types. Repeated on fresh codecs; every result is compared with the solo result.
func distinctPkgs(enc *json.Encoder, seed uint64, k int, r *vh.Rand) int {
	ng := r.Range(6, 24)
	reps := r.Range(30, 60)
	u := &cdesc.Universe{Tag: fmt.Sprintf("r%dx%ddp", seed, k)}
	for i := 0; i < ng; i++ {
		nd := cdesc.Node{Kind: cdesc.KMsg, Pkg: i, Refs: []int{}, Shape: []int{}}
		if i > 0 && r.Chance(30) {
			// a field of a type of an earlier package (also new to the codec when this goroutine gets there first)
			nd.Refs, nd.Shape = []int{r.Intn(i)}, []int{cdesc.FSingle}
		}
		u.Nodes = append(u.Nodes, nd)
	}
	b, err := u.Build()
	if err != nil {
		fmt.Fprintln(os.Stderr, "build:", err)
		os.Exit(3)
	}
	encoded := map[int]string{}
	solo := map[call]outcome{}
	for i := range u.Nodes {
		o := doCall(j5codec.NewCodec(), b, nil, call{Kind: 1, Node: i}).settled()
		encoded[i] = o.Out
		solo[call{Kind: 1, Node: i}] = o
	}
	for i := range u.Nodes {
		for kind := 2; kind <= 3; kind++ {
			solo[call{Kind: kind, Node: i}] = doCall(j5codec.NewCodec(), b, encoded, call{Kind: kind, Node: i}).settled()
		}
	}
	before := progress.Load()
	for rep := 0; rep < reps; rep++ {
		shared := j5codec.NewCodec()
		warm := 0
		if rep%3 == 2 {
			// partly warm: the first packages are known to the codec, readers of those overlap the first uses of the rest
			warm = 1 + rep%(ng-1)
			for i := 0; i < warm; i++ {
				_ = doCall(shared, b, encoded, call{Kind: 1, Node: i})
			}
		}
		calls := make([][]call, ng)
		for g := range calls {
			kind := 1 + (g+rep)%3
			calls[g] = []call{{Kind: kind, Node: g}, {Kind: 1 + (g+rep+1)%3, Node: (g + 1) % ng}}
		}
		got := make([][]outcome, ng)
		var bodies []func()
		for g := 0; g < ng; g++ {
			g := g
			bodies = append(bodies, func() {
				for _, c := range calls[g] {
					got[g] = append(got[g], doCall(shared, b, encoded, c))
				}
			})
		}
		desc := map[string]any{"round": k, "mode": "distinct-packages", "repetition": rep, "goroutines": ng, "packages": ng, "warm_packages": warm,
			"universe": u, "calls": calls, "how": "worker -seed S -start ROUND -rounds ROUND+1"}
		goAll(desc, bodies)
		for g := range calls {
			for i, c := range calls[g] {
				if i < len(got[g]) && !got[g][i].same(solo[c]) {
					_ = enc.Encode(map[string]any{"fail": map[string]any{"round": k, "mode": "distinct-packages", "repetition": rep, "goroutines": ng,
						"warm_packages": warm, "universe": u, "calls": calls, "goroutine": g, "call": i, "got": got[g][i], "want": solo[c]}})
				}
			}
		}
	}
	return int(progress.Load() - before)
}

// deepDecode: a recursive type; documents nested `depth` levels, each inside the decoder's nesting limit; several
// goroutines decode them at the same time on one codec (also the package-level Global), each result compared with the solo result.
func deepDecode(enc *json.Encoder, seed uint64, k int, r *vh.Rand) int {
	u := &cdesc.Universe{Tag: fmt.Sprintf("r%dx%ddd", seed, k), Nodes: []cdesc.Node{{Kind: cdesc.KMsg, Refs: []int{0}, Shape: []int{cdesc.FSingle}}}}
	b, err := u.Build()
	if err != nil {
		fmt.Fprintln(os.Stderr, "build:", err)
		os.Exit(3)
	}
	ng := r.Range(4, 5)
	depth := r.Range(2600, 3600)
	doc := strings.Repeat(`{"r0":`, depth) + `{"label":"x"}` + strings.Repeat("}", depth)
	docs := map[int]string{0: doc}
	c := call{Kind: 2, Node: 0}
	want := doCall(j5codec.NewCodec(), b, docs, c).settled()
	if want.Err != "" || want.Panic != "" {
		fmt.Fprintf(os.Stderr, "solo decode of a document nested %d levels (limit 10000) fails: %+v\n", depth, want)
		os.Exit(3)
	}
	shared, mode := j5codec.NewCodec(), "deep-decode"
	if k%80 == 44 {
		shared, mode = j5codec.Global, "deep-decode-global"
	}
	type miss struct {
		g, it int
		got   outcome
	}
	misses := make([][]miss, ng)
	var bodies []func()
	const iters = 2
	for g := 0; g < ng; g++ {
		g := g
		bodies = append(bodies, func() {
			for it := 0; it < iters; it++ {
				if o := doCall(shared, b, docs, c); !o.same(want) && len(misses[g]) < 1 {
					misses[g] = append(misses[g], miss{g, it, o})
				}
			}
		})
	}
	before := progress.Load()
	goAll(map[string]any{"round": k, "mode": mode, "goroutines": ng, "nesting": depth}, bodies)
	short := func(o outcome) outcome {
		if len(o.Out) > 80 {
			o.Out = o.Out[:80] + "..."
		}
		if len(o.Err) > 200 {
			o.Err = o.Err[:60] + " ... " + o.Err[len(o.Err)-120:]
		}
		return o
	}
	for _, ml := range misses {
		for _, m := range ml {
			_ = enc.Encode(map[string]any{"fail": map[string]any{"round": k, "mode": mode, "universe": u, "goroutines": ng, "iterations": iters,
				"document": fmt.Sprintf("%d x {\"r0\": around {\"label\":\"x\"}", depth), "goroutine": m.g, "iteration": m.it, "call": c, "got": short(m.got), "want": short(want)}})
		}
	}
	return int(progress.Load() - before)
}

func main() {
	seed := flag.Uint64("seed", 1, "seed")
	start := flag.Int("start", 0, "first round")
	rounds := flag.Int("rounds", 200, "one past the last round")
	show := flag.Bool("show", false, "print the solo outcomes of the calls that carry an Any (stderr)")
	flag.Parse()
	enc := json.NewEncoder(os.Stdout)
	go watchdog(enc)
	total := 0
	for k := *start; k < *rounds; k++ {
		_ = enc.Encode(map[string]any{"begin": k})
		r := vh.NewRand(*seed).Fork(fmt.Sprintf("race-round-%d", k))
		// every 40th round up to round 400, every 400th after that (the thorough tier runs thousands of rounds)
		if k < 400 || k%400 < 40 {
			switch k % 40 {
			case 0:
				total += warmCold(enc, *seed, k, r)
				continue
			case 4:
				total += deepDecode(enc, *seed, k, r)
				continue
			case 2, 22:
				// first uses of types from distinct NEW packages overlap on one shared codec
				total += distinctPkgs(enc, *seed, k, r)
				continue
			}
		}
		u, why := cdesc.GenUniverse(r, fmt.Sprintf("r%dx%d", *seed, k))
		if k%3 == 1 {
			u, why = cdesc.GenRich(r, fmt.Sprintf("r%dx%d", *seed, k))
		} else if k%3 == 2 && k%2 == 0 {
			cdesc.WithBad(r, u)
			why += "+unsupported"
		}
		anyRound := k%5 == 4
		if anyRound {
			// messages carry a google.protobuf.Any of another type of the universe, some of which cannot be
			// reflected: the nested encode on the same codec fails half-way for those
			u, why = cdesc.GenUniverse(r, fmt.Sprintf("r%dx%da", *seed, k))
			cdesc.WithBad(r, u)
			for i := range u.Nodes {
				if u.Nodes[i].Kind == cdesc.KMsg && !u.Nodes[i].Wrapper {
					u.Nodes[i].Any = true
				}
			}
			why += "+any"
		}
		ms := cdesc.MsgNodes(u)
		if len(ms) == 0 {
			continue
		}
		b, err := u.Build()
		if err != nil {
			fmt.Fprintln(os.Stderr, "build:", err)
			os.Exit(3)
		}
		// codecs of a round with Any fields resolve the universe's own types
		newCodec := func() *j5codec.Codec {
			if anyRound {
				return j5codec.NewCodec(j5codec.WithResolver(b.Types()))
			}
			return j5codec.NewCodec()
		}
		// solo results, each on a fresh codec
		encoded := map[int]string{}
		for _, i := range ms {
			o := doCall(newCodec(), b, nil, call{Kind: 1, Node: i}).settled()
			if (o.Err != "" || o.Panic != "") != !u.Good(i) {
				fmt.Fprintf(os.Stderr, "solo encode of node %d (reflectable: %v): %+v\n", i, u.Good(i), o)
				os.Exit(3)
			}
			encoded[i] = o.settled().Out // read at once: the reference encoding, also the input of the decode calls
		}
		// two consecutive encodes on one goroutine and one fresh codec, the first result read only after the second call
		if len(ms) >= 1 {
			cd := newCodec()
			i, j := ms[0], ms[len(ms)-1]
			first := doCall(cd, b, nil, call{Kind: 1, Node: i})
			second := doCall(cd, b, nil, call{Kind: 1, Node: j})
			total += 2
			if f := first.settled(); f.Err == "" && f.Panic == "" && f.Out != encoded[i] {
				_ = enc.Encode(map[string]any{"fail": map[string]any{"round": k, "mode": "retained-result", "shape": why, "universe": u,
					"calls": []call{{Kind: 1, Node: i}, {Kind: 1, Node: j}}, "what": "the bytes returned by the first encode, read after the second encode on the same goroutine and codec",
					"got": f, "want": outcome{Out: encoded[i]}, "second": second}})
			}
		}
		ng := r.Range(2, 16)
		hot := vh.Pick(r, ms)
		calls := make([][]call, ng)
		for g := range calls {
			for n := r.Range(1, 3); n > 0; n-- {
				node := vh.Pick(r, ms)
				if r.Chance(60) {
					node = hot
				}
				c := call{Kind: r.Range(1, 3), Node: node}
				if anyRound && r.Chance(50) {
					c = call{Kind: 4, Node: node, Target: vh.Pick(r, ms)}
				}
				calls[g] = append(calls[g], c)
			}
		}
		shared := newCodec()
		mode := "codec"
		if k%4 == 3 && !anyRound {
			shared = j5codec.Global
			mode = "global"
		}
		got := make([][]outcome, ng)
		gate := make(chan struct{})
		var wg sync.WaitGroup
		for g := 0; g < ng; g++ {
			g := g
			wg.Add(1)
			go func() {
				defer wg.Done()
				<-gate
				for _, c := range calls[g] {
					got[g] = append(got[g], doCall(shared, b, encoded, c))
				}
			}()
		}
		setWhere(map[string]any{"round": k, "mode": mode, "shape": why, "universe": u, "goroutines": ng, "calls": calls})
		running.Store(1)
		close(gate)
		wg.Wait()
		running.Store(0)
		for g := range calls {
			for i, c := range calls[g] {
				total++
				want := doCall(newCodec(), b, encoded, c).settled()
				if !got[g][i].same(want) {
					_ = enc.Encode(map[string]any{"fail": map[string]any{
						"round": k, "mode": mode, "shape": why, "universe": u, "goroutines": ng, "calls": calls,
						"goroutine": g, "call": i, "got": got[g][i], "want": want,
					}})
				}
			}
		}
		// storm: when some type fails to reflect, every call on it registers and takes out
		// again its placeholders; many goroutines repeat such calls (and calls on the other
		// types) on one fresh codec, so that any window in which a failed build's leftovers
		// are visible is hit sooner or later
		bad := false
		for _, i := range ms {
			if !u.Good(i) {
				bad = true
			}
		}
		if bad {
			solo := map[call]outcome{}
			for _, i := range ms {
				for kind := 1; kind <= 3; kind++ {
					solo[call{Kind: kind, Node: i}] = doCall(newCodec(), b, encoded, call{Kind: kind, Node: i}).settled()
				}
				if anyRound {
					for _, j := range ms {
						solo[call{Kind: 4, Node: i, Target: j}] = doCall(newCodec(), b, encoded, call{Kind: 4, Node: i, Target: j}).settled()
						if *show {
							fmt.Fprintf(os.Stderr, "round %d: node %d (good %v) any of %d (good %v): %+v\n", k, i, u.Good(i), j, u.Good(j), solo[call{Kind: 4, Node: i, Target: j}])
						}
					}
				}
			}
			storm := newCodec()
			const ngs, iters = 8, 120
			type miss struct {
				g, it int
				c     call
				got   outcome
			}
			misses := make([][]miss, ngs)
			gate := make(chan struct{})
			var wg sync.WaitGroup
			for g := 0; g < ngs; g++ {
				g := g
				wg.Add(1)
				go func() {
					defer wg.Done()
					<-gate
					for it := 0; it < iters; it++ {
						c := call{Kind: 1 + (g+it)%3, Node: ms[(g*7+it)%len(ms)]}
						if anyRound && it%2 == 0 {
							// every other call carries an Any: of a type that fails half-way through the
							// nested encode, or of one that encodes
							c = call{Kind: 4, Node: ms[(g+it/2)%len(ms)], Target: ms[(g*3+it/2)%len(ms)]}
						}
						o := doCall(storm, b, encoded, c)
						if !o.same(solo[c]) && len(misses[g]) < 3 {
							misses[g] = append(misses[g], miss{g, it, c, o})
						}
					}
				}()
			}
			setWhere(map[string]any{"round": k, "mode": "storm", "shape": why, "universe": u, "goroutines": ngs, "iterations": iters})
			running.Store(1)
			close(gate)
			wg.Wait()
			running.Store(0)
			total += ngs * iters
			for _, ml := range misses {
				for _, m := range ml {
					_ = enc.Encode(map[string]any{"fail": map[string]any{
						"round": k, "mode": "storm", "shape": why, "universe": u, "goroutines": ngs, "iterations": iters,
						"goroutine": m.g, "iteration": m.it, "call": m.c, "got": m.got, "want": solo[m.c],
					}})
				}
			}
		}
	}
	_ = enc.Encode(map[string]any{"end": *rounds, "calls": total})
}

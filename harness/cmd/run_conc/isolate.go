//go:build verif

package main

// The forced-schedule stream calls the implementation from real goroutines. A Go runtime throw in the code under test
// (fatal error: concurrent map writes / concurrent map read and map write, all goroutines are asleep, stack overflow)
// cannot be recovered and kills the process that made the call. So the cases run in a child process (this binary again,
// VERIF_CONC_FORCED_CHILD=<first case>): the child reports each case as it completes, and when it dies the parent
// attributes the death to the case in flight (a direct-oracle failure whose input is that case) and starts a new child
// after it.

import (
	"bufio"
	"bytes"
	"encoding/json"
	"fmt"
	"os"
	"os/exec"
	"strconv"
	"strings"
	"sync"
	"time"

	"verifharness/vh"
)

const childEnv = "VERIF_CONC_FORCED_CHILD"

type childCase struct {
	Case   int        `json:"case"`
	Term   string     `json:"term"`
	Key    string     `json:"key"`
	Active int        `json:"active"`
	Res    *vh.Result `json:"res"`
}

// forcedChild: the child's side. One JSON line per event on stdout.
func forcedChild(specs []*caseSpec, start int, seed uint64) error {
	w := bufio.NewWriterSize(os.Stdout, 1<<20)
	enc := json.NewEncoder(w)
	for n := start; n < len(specs); n++ {
		_ = enc.Encode(map[string]any{"begin": n})
		_ = w.Flush()
		pr := vh.NewResult("C10", seed)
		term, key, active, err := forcedCase(specs[n], n, pr)
		if err != nil {
			_ = w.Flush()
			return err
		}
		_ = enc.Encode(map[string]any{"done": childCase{Case: n, Term: term, Key: key, Active: active, Res: pr}})
	}
	_ = enc.Encode(map[string]any{"end": len(specs)})
	return w.Flush()
}

func mergeCase(c *childCase, res *vh.Result, cf *vh.CasesFile, distinct vh.Distinct) {
	for k, v := range c.Res.Distribution {
		res.Distribution[k] += v
	}
	for _, f := range c.Res.Failures {
		res.Fail(f)
	}
	res.Cases = append(res.Cases, c.Res.Cases...)
	for _, s := range c.Res.Samples {
		res.Sample(s, 3)
	}
	cf.Terms = append(cf.Terms, c.Term)
	if c.Active >= 2 {
		distinct.Add(c.Key)
	}
}

// fatalLine: what the runtime said when the process died.
func fatalLine(se string) string {
	for _, l := range strings.Split(se, "\n") {
		l = strings.TrimSpace(l)
		if strings.HasPrefix(l, "fatal error: ") || strings.HasPrefix(l, "runtime: goroutine stack exceeds") {
			if strings.HasPrefix(l, "runtime: goroutine stack exceeds") {
				return "fatal error: stack overflow"
			}
			return l
		}
	}
	for _, l := range strings.Split(se, "\n") {
		if strings.HasPrefix(l, "panic: ") {
			if len(l) > 160 {
				l = l[:160]
			}
			return l
		}
	}
	return ""
}

// j5Frames: the frames of the code under test in the dump of the dying process (first occurrence of each, in order).
func j5Frames(se string, max int) []string {
	var out []string
	seen := map[string]bool{}
	for _, l := range strings.Split(se, "\n") {
		if !strings.HasPrefix(l, "github.com/pentops/j5/") {
			continue
		}
		if i := strings.LastIndex(l, "("); i > 0 {
			l = l[:i]
		}
		l = strings.TrimPrefix(l, "github.com/pentops/j5/")
		if !seen[l] {
			seen[l] = true
			out = append(out, l)
			if len(out) >= max {
				break
			}
		}
	}
	return out
}

const maxDeaths = 25 // after that many dead children the rest of the stream is not run (the run is failing anyway)

// forcedIsolated runs the forced-schedule cases in child processes and merges what they report. Returns the number of
// case numbers used (a case whose process died has a number and a failure, but no model-vs-implementation term).
func forcedIsolated(cfg *vh.Config, specs []*caseSpec, res *vh.Result, cf *vh.CasesFile, distinct vh.Distinct) (int, error) {
	if v := os.Getenv("VERIF_CONC_INPROCESS"); v != "" {
		for n, cs := range specs {
			pr := vh.NewResult("C10", cfg.Seed)
			term, key, active, err := forcedCase(cs, n, pr)
			if err != nil {
				return 0, err
			}
			mergeCase(&childCase{Case: n, Term: term, Key: key, Active: active, Res: pr}, res, cf, distinct)
		}
		return len(specs), nil
	}
	exe, err := os.Executable()
	if err != nil {
		return 0, err
	}
	start, deaths := 0, 0
	for start < len(specs) {
		cmd := exec.Command(exe, os.Args[1:]...)
		cmd.Env = append(os.Environ(), childEnv+"="+strconv.Itoa(start))
		var stderr bytes.Buffer
		cmd.Stderr = &stderr
		stdout, err := cmd.StdoutPipe()
		if err != nil {
			return 0, err
		}
		if err := cmd.Start(); err != nil {
			return 0, err
		}
		const perCase = 150 * time.Second
		var mu sync.Mutex
		timedOut := false
		timer := time.AfterFunc(perCase, func() { mu.Lock(); timedOut = true; mu.Unlock(); _ = cmd.Process.Kill() })
		inFlight, ended := -1, false
		next := start
		sc := bufio.NewScanner(stdout)
		sc.Buffer(make([]byte, 1<<20), 1<<28)
		for sc.Scan() {
			var m map[string]json.RawMessage
			if json.Unmarshal(sc.Bytes(), &m) != nil {
				continue
			}
			if v, ok := m["begin"]; ok {
				_ = json.Unmarshal(v, &inFlight)
				timer.Reset(perCase)
			}
			if v, ok := m["done"]; ok {
				var c childCase
				if err := json.Unmarshal(v, &c); err != nil || c.Res == nil {
					_ = cmd.Process.Kill()
					_ = cmd.Wait()
					return 0, fmt.Errorf("forced-schedule child: unreadable report for case %d: %v", inFlight, err)
				}
				mergeCase(&c, res, cf, distinct)
				next = c.Case + 1
				inFlight = -1
			}
			if _, ok := m["end"]; ok {
				ended = true
			}
		}
		werr := cmd.Wait()
		timer.Stop()
		mu.Lock()
		late := timedOut
		mu.Unlock()
		if ended && werr == nil {
			start = len(specs)
			break
		}
		se := stderr.String()
		if inFlight < 0 || inFlight >= len(specs) {
			// died between two cases, or the harness itself reported an error (exit 3): not the code under test
			return 0, fmt.Errorf("forced-schedule child (from case %d) ended without a case in flight: %v: %s", start, werr, tail(se, 2000))
		}
		if ee, ok := werr.(*exec.ExitError); ok && ee.ExitCode() == 3 && !late {
			return 0, fmt.Errorf("forced-schedule child: %s", tail(se, 2000))
		}
		cs := specs[inFlight]
		input := map[string]any{"universe": cs.U, "depth": cs.K, "mode": cs.Mode, "calls": cs.Calls, "schedule": cs.Sched, "why": cs.Why,
			"seed": cfg.Seed, "repeat": 200,
			"how":  "the case's threads (real goroutines) make their calls on one shared " + cs.Mode + " under the forced schedule, then run on round-robin; the process that runs them dies. run_conc -prop C10 -replay FILE repeats the case up to `repeat` times in one process"}
		what := fatalLine(se)
		sig := "C10 concurrent first use: process dies with " + what
		clause := "concurrent calls complete without runtime crashes"
		switch {
		case late:
			sig = "C10 concurrent first use: process does not finish the case within its deadline (150 s)"
			clause = "concurrent calls complete without deadlock"
			res.Count("forced:process-deadline")
		case what == "":
			sig = "C10 concurrent first use: process dies (" + fmt.Sprint(werr) + ")"
			res.Count("forced:process-dies")
		default:
			if strings.Contains(what, "all goroutines are asleep") {
				clause = "concurrent calls complete without deadlock"
			}
			res.Count("forced:process-dies")
		}
		got := map[string]any{"exit": fmt.Sprint(werr), "runtime": what, "frames_of_the_code_under_test": j5Frames(se, 12), "stderr_head": tail2(se, 1200)}
		res.Fail(vh.Failure{Case: inFlight, Stream: "forced", Sig: sig, Clause: clause, Input: input, Got: got,
			Want: "every call returns (the same calls complete when each is run alone on a fresh " + cs.Mode + ")"})
		res.Count("mode:" + cs.Mode)
		res.Count("shape:" + cs.Why)
		deaths++
		start = inFlight + 1
		_ = next
		if deaths >= maxDeaths && start < len(specs) {
			res.Notes = append(res.Notes, fmt.Sprintf("forced-schedule stream stopped after %d process deaths: cases %d..%d not run", deaths, start, len(specs)-1))
			res.Distribution["forced:not-run-after-process-deaths"] = len(specs) - start
			break
		}
	}
	return start, nil
}

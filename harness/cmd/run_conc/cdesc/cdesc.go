// Package cdesc builds real protobuf descriptors from a small type graph
// (the "type universe" of coq/model/Conc.v) and observes reflected schemas.
// It uses only public packages of pentops/j5, so that it can be linked into the
// race-detector worker, which is built without the verif tag.
package cdesc

import (
	"fmt"
	"reflect"
	"sort"
	"strings"

	"github.com/pentops/j5/gen/j5/ext/v1/ext_j5pb"
	"github.com/pentops/j5/lib/j5schema"
	"google.golang.org/protobuf/proto"
	"google.golang.org/protobuf/reflect/protodesc"
	"google.golang.org/protobuf/reflect/protoreflect"
	"google.golang.org/protobuf/reflect/protoregistry"
	"google.golang.org/protobuf/types/descriptorpb"
	"google.golang.org/protobuf/types/dynamicpb"
	"google.golang.org/protobuf/types/known/anypb"
	_ "google.golang.org/protobuf/types/known/emptypb" // registers google/protobuf/empty.proto
)

// Node kinds.
const (
	KMsg  = 0
	KEnum = 1
)

// Field shapes of a reference.
const (
	FSingle = 0
	FList   = 1
	FMap    = 2 // map<string, M> (messages only)
)

// Node is one type of the universe. Node i has the model name i+1 (the model
// reserves the name 0 for a field of an unsupported type).
type Node struct {
	Kind  int   `json:"kind"`
	Pkg   int   `json:"pkg"`
	Refs  []int `json:"refs"`  // referenced nodes, in field order (messages only)
	Shape []int `json:"shape"` // per reference: FSingle/FList/FMap

	// Wrapper: every field is a member of one oneof named "type" (a j5 oneof wrapper message: no label
	// field, all references single messages); reflected as a OneofSchema whose properties are the members.
	// Expose: groups of consecutive positions in Refs (FSingle) that form a proto oneof with
	// (j5.ext.v1.oneof).expose = true, which the reflector registers (up front, linked at once) as a schema
	// of its own, named <Message>_<oneof>; the model name of group gi of node i is OneofName(i, gi).
	Expose  [][]int `json:"expose,omitempty"`
	Wrapper bool    `json:"wrapper,omitempty"`

	// Any: the message also has a field `anyf` of type google.protobuf.Any (reflected as an AnyField: no
	// reference to another schema). Encoding it resolves the inner type with the codec's resolver and runs
	// a nested encode on the same codec. Only the goroutine rounds of the worker use it.
	Any bool `json:"any,omitempty"`

	// Bad = k > 0: a field of type google.protobuf.Empty, which the reflector rejects
	// ("unsupported google type"), is declared after the first k-1 references: the type
	// cannot be reflected, nor can any type from which it is reachable.
	Bad int `json:"bad,omitempty"`

	// Nest = p+1 > 0: the message is declared INSIDE message node p (same package), under the name N<i>:
	// protobuf full name pkg.M<p>.N<i>, schema name (the descriptor path joined by "_") pkg.M<p>_N<i>.
	// Twin = a+1 > 0: a top-level message of the package of the nested node a whose NAME is M<p>_N<a>:
	// another descriptor with the very schema name of node a (a split-name collision; valid protobuf).
	// The cache key of both is the model name of a (Key).
	Nest int `json:"nest,omitempty"`
	Twin int `json:"twin,omitempty"`
}

// Name is the model's name of node i.
func Name(i int) int { return i + 1 }

// OneofName is the model's name of the exposed oneof gi of node i.
func OneofName(i, gi int) int { return 100*(i+1) + gi + 1 }

// Rich reports whether the universe has exposed oneofs. (In the Coq model an exposed oneof is
// a leaf cell registered before the fields of its message, its members are processed in the
// message's field loop, and results are regrouped by ConcCorr.regroup. A oneof wrapper message
// registers and links its member types exactly like an object with those fields.)
func (u *Universe) Rich() bool {
	for _, n := range u.Nodes {
		if len(n.Expose) > 0 {
			return true
		}
	}
	return false
}

// Universe is the type graph. Files may not import each other cyclically, so a
// reference i -> j is allowed only if Pkg(i) >= Pkg(j); cycles live inside one package.
type Universe struct {
	Tag   string `json:"tag"` // distinguishes package names of different universes
	Nodes []Node `json:"nodes"`
}

// Built holds the linked descriptors of a universe.
type Built struct {
	U     *Universe
	Files *protoregistry.Files
	Msg   map[int]protoreflect.MessageDescriptor
	ids   map[string]int // j5 full name ("pkg.Name") -> model name
}

func (u *Universe) pkgName(p int) string { return fmt.Sprintf("conc%s.p%d.v1", u.Tag, p) }
func (u *Universe) typeName(i int) string {
	n := u.Nodes[i]
	switch {
	case n.Kind == KEnum:
		return fmt.Sprintf("E%d", i)
	case n.Nest > 0:
		return fmt.Sprintf("N%d", i)
	case n.Twin > 0:
		return u.splitName(n.Twin - 1)
	}
	return fmt.Sprintf("M%d", i)
}

// splitName is the schema name of node i inside its package: the descriptor path joined by "_".
func (u *Universe) splitName(i int) string {
	if p := u.Nodes[i].Nest; p > 0 {
		return u.splitName(p-1) + "_" + u.typeName(i)
	}
	return u.typeName(i)
}

// FullName is the protobuf full name of node i.
func (u *Universe) FullName(i int) string {
	if p := u.Nodes[i].Nest; p > 0 {
		return u.FullName(p-1) + "." + u.typeName(i)
	}
	return u.pkgName(u.Nodes[i].Pkg) + "." + u.typeName(i)
}

// Key is the model name of the cache key of node i: its own name, except for the twin of a nested
// message, which shares the key of that message.
func (u *Universe) Key(i int) int {
	if t := u.Nodes[i].Twin; t > 0 {
		return Name(t - 1)
	}
	return Name(i)
}

// Collides reports whether two descriptors of the universe share a schema name.
func (u *Universe) Collides() bool {
	for _, n := range u.Nodes {
		if n.Twin > 0 {
			return true
		}
	}
	return false
}

// ReachesCollision reports whether a node with a shared schema name is reachable from node i (i included).
func (u *Universe) ReachesCollision(i int) bool {
	shared := map[int]bool{}
	for j, n := range u.Nodes {
		if n.Twin > 0 {
			shared[j] = true
			shared[n.Twin-1] = true
		}
	}
	seen := map[int]bool{}
	var visit func(i int) bool
	visit = func(i int) bool {
		if shared[i] {
			return true
		}
		if seen[i] {
			return false
		}
		seen[i] = true
		for _, j := range u.Nodes[i].Refs {
			if visit(j) {
				return true
			}
		}
		return false
	}
	return visit(i)
}

// CoqKeys renders the key table as a coq term of type ConcKey.keymap (descriptor -> key, identity elsewhere).
func (u *Universe) CoqKeys() string {
	var parts []string
	for i := range u.Nodes {
		if k := u.Key(i); k != Name(i) {
			parts = append(parts, fmt.Sprintf("(%d,%d)", Name(i), k))
		}
	}
	return "[" + strings.Join(parts, ";") + "]"
}

// Valid reports whether the universe can be turned into descriptor files.
func (u *Universe) Valid() error {
	for i, n := range u.Nodes {
		if n.Kind == KEnum && len(n.Refs) > 0 {
			return fmt.Errorf("enum node %d has references", i)
		}
		if len(n.Shape) != len(n.Refs) {
			return fmt.Errorf("node %d: shape/refs length", i)
		}
		for k, j := range n.Refs {
			if j < 0 || j >= len(u.Nodes) {
				return fmt.Errorf("node %d: reference out of range", i)
			}
			if u.Nodes[j].Pkg > n.Pkg {
				return fmt.Errorf("node %d -> %d crosses packages upwards", i, j)
			}
			if u.Nodes[j].Kind == KEnum && n.Shape[k] == FMap {
				return fmt.Errorf("node %d: map of enum", i)
			}
			if n.Wrapper && (n.Shape[k] != FSingle || u.Nodes[j].Kind != KMsg) {
				return fmt.Errorf("node %d: wrapper member %d is not a single message", i, k)
			}
		}
		if n.Bad < 0 || n.Bad > len(n.Refs)+1 || (n.Bad > 0 && (n.Kind != KMsg || n.Wrapper || len(n.Expose) > 0)) {
			return fmt.Errorf("node %d: bad position", i)
		}
		if n.Wrapper && (len(n.Refs) == 0 || len(n.Expose) > 0) {
			return fmt.Errorf("node %d: bad wrapper", i)
		}
		if n.Nest > 0 {
			if n.Kind != KMsg || n.Twin > 0 || n.Nest-1 >= len(u.Nodes) || n.Nest-1 == i {
				return fmt.Errorf("node %d: bad nesting", i)
			}
			if p := u.Nodes[n.Nest-1]; p.Kind != KMsg || p.Pkg != n.Pkg || p.Nest > 0 || p.Twin > 0 {
				return fmt.Errorf("node %d: bad parent", i)
			}
		}
		if n.Twin > 0 {
			if n.Kind != KMsg || n.Twin-1 >= len(u.Nodes) {
				return fmt.Errorf("node %d: bad twin", i)
			}
			if a := u.Nodes[n.Twin-1]; a.Nest == 0 || a.Pkg != n.Pkg {
				return fmt.Errorf("node %d: twin of a message that is not nested in the same package", i)
			}
		}
		seen := map[int]bool{}
		for _, grp := range n.Expose {
			if len(grp) == 0 {
				return fmt.Errorf("node %d: empty oneof", i)
			}
			for gi, k := range grp {
				if k < 0 || k >= len(n.Refs) || n.Shape[k] != FSingle || seen[k] || (gi > 0 && grp[gi-1] != k-1) {
					return fmt.Errorf("node %d: bad oneof member %d", i, k)
				}
				seen[k] = true
			}
		}
	}
	return nil
}

// withGlobal resolves in the universe's own files first, then in the global registry
// (for j5/ext/v1/annotations.proto).
type withGlobal struct{ local *protoregistry.Files }

func (w withGlobal) FindFileByPath(p string) (protoreflect.FileDescriptor, error) {
	if f, err := w.local.FindFileByPath(p); err == nil {
		return f, nil
	}
	return protoregistry.GlobalFiles.FindFileByPath(p)
}

func (w withGlobal) FindDescriptorByName(n protoreflect.FullName) (protoreflect.Descriptor, error) {
	if d, err := w.local.FindDescriptorByName(n); err == nil {
		return d, nil
	}
	return protoregistry.GlobalFiles.FindDescriptorByName(n)
}

// Build links the universe into descriptors.
func (u *Universe) Build() (*Built, error) {
	if err := u.Valid(); err != nil {
		return nil, err
	}
	npkg := 0
	for _, n := range u.Nodes {
		if n.Pkg+1 > npkg {
			npkg = n.Pkg + 1
		}
	}
	files := &protoregistry.Files{}
	b := &Built{U: u, Files: files, Msg: map[int]protoreflect.MessageDescriptor{}, ids: map[string]int{}}
	for p := 0; p < npkg; p++ {
		fd := &descriptorpb.FileDescriptorProto{
			Name:    proto.String(fmt.Sprintf("conc%s/p%d/v1/types.proto", u.Tag, p)),
			Package: proto.String(u.pkgName(p)),
			Syntax:  proto.String("proto3"),
		}
		deps := map[int]bool{}
		usesExt := false
		usesStruct := false
		usesAny := false
		mds := map[int]*descriptorpb.DescriptorProto{}
		for i, n := range u.Nodes {
			if n.Pkg != p {
				continue
			}
			if n.Kind == KEnum {
				pre := strings.ToUpper(u.typeName(i))
				fd.EnumType = append(fd.EnumType, &descriptorpb.EnumDescriptorProto{
					Name: proto.String(u.typeName(i)),
					Value: []*descriptorpb.EnumValueDescriptorProto{
						{Name: proto.String(pre + "_UNSPECIFIED"), Number: proto.Int32(0)},
						{Name: proto.String(pre + "_ONE"), Number: proto.Int32(1)},
						{Name: proto.String(pre + "_TWO"), Number: proto.Int32(2)},
					},
				})
				continue
			}
			md := &descriptorpb.DescriptorProto{Name: proto.String(u.typeName(i))}
			oneofOf := map[int]int32{}
			if n.Wrapper {
				md.OneofDecl = append(md.OneofDecl, &descriptorpb.OneofDescriptorProto{Name: proto.String("type")})
				for k := range n.Refs {
					oneofOf[k] = 0
				}
			} else {
				md.Field = append(md.Field, &descriptorpb.FieldDescriptorProto{
					Name: proto.String("label"), JsonName: proto.String("label"), Number: proto.Int32(1),
					Type:  descriptorpb.FieldDescriptorProto_TYPE_STRING.Enum(),
					Label: descriptorpb.FieldDescriptorProto_LABEL_OPTIONAL.Enum(),
				})
			}
			for gi, grp := range n.Expose {
				opts := &descriptorpb.OneofOptions{}
				proto.SetExtension(opts, ext_j5pb.E_Oneof, &ext_j5pb.OneofOptions{Expose: true})
				md.OneofDecl = append(md.OneofDecl, &descriptorpb.OneofDescriptorProto{Name: proto.String(fmt.Sprintf("x%d", gi)), Options: opts})
				for _, k := range grp {
					oneofOf[k] = int32(gi)
				}
				usesExt = true
			}
			addBad := func() {
				md.Field = append(md.Field, &descriptorpb.FieldDescriptorProto{
					Name: proto.String("unsup"), JsonName: proto.String("unsup"), Number: proto.Int32(900),
					Type:     descriptorpb.FieldDescriptorProto_TYPE_MESSAGE.Enum(),
					TypeName: proto.String(".google.protobuf.Empty"),
					Label:    descriptorpb.FieldDescriptorProto_LABEL_OPTIONAL.Enum(),
				})
				usesStruct = true
			}
			for k, j := range n.Refs {
				if n.Bad == k+1 {
					addBad()
				}
				if u.Nodes[j].Pkg != p {
					deps[u.Nodes[j].Pkg] = true
				}
				fname := fmt.Sprintf("r%d", k)
				f := &descriptorpb.FieldDescriptorProto{
					Name: proto.String(fname), JsonName: proto.String(fname), Number: proto.Int32(int32(2 + k)),
					Label: descriptorpb.FieldDescriptorProto_LABEL_OPTIONAL.Enum(),
				}
				if oi, ok := oneofOf[k]; ok {
					f.OneofIndex = proto.Int32(oi)
				}
				target := "." + u.FullName(j)
				if u.Nodes[j].Kind == KEnum {
					f.Type = descriptorpb.FieldDescriptorProto_TYPE_ENUM.Enum()
					f.TypeName = proto.String(target)
				} else {
					f.Type = descriptorpb.FieldDescriptorProto_TYPE_MESSAGE.Enum()
					f.TypeName = proto.String(target)
				}
				switch n.Shape[k] {
				case FList:
					f.Label = descriptorpb.FieldDescriptorProto_LABEL_REPEATED.Enum()
				case FMap:
					entry := fmt.Sprintf("R%dEntry", k)
					md.NestedType = append(md.NestedType, &descriptorpb.DescriptorProto{
						Name: proto.String(entry),
						Field: []*descriptorpb.FieldDescriptorProto{
							{Name: proto.String("key"), JsonName: proto.String("key"), Number: proto.Int32(1),
								Type: descriptorpb.FieldDescriptorProto_TYPE_STRING.Enum(), Label: descriptorpb.FieldDescriptorProto_LABEL_OPTIONAL.Enum()},
							{Name: proto.String("value"), JsonName: proto.String("value"), Number: proto.Int32(2),
								Type: descriptorpb.FieldDescriptorProto_TYPE_MESSAGE.Enum(), TypeName: proto.String(target), Label: descriptorpb.FieldDescriptorProto_LABEL_OPTIONAL.Enum()},
						},
						Options: &descriptorpb.MessageOptions{MapEntry: proto.Bool(true)},
					})
					f.Label = descriptorpb.FieldDescriptorProto_LABEL_REPEATED.Enum()
					f.TypeName = proto.String("." + u.FullName(i) + "." + entry)
				}
				md.Field = append(md.Field, f)
			}
			if n.Bad == len(n.Refs)+1 {
				addBad()
			}
			if n.Any && !n.Wrapper {
				md.Field = append(md.Field, &descriptorpb.FieldDescriptorProto{
					Name: proto.String("anyf"), JsonName: proto.String("anyf"), Number: proto.Int32(800),
					Type:     descriptorpb.FieldDescriptorProto_TYPE_MESSAGE.Enum(),
					TypeName: proto.String(".google.protobuf.Any"),
					Label:    descriptorpb.FieldDescriptorProto_LABEL_OPTIONAL.Enum(),
				})
				usesAny = true
			}
			mds[i] = md
		}
		for i, n := range u.Nodes {
			md, ok := mds[i]
			if !ok {
				continue
			}
			if n.Nest > 0 {
				mds[n.Nest-1].NestedType = append(mds[n.Nest-1].NestedType, md)
			} else {
				fd.MessageType = append(fd.MessageType, md)
			}
		}
		var ds []int
		for d := range deps {
			ds = append(ds, d)
		}
		sort.Ints(ds)
		for _, d := range ds {
			fd.Dependency = append(fd.Dependency, fmt.Sprintf("conc%s/p%d/v1/types.proto", u.Tag, d))
		}
		if usesExt {
			fd.Dependency = append(fd.Dependency, "j5/ext/v1/annotations.proto")
		}
		if usesStruct {
			fd.Dependency = append(fd.Dependency, "google/protobuf/empty.proto")
		}
		if usesAny {
			fd.Dependency = append(fd.Dependency, "google/protobuf/any.proto")
		}
		file, err := protodesc.NewFile(fd, withGlobal{files})
		if err != nil {
			return nil, fmt.Errorf("package %d: %w", p, err)
		}
		if err := files.RegisterFile(file); err != nil {
			return nil, err
		}
	}
	for i, n := range u.Nodes {
		b.ids[u.pkgName(n.Pkg)+"."+u.splitName(i)] = u.Key(i)
		for gi := range n.Expose {
			b.ids[fmt.Sprintf("%s.%s_x%d", u.pkgName(n.Pkg), u.typeName(i), gi)] = OneofName(i, gi)
		}
		if n.Kind != KMsg {
			continue
		}
		d, err := files.FindDescriptorByName(protoreflect.FullName(u.FullName(i)))
		if err != nil {
			return nil, err
		}
		b.Msg[i] = d.(protoreflect.MessageDescriptor)
	}
	return b, nil
}

// ---------------------------------------------------------------- observation

// Tree is the unfolding of a reflected schema (coq: utree).
type Tree struct {
	Tag  string // "node", "cut", "unlinked", "bad"
	Name int
	Kids []*Tree
}

func (t *Tree) Coq() string {
	switch t.Tag {
	case "node":
		ks := make([]string, len(t.Kids))
		for i, k := range t.Kids {
			ks[i] = k.Coq()
		}
		return fmt.Sprintf("UNode %d [%s]", t.Name, strings.Join(ks, ";"))
	case "cut":
		return fmt.Sprintf("UCut %d", t.Name)
	case "unlinked":
		return fmt.Sprintf("UUnlinked %d", t.Name)
	}
	return "UBad"
}

func (t *Tree) String() string {
	switch t.Tag {
	case "node":
		ks := make([]string, len(t.Kids))
		for i, k := range t.Kids {
			ks[i] = k.String()
		}
		return fmt.Sprintf("%d(%s)", t.Name, strings.Join(ks, ","))
	case "cut":
		return fmt.Sprintf("%d..", t.Name)
	case "unlinked":
		return fmt.Sprintf("%d=NIL", t.Name)
	}
	return "BAD"
}

// Linked reports whether no reference in the unfolding is unlinked.
func (t *Tree) Linked() bool {
	if t.Tag == "unlinked" || t.Tag == "bad" {
		return false
	}
	for _, k := range t.Kids {
		if !k.Linked() {
			return false
		}
	}
	return true
}

func (b *Built) id(full string) int {
	if n, ok := b.ids[full]; ok {
		return n
	}
	return 999999
}

// refsOf lists the RefSchemas the ref-typed fields of a root schema point to, in field order.
func refsOf(root j5schema.RootSchema) ([]*j5schema.RefSchema, bool) {
	var props []*j5schema.ObjectProperty
	switch s := root.(type) {
	case *j5schema.ObjectSchema:
		props = s.Properties
	case *j5schema.OneofSchema:
		props = s.Properties
	case *j5schema.EnumSchema:
		return nil, true
	default:
		return nil, false
	}
	var out []*j5schema.RefSchema
	var field func(f j5schema.FieldSchema)
	field = func(f j5schema.FieldSchema) {
		switch ft := f.(type) {
		case *j5schema.ObjectField:
			out = append(out, ft.Ref)
		case *j5schema.OneofField:
			out = append(out, ft.Ref)
		case *j5schema.EnumField:
			out = append(out, ft.Ref)
		case *j5schema.ArrayField:
			field(ft.Schema)
		case *j5schema.MapField:
			field(ft.Schema)
		}
	}
	for _, p := range props {
		field(p.Schema)
	}
	return out, true
}

// UnfoldRef is coq's unfold: the tree below a RefSchema, to depth k.
func (b *Built) UnfoldRef(k int, ref *j5schema.RefSchema) *Tree {
	if ref == nil {
		return &Tree{Tag: "bad"}
	}
	name := b.id(ref.FullName())
	if nilSchema(ref.To) {
		// To == nil, or the typed nil pointer a failed build leaves: no usable schema
		return &Tree{Tag: "unlinked", Name: name}
	}
	return b.unfoldRoot(k, name, ref.To)
}

func (b *Built) unfoldRoot(k int, name int, root j5schema.RootSchema) *Tree {
	if k == 0 {
		return &Tree{Tag: "cut", Name: name}
	}
	refs, ok := refsOf(root)
	if !ok {
		return &Tree{Tag: "bad"}
	}
	t := &Tree{Tag: "node", Name: name, Kids: []*Tree{}}
	for _, r := range refs {
		t.Kids = append(t.Kids, b.UnfoldRef(k-1, r))
	}
	return t
}

// UnfoldRoot is the unfolding of a schema returned by SchemaCache.Schema.
func (b *Built) UnfoldRoot(k int, root j5schema.RootSchema) *Tree {
	if nilSchema(root) {
		return &Tree{Tag: "bad"}
	}
	return b.unfoldRoot(k, b.id(root.FullName()), root)
}

// NilSchema reports whether s is nil or the typed nil pointer that a failed build leaves in To.
func NilSchema(s j5schema.RootSchema) bool { return nilSchema(s) }

func nilSchema(s j5schema.RootSchema) bool {
	if s == nil {
		return true
	}
	v := reflect.ValueOf(s)
	return v.Kind() == reflect.Ptr && v.IsNil()
}

// Good reports whether node i can be reflected: no node reachable from it has an unsupported field.
func (u *Universe) Good(i int) bool {
	seen := map[int]bool{}
	var visit func(i int) bool
	visit = func(i int) bool {
		if seen[i] {
			return true
		}
		seen[i] = true
		if u.Nodes[i].Bad > 0 {
			return false
		}
		for _, j := range u.Nodes[i].Refs {
			if !visit(j) {
				return false
			}
		}
		return true
	}
	return visit(i)
}

// GUnfold is coq's gunfold: the unfolding read off the universe.
func (u *Universe) GUnfold(k int, i int) *Tree {
	if k == 0 {
		return &Tree{Tag: "cut", Name: Name(i)}
	}
	t := &Tree{Tag: "node", Name: Name(i), Kids: []*Tree{}}
	for _, j := range u.Nodes[i].Refs {
		t.Kids = append(t.Kids, u.GUnfold(k-1, j))
	}
	return t
}

// CoqGraph renders the universe as a coq graph term. A message with exposed oneofs refers
// first to its oneofs (leaf nodes of their own), then to its field types.
func (u *Universe) CoqGraph() string {
	var parts []string
	for i, n := range u.Nodes {
		var rs []string
		for gi := range n.Expose {
			rs = append(rs, fmt.Sprint(OneofName(i, gi)))
		}
		for k, j := range n.Refs {
			if n.Bad == k+1 {
				rs = append(rs, "0")
			}
			rs = append(rs, fmt.Sprint(Name(j)))
		}
		if n.Bad == len(n.Refs)+1 {
			rs = append(rs, "0")
		}
		parts = append(parts, fmt.Sprintf("(%d,[%s])", Name(i), strings.Join(rs, ";")))
		for gi := range n.Expose {
			parts = append(parts, fmt.Sprintf("(%d,[])", OneofName(i, gi)))
		}
	}
	return "[" + strings.Join(parts, ";") + "]"
}

// CoqExpo renders the exposed oneofs as a coq term of type ConcCorr.expo:
// per message, in order of declaration, (oneof name, position of its first member among the fields, number of members).
func (u *Universe) CoqExpo() string {
	var parts []string
	for i, n := range u.Nodes {
		if len(n.Expose) == 0 {
			continue
		}
		var gs []string
		for gi, grp := range n.Expose {
			gs = append(gs, fmt.Sprintf("(%d,%d,%d)", OneofName(i, gi), grp[0], len(grp)))
		}
		parts = append(parts, fmt.Sprintf("(%d,[%s])", Name(i), strings.Join(gs, ";")))
	}
	return "[" + strings.Join(parts, ";") + "]"
}

// ---------------------------------------------------------------- messages

// Populate returns a message of node i with every reference field set, to the given depth.
func (b *Built) Populate(i int, depth int) protoreflect.Message {
	md := b.Msg[i]
	msg := dynamicpb.NewMessage(md)
	n := b.U.Nodes[i]
	if !n.Wrapper {
		msg.Set(md.Fields().ByName("label"), protoreflect.ValueOfString(fmt.Sprintf("n%d", i)))
	}
	if depth <= 0 {
		return msg
	}
	skip := map[int]bool{} // only the first member of a oneof is set
	for _, grp := range n.Expose {
		for _, k := range grp[1:] {
			skip[k] = true
		}
	}
	for k, j := range n.Refs {
		if skip[k] || (n.Wrapper && k > 0) {
			continue
		}
		fd := md.Fields().ByName(protoreflect.Name(fmt.Sprintf("r%d", k)))
		isEnum := b.U.Nodes[j].Kind == KEnum
		switch n.Shape[k] {
		case FSingle:
			if isEnum {
				msg.Set(fd, protoreflect.ValueOfEnum(1))
			} else {
				msg.Set(fd, protoreflect.ValueOfMessage(b.Populate(j, depth-1)))
			}
		case FList:
			l := msg.Mutable(fd).List()
			if isEnum {
				l.Append(protoreflect.ValueOfEnum(2))
			} else {
				l.Append(protoreflect.ValueOfMessage(b.Populate(j, depth-1)))
			}
		case FMap:
			m := msg.Mutable(fd).Map()
			m.Set(protoreflect.ValueOfString("k").MapKey(), protoreflect.ValueOfMessage(b.Populate(j, depth-1)))
		}
	}
	return msg
}

// PopulateWithAny is Populate(i, depth) with the Any field holding a populated message of node target.
func (b *Built) PopulateWithAny(i, target, depth int) (protoreflect.Message, error) {
	msg := b.Populate(i, depth)
	fd := msg.Descriptor().Fields().ByName("anyf")
	if fd == nil {
		return msg, nil
	}
	inner, err := anypb.New(b.Populate(target, 1).Interface())
	if err != nil {
		return nil, err
	}
	msg.Set(fd, protoreflect.ValueOfMessage(inner.ProtoReflect()))
	return msg, nil
}

// Types resolves the message types of the universe (for codecs that decode Any payloads).
func (b *Built) Types() *dynamicpb.Types { return dynamicpb.NewTypes(b.Files) }

// New returns an empty message of node i.
func (b *Built) New(i int) protoreflect.Message { return dynamicpb.NewMessage(b.Msg[i]) }
